/-
  C17 — `~CachedPageAllocator`: from a quiescent queue (shape `QShape`, the bounded-queue invariant C01
  `bq_inv` at quiescence) the destructor, running alone, pops every cached page and returns it upstream.
  Ticket-status invariant over the window `[P0, P0 + cap)` of tickets, `P0` = pop index at entry.
-/
import Babylon.Pages.Count

namespace Babylon.Pages
open Babylon.Core

/-! ### arithmetic of a window of `cap` consecutive tickets -/
theorem window_inj {cap a b P0 : Nat} (h0 : 0 < cap) (ha : P0 ≤ a) (ha' : a < P0 + cap) (hb : P0 ≤ b) (hb' : b < P0 + cap)
    (h : a % cap = b % cap) : a = b := by
  rcases Nat.le_total a b with hab | hab
  · have h1 : (b - a) % cap = 0 := Nat.sub_mod_eq_zero_of_mod_eq h.symm
    have h2 : b - a < cap := by omega
    have := Nat.eq_zero_of_dvd_of_lt (Nat.dvd_of_mod_eq_zero h1) h2
    omega
  · have h1 : (a - b) % cap = 0 := Nat.sub_mod_eq_zero_of_mod_eq h
    have h2 : a - b < cap := by omega
    have := Nat.eq_zero_of_dvd_of_lt (Nat.dvd_of_mod_eq_zero h1) h2
    omega

theorem window_surj {cap k P0 : Nat} (hk : k < cap) : ∃ T, P0 ≤ T ∧ T < P0 + cap ∧ T % cap = k := by
  have hdm := Nat.div_add_mod P0 cap
  have hr : P0 % cap < cap := Nat.mod_lt _ (by omega)
  by_cases hkr : P0 % cap ≤ k
  · refine ⟨cap * (P0 / cap) + k, by omega, by omega, ?_⟩
    rw [Nat.mul_add_mod]; exact Nat.mod_eq_of_lt hk
  · refine ⟨cap * (P0 / cap + 1) + k, ?_, ?_, ?_⟩
    · rw [Nat.mul_add, Nat.mul_one]; omega
    · rw [Nat.mul_add, Nat.mul_one]; omega
    · rw [Nat.mul_add_mod]; exact Nat.mod_eq_of_lt hk

/-! ### ticket status -/
inductive TS | done | taken | acquired | fresh
  deriving DecidableEq

/-- what the slot of ticket `T` looks like in each status (`W` = push index, constant during the destructor) -/
def tsOK (c : Cfg) (t : Tid) (W T : Nat) (sl : Slot) : TS → Prop
  | .done => sl.ver = expVer c.cap T .pop + 1 ∧ sl.val = none ∧ sl.owner = none
  | .taken => sl.ver = expVer c.cap T .pop ∧ sl.val = none ∧ sl.owner = some ⟨t, T, .pop⟩
  | .acquired => sl.ver = expVer c.cap T .pop ∧ sl.val.isSome = true ∧ sl.owner = some ⟨t, T, .pop⟩
  | .fresh => sl.owner = none ∧
      (if T < W then sl.ver = expVer c.cap T .pop ∧ sl.val.isSome = true else sl.ver = expVer c.cap T .push ∧ sl.val = none)

/-- the status the control state assigns to ticket `T` -/
def statusOf (th : Th) (T : Nat) : TS :=
  if T < th.j then .done else
  match th.pc with
  | .dVer => if T < th.j + th.i then .acquired else .fresh
  | .dClaim => if T < th.j + th.num then .acquired else .fresh
  | .dAcq => if T < th.j + th.num then .acquired else .fresh
  | .dCb => if T < th.j + th.i then .taken else if T < th.j + th.num then .acquired else .fresh
  | .dRel => if T < th.j + th.num then .taken else .fresh
  | .dSt => if T < th.j + th.i then .done else if T < th.j + th.num then .taken else .fresh
  | .retWait => if T < th.j + th.i then .done else .fresh
  | _ => .fresh

/-- quiescent shape of the queue: the assumed bounded-queue invariant (C01 `bq_inv`) at a quiescent point -/
def QShape (c : Cfg) (s : State) : Prop :=
  0 < c.cap ∧ s.slots.length = c.cap ∧ s.popIdx ≤ s.pushIdx ∧ s.pushIdx ≤ s.popIdx + c.cap ∧
  ∀ T, s.popIdx ≤ T → T < s.popIdx + c.cap → ∃ sl, s.slots[T % c.cap]? = some sl ∧ sl.owner = none ∧
    (if T < s.pushIdx then sl.ver = expVer c.cap T .pop ∧ sl.val.isSome = true
     else sl.ver = expVer c.cap T .push ∧ sl.val = none)

/-- the executable check of the replay driver implies the hypothesis of the destructor theorem -/
theorem qshapeB_sound {c : Cfg} {s : State} (h : qshapeB c s = true) : QShape c s := by
  unfold qshapeB at h
  simp only [Bool.and_eq_true, decide_eq_true_eq, beq_iff_eq, List.all_eq_true, List.mem_range] at h
  obtain ⟨⟨⟨⟨h0, h1⟩, h2⟩, h3⟩, h4⟩ := h
  refine ⟨h0, h3, h1, h2, fun T hT1 hT2 => ?_⟩
  have := h4 (T - s.popIdx) (by omega)
  have e : s.popIdx + (T - s.popIdx) = T := by omega
  rw [e] at this
  cases hsl : s.slots[T % c.cap]? with
  | none => rw [hsl] at this; simp at this
  | some sl =>
    rw [hsl] at this
    simp only [Bool.and_eq_true, beq_iff_eq] at this
    refine ⟨sl, rfl, this.1, ?_⟩
    by_cases hlt : T < s.pushIdx
    · rw [if_pos hlt] at this ⊢
      simp only [Bool.and_eq_true, beq_iff_eq] at this
      exact this.2
    · rw [if_neg hlt] at this ⊢
      simp only [Bool.and_eq_true, beq_iff_eq] at this
      exact this.2

structure DInv (c : Cfg) (t : Tid) (P0 W : Nat) (s : State) : Prop where
  cap : 0 < c.cap
  len : s.slots.length = c.cap
  win : P0 ≤ W ∧ W ≤ P0 + c.cap
  pcD : (s.th t).pc.inD = true ∨ (s.th t).pc = .retWait
  notIdx : (s.th t).pc ≠ .dIdx
  lo : P0 ≤ (s.th t).j
  hi : (s.th t).pc ≠ .retWait → (s.th t).j + (s.th t).num + (s.th t).rest ≤ P0 + c.cap ∧ 0 < (s.th t).num ∧
        (s.th t).i ≤ (s.th t).num
  ilt : ((s.th t).pc = .dVer ∨ (s.th t).pc = .dCb ∨ (s.th t).pc = .dSt) → (s.th t).i < (s.th t).num
  full : (s.th t).pc = .dVer → (s.th t).j + (s.th t).num + (s.th t).rest = P0 + c.cap
  trunc : (s.th t).pc ≠ .dVer → (s.th t).pc ≠ .retWait →
        ((s.th t).j + (s.th t).num + (s.th t).rest = P0 + c.cap ∨ ((s.th t).rest = 0 ∧ W ≤ (s.th t).j + (s.th t).num))
  fin : (s.th t).pc = .retWait → W ≤ (s.th t).j + (s.th t).i ∧ (s.th t).j + (s.th t).i ≤ P0 + c.cap
  slots : ∀ T, P0 ≤ T → T < P0 + c.cap → ∃ sl, s.slots[T % c.cap]? = some sl ∧ tsOK c t W T sl (statusOf (s.th t) T)


/-- the slot clause after replacing the slot of one ticket -/
theorem slots_update {c : Cfg} {t : Tid} {W P0 T0 : Nat} {l : List Slot} {th th' : Th} {sl' : Slot}
    (hcap : 0 < c.cap) (hlen : l.length = c.cap)
    (hold : ∀ T, P0 ≤ T → T < P0 + c.cap → ∃ sl, l[T % c.cap]? = some sl ∧ tsOK c t W T sl (statusOf th T))
    (hT0 : P0 ≤ T0 ∧ T0 < P0 + c.cap) (hnew : tsOK c t W T0 sl' (statusOf th' T0))
    (hsame : ∀ T, T ≠ T0 → statusOf th' T = statusOf th T) :
    ∀ T, P0 ≤ T → T < P0 + c.cap → ∃ sl, (l.set (T0 % c.cap) sl')[T % c.cap]? = some sl ∧ tsOK c t W T sl (statusOf th' T) := by
  intro T h1 h2
  by_cases e : T = T0
  · subst e
    refine ⟨sl', ?_, hnew⟩
    rw [List.getElem?_set_self]
    rw [hlen]; exact Nat.mod_lt _ hcap
  · obtain ⟨sl, hsl, hok⟩ := hold T h1 h2
    refine ⟨sl, ?_, by rw [hsame T e]; exact hok⟩
    rw [List.getElem?_set_ne]
    · exact hsl
    · intro hm
      exact e (window_inj hcap h1 h2 hT0.1 hT0.2 hm.symm)

theorem slots_same {c : Cfg} {t : Tid} {W P0 : Nat} {l : List Slot} {th th' : Th}
    (hold : ∀ T, P0 ≤ T → T < P0 + c.cap → ∃ sl, l[T % c.cap]? = some sl ∧ tsOK c t W T sl (statusOf th T))
    (hsame : ∀ T, statusOf th' T = statusOf th T) :
    ∀ T, P0 ≤ T → T < P0 + c.cap → ∃ sl, l[T % c.cap]? = some sl ∧ tsOK c t W T sl (statusOf th' T) := by
  intro T h1 h2
  obtain ⟨sl, hsl, hok⟩ := hold T h1 h2
  exact ⟨sl, hsl, by rw [hsame T]; exact hok⟩

theorem expVer_pop_ne_push (cap T : Nat) : expVer cap T .push ≠ expVer cap T .pop := by
  rw [expVer_pop, expVer_push]; omega

/-- entering the destructor from a quiescent queue -/
theorem dInv_entry {c : Cfg} {s s' : State} {t : Tid} {tok : Tok} {spur : Bool} {l : Option Act}
    (hq : QShape c s) (hpc : (s.th t).pc = .dIdx) (h : stepThread c s t tok spur = some (s', l)) :
    DInv c t s.popIdx s.pushIdx s' := by
  obtain ⟨hcap, hlen, h1, h2, hsl⟩ := hq
  unfold stepThread at h; dsimp only at h
  rw [hpc] at h; dsimp only at h
  unfold stepDIdx at h; dsimp only at h
  simp only [Option.some.injEq, Prod.mk.injEq] at h
  obtain ⟨hres, -⟩ := h; subst hres
  have hsum := splitRing_sum c.cap s.popIdx c.cap hcap
  have hpos : 0 < (splitRing c.cap s.popIdx c.cap).1 := by
    unfold splitRing; dsimp only
    have hlt : s.popIdx < (s.popIdx / c.cap + 1) * c.cap := by
      have := Nat.lt_mul_div_succ s.popIdx hcap
      rw [Nat.mul_comm]; exact this
    split <;> simp only <;> omega
  refine ⟨hcap, hlen, ⟨h1, h2⟩, Or.inl (by simp [State.setTh]), by simp [State.setTh], by simp [State.setTh],
    fun _ => by simp only [State.setTh, if_true]; omega, fun _ => by simp only [State.setTh, if_true]; omega,
    fun _ => by simp only [State.setTh, if_true]; omega, fun hn => by simp [State.setTh] at hn,
    fun hn => by simp [State.setTh] at hn, ?_⟩
  intro T hT1 hT2
  obtain ⟨sl, hs1, ho, hv⟩ := hsl T hT1 hT2
  refine ⟨sl, hs1, ?_⟩
  simp only [State.setTh, if_true, statusOf]
  rw [if_neg (by omega), if_neg (by omega)]
  exact ⟨ho, hv⟩


/-- rebuild `DInv` for a new state whose thread record is `th'` and slot list `l'` -/
theorem DInv.mk' {c : Cfg} {t : Tid} {P0 W : Nat} {s : State} {S : State} {th' : Th} (hi : DInv c t P0 W s)
    (hlen : S.slots.length = c.cap)
    (pcD : th'.pc.inD = true ∨ th'.pc = .retWait) (notIdx : th'.pc ≠ .dIdx) (lo : P0 ≤ th'.j)
    (hh : th'.pc ≠ .retWait → th'.j + th'.num + th'.rest ≤ P0 + c.cap ∧ 0 < th'.num ∧ th'.i ≤ th'.num)
    (ilt : (th'.pc = .dVer ∨ th'.pc = .dCb ∨ th'.pc = .dSt) → th'.i < th'.num)
    (full : th'.pc = .dVer → th'.j + th'.num + th'.rest = P0 + c.cap)
    (trunc : th'.pc ≠ .dVer → th'.pc ≠ .retWait →
        (th'.j + th'.num + th'.rest = P0 + c.cap ∨ (th'.rest = 0 ∧ W ≤ th'.j + th'.num)))
    (fin : th'.pc = .retWait → W ≤ th'.j + th'.i ∧ th'.j + th'.i ≤ P0 + c.cap)
    (slots : ∀ T, P0 ≤ T → T < P0 + c.cap → ∃ sl, S.slots[T % c.cap]? = some sl ∧ tsOK c t W T sl (statusOf th' T)) :
    DInv c t P0 W (S.setTh t th') := by
  refine ⟨hi.cap, by simpa [State.setTh] using hlen, hi.win, ?_, ?_, ?_, ?_, ?_, ?_, ?_, ?_, ?_⟩ <;>
    simp only [State.setTh, if_true] <;> assumption

theorem dInv_step {c : Cfg} {s s' : State} {t : Tid} {P0 W : Nat} {tok : Tok} {spur : Bool} {l : Option Act}
    (hi : DInv c t P0 W s) (h : stepThread c s t tok spur = some (s', l)) : DInv c t P0 W s' := by
  have hcap := hi.cap
  have hlen := hi.len
  have hwin := hi.win
  have hlo := hi.lo
  have hD : (s.th t).pc.inD = true := by
    rcases hi.pcD with hD | hR
    · exact hD
    · exfalso; unfold stepThread at h; simp [hR] at h
  have hnr : (s.th t).pc ≠ .retWait := by intro e; rw [e] at hD; simp at hD
  obtain ⟨hhi, hnum, hile⟩ := hi.hi hnr
  unfold stepThread at h; dsimp only at h
  split at h
  all_goals (rename_i hpc; try (rw [hpc] at hD; simp at hD; done))
  · exact absurd hpc hi.notIdx
  · -- dVer
    have hilt := hi.ilt (Or.inl hpc)
    have hfull := hi.full hpc
    have hT0 : P0 ≤ (s.th t).j + (s.th t).i ∧ (s.th t).j + (s.th t).i < P0 + c.cap := by omega
    obtain ⟨sl0, hsl0, hst0⟩ := hi.slots _ hT0.1 hT0.2
    have hfresh : statusOf (s.th t) ((s.th t).j + (s.th t).i) = .fresh := by
      simp only [statusOf, hpc]; rw [if_neg (by omega), if_neg (by omega)]
    rw [hfresh] at hst0
    unfold stepDVer at h; dsimp only at h
    rw [hsl0] at h; dsimp only at h
    split at h
    · rename_i hver
      split at h
      · simp at h
      · rename_i s1 hacq
        simp only [Option.some.injEq, Prod.mk.injEq] at h; obtain ⟨hres, -⟩ := h; subst hres
        obtain ⟨sl, hsl, -, -, rfl⟩ := acquire_spec hacq
        rw [hsl0] at hsl; simp only [Option.some.injEq] at hsl; subst hsl
        have hW : (s.th t).j + (s.th t).i < W := by
          rcases Nat.lt_or_ge ((s.th t).j + (s.th t).i) W with hn | hn
          · exact hn
          · have := hst0.2; rw [if_neg (by omega)] at this
            exact absurd (this.1.symm.trans hver) (expVer_pop_ne_push _ _)
        have hval := hst0.2; rw [if_pos hW] at hval
        by_cases hlast : (s.th t).i + 1 < (s.th t).num
        · simp only [hlast, if_true]
          apply hi.mk' (by simp [State.setSlot, hlen])
          · left; rfl
          · simp
          · exact hlo
          · intro _; dsimp only; omega
          · intro _; dsimp only; omega
          · intro _; dsimp only; exact hfull
          · intro hp; simp at hp
          · intro hp; simp at hp
          · apply slots_update hcap hlen hi.slots hT0
            · simp only [statusOf]; rw [if_neg (by omega), if_pos (by omega)]
              exact ⟨hver, hval.2, rfl⟩
            · intro T hT
              simp only [statusOf, hpc]
              by_cases h1 : T < (s.th t).j
              · rw [if_pos h1, if_pos h1]
              · rw [if_neg h1, if_neg h1]
                by_cases h2 : T < (s.th t).j + (s.th t).i
                · rw [if_pos h2, if_pos (by omega)]
                · rw [if_neg h2, if_neg (by omega)]
        · simp only [hlast, if_false]
          apply hi.mk' (by simp [State.setSlot, hlen])
          · left; rfl
          · simp
          · exact hlo
          · intro _; dsimp only; omega
          · intro hp; simp at hp
          · intro hp; simp at hp
          · intro _ _; left; dsimp only; exact hfull
          · intro hp; simp at hp
          · apply slots_update hcap hlen hi.slots hT0
            · simp only [statusOf]; rw [if_neg (by omega), if_pos (by omega)]
              exact ⟨hver, hval.2, rfl⟩
            · intro T hT
              simp only [statusOf, hpc]
              by_cases h1 : T < (s.th t).j
              · rw [if_pos h1, if_pos h1]
              · rw [if_neg h1, if_neg h1]
                by_cases h2 : T < (s.th t).j + (s.th t).i
                · rw [if_pos h2, if_pos (by omega)]
                · rw [if_neg h2, if_neg (by omega)]
    · rename_i hver
      have hW : W ≤ (s.th t).j + (s.th t).i := by
        rcases Nat.lt_or_ge ((s.th t).j + (s.th t).i) W with hn | hn
        · have := hst0.2; rw [if_pos hn] at this
          exact absurd this.1 hver
        · exact hn
      split at h
      · rename_i hi0
        simp only [Option.some.injEq, Prod.mk.injEq] at h; obtain ⟨hres, -⟩ := h; subst hres
        apply hi.mk' (by exact hlen)
        · right; rfl
        · simp
        · exact hlo
        · intro hp; simp at hp
        · intro hp; simp at hp
        · intro hp; simp at hp
        · intro _ hp; simp at hp
        · intro _; dsimp only; omega
        · apply slots_same hi.slots
          intro T
          simp only [statusOf, hpc, hi0]
          by_cases h1 : T < (s.th t).j
          · rw [if_pos h1, if_pos h1]
          · rw [if_neg h1, if_neg h1, if_neg (by omega), if_neg (by omega)]
      · rename_i hi0
        simp only [Option.some.injEq, Prod.mk.injEq] at h; obtain ⟨hres, -⟩ := h; subst hres
        apply hi.mk' (by exact hlen)
        · left; rfl
        · simp
        · exact hlo
        · intro _; dsimp only; omega
        · intro hp; simp at hp
        · intro hp; simp at hp
        · intro _ _; right; dsimp only; exact ⟨rfl, hW⟩
        · intro hp; simp at hp
        · apply slots_same hi.slots
          intro T
          simp only [statusOf, hpc]
  · -- dClaim
    have htr := hi.trunc (by simp [hpc]) hnr
    unfold stepDClaim at h
    simp only [Option.some.injEq, Prod.mk.injEq] at h; obtain ⟨hres, -⟩ := h; subst hres
    apply hi.mk' (by exact hlen)
    · left; rfl
    · simp
    · exact hlo
    · intro _; dsimp only; omega
    · intro hp; simp at hp
    · intro hp; simp at hp
    · intro _ _; exact htr
    · intro hp; simp at hp
    · apply slots_same hi.slots
      intro T; simp only [statusOf, hpc]
  · -- dAcq
    have htr := hi.trunc (by simp [hpc]) hnr
    unfold stepDAcq at h
    simp only [Option.some.injEq, Prod.mk.injEq] at h; obtain ⟨hres, -⟩ := h; subst hres
    apply hi.mk' (by exact hlen)
    · left; rfl
    · simp
    · exact hlo
    · intro _; dsimp only; omega
    · intro _; dsimp only; omega
    · intro hp; simp at hp
    · intro _ _; exact htr
    · intro hp; simp at hp
    · apply slots_same hi.slots
      intro T; simp only [statusOf, hpc]
      by_cases h1 : T < (s.th t).j
      · rw [if_pos h1, if_pos h1]
      · rw [if_neg h1, if_neg h1, if_neg (by omega)]
  · -- dCb
    have htr := hi.trunc (by simp [hpc]) hnr
    have hilt := hi.ilt (Or.inr (Or.inl hpc))
    have hT0 : P0 ≤ (s.th t).j + (s.th t).i ∧ (s.th t).j + (s.th t).i < P0 + c.cap := by omega
    unfold stepDCb at h
    split at h
    · simp at h
    · rename_i s1 p htv
      simp only [Option.some.injEq, Prod.mk.injEq] at h; obtain ⟨hres, -⟩ := h; subst hres
      obtain ⟨sl, hsl, hv, ho, rfl⟩ := takeVal_spec htv
      obtain ⟨sl0, hsl0, hst0⟩ := hi.slots _ hT0.1 hT0.2
      rw [hsl] at hsl0; simp only [Option.some.injEq] at hsl0; subst hsl0
      have hacq : statusOf (s.th t) ((s.th t).j + (s.th t).i) = .acquired := by
        simp only [statusOf, hpc]; rw [if_neg (by omega), if_neg (by omega), if_pos (by omega)]
      rw [hacq] at hst0
      by_cases hlast : (s.th t).i + 1 < (s.th t).num
      · simp only [hlast, if_true]
        apply hi.mk' (S := { (s.setSlot (((s.th t).j + (s.th t).i) % c.cap) { sl with val := none }) with returned := _ })
          (by simp [State.setSlot, hlen])
        · left; rfl
        · simp
        · exact hlo
        · intro _; dsimp only; omega
        · intro _; dsimp only; omega
        · intro hp; simp at hp
        · intro _ _; exact htr
        · intro hp; simp at hp
        · apply slots_update hcap hlen hi.slots hT0
          · simp only [statusOf]; rw [if_neg (by omega), if_pos (by omega)]
            exact ⟨hst0.1, rfl, hst0.2.2⟩
          · intro T hT
            simp only [statusOf, hpc]
            by_cases h1 : T < (s.th t).j
            · rw [if_pos h1, if_pos h1]
            · rw [if_neg h1, if_neg h1]
              by_cases h2 : T < (s.th t).j + (s.th t).i
              · rw [if_pos h2, if_pos (by omega)]
              · rw [if_neg h2, if_neg (by omega)]
      · simp only [hlast, if_false]
        apply hi.mk' (S := { (s.setSlot (((s.th t).j + (s.th t).i) % c.cap) { sl with val := none }) with returned := _ })
          (by simp [State.setSlot, hlen])
        · left; rfl
        · simp
        · exact hlo
        · intro _; dsimp only; omega
        · intro hp; simp at hp
        · intro hp; simp at hp
        · intro _ _; exact htr
        · intro hp; simp at hp
        · apply slots_update hcap hlen hi.slots hT0
          · simp only [statusOf]; rw [if_neg (by omega), if_pos (by omega)]
            exact ⟨hst0.1, rfl, hst0.2.2⟩
          · intro T hT
            simp only [statusOf, hpc]
            by_cases h1 : T < (s.th t).j
            · rw [if_pos h1, if_pos h1]
            · rw [if_neg h1, if_neg h1]
              by_cases h2 : T < (s.th t).j + (s.th t).i
              · rw [if_pos h2, if_pos (by omega)]
              · rw [if_neg h2]
                by_cases h3 : T < (s.th t).j + (s.th t).num
                · exfalso; omega
                · rw [if_neg h3, if_neg h3]
  · -- dRel
    have htr := hi.trunc (by simp [hpc]) hnr
    unfold stepDRel at h
    simp only [Option.some.injEq, Prod.mk.injEq] at h; obtain ⟨hres, -⟩ := h; subst hres
    apply hi.mk' (by exact hlen)
    · left; rfl
    · simp
    · exact hlo
    · intro _; dsimp only; omega
    · intro _; dsimp only; omega
    · intro hp; simp at hp
    · intro _ _; exact htr
    · intro hp; simp at hp
    · apply slots_same hi.slots
      intro T; simp only [statusOf, hpc]
      by_cases h1 : T < (s.th t).j
      · rw [if_pos h1, if_pos h1]
      · rw [if_neg h1, if_neg h1, if_neg (by omega)]
  · -- dSt
    have htr := hi.trunc (by simp [hpc]) hnr
    have hilt := hi.ilt (Or.inr (Or.inr hpc))
    have hT0 : P0 ≤ (s.th t).j + (s.th t).i ∧ (s.th t).j + (s.th t).i < P0 + c.cap := by omega
    unfold stepDSt at h; dsimp only at h
    split at h
    · simp at h
    · split at h
      · simp at h
      · rename_i s1 hpub
        simp only [Option.some.injEq, Prod.mk.injEq] at h; obtain ⟨hres, -⟩ := h; subst hres
        obtain ⟨sl, hsl, ho, hv, rfl⟩ := publish_spec hpub
        obtain ⟨sl0, hsl0, hst0⟩ := hi.slots _ hT0.1 hT0.2
        rw [hsl] at hsl0; simp only [Option.some.injEq] at hsl0; subst hsl0
        have htk : statusOf (s.th t) ((s.th t).j + (s.th t).i) = .taken := by
          simp only [statusOf, hpc]; rw [if_neg (by omega), if_neg (by omega), if_pos (by omega)]
        rw [htk] at hst0
        have hdone : tsOK c t W ((s.th t).j + (s.th t).i) { ver := sl.ver + 1, val := none, owner := none } .done :=
          ⟨by simp only; rw [hst0.1], rfl, rfl⟩
        by_cases hlast : (s.th t).i + 1 < (s.th t).num
        · simp only [hlast, if_true]
          apply hi.mk' (by simp [State.setSlot, hlen])
          · left; exact hD
          · exact hi.notIdx
          · exact hlo
          · intro _; dsimp only; omega
          · intro _; dsimp only; omega
          · intro hp; dsimp only at hp; rw [hpc] at hp; simp at hp
          · intro _ _; exact htr
          · intro hp; dsimp only at hp; rw [hpc] at hp; simp at hp
          · apply slots_update hcap hlen hi.slots hT0
            · simp only [statusOf, hpc]; rw [if_neg (by omega), if_pos (by omega)]
              exact hdone
            · intro T hT
              simp only [statusOf, hpc]
              by_cases h1 : T < (s.th t).j
              · rw [if_pos h1, if_pos h1]
              · rw [if_neg h1, if_neg h1]
                by_cases h2 : T < (s.th t).j + (s.th t).i
                · rw [if_pos h2, if_pos (by omega)]
                · rw [if_neg h2, if_neg (by omega)]
        · simp only [hlast, if_false]
          by_cases hrest : (s.th t).rest > 0
          · simp only [hrest, if_true]
            have hfull : (s.th t).j + (s.th t).num + (s.th t).rest = P0 + c.cap := by
              rcases htr with e | ⟨e, -⟩
              · exact e
              · omega
            apply hi.mk' (by simp [State.setSlot, hlen])
            · left; rfl
            · simp
            · dsimp only; omega
            · intro _; dsimp only; omega
            · intro _; dsimp only; omega
            · intro _; dsimp only; omega
            · intro hp; simp at hp
            · intro hp; simp at hp
            · apply slots_update hcap hlen hi.slots hT0
              · simp only [statusOf]; rw [if_pos (by omega)]
                exact hdone
              · intro T hT
                simp only [statusOf, hpc]
                by_cases h1 : T < (s.th t).j
                · rw [if_pos (by omega), if_pos h1]
                · rw [if_neg h1]
                  by_cases h2 : T < (s.th t).j + (s.th t).i
                  · rw [if_pos (by omega), if_pos h2]
                  · rw [if_neg h2]
                    by_cases h3 : T < (s.th t).j + (s.th t).num
                    · exfalso; omega
                    · rw [if_neg h3, if_neg h3, if_neg (by omega)]
          · simp only [hrest, if_false]
            apply hi.mk' (by simp [State.setSlot, hlen])
            · right; rfl
            · simp
            · exact hlo
            · intro hp; simp at hp
            · intro hp; simp at hp
            · intro hp; simp at hp
            · intro _ hp; simp at hp
            · intro _; dsimp only
              rcases htr with e | ⟨-, e⟩ <;> omega
            · apply slots_update hcap hlen hi.slots hT0
              · simp only [statusOf]; rw [if_neg (by omega), if_pos (by omega)]
                exact hdone
              · intro T hT
                simp only [statusOf, hpc]
                by_cases h1 : T < (s.th t).j
                · rw [if_pos h1, if_pos h1]
                · rw [if_neg h1, if_neg h1]
                  by_cases h2 : T < (s.th t).j + (s.th t).i
                  · rw [if_pos h2, if_pos (by omega)]
                  · rw [if_neg h2, if_neg (by omega)]
                    by_cases h3 : T < (s.th t).j + (s.th t).num
                    · exfalso; omega
                    · rw [if_neg h3]


theorem dInv_run {c : Cfg} {s s' : State} {t : Tid} {P0 W : Nat} (h : RunT c t s s') (hi : DInv c t P0 W s) :
    DInv c t P0 W s' := by
  induction h with
  | refl => exact hi
  | step tok spur l hs _ ih => exact ih (dInv_step hi hs)

/-- when the destructor has returned, no slot holds a token -/
theorem dInv_done {c : Cfg} {s : State} {t : Tid} {P0 W : Nat} (hi : DInv c t P0 W s) (hr : (s.th t).pc = .retWait) :
    cacheToks s = [] := by
  obtain ⟨hW, hle⟩ := hi.fin hr
  unfold cacheToks
  apply List.filterMap_eq_nil_iff.mpr
  intro sl hsl
  obtain ⟨k, hk, hget⟩ := List.mem_iff_getElem.mp hsl
  rw [hi.len] at hk
  obtain ⟨T, hT1, hT2, hTk⟩ := window_surj (P0 := P0) hk
  obtain ⟨sl', hsl', hst⟩ := hi.slots T hT1 hT2
  rw [hTk] at hsl'
  have : sl' = sl := by
    have h2 : s.slots[k]? = some sl := by
      rw [List.getElem?_eq_getElem (by rw [hi.len]; exact hk)]; exact congrArg some hget
    rw [h2] at hsl'; exact (Option.some.inj hsl').symm
  subst this
  simp only [statusOf, hr] at hst
  by_cases h1 : T < (s.th t).j
  · rw [if_pos h1] at hst; exact hst.2.1
  · rw [if_neg h1] at hst
    by_cases h2 : T < (s.th t).j + (s.th t).i
    · rw [if_pos h2] at hst; exact hst.2.1
    · rw [if_neg h2] at hst
      have := hst.2
      rw [if_neg (by omega)] at this
      exact this.2


/-! ### the other places are untouched by the destructor -/
theorem acquire_places {c : Cfg} {s s1 : State} {t : Tid} {i : Nat} {d : Dir} (h : acquire c s t i d = some s1) :
    s1.held = s.held ∧ s1.bufs = s.bufs ∧ s1.obtained = s.obtained ∧ s1.th = s.th := by
  obtain ⟨sl, -, -, -, rfl⟩ := acquire_spec h; exact ⟨rfl, rfl, rfl, rfl⟩

theorem takeVal_places {c : Cfg} {s s1 : State} {t : Tid} {i : Nat} {d : Dir} {p : Tok} (h : takeVal c s t i d = some (s1, p)) :
    s1.held = s.held ∧ s1.bufs = s.bufs ∧ s1.obtained = s.obtained ∧ s1.th = s.th := by
  obtain ⟨sl, -, -, -, rfl⟩ := takeVal_spec h; exact ⟨rfl, rfl, rfl, rfl⟩

theorem publish_places {c : Cfg} {s s1 : State} {t : Tid} {i : Nat} {d : Dir} {put : Option Tok}
    (h : publish c s t i d put = some s1) :
    s1.held = s.held ∧ s1.bufs = s.bufs ∧ s1.obtained = s.obtained ∧ s1.th = s.th := by
  obtain ⟨sl, -, -, -, rfl⟩ := publish_spec h; exact ⟨rfl, rfl, rfl, rfl⟩

macro "placeclose" : tactic =>
  `(tactic| ((try (simp [State.setTh, Th.toks])) <;> (try (split <;> (try split) <;> simp)) <;> first
      | done
      | exact ⟨(acquire_places (by assumption)).1, (acquire_places (by assumption)).2.1, (acquire_places (by assumption)).2.2.1⟩
      | exact ⟨(takeVal_places (by assumption)).1, (takeVal_places (by assumption)).2.1, (takeVal_places (by assumption)).2.2.1⟩
      | exact ⟨(publish_places (by assumption)).1, (publish_places (by assumption)).2.1, (publish_places (by assumption)).2.2.1⟩))

macro "placeleaves" h:ident : tactic =>
  `(tactic| ((try dsimp only at $h:ident) <;> (repeat' split at $h:ident) <;> (try (simp at $h:ident; done)) <;>
      (simp only [Option.some.injEq, Prod.mk.injEq] at $h:ident) <;>
      (first | (obtain ⟨hres, -⟩ : _ ∧ _ := $h:ident; subst hres) | subst $h:ident) <;> placeclose))

theorem stepThread_D_places {c : Cfg} {s s' : State} {t : Tid} {tok : Tok} {spur : Bool} {l : Option Act}
    (h : stepThread c s t tok spur = some (s', l)) (hD : (s.th t).pc.inD = true) :
    s'.held = s.held ∧ s'.bufs = s.bufs ∧ s'.obtained = s.obtained ∧ (s'.th t).toks = (s.th t).toks := by
  unfold stepThread at h; dsimp only at h
  split at h
  all_goals (rename_i hpc; try (rw [hpc] at hD; simp at hD; done))
  · unfold stepDIdx at h; placeleaves h
  · unfold stepDVer at h; placeleaves h
  · unfold stepDClaim at h; placeleaves h
  · unfold stepDAcq at h; placeleaves h
  · unfold stepDCb at h; placeleaves h
  · unfold stepDRel at h; placeleaves h
  · unfold stepDSt at h; placeleaves h


theorem runT_reach {c : Cfg} {s s' : State} {t : Tid} (ht : t < c.nthreads) (h : RunT c t s s') (hr : Reach c s) : Reach c s' := by
  induction h with
  | refl => exact hr
  | step tok spur l hs _ ih => exact ih (Reachable.tail hr (Step.thread t tok spur l ht hs))

theorem runT_D_places {c : Cfg} {s s' : State} {t : Tid} (h : RunT c t s s')
    (hD : (s.th t).pc.inD = true ∨ (s.th t).pc = .retWait) :
    s'.held = s.held ∧ s'.bufs = s.bufs ∧ s'.obtained = s.obtained ∧ (s'.th t).toks = (s.th t).toks ∧
      (∀ u, u ≠ t → s'.th u = s.th u) := by
  induction h with
  | refl => exact ⟨rfl, rfl, rfl, rfl, fun _ _ => rfl⟩
  | step tok spur l hs _ ih =>
    rcases hD with hD | hR
    · have h1 := stepThread_D_places hs hD
      have hfl := (stepThread_flow hs).2.2.2.2.1 hD
      have hfr := (stepThread_delta hs).1
      have h2 := ih hfl
      exact ⟨h2.1.trans h1.1, h2.2.1.trans h1.2.1, h2.2.2.1.trans h1.2.2.1, h2.2.2.2.1.trans h1.2.2.2,
        fun u hu => (h2.2.2.2.2 u hu).trans (hfr u hu)⟩
    · exfalso; unfold stepThread at hs; simp [hR] at hs

theorem thToks_congr {c : Cfg} {s s' : State} (h : ∀ u, (s'.th u).toks = (s.th u).toks) : thToks c s' = thToks c s := by
  unfold thToks
  induction (List.range c.nthreads) with
  | nil => rfl
  | cons x xs ih => simp only [List.flatMap_cons, h x, ih]

/-- **The destructor returns the whole cache.** -/
theorem dtor_returns_all {c : Cfg} {s s0 s' : State} {t : Tid} (ht : t < c.nthreads) (hr : Reach c s) (hq : QShape c s)
    (hcall : callOp c s t .dtor = some s0) (hrun : RunT c t s0 s') (hret : (s'.th t).pc = .retWait) :
    cacheToks s' = [] ∧ s'.returned = s.returned + (cacheToks s).length ∧ s'.obtained = s.obtained ∧
      s'.held = s.held ∧ s'.bufs = s.bufs := by
  -- the call: thread t at dIdx, nothing else changed
  have hr0 : Reach c s0 := Reachable.tail hr (Step.call t .dtor ht hcall)
  have hcall' := hcall
  unfold callOp at hcall; dsimp only at hcall
  split at hcall
  · simp at hcall
  · split at hcall
    · simp at hcall
    · simp only [Option.some.injEq] at hcall; subst hcall
      have hpc0 : ((s.setTh t { s.th t with kind := .dtor, pc := .dIdx }).th t).pc = .dIdx := by simp [State.setTh]
      have hq0 : QShape c (s.setTh t { s.th t with kind := .dtor, pc := .dIdx }) := hq
      cases hrun with
      | refl => rw [hpc0] at hret; simp at hret
      | step tok spur l hs hrest =>
        have hinv := dInv_run hrest (dInv_entry hq0 hpc0 hs)
        have hdone := dInv_done hinv hret
        have hpl := runT_D_places (RunT.step tok spur l hs hrest) (Or.inl (by rw [hpc0]; rfl))
        have hr' := runT_reach ht (RunT.step tok spur l hs hrest) hr0
        have hc0 := reach_conserve hr
        have hc' := reach_conserve hr'
        have hth : thToks c s' = thToks c s := by
          apply thToks_congr
          intro u
          by_cases e : u = t
          · subst e; rw [hpl.2.2.2.1]; simp [State.setTh, Th.toks]
          · rw [hpl.2.2.2.2 u e]; simp [State.setTh, e]
        refine ⟨hdone, ?_, hpl.2.2.1, hpl.1, hpl.2.1⟩
        unfold toks at hc0 hc'
        rw [hdone, hth, hpl.1, hpl.2.1, hpl.2.2.1] at hc'
        simp only [State.setTh, List.length_append, List.length_nil] at hc0 hc'
        omega

end Babylon.Pages
