/-
  C17 — length bookkeeping of `CachedPageAllocator::allocate`: the local page array of an allocate(n) holds
  exactly n pages when the call finishes (first the min(n, capacity) pages popped from the cache, segment by
  segment, then the remainder from upstream); buffers / carry are empty where the code assumes so.
-/
import Babylon.Pages.Batch

namespace Babylon.Pages
open Babylon.Core

theorem splitRing_sum (cap old k : Nat) (h0 : 0 < cap) : (splitRing cap old k).1 + (splitRing cap old k).2 = k := by
  unfold splitRing
  dsimp only
  split
  · rfl
  · rename_i h
    have h1 : old < (old / cap + 1) * cap := by
      have := Nat.lt_mul_div_succ old h0
      rw [Nat.mul_comm]; exact this
    simp only; omega

/-- length facts of the pop direction of the compensating machine -/
def popLen (c : Cfg) (th : Th) : Prop :=
  (th.pc = .tkt → th.pages = [] ∧ th.num = min th.want c.cap ∧ th.rest = 0) ∧
  (th.pc = .fCb → th.pages.length + (th.num - th.i) + th.rest = min th.want c.cap ∧ th.i < th.num) ∧
  ((th.pc = .fRel ∨ th.pc = .fSt) → th.pages.length + th.rest = min th.want c.cap) ∧
  (th.pc = .rem → min th.want c.cap ≤ th.pages.length ∧ th.pages.length < th.want) ∧
  ((th.pc = .rdVer ∨ th.pc = .rdOpp ∨ th.pc = .cIdx ∨ th.pc = .cVer ∨ th.pc = .cCas ∨ th.pc = .cAcq ∨
     th.pc = .cCb ∨ th.pc = .cRel ∨ th.pc = .cSt ∨ th.pc = .fAcq) →
    th.pages.length + th.num + th.rest = min th.want c.cap)

def LenOK (c : Cfg) (th : Th) : Prop :=
  ((th.pc = .bLoop ∨ th.pc = .bdNext ∨ th.pc = .idle) → th.pages = []) ∧
  (th.carry = [] ∨ ((th.pc = .cRel ∨ th.pc = .cSt) ∧ th.dir = .pop)) ∧
  (th.pc.inM = true → th.dir = .pop → popLen c th)

/-- what `finish` may assume about the thread record it is given -/
def FinOK (th : Th) : Prop :=
  th.carry = [] ∧ (th.dir = .pop → th.pages.length = th.want) ∧ (th.dir = .push → th.pages = [])

theorem finish_len {c : Cfg} {S R : State} {t : Tid} {th : Th} (h : finish c S t th = some R) (hf : FinOK th) :
    LenOK c (R.th t) := by
  obtain ⟨hc, hp, hq⟩ := hf
  unfold finish at h
  (repeat' split at h) <;> (try (simp at h; done)) <;> simp only [Option.some.injEq] at h <;> subst h <;>
    simp_all [LenOK, State.setTh]

theorem settle_len {c : Cfg} {S R : State} {t : Tid} {th : Th} (h : settle c S t th = some R)
    (hc : th.carry = []) (hpop : th.dir = .pop → min th.want c.cap ≤ th.pages.length ∧ th.pages.length ≤ th.want) :
    LenOK c (R.th t) := by
  unfold settle at h
  split at h
  · rename_i hrem
    simp only [Option.some.injEq] at h; subst h
    unfold remaining at hrem
    refine ⟨by simp [State.setTh], by simp [State.setTh, hc], fun _ hd => ?_⟩
    simp only [State.setTh, if_true] at hd ⊢
    rw [hd] at hrem
    simp only [decide_eq_true_eq] at hrem
    have := hpop hd
    simp [popLen]; omega
  · rename_i hrem
    apply finish_len h
    unfold remaining at hrem
    refine ⟨hc, fun hd => ?_, fun hd => ?_⟩
    · rw [hd] at hrem; simp only [decide_eq_true_eq] at hrem
      have := hpop hd
      omega
    · rw [hd] at hrem; simpa using hrem

theorem waitOrGo_len {c : Cfg} {th : Th} (hc : th.carry = []) (hpop : th.dir = .pop → th.pages.length + th.num + th.rest = min th.want c.cap) :
    LenOK c (waitOrGo th) := by
  unfold waitOrGo
  split <;> refine ⟨by simp, by simp [hc], fun _ hd => ?_⟩ <;> simp only at hd <;> have := hpop hd <;> simp [popLen] <;> omega

theorem segDone_len {c : Cfg} {S R : State} {t : Tid} {th : Th} (h : segDone c S t th = some R)
    (hc : th.carry = []) (hpop : th.dir = .pop → th.pages.length + th.rest = min th.want c.cap) :
    LenOK c (R.th t) := by
  unfold segDone at h
  split at h
  · simp only [Option.some.injEq] at h; subst h
    simp only [State.setTh, if_true]
    refine waitOrGo_len (th := { th with idx := th.idx + th.num, num := th.rest, rest := 0, i := 0 }) hc ?_
    intro hd; have := hpop hd; simp only; omega
  · rename_i hrest
    apply settle_len h hc
    intro hd; have := hpop hd; omega

theorem enterSt_len {c : Cfg} {S R : State} {t : Tid} {th : Th} (h : enterSt c S t th = some R)
    (hc : th.carry = []) (hpop : th.dir = .pop → th.pages.length + th.rest = min th.want c.cap) :
    LenOK c (R.th t) := by
  unfold enterSt at h
  split at h
  · simp only [Option.some.injEq] at h; subst h
    refine ⟨by simp [State.setTh], by simp [State.setTh, hc], fun _ hd => ?_⟩
    simp only [State.setTh, if_true] at hd ⊢
    have := hpop hd
    simp [popLen]; omega
  · exact segDone_len h hc hpop

theorem enterCb_len {c : Cfg} {th : Th} (hc : th.carry = [])
    (hpop : th.dir = .pop → th.pages.length + (th.num - th.i) + th.rest = min th.want c.cap ∧ th.i ≤ th.num) :
    LenOK c (enterCb th) := by
  unfold enterCb
  split
  · rename_i hcond
    refine ⟨by simp, by simp [hc], fun _ hd => ?_⟩
    simp only at hd
    have := hpop hd
    simp [popLen]; omega
  · rename_i hcond
    refine ⟨by simp, by simp [hc], fun _ hd => ?_⟩
    simp only at hd
    have := hpop hd
    have hi : ¬ th.i < th.num := fun hlt => hcond ⟨hd, hlt⟩
    simp [popLen]; omega


macro "lenleaves" h:ident hL:ident : tactic =>
  `(tactic| ((try dsimp only at $h:ident) <;> (repeat' split at $h:ident) <;> (try (simp at $h:ident; done)) <;>
      (simp only [Option.some.injEq, Prod.mk.injEq] at $h:ident) <;>
      (first | (obtain ⟨hres, -⟩ : _ ∧ _ := $h:ident; subst hres) | subst $h:ident) <;>
      (first | (simp_all [LenOK, popLen, State.setTh, startAlloc, startDealloc]; done)
             | (simp_all [LenOK, popLen, State.setTh, startAlloc, startDealloc]; omega)
             | skip)))

/-- facts the hand-written cases read off `LenOK` -/
theorem LenOK.carry_nil {c : Cfg} {th : Th} (h : LenOK c th) (h1 : th.pc ≠ .cRel) (h2 : th.pc ≠ .cSt) : th.carry = [] := by
  rcases h.2.1 with e | ⟨e, -⟩
  · exact e
  · rcases e with e | e
    · exact absurd e h1
    · exact absurd e h2

theorem stepThread_len {c : Cfg} {s s' : State} {t : Tid} {tok : Tok} {spur : Bool} {l : Option Act}
    (h : stepThread c s t tok spur = some (s', l)) (hcap : 0 < c.cap) (hL : LenOK c (s.th t)) : LenOK c (s'.th t) := by
  unfold stepThread at h; dsimp only at h
  split at h
  · simp at h
  · simp at h
  · unfold stepBLoop at h; lenleaves h hL
  · -- tkt
    rename_i hpc
    have hcar := hL.carry_nil (by simp [hpc]) (by simp [hpc])
    unfold stepTkt at h; dsimp only at h
    simp only [Option.some.injEq, Prod.mk.injEq] at h; obtain ⟨hres, -⟩ := h; subst hres
    simp only [State.setTh, if_true]
    refine waitOrGo_len (by exact hcar) ?_
    intro hd
    simp only at hd ⊢
    have hp := (hL.2.2 (by simp [hpc]) hd).1 hpc
    have := splitRing_sum c.cap (s.ctr (s.th t).dir) (s.th t).num hcap
    rw [hp.1]; simp only [List.length_nil]; omega
  · -- rdVer
    rename_i hpc
    have hcar := hL.carry_nil (by simp [hpc]) (by simp [hpc])
    unfold stepRdVer at h; dsimp only at h
    split at h
    · simp at h
    · split at h
      · split at h
        · simp at h
        · simp only [Option.some.injEq, Prod.mk.injEq] at h; obtain ⟨hres, -⟩ := h; subst hres
          simp only [State.setTh, if_true]
          refine waitOrGo_len (by exact hcar) ?_
          intro hd
          exact (hL.2.2 (by simp [hpc]) hd).2.2.2.2 (Or.inl hpc)
      · simp only [Option.some.injEq, Prod.mk.injEq] at h; obtain ⟨hres, -⟩ := h; subst hres
        simp_all [LenOK, popLen, State.setTh]
  · unfold stepRdOpp at h; lenleaves h hL
  · unfold stepCIdx at h; lenleaves h hL
  · unfold stepCVer at h; lenleaves h hL
  · unfold stepCCas at h; lenleaves h hL
  · unfold stepCAcq at h; lenleaves h hL
  · unfold stepCCb at h; lenleaves h hL
  · unfold stepCRel at h; lenleaves h hL
  · unfold stepCSt at h; lenleaves h hL
  · -- fAcq
    rename_i hpc
    have hcar := hL.carry_nil (by simp [hpc]) (by simp [hpc])
    unfold stepFAcq at h
    simp only [Option.some.injEq, Prod.mk.injEq] at h; obtain ⟨hres, -⟩ := h; subst hres
    simp only [State.setTh, if_true]
    refine enterCb_len (by exact hcar) ?_
    intro hd
    have := (hL.2.2 (by simp [hpc]) hd).2.2.2.2 (by simp [hpc])
    simp only at hd ⊢; omega
  · -- fCb
    rename_i hpc
    have hcar := hL.carry_nil (by simp [hpc]) (by simp [hpc])
    unfold stepFCb at h
    split at h
    · simp at h
    · simp only [Option.some.injEq, Prod.mk.injEq] at h; obtain ⟨hres, -⟩ := h; subst hres
      simp only [State.setTh, if_true]
      refine enterCb_len (by exact hcar) ?_
      intro hd
      have := (hL.2.2 (by simp [hpc]) hd).2.1 hpc
      simp only [List.length_append, List.length_cons, List.length_nil] at hd ⊢; omega
  · -- fRel
    rename_i hpc
    have hcar := hL.carry_nil (by simp [hpc]) (by simp [hpc])
    unfold stepFRel at h
    simp only [Option.map_eq_some_iff, Prod.mk.injEq] at h
    obtain ⟨R, hR, hres, -⟩ := h; subst hres
    apply enterSt_len hR hcar
    intro hd
    exact (hL.2.2 (by simp [hpc]) hd).2.2.1 (Or.inl hpc)
  · -- fSt
    rename_i hpc
    have hcar := hL.carry_nil (by simp [hpc]) (by simp [hpc])
    unfold stepFSt at h; dsimp only at h
    (repeat' split at h) <;> (try (simp at h; done)) <;>
      simp only [Option.map_eq_some_iff, Prod.mk.injEq] at h <;> obtain ⟨R, hR, hres, -⟩ := h <;> subst hres <;>
      apply enterSt_len hR hcar <;> intro hd
    · exact (hL.2.2 (by simp [hpc]) hd).2.2.1 (Or.inr hpc)
    · simp only at hd; simp_all
  · -- rem
    rename_i hpc
    have hcar := hL.carry_nil (by simp [hpc]) (by simp [hpc])
    unfold stepRem at h
    (repeat' split at h) <;> (try (simp at h; done)) <;>
      simp only [Option.map_eq_some_iff, Prod.mk.injEq] at h <;> obtain ⟨R, hR, hres, -⟩ := h <;> subst hres <;>
      apply settle_len hR hcar <;> intro hd
    · have := (hL.2.2 (by simp [hpc]) hd).2.2.2.1 hpc
      simp only [List.length_append, List.length_cons, List.length_nil]; omega
    · simp only at hd; simp_all
  · unfold stepDIdx at h; lenleaves h hL
  · unfold stepDVer at h; lenleaves h hL
  · unfold stepDClaim at h; lenleaves h hL
  · unfold stepDAcq at h; lenleaves h hL
  · unfold stepDCb at h; lenleaves h hL
  · unfold stepDRel at h; lenleaves h hL
  · unfold stepDSt at h; lenleaves h hL
  · unfold stepBdNext at h; lenleaves h hL
  · unfold stepPRecycle at h; lenleaves h hL
  · unfold stepGPop at h; lenleaves h hL
  · unfold stepGPush at h; lenleaves h hL
  · unfold stepPDestroy at h; lenleaves h hL
  · unfold stepSTkt at h; lenleaves h hL
  · unfold stepDlWait at h; lenleaves h hL
  · unfold stepDlCb at h; lenleaves h hL
  · unfold stepDlPub at h; lenleaves h hL
  · unfold stepSIdx at h; lenleaves h hL
  · unfold stepSVer at h; lenleaves h hL
  · unfold stepSIdx2 at h; lenleaves h hL
  · unfold stepSCas at h; lenleaves h hL
  · unfold stepSCb at h; lenleaves h hL
  · unfold stepSPub at h; lenleaves h hL


theorem callOp_len {c : Cfg} {s s' : State} {t : Tid} {op : Op} (h : callOp c s t op = some s') (hL : LenOK c (s.th t)) :
    LenOK c (s'.th t) := by
  unfold callOp at h; dsimp only at h
  split at h
  · simp at h
  · rename_i hidle
    have hidle' : (s.th t).pc = .idle := by simpa using hidle
    have hpg : (s.th t).pages = [] := hL.1 (Or.inr (Or.inr hidle'))
    have hcar : (s.th t).carry = [] := hL.carry_nil (by simp [hidle']) (by simp [hidle'])
    cases op <;> dsimp only at h <;> (repeat' split at h) <;> (try (simp at h; done)) <;>
      simp only [Option.some.injEq] at h <;> subst h <;>
      simp_all [LenOK, popLen, State.setTh, startAlloc, startDealloc]

theorem retOp_len {c : Cfg} {s s' : State} {t : Tid} (h : retOp c s t = some s') : LenOK c (s'.th t) := by
  unfold retOp at h; dsimp only at h
  split at h
  · simp at h
  · simp only [Option.some.injEq] at h; subst h
    simp [LenOK, State.setTh]

/-- the length bookkeeping holds for every thread in every reachable state -/
theorem reach_len {c : Cfg} {s : State} (hcap : 0 < c.cap) (h : Reach c s) : ∀ t, LenOK c (s.th t) := by
  refine Reachable.invariant (fun s => ∀ t, LenOK c (s.th t)) ?_ ?_ s h
  · intro s hs; obtain ⟨r0, rfl⟩ := hs; intro t; simp [LenOK, State.initAt]
  · intro s s' hi hst u
    cases hst with
    | thread t tok spur l ht hs =>
      by_cases e : u = t
      · subst e; exact stepThread_len hs hcap (hi u)
      · rw [(stepThread_delta hs).1 u e]; exact hi u
    | call t op ht hs =>
      by_cases e : u = t
      · subst e; exact callOp_len hs (hi u)
      · rw [(callOp_delta hs).1 u e]; exact hi u
    | ret t ht hs =>
      by_cases e : u = t
      · subst e; exact retOp_len hs
      · rw [(retOp_delta hs).1 u e]; exact hi u

end Babylon.Pages
