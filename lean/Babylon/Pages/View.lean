/-
  C17 — hand-off of a pooled object / cached page over the release/acquire VIEW memory model
  (Babylon/Core/MemView.lean): the thread that gives an object back (its last accesses to the object, then
  the push: a releasing operation on the slot word) happens-before the thread that next obtains that object
  (acquiring operation on the slot word that reads the push's message) and uses it.

  Locations: `slot` (the slot's version word of the C01 ring) and `cell k` (the object's / page's memory,
  plain accesses modelled as accesses of any order — a read may return ANY message the reader's view admits,
  stale ones included).  Two hand-off shapes, the two the code has:
    * single element (`ObjectPool` strict mode, `try_pop`): version published by a releasing store / exchange
      (`oPush`), observed by an acquiring load (`oPop`)                                   — `pool_handoff_view`
    * batch / compensating paths (`CachedPageAllocator`, `PageHeap`, `BatchPageAllocator` refill and spill
      through the shared queue, auto-mode pool): release fence + relaxed version store, relaxed version load +
      acquire fence                                                                       — `pool_handoff_view_fences`
  Between the push and the pop any other actions of any threads may happen (`Mem.Ext`).  In the ring of C01 the
  pop of ticket `i` reads exactly the version message the push of ticket `i` wrote (versions on one slot are
  pairwise distinct within the window `bq_ver16_faithful` assumes), which is the hypothesis "reads message
  number `m0.len slot`".  The thread-local buffer of `BatchPageAllocator` is only ever touched by its own
  thread (and by the destructor, which runs alone): there is no second hand-off inside the model; its spill
  goes through the shared queue, i.e. through `pool_handoff_view_fences`.
  Core Lean only.
-/
import Babylon.Core.MemView
import Babylon.Gen.Pages

namespace Babylon.Pages.View
open Babylon.Core Babylon.Core.MemView

inductive Loc
  | slot
  | cell (k : Nat)
  deriving DecidableEq, Repr

/-- the orders of the single-element path as written in the source: `deal` waits with `ordDealWait` and
publishes with `ordDealSetVer` (store) / `ordDealXchg` (exchange); `try_deal` checks with `ordTry1Ver` and
publishes with `ordTry1SetVer` -/
theorem codeOrds_ok :
    Gen.Pages.ordDealSetVer.releases = true ∧ Gen.Pages.ordDealXchg.releases = true ∧
    Gen.Pages.ordTry1SetVer.releases = true ∧ Gen.Pages.ordDealWait.acquires = true ∧
    Gen.Pages.ordTry1Ver.acquires = true := by decide

/-- **pool_handoff_view** (single-element path).  Previous owner `a` is at memory `m0` (its view `cur` covers
all its accesses to the object); it pushes: releasing store of the slot version.  After arbitrary further
actions (`m2`) the new owner `b` pops: its acquiring load reads the push's message.  Then everything `a` had
seen or written is in `b`'s view — and stays there (`m4` any later memory) —, so any later read by `b` of an
object cell returns a message at least as new as the newest one `a` knew: `a`'s last write or a later one,
never a stale one. -/
theorem pool_handoff_view (m0 : Mem Loc) (a b : Nat) (oPush oPop : Core.Ord) (ver : Nat) {m2 m3 m4 m5 : Mem Loc} {v' : Nat}
    (hrel : oPush.releases = true) (hacq : oPop.acquires = true)
    (hext : (m0.write a .slot oPush ver).Ext m2)
    (hpop : m2.read b .slot oPop (m0.len .slot) = some (m3, v'))
    (hlater : m3.Ext m4) (k : Nat) (o : Core.Ord) (ts w : Nat) (huse : m4.read b (.cell k) o ts = some (m5, w)) :
    v' = ver ∧ (m0.tv a).cur ≤ (m3.tv b).cur ∧ (m0.tv a).cur ≤ (m4.tv b).cur ∧ ((m0.tv a).cur).get (.cell k) ≤ ts := by
  obtain ⟨hv, hle⟩ := mp_release_acquire m0 a b .slot oPush oPop ver hrel hacq hext hpop
  have hle4 := View.le_trans hle (hlater.cur b)
  obtain ⟨_, _, _, hts, _⟩ := Mem.read_spec huse
  exact ⟨hv, hle, hle4, Nat.le_trans (hle4 (.cell k)) hts⟩

/-- the same with the previous owner's last write made explicit: `a` writes cell `k` (any order, value `x`),
then pushes; the new owner's read of cell `k` returns that message or a later one -/
theorem pool_handoff_view_last_write (mA : Mem Loc) (a b : Nat) (oPush oPop oW : Core.Ord) (ver x : Nat)
    {m2 m3 m4 m5 : Mem Loc} {v' : Nat}
    (hrel : oPush.releases = true) (hacq : oPop.acquires = true) (k : Nat)
    (hext : ((mA.write a (.cell k) oW x).write a .slot oPush ver).Ext m2)
    (hpop : m2.read b .slot oPop ((mA.write a (.cell k) oW x).len .slot) = some (m3, v'))
    (hlater : m3.Ext m4) (o : Core.Ord) (ts w : Nat) (huse : m4.read b (.cell k) o ts = some (m5, w)) :
    mA.len (.cell k) ≤ ts := by
  have h := (pool_handoff_view (mA.write a (.cell k) oW x) a b oPush oPop ver hrel hacq hext hpop hlater k o ts w huse).2.2.2
  have hcur : mA.len (.cell k) ≤ ((mA.write a (.cell k) oW x).tv a).cur.get (.cell k) := by
    rw [Mem.write_tv_same]
    simp only [TView.wrote]
    exact View.get_bump_self _ _ _
  omega

/-- **pool_handoff_view_fences** (batch / compensating paths, thread-buffer spill and refill through the shared
queue).  Previous owner: release fence, then relaxed store of the slot version; new owner: relaxed load that
reads that message, then (after anything, `m4`) an acquire fence.  Same conclusion. -/
theorem pool_handoff_view_fences (m0 : Mem Loc) (a b : Nat) (ver : Nat) {m2 m3 m4 m5 m6 : Mem Loc} {v' : Nat}
    (hext : ((m0.fence a .rel).write a .slot .rlx ver).Ext m2)
    (hpop : m2.read b .slot .rlx (m0.len .slot) = some (m3, v'))
    (hmid : m3.Ext m4) (hlater : (m4.fence b .acq).Ext m5)
    (k : Nat) (o : Core.Ord) (ts w : Nat) (huse : m5.read b (.cell k) o ts = some (m6, w)) :
    v' = ver ∧ (m0.tv a).cur ≤ ((m4.fence b .acq).tv b).cur ∧ ((m0.tv a).cur).get (.cell k) ≤ ts := by
  obtain ⟨hv, hle⟩ := mp_fences m0 a b .slot ver hext hpop hmid
  have hle5 := View.le_trans hle (hlater.cur b)
  obtain ⟨_, _, _, hts, _⟩ := Mem.read_spec huse
  exact ⟨hv, hle, Nat.le_trans (hle5 (.cell k)) hts⟩

/-- the batch paths do bracket their relaxed version accesses with these fences (generated skeleton) -/
theorem codeFences_ok :
    Gen.Pages.ordCompVer = .rlx ∧ Gen.Pages.ordCompSetVer = .rlx ∧ Gen.Pages.ordTryNVer = .rlx ∧ Gen.Pages.ordTryNSetVer = .rlx ∧
    Gen.Pages.skel_comp_deal_n.filter (fun s => s matches .fence _) = [.fence .acq, .fence .rel] ∧
    Gen.Pages.skel_try_deal_n.filter (fun s => s matches .fence _) = [.fence .acq, .fence .rel, .fence .sc] := by decide

/-! ### negative controls -/
/-- thread 0 writes the object cell (7), then publishes version 1 with order `push`; thread 1 loads the new
version with order `pop` and then reads the cell at timestamp `cts` -/
def handOff (pop push : Core.Ord) (cts : Nat) : Option (Nat × Nat) :=
  let m0 : Mem Loc := Mem.init (fun _ => 0)
  let m1 := m0.write 0 (.cell 0) .rlx 7
  let m2 := m1.write 0 .slot push 1
  match m2.read 1 .slot pop 1 with
  | none => none
  | some (m3, v) =>
    match m3.read 1 (.cell 0) .rlx cts with
    | none => none
    | some (_, c) => some (v, c)

/-- relaxed push and / or relaxed pop: the new owner, having seen the new version, can still read the STALE
object cell (0 instead of 7) — the conclusion of `pool_handoff_view` fails -/
example : handOff .rlx .rlx 0 = some (1, 0) := by decide
example : handOff .acq .rlx 0 = some (1, 0) := by decide
example : handOff .rlx .rel 0 = some (1, 0) := by decide
/-- with the orders of the code the stale read is not a behaviour of the model; only the pushed content is -/
example : handOff Gen.Pages.ordDealWait Gen.Pages.ordDealSetVer 0 = none ∧
    handOff Gen.Pages.ordDealWait Gen.Pages.ordDealSetVer 1 = some (1, 7) := by decide

/-- the fence shape: `rf` = release fence present, `af` = acquire fence present -/
def handOffFences (rf af : Bool) (cts : Nat) : Option (Nat × Nat) :=
  let m0 : Mem Loc := Mem.init (fun _ => 0)
  let m1 := m0.write 0 (.cell 0) .rlx 7
  let m1' := if rf then m1.fence 0 .rel else m1
  let m2 := m1'.write 0 .slot .rlx 1
  match m2.read 1 .slot .rlx 1 with
  | none => none
  | some (m3, v) =>
    let m3' := if af then m3.fence 1 .acq else m3
    match m3'.read 1 (.cell 0) .rlx cts with
    | none => none
    | some (_, c) => some (v, c)

/-- dropping either fence re-admits the stale read; with both only the pushed content can be read -/
example : handOffFences false true 0 = some (1, 0) := by decide
example : handOffFences true false 0 = some (1, 0) := by decide
example : handOffFences true true 0 = none ∧ handOffFences true true 1 = some (1, 7) := by decide

end Babylon.Pages.View
