/-
  C17 — every transition of the model is a token move (`Delta`): per program counter, then for
  `stepThread`, `callOp`, `retOp` and `Step`.
-/
import Babylon.Pages.Lemmas

namespace Babylon.Pages
open Babylon.Core

/-- occurrences of `a` in the shared places of `S` plus the in-flight lists of a thread record `th` -/
def cntWith (S : State) (th : Th) (a : Tok) : Nat :=
  (cacheToks S).count a + S.held.count a + S.bufs.flatten.count a +
    (th.pages.count a + th.out.count a + th.carry.count a)

theorem coreCnt_eq (s : State) (t : Tid) (a : Tok) : coreCnt s t a = cntWith s (s.th t) a := rfl

theorem coreCnt_setTh (S : State) (t : Tid) (th : Th) (a : Tok) : coreCnt (S.setTh t th) t a = cntWith S th a := by
  simp [coreCnt, cntWith, State.setTh, cacheToks]

/-- `FrameS s S t`: the intermediate state `S` has the thread table of `s` except possibly at `t` -/
def FrameS (s S : State) (t : Tid) : Prop := ∀ u, u ≠ t → S.th u = s.th u

theorem frameS_refl (s : State) (t : Tid) : FrameS s s t := fun _ _ => rfl

theorem mk_move {c : Cfg} {s S : State} {t : Tid} {th : Th} (hf : FrameS s S t)
    (hc : ∀ a, cntWith S th a = cntWith s (s.th t) a) (ho : S.obtained = s.obtained) (hr : S.returned = s.returned) :
    Frame s (S.setTh t th) t ∧ CoreDelta c s (S.setTh t th) t := by
  refine ⟨fun u hu => ?_, .move (fun a => ?_) (by simpa [State.setTh] using ho) (by simpa [State.setTh] using hr)⟩
  · simp [State.setTh, hu, hf u hu]
  · rw [coreCnt_setTh, hc a]; rfl

theorem mk_alloc {c : Cfg} {s S : State} {t : Tid} {th : Th} (p : Tok) (hp : isLive c s p = false) (hf : FrameS s S t)
    (hc : ∀ a, cntWith S th a = cntWith s (s.th t) a + if a = p then 1 else 0)
    (ho : S.obtained = s.obtained + 1) (hr : S.returned = s.returned) :
    Frame s (S.setTh t th) t ∧ CoreDelta c s (S.setTh t th) t := by
  refine ⟨fun u hu => ?_, .alloc p (by simpa [isLive] using hp) (fun a => ?_) (by simpa [State.setTh] using ho)
    (by simpa [State.setTh] using hr)⟩
  · simp [State.setTh, hu, hf u hu]
  · rw [coreCnt_setTh, hc a]; rfl

theorem mk_free {c : Cfg} {s S : State} {t : Tid} {th : Th} (p : Tok) (hf : FrameS s S t)
    (hc : ∀ a, cntWith s (s.th t) a = cntWith S th a + if a = p then 1 else 0)
    (ho : S.obtained = s.obtained) (hr : S.returned = s.returned + 1) :
    Frame s (S.setTh t th) t ∧ CoreDelta c s (S.setTh t th) t := by
  refine ⟨fun u hu => ?_, .free p (fun a => ?_) (by simpa [State.setTh] using ho) (by simpa [State.setTh] using hr)⟩
  · simp [State.setTh, hu, hf u hu]
  · rw [coreCnt_setTh, coreCnt_eq, hc a]

/-- the step result is `some (S.setTh t th, l)` -/
abbrev StepOK (c : Cfg) (s s' : State) (t : Tid) : Prop := Frame s s' t ∧ CoreDelta c s s' t

section simple
variable {c : Cfg} {s s' : State} {t : Tid} {l : Option Act}

@[simp] theorem waitOrGo_pages (th : Th) : (waitOrGo th).pages = th.pages := by unfold waitOrGo; split <;> rfl
@[simp] theorem waitOrGo_out (th : Th) : (waitOrGo th).out = th.out := by unfold waitOrGo; split <;> rfl
@[simp] theorem waitOrGo_carry (th : Th) : (waitOrGo th).carry = th.carry := by unfold waitOrGo; split <;> rfl
@[simp] theorem enterCb_pages (th : Th) : (enterCb th).pages = th.pages := by unfold enterCb; split <;> rfl
@[simp] theorem enterCb_out (th : Th) : (enterCb th).out = th.out := by unfold enterCb; split <;> rfl
@[simp] theorem enterCb_carry (th : Th) : (enterCb th).carry = th.carry := by unfold enterCb; split <;> rfl

@[simp] theorem cacheToks_setCtr (s : State) (d : Dir) (v : Nat) : cacheToks (s.setCtr d v) = cacheToks s := by
  cases d <;> rfl
@[simp] theorem held_setCtr (s : State) (d : Dir) (v : Nat) : (s.setCtr d v).held = s.held := by cases d <;> rfl
@[simp] theorem bufs_setCtr (s : State) (d : Dir) (v : Nat) : (s.setCtr d v).bufs = s.bufs := by cases d <;> rfl
@[simp] theorem th_setCtr (s : State) (d : Dir) (v : Nat) : (s.setCtr d v).th = s.th := by cases d <;> rfl
@[simp] theorem obtained_setCtr (s : State) (d : Dir) (v : Nat) : (s.setCtr d v).obtained = s.obtained := by cases d <;> rfl
@[simp] theorem returned_setCtr (s : State) (d : Dir) (v : Nat) : (s.setCtr d v).returned = s.returned := by cases d <;> rfl
@[simp] theorem held_setSlot (s : State) (k : Nat) (sl : Slot) : (s.setSlot k sl).held = s.held := rfl
@[simp] theorem bufs_setSlot (s : State) (k : Nat) (sl : Slot) : (s.setSlot k sl).bufs = s.bufs := rfl
@[simp] theorem th_setSlot (s : State) (k : Nat) (sl : Slot) : (s.setSlot k sl).th = s.th := rfl
@[simp] theorem obtained_setSlot (s : State) (k : Nat) (sl : Slot) : (s.setSlot k sl).obtained = s.obtained := rfl
@[simp] theorem returned_setSlot (s : State) (k : Nat) (sl : Slot) : (s.setSlot k sl).returned = s.returned := rfl

/-- close the four obligations of `mk_move` for a step that moves no token -/
macro "local_move" : tactic =>
  `(tactic| (apply mk_move <;> first | (intro u hu; simp; done) | (intro a; simp [cntWith]; done) | (simp; done)))

/-- `h : some (S, l) = some (s', l')` -/
macro "take_result" h:ident : tactic =>
  `(tactic| (simp only [Option.some.injEq, Prod.mk.injEq] at $h:ident; obtain ⟨hres, -⟩ := $h:ident; subst hres))

theorem stepTkt_delta (h : stepTkt c s t (s.th t) = some (s', l)) : StepOK c s s' t := by
  unfold stepTkt at h; try dsimp only at h
  take_result h
  local_move

theorem cnt_acquire {i : Nat} {d : Dir} {s1 : State} (h : acquire c s t i d = some s1) (th : Th) (a : Tok) :
    cntWith s1 th a = cntWith s th a ∧ s1.obtained = s.obtained ∧ s1.returned = s.returned ∧ s1.th = s.th := by
  obtain ⟨sl, hsl, -, -, rfl⟩ := acquire_spec h
  have := cacheToks_setSlot s (i % c.cap) sl { sl with owner := some ⟨t, i, d⟩ } a hsl
  simp only [cntWith, held_setSlot, bufs_setSlot] at *
  refine ⟨by omega, rfl, rfl, rfl⟩

theorem stepRdVer_delta (h : stepRdVer c s t (s.th t) = some (s', l)) : StepOK c s s' t := by
  unfold stepRdVer at h; try dsimp only at h
  split at h
  · simp at h
  · split at h
    · split at h
      · simp at h
      · rename_i s1 hacq
        take_result h
        apply mk_move
        · intro u hu; rw [(cnt_acquire hacq (s.th t) 0).2.2.2]
        · intro a; rw [← (cnt_acquire hacq (s.th t) a).1]; simp [cntWith]
        · exact (cnt_acquire hacq (s.th t) 0).2.1
        · exact (cnt_acquire hacq (s.th t) 0).2.2.1
    · take_result h
      local_move

theorem stepRdOpp_delta (h : stepRdOpp c s t (s.th t) = some (s', l)) : StepOK c s s' t := by
  unfold stepRdOpp at h; try dsimp only at h
  take_result h
  local_move

theorem stepCIdx_delta (h : stepCIdx c s t (s.th t) = some (s', l)) : StepOK c s s' t := by
  unfold stepCIdx at h; try dsimp only at h
  take_result h
  local_move

theorem stepCVer_delta (h : stepCVer c s t (s.th t) = some (s', l)) : StepOK c s s' t := by
  unfold stepCVer at h; try dsimp only at h
  split at h
  · simp at h
  · take_result h
    local_move

theorem stepCCas_delta (h : stepCCas c s t (s.th t) = some (s', l)) : StepOK c s s' t := by
  unfold stepCCas at h; try dsimp only at h
  split at h
  · split at h
    · simp at h
    · rename_i s1 hacq
      take_result h
      apply mk_move
      · intro u hu; simp [(cnt_acquire hacq (s.th t) 0).2.2.2]
      · intro a; rw [← (cnt_acquire hacq (s.th t) a).1]; simp [cntWith]
      · simpa using (cnt_acquire hacq (s.th t) 0).2.1
      · simpa using (cnt_acquire hacq (s.th t) 0).2.2.1
  · take_result h
    local_move

theorem stepCAcq_delta (h : stepCAcq c s t (s.th t) = some (s', l)) : StepOK c s s' t := by
  unfold stepCAcq at h; try dsimp only at h
  take_result h
  local_move

theorem stepCRel_delta (h : stepCRel c s t (s.th t) = some (s', l)) : StepOK c s s' t := by
  unfold stepCRel at h; try dsimp only at h
  take_result h
  local_move

/-! tail functions (`finish`, `settle`, `segDone`, `enterSt`) keep the tokens of `(S, th)` -/
def Tail (t : Tid) (S : State) (th : Th) (R : State) : Prop :=
  ∃ S' th', R = S'.setTh t th' ∧ (∀ a, cntWith S' th' a = cntWith S th a) ∧ S'.obtained = S.obtained ∧
    S'.returned = S.returned ∧ S'.th = S.th

theorem Tail.setTh (S : State) (th th' : Th) (h1 : th'.pages = th.pages) (h2 : th'.out = th.out) (h3 : th'.carry = th.carry) :
    Tail t S th (S.setTh t th') :=
  ⟨S, th', rfl, fun a => by simp [cntWith, h1, h2, h3], rfl, rfl, rfl⟩

theorem Tail.move {S R : State} {th : Th} (hT : Tail t S th R) (hf : FrameS s S t)
    (hc : ∀ a, cntWith S th a = cntWith s (s.th t) a) (ho : S.obtained = s.obtained) (hr : S.returned = s.returned) :
    StepOK c s R t := by
  obtain ⟨S', th', rfl, h1, h2, h3, h4⟩ := hT
  exact mk_move (fun u hu => by rw [h4]; exact hf u hu) (fun a => by rw [h1, hc]) (by rw [h2, ho]) (by rw [h3, hr])

theorem Tail.alloc {S R : State} {th : Th} (hT : Tail t S th R) (p : Tok) (hp : isLive c s p = false) (hf : FrameS s S t)
    (hc : ∀ a, cntWith S th a = cntWith s (s.th t) a + if a = p then 1 else 0)
    (ho : S.obtained = s.obtained + 1) (hr : S.returned = s.returned) : StepOK c s R t := by
  obtain ⟨S', th', rfl, h1, h2, h3, h4⟩ := hT
  exact mk_alloc p hp (fun u hu => by rw [h4]; exact hf u hu) (fun a => by rw [h1, hc]) (by rw [h2, ho]) (by rw [h3, hr])

theorem Tail.free {S R : State} {th : Th} (hT : Tail t S th R) (p : Tok) (hf : FrameS s S t)
    (hc : ∀ a, cntWith s (s.th t) a = cntWith S th a + if a = p then 1 else 0)
    (ho : S.obtained = s.obtained) (hr : S.returned = s.returned + 1) : StepOK c s R t := by
  obtain ⟨S', th', rfl, h1, h2, h3, h4⟩ := hT
  exact mk_free p (fun u hu => by rw [h4]; exact hf u hu) (fun a => by rw [hc, h1]) (by rw [h2, ho]) (by rw [h3, hr])

theorem finish_tail {S R : State} {th : Th} (h : finish c S t th = some R) : Tail t S th R := by
  unfold finish at h
  split at h
  · dsimp only at h
    split at h
    · split at h
      · rename_i p ps hp hb
        simp only [Option.some.injEq] at h
        subst h
        refine ⟨_, _, rfl, fun a => ?_, rfl, rfl, rfl⟩
        have := count_flatten_set S.bufs t [] ps a hb
        simp only [cntWith, cacheToks]
        simp only [List.count_append, List.count_cons, List.count_nil, hp] at *
        omega
      · simp at h
    · simp only [Option.some.injEq] at h
      subst h
      exact ⟨_, _, rfl, fun a => by simp [cntWith, cacheToks], rfl, rfl, rfl⟩
  · dsimp only at h
    split at h <;>
    · simp only [Option.some.injEq] at h
      subst h
      exact ⟨_, _, rfl, fun a => by simp [cntWith, cacheToks], rfl, rfl, rfl⟩

theorem settle_tail {S R : State} {th : Th} (h : settle c S t th = some R) : Tail t S th R := by
  unfold settle at h
  split at h
  · simp only [Option.some.injEq] at h
    subst h
    exact Tail.setTh S th _ rfl rfl rfl
  · exact finish_tail h

theorem segDone_tail {S R : State} {th : Th} (h : segDone c S t th = some R) : Tail t S th R := by
  unfold segDone at h
  split at h
  · simp only [Option.some.injEq] at h
    subst h
    exact Tail.setTh S th _ (by simp) (by simp) (by simp)
  · exact settle_tail h

theorem enterSt_tail {S R : State} {th : Th} (h : enterSt c S t th = some R) : Tail t S th R := by
  unfold enterSt at h
  split at h
  · simp only [Option.some.injEq] at h
    subst h
    exact Tail.setTh S th _ rfl rfl rfl
  · exact segDone_tail h

/-- tails applied to a thread record with the same in-flight lists -/
theorem Tail.congr {S R : State} {th th0 : Th} (hT : Tail t S th R) (h1 : th.pages = th0.pages) (h2 : th.out = th0.out)
    (h3 : th.carry = th0.carry) : Tail t S th0 R := by
  obtain ⟨S', th', e, hc, ho, hr, ht⟩ := hT
  exact ⟨S', th', e, fun a => by rw [hc a]; simp [cntWith, h1, h2, h3], ho, hr, ht⟩

theorem cnt_takeVal {i : Nat} {d : Dir} {s1 : State} {p : Tok} (h : takeVal c s t i d = some (s1, p)) (th : Th) (a : Tok) :
    cntWith s th a = cntWith s1 th a + (if a = p then 1 else 0) ∧ s1.obtained = s.obtained ∧
      s1.returned = s.returned ∧ s1.th = s.th := by
  obtain ⟨sl, hsl, hv, -, rfl⟩ := takeVal_spec h
  have := cacheToks_setSlot s (i % c.cap) sl { sl with val := none } a hsl
  simp only [cntWith, held_setSlot, bufs_setSlot, hv, Option.some.injEq] at *
  refine ⟨?_, rfl, rfl, rfl⟩
  by_cases e : a = p
  · subst e; simp at this ⊢; omega
  · have e' : ¬ (p = a) := fun x => e x.symm
    simp [e, e'] at this ⊢; omega

theorem cnt_publish_none {i : Nat} {d : Dir} {s1 : State} (h : publish c s t i d none = some s1) (th : Th) (a : Tok) :
    cntWith s1 th a = cntWith s th a ∧ s1.obtained = s.obtained ∧ s1.returned = s.returned ∧ s1.th = s.th := by
  obtain ⟨sl, hsl, -, hv, rfl⟩ := publish_spec h
  have := cacheToks_setSlot s (i % c.cap) sl { ver := sl.ver + 1, val := none, owner := none } a hsl
  simp only [cntWith, held_setSlot, bufs_setSlot, hv] at *
  refine ⟨?_, rfl, rfl, rfl⟩
  simp at this; omega

theorem cnt_publish_some {i : Nat} {d : Dir} {s1 : State} {p : Tok} (h : publish c s t i d (some p) = some s1) (th : Th) (a : Tok) :
    cntWith s1 th a = cntWith s th a + (if a = p then 1 else 0) ∧ s1.obtained = s.obtained ∧
      s1.returned = s.returned ∧ s1.th = s.th := by
  obtain ⟨sl, hsl, -, hv, rfl⟩ := publish_spec h
  have := cacheToks_setSlot s (i % c.cap) sl { ver := sl.ver + 1, val := some p, owner := none } a hsl
  simp only [cntWith, held_setSlot, bufs_setSlot, hv] at *
  refine ⟨?_, rfl, rfl, rfl⟩
  by_cases e : a = p
  · subst e; simp at this ⊢; omega
  · have e' : ¬ (p = a) := fun x => e x.symm
    simp [e, e'] at this ⊢; omega

theorem stepCCb_delta {tok : Tok} (h : stepCCb c s t (s.th t) tok = some (s', l)) : StepOK c s s' t := by
  unfold stepCCb at h
  split at h
  · split at h
    · simp at h
    · rename_i hl
      take_result h
      apply mk_alloc tok (by simpa using hl)
      · intro u hu; rfl
      · intro a
        simp only [cntWith, cacheToks, List.count_append, List.count_cons, List.count_nil]
        by_cases e : a = tok
        · subst e; simp; omega
        · have e' : ¬ (tok = a) := fun x => e x.symm
          simp [e, e']
      · rfl
      · rfl
  · split at h
    · simp at h
    · rename_i s1 p htv
      take_result h
      apply mk_free p
      · intro u hu; simp [(cnt_takeVal htv (s.th t) 0).2.2.2]
      · intro a
        rw [(cnt_takeVal htv (s.th t) a).1]
        simp [cntWith, cacheToks]
      · simpa using (cnt_takeVal htv (s.th t) 0).2.1
      · simp [(cnt_takeVal htv (s.th t) 0).2.2.1]

theorem stepCSt_delta (h : stepCSt c s t (s.th t) = some (s', l)) : StepOK c s s' t := by
  unfold stepCSt at h
  split at h
  · simp at h
  · split at h
    · split at h
      · rename_i p hcar
        split at h
        · simp at h
        · rename_i s1 hpub
          take_result h
          apply mk_move
          · intro u hu; simp [(cnt_publish_some hpub (s.th t) 0).2.2.2]
          · intro a
            have := (cnt_publish_some hpub (s.th t) a).1
            simp only [cntWith, hcar, List.count_cons, List.count_nil] at *
            by_cases e : a = p
            · subst e; simp at this ⊢; omega
            · have e' : ¬ (p = a) := fun x => e x.symm
              simp [e, e'] at this ⊢; omega
          · exact (cnt_publish_some hpub (s.th t) 0).2.1
          · exact (cnt_publish_some hpub (s.th t) 0).2.2.1
      · simp at h
    · split at h
      · simp at h
      · rename_i s1 hpub
        take_result h
        apply mk_move
        · intro u hu; simp [(cnt_publish_none hpub (s.th t) 0).2.2.2]
        · intro a; rw [← (cnt_publish_none hpub (s.th t) a).1]; simp [cntWith]
        · exact (cnt_publish_none hpub (s.th t) 0).2.1
        · exact (cnt_publish_none hpub (s.th t) 0).2.2.1

theorem stepFAcq_delta (h : stepFAcq c s t (s.th t) = some (s', l)) : StepOK c s s' t := by
  unfold stepFAcq at h
  take_result h
  local_move

theorem stepFCb_delta (h : stepFCb c s t (s.th t) = some (s', l)) : StepOK c s s' t := by
  unfold stepFCb at h
  split at h
  · simp at h
  · rename_i s1 p htv
    take_result h
    apply mk_move
    · intro u hu; simp [(cnt_takeVal htv (s.th t) 0).2.2.2]
    · intro a
      rw [(cnt_takeVal htv (s.th t) a).1]
      simp only [cntWith, enterCb_pages, enterCb_out, enterCb_carry, List.count_append, List.count_cons, List.count_nil]
      by_cases e : a = p
      · subst e; simp; omega
      · have e' : ¬ (p = a) := fun x => e x.symm
        simp [e, e']
    · exact (cnt_takeVal htv (s.th t) 0).2.1
    · exact (cnt_takeVal htv (s.th t) 0).2.2.1

theorem stepFRel_delta (h : stepFRel c s t (s.th t) = some (s', l)) : StepOK c s s' t := by
  unfold stepFRel at h
  cases hE : enterSt c s t { s.th t with i := 0 } with
  | none => simp [hE] at h
  | some R =>
    simp only [hE, Option.map_some, Option.some.injEq, Prod.mk.injEq] at h
    obtain ⟨hres, -⟩ := h; subst hres
    exact ((enterSt_tail hE).congr rfl rfl rfl).move (frameS_refl s t) (fun a => rfl) rfl rfl

theorem stepFSt_delta (h : stepFSt c s t (s.th t) = some (s', l)) : StepOK c s s' t := by
  unfold stepFSt at h; dsimp only at h
  split at h
  · simp at h
  · split at h
    · split at h
      · simp at h
      · rename_i s1 hpub
        cases hE : enterSt c s1 t { s.th t with i := (s.th t).i + 1 } with
        | none => simp [hE] at h
        | some R =>
          simp only [hE, Option.map_some, Option.some.injEq, Prod.mk.injEq] at h
          obtain ⟨hres, -⟩ := h; subst hres
          refine ((enterSt_tail hE).congr (th0 := s.th t) rfl rfl rfl).move ?_ ?_ ?_ ?_
          · intro u hu; rw [(cnt_publish_none hpub (s.th t) 0).2.2.2]
          · intro a; exact (cnt_publish_none hpub (s.th t) a).1
          · exact (cnt_publish_none hpub (s.th t) 0).2.1
          · exact (cnt_publish_none hpub (s.th t) 0).2.2.1
    · split at h
      · simp at h
      · rename_i p ps hpg
        split at h
        · simp at h
        · rename_i s1 hpub
          cases hE : enterSt c s1 t { s.th t with i := (s.th t).i + 1, pages := ps } with
          | none => simp [hE] at h
          | some R =>
            simp only [hE, Option.map_some, Option.some.injEq, Prod.mk.injEq] at h
            obtain ⟨hres, -⟩ := h; subst hres
            refine (enterSt_tail hE).move ?_ ?_ ?_ ?_
            · intro u hu; rw [(cnt_publish_some hpub (s.th t) 0).2.2.2]
            · intro a
              have := (cnt_publish_some hpub (s.th t) a).1
              simp only [cntWith, hpg, List.count_cons] at *
              by_cases e : a = p
              · subst e; simp at this ⊢; omega
              · have e' : ¬ (p = a) := fun x => e x.symm
                simp [e, e'] at this ⊢; omega
            · exact (cnt_publish_some hpub (s.th t) 0).2.1
            · exact (cnt_publish_some hpub (s.th t) 0).2.2.1

theorem stepRem_delta {tok : Tok} (h : stepRem c s t (s.th t) tok = some (s', l)) : StepOK c s s' t := by
  unfold stepRem at h
  split at h
  · split at h
    · simp at h
    · rename_i hl
      cases hE : settle c { s with obtained := s.obtained + 1 } t { s.th t with pages := (s.th t).pages ++ [tok] } with
      | none => simp [hE] at h
      | some R =>
        simp only [hE, Option.map_some, Option.some.injEq, Prod.mk.injEq] at h
        obtain ⟨hres, -⟩ := h; subst hres
        refine (settle_tail hE).alloc tok (by simpa using hl) (fun u hu => rfl) (fun a => ?_) rfl rfl
        simp only [cntWith, cacheToks, List.count_append, List.count_cons, List.count_nil]
        by_cases e : a = tok
        · subst e; simp; omega
        · have e' : ¬ (tok = a) := fun x => e x.symm
          simp [e, e']
  · split at h
    · simp at h
    · rename_i p ps hpg
      cases hE : settle c { s with returned := s.returned + 1 } t { s.th t with pages := ps } with
      | none => simp [hE] at h
      | some R =>
        simp only [hE, Option.map_some, Option.some.injEq, Prod.mk.injEq] at h
        obtain ⟨hres, -⟩ := h; subst hres
        refine (settle_tail hE).free p (fun u hu => rfl) (fun a => ?_) rfl rfl
        simp only [cntWith, cacheToks, hpg, List.count_cons]
        by_cases e : a = p
        · subst e; simp; omega
        · have e' : ¬ (p = a) := fun x => e x.symm
          simp [e, e']

theorem startAlloc_tail (S : State) (th : Th) (n : Nat) (k : Cont) : Tail t S th (startAlloc c S t th n k) := by
  unfold startAlloc
  exact ⟨_, _, rfl, fun a => by simp [cntWith, cacheToks], rfl, rfl, rfl⟩

theorem startDealloc_tail (S : State) (th : Th) (k : Cont) : Tail t S th (startDealloc c S t th k) := by
  unfold startDealloc
  exact ⟨_, _, rfl, fun a => by simp [cntWith, cacheToks], rfl, rfl, rfl⟩

theorem stepBLoop_delta (h : stepBLoop c s t (s.th t) = some (s', l)) : StepOK c s s' t := by
  unfold stepBLoop at h
  split at h
  · take_result h
    local_move
  · split at h
    · rename_i p ps hb
      take_result h
      apply mk_move
      · intro u hu; rfl
      · intro a
        have := count_flatten_set s.bufs t (p :: ps) ps a hb
        simp only [cntWith, cacheToks, List.count_append, List.count_cons, List.count_nil] at *
        omega
      · rfl
      · rfl
    · simp only [Option.some.injEq, Prod.mk.injEq] at h
      obtain ⟨hres, -⟩ := h; subst hres
      exact (startAlloc_tail s (s.th t) c.batch .refill).move (frameS_refl s t) (fun a => rfl) rfl rfl
    · simp at h

theorem stepDIdx_delta (h : stepDIdx c s t (s.th t) = some (s', l)) : StepOK c s s' t := by
  unfold stepDIdx at h; dsimp only at h
  take_result h
  local_move

theorem stepDVer_delta (h : stepDVer c s t (s.th t) = some (s', l)) : StepOK c s s' t := by
  unfold stepDVer at h; dsimp only at h
  split at h
  · simp at h
  · split at h
    · split at h
      · simp at h
      · rename_i s1 hacq
        take_result h
        apply mk_move
        · intro u hu; rw [(cnt_acquire hacq (s.th t) 0).2.2.2]
        · intro a; rw [← (cnt_acquire hacq (s.th t) a).1]; simp [cntWith]
        · exact (cnt_acquire hacq (s.th t) 0).2.1
        · exact (cnt_acquire hacq (s.th t) 0).2.2.1
    · split at h
      · take_result h
        local_move
      · take_result h
        local_move

theorem stepDClaim_delta (h : stepDClaim c s t (s.th t) = some (s', l)) : StepOK c s s' t := by
  unfold stepDClaim at h
  take_result h
  apply mk_move
  · intro u hu; rfl
  · intro a; simp [cntWith, cacheToks]
  · rfl
  · rfl

theorem stepDAcq_delta (h : stepDAcq c s t (s.th t) = some (s', l)) : StepOK c s s' t := by
  unfold stepDAcq at h
  take_result h
  local_move

theorem stepDCb_delta (h : stepDCb c s t (s.th t) = some (s', l)) : StepOK c s s' t := by
  unfold stepDCb at h
  split at h
  · simp at h
  · rename_i s1 p htv
    take_result h
    apply mk_free p
    · intro u hu; simp [(cnt_takeVal htv (s.th t) 0).2.2.2]
    · intro a
      rw [(cnt_takeVal htv (s.th t) a).1]
      simp [cntWith, cacheToks]
    · simpa using (cnt_takeVal htv (s.th t) 0).2.1
    · simp [(cnt_takeVal htv (s.th t) 0).2.2.1]

theorem stepDRel_delta (h : stepDRel c s t (s.th t) = some (s', l)) : StepOK c s s' t := by
  unfold stepDRel at h
  take_result h
  local_move

theorem stepDSt_delta (h : stepDSt c s t (s.th t) = some (s', l)) : StepOK c s s' t := by
  unfold stepDSt at h; dsimp only at h
  split at h
  · simp at h
  · split at h
    · simp at h
    · rename_i s1 hpub
      take_result h
      apply mk_move
      · intro u hu; rw [(cnt_publish_none hpub (s.th t) 0).2.2.2]
      · intro a
        rw [← (cnt_publish_none hpub (s.th t) a).1]
        split <;> (try split) <;> simp [cntWith]
      · exact (cnt_publish_none hpub (s.th t) 0).2.1
      · exact (cnt_publish_none hpub (s.th t) 0).2.2.1

theorem stepBdNext_delta (h : stepBdNext c s t (s.th t) = some (s', l)) : StepOK c s s' t := by
  unfold stepBdNext at h
  split at h
  · take_result h
    local_move
  · rename_i u us htodo
    split at h
    · simp at h
    · take_result h
      local_move
    · rename_i p ps hb
      simp only [Option.some.injEq, Prod.mk.injEq] at h
      obtain ⟨hres, -⟩ := h; subst hres
      refine (startDealloc_tail _ _ .flush).move (fun v hv => rfl) (fun a => ?_) rfl rfl
      have := count_flatten_set s.bufs u (p :: ps) [] a hb
      simp only [cntWith, cacheToks, List.count_append, List.count_cons, List.count_nil] at *
      omega

theorem stepPRecycle_delta (h : stepPRecycle c s t (s.th t) = some (s', l)) : StepOK c s s' t := by
  unfold stepPRecycle at h
  split at h
  · dsimp only at h
    split at h <;>
    · take_result h
      apply mk_move
      · intro u hu; rfl
      · intro a; simp [cntWith, cacheToks]
      · rfl
      · rfl
  · simp at h

theorem stepGPop_delta (h : stepGPop c s t (s.th t) = some (s', l)) : StepOK c s s' t := by
  unfold stepGPop at h
  take_result h
  local_move

theorem stepGPush_delta (h : stepGPush c s t (s.th t) = some (s', l)) : StepOK c s s' t := by
  unfold stepGPush at h; dsimp only at h
  split at h <;> split at h <;>
  · take_result h
    apply mk_move
    · intro u hu; rfl
    · intro a; simp [cntWith]
    · rfl
    · rfl

theorem stepPDestroy_delta (h : stepPDestroy c s t (s.th t) = some (s', l)) : StepOK c s s' t := by
  unfold stepPDestroy at h
  split at h
  · rename_i o hpg
    take_result h
    apply mk_free o
    · intro u hu; rfl
    · intro a
      simp only [cntWith, cacheToks, hpg, List.count_cons, List.count_nil]
      by_cases e : a = o
      · subst e; simp; omega
      · have e' : ¬ (o = a) := fun x => e x.symm
        simp [e, e']
    · rfl
    · rfl
  · simp at h

theorem stepSTkt_delta (h : stepSTkt c s t (s.th t) = some (s', l)) : StepOK c s s' t := by
  unfold stepSTkt at h; dsimp only at h
  take_result h
  local_move

theorem stepDlWait_delta (h : stepDlWait c s t (s.th t) = some (s', l)) : StepOK c s s' t := by
  unfold stepDlWait at h
  split at h
  · simp at h
  · rename_i s1 hacq
    take_result h
    apply mk_move
    · intro u hu; rw [(cnt_acquire hacq (s.th t) 0).2.2.2]
    · intro a; rw [← (cnt_acquire hacq (s.th t) a).1]; simp [cntWith]
    · exact (cnt_acquire hacq (s.th t) 0).2.1
    · exact (cnt_acquire hacq (s.th t) 0).2.2.1

theorem take_to_pages {i : Nat} {d : Dir} {s1 : State} {p : Tok} (htv : takeVal c s t i d = some (s1, p)) (th' : Th)
    (h1 : th'.pages = (s.th t).pages ++ [p]) (h2 : th'.out = (s.th t).out) (h3 : th'.carry = (s.th t).carry) :
    StepOK c s (s1.setTh t th') t := by
  apply mk_move
  · intro u hu; rw [(cnt_takeVal htv (s.th t) 0).2.2.2]
  · intro a
    rw [(cnt_takeVal htv (s.th t) a).1]
    simp only [cntWith, h1, h2, h3, List.count_append, List.count_cons, List.count_nil]
    by_cases e : a = p
    · subst e; simp; omega
    · have e' : ¬ (p = a) := fun x => e x.symm
      simp [e, e']
  · exact (cnt_takeVal htv (s.th t) 0).2.1
  · exact (cnt_takeVal htv (s.th t) 0).2.2.1

theorem stepDlCb_delta (h : stepDlCb c s t (s.th t) = some (s', l)) : StepOK c s s' t := by
  unfold stepDlCb at h
  split at h
  · simp at h
  · rename_i s1 p htv
    take_result h
    exact take_to_pages htv _ rfl rfl rfl

theorem pub_none_local {i : Nat} {d : Dir} {s1 : State} (hpub : publish c s t i d none = some s1) (th' : Th)
    (h1 : th'.pages = (s.th t).pages) (h2 : th'.out = (s.th t).out) (h3 : th'.carry = (s.th t).carry) :
    StepOK c s (s1.setTh t th') t := by
  apply mk_move
  · intro u hu; rw [(cnt_publish_none hpub (s.th t) 0).2.2.2]
  · intro a; rw [← (cnt_publish_none hpub (s.th t) a).1]; simp [cntWith, h1, h2, h3]
  · exact (cnt_publish_none hpub (s.th t) 0).2.1
  · exact (cnt_publish_none hpub (s.th t) 0).2.2.1

theorem stepDlPub_delta (h : stepDlPub c s t (s.th t) = some (s', l)) : StepOK c s s' t := by
  unfold stepDlPub at h
  split at h
  · simp at h
  · split at h
    · split at h
      · simp at h
      · rename_i s1 hpub
        take_result h
        exact pub_none_local hpub _ rfl rfl rfl
    · split at h
      · rename_i o hpg
        split at h
        · simp at h
        · rename_i s1 hpub
          take_result h
          apply mk_move
          · intro u hu; rw [(cnt_publish_some hpub (s.th t) 0).2.2.2]
          · intro a
            have := (cnt_publish_some hpub (s.th t) a).1
            simp only [cntWith, hpg, List.count_cons, List.count_nil] at *
            by_cases e : a = o
            · subst e; simp at this ⊢; omega
            · have e' : ¬ (o = a) := fun x => e x.symm
              simp [e, e'] at this ⊢; omega
          · exact (cnt_publish_some hpub (s.th t) 0).2.1
          · exact (cnt_publish_some hpub (s.th t) 0).2.2.1
      · simp at h

theorem stepSIdx_delta (h : stepSIdx c s t (s.th t) = some (s', l)) : StepOK c s s' t := by
  unfold stepSIdx at h
  take_result h
  local_move

theorem stepSVer_delta (h : stepSVer c s t (s.th t) = some (s', l)) : StepOK c s s' t := by
  unfold stepSVer at h
  split at h
  · simp at h
  · take_result h
    local_move

theorem stepSIdx2_delta (h : stepSIdx2 c s t (s.th t) = some (s', l)) : StepOK c s s' t := by
  unfold stepSIdx2 at h; dsimp only at h
  split at h <;>
  · take_result h
    local_move

theorem stepSCas_delta {spur : Bool} (h : stepSCas c s t (s.th t) spur = some (s', l)) : StepOK c s s' t := by
  unfold stepSCas at h; dsimp only at h
  split at h
  · split at h
    · simp at h
    · rename_i s1 hacq
      take_result h
      apply mk_move
      · intro u hu; simp [(cnt_acquire hacq (s.th t) 0).2.2.2]
      · intro a; rw [← (cnt_acquire hacq (s.th t) a).1]; simp [cntWith, cacheToks]
      · simpa using (cnt_acquire hacq (s.th t) 0).2.1
      · simpa using (cnt_acquire hacq (s.th t) 0).2.2.1
  · take_result h
    local_move

theorem stepSCb_delta (h : stepSCb c s t (s.th t) = some (s', l)) : StepOK c s s' t := by
  unfold stepSCb at h
  split at h
  · simp at h
  · rename_i s1 p htv
    take_result h
    exact take_to_pages htv _ rfl rfl rfl

theorem stepSPub_delta (h : stepSPub c s t (s.th t) = some (s', l)) : StepOK c s s' t := by
  unfold stepSPub at h
  split at h
  · simp at h
  · split at h
    · simp at h
    · rename_i s1 hpub
      take_result h
      exact pub_none_local hpub _ rfl rfl rfl

/-- every internal step of a thread is a token move -/
theorem stepThread_delta {tok : Tok} {spur : Bool} (h : stepThread c s t tok spur = some (s', l)) : StepOK c s s' t := by
  unfold stepThread at h; dsimp only at h
  split at h
  · simp at h
  · simp at h
  · exact stepBLoop_delta h
  · exact stepTkt_delta h
  · exact stepRdVer_delta h
  · exact stepRdOpp_delta h
  · exact stepCIdx_delta h
  · exact stepCVer_delta h
  · exact stepCCas_delta h
  · exact stepCAcq_delta h
  · exact stepCCb_delta h
  · exact stepCRel_delta h
  · exact stepCSt_delta h
  · exact stepFAcq_delta h
  · exact stepFCb_delta h
  · exact stepFRel_delta h
  · exact stepFSt_delta h
  · exact stepRem_delta h
  · exact stepDIdx_delta h
  · exact stepDVer_delta h
  · exact stepDClaim_delta h
  · exact stepDAcq_delta h
  · exact stepDCb_delta h
  · exact stepDRel_delta h
  · exact stepDSt_delta h
  · exact stepBdNext_delta h
  · exact stepPRecycle_delta h
  · exact stepGPop_delta h
  · exact stepGPush_delta h
  · exact stepPDestroy_delta h
  · exact stepSTkt_delta h
  · exact stepDlWait_delta h
  · exact stepDlCb_delta h
  · exact stepDlPub_delta h
  · exact stepSIdx_delta h
  · exact stepSVer_delta h
  · exact stepSIdx2_delta h
  · exact stepSCas_delta h
  · exact stepSCb_delta h
  · exact stepSPub_delta h

theorem callOp_delta {op : Op} (h : callOp c s t op = some s') : StepOK c s s' t := by
  unfold callOp at h; dsimp only at h
  split at h
  · simp at h
  · cases op with
    | alloc n =>
      dsimp only at h
      split at h
      · simp at h
      · split at h
        · simp only [Option.some.injEq] at h; subst h
          local_move
        · simp only [Option.some.injEq] at h; subst h
          exact ((startAlloc_tail (c := c) s { s.th t with kind := OpKind.alloc } n .top).congr (th0 := s.th t) rfl rfl rfl).move (frameS_refl s t) (fun a => rfl) rfl rfl
    | dealloc ps =>
      dsimp only at h
      split at h
      · simp at h
      · split at h
        · simp at h
        · rename_i hd htm
          simp only [Option.some.injEq] at h; subst h
          refine (startDealloc_tail _ _ .top).move (fun u hu => rfl) (fun a => ?_) rfl rfl
          have := takeMany_count s.held ps hd a htm
          simp only [cntWith, cacheToks, List.count_append] at *
          omega
    | dtor =>
      dsimp only at h
      split at h
      · simp at h
      · simp only [Option.some.injEq] at h; subst h
        local_move
    | bdtor order =>
      dsimp only at h
      split at h
      · simp at h
      · simp only [Option.some.injEq] at h; subst h
        local_move
    | inject o =>
      dsimp only at h
      split at h
      · simp at h
      · rename_i hl
        simp only [Option.some.injEq] at h; subst h
        have hl' : o ∉ toks c s := by
          intro hin; exact hl (Or.inr (by simp [isLive, hin]))
        refine ⟨fun u hu => rfl, .alloc o hl' (fun a => ?_) rfl rfl⟩
        simp only [coreCnt, cacheToks, List.count_append, List.count_cons, List.count_nil]
        by_cases e : a = o
        · subst e; simp; omega
        · have e' : ¬ (o = a) := fun x => e x.symm
          simp [e, e']
    | pop =>
      dsimp only at h
      split at h
      · simp only [Option.some.injEq] at h; subst h
        exact ((startAlloc_tail (c := c) s { s.th t with kind := OpKind.pop } 1 .top).congr (th0 := s.th t) rfl rfl rfl).move (frameS_refl s t) (fun a => rfl) rfl rfl
      · simp only [Option.some.injEq] at h; subst h
        local_move
      · simp at h
    | tryPop =>
      dsimp only at h
      split at h
      · simp at h
      · simp only [Option.some.injEq] at h; subst h
        local_move
    | push o =>
      dsimp only at h
      split at h
      · simp at h
      · split at h
        · rename_i ho
          simp only [Option.some.injEq] at h; subst h
          apply mk_move
          · intro u hu; rfl
          · intro a
            have h1 : 0 < s.held.count o := List.count_pos_iff.mpr ho
            simp only [cntWith, cacheToks, List.count_append, List.count_cons, List.count_nil, List.count_erase]
            by_cases e : a = o
            · subst e; simp; omega
            · have e' : ¬ (o = a) := fun x => e x.symm
              simp [e, e']
          · rfl
          · rfl
        · simp at h

theorem retOp_delta (h : retOp c s t = some s') : StepOK c s s' t := by
  unfold retOp at h; dsimp only at h
  split at h
  · simp at h
  · simp only [Option.some.injEq] at h; subst h
    apply mk_move
    · intro u hu; rfl
    · intro a; simp only [cntWith, cacheToks, Th.result, List.count_append, List.count_nil]; omega
    · rfl
    · rfl

end simple

/-- **Every transition of the model is a token move.** -/
theorem Step.delta {c : Cfg} {s s' : State} (h : Step c s s') : Delta c s s' := by
  cases h with
  | thread t tok spur l ht hs => exact Delta.of_core ht (stepThread_delta hs).1 (stepThread_delta hs).2
  | call t op ht hs => exact Delta.of_core ht (callOp_delta hs).1 (callOp_delta hs).2
  | ret t ht hs => exact Delta.of_core ht (retOp_delta hs).1 (retOp_delta hs).2

end Babylon.Pages
