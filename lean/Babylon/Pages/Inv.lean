/-
  C17 — invariants of the token model over all reachable states (all interleavings, thread counts,
  capacities, batch sizes, histories): single owner, conservation, idle threads hold nothing.
-/
import Babylon.Pages.LemmasDelta

namespace Babylon.Pages
open Babylon.Core

/-- states reachable from the initial state (empty cache, no thread inside) -/
def Reach (c : Cfg) : State → Prop := Reachable (fun s => ∃ r0, s = State.initAt c r0) (Step c)

theorem toks_init (c : Cfg) (r0 : Nat) : toks c (State.initAt c r0) = [] := by
  have h1 : cacheToks (State.initAt c r0) = [] := by
    simp only [cacheToks, State.initAt]
    induction c.cap with
    | zero => rfl
    | succ n ih => simp [List.replicate_succ, ih]
  have h2 : (State.initAt c r0).bufs.flatten = [] := by
    simp only [State.initAt]
    induction c.nthreads with
    | zero => rfl
    | succ n ih => simp [List.replicate_succ, ih]
  have h3 : thToks c (State.initAt c r0) = [] := by
    simp only [thToks, State.initAt, Th.toks]
    induction (List.range c.nthreads) with
    | nil => rfl
    | cons x xs ih => simpa using ih
  unfold toks; rw [h1, h2, h3]; simp [State.initAt]

theorem Delta.nodup {c : Cfg} {s s' : State} (h : Delta c s s') (hn : (toks c s).Nodup) : (toks c s').Nodup := by
  cases h with
  | move hp _ _ => exact hp.symm.nodup_iff.mp hn
  | alloc p hp hperm _ _ => exact hperm.symm.nodup_iff.mp (List.nodup_cons.mpr ⟨hp, hn⟩)
  | free p hperm _ _ => exact (List.nodup_cons.mp (hperm.nodup_iff.mp hn)).2

theorem Delta.conserve {c : Cfg} {s s' : State} (h : Delta c s s')
    (hc : s.obtained = s.returned + (toks c s).length) : s'.obtained = s'.returned + (toks c s').length := by
  cases h with
  | move hp ho hr => rw [ho, hr, hp.length_eq]; exact hc
  | alloc p _ hperm ho hr => rw [ho, hr, hperm.length_eq, List.length_cons]; omega
  | free p hperm ho hr =>
    have := hperm.length_eq
    rw [List.length_cons] at this
    rw [ho, hr]; omega

/-- **Single owner**: in every reachable state the list of all (place, token) occurrences has no
duplicate — a token is in at most one place, at most once; a token in no place is upstream. -/
theorem reach_nodup {c : Cfg} {s : State} (h : Reach c s) : (toks c s).Nodup := by
  refine Reachable.invariant (fun s => (toks c s).Nodup) ?_ ?_ s h
  · intro s hs; obtain ⟨r0, rfl⟩ := hs; rw [toks_init]; exact List.nodup_nil
  · intro s s' hn hst; exact (Step.delta hst).nodup hn

/-- **Conservation, always** (not only at quiescence): obtained − returned = live tokens. -/
theorem reach_conserve {c : Cfg} {s : State} (h : Reach c s) : s.obtained = s.returned + (toks c s).length := by
  refine Reachable.invariant (fun s => s.obtained = s.returned + (toks c s).length) ?_ ?_ s h
  · intro s hs; obtain ⟨r0, rfl⟩ := hs; rw [toks_init]; simp [State.initAt]
  · intro s s' hc hst; exact (Step.delta hst).conserve hc

/-! ### idle threads hold nothing -/
def IdleEmpty (s : State) : Prop := ∀ t, (s.th t).pc = .idle → (s.th t).toks = []

theorem stepThread_pc_ne_idle {c : Cfg} {s s' : State} {t : Tid} {tok : Tok} {spur : Bool} {l : Option Act}
    (h : stepThread c s t tok spur = some (s', l)) : (s.th t).pc ≠ .idle := by
  intro hp
  unfold stepThread at h
  simp [hp] at h


@[simp] theorem waitOrGo_pc (th : Th) : ((waitOrGo th).pc = .idle) = False := by
  unfold waitOrGo; split <;> simp

@[simp] theorem enterCb_pc (th : Th) : ((enterCb th).pc = .idle) = False := by
  unfold enterCb; split <;> simp

/-- split the step hypothesis `h` into its leaves, substitute the result state, simplify the goal -/
macro "leaves" h:ident : tactic =>
  `(tactic| ((try dsimp only at $h:ident) <;> (repeat' split at $h:ident) <;> (try (simp at $h:ident; done)) <;>
      (simp only [Option.some.injEq, Prod.mk.injEq] at $h:ident) <;>
      (first | (obtain ⟨hres, -⟩ : _ ∧ _ := $h:ident; subst hres) | subst $h:ident) <;>
      (try (simp [State.setTh]; done)) <;> (try (simp [State.setTh, *]; done)) <;>
      (try (simp only [State.setTh]; split <;> (try split) <;> simp [*]; done))))

theorem finish_pc {c : Cfg} {S R : State} {t : Tid} {th : Th} (h : finish c S t th = some R) : (R.th t).pc ≠ .idle := by
  unfold finish at h
  leaves h

theorem settle_pc {c : Cfg} {S R : State} {t : Tid} {th : Th} (h : settle c S t th = some R) : (R.th t).pc ≠ .idle := by
  unfold settle at h
  split at h
  · leaves h
  · exact finish_pc h

theorem segDone_pc {c : Cfg} {S R : State} {t : Tid} {th : Th} (h : segDone c S t th = some R) : (R.th t).pc ≠ .idle := by
  unfold segDone at h
  split at h
  · leaves h
  · exact settle_pc h

theorem enterSt_pc {c : Cfg} {S R : State} {t : Tid} {th : Th} (h : enterSt c S t th = some R) : (R.th t).pc ≠ .idle := by
  unfold enterSt at h
  split at h
  · leaves h
  · exact segDone_pc h

@[simp] theorem startAlloc_pc (c : Cfg) (S : State) (t : Tid) (th : Th) (n : Nat) (k : Cont) :
    (((startAlloc c S t th n k).th t).pc = .idle) = False := by simp [startAlloc, State.setTh]

@[simp] theorem startDealloc_pc (c : Cfg) (S : State) (t : Tid) (th : Th) (k : Cont) :
    (((startDealloc c S t th k).th t).pc = .idle) = False := by simp [startDealloc, State.setTh]

/-- steps that end in a tail function -/
macro "tails" h:ident lem:ident : tactic =>
  `(tactic| ((try dsimp only at $h:ident) <;> (repeat' split at $h:ident) <;> (try (simp at $h:ident; done)) <;>
      (simp only [Option.map_eq_some_iff, Prod.mk.injEq] at $h:ident) <;>
      (obtain ⟨R, hR, hres, -⟩ := $h:ident) <;> (subst hres) <;> (exact $lem hR)))

/-- no internal step ends a call: only the `ret` event makes a thread idle -/
theorem stepThread_not_idle {c : Cfg} {s s' : State} {t : Tid} {tok : Tok} {spur : Bool} {l : Option Act}
    (h : stepThread c s t tok spur = some (s', l)) : (s'.th t).pc ≠ .idle := by
  unfold stepThread at h; dsimp only at h
  split at h
  · simp at h
  · simp at h
  · unfold stepBLoop at h; leaves h
  · unfold stepTkt at h; leaves h
  · unfold stepRdVer at h; leaves h
  · unfold stepRdOpp at h; leaves h
  · unfold stepCIdx at h; leaves h
  · unfold stepCVer at h; leaves h
  · unfold stepCCas at h; leaves h
  · unfold stepCAcq at h; leaves h
  · unfold stepCCb at h; leaves h
  · unfold stepCRel at h; leaves h
  · unfold stepCSt at h; leaves h
  · unfold stepFAcq at h; leaves h
  · unfold stepFCb at h; leaves h
  · unfold stepFRel at h; tails h enterSt_pc
  · unfold stepFSt at h; tails h enterSt_pc
  · unfold stepRem at h; tails h settle_pc
  · unfold stepDIdx at h; leaves h
  · unfold stepDVer at h; leaves h
  · unfold stepDClaim at h; leaves h
  · unfold stepDAcq at h; leaves h
  · unfold stepDCb at h; leaves h
  · unfold stepDRel at h; leaves h
  · unfold stepDSt at h; leaves h
  · unfold stepBdNext at h; leaves h
  · unfold stepPRecycle at h; leaves h
  · unfold stepGPop at h; leaves h
  · unfold stepGPush at h; leaves h
  · unfold stepPDestroy at h; leaves h
  · unfold stepSTkt at h; leaves h
  · unfold stepDlWait at h; leaves h
  · unfold stepDlCb at h; leaves h
  · unfold stepDlPub at h; leaves h
  · unfold stepSIdx at h; leaves h
  · unfold stepSVer at h; leaves h
  · unfold stepSIdx2 at h; leaves h
  · unfold stepSCas at h; leaves h
  · unfold stepSCb at h; leaves h
  · unfold stepSPub at h; leaves h


theorem callOp_pc {c : Cfg} {s s' : State} {t : Tid} {op : Op} (h : callOp c s t op = some s') :
    (s'.th t).pc ≠ .idle ∨ s'.th = s.th := by
  unfold callOp at h; dsimp only at h
  split at h
  · simp at h
  · cases op <;> dsimp only at h <;> (repeat' split at h) <;> (try (simp at h; done)) <;>
      simp only [Option.some.injEq] at h <;> subst h <;> simp [State.setTh, startAlloc, startDealloc]

theorem step_idleEmpty {c : Cfg} {s s' : State} (h : Step c s s') (hi : IdleEmpty s) : IdleEmpty s' := by
  cases h with
  | thread t tok spur l ht hs =>
    intro u hu
    by_cases e : u = t
    · subst e; exact absurd hu (stepThread_not_idle hs)
    · rw [(stepThread_delta hs).1 u e] at hu ⊢; exact hi u hu
  | call t op ht hs =>
    intro u hu
    by_cases e : u = t
    · subst e
      rcases callOp_pc hs with h1 | h1
      · exact absurd hu h1
      · rw [h1] at hu ⊢; exact hi u hu
    · rw [(callOp_delta hs).1 u e] at hu ⊢; exact hi u hu
  | ret t ht hs =>
    intro u hu
    by_cases e : u = t
    · subst e
      unfold retOp at hs; dsimp only at hs
      split at hs
      · simp at hs
      · simp only [Option.some.injEq] at hs; subst hs; simp [State.setTh, Th.toks]
    · rw [(retOp_delta hs).1 u e] at hu ⊢; exact hi u hu

theorem reach_idleEmpty {c : Cfg} {s : State} (h : Reach c s) : IdleEmpty s := by
  refine Reachable.invariant IdleEmpty ?_ ?_ s h
  · intro s hs; obtain ⟨r0, rfl⟩ := hs; intro t _; simp [State.initAt, Th.toks]
  · intro s s' hi hst; exact step_idleEmpty hst hi

/-- at quiescence no token is in flight -/
theorem thToks_quiescent {c : Cfg} {s : State} (hi : IdleEmpty s) (hq : Quiescent c s) : thToks c s = [] := by
  unfold thToks
  apply List.flatMap_eq_nil_iff.mpr
  intro t ht
  exact hi t (hq t (List.mem_range.mp ht))

end Babylon.Pages
