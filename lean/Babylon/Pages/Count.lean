/-
  C17 — CountingPageAllocator / PageHeap: the page counter equals the number of pages above the cache
  layer (with callers, in thread buffers, in a result array), corrected for calls in progress.
-/
import Babylon.Pages.Len

namespace Babylon.Pages
open Babylon.Core

/-- pool program counters -/
def Pc.isPool : Pc → Bool
  | .pRecycle | .gPop | .gPush | .pDestroy => true
  | p => p.inS

/-- in page-allocator mode no thread ever is at a pool program counter -/
def PagesPcs (s : State) : Prop := ∀ t, (s.th t).pc.isPool = false

theorem exit_not_pool (d : Dir) (k : Cont) : (exitPc d k).isPool = false := by
  cases d <;> cases k <;> rfl

theorem inM_not_pool {p : Pc} (h : p.inM = true) : p.isPool = false := by
  cases p <;> simp [Pc.inM] at h <;> rfl

theorem inD_not_pool {p : Pc} (h : p.inD = true) : p.isPool = false := by
  cases p <;> simp [Pc.inD] at h <;> rfl

theorem flow_not_pool {c : Cfg} {th th' : Th} (h : Flow c th th') (h1 : th.pc ≠ .idle) (h2 : th.pc ≠ .retWait)
    (hp : th.pc.isPool = false) : th'.pc.isPool = false := by
  obtain ⟨-, hM, hB, hBd, hD, hS, hP, hG1, hG2, hPd⟩ := h
  by_cases hm : th.pc.inM = true
  · rcases (hM hm).2.2 with e | e
    · exact inM_not_pool e
    · rw [e]; exact exit_not_pool _ _
  by_cases hd : th.pc.inD = true
  · rcases hD hd with e | e
    · exact inD_not_pool e
    · rw [e]; rfl
  by_cases hb : th.pc = .bLoop
  · rcases hB hb with e | e | ⟨e, -⟩ <;> rw [e] <;> rfl
  by_cases hbd : th.pc = .bdNext
  · rcases hBd hbd with e | e | ⟨e, -⟩ <;> rw [e] <;> rfl
  exfalso
  cases hpc : th.pc <;> simp [hpc, Pc.isPool, Pc.inM, Pc.inD, Pc.inS] at hp hm hd hb hbd h1 h2


theorem callOp_pagesPcs {c : Cfg} {s s' : State} {t : Tid} {op : Op} (hm : c.mode = Mode.pages)
    (h : callOp c s t op = some s') (hi : PagesPcs s) : PagesPcs s' := by
  unfold callOp at h; dsimp only at h
  split at h
  · simp at h
  · cases op <;> dsimp only at h <;> (try simp only [hm] at h) <;> (repeat' split at h) <;> (try (simp at h; done)) <;>
      simp only [Option.some.injEq] at h <;> subst h <;> intro u <;>
      first
        | exact hi u
        | (simp only [State.setTh, startAlloc, startDealloc]; split <;> first | rfl | exact hi u)

theorem reach_pagesPcs {c : Cfg} {s : State} (hm : c.mode = Mode.pages) (h : Reach c s) : PagesPcs s := by
  refine Reachable.invariant PagesPcs ?_ ?_ s h
  · intro s hs; obtain ⟨r0, rfl⟩ := hs; intro t; rfl
  · intro s s' hi hst
    cases hst with
    | thread t tok spur l ht hs =>
      intro u
      by_cases e : u = t
      · subst e
        refine flow_not_pool (stepThread_flow hs) (stepThread_pc_ne_idle hs) ?_ (hi u)
        intro e; unfold stepThread at hs; simp [e] at hs
      · rw [(stepThread_delta hs).1 u e]; exact hi u
    | call t op ht hs => exact callOp_pagesPcs hm hs hi
    | ret t ht hs =>
      unfold retOp at hs; dsimp only at hs
      split at hs
      · simp at hs
      · simp only [Option.some.injEq] at hs; subst hs
        intro u; simp only [State.setTh]; split
        · rfl
        · exact hi u

/-! ### the counter -/
/-- pending adjustment of a call in progress: the counter was already (`pre`) / is not yet (`post`) updated -/
def adjM (c : Cfg) (th : Th) : Int :=
  match c.count, th.dir with
  | .pre, .pop => th.want
  | .post, .push => th.want
  | _, _ => 0

/-- pages above the cache layer that thread `t` has in flight, plus the pending adjustment -/
def adj (c : Cfg) (th : Th) : Int :=
  th.out.length + (if th.pc.inM = true then adjM c th else th.pages.length)

/-- the part of the invariant that a step of the thread owning `th` can change -/
def Q (c : Cfg) (S : State) (th : Th) : Int :=
  S.counter - S.held.length - S.bufs.flatten.length - adj c th

theorem length_flatten_set (l : List (List Tok)) (k : Nat) (x y : List Tok) (h : l[k]? = some x) :
    (l.set k y).flatten.length + x.length = l.flatten.length + y.length := by
  induction l generalizing k with
  | nil => simp at h
  | cons z zs ih =>
    cases k with
    | zero =>
      simp only [List.getElem?_cons_zero, Option.some.injEq] at h
      subst h
      simp only [List.set_cons_zero, List.flatten_cons, List.length_append]; omega
    | succ k =>
      simp only [List.getElem?_cons_succ] at h
      have := ih k h
      simp only [List.set_cons_succ, List.flatten_cons, List.length_append]; omega

/-- `finish` keeps `Q` when the call delivered what the counter was told -/
theorem finish_Q {c : Cfg} {S R : State} {t : Tid} {th : Th} (h : finish c S t th = some R) (hcnt : c.count ≠ CountMode.off)
    (hm : th.pc.inM = true) (hf : FinOK th) : Q c R (R.th t) = Q c S th := by
  obtain ⟨-, hp, hq⟩ := hf
  unfold finish at h
  split at h
  · rename_i hd
    have hlen := hp hd
    dsimp only at h
    split at h
    · split at h
      · rename_i p ps hpg hb
        simp only [Option.some.injEq] at h; subst h
        have hl := length_flatten_set S.bufs t [] ps hb
        rw [hpg] at hlen
        simp only [List.length_cons, List.length_nil] at hl hlen
        cases hc : c.count <;> simp [hc] at hcnt <;>
          simp [Q, adj, adjM, State.setTh, hm, hd, hc, -List.length_flatten] <;> omega
      · simp at h
    · simp only [Option.some.injEq] at h; subst h
      cases hc : c.count <;> simp [hc] at hcnt <;>
        simp [Q, adj, adjM, State.setTh, hm, hd, hc, -List.length_flatten] <;> omega
  · rename_i hd
    have hpg := hq hd
    dsimp only at h
    split at h <;> simp only [Option.some.injEq] at h <;> subst h <;>
      cases hc : c.count <;> simp [hc] at hcnt <;>
        simp [Q, adj, adjM, State.setTh, hm, hd, hc, hpg, -List.length_flatten] <;> omega


theorem adj_congr {c : Cfg} {th th' : Th} (h1 : th'.out = th.out) (h2 : th'.pc.inM = true) (h3 : th.pc.inM = true)
    (h4 : th'.dir = th.dir) (h5 : th'.want = th.want) : adj c th' = adj c th := by
  simp [adj, adjM, h1, h2, h3, h4, h5]

theorem settle_Q {c : Cfg} {S R : State} {t : Tid} {th : Th} (h : settle c S t th = some R) (hcnt : c.count ≠ CountMode.off)
    (hm : th.pc.inM = true) (hc : th.carry = []) (hpop : th.dir = .pop → th.pages.length ≤ th.want) :
    Q c R (R.th t) = Q c S th := by
  unfold settle at h
  split at h
  · simp only [Option.some.injEq] at h; subst h
    simp only [Q, State.setTh, if_true]
    rw [adj_congr (th := th) (th' := { th with pc := .rem }) rfl rfl hm rfl rfl]
  · rename_i hrem
    apply finish_Q h hcnt hm
    unfold remaining at hrem
    refine ⟨hc, fun hd => ?_, fun hd => ?_⟩
    · rw [hd] at hrem; simp only [decide_eq_true_eq] at hrem
      have := hpop hd; omega
    · rw [hd] at hrem; simpa using hrem

theorem segDone_Q {c : Cfg} {S R : State} {t : Tid} {th : Th} (h : segDone c S t th = some R) (hcnt : c.count ≠ CountMode.off)
    (hm : th.pc.inM = true) (hc : th.carry = []) (hpop : th.dir = .pop → th.pages.length ≤ th.want) :
    Q c R (R.th t) = Q c S th := by
  unfold segDone at h
  split at h
  · simp only [Option.some.injEq] at h; subst h
    simp only [Q, State.setTh, if_true]
    rw [adj_congr (th := th) (by simp) (by simp) hm (by simp) (by unfold waitOrGo; split <;> rfl)]
  · exact settle_Q h hcnt hm hc hpop

theorem enterSt_Q {c : Cfg} {S R : State} {t : Tid} {th : Th} (h : enterSt c S t th = some R) (hcnt : c.count ≠ CountMode.off)
    (hm : th.pc.inM = true) (hc : th.carry = []) (hpop : th.dir = .pop → th.pages.length ≤ th.want) :
    Q c R (R.th t) = Q c S th := by
  unfold enterSt at h
  split at h
  · simp only [Option.some.injEq] at h; subst h
    simp only [Q, State.setTh, if_true]
    rw [adj_congr (th := th) (th' := { th with pc := .fSt }) rfl rfl hm rfl rfl]
  · exact segDone_Q h hcnt hm hc hpop


@[simp] theorem Q_setTh (c : Cfg) (S : State) (t : Tid) (x th : Th) : Q c (S.setTh t x) th = Q c S th := rfl
@[simp] theorem Q_setCtr (c : Cfg) (S : State) (d : Dir) (v : Nat) (th : Th) : Q c (S.setCtr d v) th = Q c S th := by
  cases d <;> rfl
@[simp] theorem th_setTh_self (S : State) (t : Tid) (x : Th) : (S.setTh t x).th t = x := by simp [State.setTh]

@[simp] theorem waitOrGo_want (th : Th) : (waitOrGo th).want = th.want := by unfold waitOrGo; split <;> rfl
@[simp] theorem enterCb_want (th : Th) : (enterCb th).want = th.want := by unfold enterCb; split <;> rfl
@[simp] theorem Q_upd_returned (c : Cfg) (S : State) (r : Nat) (th : Th) : Q c { S with returned := r } th = Q c S th := rfl
@[simp] theorem Q_upd_obtained (c : Cfg) (S : State) (r : Nat) (th : Th) : Q c { S with obtained := r } th = Q c S th := rfl
@[simp] theorem Q_upd_popIdx (c : Cfg) (S : State) (r : Nat) (th : Th) : Q c { S with popIdx := r } th = Q c S th := rfl

theorem Q_acquire {c : Cfg} {s s1 : State} {t : Tid} {i : Nat} {d : Dir} (h : acquire c s t i d = some s1) (th : Th) :
    Q c s1 th = Q c s th := by
  obtain ⟨sl, -, -, -, rfl⟩ := acquire_spec h; rfl

theorem Q_takeVal {c : Cfg} {s s1 : State} {t : Tid} {i : Nat} {d : Dir} {p : Tok} (h : takeVal c s t i d = some (s1, p))
    (th : Th) : Q c s1 th = Q c s th := by
  obtain ⟨sl, -, -, -, rfl⟩ := takeVal_spec h; rfl

theorem Q_publish {c : Cfg} {s s1 : State} {t : Tid} {i : Nat} {d : Dir} {put : Option Tok}
    (h : publish c s t i d put = some s1) (th : Th) : Q c s1 th = Q c s th := by
  obtain ⟨sl, -, -, -, rfl⟩ := publish_spec h; rfl

macro "qleaves" h:ident : tactic =>
  `(tactic| ((try dsimp only at $h:ident) <;> (repeat' split at $h:ident) <;> (try (simp at $h:ident; done)) <;>
      (simp only [Option.some.injEq, Prod.mk.injEq] at $h:ident) <;>
      (first | (obtain ⟨hres, -⟩ : _ ∧ _ := $h:ident; subst hres) | subst $h:ident) <;>
      (simp only [th_setTh_self, Q_setTh, Q_setCtr, Q_upd_returned, Q_upd_obtained, Q_upd_popIdx]) <;>
      (first | rw [Q_acquire (by assumption)] | rw [Q_takeVal (by assumption)] | rw [Q_publish (by assumption)] | skip) <;>
      (first | (simp_all [Q, adj, adjM, -List.length_flatten]; done)
             | (simp_all [Q, adj, adjM, -List.length_flatten]; omega)
             | skip)))

theorem adj_M_congr {c : Cfg} {th th' : Th} (h1 : th'.out = th.out) (h2 : th'.pc.inM = true) (h3 : th.pc.inM = true)
    (h4 : th'.dir = th.dir) (h5 : th'.want = th.want) (S : State) : Q c S th' = Q c S th := by
  simp only [Q, adj_congr h1 h2 h3 h4 h5]

theorem stepThread_Q {c : Cfg} {s s' : State} {t : Tid} {tok : Tok} {spur : Bool} {l : Option Act}
    (h : stepThread c s t tok spur = some (s', l)) (hcnt : c.count ≠ CountMode.off) (hL : LenOK c (s.th t))
    (hnp : (s.th t).pc.isPool = false) : Q c s' (s'.th t) = Q c s (s.th t) := by
  unfold stepThread at h; dsimp only at h
  split at h
  all_goals (rename_i hpc; try (rw [hpc] at hnp; simp [Pc.isPool] at hnp; done))
  · simp at h
  · simp at h
  · -- bLoop
    have hpg : (s.th t).pages = [] := hL.1 (Or.inl hpc)
    unfold stepBLoop at h
    split at h
    · simp only [Option.some.injEq, Prod.mk.injEq] at h; obtain ⟨hres, -⟩ := h; subst hres
      simp [Q, adj, hpc, State.setTh, -List.length_flatten]
    · split at h
      · rename_i p ps hb
        simp only [Option.some.injEq, Prod.mk.injEq] at h; obtain ⟨hres, -⟩ := h; subst hres
        have hl := length_flatten_set s.bufs t (p :: ps) ps hb
        simp only [List.length_cons] at hl
        simp [Q, adj, hpc, State.setTh, -List.length_flatten]; omega
      · simp only [Option.some.injEq, Prod.mk.injEq] at h; obtain ⟨hres, -⟩ := h; subst hres
        cases hc : c.count <;> simp [hc] at hcnt <;>
          simp [Q, adj, adjM, hpc, hpg, hc, startAlloc, State.setTh, -List.length_flatten] <;> omega
      · simp at h
  · unfold stepTkt at h; qleaves h
  · unfold stepRdVer at h; qleaves h
  · unfold stepRdOpp at h; qleaves h
  · unfold stepCIdx at h; qleaves h
  · unfold stepCVer at h; qleaves h
  · unfold stepCCas at h; qleaves h
  · unfold stepCAcq at h; qleaves h
  · unfold stepCCb at h; qleaves h
  · unfold stepCRel at h; qleaves h
  · unfold stepCSt at h; qleaves h
  · unfold stepFAcq at h; qleaves h
  · unfold stepFCb at h; qleaves h
  · -- fRel
    have hm : (s.th t).pc.inM = true := by rw [hpc]; rfl
    have hcar := hL.carry_nil (by simp [hpc]) (by simp [hpc])
    unfold stepFRel at h
    simp only [Option.map_eq_some_iff, Prod.mk.injEq] at h
    obtain ⟨R, hR, hres, -⟩ := h; subst hres
    rw [enterSt_Q hR hcnt (by exact hm) (by exact hcar) (fun hd => by
      have := (hL.2.2 hm hd).2.2.1 (Or.inl hpc); simp only at hd ⊢; omega)]
    apply adj_M_congr <;> first | rfl | exact hm
  · -- fSt
    have hm : (s.th t).pc.inM = true := by rw [hpc]; rfl
    have hcar := hL.carry_nil (by simp [hpc]) (by simp [hpc])
    unfold stepFSt at h; dsimp only at h
    split at h
    · simp at h
    · split at h
      · rename_i hd
        split at h
        · simp at h
        · rename_i s1 hpub
          simp only [Option.map_eq_some_iff, Prod.mk.injEq] at h
          obtain ⟨R, hR, hres, -⟩ := h; subst hres
          rw [enterSt_Q hR hcnt (by exact hm) (by exact hcar) (fun hd' => by
            have := (hL.2.2 hm hd').2.2.1 (Or.inr hpc); simp only at hd' ⊢; omega), Q_publish hpub]
          apply adj_M_congr <;> first | rfl | exact hm
      · rename_i hd
        split at h
        · simp at h
        · rename_i p ps hpg
          split at h
          · simp at h
          · rename_i s1 hpub
            simp only [Option.map_eq_some_iff, Prod.mk.injEq] at h
            obtain ⟨R, hR, hres, -⟩ := h; subst hres
            rw [enterSt_Q hR hcnt (by exact hm) (by exact hcar) (fun hd' => by simp only at hd'; rw [hd] at hd'; simp at hd'),
              Q_publish hpub]
            apply adj_M_congr <;> first | rfl | exact hm
  · -- rem
    have hm : (s.th t).pc.inM = true := by rw [hpc]; rfl
    have hcar := hL.carry_nil (by simp [hpc]) (by simp [hpc])
    unfold stepRem at h
    split at h
    · rename_i hd
      split at h
      · simp at h
      · simp only [Option.map_eq_some_iff, Prod.mk.injEq] at h
        obtain ⟨R, hR, hres, -⟩ := h; subst hres
        rw [settle_Q hR hcnt (by exact hm) (by exact hcar) (fun hd' => by
          have := (hL.2.2 hm hd).2.2.2.1 hpc
          simp only [List.length_append, List.length_cons, List.length_nil]; omega)]
        simp only [Q_upd_obtained]
        apply adj_M_congr <;> first | rfl | exact hm
    · rename_i hd
      split at h
      · simp at h
      · simp only [Option.map_eq_some_iff, Prod.mk.injEq] at h
        obtain ⟨R, hR, hres, -⟩ := h; subst hres
        rw [settle_Q hR hcnt (by exact hm) (by exact hcar) (fun hd' => by simp only at hd'; rw [hd] at hd'; simp at hd')]
        simp only [Q_upd_returned]
        apply adj_M_congr <;> first | rfl | exact hm
  · unfold stepDIdx at h; qleaves h
  · unfold stepDVer at h; qleaves h
  · unfold stepDClaim at h; qleaves h
  · unfold stepDAcq at h; qleaves h
  · unfold stepDCb at h; qleaves h
  · unfold stepDRel at h; qleaves h
  · unfold stepDSt at h; qleaves h
  · -- bdNext
    have hpg : (s.th t).pages = [] := hL.1 (Or.inr (Or.inl hpc))
    unfold stepBdNext at h
    split at h
    · simp only [Option.some.injEq, Prod.mk.injEq] at h; obtain ⟨hres, -⟩ := h; subst hres
      simp [Q, adj, hpc, State.setTh, -List.length_flatten]
    · split at h
      · simp at h
      · simp only [Option.some.injEq, Prod.mk.injEq] at h; obtain ⟨hres, -⟩ := h; subst hres
        simp [Q, adj, hpc, State.setTh, -List.length_flatten]
      · rename_i u us htodo _ p ps hb
        simp only [Option.some.injEq, Prod.mk.injEq] at h; obtain ⟨hres, -⟩ := h; subst hres
        have hl := length_flatten_set s.bufs u (p :: ps) [] hb
        simp only [List.length_cons, List.length_nil] at hl
        cases hc : c.count <;> simp [hc] at hcnt <;>
          simp [Q, adj, adjM, hpc, hpg, hc, startDealloc, State.setTh, -List.length_flatten] <;> omega


/-! ### the global invariant -/
def adjSum (c : Cfg) (s : State) : Int := ((List.range c.nthreads).map (fun t => adj c (s.th t))).sum

theorem sum_map_split (f : Nat → Int) (l : List Nat) (t : Nat) (hn : l.Nodup) (ht : t ∈ l) :
    (l.map f).sum = f t + ((dropT l t).map f).sum := by
  unfold dropT
  induction l with
  | nil => simp at ht
  | cons z zs ih =>
    have hn' := List.nodup_cons.mp hn
    by_cases hz : z = t
    · subst hz
      have hf : zs.filter (fun u => u != z) = zs := by
        apply List.filter_eq_self.mpr
        intro x hx
        have : x ≠ z := fun e => hn'.1 (e ▸ hx)
        simpa using this
      have hzz : (z != z) = false := by simp
      rw [List.filter_cons, hzz]
      simp only [Bool.false_eq_true, if_false, hf, List.map_cons, List.sum_cons]
    · have ht' : t ∈ zs := by
        rcases List.mem_cons.mp ht with h | h
        · exact absurd h.symm hz
        · exact h
      have h1 := ih hn'.2 ht'
      have hzt : (z != t) = true := by simpa using hz
      rw [List.filter_cons, hzt]
      simp only [if_true, List.map_cons, List.sum_cons, h1]
      omega

theorem map_congr_dropT (f g : Nat → Int) (l : List Nat) (t : Nat) (h : ∀ u, u ≠ t → g u = f u) :
    (dropT l t).map g = (dropT l t).map f := by
  unfold dropT
  apply List.map_congr_left
  intro u hu
  have : u ≠ t := by
    have := (List.mem_filter.mp hu).2
    simpa using this
  exact h u this

def CntInv (c : Cfg) (s : State) : Prop :=
  s.counter = (s.held.length : Int) + s.bufs.flatten.length + adjSum c s

def restAdj (c : Cfg) (s : State) (t : Tid) : Int := ((dropT (List.range c.nthreads) t).map (fun u => adj c (s.th u))).sum

theorem adjSum_split (c : Cfg) (s : State) (t : Tid) (ht : t < c.nthreads) : adjSum c s = adj c (s.th t) + restAdj c s t :=
  sum_map_split (fun u => adj c (s.th u)) _ t List.nodup_range (List.mem_range.mpr ht)

theorem restAdj_frame {c : Cfg} {s s' : State} {t : Tid} (hf : Frame s s' t) : restAdj c s' t = restAdj c s t := by
  unfold restAdj
  rw [map_congr_dropT (fun u => adj c (s.th u)) (fun u => adj c (s'.th u)) _ t (fun u hu => by simp [hf u hu])]

/-- a step of thread `t` that keeps `Q` keeps the invariant -/
theorem cntInv_of_Q {c : Cfg} {s s' : State} {t : Tid} (ht : t < c.nthreads) (hf : Frame s s' t)
    (hQ : Q c s' (s'.th t) = Q c s (s.th t)) (hi : CntInv c s) : CntInv c s' := by
  unfold CntInv at *
  rw [adjSum_split c s t ht] at hi
  rw [adjSum_split c s' t ht, restAdj_frame hf]
  unfold Q at hQ
  omega

theorem callOp_Q {c : Cfg} {s s' : State} {t : Tid} {op : Op} (h : callOp c s t op = some s')
    (hm : c.mode = Mode.pages) (hcnt : c.count ≠ CountMode.off) (hie : IdleEmpty s) :
    Q c s' (s'.th t) = Q c s (s.th t) := by
  unfold callOp at h; dsimp only at h
  split at h
  · simp at h
  · rename_i hidle
    have hidle' : (s.th t).pc = .idle := by simpa using hidle
    have hempty := hie t hidle'
    simp only [Th.toks, List.append_eq_nil_iff] at hempty
    obtain ⟨⟨hpg, hout⟩, -⟩ := hempty
    cases op with
    | alloc n =>
      dsimp only at h
      (repeat' split at h) <;> (try (simp at h; done)) <;> simp only [Option.some.injEq] at h <;> subst h
      · simp [Q, adj, hidle', hpg, hout, State.setTh, -List.length_flatten]
      · cases hc : c.count <;> simp [hc] at hcnt <;>
          simp [Q, adj, adjM, hidle', hpg, hout, hc, startAlloc, State.setTh, -List.length_flatten] <;> omega
    | dealloc ps =>
      dsimp only at h
      split at h
      · simp at h
      · split at h
        · simp at h
        · rename_i hd htm
          simp only [Option.some.injEq] at h; subst h
          have hlen : s.held.length = ps.length + hd.length := by
            have : ∀ (held ps h' : List Tok), takeMany held ps = some h' → held.length = ps.length + h'.length := by
              intro held ps
              induction ps generalizing held with
              | nil => intro h' h; simp [takeMany] at h; subst h; simp
              | cons p ps ih =>
                intro h' h
                simp only [takeMany] at h
                split at h
                · rename_i hp
                  have := ih _ _ h
                  rw [List.length_erase_of_mem hp] at this
                  have : 0 < held.length := List.length_pos_of_mem hp
                  simp only [List.length_cons]; omega
                · simp at h
            exact this _ _ _ htm
          cases hc : c.count <;> simp [hc] at hcnt <;>
            simp [Q, adj, adjM, hidle', hpg, hout, hc, startDealloc, State.setTh, -List.length_flatten] <;> omega
    | dtor =>
      dsimp only at h
      (repeat' split at h) <;> (try (simp at h; done)) <;> simp only [Option.some.injEq] at h <;> subst h
      simp [Q, adj, hidle', hpg, hout, State.setTh, -List.length_flatten]
    | bdtor o =>
      dsimp only at h
      (repeat' split at h) <;> (try (simp at h; done)) <;> simp only [Option.some.injEq] at h <;> subst h
      simp [Q, adj, hidle', hpg, hout, State.setTh, -List.length_flatten]
    | inject o => simp [hm] at h
    | pop => simp [hm] at h
    | tryPop => simp [hm] at h
    | push o => simp [hm] at h

theorem retOp_Q {c : Cfg} {s s' : State} {t : Tid} (h : retOp c s t = some s') (hL : LenOK c (s.th t)) :
    Q c s' (s'.th t) = Q c s (s.th t) := by
  unfold retOp at h; dsimp only at h
  split at h
  · simp at h
  · rename_i hrw
    have hrw' : (s.th t).pc = .retWait := by simpa using hrw
    have hcar := hL.carry_nil (by simp [hrw']) (by simp [hrw'])
    simp only [Option.some.injEq] at h; subst h
    simp [Q, adj, hrw', hcar, Th.result, State.setTh, -List.length_flatten]; omega

/-- the counter invariant holds in every reachable state of a page-allocator stack with a counting layer -/
theorem reach_cntInv {c : Cfg} {s : State} (hm : c.mode = Mode.pages) (hcnt : c.count ≠ CountMode.off) (hcap : 0 < c.cap)
    (h : Reach c s) : CntInv c s := by
  have : (IdleEmpty s ∧ PagesPcs s ∧ (∀ t, LenOK c (s.th t))) ∧ CntInv c s := by
    refine Reachable.invariant (fun s => (IdleEmpty s ∧ PagesPcs s ∧ (∀ t, LenOK c (s.th t))) ∧ CntInv c s) ?_ ?_ s h
    · intro s hs
      have hr : Reach c s := Reachable.base hs
      refine ⟨⟨reach_idleEmpty hr, reach_pagesPcs hm hr, reach_len hcap hr⟩, ?_⟩
      obtain ⟨r0, rfl⟩ := hs
      unfold CntInv adjSum
      have : ∀ l : List Nat, (l.map (fun t => adj c ((State.initAt c r0).th t))).sum = 0 := by
        intro l; induction l with
        | nil => rfl
        | cons x xs ih => simpa [adj, State.initAt] using ih
      rw [this]
      have h2 : (State.initAt c r0).bufs.flatten.length = 0 := by
        simp only [State.initAt]
        induction c.nthreads with
        | zero => rfl
        | succ n ih => simp only [List.replicate_succ, List.flatten_cons, List.length_append, List.length_nil, ih]
      rw [h2]; simp [State.initAt]
    · intro s s' ⟨⟨hie, hpp, hlen⟩, hi⟩ hst
      have hr' : IdleEmpty s' := step_idleEmpty hst hie
      refine ⟨⟨hr', ?_, ?_⟩, ?_⟩
      · cases hst with
        | thread t tok spur l ht hs =>
          intro u
          by_cases e : u = t
          · subst e
            refine flow_not_pool (stepThread_flow hs) (stepThread_pc_ne_idle hs) ?_ (hpp u)
            intro e; unfold stepThread at hs; simp [e] at hs
          · rw [(stepThread_delta hs).1 u e]; exact hpp u
        | call t op ht hs => exact callOp_pagesPcs hm hs hpp
        | ret t ht hs =>
          unfold retOp at hs; dsimp only at hs
          split at hs
          · simp at hs
          · simp only [Option.some.injEq] at hs; subst hs
            intro u; simp only [State.setTh]; split
            · rfl
            · exact hpp u
      · intro u
        cases hst with
        | thread t tok spur l ht hs =>
          by_cases e : u = t
          · subst e; exact stepThread_len hs hcap (hlen u)
          · rw [(stepThread_delta hs).1 u e]; exact hlen u
        | call t op ht hs =>
          by_cases e : u = t
          · subst e; exact callOp_len hs (hlen u)
          · rw [(callOp_delta hs).1 u e]; exact hlen u
        | ret t ht hs =>
          by_cases e : u = t
          · subst e; exact retOp_len hs
          · rw [(retOp_delta hs).1 u e]; exact hlen u
      · cases hst with
        | thread t tok spur l ht hs =>
          exact cntInv_of_Q ht (stepThread_delta hs).1 (stepThread_Q hs hcnt (hlen t) (hpp t)) hi
        | call t op ht hs => exact cntInv_of_Q ht (callOp_delta hs).1 (callOp_Q hs hm hcnt hie) hi
        | ret t ht hs => exact cntInv_of_Q ht (retOp_delta hs).1 (retOp_Q hs (hlen t)) hi
  exact this.2

/-- at quiescence the corrections vanish -/
theorem adjSum_quiescent {c : Cfg} {s : State} (hie : IdleEmpty s) (hq : Quiescent c s) : adjSum c s = 0 := by
  unfold adjSum
  have : ∀ l : List Nat, (∀ t ∈ l, t < c.nthreads) → (l.map (fun t => adj c (s.th t))).sum = 0 := by
    intro l; induction l with
    | nil => intro _; rfl
    | cons x xs ih =>
      intro hl
      have hx := hq x (hl x (List.mem_cons_self ..))
      have he := hie x hx
      simp only [Th.toks, List.append_eq_nil_iff] at he
      simp only [List.map_cons, List.sum_cons, ih (fun t ht => hl t (List.mem_cons_of_mem _ ht))]
      simp [adj, hx, he.1.1, he.1.2]
  exact this _ (fun t ht => List.mem_range.mp ht)

end Babylon.Pages
