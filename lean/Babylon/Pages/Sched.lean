/-
  C17 — explicit schedules: run a list of moves through the executable model (used by the non-vacuity
  examples and the witnesses in Properties/C17.lean).
-/
import Babylon.Pages.Inv

namespace Babylon.Pages
open Babylon.Core

inductive Move
  | act (t : Tid) (tok : Tok := 0) (spur : Bool := false)   -- next internal step of thread t
  | call (t : Tid) (op : Op)
  | ret (t : Tid)
  deriving Repr

def applyMove (c : Cfg) (s : State) : Move → Option State
  | .act t tok spur => if t < c.nthreads then (stepThread c s t tok spur).map (·.1) else none
  | .call t op => if t < c.nthreads then callOp c s t op else none
  | .ret t => if t < c.nthreads then retOp c s t else none

def run (c : Cfg) : State → List Move → Option State
  | s, [] => some s
  | s, m :: ms => match applyMove c s m with
    | none => none
    | some s' => run c s' ms

theorem applyMove_step {c : Cfg} {s s' : State} {m : Move} (h : applyMove c s m = some s') : Step c s s' := by
  cases m with
  | act t tok spur =>
    simp only [applyMove] at h
    split at h
    · rename_i ht
      cases hs : stepThread c s t tok spur with
      | none => simp [hs] at h
      | some r =>
        obtain ⟨s1, l⟩ := r
        simp only [hs, Option.map_some, Option.some.injEq] at h
        subst h
        exact .thread t tok spur l ht hs
    · simp at h
  | call t op =>
    simp only [applyMove] at h
    split at h
    · exact .call t op (by assumption) h
    · simp at h
  | ret t =>
    simp only [applyMove] at h
    split at h
    · exact .ret t (by assumption) h
    · simp at h

theorem run_reach {c : Cfg} : ∀ (ms : List Move) (s s' : State), Reach c s → run c s ms = some s' → Reach c s'
  | [], s, s', hr, h => by simp only [run, Option.some.injEq] at h; subst h; exact hr
  | m :: ms, s, s', hr, h => by
    simp only [run] at h
    split at h
    · simp at h
    · rename_i s1 hm
      exact run_reach ms s1 s' (Reachable.tail hr (applyMove_step hm)) h

/-- a thread runs alone until its call is over: `n` internal steps -/
def runThread (c : Cfg) (t : Tid) : Nat → State → Option State
  | 0, s => some s
  | n + 1, s => match stepThread c s t 0 false with
    | none => none
    | some (s', _) => runThread c t n s'

end Babylon.Pages
