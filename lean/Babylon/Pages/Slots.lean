/-
  C17 — the slot-local invariant: what the ghost owner records and the version parity say about a
  slot's content.  Independent of thread program counters: every step touches the slots only through
  `acquire`, `takeVal`, `publish`.
-/
import Babylon.Pages.Flow

namespace Babylon.Pages
open Babylon.Core

theorem expVer_pop (cap i : Nat) : expVer cap i .pop = 2 * (i / cap) + 1 := rfl
theorem expVer_push (cap i : Nat) : expVer cap i .push = 2 * (i / cap) := rfl

/-- slot `k`:  a token is only in a pop-ready slot; an unowned pop-ready slot holds a token; an owner
record names a ticket of this slot whose expected version is the current version; a pusher's slot is empty -/
def SlotOK (c : Cfg) (k : Nat) (sl : Slot) : Prop :=
  (sl.val.isSome → sl.ver % 2 = 1) ∧
  (sl.owner = none → sl.ver % 2 = 1 → sl.val.isSome) ∧
  (∀ o, sl.owner = some o → o.ticket % c.cap = k ∧ sl.ver = expVer c.cap o.ticket o.dir ∧ (o.dir = .push → sl.val = none))

def SlotsOKL (c : Cfg) (l : List Slot) : Prop :=
  l.length = c.cap ∧ ∀ k sl, l[k]? = some sl → SlotOK c k sl

def SlotsOK (c : Cfg) (s : State) : Prop := SlotsOKL c s.slots

theorem slotsOK_setSlot {c : Cfg} {s : State} {k : Nat} {sl' : Slot} (hs : SlotsOK c s) (hk : k < s.slots.length)
    (h' : SlotOK c k sl') : SlotsOK c (s.setSlot k sl') := by
  refine ⟨by simp [State.setSlot, hs.1], fun j sl hj => ?_⟩
  simp only [State.setSlot, List.getElem?_set] at hj
  split at hj
  · rename_i e
    subst e
    simp only [hk, if_true, Option.some.injEq] at hj
    subst hj; exact h'
  · exact hs.2 j sl hj

theorem lt_of_getElem? {α : Type} {l : List α} {k : Nat} {x : α} (h : l[k]? = some x) : k < l.length := by
  rcases Nat.lt_or_ge k l.length with h1 | h1
  · exact h1
  · rw [List.getElem?_eq_none h1] at h; simp at h

theorem acquire_slotsOK {c : Cfg} {s s1 : State} {t : Tid} {i : Nat} {d : Dir} (h : acquire c s t i d = some s1)
    (hs : SlotsOK c s) : SlotsOK c s1 := by
  obtain ⟨sl, hsl, hv, ho, rfl⟩ := acquire_spec h
  have hk := hs.2 _ _ hsl
  refine slotsOK_setSlot hs (lt_of_getElem? hsl) ⟨hk.1, by simp, ?_⟩
  intro o ho'
  simp only [Option.some.injEq] at ho'
  subst ho'
  refine ⟨rfl, hv, fun hd => ?_⟩
  simp only at hd
  subst hd
  cases hval : sl.val with
  | none => rfl
  | some p =>
    have := hk.1 (by simp [hval])
    rw [hv, expVer_push] at this
    omega

theorem takeVal_slotsOK {c : Cfg} {s s1 : State} {t : Tid} {i : Nat} {d : Dir} {p : Tok}
    (h : takeVal c s t i d = some (s1, p)) (hs : SlotsOK c s) : SlotsOK c s1 := by
  obtain ⟨sl, hsl, hv, ho, rfl⟩ := takeVal_spec h
  have hk := hs.2 _ _ hsl
  refine slotsOK_setSlot hs (lt_of_getElem? hsl) ⟨by simp, by simp [ho], ?_⟩
  intro o ho'
  have := hk.2.2 o ho'
  exact ⟨this.1, this.2.1, fun _ => rfl⟩

theorem publish_slotsOK {c : Cfg} {s s1 : State} {t : Tid} {i : Nat} {d : Dir} {put : Option Tok}
    (h : publish c s t i d put = some s1) (hs : SlotsOK c s) (hput : d = .push ↔ put.isSome) : SlotsOK c s1 := by
  obtain ⟨sl, hsl, ho, hv, rfl⟩ := publish_spec h
  have hk := hs.2 _ _ hsl
  have hver := (hk.2.2 _ ho).2.1
  simp only at hver
  refine slotsOK_setSlot hs (lt_of_getElem? hsl) ⟨?_, ?_, by simp⟩
  · intro hsome
    simp only at hsome
    have hd : d = .push := hput.mpr hsome
    subst hd
    simp only; rw [hver, expVer_push]; omega
  · intro _ hodd
    simp only at hodd ⊢
    cases d with
    | pop => rw [hver, expVer_pop] at hodd; omega
    | push => exact hput.mp rfl


/-! ### every step preserves the slot invariant -/
theorem finish_slots {c : Cfg} {S R : State} {t : Tid} {th : Th} (h : finish c S t th = some R) : R.slots = S.slots := by
  unfold finish at h
  (repeat' split at h) <;> (try (simp at h; done)) <;> simp only [Option.some.injEq] at h <;> subst h <;> rfl

theorem settle_slots {c : Cfg} {S R : State} {t : Tid} {th : Th} (h : settle c S t th = some R) : R.slots = S.slots := by
  unfold settle at h
  split at h
  · simp only [Option.some.injEq] at h; subst h; rfl
  · exact finish_slots h

theorem segDone_slots {c : Cfg} {S R : State} {t : Tid} {th : Th} (h : segDone c S t th = some R) : R.slots = S.slots := by
  unfold segDone at h
  split at h
  · simp only [Option.some.injEq] at h; subst h; rfl
  · exact settle_slots h

theorem enterSt_slots {c : Cfg} {S R : State} {t : Tid} {th : Th} (h : enterSt c S t th = some R) : R.slots = S.slots := by
  unfold enterSt at h
  split at h
  · simp only [Option.some.injEq] at h; subst h; rfl
  · exact segDone_slots h

theorem slotsOK_of_slots_eq {c : Cfg} {S R : State} (h : R.slots = S.slots) (hs : SlotsOK c S) : SlotsOK c R := by
  unfold SlotsOK at *; rw [h]; exact hs

theorem setCtr_slots (s : State) (d : Dir) (v : Nat) : (s.setCtr d v).slots = s.slots := by cases d <;> rfl

/-- reduce `SlotsOK c (… .setTh …)` to the slot list it depends on -/
macro "slotnorm" : tactic => `(tactic| (simp only [SlotsOK, State.setTh, setCtr_slots]))


/-- close a leaf `SlotsOK c s'` where `s'` differs from `s` by at most one slot primitive -/
macro "slotclose" hs:ident : tactic =>
  `(tactic| (slotnorm; first
      | exact $hs
      | exact acquire_slotsOK (by assumption) $hs
      | exact takeVal_slotsOK (by assumption) $hs
      | exact publish_slotsOK (by assumption) $hs (by simp)))

macro "slotleaves" h:ident hs:ident : tactic =>
  `(tactic| ((try dsimp only at $h:ident) <;> (repeat' split at $h:ident) <;> (try (simp at $h:ident; done)) <;>
      (simp only [Option.some.injEq, Prod.mk.injEq] at $h:ident) <;>
      (first | (obtain ⟨hres, -⟩ : _ ∧ _ := $h:ident; subst hres) | subst $h:ident) <;>
      (slotclose $hs)))

macro "slottails" h:ident hs:ident lem:ident : tactic =>
  `(tactic| ((try dsimp only at $h:ident) <;> (repeat' split at $h:ident) <;> (try (simp at $h:ident; done)) <;>
      (simp only [Option.map_eq_some_iff, Prod.mk.injEq] at $h:ident) <;>
      (obtain ⟨R, hR, hres, -⟩ := $h:ident) <;> (subst hres) <;>
      (refine slotsOK_of_slots_eq ($lem hR) ?_) <;> (slotclose $hs)))

theorem stepThread_slotsOK {c : Cfg} {s s' : State} {t : Tid} {tok : Tok} {spur : Bool} {l : Option Act}
    (h : stepThread c s t tok spur = some (s', l)) (hs : SlotsOK c s) : SlotsOK c s' := by
  unfold stepThread at h; dsimp only at h
  split at h
  · simp at h
  · simp at h
  · unfold stepBLoop at h; slotleaves h hs
  · unfold stepTkt at h; slotleaves h hs
  · unfold stepRdVer at h; slotleaves h hs
  · unfold stepRdOpp at h; slotleaves h hs
  · unfold stepCIdx at h; slotleaves h hs
  · unfold stepCVer at h; slotleaves h hs
  · unfold stepCCas at h; slotleaves h hs
  · unfold stepCAcq at h; slotleaves h hs
  · unfold stepCCb at h; slotleaves h hs
  · unfold stepCRel at h; slotleaves h hs
  · unfold stepCSt at h; slotleaves h hs
  · unfold stepFAcq at h; slotleaves h hs
  · unfold stepFCb at h; slotleaves h hs
  · unfold stepFRel at h; slottails h hs enterSt_slots
  · unfold stepFSt at h; slottails h hs enterSt_slots
  · unfold stepRem at h; slottails h hs settle_slots
  · unfold stepDIdx at h; slotleaves h hs
  · unfold stepDVer at h; slotleaves h hs
  · unfold stepDClaim at h; slotleaves h hs
  · unfold stepDAcq at h; slotleaves h hs
  · unfold stepDCb at h; slotleaves h hs
  · unfold stepDRel at h; slotleaves h hs
  · unfold stepDSt at h; slotleaves h hs
  · unfold stepBdNext at h; slotleaves h hs
  · unfold stepPRecycle at h; slotleaves h hs
  · unfold stepGPop at h; slotleaves h hs
  · unfold stepGPush at h; slotleaves h hs
  · unfold stepPDestroy at h; slotleaves h hs
  · unfold stepSTkt at h; slotleaves h hs
  · unfold stepDlWait at h; slotleaves h hs
  · unfold stepDlCb at h; slotleaves h hs
  · unfold stepDlPub at h; slotleaves h hs
  · unfold stepSIdx at h; slotleaves h hs
  · unfold stepSVer at h; slotleaves h hs
  · unfold stepSIdx2 at h; slotleaves h hs
  · unfold stepSCas at h; slotleaves h hs
  · unfold stepSCb at h; slotleaves h hs
  · unfold stepSPub at h; slotleaves h hs


theorem callOp_slots {c : Cfg} {s s' : State} {t : Tid} {op : Op} (h : callOp c s t op = some s') : s'.slots = s.slots := by
  unfold callOp at h; dsimp only at h
  split at h
  · simp at h
  · cases op <;> dsimp only at h <;> (repeat' split at h) <;> (try (simp at h; done)) <;>
      simp only [Option.some.injEq] at h <;> subst h <;> rfl

theorem retOp_slots {c : Cfg} {s s' : State} {t : Tid} (h : retOp c s t = some s') : s'.slots = s.slots := by
  unfold retOp at h; dsimp only at h
  split at h
  · simp at h
  · simp only [Option.some.injEq] at h; subst h; rfl

theorem slotsOK_init (c : Cfg) (r0 : Nat) : SlotsOK c (State.initAt c r0) := by
  refine ⟨by simp [State.initAt], fun k sl hk => ?_⟩
  simp only [State.initAt] at hk
  have : sl = { ver := Gen.Pages.pushVersionFactor * r0 } := by
    have := List.getElem?_replicate (n := c.cap) (a := ({ ver := Gen.Pages.pushVersionFactor * r0 } : Slot)) (i := k)
    rw [this] at hk
    split at hk <;> simp_all
  subst this
  refine ⟨by simp, ?_, by simp⟩
  intro _ hodd
  simp only [Gen.Pages.pushVersionFactor] at hodd
  omega

/-- the slot invariant holds in every reachable state -/
theorem reach_slotsOK {c : Cfg} {s : State} (h : Reach c s) : SlotsOK c s := by
  refine Reachable.invariant (SlotsOK c) ?_ ?_ s h
  · intro s hs; obtain ⟨r0, rfl⟩ := hs; exact slotsOK_init c r0
  · intro s s' hs hst
    cases hst with
    | thread t tok spur l ht h => exact stepThread_slotsOK h hs
    | call t op ht h => exact slotsOK_of_slots_eq (callOp_slots h) hs
    | ret t ht h => exact slotsOK_of_slots_eq (retOp_slots h) hs

end Babylon.Pages
