/-
  C17 — object pool lemmas: strict mode never creates or destroys objects by itself, a blocked pop is
  enabled by the matching push, the recycler runs once per push.
-/
import Babylon.Pages.Slots

namespace Babylon.Pages
open Babylon.Core

/-! ### which steps change the upstream counters -/
theorem Tail.counters {t : Tid} {S R : State} {th : Th} (h : Tail t S th R) :
    R.obtained = S.obtained ∧ R.returned = S.returned := by
  obtain ⟨S', th', rfl, -, ho, hr, -⟩ := h
  exact ⟨ho, hr⟩

theorem acquire_counters {c : Cfg} {s s1 : State} {t : Tid} {i : Nat} {d : Dir} (h : acquire c s t i d = some s1) :
    s1.obtained = s.obtained ∧ s1.returned = s.returned ∧ s1.injected = s.injected ∧ s1.recLog = s.recLog ∧
      s1.pushLog = s.pushLog ∧ s1.bufs = s.bufs := by
  obtain ⟨sl, -, -, -, rfl⟩ := acquire_spec h; exact ⟨rfl, rfl, rfl, rfl, rfl, rfl⟩

theorem takeVal_counters {c : Cfg} {s s1 : State} {t : Tid} {i : Nat} {d : Dir} {p : Tok} (h : takeVal c s t i d = some (s1, p)) :
    s1.obtained = s.obtained ∧ s1.returned = s.returned ∧ s1.injected = s.injected ∧ s1.recLog = s.recLog ∧
      s1.pushLog = s.pushLog ∧ s1.bufs = s.bufs := by
  obtain ⟨sl, -, -, -, rfl⟩ := takeVal_spec h; exact ⟨rfl, rfl, rfl, rfl, rfl, rfl⟩

theorem publish_counters {c : Cfg} {s s1 : State} {t : Tid} {i : Nat} {d : Dir} {put : Option Tok}
    (h : publish c s t i d put = some s1) :
    s1.obtained = s.obtained ∧ s1.returned = s.returned ∧ s1.injected = s.injected ∧ s1.recLog = s.recLog ∧
      s1.pushLog = s.pushLog ∧ s1.bufs = s.bufs := by
  obtain ⟨sl, -, -, -, rfl⟩ := publish_spec h; exact ⟨rfl, rfl, rfl, rfl, rfl, rfl⟩

@[simp] theorem setCtr_injected (s : State) (d : Dir) (v : Nat) : (s.setCtr d v).injected = s.injected := by cases d <;> rfl
@[simp] theorem setCtr_recLog (s : State) (d : Dir) (v : Nat) : (s.setCtr d v).recLog = s.recLog := by cases d <;> rfl
@[simp] theorem setCtr_pushLog (s : State) (d : Dir) (v : Nat) : (s.setCtr d v).pushLog = s.pushLog := by cases d <;> rfl

/-- single-element pool steps and the recycler step leave the upstream counters alone -/
theorem stepThread_strict_counters {c : Cfg} {s s' : State} {t : Tid} {tok : Tok} {spur : Bool} {l : Option Act}
    (h : stepThread c s t tok spur = some (s', l)) (hp : (s.th t).pc = .pRecycle ∨ (s.th t).pc.inS = true) :
    s'.obtained = s.obtained ∧ s'.returned = s.returned ∧ s'.injected = s.injected ∧ s'.bufs = s.bufs := by
  unfold stepThread at h; dsimp only at h
  split at h
  all_goals (rename_i hpc; try (rw [hpc] at hp; simp at hp; done))
  · unfold stepPRecycle at h
    (repeat' split at h) <;> (try (simp at h; done)) <;> simp only [Option.some.injEq, Prod.mk.injEq] at h <;>
      obtain ⟨hres, -⟩ := h <;> subst hres <;> exact ⟨rfl, rfl, rfl, rfl⟩
  · unfold stepSTkt at h; dsimp only at h
    simp only [Option.some.injEq, Prod.mk.injEq] at h; obtain ⟨hres, -⟩ := h; subst hres; simp [State.setTh]
  · unfold stepDlWait at h
    split at h
    · simp at h
    · rename_i s1 ha
      simp only [Option.some.injEq, Prod.mk.injEq] at h; obtain ⟨hres, -⟩ := h; subst hres
      have := acquire_counters ha; exact ⟨this.1, this.2.1, this.2.2.1, this.2.2.2.2.2⟩
  · unfold stepDlCb at h
    split at h
    · simp at h
    · rename_i s1 p ha
      simp only [Option.some.injEq, Prod.mk.injEq] at h; obtain ⟨hres, -⟩ := h; subst hres
      have := takeVal_counters ha; exact ⟨this.1, this.2.1, this.2.2.1, this.2.2.2.2.2⟩
  · unfold stepDlPub at h
    (repeat' split at h) <;> (try (simp at h; done)) <;> simp only [Option.some.injEq, Prod.mk.injEq] at h <;>
      obtain ⟨hres, -⟩ := h <;> subst hres <;> (rename_i ha; have := publish_counters ha; exact ⟨this.1, this.2.1, this.2.2.1, this.2.2.2.2.2⟩)
  · unfold stepSIdx at h
    simp only [Option.some.injEq, Prod.mk.injEq] at h; obtain ⟨hres, -⟩ := h; subst hres; exact ⟨rfl, rfl, rfl, rfl⟩
  · unfold stepSVer at h
    split at h
    · simp at h
    · simp only [Option.some.injEq, Prod.mk.injEq] at h; obtain ⟨hres, -⟩ := h; subst hres; exact ⟨rfl, rfl, rfl, rfl⟩
  · unfold stepSIdx2 at h; dsimp only at h
    split at h <;> simp only [Option.some.injEq, Prod.mk.injEq] at h <;> obtain ⟨hres, -⟩ := h <;> subst hres <;> exact ⟨rfl, rfl, rfl, rfl⟩
  · unfold stepSCas at h; dsimp only at h
    split at h
    · split at h
      · simp at h
      · rename_i s1 ha
        simp only [Option.some.injEq, Prod.mk.injEq] at h; obtain ⟨hres, -⟩ := h; subst hres
        have := acquire_counters ha; exact ⟨this.1, this.2.1, this.2.2.1, this.2.2.2.2.2⟩
    · simp only [Option.some.injEq, Prod.mk.injEq] at h; obtain ⟨hres, -⟩ := h; subst hres; exact ⟨rfl, rfl, rfl, rfl⟩
  · unfold stepSCb at h
    split at h
    · simp at h
    · rename_i s1 p ha
      simp only [Option.some.injEq, Prod.mk.injEq] at h; obtain ⟨hres, -⟩ := h; subst hres
      have := takeVal_counters ha; exact ⟨this.1, this.2.1, this.2.2.1, this.2.2.2.2.2⟩
  · unfold stepSPub at h
    (repeat' split at h) <;> (try (simp at h; done)) <;> simp only [Option.some.injEq, Prod.mk.injEq] at h <;>
      obtain ⟨hres, -⟩ := h <;> subst hres <;> (rename_i ha; have := publish_counters ha; exact ⟨this.1, this.2.1, this.2.2.1, this.2.2.2.2.2⟩)


/-! ### strict mode -/
def strictPc (p : Pc) : Prop := p = .idle ∨ p = .retWait ∨ p = .pRecycle ∨ p.inS = true

/-- strict pool: threads are only ever inside single-element queue operations; the upstream counters move
only by `inject` -/
structure StrictInv (c : Cfg) (s : State) : Prop where
  pcs : ∀ t, strictPc (s.th t).pc
  obt : s.obtained = s.injected
  ret : s.returned = 0
  bufs : s.bufs.flatten = []

theorem callOp_strict {c : Cfg} {s s' : State} {t : Tid} {op : Op} (hm : c.mode = Mode.poolStrict)
    (h : callOp c s t op = some s') (hi : StrictInv c s) : StrictInv c s' := by
  unfold callOp at h; dsimp only at h
  split at h
  · simp at h
  · cases op with
    | alloc n => simp [hm] at h
    | dealloc ps => simp [hm] at h
    | dtor => simp [hm] at h
    | bdtor o => simp [hm] at h
    | inject o =>
      dsimp only at h
      split at h
      · simp at h
      · simp only [Option.some.injEq] at h; subst h
        exact ⟨hi.pcs, by simp [hi.obt], hi.ret, hi.bufs⟩
    | pop =>
      simp only [hm, Option.some.injEq] at h; subst h
      refine ⟨fun u => ?_, hi.obt, hi.ret, hi.bufs⟩
      simp only [State.setTh]; split
      · right; right; right; rfl
      · exact hi.pcs u
    | tryPop =>
      simp only [hm, Option.some.injEq] at h; subst h
      refine ⟨fun u => ?_, hi.obt, hi.ret, hi.bufs⟩
      simp only [State.setTh]; split
      · right; right; right; rfl
      · exact hi.pcs u
    | push o =>
      simp only [hm] at h
      split at h
      · simp only [Option.some.injEq] at h; subst h
        refine ⟨fun u => ?_, hi.obt, hi.ret, hi.bufs⟩
        simp only [State.setTh]; split
        · right; right; left; rfl
        · exact hi.pcs u
      · simp at h

theorem step_strict {c : Cfg} {s s' : State} (hm : c.mode = Mode.poolStrict) (h : Step c s s') (hi : StrictInv c s) :
    StrictInv c s' := by
  cases h with
  | thread t tok spur l ht hs =>
    have hf := stepThread_flow hs
    have hfr := (stepThread_delta hs).1
    have hp := hi.pcs t
    have hp' : (s.th t).pc = .pRecycle ∨ (s.th t).pc.inS = true := by
      rcases hp with h1 | h1 | h1 | h1
      · exact absurd h1 (stepThread_pc_ne_idle hs)
      · exfalso; unfold stepThread at hs; simp [h1] at hs
      · exact Or.inl h1
      · exact Or.inr h1
    have hcnt := stepThread_strict_counters hs hp'
    refine ⟨fun u => ?_, by rw [hcnt.1, hcnt.2.2.1, hi.obt], by rw [hcnt.2.1, hi.ret], by rw [hcnt.2.2.2, hi.bufs]⟩
    by_cases e : u = t
    · subst e
      rcases hp' with h1 | h1
      · rcases hf.2.2.2.2.2.2.1 h1 with ⟨ha, -⟩ | ⟨-, hb, -⟩
        · rw [hm] at ha; simp at ha
        · right; right; right; rw [hb]; rfl
      · rcases (hf.2.2.2.2.2.1 h1).2 with h2 | h2
        · exact Or.inr (Or.inr (Or.inr h2))
        · exact Or.inr (Or.inl h2)
    · rw [hfr u e]; exact hi.pcs u
  | call t op ht hs => exact callOp_strict hm hs hi
  | ret t ht hs =>
    unfold retOp at hs; dsimp only at hs
    split at hs
    · simp at hs
    · simp only [Option.some.injEq] at hs; subst hs
      refine ⟨fun u => ?_, hi.obt, hi.ret, hi.bufs⟩
      simp only [State.setTh]; split
      · exact Or.inl rfl
      · exact hi.pcs u

theorem reach_strict {c : Cfg} {s : State} (hm : c.mode = Mode.poolStrict) (h : Reach c s) : StrictInv c s := by
  refine Reachable.invariant (StrictInv c) ?_ ?_ s h
  · intro s hs; obtain ⟨r0, rfl⟩ := hs
    refine ⟨fun t => Or.inl rfl, rfl, rfl, ?_⟩
    simp only [State.initAt]
    induction c.nthreads with
    | zero => rfl
    | succ n ih => simp [List.replicate_succ, ih]
  · intro s s' hi hst; exact step_strict hm hst hi

/-! ### a blocked pop is enabled by the matching push -/
theorem dlWait_enabled {c : Cfg} {S : State} {t : Tid} {sl0 : Slot}
    (hpc : (S.th t).pc = .dlWait) (hsl : S.slots[(S.th t).idx % c.cap]? = some sl0)
    (hv : sl0.ver = expVer c.cap (S.th t).idx (S.th t).dir) (ho : sl0.owner = none) :
    stepThread c S t 0 false =
      some ((S.setSlot ((S.th t).idx % c.cap) { sl0 with owner := some ⟨t, (S.th t).idx, (S.th t).dir⟩ }).setTh t
        { S.th t with pc := if (S.th t).dir = .pop then .dlCb else .dlPub }, none) := by
  unfold stepThread; dsimp only
  rw [hpc]; dsimp only
  unfold stepDlWait acquire
  simp [hsl, hv, ho]

theorem dlCb_enabled {c : Cfg} {S : State} {t : Tid} {sl0 : Slot} {o : Tok}
    (hpc : (S.th t).pc = .dlCb) (hsl : S.slots[(S.th t).idx % c.cap]? = some sl0)
    (hv : sl0.val = some o) (ho : sl0.owner = some ⟨t, (S.th t).idx, .pop⟩) :
    stepThread c S t 0 false =
      some ((S.setSlot ((S.th t).idx % c.cap) { sl0 with val := none }).setTh t
        { S.th t with pc := .dlPub, pages := (S.th t).pages ++ [o] }, none) := by
  unfold stepThread; dsimp only
  rw [hpc]; dsimp only
  unfold stepDlCb takeVal
  simp [hsl, hv, ho]

/-- Thread `u` publishes the push of ticket `i` (`dlPub`: the `xchg` on the slot word, followed by the futex
wake): in the resulting state the pop of the same ticket, waiting in `dlWait`, can take its next step, and
after its two silent steps it holds exactly the object that `u` pushed.  (That the sleeping thread is really
woken is the futex contract, C02 `bq_sleep_sound`.) -/
theorem pop_enabled_by_push {c : Cfg} {s s' : State} {t u : Tid} {tok : Tok} {spur : Bool} {l : Option Act}
    (hs : SlotsOK c s) (hut : u ≠ t)
    (hu : (s.th u).pc = .dlPub) (hud : (s.th u).dir = .push)
    (ht : (s.th t).pc = .dlWait) (htd : (s.th t).dir = .pop) (hi : (s.th t).idx = (s.th u).idx)
    (h : stepThread c s u tok spur = some (s', l)) :
    ∃ o s1 s2, (s.th u).pages = [o] ∧
      stepThread c s' t 0 false = some (s1, none) ∧ (s1.th t).pc = .dlCb ∧
      stepThread c s1 t 0 false = some (s2, none) ∧ (s2.th t).pc = .dlPub ∧ (s2.th t).pages = (s.th t).pages ++ [o] := by
  unfold stepThread at h; dsimp only at h
  rw [hu] at h; dsimp only at h
  unfold stepDlPub at h
  split at h
  · simp at h
  · rw [hud] at h; dsimp only at h
    split at h
    · rename_i o hpg
      split at h
      · simp at h
      · rename_i S hpub
        simp only [Option.some.injEq, Prod.mk.injEq] at h
        obtain ⟨hres, -⟩ := h; subst hres
        obtain ⟨sl, hsl, hown, hval, rfl⟩ := publish_spec hpub
        have hk := hs.2 _ _ hsl
        have hver := (hk.2.2 _ hown).2.1
        simp only at hver
        have hlen := lt_of_getElem? hsl
        have hne : t ≠ u := Ne.symm hut
        -- the state after the publish, seen from thread `t`
        let S1 : State := (s.setSlot ((s.th u).idx % c.cap) { ver := sl.ver + 1, val := some o, owner := none }).setTh u
            { s.th u with pc := .retWait, pages := [], dir := .push }
        have hth : S1.th t = s.th t := by simp [S1, State.setTh, hne]
        have hsl1 : S1.slots[(S1.th t).idx % c.cap]? = some { ver := sl.ver + 1, val := some o, owner := none } := by
          rw [hth, hi]; simp [S1, State.setTh, State.setSlot, hlen]
        have e1 := dlWait_enabled (c := c) (S := S1) (t := t) (by rw [hth]; exact ht) hsl1
          (by rw [hth, htd, hi, expVer_pop]; simp only; rw [hver, expVer_push]) rfl
        rw [hth, htd] at e1
        simp only [if_true] at e1
        -- after acquiring
        let S2 : State := (S1.setSlot ((s.th t).idx % c.cap)
            { ver := sl.ver + 1, val := some o, owner := some ⟨t, (s.th t).idx, .pop⟩ }).setTh t { s.th t with pc := .dlCb }
        have hth2 : S2.th t = { s.th t with pc := .dlCb } := by simp [S2, State.setTh]
        have hsl2 : S2.slots[(S2.th t).idx % c.cap]? =
            some { ver := sl.ver + 1, val := some o, owner := some ⟨t, (s.th t).idx, .pop⟩ } := by
          rw [hth2]; simp [S2, S1, State.setTh, State.setSlot, hlen, hi]
        have e2 := dlCb_enabled (c := c) (S := S2) (t := t) (o := o) (by rw [hth2]) hsl2 rfl (by rw [hth2])
        refine ⟨o, S2, _, hpg, e1, by rw [hth2], e2, ?_, ?_⟩
        · simp [State.setTh]
        · simp [State.setTh, hth2]
    · simp at h

/-! ### the recycler runs once per push -/
def pendOf (th : Th) : List Tok := if th.pc = .pRecycle then th.pages else []

/-- objects handed to `push` whose recycler has not run yet -/
def pend (c : Cfg) (s : State) : List Tok := (List.range c.nthreads).flatMap (fun t => pendOf (s.th t))

theorem pend_count (c : Cfg) (s : State) (t : Tid) (o : Tok) (ht : t < c.nthreads) :
    (pend c s).count o = (pendOf (s.th t)).count o +
      ((dropT (List.range c.nthreads) t).flatMap (fun u => pendOf (s.th u))).count o :=
  count_flatMap_split (fun u => pendOf (s.th u)) (List.range c.nthreads) t o List.nodup_range (List.mem_range.mpr ht)

theorem pend_rest_frame {c : Cfg} {s s' : State} {t : Tid} (h : Frame s s' t) :
    (dropT (List.range c.nthreads) t).flatMap (fun u => pendOf (s'.th u)) =
      (dropT (List.range c.nthreads) t).flatMap (fun u => pendOf (s.th u)) :=
  flatMap_congr_filter _ _ _ t (fun u hu => by simp [h u hu])

def RecInv (c : Cfg) (s : State) : Prop := ∀ o, s.pushLog.count o = s.recLog.count o + (pend c s).count o

theorem flow_not_pRecycle {c : Cfg} {th th' : Th} (h : Flow c th th') (h1 : th.pc ≠ .idle) (h2 : th.pc ≠ .retWait) :
    th'.pc ≠ .pRecycle := by
  obtain ⟨-, hM, hB, hBd, hD, hS, hP, hG1, hG2, hPd⟩ := h
  intro e
  cases hp : th.pc <;> simp [hp] at h1 h2 hM hB hBd hD hS hP hG1 hG2 hPd
  all_goals (try (rcases hM with ⟨-, -, hm | hm⟩ <;> (rw [e] at hm; revert hm; cases th.dir <;> cases th.cont <;> simp [exitPc])))
  all_goals (try (simp [e] at hB))
  all_goals (try (simp [e] at hBd))
  all_goals (try (simp [e] at hD))
  all_goals (try (simp [e] at hS))
  all_goals (try (simp [e] at hP))
  all_goals (try (simp [e] at hG1))
  all_goals (try (simp [e] at hG2))
  all_goals (try (simp [e] at hPd))


theorem finish_logs {c : Cfg} {S R : State} {t : Tid} {th : Th} (h : finish c S t th = some R) :
    R.recLog = S.recLog ∧ R.pushLog = S.pushLog := by
  unfold finish at h
  (repeat' split at h) <;> (try (simp at h; done)) <;> simp only [Option.some.injEq] at h <;> subst h <;> exact ⟨rfl, rfl⟩

theorem settle_logs {c : Cfg} {S R : State} {t : Tid} {th : Th} (h : settle c S t th = some R) :
    R.recLog = S.recLog ∧ R.pushLog = S.pushLog := by
  unfold settle at h
  split at h
  · simp only [Option.some.injEq] at h; subst h; exact ⟨rfl, rfl⟩
  · exact finish_logs h

theorem segDone_logs {c : Cfg} {S R : State} {t : Tid} {th : Th} (h : segDone c S t th = some R) :
    R.recLog = S.recLog ∧ R.pushLog = S.pushLog := by
  unfold segDone at h
  split at h
  · simp only [Option.some.injEq] at h; subst h; exact ⟨rfl, rfl⟩
  · exact settle_logs h

theorem enterSt_logs {c : Cfg} {S R : State} {t : Tid} {th : Th} (h : enterSt c S t th = some R) :
    R.recLog = S.recLog ∧ R.pushLog = S.pushLog := by
  unfold enterSt at h
  split at h
  · simp only [Option.some.injEq] at h; subst h; exact ⟨rfl, rfl⟩
  · exact segDone_logs h

macro "logclose" : tactic =>
  `(tactic| (first
      | exact ⟨rfl, rfl⟩
      | (simp only [State.setTh, setCtr_recLog, setCtr_pushLog, and_self]; done)
      | ((try simp only [State.setTh, setCtr_recLog, setCtr_pushLog]); exact ⟨(acquire_counters (by assumption)).2.2.2.1, (acquire_counters (by assumption)).2.2.2.2.1⟩)
      | ((try simp only [State.setTh, setCtr_recLog, setCtr_pushLog]); exact ⟨(takeVal_counters (by assumption)).2.2.2.1, (takeVal_counters (by assumption)).2.2.2.2.1⟩)
      | ((try simp only [State.setTh, setCtr_recLog, setCtr_pushLog]); exact ⟨(publish_counters (by assumption)).2.2.2.1, (publish_counters (by assumption)).2.2.2.2.1⟩)))

macro "logleaves" h:ident : tactic =>
  `(tactic| ((try dsimp only at $h:ident) <;> (repeat' split at $h:ident) <;> (try (simp at $h:ident; done)) <;>
      (simp only [Option.some.injEq, Prod.mk.injEq] at $h:ident) <;>
      (first | (obtain ⟨hres, -⟩ : _ ∧ _ := $h:ident; subst hres) | subst $h:ident) <;> logclose))

macro "logtails" h:ident lem:ident : tactic =>
  `(tactic| ((try dsimp only at $h:ident) <;> (repeat' split at $h:ident) <;> (try (simp at $h:ident; done)) <;>
      (simp only [Option.map_eq_some_iff, Prod.mk.injEq] at $h:ident) <;>
      (obtain ⟨R, hR, hres, -⟩ := $h:ident) <;> (subst hres) <;>
      (rw [($lem hR).1, ($lem hR).2]) <;> logclose))

/-- only the recycler step writes the recycler log; no internal step writes the push log -/
theorem stepThread_logs {c : Cfg} {s s' : State} {t : Tid} {tok : Tok} {spur : Bool} {l : Option Act}
    (h : stepThread c s t tok spur = some (s', l)) (hp : (s.th t).pc ≠ .pRecycle) :
    s'.recLog = s.recLog ∧ s'.pushLog = s.pushLog := by
  unfold stepThread at h; dsimp only at h
  split at h
  · simp at h
  · simp at h
  · unfold stepBLoop at h; logleaves h
  · unfold stepTkt at h; logleaves h
  · unfold stepRdVer at h; logleaves h
  · unfold stepRdOpp at h; logleaves h
  · unfold stepCIdx at h; logleaves h
  · unfold stepCVer at h; logleaves h
  · unfold stepCCas at h; logleaves h
  · unfold stepCAcq at h; logleaves h
  · unfold stepCCb at h; logleaves h
  · unfold stepCRel at h; logleaves h
  · unfold stepCSt at h; logleaves h
  · unfold stepFAcq at h; logleaves h
  · unfold stepFCb at h; logleaves h
  · unfold stepFRel at h; logtails h enterSt_logs
  · unfold stepFSt at h; logtails h enterSt_logs
  · unfold stepRem at h; logtails h settle_logs
  · unfold stepDIdx at h; logleaves h
  · unfold stepDVer at h; logleaves h
  · unfold stepDClaim at h; logleaves h
  · unfold stepDAcq at h; logleaves h
  · unfold stepDCb at h; logleaves h
  · unfold stepDRel at h; logleaves h
  · unfold stepDSt at h; logleaves h
  · unfold stepBdNext at h; logleaves h
  · rename_i hpc; exact absurd hpc hp
  · unfold stepGPop at h; logleaves h
  · unfold stepGPush at h; logleaves h
  · unfold stepPDestroy at h; logleaves h
  · unfold stepSTkt at h; logleaves h
  · unfold stepDlWait at h; logleaves h
  · unfold stepDlCb at h; logleaves h
  · unfold stepDlPub at h; logleaves h
  · unfold stepSIdx at h; logleaves h
  · unfold stepSVer at h; logleaves h
  · unfold stepSIdx2 at h; logleaves h
  · unfold stepSCas at h; logleaves h
  · unfold stepSCb at h; logleaves h
  · unfold stepSPub at h; logleaves h


theorem recInv_step_aux {c : Cfg} {s s' : State} {t : Tid} (ht : t < c.nthreads) (hf : Frame s s' t) (hi : RecInv c s)
    (h : ∀ o, s'.pushLog.count o + (pendOf (s.th t)).count o = s.pushLog.count o + (s'.recLog.count o - s.recLog.count o) + (pendOf (s'.th t)).count o)
    (hmono : ∀ o, s.recLog.count o ≤ s'.recLog.count o) : RecInv c s' := by
  intro o
  have h1 := pend_count c s t o ht
  have h2 := pend_count c s' t o ht
  rw [pend_rest_frame hf] at h2
  have := hi o
  have := h o
  have := hmono o
  omega

theorem callOp_rec {c : Cfg} {s s' : State} {t : Tid} {op : Op} (h : callOp c s t op = some s') (hie : IdleEmpty s) :
    (s.th t).pc = .idle ∧
    ((∃ o, op = .push o ∧ s'.pushLog = o :: s.pushLog ∧ s'.recLog = s.recLog ∧ pendOf (s'.th t) = [o]) ∨
     (s'.pushLog = s.pushLog ∧ s'.recLog = s.recLog ∧ pendOf (s'.th t) = [])) := by
  unfold callOp at h; dsimp only at h
  split at h
  · simp at h
  · rename_i hidle
    have hidle' : (s.th t).pc = .idle := by simpa using hidle
    refine ⟨hidle', ?_⟩
    have hempty := hie t hidle'
    simp only [Th.toks, List.append_eq_nil_iff] at hempty
    cases op with
    | push o =>
      dsimp only at h
      (repeat' split at h) <;> (try (simp at h; done)) <;> simp only [Option.some.injEq] at h <;> subst h
      all_goals (left; exact ⟨o, rfl, rfl, rfl, by simp [pendOf, State.setTh, hempty.1.1]⟩)
    | inject o =>
      dsimp only at h
      split at h
      · simp at h
      · simp only [Option.some.injEq] at h; subst h
        right; exact ⟨rfl, rfl, by simp [pendOf, hidle']⟩
    | alloc n =>
      dsimp only at h
      (repeat' split at h) <;> (try (simp at h; done)) <;> simp only [Option.some.injEq] at h <;> subst h <;>
        (right; exact ⟨rfl, rfl, by simp [pendOf, State.setTh, startAlloc]⟩)
    | dealloc ps =>
      dsimp only at h
      (repeat' split at h) <;> (try (simp at h; done)) <;> simp only [Option.some.injEq] at h <;> subst h <;>
        (right; exact ⟨rfl, rfl, by simp [pendOf, State.setTh, startDealloc]⟩)
    | dtor =>
      dsimp only at h
      (repeat' split at h) <;> (try (simp at h; done)) <;> simp only [Option.some.injEq] at h <;> subst h <;>
        (right; exact ⟨rfl, rfl, by simp [pendOf, State.setTh]⟩)
    | bdtor o =>
      dsimp only at h
      (repeat' split at h) <;> (try (simp at h; done)) <;> simp only [Option.some.injEq] at h <;> subst h <;>
        (right; exact ⟨rfl, rfl, by simp [pendOf, State.setTh]⟩)
    | pop =>
      dsimp only at h
      (repeat' split at h) <;> (try (simp at h; done)) <;> simp only [Option.some.injEq] at h <;> subst h <;>
        (right; exact ⟨rfl, rfl, by simp [pendOf, State.setTh, startAlloc]⟩)
    | tryPop =>
      dsimp only at h
      (repeat' split at h) <;> (try (simp at h; done)) <;> simp only [Option.some.injEq] at h <;> subst h <;>
        (right; exact ⟨rfl, rfl, by simp [pendOf, State.setTh]⟩)

theorem stepPRecycle_rec {c : Cfg} {s s' : State} {t : Tid} {tok : Tok} {spur : Bool} {l : Option Act}
    (h : stepThread c s t tok spur = some (s', l)) (hp : (s.th t).pc = .pRecycle) :
    ∃ o, (s.th t).pages = [o] ∧ s'.recLog = o :: s.recLog ∧ s'.pushLog = s.pushLog := by
  unfold stepThread at h; dsimp only at h
  rw [hp] at h; dsimp only at h
  unfold stepPRecycle at h
  split at h
  · rename_i o hpg
    dsimp only at h
    split at h <;> simp only [Option.some.injEq, Prod.mk.injEq] at h <;> obtain ⟨hres, -⟩ := h <;> subst hres <;>
      exact ⟨o, hpg, rfl, rfl⟩
  · simp at h

theorem step_recInv {c : Cfg} {s s' : State} (h : Step c s s') (hie : IdleEmpty s) (hi : RecInv c s) : RecInv c s' := by
  cases h with
  | thread t tok spur l ht hs =>
    have hf := (stepThread_delta hs).1
    have hflow := stepThread_flow hs
    have hne : (s.th t).pc ≠ .idle := stepThread_pc_ne_idle hs
    have hnr : (s.th t).pc ≠ .retWait := by
      intro e; unfold stepThread at hs; simp [e] at hs
    have hp' : (s'.th t).pc ≠ .pRecycle := flow_not_pRecycle hflow hne hnr
    have hpend' : pendOf (s'.th t) = [] := by simp [pendOf, hp']
    by_cases hp : (s.th t).pc = .pRecycle
    · obtain ⟨o, hpg, hr, hpl⟩ := stepPRecycle_rec hs hp
      have hpend : pendOf (s.th t) = [o] := by simp [pendOf, hp, hpg]
      refine recInv_step_aux ht hf hi (fun a => ?_) (fun a => ?_)
      · rw [hpend, hpend', hr, hpl]; simp [List.count_cons]
      · rw [hr]; simp [List.count_cons]
    · obtain ⟨hr, hpl⟩ := stepThread_logs hs hp
      have hpend : pendOf (s.th t) = [] := by simp [pendOf, hp]
      refine recInv_step_aux ht hf hi (fun a => ?_) (fun a => ?_)
      · rw [hpend, hpend', hr, hpl]; simp
      · rw [hr]; exact Nat.le_refl _
  | call t op ht hs =>
    have hf := (callOp_delta hs).1
    obtain ⟨hidle, hc⟩ := callOp_rec hs hie
    have hpend : pendOf (s.th t) = [] := by simp [pendOf, hidle]
    rcases hc with ⟨o, -, hpl, hr, hp'⟩ | ⟨hpl, hr, hp'⟩
    · refine recInv_step_aux ht hf hi (fun a => ?_) (fun a => ?_)
      · rw [hpend, hp', hr, hpl]; simp [List.count_cons]
      · rw [hr]; exact Nat.le_refl _
    · refine recInv_step_aux ht hf hi (fun a => ?_) (fun a => ?_)
      · rw [hpend, hp', hr, hpl]; simp
      · rw [hr]; exact Nat.le_refl _
  | ret t ht hs =>
    have hf := (retOp_delta hs).1
    unfold retOp at hs; dsimp only at hs
    split at hs
    · simp at hs
    · rename_i hrw
      have hrw' : (s.th t).pc = .retWait := by simpa using hrw
      simp only [Option.some.injEq] at hs; subst hs
      refine recInv_step_aux ht hf hi (fun a => ?_) (fun a => Nat.le_refl _)
      simp [pendOf, State.setTh, hrw']

theorem reach_recInv {c : Cfg} {s : State} (h : Reach c s) : RecInv c s := by
  have : IdleEmpty s ∧ RecInv c s := by
    refine Reachable.invariant (fun s => IdleEmpty s ∧ RecInv c s) ?_ ?_ s h
    · intro s hs; obtain ⟨r0, rfl⟩ := hs
      refine ⟨fun t _ => by simp [State.initAt, Th.toks], fun o => ?_⟩
      have : pend c (State.initAt c r0) = [] := by
        unfold pend
        apply List.flatMap_eq_nil_iff.mpr
        intro t _; simp [pendOf, State.initAt]
      rw [this]; simp [State.initAt]
    · intro s s' hi hst; exact ⟨step_idleEmpty hst hi.1, step_recInv hst hi.1 hi.2⟩
  exact this.2

/-- at quiescence nothing is pending -/
theorem pend_quiescent {c : Cfg} {s : State} (hq : Quiescent c s) : pend c s = [] := by
  unfold pend
  apply List.flatMap_eq_nil_iff.mpr
  intro t ht
  simp [pendOf, hq t (List.mem_range.mp ht)]


theorem pend_le_thToks (c : Cfg) (s : State) (o : Tok) : (pend c s).count o ≤ (thToks c s).count o := by
  unfold pend thToks
  induction (List.range c.nthreads) with
  | nil => simp
  | cons t ts ih =>
    simp only [List.flatMap_cons, List.count_append]
    have : (pendOf (s.th t)).count o ≤ ((s.th t).toks).count o := by
      unfold pendOf Th.toks
      split <;> (simp [List.count_append]; try omega)
    omega

/-- the overflow step of `ObjectPool::push` in auto mode sends exactly the pushed object upstream -/
theorem pDestroy_step {c : Cfg} {s s' : State} {t : Tid} {tok : Tok} {spur : Bool} {l : Option Act}
    (ht : t < c.nthreads) (hpc : (s.th t).pc = .pDestroy) (h : stepThread c s t tok spur = some (s', l)) :
    ∃ o, (s.th t).pages = [o] ∧ l = some (.ev ["up_free", toString o]) ∧ s'.returned = s.returned + 1 ∧
      (s'.th t).pc = .retWait ∧ (toks c s).Perm (o :: toks c s') := by
  have hfr := (stepThread_delta h).1
  unfold stepThread at h; dsimp only at h
  rw [hpc] at h; dsimp only at h
  unfold stepPDestroy at h
  split at h
  · rename_i o hpg
    simp only [Option.some.injEq, Prod.mk.injEq] at h
    obtain ⟨hres, hl⟩ := h
    subst hres
    refine ⟨o, hpg, hl.symm, rfl, by simp [State.setTh], List.perm_iff_count.mpr fun a => ?_⟩
    rw [toks_count c s t a ht, List.count_cons, toks_count c _ t a ht, restToks_frame hfr]
    simp only [coreCnt, State.setTh, cacheToks, hpg, if_true, List.count_cons, List.count_nil]
    by_cases e : o = a
    · subst e; simp; omega
    · simp [e]
  · simp at h

/-! ### no thread buffers outside the batch allocator -/
theorem finish_bufs {c : Cfg} {S R : State} {t : Tid} {th : Th} (h : finish c S t th = some R) :
    R.bufs = S.bufs ∨ (th.dir = .pop ∧ th.cont = .refill) := by
  unfold finish at h
  (repeat' split at h) <;> (try (simp at h; done)) <;> simp only [Option.some.injEq] at h <;> subst h <;>
    first | (left; rfl) | (right; constructor <;> assumption)

end Babylon.Pages
