/-
  C17 — control-flow facts of the model threads (which program counters follow which, what a step may
  change besides the tokens).  Proved once by case analysis over all program counters; used by the
  batch-destructor, strict-pool, recycler and counting theorems.
-/
import Babylon.Pages.Inv

namespace Babylon.Pages
open Babylon.Core

/-- the compensating pop_n / push_n machine -/
def Pc.inM : Pc → Bool
  | .tkt | .rdVer | .rdOpp | .cIdx | .cVer | .cCas | .cAcq | .cCb | .cRel | .cSt
  | .fAcq | .fCb | .fRel | .fSt | .rem => true
  | _ => false

/-- the destructor of the cached allocator -/
def Pc.inD : Pc → Bool
  | .dIdx | .dVer | .dClaim | .dAcq | .dCb | .dRel | .dSt => true
  | _ => false

/-- single-element queue operations of the pool -/
def Pc.inS : Pc → Bool
  | .sTkt | .dlWait | .dlCb | .dlPub | .sIdx | .sVer | .sIdx2 | .sCas | .sCb | .sPub => true
  | _ => false

@[simp] theorem Pc.inM_idle : Pc.inM .idle = false := rfl
@[simp] theorem Pc.inD_idle : Pc.inD .idle = false := rfl
@[simp] theorem Pc.inS_idle : Pc.inS .idle = false := rfl
@[simp] theorem Pc.inM_retWait : Pc.inM .retWait = false := rfl
@[simp] theorem Pc.inD_retWait : Pc.inD .retWait = false := rfl
@[simp] theorem Pc.inS_retWait : Pc.inS .retWait = false := rfl
@[simp] theorem Pc.inM_bLoop : Pc.inM .bLoop = false := rfl
@[simp] theorem Pc.inD_bLoop : Pc.inD .bLoop = false := rfl
@[simp] theorem Pc.inS_bLoop : Pc.inS .bLoop = false := rfl
@[simp] theorem Pc.inM_tkt : Pc.inM .tkt = true := rfl
@[simp] theorem Pc.inD_tkt : Pc.inD .tkt = false := rfl
@[simp] theorem Pc.inS_tkt : Pc.inS .tkt = false := rfl
@[simp] theorem Pc.inM_rdVer : Pc.inM .rdVer = true := rfl
@[simp] theorem Pc.inD_rdVer : Pc.inD .rdVer = false := rfl
@[simp] theorem Pc.inS_rdVer : Pc.inS .rdVer = false := rfl
@[simp] theorem Pc.inM_rdOpp : Pc.inM .rdOpp = true := rfl
@[simp] theorem Pc.inD_rdOpp : Pc.inD .rdOpp = false := rfl
@[simp] theorem Pc.inS_rdOpp : Pc.inS .rdOpp = false := rfl
@[simp] theorem Pc.inM_cIdx : Pc.inM .cIdx = true := rfl
@[simp] theorem Pc.inD_cIdx : Pc.inD .cIdx = false := rfl
@[simp] theorem Pc.inS_cIdx : Pc.inS .cIdx = false := rfl
@[simp] theorem Pc.inM_cVer : Pc.inM .cVer = true := rfl
@[simp] theorem Pc.inD_cVer : Pc.inD .cVer = false := rfl
@[simp] theorem Pc.inS_cVer : Pc.inS .cVer = false := rfl
@[simp] theorem Pc.inM_cCas : Pc.inM .cCas = true := rfl
@[simp] theorem Pc.inD_cCas : Pc.inD .cCas = false := rfl
@[simp] theorem Pc.inS_cCas : Pc.inS .cCas = false := rfl
@[simp] theorem Pc.inM_cAcq : Pc.inM .cAcq = true := rfl
@[simp] theorem Pc.inD_cAcq : Pc.inD .cAcq = false := rfl
@[simp] theorem Pc.inS_cAcq : Pc.inS .cAcq = false := rfl
@[simp] theorem Pc.inM_cCb : Pc.inM .cCb = true := rfl
@[simp] theorem Pc.inD_cCb : Pc.inD .cCb = false := rfl
@[simp] theorem Pc.inS_cCb : Pc.inS .cCb = false := rfl
@[simp] theorem Pc.inM_cRel : Pc.inM .cRel = true := rfl
@[simp] theorem Pc.inD_cRel : Pc.inD .cRel = false := rfl
@[simp] theorem Pc.inS_cRel : Pc.inS .cRel = false := rfl
@[simp] theorem Pc.inM_cSt : Pc.inM .cSt = true := rfl
@[simp] theorem Pc.inD_cSt : Pc.inD .cSt = false := rfl
@[simp] theorem Pc.inS_cSt : Pc.inS .cSt = false := rfl
@[simp] theorem Pc.inM_fAcq : Pc.inM .fAcq = true := rfl
@[simp] theorem Pc.inD_fAcq : Pc.inD .fAcq = false := rfl
@[simp] theorem Pc.inS_fAcq : Pc.inS .fAcq = false := rfl
@[simp] theorem Pc.inM_fCb : Pc.inM .fCb = true := rfl
@[simp] theorem Pc.inD_fCb : Pc.inD .fCb = false := rfl
@[simp] theorem Pc.inS_fCb : Pc.inS .fCb = false := rfl
@[simp] theorem Pc.inM_fRel : Pc.inM .fRel = true := rfl
@[simp] theorem Pc.inD_fRel : Pc.inD .fRel = false := rfl
@[simp] theorem Pc.inS_fRel : Pc.inS .fRel = false := rfl
@[simp] theorem Pc.inM_fSt : Pc.inM .fSt = true := rfl
@[simp] theorem Pc.inD_fSt : Pc.inD .fSt = false := rfl
@[simp] theorem Pc.inS_fSt : Pc.inS .fSt = false := rfl
@[simp] theorem Pc.inM_rem : Pc.inM .rem = true := rfl
@[simp] theorem Pc.inD_rem : Pc.inD .rem = false := rfl
@[simp] theorem Pc.inS_rem : Pc.inS .rem = false := rfl
@[simp] theorem Pc.inM_dIdx : Pc.inM .dIdx = false := rfl
@[simp] theorem Pc.inD_dIdx : Pc.inD .dIdx = true := rfl
@[simp] theorem Pc.inS_dIdx : Pc.inS .dIdx = false := rfl
@[simp] theorem Pc.inM_dVer : Pc.inM .dVer = false := rfl
@[simp] theorem Pc.inD_dVer : Pc.inD .dVer = true := rfl
@[simp] theorem Pc.inS_dVer : Pc.inS .dVer = false := rfl
@[simp] theorem Pc.inM_dClaim : Pc.inM .dClaim = false := rfl
@[simp] theorem Pc.inD_dClaim : Pc.inD .dClaim = true := rfl
@[simp] theorem Pc.inS_dClaim : Pc.inS .dClaim = false := rfl
@[simp] theorem Pc.inM_dAcq : Pc.inM .dAcq = false := rfl
@[simp] theorem Pc.inD_dAcq : Pc.inD .dAcq = true := rfl
@[simp] theorem Pc.inS_dAcq : Pc.inS .dAcq = false := rfl
@[simp] theorem Pc.inM_dCb : Pc.inM .dCb = false := rfl
@[simp] theorem Pc.inD_dCb : Pc.inD .dCb = true := rfl
@[simp] theorem Pc.inS_dCb : Pc.inS .dCb = false := rfl
@[simp] theorem Pc.inM_dRel : Pc.inM .dRel = false := rfl
@[simp] theorem Pc.inD_dRel : Pc.inD .dRel = true := rfl
@[simp] theorem Pc.inS_dRel : Pc.inS .dRel = false := rfl
@[simp] theorem Pc.inM_dSt : Pc.inM .dSt = false := rfl
@[simp] theorem Pc.inD_dSt : Pc.inD .dSt = true := rfl
@[simp] theorem Pc.inS_dSt : Pc.inS .dSt = false := rfl
@[simp] theorem Pc.inM_bdNext : Pc.inM .bdNext = false := rfl
@[simp] theorem Pc.inD_bdNext : Pc.inD .bdNext = false := rfl
@[simp] theorem Pc.inS_bdNext : Pc.inS .bdNext = false := rfl
@[simp] theorem Pc.inM_pRecycle : Pc.inM .pRecycle = false := rfl
@[simp] theorem Pc.inD_pRecycle : Pc.inD .pRecycle = false := rfl
@[simp] theorem Pc.inS_pRecycle : Pc.inS .pRecycle = false := rfl
@[simp] theorem Pc.inM_gPop : Pc.inM .gPop = false := rfl
@[simp] theorem Pc.inD_gPop : Pc.inD .gPop = false := rfl
@[simp] theorem Pc.inS_gPop : Pc.inS .gPop = false := rfl
@[simp] theorem Pc.inM_gPush : Pc.inM .gPush = false := rfl
@[simp] theorem Pc.inD_gPush : Pc.inD .gPush = false := rfl
@[simp] theorem Pc.inS_gPush : Pc.inS .gPush = false := rfl
@[simp] theorem Pc.inM_pDestroy : Pc.inM .pDestroy = false := rfl
@[simp] theorem Pc.inD_pDestroy : Pc.inD .pDestroy = false := rfl
@[simp] theorem Pc.inS_pDestroy : Pc.inS .pDestroy = false := rfl
@[simp] theorem Pc.inM_sTkt : Pc.inM .sTkt = false := rfl
@[simp] theorem Pc.inD_sTkt : Pc.inD .sTkt = false := rfl
@[simp] theorem Pc.inS_sTkt : Pc.inS .sTkt = true := rfl
@[simp] theorem Pc.inM_dlWait : Pc.inM .dlWait = false := rfl
@[simp] theorem Pc.inD_dlWait : Pc.inD .dlWait = false := rfl
@[simp] theorem Pc.inS_dlWait : Pc.inS .dlWait = true := rfl
@[simp] theorem Pc.inM_dlCb : Pc.inM .dlCb = false := rfl
@[simp] theorem Pc.inD_dlCb : Pc.inD .dlCb = false := rfl
@[simp] theorem Pc.inS_dlCb : Pc.inS .dlCb = true := rfl
@[simp] theorem Pc.inM_dlPub : Pc.inM .dlPub = false := rfl
@[simp] theorem Pc.inD_dlPub : Pc.inD .dlPub = false := rfl
@[simp] theorem Pc.inS_dlPub : Pc.inS .dlPub = true := rfl
@[simp] theorem Pc.inM_sIdx : Pc.inM .sIdx = false := rfl
@[simp] theorem Pc.inD_sIdx : Pc.inD .sIdx = false := rfl
@[simp] theorem Pc.inS_sIdx : Pc.inS .sIdx = true := rfl
@[simp] theorem Pc.inM_sVer : Pc.inM .sVer = false := rfl
@[simp] theorem Pc.inD_sVer : Pc.inD .sVer = false := rfl
@[simp] theorem Pc.inS_sVer : Pc.inS .sVer = true := rfl
@[simp] theorem Pc.inM_sIdx2 : Pc.inM .sIdx2 = false := rfl
@[simp] theorem Pc.inD_sIdx2 : Pc.inD .sIdx2 = false := rfl
@[simp] theorem Pc.inS_sIdx2 : Pc.inS .sIdx2 = true := rfl
@[simp] theorem Pc.inM_sCas : Pc.inM .sCas = false := rfl
@[simp] theorem Pc.inD_sCas : Pc.inD .sCas = false := rfl
@[simp] theorem Pc.inS_sCas : Pc.inS .sCas = true := rfl
@[simp] theorem Pc.inM_sCb : Pc.inM .sCb = false := rfl
@[simp] theorem Pc.inD_sCb : Pc.inD .sCb = false := rfl
@[simp] theorem Pc.inS_sCb : Pc.inS .sCb = true := rfl
@[simp] theorem Pc.inM_sPub : Pc.inM .sPub = false := rfl
@[simp] theorem Pc.inD_sPub : Pc.inD .sPub = false := rfl
@[simp] theorem Pc.inS_sPub : Pc.inS .sPub = true := rfl

def exitPc : Dir → Cont → Pc
  | .pop, .refill => .bLoop
  | .push, .flush => .bdNext
  | _, _ => .retWait

/-- what one internal step may do to the control state of its thread -/
def Flow (c : Cfg) (th th' : Th) : Prop :=
  th'.kind = th.kind ∧
  (th.pc.inM = true → th'.dir = th.dir ∧ th'.cont = th.cont ∧ (th'.pc.inM = true ∨ th'.pc = exitPc th.dir th.cont)) ∧
  (th.pc = .bLoop → th'.pc = .bLoop ∨ th'.pc = .retWait ∨ (th'.pc = .tkt ∧ th'.dir = .pop ∧ th'.cont = .refill)) ∧
  (th.pc = .bdNext → th'.pc = .bdNext ∨ th'.pc = .retWait ∨ (th'.pc = .tkt ∧ th'.dir = .push ∧ th'.cont = .flush)) ∧
  (th.pc.inD = true → th'.pc.inD = true ∨ th'.pc = .retWait) ∧
  (th.pc.inS = true → th'.dir = th.dir ∧ (th'.pc.inS = true ∨ th'.pc = .retWait)) ∧
  (th.pc = .pRecycle → (c.mode = Mode.poolAuto ∧ th'.pc = .gPop) ∨ (c.mode ≠ Mode.poolAuto ∧ th'.pc = .sTkt ∧ th'.dir = .push)) ∧
  (th.pc = .gPop → th'.pc = .gPush) ∧
  (th.pc = .gPush → th'.pc = .pDestroy ∨ (th'.pc = .tkt ∧ th'.dir = .push ∧ th'.cont = .top)) ∧
  (th.pc = .pDestroy → th'.pc = .retWait)

/-- control state after a tail function -/
def TailFlow (th th' : Th) : Prop :=
  th'.kind = th.kind ∧ th'.dir = th.dir ∧ th'.cont = th.cont ∧ (th'.pc.inM = true ∨ th'.pc = exitPc th.dir th.cont)

theorem waitOrGo_flow (th : Th) : (waitOrGo th).kind = th.kind ∧ (waitOrGo th).dir = th.dir ∧ (waitOrGo th).cont = th.cont ∧
    (waitOrGo th).pc.inM = true := by
  unfold waitOrGo; split <;> simp [Pc.inM]

theorem enterCb_flow (th : Th) : (enterCb th).kind = th.kind ∧ (enterCb th).dir = th.dir ∧ (enterCb th).cont = th.cont ∧
    (enterCb th).pc.inM = true := by
  unfold enterCb; split <;> simp [Pc.inM]

theorem finish_flow {c : Cfg} {S R : State} {t : Tid} {th : Th} (h : finish c S t th = some R) : TailFlow th (R.th t) := by
  unfold finish at h
  (repeat' split at h) <;> (try (simp at h; done)) <;> simp only [Option.some.injEq] at h <;> subst h <;>
    simp_all [TailFlow, State.setTh, exitPc]
  all_goals (cases hc : th.cont <;> simp_all [exitPc])

theorem settle_flow {c : Cfg} {S R : State} {t : Tid} {th : Th} (h : settle c S t th = some R) : TailFlow th (R.th t) := by
  unfold settle at h
  split at h
  · simp only [Option.some.injEq] at h; subst h; simp [TailFlow, State.setTh, Pc.inM]
  · exact finish_flow h

theorem segDone_flow {c : Cfg} {S R : State} {t : Tid} {th : Th} (h : segDone c S t th = some R) : TailFlow th (R.th t) := by
  unfold segDone at h
  split at h
  · simp only [Option.some.injEq] at h; subst h
    have := waitOrGo_flow { th with idx := th.idx + th.num, num := th.rest, rest := 0, i := 0 }
    simp only [TailFlow, State.setTh, if_true]
    exact ⟨this.1, this.2.1, this.2.2.1, Or.inl this.2.2.2⟩
  · exact settle_flow h

theorem enterSt_flow {c : Cfg} {S R : State} {t : Tid} {th : Th} (h : enterSt c S t th = some R) : TailFlow th (R.th t) := by
  unfold enterSt at h
  split at h
  · simp only [Option.some.injEq] at h; subst h; simp [TailFlow, State.setTh, Pc.inM]
  · exact segDone_flow h


@[simp] theorem waitOrGo_kind (th : Th) : (waitOrGo th).kind = th.kind := (waitOrGo_flow th).1
@[simp] theorem waitOrGo_dir (th : Th) : (waitOrGo th).dir = th.dir := (waitOrGo_flow th).2.1
@[simp] theorem waitOrGo_cont (th : Th) : (waitOrGo th).cont = th.cont := (waitOrGo_flow th).2.2.1
@[simp] theorem waitOrGo_inM (th : Th) : (waitOrGo th).pc.inM = true := (waitOrGo_flow th).2.2.2
@[simp] theorem enterCb_kind (th : Th) : (enterCb th).kind = th.kind := (enterCb_flow th).1
@[simp] theorem enterCb_dir (th : Th) : (enterCb th).dir = th.dir := (enterCb_flow th).2.1
@[simp] theorem enterCb_cont (th : Th) : (enterCb th).cont = th.cont := (enterCb_flow th).2.2.1
@[simp] theorem enterCb_inM (th : Th) : (enterCb th).pc.inM = true := (enterCb_flow th).2.2.2

theorem flow_of_tail {c : Cfg} {th th0 th' : Th} (hT : TailFlow th0 th') (hm : th.pc.inM = true)
    (hk : th0.kind = th.kind) (hd : th0.dir = th.dir) (hc : th0.cont = th.cont) : Flow c th th' := by
  obtain ⟨h1, h2, h3, h4⟩ := hT
  have hM : ∀ p : Pc, th.pc = p → p.inM = true := fun p e => e ▸ hm
  refine ⟨by rw [h1, hk], fun _ => ⟨by rw [h2, hd], by rw [h3, hc], by rw [← hd, ← hc]; exact h4⟩, ?_, ?_, ?_, ?_, ?_, ?_, ?_, ?_⟩
  all_goals (intro e; first | (have := hM _ e; simp [Pc.inM] at this; done) | skip)
  · cases hp : th.pc <;> simp_all [Pc.inM, Pc.inD]
  · cases hp : th.pc <;> simp_all [Pc.inM, Pc.inS]

/-- leaves of a step: substitute, then discharge the `Flow` obligations by computation -/
macro "flowleaves" h:ident : tactic =>
  `(tactic| ((try dsimp only at $h:ident) <;> (repeat' split at $h:ident) <;> (try (simp at $h:ident; done)) <;>
      (simp only [Option.some.injEq, Prod.mk.injEq] at $h:ident) <;>
      (first | (obtain ⟨hres, -⟩ : _ ∧ _ := $h:ident; subst hres) | subst $h:ident) <;>
      (simp [Flow, State.setTh, exitPc, startAlloc, startDealloc, *])))

macro "flowtails" h:ident lem:ident : tactic =>
  `(tactic| ((try dsimp only at $h:ident) <;> (repeat' split at $h:ident) <;> (try (simp at $h:ident; done)) <;>
      (simp only [Option.map_eq_some_iff, Prod.mk.injEq] at $h:ident) <;>
      (obtain ⟨R, hR, hres, -⟩ := $h:ident) <;> (subst hres) <;>
      (exact flow_of_tail ($lem hR) (by simp [Pc.inM, *]) rfl rfl rfl)))

theorem stepThread_flow {c : Cfg} {s s' : State} {t : Tid} {tok : Tok} {spur : Bool} {l : Option Act}
    (h : stepThread c s t tok spur = some (s', l)) : Flow c (s.th t) (s'.th t) := by
  unfold stepThread at h; dsimp only at h
  split at h
  · simp at h
  · simp at h
  · unfold stepBLoop at h; flowleaves h
  · unfold stepTkt at h; flowleaves h
  · unfold stepRdVer at h; flowleaves h
  · unfold stepRdOpp at h; flowleaves h
  · unfold stepCIdx at h; flowleaves h
  · unfold stepCVer at h; flowleaves h
  · unfold stepCCas at h; flowleaves h
  · unfold stepCAcq at h; flowleaves h
  · unfold stepCCb at h; flowleaves h
  · unfold stepCRel at h; flowleaves h
  · unfold stepCSt at h; flowleaves h
  · unfold stepFAcq at h; flowleaves h
  · unfold stepFCb at h; flowleaves h
  · unfold stepFRel at h; flowtails h enterSt_flow
  · unfold stepFSt at h; flowtails h enterSt_flow
  · unfold stepRem at h; flowtails h settle_flow
  · unfold stepDIdx at h; flowleaves h
  · unfold stepDVer at h; flowleaves h
  · unfold stepDClaim at h; flowleaves h
  · unfold stepDAcq at h; flowleaves h
  · unfold stepDCb at h; flowleaves h
  · unfold stepDRel at h; flowleaves h
  · unfold stepDSt at h; flowleaves h
  · unfold stepBdNext at h; flowleaves h
  · unfold stepPRecycle at h; flowleaves h; assumption
  · unfold stepGPop at h; flowleaves h
  · unfold stepGPush at h; flowleaves h
  · unfold stepPDestroy at h; flowleaves h
  · unfold stepSTkt at h; flowleaves h
  · unfold stepDlWait at h; flowleaves h
  · unfold stepDlCb at h; flowleaves h
  · unfold stepDlPub at h; flowleaves h
  · unfold stepSIdx at h; flowleaves h
  · unfold stepSVer at h; flowleaves h
  · unfold stepSIdx2 at h; flowleaves h
  · unfold stepSCas at h; flowleaves h
  · unfold stepSCb at h; flowleaves h
  · unfold stepSPub at h; flowleaves h

end Babylon.Pages
