/-
  C17 — BatchPageAllocator destructor: run alone, it hands every thread buffer to the upstream
  deallocate and leaves all buffers empty.
-/
import Babylon.Pages.Pool

namespace Babylon.Pages
open Babylon.Core

/-- thread `t` runs alone -/
inductive RunT (c : Cfg) (t : Tid) : State → State → Prop
  | refl (s : State) : RunT c t s s
  | step {s s1 s2 : State} (tok : Tok) (spur : Bool) (l : Option Act) :
      stepThread c s t tok spur = some (s1, l) → RunT c t s1 s2 → RunT c t s s2

theorem finish_misc {c : Cfg} {S R : State} {t : Tid} {th : Th} (h : finish c S t th = some R) :
    (R.th t).todo = th.todo ∧ (R.bufs = S.bufs ∨ (th.dir = .pop ∧ th.cont = .refill)) := by
  unfold finish at h
  (repeat' split at h) <;> (try (simp at h; done)) <;> simp only [Option.some.injEq] at h <;> subst h <;>
    refine ⟨by simp [State.setTh], ?_⟩ <;> first | (left; rfl) | (right; constructor <;> assumption)

theorem settle_misc {c : Cfg} {S R : State} {t : Tid} {th : Th} (h : settle c S t th = some R) :
    (R.th t).todo = th.todo ∧ (R.bufs = S.bufs ∨ (th.dir = .pop ∧ th.cont = .refill)) := by
  unfold settle at h
  split at h
  · simp only [Option.some.injEq] at h; subst h; exact ⟨by simp [State.setTh], Or.inl rfl⟩
  · exact finish_misc h

theorem segDone_misc {c : Cfg} {S R : State} {t : Tid} {th : Th} (h : segDone c S t th = some R) :
    (R.th t).todo = th.todo ∧ (R.bufs = S.bufs ∨ (th.dir = .pop ∧ th.cont = .refill)) := by
  unfold segDone at h
  split at h
  · simp only [Option.some.injEq] at h; subst h
    refine ⟨?_, Or.inl rfl⟩
    simp only [State.setTh, if_true]; unfold waitOrGo; split <;> rfl
  · exact settle_misc h

theorem enterSt_misc {c : Cfg} {S R : State} {t : Tid} {th : Th} (h : enterSt c S t th = some R) :
    (R.th t).todo = th.todo ∧ (R.bufs = S.bufs ∨ (th.dir = .pop ∧ th.cont = .refill)) := by
  unfold enterSt at h
  split at h
  · simp only [Option.some.injEq] at h; subst h; exact ⟨by simp [State.setTh], Or.inl rfl⟩
  · exact segDone_misc h

@[simp] theorem waitOrGo_todo (th : Th) : (waitOrGo th).todo = th.todo := by unfold waitOrGo; split <;> rfl
@[simp] theorem enterCb_todo (th : Th) : (enterCb th).todo = th.todo := by unfold enterCb; split <;> rfl
@[simp] theorem setCtr_bufs' (s : State) (d : Dir) (v : Nat) : (s.setCtr d v).bufs = s.bufs := by cases d <;> rfl

macro "miscclose" : tactic =>
  `(tactic| (first
      | exact ⟨rfl, rfl⟩
      | (simp only [State.setTh, setCtr_bufs', waitOrGo_todo, enterCb_todo, if_true, and_self]; done)
      | ((try simp only [State.setTh, setCtr_bufs', waitOrGo_todo, enterCb_todo, if_true, true_and, and_true]); exact (acquire_counters (by assumption)).2.2.2.2.2)
      | ((try simp only [State.setTh, setCtr_bufs', waitOrGo_todo, enterCb_todo, if_true, true_and, and_true]); exact (takeVal_counters (by assumption)).2.2.2.2.2)
      | ((try simp only [State.setTh, setCtr_bufs', waitOrGo_todo, enterCb_todo, if_true, true_and, and_true]); exact (publish_counters (by assumption)).2.2.2.2.2)))

macro "miscleaves" h:ident : tactic =>
  `(tactic| ((try dsimp only at $h:ident) <;> (repeat' split at $h:ident) <;> (try (simp at $h:ident; done)) <;>
      (simp only [Option.some.injEq, Prod.mk.injEq] at $h:ident) <;>
      (first | (obtain ⟨hres, -⟩ : _ ∧ _ := $h:ident; subst hres) | subst $h:ident) <;> miscclose))

/-- inside a deallocate (`dir = push`) the compensating machine touches neither the thread buffers nor the
destructor's to-do list -/
theorem stepThread_push_misc {c : Cfg} {s s' : State} {t : Tid} {tok : Tok} {spur : Bool} {l : Option Act}
    (h : stepThread c s t tok spur = some (s', l)) (hm : (s.th t).pc.inM = true) (hd : (s.th t).dir = .push) :
    (s'.th t).todo = (s.th t).todo ∧ s'.bufs = s.bufs := by
  unfold stepThread at h; dsimp only at h
  split at h
  all_goals (rename_i hpc; try (rw [hpc] at hm; simp at hm; done))
  · unfold stepTkt at h; miscleaves h
  · unfold stepRdVer at h; miscleaves h
  · unfold stepRdOpp at h; miscleaves h
  · unfold stepCIdx at h; miscleaves h
  · unfold stepCVer at h; miscleaves h
  · unfold stepCCas at h; miscleaves h
  · unfold stepCAcq at h; miscleaves h
  · unfold stepCCb at h; miscleaves h
  · unfold stepCRel at h; miscleaves h
  · unfold stepCSt at h; miscleaves h
  · unfold stepFAcq at h; miscleaves h
  · unfold stepFCb at h; miscleaves h
  · unfold stepFRel at h
    simp only [Option.map_eq_some_iff, Prod.mk.injEq] at h
    obtain ⟨R, hR, hres, -⟩ := h; subst hres
    have := enterSt_misc hR
    refine ⟨this.1, ?_⟩
    rcases this.2 with h1 | h1
    · exact h1
    · simp only at h1; rw [hd] at h1; simp at h1
  · unfold stepFSt at h; dsimp only at h
    (repeat' split at h) <;> (try (simp at h; done)) <;>
      simp only [Option.map_eq_some_iff, Prod.mk.injEq] at h <;> obtain ⟨R, hR, hres, -⟩ := h <;> subst hres <;>
      have := enterSt_misc hR <;> refine ⟨this.1, ?_⟩ <;>
      (rcases this.2 with h1 | h1
       · rw [h1]; exact (publish_counters (by assumption)).2.2.2.2.2
       · simp only at h1; rw [hd] at h1; simp at h1)
  · unfold stepRem at h
    (repeat' split at h) <;> (try (simp at h; done)) <;>
      simp only [Option.map_eq_some_iff, Prod.mk.injEq] at h <;> obtain ⟨R, hR, hres, -⟩ := h <;> subst hres <;>
      have := settle_misc hR <;> refine ⟨this.1, ?_⟩ <;>
      (rcases this.2 with h1 | h1
       · rw [h1]
       · simp only at h1; rw [hd] at h1; simp at h1)


/-- invariant of a `~BatchPageAllocator` that runs alone: every non-empty thread buffer is still on the to-do
list, and the thread is between buffers or inside the upstream deallocate of one buffer -/
def BdInv (t : Tid) (s : State) : Prop :=
  (s.th t).kind = .bdtor ∧
  ((s.th t).pc = .bdNext ∨ ((s.th t).pc = .retWait ∧ (s.th t).todo = []) ∨
    ((s.th t).pc.inM = true ∧ (s.th t).dir = .push ∧ (s.th t).cont = .flush)) ∧
  (∀ u p ps, s.bufs[u]? = some (p :: ps) → u ∈ (s.th t).todo)

theorem bdInv_call {c : Cfg} {s s' : State} {t : Tid} {order : List Nat}
    (h : callOp c s t (.bdtor order) = some s') (ho : ∀ u p ps, s.bufs[u]? = some (p :: ps) → u ∈ order) : BdInv t s' := by
  unfold callOp at h; dsimp only at h
  split at h
  · simp at h
  · split at h
    · simp at h
    · simp only [Option.some.injEq] at h; subst h
      refine ⟨by simp [State.setTh], Or.inl (by simp [State.setTh]), fun u p ps hb => ?_⟩
      simp only [State.setTh, if_true]
      exact ho u p ps hb

theorem bdInv_step {c : Cfg} {s s' : State} {t : Tid} {tok : Tok} {spur : Bool} {l : Option Act}
    (h : stepThread c s t tok spur = some (s', l)) (hi : BdInv t s) : BdInv t s' := by
  obtain ⟨hk, hpc, hb⟩ := hi
  have hflow := stepThread_flow h
  refine ⟨by rw [hflow.1, hk], ?_⟩
  rcases hpc with h1 | ⟨h1, -⟩ | ⟨h1, h2, h3⟩
  · -- between buffers
    unfold stepThread at h; dsimp only at h
    rw [h1] at h; dsimp only at h
    unfold stepBdNext at h
    split at h
    · rename_i htodo
      simp only [Option.some.injEq, Prod.mk.injEq] at h; obtain ⟨hres, -⟩ := h; subst hres
      refine ⟨Or.inr (Or.inl ⟨by simp [State.setTh], by simp [State.setTh, htodo]⟩), fun u p ps hbu => ?_⟩
      have := hb u p ps hbu
      rw [htodo] at this; simp at this
    · rename_i u us htodo
      split at h
      · simp at h
      · rename_i hbu
        simp only [Option.some.injEq, Prod.mk.injEq] at h; obtain ⟨hres, -⟩ := h; subst hres
        refine ⟨Or.inl (by simp [State.setTh, h1]), fun v p ps hbv => ?_⟩
        have := hb v p ps hbv
        rw [htodo] at this
        simp only [State.setTh, if_true]
        rcases List.mem_cons.mp this with e | e
        · subst e
          have hbv' : s.bufs[v]? = some (p :: ps) := hbv
          rw [hbu] at hbv'; simp at hbv'
        · exact e
      · rename_i p ps hbu
        simp only [Option.some.injEq, Prod.mk.injEq] at h; obtain ⟨hres, -⟩ := h; subst hres
        refine ⟨Or.inr (Or.inr ⟨by simp [startDealloc, State.setTh], by simp [startDealloc, State.setTh],
          by simp [startDealloc, State.setTh]⟩), fun v q qs hbv => ?_⟩
        simp only [startDealloc, State.setTh, if_true] at hbv ⊢
        by_cases e : v = u
        · subst e
          have hlt := lt_of_getElem? hbu
          rw [List.getElem?_set_self hlt] at hbv; simp at hbv
        · rw [List.getElem?_set_ne (Ne.symm e)] at hbv
          have := hb v q qs hbv
          rw [htodo] at this
          rcases List.mem_cons.mp this with e' | e'
          · exact absurd e' e
          · exact e'
  · exfalso; unfold stepThread at h; simp [h1] at h
  · -- inside the upstream deallocate of one buffer
    obtain ⟨htodo, hbufs⟩ := stepThread_push_misc h h1 h2
    have hM := hflow.2.1 h1
    refine ⟨?_, fun u p ps hbu => ?_⟩
    · rcases hM.2.2 with hm | hm
      · exact Or.inr (Or.inr ⟨hm, by rw [hM.1, h2], by rw [hM.2.1, h3]⟩)
      · left; rw [hm, h2, h3]; rfl
    · rw [htodo]; rw [hbufs] at hbu; exact hb u p ps hbu

theorem bdInv_run {c : Cfg} {s s' : State} {t : Tid} (h : RunT c t s s') (hi : BdInv t s) : BdInv t s' := by
  induction h with
  | refl => exact hi
  | step tok spur l hs _ ih => exact ih (bdInv_step hs hi)

theorem flatten_nil_of_all_nil : ∀ (l : List (List Tok)), (∀ (u : Nat) (p : Tok) (ps : List Tok), l[u]? ≠ some (p :: ps)) → l.flatten = []
  | [], _ => rfl
  | x :: xs, h => by
    have hx : x = [] := by
      cases x with
      | nil => rfl
      | cons p ps => exact absurd rfl (h 0 p ps)
    subst hx
    simp only [List.flatten_cons, List.nil_append]
    exact flatten_nil_of_all_nil xs (fun u p ps hu => h (u + 1) p ps (by simpa using hu))

/-- when the destructor returns, every thread buffer is empty -/
theorem bdInv_done {t : Tid} {s : State} (hi : BdInv t s) (hp : (s.th t).pc = .retWait) : s.bufs.flatten = [] := by
  obtain ⟨-, hpc, hb⟩ := hi
  have htodo : (s.th t).todo = [] := by
    rcases hpc with h1 | ⟨-, h1⟩ | ⟨h1, -, -⟩
    · rw [hp] at h1; simp at h1
    · exact h1
    · rw [hp] at h1; simp at h1
  apply flatten_nil_of_all_nil
  intro u p ps hbu
  have := hb u p ps hbu
  rw [htodo] at this; simp at this

end Babylon.Pages
