/-
  C17 — token model of the page allocators and the object pool (DESIGN.md §6 C17).

  Pages / pooled objects are *tokens* (unique ids).  Places:
    upstream            : not mentioned in the state (every token that is in no other place)
    cache slot k        : `slots[k].val`
    inFlight tid        : the thread-local lists `pages`, `out`, `carry` of a thread that is inside a call
    caller              : `held`
    threadBuffer tid    : `bufs[tid]`   (BatchPageAllocator)
  Every step of `CachedPageAllocator::allocate/deallocate` (compensating `pop_n` / `push_n` with the
  reverse callback), of its destructor, of `BatchPageAllocator`, `CountingPageAllocator`, `PageHeap` and of
  `ObjectPool::pop/try_pop/push` in both modes is one transition of `stepThread`; one transition is one
  atomic operation / fence / harness-visible event of the real code (the `Act` label, compared in
  lock-step with the VRT trace by `Drivers/C17.lean`) or a silent thread-local move (`none` label).

  ## The bounded-queue specification this model ASSUMES (it is C01/C02's to prove)
  The slot protocol of `ConcurrentBoundedQueue` is not re-proved here.  It enters the model as *guards*:
  a transition that would contradict the specification is simply not enabled (`stepThread = none`), so the
  theorems of `Properties/C17.lean` hold for the executions permitted by the specification; the lock-step
  replay reports a divergence if the real code ever takes a step the guards forbid.
   (Q1) exclusive access (C01 `bq_inv`, `bq_exclusive`): a ticket holder that observes its expected
        version on its slot (`acquire`) is the only thread inside a callback on that slot until it publishes
        version+1 (`publish`): `acquire` requires `owner = none`, `publish`/`takeVal` require `owner = me`.
   (Q2) value integrity, exactly once (C01 `bq_value`, `bq_no_dup_no_invent`): what a pop callback reads is
        what the push callback of the same ticket wrote — by construction, the slot stores the token.
   (Q3) truncated versions compare like untruncated ones (C01 `bq_ver16_faithful` under
        `OutstandingBound`): the model keeps the untruncated version, labels carry `ver % 2^16`.
   (Q4) a blocked `pop` sleeping on its slot is woken when the version it waits for is published
        (C02 `bq_sleep_sound`): the model's `dlWait` step is enabled exactly when the version is reached.
  Core Lean only (linked into `drv_C17`).
-/
import Babylon.Core.Trace
import Babylon.Gen.Pages

set_option linter.unusedVariables false
namespace Babylon.Pages
open Babylon.Core

abbrev Tok := Nat
abbrev Tid := Nat

inductive Dir | pop | push
  deriving DecidableEq, Repr, Inhabited

def Dir.opp : Dir → Dir
  | .pop => .push
  | .push => .pop

/-- version a ticket expects on its slot: `push_version_for_index` / `pop_version_for_index`, untruncated -/
def expVer (cap i : Nat) : Dir → Nat
  | .push => Gen.Pages.pushVersionFactor * (i / cap)
  | .pop => Gen.Pages.pushVersionFactor * (i / cap) + Gen.Pages.popVersionOffset

structure Owner where
  tid : Tid
  ticket : Nat
  dir : Dir
  deriving DecidableEq, Repr

structure Slot where
  ver : Nat := 0
  val : Option Tok := none
  owner : Option Owner := none   -- ghost: who is between "version observed" and "version advanced"
  deriving DecidableEq, Repr, Inhabited

inductive CountMode | off | pre | post
  deriving DecidableEq, Repr, Inhabited

inductive Mode | pages | poolStrict | poolAuto
  deriving DecidableEq, Repr, Inhabited

structure Cfg where
  cap : Nat                      -- queue capacity (a power of two in the code; the model needs nothing of it)
  nthreads : Nat
  batch : Nat := 0               -- BatchPageAllocator batch size, 0 = no batch layer
  count : CountMode := .off      -- CountingPageAllocator (pre) / PageHeap (post) in front of the cache
  mode : Mode := .pages
  poolCap : Nat := 0             -- ObjectPool::_capacity (auto mode gate)
  deriving Repr

inductive Pc
  | idle | retWait
  | bLoop
  | tkt | rdVer | rdOpp | cIdx | cVer | cCas | cAcq | cCb | cRel | cSt
  | fAcq | fCb | fRel | fSt | rem
  | dIdx | dVer | dClaim | dAcq | dCb | dRel | dSt
  | bdNext
  | pRecycle | gPop | gPush | pDestroy
  | sTkt | dlWait | dlCb | dlPub
  | sIdx | sVer | sIdx2 | sCas | sCb | sPub
  deriving DecidableEq, Repr, Inhabited

inductive OpKind | none | alloc | dealloc | dtor | bdtor | pop | tryPop | push
  deriving DecidableEq, Repr, Inhabited

/-- what happens when the cache-level allocate / deallocate finishes -/
inductive Cont | top | refill | flush
  deriving DecidableEq, Repr, Inhabited

structure Th where
  pc : Pc := .idle
  kind : OpKind := .none
  cont : Cont := .top
  dir : Dir := .pop
  idx : Nat := 0          -- `index` of the current contiguous segment
  num : Nat := 0          -- its length
  rest : Nat := 0         -- length of the second segment (after the ring end), 0 if none
  i : Nat := 0            -- loop counter
  j : Nat := 0            -- ticket read / claimed by a try_ operation
  hit : Nat := 0          -- hit_num (clamped at 0)
  want : Nat := 0         -- `num` of the allocate / deallocate call
  need : Nat := 0         -- BatchPageAllocator::allocate(pages, n): n
  pages : List Tok := []  -- in flight: the local page array of the cache-level call
  out : List Tok := []    -- in flight: result array being filled by BatchPageAllocator
  carry : List Tok := []  -- in flight: page obtained by a compensating push, not yet published
  todo : List Nat := []   -- BatchPageAllocator destructor: thread buffers still to flush
  deriving Repr, Inhabited

structure State where
  pushIdx : Nat := 0
  popIdx : Nat := 0
  slots : List Slot := []
  held : List Tok := []
  bufs : List (List Tok) := []
  th : Tid → Th := fun _ => {}
  obtained : Nat := 0     -- tokens that left upstream (upstream_alloc / create / inject)
  returned : Nat := 0     -- tokens that went back upstream (upstream_free / destroy)
  counter : Int := 0      -- CountingPageAllocator / PageHeap `_allocate_page_num`
  hitSum : Nat := 0
  hitNum : Nat := 0
  recLog : List Tok := []   -- recycler invocations
  pushLog : List Tok := []  -- ObjectPool::push calls
  injected : Nat := 0       -- objects the client created and handed to the pool (`inject`)
  deriving Inhabited

/-- the queue empty at the start of round `r0` (both ticket counters at `r0 · cap`, every slot push-ready for
round `r0`): the state a freshly constructed allocator is in for `r0 = 0`, and the state the harness presets
(through `-fno-access-control`) to start a run just below the wrap of the 16-bit slot version -/
def State.initAt (c : Cfg) (r0 : Nat) : State :=
  { pushIdx := r0 * c.cap, popIdx := r0 * c.cap,
    slots := List.replicate c.cap { ver := Gen.Pages.pushVersionFactor * r0 }, bufs := List.replicate c.nthreads [] }

def State.init (c : Cfg) : State := State.initAt c 0

def State.setTh (s : State) (t : Tid) (th : Th) : State :=
  { s with th := fun u => if u = t then th else s.th u }

def State.setSlot (s : State) (k : Nat) (sl : Slot) : State :=
  { s with slots := s.slots.set k sl }

def State.ctr (s : State) : Dir → Nat
  | .pop => s.popIdx
  | .push => s.pushIdx

def State.setCtr (s : State) (d : Dir) (v : Nat) : State :=
  match d with
  | .pop => { s with popIdx := v }
  | .push => { s with pushIdx := v }

/-! ### tokens and places -/
def Th.toks (th : Th) : List Tok := th.pages ++ th.out ++ th.carry

def cacheToks (s : State) : List Tok := s.slots.filterMap (·.val)

def thToks (c : Cfg) (s : State) : List Tok := (List.range c.nthreads).flatMap (fun t => (s.th t).toks)

/-- every token that is not upstream, place by place -/
def toks (c : Cfg) (s : State) : List Tok := cacheToks s ++ s.held ++ s.bufs.flatten ++ thToks c s

def isLive (c : Cfg) (s : State) (p : Tok) : Bool := decide (p ∈ toks c s)

/-! ### labels -/
def ctrLoc : Dir → String
  | .pop => "popi"
  | .push => "pushi"

def slotOff (k : Nat) : Nat := k * Gen.Pages.slotStride + Gen.Pages.futexOffset

def verWord (v : Nat) : Nat := v % Gen.Pages.verMod

def ldSlot (k : Nat) (o : Ord) (ver : Nat) : Option Act := some (.ld "slot" (slotOff k) o (verWord ver))
def stSlot (k : Nat) (o : Ord) (ver : Nat) : Option Act := some (.st "slot" (slotOff k) o (verWord ver))
def evTok (w : String) (p : Tok) : Option Act := some (.ev [w, toString p])

/-! ### slot primitives (the guards are the assumed queue specification, see the header) -/
def acquire (c : Cfg) (s : State) (t : Tid) (i : Nat) (d : Dir) : Option State :=
  match s.slots[i % c.cap]? with
  | none => none
  | some sl =>
    if sl.ver = expVer c.cap i d ∧ (sl.owner = none ∨ sl.owner = some ⟨t, i, d⟩) then
      some (s.setSlot (i % c.cap) { sl with owner := some ⟨t, i, d⟩ })
    else none

/-- remove the token from a slot the thread owns -/
def takeVal (c : Cfg) (s : State) (t : Tid) (i : Nat) (d : Dir) : Option (State × Tok) :=
  match s.slots[i % c.cap]? with
  | none => none
  | some sl =>
    match sl.val with
    | none => none
    | some p =>
      if sl.owner = some ⟨t, i, d⟩ then some (s.setSlot (i % c.cap) { sl with val := none }, p) else none

/-- advance the version of an owned slot; a push publishes the token `put` into the (empty) slot -/
def publish (c : Cfg) (s : State) (t : Tid) (i : Nat) (d : Dir) (put : Option Tok) : Option State :=
  match s.slots[i % c.cap]? with
  | none => none
  | some sl =>
    if sl.owner = some ⟨t, i, d⟩ ∧ sl.val = none then
      some (s.setSlot (i % c.cap) { ver := sl.ver + 1, val := put, owner := none })
    else none

def slotVer (c : Cfg) (s : State) (i : Nat) : Option Nat := (s.slots[i % c.cap]?).map (·.ver)

/-! ### thread-level helpers -/
/-- split `[old, old+k)` at the ring end: `next_round_begin_index = (index + mask + 1) & ~mask` -/
def splitRing (cap old k : Nat) : Nat × Nat :=
  let nrb := (old / cap + 1) * cap
  if old + k ≤ nrb then (k, 0) else (nrb - old, old + k - nrb)

def waitOrGo (th : Th) : Th :=
  if th.i < th.num then { th with pc := .rdVer } else { th with pc := .fAcq }

def enterCb (th : Th) : Th :=
  if th.dir = .pop ∧ th.i < th.num then { th with pc := .fCb } else { th with pc := .fRel }

def remaining (th : Th) : Bool :=
  match th.dir with
  | .pop => th.pages.length < th.want
  | .push => !th.pages.isEmpty

/-- the cache-level call is over: statistics, counters, and the continuation.  (`none`: a refill into a
non-empty thread buffer — never happens, `bLoop` refills only an empty buffer.) -/
def finish (c : Cfg) (s : State) (t : Tid) (th : Th) : Option State :=
  match th.dir with
  | .pop =>
    let s1 := { s with hitSum := s.hitSum + th.hit, hitNum := s.hitNum + th.want,
                       counter := if c.count = CountMode.post then s.counter + th.want else s.counter }
    match th.cont with
    | .refill =>
      match th.pages, s.bufs[t]? with
      | p :: ps, some [] =>
        some ({ s1 with bufs := s1.bufs.set t ps }.setTh t { th with pages := [], out := th.out ++ [p], pc := .bLoop })
      | _, _ => none
    | _ => some (s1.setTh t { th with pc := .retWait })
  | .push =>
    let s1 := { s with counter := if c.count = CountMode.post then s.counter - th.want else s.counter }
    match th.cont with
    | .flush => some (s1.setTh t { th with pc := .bdNext })
    | _ => some (s1.setTh t { th with pc := .retWait })

/-- after the queue part: remainder loop (num above the capacity) or finish -/
def settle (c : Cfg) (s : State) (t : Tid) (th : Th) : Option State :=
  if remaining th then some (s.setTh t { th with pc := .rem }) else finish c s t th

/-- a contiguous segment is fully published -/
def segDone (c : Cfg) (s : State) (t : Tid) (th : Th) : Option State :=
  if th.rest > 0 then
    some (s.setTh t (waitOrGo { th with idx := th.idx + th.num, num := th.rest, rest := 0, i := 0 }))
  else settle c s t th

def enterSt (c : Cfg) (s : State) (t : Tid) (th : Th) : Option State :=
  if th.i < th.num then some (s.setTh t { th with pc := .fSt }) else segDone c s t th

/-- enter `CachedPageAllocator::allocate(pages, n)` (through the counting layer, if any) -/
def startAlloc (c : Cfg) (s : State) (t : Tid) (th : Th) (n : Nat) (cont : Cont) : State :=
  let s1 := { s with counter := if c.count = CountMode.pre then s.counter + n else s.counter }
  s1.setTh t { th with pc := .tkt, dir := .pop, cont := cont, want := n, num := min n c.cap, hit := min n c.cap,
                       rest := 0, i := 0 }

/-- enter `CachedPageAllocator::deallocate(pages, n)` with the pages already in `th.pages` -/
def startDealloc (c : Cfg) (s : State) (t : Tid) (th : Th) (cont : Cont) : State :=
  let n := th.pages.length
  let s1 := { s with counter := if c.count = CountMode.pre then s.counter - n else s.counter }
  s1.setTh t { th with pc := .tkt, dir := .push, cont := cont, want := n, num := min n c.cap, rest := 0, i := 0 }

/-- remove the tokens `ps` (one by one) from `held` -/
def takeMany : List Tok → List Tok → Option (List Tok)
  | held, [] => some held
  | held, p :: ps => if p ∈ held then takeMany (held.erase p) ps else none

/-! ### one step of thread `t`, one definition per program counter
`th` is `s.th t`; `tokIn` : the token named by the event line (upstream_alloc / create), `spur` : spurious
weak-CAS failure. -/

-- BatchPageAllocator::allocate(pages, n): n times allocate()
def stepBLoop (c : Cfg) (s : State) (t : Tid) (th : Th) : Option (State × Option Act) :=
  if th.need ≤ th.out.length then some (s.setTh t { th with pc := .retWait }, none)
  else match s.bufs[t]? with
    | some (p :: ps) => some ({ s with bufs := s.bufs.set t ps }.setTh t { th with out := th.out ++ [p] }, none)
    | some [] => some (startAlloc c s t th c.batch .refill, none)
    | none => none

-- pop_n / push_n (callback, reverse_callback, num): ticket
def stepTkt (c : Cfg) (s : State) (t : Tid) (th : Th) : Option (State × Option Act) :=
  let old := s.ctr th.dir
  let k := th.num
  let (n1, n2) := splitRing c.cap old k
  let o := match th.dir with | .pop => Gen.Pages.ordTicketPopN | .push => Gen.Pages.ordTicketPushN
  some ((s.setCtr th.dir (old + k)).setTh t (waitOrGo { th with idx := old, num := n1, rest := n2, i := 0 }),
        some (.rmw "add" (ctrLoc th.dir) 0 o old k))

-- deal_n_continuously(callback, reverse_callback, index, num): wait loop
def stepRdVer (c : Cfg) (s : State) (t : Tid) (th : Th) : Option (State × Option Act) :=
  let tk := th.idx + th.i
  match s.slots[tk % c.cap]? with
  | none => none
  | some sl =>
    if sl.ver = expVer c.cap tk th.dir then
      match acquire c s t tk th.dir with
      | none => none
      | some s1 => some (s1.setTh t (waitOrGo { th with i := th.i + 1 }), ldSlot (tk % c.cap) Gen.Pages.ordCompVer sl.ver)
    else some (s.setTh t { th with pc := .rdOpp }, ldSlot (tk % c.cap) Gen.Pages.ordCompVer sl.ver)

def stepRdOpp (c : Cfg) (s : State) (t : Tid) (th : Th) : Option (State × Option Act) :=
  let v := s.ctr th.dir.opp
  let needIdx := match th.dir with | .pop => v | .push => v + c.cap
  let o := match th.dir with | .pop => Gen.Pages.ordOppPop | .push => Gen.Pages.ordOppPush
  some (s.setTh t { th with pc := if needIdx ≤ th.idx + th.num then .cIdx else .rdVer },
        some (.ld (ctrLoc th.dir.opp) 0 o v))

-- try_push_n / try_pop_n <true,false>(reverse_callback, 1)
def stepCIdx (c : Cfg) (s : State) (t : Tid) (th : Th) : Option (State × Option Act) :=
  let v := s.ctr th.dir.opp
  let o := match th.dir with | .pop => Gen.Pages.ord_try_push_n_idx | .push => Gen.Pages.ord_try_pop_n_idx
  some (s.setTh t { th with pc := .cVer, j := v }, some (.ld (ctrLoc th.dir.opp) 0 o v))

def stepCVer (c : Cfg) (s : State) (t : Tid) (th : Th) : Option (State × Option Act) :=
  match s.slots[th.j % c.cap]? with
  | none => none
  | some sl =>
    some (s.setTh t { th with pc := if sl.ver = expVer c.cap th.j th.dir.opp then .cCas else .rdVer },
          ldSlot (th.j % c.cap) Gen.Pages.ordTryNVer sl.ver)

def stepCCas (c : Cfg) (s : State) (t : Tid) (th : Th) : Option (State × Option Act) :=
  let v := s.ctr th.dir.opp
  let lbl (ok : Bool) : Option Act :=
    some (.cas (ctrLoc th.dir.opp) 0 false Gen.Pages.ordTryNCas Gen.Pages.ordTryNCasFail th.j (th.j + 1) ok v)
  if v = th.j then
    match acquire c s t th.j th.dir.opp with
    | none => none
    | some s1 => some ((s1.setCtr th.dir.opp (th.j + 1)).setTh t { th with pc := .cAcq }, lbl true)
  else some (s.setTh t { th with pc := .rdVer }, lbl false)

def stepCAcq (c : Cfg) (s : State) (t : Tid) (th : Th) : Option (State × Option Act) :=
  some (s.setTh t { th with pc := .cCb }, some (.fence .acq))

def stepCCb (c : Cfg) (s : State) (t : Tid) (th : Th) (tokIn : Tok) : Option (State × Option Act) :=
  match th.dir with
  | .pop =>   -- reverse callback of allocate: *iter++ = _upstream->allocate()
    if isLive c s tokIn then none
    else some ({ s with obtained := s.obtained + 1 }.setTh t { th with pc := .cRel, carry := th.carry ++ [tokIn], hit := th.hit - 1 },
               evTok "up_alloc" tokIn)
  | .push =>  -- reverse callback of deallocate: _upstream->deallocate(*iter++)
    match takeVal c s t th.j .pop with
    | none => none
    | some (s1, p) => some ({ s1 with returned := s1.returned + 1 }.setTh t { th with pc := .cRel }, evTok "up_free" p)

def stepCRel (c : Cfg) (s : State) (t : Tid) (th : Th) : Option (State × Option Act) :=
  some (s.setTh t { th with pc := .cSt }, some (.fence .rel))

def stepCSt (c : Cfg) (s : State) (t : Tid) (th : Th) : Option (State × Option Act) :=
  match slotVer c s th.j with
  | none => none
  | some v =>
    match th.dir with
    | .pop =>
      match th.carry with
      | [p] =>
        match publish c s t th.j .push (some p) with
        | none => none
        | some s1 => some (s1.setTh t { th with pc := .rdVer, carry := [] }, stSlot (th.j % c.cap) Gen.Pages.ordTryNSetVer (v + 1))
      | _ => none
    | .push =>
      match publish c s t th.j .pop none with
      | none => none
      | some s1 => some (s1.setTh t { th with pc := .rdVer }, stSlot (th.j % c.cap) Gen.Pages.ordTryNSetVer (v + 1))

-- whole segment ready: fence, callback, fence, publish
def stepFAcq (c : Cfg) (s : State) (t : Tid) (th : Th) : Option (State × Option Act) :=
  some (s.setTh t (enterCb { th with i := 0 }), some (.fence .acq))

def stepFCb (c : Cfg) (s : State) (t : Tid) (th : Th) : Option (State × Option Act) :=
  match takeVal c s t (th.idx + th.i) .pop with
  | none => none
  | some (s1, p) => some (s1.setTh t (enterCb { th with i := th.i + 1, pages := th.pages ++ [p] }), none)

def stepFRel (c : Cfg) (s : State) (t : Tid) (th : Th) : Option (State × Option Act) :=
  (enterSt c s t { th with i := 0 }).map (·, some (.fence .rel))

def stepFSt (c : Cfg) (s : State) (t : Tid) (th : Th) : Option (State × Option Act) :=
  let tk := th.idx + th.i
  match slotVer c s tk with
  | none => none
  | some v =>
    match th.dir with
    | .pop =>
      match publish c s t tk .pop none with
      | none => none
      | some s1 => (enterSt c s1 t { th with i := th.i + 1 }).map (·, stSlot (tk % c.cap) Gen.Pages.ordCompSetVer (v + 1))
    | .push =>
      match th.pages with
      | [] => none
      | p :: ps =>
        match publish c s t tk .push (some p) with
        | none => none
        | some s1 => (enterSt c s1 t { th with i := th.i + 1, pages := ps }).map (·, stSlot (tk % c.cap) Gen.Pages.ordCompSetVer (v + 1))

-- num above the capacity: the rest goes straight to / comes straight from upstream
def stepRem (c : Cfg) (s : State) (t : Tid) (th : Th) (tokIn : Tok) : Option (State × Option Act) :=
  match th.dir with
  | .pop =>
    if isLive c s tokIn then none
    else (settle c { s with obtained := s.obtained + 1 } t { th with pages := th.pages ++ [tokIn] }).map (·, evTok "up_alloc" tokIn)
  | .push =>
    match th.pages with
    | [] => none
    | p :: ps => (settle c { s with returned := s.returned + 1 } t { th with pages := ps }).map (·, evTok "up_free" p)

-- ~CachedPageAllocator: try_pop_n<false,false>(cb, capacity())
def stepDIdx (c : Cfg) (s : State) (t : Tid) (th : Th) : Option (State × Option Act) :=
  let v := s.popIdx
  let (n1, n2) := splitRing c.cap v c.cap
  some (s.setTh t { th with pc := .dVer, j := v, num := n1, rest := n2, i := 0 }, some (.ld "popi" 0 Gen.Pages.ord_try_pop_n_idx v))

def stepDVer (c : Cfg) (s : State) (t : Tid) (th : Th) : Option (State × Option Act) :=
  let tk := th.j + th.i
  match s.slots[tk % c.cap]? with
  | none => none
  | some sl =>
    if sl.ver = expVer c.cap tk .pop then
      match acquire c s t tk .pop with
      | none => none
      | some s1 =>
        some (s1.setTh t { th with i := th.i + 1, pc := if th.i + 1 < th.num then .dVer else .dClaim },
              ldSlot (tk % c.cap) Gen.Pages.ordTryNVer sl.ver)
    else if th.i = 0 then some (s.setTh t { th with pc := .retWait }, ldSlot (tk % c.cap) Gen.Pages.ordTryNVer sl.ver)
    else some (s.setTh t { th with num := th.i, rest := 0, pc := .dClaim }, ldSlot (tk % c.cap) Gen.Pages.ordTryNVer sl.ver)

def stepDClaim (c : Cfg) (s : State) (t : Tid) (th : Th) : Option (State × Option Act) :=
  some ({ s with popIdx := th.j + th.num }.setTh t { th with pc := .dAcq }, some (.st "popi" 0 Gen.Pages.ordTryNStoreIdx (th.j + th.num)))

def stepDAcq (c : Cfg) (s : State) (t : Tid) (th : Th) : Option (State × Option Act) :=
  some (s.setTh t { th with pc := .dCb, i := 0 }, some (.fence .acq))

def stepDCb (c : Cfg) (s : State) (t : Tid) (th : Th) : Option (State × Option Act) :=
  match takeVal c s t (th.j + th.i) .pop with
  | none => none
  | some (s1, p) =>
    some ({ s1 with returned := s1.returned + 1 }.setTh t { th with i := th.i + 1, pc := if th.i + 1 < th.num then .dCb else .dRel },
          evTok "up_free" p)

def stepDRel (c : Cfg) (s : State) (t : Tid) (th : Th) : Option (State × Option Act) :=
  some (s.setTh t { th with pc := .dSt, i := 0 }, some (.fence .rel))

def stepDSt (c : Cfg) (s : State) (t : Tid) (th : Th) : Option (State × Option Act) :=
  let tk := th.j + th.i
  match slotVer c s tk with
  | none => none
  | some v =>
    match publish c s t tk .pop none with
    | none => none
    | some s1 =>
      let th1 := { th with i := th.i + 1 }
      let th2 := if th1.i < th.num then th1
                 else if th.rest > 0 then { th1 with j := th.j + th.num, num := th.rest, rest := 0, i := 0, pc := .dVer }
                 else { th1 with pc := .retWait }
      some (s1.setTh t th2, stSlot (tk % c.cap) Gen.Pages.ordTryNSetVer (v + 1))

-- ~BatchPageAllocator: every thread buffer goes back through _upstream->deallocate
def stepBdNext (c : Cfg) (s : State) (t : Tid) (th : Th) : Option (State × Option Act) :=
  match th.todo with
  | [] => some (s.setTh t { th with pc := .retWait }, none)
  | u :: us =>
    match s.bufs[u]? with
    | none => none
    | some [] => some (s.setTh t { th with todo := us }, none)
    | some (p :: ps) =>
      some (startDealloc c { s with bufs := s.bufs.set u [] } t { th with todo := us, pages := th.pages ++ p :: ps } .flush, none)

-- ObjectPool::push
def stepPRecycle (c : Cfg) (s : State) (t : Tid) (th : Th) : Option (State × Option Act) :=
  match th.pages with
  | [o] =>
    let s1 := { s with recLog := o :: s.recLog }
    match c.mode with
    | .poolAuto => some (s1.setTh t { th with pc := .gPop }, evTok "recycle" o)
    | _ => some (s1.setTh t { th with pc := .sTkt, dir := .push }, evTok "recycle" o)
  | _ => none

def stepGPop (c : Cfg) (s : State) (t : Tid) (th : Th) : Option (State × Option Act) :=
  some (s.setTh t { th with pc := .gPush, j := s.popIdx }, some (.ld "popi" 0 Gen.Pages.ordSizePop s.popIdx))

def stepGPush (c : Cfg) (s : State) (t : Tid) (th : Th) : Option (State × Option Act) :=
  let size := if s.pushIdx > th.j then s.pushIdx - th.j else 0
  if c.poolCap ≤ size then some (s.setTh t { th with pc := .pDestroy }, some (.ld "pushi" 0 Gen.Pages.ordSizePush s.pushIdx))
  else some (s.setTh t { th with pc := .tkt, dir := .push, cont := .top, want := 1, num := min 1 c.cap, rest := 0, i := 0 },
             some (.ld "pushi" 0 Gen.Pages.ordSizePush s.pushIdx))

def stepPDestroy (c : Cfg) (s : State) (t : Tid) (th : Th) : Option (State × Option Act) :=
  match th.pages with
  | [o] => some ({ s with returned := s.returned + 1 }.setTh t { th with pc := .retWait, pages := [] }, evTok "up_free" o)
  | _ => none

-- single push<true,false,true> / pop<true,true,false>
def stepSTkt (c : Cfg) (s : State) (t : Tid) (th : Th) : Option (State × Option Act) :=
  let old := s.ctr th.dir
  let o := match th.dir with | .pop => Gen.Pages.ordTicket1Pop | .push => Gen.Pages.ordTicket1Push
  some ((s.setCtr th.dir (old + 1)).setTh t { th with pc := .dlWait, idx := old }, some (.rmw "add" (ctrLoc th.dir) 0 o old 1))

def stepDlWait (c : Cfg) (s : State) (t : Tid) (th : Th) : Option (State × Option Act) :=
  match acquire c s t th.idx th.dir with
  | none => none
  | some s1 => some (s1.setTh t { th with pc := if th.dir = .pop then .dlCb else .dlPub }, none)

def stepDlCb (c : Cfg) (s : State) (t : Tid) (th : Th) : Option (State × Option Act) :=
  match takeVal c s t th.idx .pop with
  | none => none
  | some (s1, p) => some (s1.setTh t { th with pc := .dlPub, pages := th.pages ++ [p] }, none)

def stepDlPub (c : Cfg) (s : State) (t : Tid) (th : Th) : Option (State × Option Act) :=
  match slotVer c s th.idx with
  | none => none
  | some v =>
    match th.dir with
    | .pop =>
      match publish c s t th.idx .pop none with
      | none => none
      | some s1 => some (s1.setTh t { th with pc := .retWait }, stSlot (th.idx % c.cap) Gen.Pages.ordDealSetVer (v + 1))
    | .push =>
      match th.pages with
      | [o] =>
        match publish c s t th.idx .push (some o) with
        | none => none
        | some s1 =>
          some (s1.setTh t { th with pc := .retWait, pages := [] },
                some (.xchg "slot" (slotOff (th.idx % c.cap)) Gen.Pages.ordDealXchg (verWord v) (verWord (v + 1))))
      | _ => none

-- try_pop<true,false>
def stepSIdx (c : Cfg) (s : State) (t : Tid) (th : Th) : Option (State × Option Act) :=
  some (s.setTh t { th with pc := .sVer, j := s.popIdx }, some (.ld "popi" 0 Gen.Pages.ordTry1Idx s.popIdx))

def stepSVer (c : Cfg) (s : State) (t : Tid) (th : Th) : Option (State × Option Act) :=
  match s.slots[th.j % c.cap]? with
  | none => none
  | some sl =>
    some (s.setTh t { th with pc := if sl.ver = expVer c.cap th.j .pop then .sCas else .sIdx2 },
          ldSlot (th.j % c.cap) Gen.Pages.ordTry1Ver sl.ver)

def stepSIdx2 (c : Cfg) (s : State) (t : Tid) (th : Th) : Option (State × Option Act) :=
  let v := s.popIdx
  if v = th.j then some (s.setTh t { th with pc := .retWait }, some (.ld "popi" 0 Gen.Pages.ordTry1Idx2 v))
  else some (s.setTh t { th with pc := .sVer, j := v }, some (.ld "popi" 0 Gen.Pages.ordTry1Idx2 v))

def stepSCas (c : Cfg) (s : State) (t : Tid) (th : Th) (spur : Bool) : Option (State × Option Act) :=
  let v := s.popIdx
  let lbl (ok : Bool) : Option Act :=
    some (.cas "popi" 0 true Gen.Pages.ordTry1Cas Gen.Pages.ordTry1CasFail th.j (th.j + 1) ok v)
  if v = th.j ∧ spur = false then
    match acquire c s t th.j .pop with
    | none => none
    | some s1 => some ({ s1 with popIdx := th.j + 1 }.setTh t { th with pc := .sCb }, lbl true)
  else some (s.setTh t { th with pc := .sVer, j := v }, lbl false)

def stepSCb (c : Cfg) (s : State) (t : Tid) (th : Th) : Option (State × Option Act) :=
  match takeVal c s t th.j .pop with
  | none => none
  | some (s1, p) => some (s1.setTh t { th with pc := .sPub, pages := th.pages ++ [p] }, none)

def stepSPub (c : Cfg) (s : State) (t : Tid) (th : Th) : Option (State × Option Act) :=
  match slotVer c s th.j with
  | none => none
  | some v =>
    match publish c s t th.j .pop none with
    | none => none
    | some s1 => some (s1.setTh t { th with pc := .retWait }, stSlot (th.j % c.cap) Gen.Pages.ordTry1SetVer (v + 1))

def stepThread (c : Cfg) (s : State) (t : Tid) (tokIn : Tok) (spur : Bool) : Option (State × Option Act) :=
  let th := s.th t
  match th.pc with
  | .idle | .retWait => none
  | .bLoop => stepBLoop c s t th
  | .tkt => stepTkt c s t th
  | .rdVer => stepRdVer c s t th
  | .rdOpp => stepRdOpp c s t th
  | .cIdx => stepCIdx c s t th
  | .cVer => stepCVer c s t th
  | .cCas => stepCCas c s t th
  | .cAcq => stepCAcq c s t th
  | .cCb => stepCCb c s t th tokIn
  | .cRel => stepCRel c s t th
  | .cSt => stepCSt c s t th
  | .fAcq => stepFAcq c s t th
  | .fCb => stepFCb c s t th
  | .fRel => stepFRel c s t th
  | .fSt => stepFSt c s t th
  | .rem => stepRem c s t th tokIn
  | .dIdx => stepDIdx c s t th
  | .dVer => stepDVer c s t th
  | .dClaim => stepDClaim c s t th
  | .dAcq => stepDAcq c s t th
  | .dCb => stepDCb c s t th
  | .dRel => stepDRel c s t th
  | .dSt => stepDSt c s t th
  | .bdNext => stepBdNext c s t th
  | .pRecycle => stepPRecycle c s t th
  | .gPop => stepGPop c s t th
  | .gPush => stepGPush c s t th
  | .pDestroy => stepPDestroy c s t th
  | .sTkt => stepSTkt c s t th
  | .dlWait => stepDlWait c s t th
  | .dlCb => stepDlCb c s t th
  | .dlPub => stepDlPub c s t th
  | .sIdx => stepSIdx c s t th
  | .sVer => stepSVer c s t th
  | .sIdx2 => stepSIdx2 c s t th
  | .sCas => stepSCas c s t th spur
  | .sCb => stepSCb c s t th
  | .sPub => stepSPub c s t th

/-! ### calls and returns (harness events) -/
inductive Op
  | alloc (n : Nat)
  | dealloc (ps : List Tok)
  | dtor
  | bdtor (order : List Nat)
  | inject (o : Tok)         -- the client creates an object (strict pool); it is then pushed with `push`
  | pop | tryPop
  | push (o : Tok)
  deriving DecidableEq, Repr

def callOp (c : Cfg) (s : State) (t : Tid) (op : Op) : Option State :=
  let th := s.th t
  if th.pc ≠ .idle then none else
  match op with
  | .alloc n =>
    if c.mode ≠ Mode.pages then none
    else if c.batch > 0 then some (s.setTh t { th with kind := .alloc, pc := .bLoop, need := n })
    else some (startAlloc c s t { th with kind := .alloc } n .top)
  | .dealloc ps =>
    if c.mode ≠ Mode.pages then none else
    match takeMany s.held ps with
    | none => none
    | some h => some (startDealloc c { s with held := h } t { th with kind := .dealloc, pages := th.pages ++ ps } .top)
  | .dtor => if c.mode ≠ Mode.pages then none else some (s.setTh t { th with kind := .dtor, pc := .dIdx })
  | .bdtor order => if c.mode ≠ Mode.pages then none else some (s.setTh t { th with kind := .bdtor, pc := .bdNext, todo := order })
  | .inject o =>
    if c.mode = Mode.pages ∨ isLive c s o = true then none
    else some { s with held := s.held ++ [o], obtained := s.obtained + 1, injected := s.injected + 1 }
  | .pop =>
    match c.mode with
    | .poolAuto => some (startAlloc c s t { th with kind := .pop } 1 .top)
    | .poolStrict => some (s.setTh t { th with kind := .pop, pc := .sTkt, dir := .pop })
    | .pages => none
  | .tryPop =>
    match c.mode with
    | .pages => none
    | _ => some (s.setTh t { th with kind := .tryPop, pc := .sIdx, dir := .pop })
  | .push o =>
    match c.mode with
    | .pages => none
    | _ =>
      if o ∈ s.held then
        some ({ s with held := s.held.erase o, pushLog := o :: s.pushLog }.setTh t { th with kind := .push, pc := .pRecycle, pages := th.pages ++ [o] })
      else none

/-- the tokens a finished call hands to its caller: everything the thread still has in flight (for
`deallocate`, `push` and the destructors that is nothing, which the lock-step replay checks) -/
def Th.result (th : Th) : List Tok := th.pages ++ th.out ++ th.carry

/-- `ret` event: the result goes to the caller place -/
def retOp (c : Cfg) (s : State) (t : Tid) : Option State :=
  let th := s.th t
  if th.pc ≠ .retWait then none else
  some ({ s with held := s.held ++ th.result }.setTh t { th with pc := .idle, kind := .none, pages := [], out := [], carry := [] })

/-- The transition relation: a thread `t < nthreads` takes its next internal step, starts a call the
client contract allows (`callOp` checks it), or returns. -/
inductive Step (c : Cfg) : State → State → Prop
  | thread {s s' : State} (t : Tid) (tok : Tok) (spur : Bool) (l : Option Act) :
      t < c.nthreads → stepThread c s t tok spur = some (s', l) → Step c s s'
  | call {s s' : State} (t : Tid) (op : Op) : t < c.nthreads → callOp c s t op = some s' → Step c s s'
  | ret {s s' : State} (t : Tid) : t < c.nthreads → retOp c s t = some s' → Step c s s'

/-- all threads are outside the library -/
def Quiescent (c : Cfg) (s : State) : Prop := ∀ t, t < c.nthreads → (s.th t).pc = .idle

def quiescentB (c : Cfg) (s : State) : Bool := (List.range c.nthreads).all (fun t => (s.th t).pc == .idle)


/-- quiescent shape of the queue (the assumed C01 `bq_inv` at quiescence), executable form: checked by the
replay driver at every quiescent point; it is the hypothesis `QShape` of the destructor theorem -/
def qshapeB (c : Cfg) (s : State) : Bool :=
  decide (0 < c.cap) && decide (s.popIdx ≤ s.pushIdx) && decide (s.pushIdx ≤ s.popIdx + c.cap) && s.slots.length == c.cap &&
  (List.range c.cap).all (fun d =>
    let i := s.popIdx + d
    match s.slots[i % c.cap]? with
    | none => false
    | some sl =>
      sl.owner == none &&
      (if i < s.pushIdx then sl.ver == expVer c.cap i .pop && sl.val.isSome
       else sl.ver == expVer c.cap i .push && sl.val == none))

end Babylon.Pages
