/-
  Preservation of the per-thread invariant `TInv` by every step outside `clear()`.
-/
import Babylon.Topic.ExtStep

namespace Babylon.Topic
open Babylon.Core Babylon.Gen.Topic
set_option linter.unusedVariables false

/-- the program counter of a thread other than the actor is unchanged, except that a futex sleeper
may have been woken -/
theorem pc_other {c : Cfg} {s s' : State} {a : Nat} (M : Main s) (h : UStep c s s' a) (u : Nat) (hu : u ≠ a) :
    s'.pc u = s.pc u ∨ ∃ b e j, s.pc u = .kSleep b e j ∧ s'.pc u = .kWoke b e j := by
  cases h
  case wWake sv b pe e j hp =>
    simp only [upd_other _ _ hu, wakeAll]
    cases hpu : s.pc u <;> simp
    rename_i b' e' j'
    by_cases hj : j' = j
    · right; simp [hj]
    · left; simp [hj]
  case rNext hp => have := M.tinv a; rw [hp] at this; exact absurd this (by simp [TInv])
  all_goals (left; first | rfl | exact upd_other _ _ hu)

theorem tinv_other {c : Cfg} {s s' : State} {a : Nat} (M : Main s) (h : UStep c s s' a)
    (hk : s.clearing = false) (hk' : s'.clearing = false) (u : Nat) (hu : u ≠ a) : TInv s' u (s'.pc u) := by
  have x := ext_step M h hk hk' u hu
  have T := TInv_frame x (M.tinv u)
  rcases pc_other M h u hu with e | ⟨b, e, j, h1, h2⟩
  · rw [e]; exact T
  · rw [h2]; rw [h1] at T; exact T

theorem st_lt {sv : Nat} (h : sv = stPublished ∨ sv = stClosed) : sv < 65536 := by
  rcases h with h | h <;> subst h <;> decide

theorem WInv.sv {s : State} {t sv b pe e j : Nat} (h : WInv s t sv b pe e j) : sv = stPublished ∨ sv = stClosed := by
  rcases h.2.2.2.2.2.2 with h | h
  · exact Or.inl h.1
  · exact Or.inr h.1

/-- what `startPieces pe e` needs after a piece is finished -/
theorem tinv_startPieces {s : State} {t sv b pe e : Nat} (h : WInv s t sv b pe e pe) :
    TInv s t (startPieces pe e) := by
  unfold startPieces
  split
  · rename_i hlt
    obtain ⟨h1, h2, h3, h4, h5, h6, h7⟩ := h
    rcases h7 with ⟨a1, a2, a3, a4, a5, a6⟩ | ⟨a1, a2, a3, a4, a5⟩
    · exact ⟨a2, hlt, h3, fun i hb he => ⟨a3 i (by omega) he, (a6 i hb he).1, (a6 i hb he).2⟩⟩
    · omega
  · trivial

theorem tinv_nextWake {s : State} {t sv b pe e j : Nat} (h : WInv s t sv b pe e pe) (hb : b ≤ j) (hj : j < pe) :
    TInv s t (nextWake sv b pe e j) := by
  unfold nextWake
  split
  · exact ⟨h, by omega, by omega⟩
  · exact tinv_startPieces h

theorem tinv_kLoop {s : State} {t b e j : Nat} (hc : s.cur t = b) (hb : b ≤ j) (hj : j ≤ e) (he : e ≤ s.cap)
    (hall : ∀ i, b ≤ i → i < j → stOf s i = stPublished ∧ (s.hb.acqp t i = true ∨ s.hb.seen t i = true)) :
    TInv s t (kLoop b e j) := by
  unfold kLoop
  split
  · exact ⟨hc, hb, by omega, he, hall⟩
  · refine ⟨hc, by omega, fun i h1 h2 => hall i h1 (by omega), fun h => by omega⟩

theorem tinv_waitSlow {s : State} {t b e j v : Nat} (h : KInv s t b e j) (hv : status v = stInitial) :
    TInv s t (waitSlow b e j v) := by
  unfold waitSlow
  split
  · rename_i hle; exact ⟨h, hv, hle⟩
  · rename_i hle
    refine ⟨h, hv, ?_⟩
    rw [waiterUnit_eq]; rw [noWaiterMax_eq] at hle; omega

theorem ordPubFence_releases : ordPubFence.releases = true := by decide
theorem ordAcqFence_acquires : ordAcqFence.acquires = true := by decide

theorem tinv_actor {c : Cfg} (hbs : 0 < c.bs) {s s' : State} {a : Nat} (M : Main s) (h : UStep c s s' a)
    (hk : s.clearing = false) (hk' : s'.clearing = false) : TInv s' a (s'.pc a) := by
  have T := M.tinv a
  cases h with
  | pAdd _ n hp =>
    rw [hp] at T
    simp only [upd_same]
    unfold startPieces
    split
    · rename_i hlt
      refine ⟨T, hlt, reserveTo_ge_size hbs _ _, ?_⟩
      intro i hb he
      have hr : inRange s.next (s.next + n) i = true := by simp; omega
      obtain ⟨-, h2, h3⟩ := M.hi i hb
      refine ⟨by simp [hr], ?_, h2⟩
      rcases h3 with h3 | h3
      · exact h3
      · rw [T] at h3; cases h3.2.1
    · trivial
  | pFill _ b e vals hp hl =>
    rw [hp] at T
    obtain ⟨t1, t2, t3, t4⟩ := T
    simp only [upd_same]
    have hgt := pieceEnd_gt hbs t2
    have hle := pieceEnd_le c b e
    refine ⟨t1, hgt, hle, t3, fun i hb he => (t4 i hb he).1, ?_, ?_⟩
    · intro i hb hpe
      have hin : b ≤ i ∧ i < b + vals.length := by rw [hl]; omega
      refine ⟨(t4 i hb (by omega)).2.1, ?_, fillVals_in_eq _ _ _ _ hin, HB.fill_seen_in _ _ _ _ _ (by omega)⟩
      have : inRange b (pieceEnd c b e) i = true := by simp; omega
      simp [this]
    · intro i hpe he
      have : inRange b (pieceEnd c b e) i = false := by rw [inRange_false_iff]; omega
      exact ⟨(t4 i (by omega) he).2.1, by simp [this, (t4 i (by omega) he).2.2]⟩
  | pRel _ b pe e hp =>
    rw [hp] at T
    obtain ⟨t1, t2, t3, t4, t5, t6, t7⟩ := T
    simp only [upd_same]
    refine ⟨⟨t2, t3, t4, Nat.le_refl _, by omega, fun i h1 h2 => by omega, Or.inl ⟨rfl, t1, t5, ?_, ?_, t7⟩⟩, t2⟩
    · intro i hb hpe
      exact ⟨(t6 i hb hpe).1, (t6 i hb hpe).2.1, (t6 i hb hpe).2.2.1⟩
    · intro i hb hpe
      have hs := (t6 i hb hpe).2.2.2
      exact ⟨HB.fence_releases _ _ _ ordPubFence_releases _ hs, HB.fence_seen_mono _ _ _ _ _ hs⟩
  | wSt _ sv b pe e j hp =>
    rw [hp] at T
    obtain ⟨W, w8⟩ := T
    have hsv := st_lt W.sv
    obtain ⟨w1, w2, w3, w4, w5, w6, w7⟩ := W
    simp only [upd_same]
    -- the new state's WInv with `j + 1` stored slots
    have W' : WInv { s with word := upd s.word j (store16 (s.word j) sv), hb := s.hb.store a j (storeOrd sv),
                            pc := upd s.pc a (nextStore sv b pe e j) } a sv b pe e (j + 1) := by
      refine ⟨w1, w2, w3, by omega, by omega, ?_, ?_⟩
      · intro i hb hj
        by_cases hij : i = j
        · subst hij; simp only [stOf, upd_same]; exact status_store16 _ _ hsv
        · simp only [stOf, upd_other _ _ hij]; exact w6 i hb (by omega)
      · rcases w7 with ⟨a1, a2, a3, a4, a5, a6⟩ | ⟨a1, a2, a3, a4, a5⟩
        · left
          refine ⟨a1, a2, a3, ?_, a5, ?_⟩
          · intro i hj hpe
            have hij : i ≠ j := by omega
            simp only [stOf, upd_other _ _ hij]
            exact a4 i (by omega) hpe
          · intro i hpe he
            have hij : i ≠ j := by omega
            simp only [stOf, upd_other _ _ hij]
            exact a6 i hpe he
        · right; exact ⟨a1, a2, a3, a4, a5⟩
    unfold nextStore
    split
    · rename_i hlt; exact ⟨W', hlt⟩
    · rename_i hge
      have : j + 1 = pe := by omega
      rw [this] at W'; exact W'
  | wSc _ sv b pe e hp =>
    rw [hp] at T
    simp only [upd_same]
    have x : Ext s _ a (s.pc a) := Ext.fence_self a (scOrd sv) (upd s.pc a (.wLd sv b pe e b)) (M.relsub a)
    have W := WInv_frame x (fun h' => by rw [hp]; subst h'; exact pub_ne) T
    exact ⟨W, Nat.le_refl _, W.1⟩
  | wLd _ sv b pe e j hp =>
    rw [hp] at T
    obtain ⟨W, t2, t3⟩ := T
    simp only [upd_same]
    have x : Ext s _ a (s.pc a) := Ext.load a j ordWakeLoad (upd s.pc a (if s.word j ≤ noWaiterMax then nextWake sv b pe e j else .wCas sv b pe e j (s.word j)))
    have W' := WInv_frame x (fun h' => by rw [hp]; subst h'; exact pub_ne) W
    split
    · exact tinv_nextWake W' t2 t3
    · exact ⟨W', t2, t3, W.2.2.2.2.2.1 j t2 t3⟩
  | wCasOk _ sv b pe e j v hp hv =>
    rw [hp] at T
    obtain ⟨W, t2, t3, t4⟩ := T
    simp only [upd_same]
    have x : Ext s { s with word := upd s.word j (status v), hb := s.hb.rmw a j ordWakeCasSucc,
                            pc := upd s.pc a (.wWake sv b pe e j) } a (s.pc a) :=
      Ext.of_word_same_status j (status v) rfl (by rw [status_status, ← hv]; rfl) rfl rfl rfl rfl (Nat.le_refl _) rfl rfl rfl
        (fun i h => HB.rmw_acqp_mono s.hb a j _ a i h) (fun i h => HB.rmw_seen_mono s.hb a j _ a i h)
        (fun i h => by rw [HB.rmw_relv]; exact h)
    exact ⟨WInv_frame x (fun h' => by rw [hp]; subst h'; exact pub_ne) W, t2, t3⟩
  | wCasFail _ sv b pe e j v hp =>
    rw [hp] at T
    obtain ⟨W, t2, t3, t4⟩ := T
    simp only [upd_same]
    have x : Ext s _ a (s.pc a) := Ext.load a j ordWakeCasFail (upd s.pc a (.wWake sv b pe e j))
    exact ⟨WInv_frame x (fun h' => by rw [hp]; subst h'; exact pub_ne) W, t2, t3⟩
  | wWake _ sv b pe e j hp =>
    rw [hp] at T
    obtain ⟨W, t2, t3⟩ := T
    simp only [upd_same]
    have x : Ext s _ a (s.pc a) := Ext.pcOnly (upd (wakeAll s.pc j) a (nextWake sv b pe e j))
    exact tinv_nextWake (WInv_frame x (fun h' => by rw [hp]; subst h'; exact pub_ne) W) t2 t3
  | cLd _ hp =>
    rw [hp] at T
    simp only [upd_same]
    refine ⟨⟨by omega, Nat.le_refl _, ensureTo_gt_idx hbs _ _, Nat.le_refl _, by omega, fun i h1 h2 => by omega,
      Or.inr ⟨rfl, T, rfl, rfl, rfl⟩⟩, by omega⟩
  | kClosed _ b e j hp =>
    rw [hp] at T
    simp only [upd_same]
    have x : Ext s _ a (s.pc a) := Ext.load a j ordIsClosed (upd s.pc a (if status (s.word j) = stClosed then .kAcq b e (j - b) else .kPub b e j))
    have K := KInv_frame x T
    split
    · rename_i hc
      obtain ⟨k1, k2, k3, k4, k5⟩ := K
      refine ⟨k1, by omega, fun i h1 h2 => k5 i h1 (by omega), fun _ => ?_⟩
      have : b + (j - b) = j := by omega
      rw [this]; exact hc
    · exact K
  | kPub _ b e j hp =>
    rw [hp] at T
    simp only [upd_same]
    have x : Ext s { s with hb := s.hb.load a j ordIsPublished, pc := upd s.pc a (if status (s.word j) = stPublished then kLoop b e (j + 1) else .kWait b e j) } a (s.pc a) :=
      Ext.load a j ordIsPublished _
    have K := KInv_frame x T
    split
    · rename_i hpb
      obtain ⟨k1, k2, k3, k4, k5⟩ := K
      refine tinv_kLoop k1 (by omega) (by omega) k4 ?_
      intro i h1 h2
      by_cases hij : i = j
      · subst hij
        exact ⟨hpb, HB.load_gets s.hb a i ordIsPublished i (M.pub i hpb).2.2.1⟩
      · exact k5 i h1 (by omega)
    · exact K
  | kWait _ b e j hp =>
    rw [hp] at T
    simp only [upd_same]
    have x : Ext s { s with hb := s.hb.load a j ordWaitLoad, pc := upd s.pc a (if status (s.word j) ≠ stInitial then kLoop b e j else waitSlow b e j (s.word j)) } a (s.pc a) :=
      Ext.load a j ordWaitLoad _
    have K := KInv_frame x T
    split
    · exact tinv_kLoop K.1 K.2.1 (by have := K.2.2.1; omega) K.2.2.2.1 K.2.2.2.2
    · rename_i hz
      exact tinv_waitSlow K (by simpa using hz)
  | kCasOk _ b e j v hp hv =>
    rw [hp] at T
    obtain ⟨K, t2, t3⟩ := T
    simp only [upd_same]
    have x : Ext s { s with word := upd s.word j (v + waiterUnit), hb := s.hb.rmw a j ordWaitCasSucc,
                            pc := upd s.pc a (.kFwait b e j (v + waiterUnit)) } a (s.pc a) :=
      Ext.of_word_same_status j (v + waiterUnit) rfl (by rw [status_add_unit, ← hv]; rfl) rfl rfl rfl rfl (Nat.le_refl _) rfl rfl rfl
        (fun i h => HB.rmw_acqp_mono s.hb a j _ a i h) (fun i h => HB.rmw_seen_mono s.hb a j _ a i h)
        (fun i h => by rw [HB.rmw_relv]; exact h)
    exact ⟨KInv_frame x K, by rw [status_add_unit]; exact t2, by omega⟩
  | kCasFail _ b e j v hp =>
    rw [hp] at T
    simp only [upd_same]
    have x : Ext s _ a (s.pc a) := Ext.load a j ordWaitCasFail (upd s.pc a (.kReload b e j))
    exact KInv_frame x T.1
  | kFwaitSleep _ b e j v hp hv =>
    rw [hp] at T
    simp only [upd_same]
    have x : Ext s _ a (s.pc a) := Ext.pcOnly (upd s.pc a (.kSleep b e j))
    exact KInv_frame x T.1
  | kFwaitAgain _ b e j v hp hv =>
    rw [hp] at T
    simp only [upd_same]
    have x : Ext s _ a (s.pc a) := Ext.pcOnly (upd s.pc a (.kReload b e j))
    exact KInv_frame x T.1
  | kWoke _ b e j hp =>
    rw [hp] at T
    simp only [upd_same]
    have x : Ext s _ a (s.pc a) := Ext.pcOnly (upd s.pc a (.kReload b e j))
    exact KInv_frame x T
  | kReload _ b e j hp =>
    rw [hp] at T
    simp only [upd_same]
    have x : Ext s { s with hb := s.hb.load a j ordWaitReload, pc := upd s.pc a (if status (s.word j) = stInitial then waitSlow b e j (s.word j) else kLoop b e j) } a (s.pc a) :=
      Ext.load a j ordWaitReload _
    have K := KInv_frame x T
    split
    · rename_i hz; exact tinv_waitSlow K hz
    · exact tinv_kLoop K.1 K.2.1 (by have := K.2.2.1; omega) K.2.2.2.1 K.2.2.2.2
  | kAcq _ b e m hp =>
    rw [hp] at T
    obtain ⟨t1, t2, t3, t4⟩ := T
    simp only [upd_same]
    exact ⟨upd_same _ _ _, t2, t4⟩
  | rSt _ j hp => rw [hp] at T; exact absurd T (by simp [TInv])
  | rNext _ hp => rw [hp] at T; exact absurd T (by simp [TInv])
  | publish _ n hp hc hkk => simp only [upd_same]; exact hc
  | close _ hp hkk hq => simp only [upd_same]; trivial
  | consume _ n hp hkk =>
    simp only [upd_same]
    exact tinv_kLoop rfl (Nat.le_refl _) (by omega) (reserveTo_ge_size hbs _ _) (fun i h1 h2 => by omega)
  | subscribe _ hp hkk => rw [hp]; trivial
  | ret _ b e m hp => simp only [upd_same]; trivial
  | clear _ hkk hq => cases hk'
  | spuriousWake _ b e j hp =>
    rw [hp] at T
    simp only [upd_same]
    have x : Ext s _ a (s.pc a) := Ext.pcOnly (upd s.pc a (.kWoke b e j))
    exact KInv_frame x T

theorem tinv_step {c : Cfg} (hbs : 0 < c.bs) {s s' : State} {a : Nat} (M : Main s) (h : UStep c s s' a)
    (hk : s.clearing = false) (hk' : s'.clearing = false) (u : Nat) : TInv s' u (s'.pc u) := by
  by_cases hu : u = a
  · subst hu; exact tinv_actor hbs M h hk hk'
  · exact tinv_other M h hk hk' u hu

end Babylon.Topic
