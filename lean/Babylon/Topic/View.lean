/-
  The two synchronisation cores of the transient topic over the release/acquire VIEW memory model
  of Babylon/Core/MemView.lean (stale reads allowed), with the memory orders taken from the
  generated constants of Babylon.Gen.Topic.

  (1) Item publication.  publisher: plain item write(s); `atomic_thread_fence(ordPubFence)`;
      `status.store(PUBLISHED, ordStatusStore)`.  consumer: `status.load(ordIsPublished)` observing
      that store; `atomic_thread_fence(ordAcqFence)`; plain item read.  `mp_fences_ord` is the generic
      lemma (any releasing fence / any acquiring fence, any store / load order, arbitrary steps of
      anybody in between), `topic_publication_view` the instance: in EVERY view-model execution the
      consumer's item read cannot return a message older than the publisher's item write, and
      returns exactly the published value when the item cell was written once.

  (2) Waiter / waker handshake (`topic_wake_view`).  What the code does:
        waker  (publish_n / close):  status.store(st, relaxed) [16 bit] ; fence(seq_cst) ;
                                     word.load(relaxed) [32 bit] -> wake iff waiter bit seen
        waiter (wait_until_ready_slow): word.compare_exchange_weak(.., +waiter bit, relaxed) [32 bit] ;
                                     futex_wait(word, expected)  -- the KERNEL re-reads the word
      There is NO seq_cst fence on the waiter side in user code: the order between the waiter's
      RMW and the re-read of the status is supplied by futex_wait itself (Linux: the hash-bucket
      lock and the full barrier documented as "(A)" in kernel/futex/core.c).  This is modelled here
      as `fence(seq_cst)` followed by the load, and is part of the trusted kernel-futex contract.
      The two halves of the mixed-size futex word are modelled as TWO locations `st` / `wt`: this
      forgets that they share one coherence order (it only ADDS behaviours — it is how a mixed-size
      hardware model such as ARMv8's sees a 16-bit store followed by a 32-bit load), so the theorems
      below are sound for the real word.  (With the word as ONE location the handshake needs no
      fence at all — the CAS reads the latest message and the waker's load is coherence-ordered
      after its own store — which is exactly why VRT's whole-cell view mode cannot see the dropped
      fence.)  Under the two-location reading the fence is necessary: negative controls below.
-/
import Babylon.Core.MemView
import Babylon.Gen.Topic

namespace Babylon.Topic.View
open Babylon.Core Babylon.Core.MemView Babylon.Gen.Topic

variable {L : Type} [DecidableEq L]

/-! ### generic lemmas (any order with the needed strength) -/

/-- a releasing fence snapshots the thread's current view into its release view -/
theorem fence_releases_rel (m : Mem L) (t : Nat) (o : Core.Ord) (h : o.releases = true) :
    (m.tv t).cur ≤ ((m.fence t o).tv t).rel := by
  cases o <;> simp [Core.Ord.releases] at h
  · simp [Mem.fence]; exact View.le_refl _
  · simp [Mem.fence]; exact View.le_join_left _ _
  · simp [Mem.fence]; exact View.le_trans (View.le_join_left _ _) (View.le_join_left _ _)

/-- an acquiring fence turns the pending (acquire) view into the current view -/
theorem fence_acquires_cur (m : Mem L) (t : Nat) (o : Core.Ord) (h : o.acquires = true) :
    (m.tv t).acq ≤ ((m.fence t o).tv t).cur := by
  cases o <;> simp [Core.Ord.acquires] at h
  · simp [Mem.fence]; exact View.le_join_right _ _
  · simp [Mem.fence]; exact View.le_join_right _ _
  · simp [Mem.fence]; exact View.le_trans (View.le_join_right _ _) (View.le_join_left _ _)

/-- Message passing through fences, for every fence order with the needed strength and every store /
load order: thread `a` fences (`orf` releasing) and stores `v` to `l`; after arbitrary steps thread `b`
loads that message (with any order), and after arbitrary further steps fences (`oaf` acquiring): then
`b`'s current view includes everything `a` had seen or done before its fence. -/
theorem mp_fences_ord (m : Mem L) (a b : Nat) (l : L) (orf os ol oaf : Core.Ord) (v : Nat)
    (hrel : orf.releases = true) (hacq : oaf.acquires = true)
    {m2 m3 m4 : Mem L} {v' : Nat}
    (hext : ((m.fence a orf).write a l os v).Ext m2) (h : m2.read b l ol (m.len l) = some (m3, v'))
    (hext2 : m3.Ext m4) :
    v' = v ∧ (m.tv a).cur ≤ ((m4.fence b oaf).tv b).cur := by
  have hlen : (m.fence a orf).len l = m.len l := by simp
  have hcur : (m.tv a).cur ≤ ((m.fence a orf).tv a).cur := (Mem.fence_ext m a orf).cur a
  have hW : (m.tv a).cur ≤ ((((m.fence a orf).tv a)).wrote l (m.len l)).relView l (m.len l) os := by
    unfold TView.relView
    split
    · simp only [TView.wrote]; exact View.le_trans hcur (View.le_bump _ _ _)
    · simp only [TView.wrote]; exact View.le_trans (fence_releases_rel m a orf hrel) (View.le_bump _ _ _)
  have hmsg : (((m.fence a orf).write a l os v).hist l)[m.len l]? =
      some ⟨v, ((((m.fence a orf).tv a)).wrote l (m.len l)).relView l (m.len l) os⟩ := by
    rw [Mem.write_hist_same, hlen]; simp [Mem.len]
  generalize ((((m.fence a orf).tv a)).wrote l (m.len l)).relView l (m.len l) os = W at hW hmsg
  have hmsg2 := hext.get? l _ _ hmsg
  obtain ⟨msg, hm, hv, _, rfl⟩ := Mem.read_spec h
  rw [hmsg2] at hm
  cases hm
  refine ⟨hv, ?_⟩
  have h2 := hext2.acq b
  simp only [upd_same] at h2
  have h1 := TView.read_acq_view (m2.tv b) (⟨v, W⟩ : Msg L) l (m.len l) ol
  exact View.le_trans hW (View.le_trans h1 (View.le_trans h2 (fence_acquires_cur m4 b oaf hacq)))

/-! ### release sequences: the futex word is also written by RMWs (waiter-bit CAS of consumers, the
waker's clearing CAS) after the status store; a consumer whose load returns one of THOSE messages
must still learn the publication -/

/-- every message of `l` from timestamp `ts0` on carries at least the view `W` -/
def RelSeq (m : Mem L) (l : L) (ts0 : Nat) (W : View L) : Prop :=
  ∀ ts msg, ts0 ≤ ts → (m.hist l)[ts]? = some msg → W ≤ msg.view

/-- the status store after a releasing fence starts a release sequence carrying the publisher's view -/
theorem relseq_store (m : Mem L) (a : Nat) (l : L) (orf os : Core.Ord) (v : Nat) (hrel : orf.releases = true) :
    RelSeq ((m.fence a orf).write a l os v) l (m.len l) (m.tv a).cur := by
  intro ts msg hts hm
  have hlen : (m.fence a orf).len l = m.len l := by simp
  have hcur : (m.tv a).cur ≤ ((m.fence a orf).tv a).cur := (Mem.fence_ext m a orf).cur a
  have hW : (m.tv a).cur ≤ ((((m.fence a orf).tv a)).wrote l (m.len l)).relView l (m.len l) os := by
    unfold TView.relView
    split
    · simp only [TView.wrote]; exact View.le_trans hcur (View.le_bump _ _ _)
    · simp only [TView.wrote]; exact View.le_trans (fence_releases_rel m a orf hrel) (View.le_bump _ _ _)
  rw [Mem.write_hist_same, hlen] at hm
  generalize ((((m.fence a orf).tv a)).wrote l (m.len l)).relView l (m.len l) os = W0 at hW hm
  simp only [Mem.fence_hist] at hm
  by_cases he : ts = (m.hist l).length
  · subst he
    simp at hm
    subst hm
    exact hW
  · have : (m.hist l ++ [(⟨v, W0⟩ : Msg L)]).length ≤ ts := by
      simp only [List.length_append, List.length_singleton, Mem.len] at hts ⊢; omega
    rw [List.getElem?_eq_none this] at hm; cases hm

/-- an RMW of any order by any thread continues the release sequence -/
theorem relseq_rmw {m m' : Mem L} {l : L} {ts0 : Nat} {W : View L} {t : Nat} {o : Core.Ord} {f : Nat → Nat} {old : Nat}
    (R : RelSeq m l ts0 W) (hlt : ts0 < m.len l) (h : m.rmw t l o f = some (m', old)) : RelSeq m' l ts0 W := by
  obtain ⟨msg, W', hlast, _, hh, _, _, hmW, _⟩ := Mem.rmw_facts h
  intro ts mg hts hm
  rw [hh] at hm
  by_cases hin : ts < (m.hist l).length
  · rw [List.getElem?_append_left hin] at hm
    exact R ts mg hts hm
  · have hl : (m.hist l)[m.len l - 1]? = some msg := getLast?_getElem? _ _ hlast
    have hWm : W ≤ msg.view := R (m.len l - 1) msg (by omega) hl
    by_cases he : ts = (m.hist l).length
    · subst he
      simp at hm
      subst hm
      exact View.le_trans hWm hmW
    · rw [List.getElem?_eq_none (by simp; omega)] at hm; cases hm

/-- steps that do not write `l` keep the release sequence -/
theorem relseq_hist_eq {m m' : Mem L} {l : L} {ts0 : Nat} {W : View L} (R : RelSeq m l ts0 W)
    (h : m'.hist l = m.hist l) : RelSeq m' l ts0 W := by
  intro ts mg hts hm; rw [h] at hm; exact R ts mg hts hm

/-- a load of ANY message of the release sequence, followed (after arbitrary steps) by an acquiring
fence, puts the sequence's view into the reader's current view -/
theorem mp_relseq {m m' m4 : Mem L} {l : L} {ts0 ts : Nat} {W : View L} {b : Nat} {ol oaf : Core.Ord} {v : Nat}
    (R : RelSeq m l ts0 W) (hts : ts0 ≤ ts) (h : m.read b l ol ts = some (m', v)) (hext : m'.Ext m4)
    (hacq : oaf.acquires = true) : W ≤ ((m4.fence b oaf).tv b).cur := by
  obtain ⟨msg, hm, _, _, rfl⟩ := Mem.read_spec h
  have h1 := TView.read_acq_view (m.tv b) msg l ts ol
  have h2 := hext.acq b
  simp only [upd_same] at h2
  exact View.le_trans (R ts msg hts hm) (View.le_trans h1 (View.le_trans h2 (fence_acquires_cur m4 b oaf hacq)))

/-! ### (1) item publication -/

theorem ordPubFence_releases : ordPubFence.releases = true := by decide
theorem ordAcqFence_acquires : ordAcqFence.acquires = true := by decide

/-- **Item publication in the view model.**  The publisher `p` writes the item cell `li` (a plain
write: relaxed, no view attached), executes `atomic_thread_fence(ordPubFence)` and stores PUBLISHED
into the status cell `ls` with `ordStatusStore`.  After arbitrary steps of anybody the consumer `c`
loads that status message with `ordIsPublished`, after arbitrary steps executes
`atomic_thread_fence(ordAcqFence)`, and after arbitrary steps reads the item cell with any order at
any admissible timestamp `ts`.  Then the status read returned PUBLISHED, `ts` is not older than the
publisher's item write — a stale item read is not a behaviour — and if nobody wrote the item cell
again (the slot is filled once per generation: `topic_slots_disjoint`) the value read is the
published one.  Several item words: apply the theorem to each cell. -/
theorem topic_publication_view (m : Mem L) (p c : Nat) (li ls : L) (hne : li ≠ ls) (item : Nat) (o : Core.Ord)
    {m3 m4 m5 m7 m8 : Mem L} {s x ts : Nat}
    (hext : (((m.write p li .rlx item).fence p ordPubFence).write p ls ordStatusStore stPublished).Ext m3)
    (hst : m3.read c ls ordIsPublished (m.len ls) = some (m4, s))
    (hext2 : m4.Ext m5)
    (hext3 : (m5.fence c ordAcqFence).Ext m7)
    (hrd : m7.read c li o ts = some (m8, x)) :
    s = stPublished ∧ m.len li ≤ ts ∧ (m7.len li = m.len li + 1 → x = item) := by
  have hlen : (m.write p li .rlx item).len ls = m.len ls := Mem.write_len_other m p li .rlx item ls (Ne.symm hne)
  rw [← hlen] at hst
  obtain ⟨hs, hv⟩ := mp_fences_ord (m.write p li .rlx item) p c ls ordPubFence ordStatusStore ordIsPublished
    ordAcqFence stPublished ordPubFence_releases ordAcqFence_acquires hext hst hext2
  -- the publisher's view after the item write points at that write
  have h0 : m.len li ≤ ((m.write p li .rlx item).tv p).cur.get li := by
    simp [TView.wrote]; omega
  have h1 := hv li
  have h2 := hext3.cur c li
  have h3 := read_respects_view hrd
  have hts : m.len li ≤ ts := by omega
  refine ⟨hs, hts, fun hone => ?_⟩
  -- the item cell's history in `m7` is the old one plus the publisher's message
  have e1 : ((m.write p li .rlx item).hist li)[m.len li]? =
      some ⟨item, (((m.tv p).wrote li (m.len li)).relView li (m.len li) .rlx)⟩ := by
    rw [Mem.write_hist_same]; simp [Mem.len]
  have x1 : (m.write p li .rlx item).Ext ((m.write p li .rlx item).fence p ordPubFence) := Mem.fence_ext _ _ _
  have x2 := Mem.write_ext ((m.write p li .rlx item).fence p ordPubFence) p ls ordStatusStore stPublished
  have x3 := Mem.read_ext hst
  have x4 := Mem.fence_ext m5 c ordAcqFence
  have xall : (m.write p li .rlx item).Ext m7 :=
    (((((x1.trans x2).trans hext).trans x3).trans hext2).trans x4).trans hext3
  have e7 := xall.get? li _ _ e1
  obtain ⟨msg, hm, hx, _, _⟩ := Mem.read_spec hrd
  have hlt := Mem.read_ts_lt hrd
  have : ts = m.len li := by omega
  subst this
  rw [e7] at hm
  cases hm
  exact hx

/-- The same through the release sequence: the consumer's status load may return ANY later message
of the word's release sequence (the word is only modified by RMWs after the status store — waiter-bit
CAS, waker's clearing CAS — see `relseq_store`, `relseq_rmw`, `relseq_hist_eq` for establishing
`RelSeq` along an execution): its later item read still cannot be older than the item write. -/
theorem topic_publication_view_seq (m : Mem L) (p c : Nat) (li ls : L) (item : Nat) (o : Core.Ord)
    {m3 m4 m5 m7 m8 : Mem L} {s x ts tsS : Nat}
    (R : RelSeq m3 ls (m.len ls) ((m.write p li .rlx item).tv p).cur) (htsS : m.len ls ≤ tsS)
    (hst : m3.read c ls ordIsPublished tsS = some (m4, s))
    (hext2 : m4.Ext m5)
    (hext3 : (m5.fence c ordAcqFence).Ext m7)
    (hrd : m7.read c li o ts = some (m8, x)) : m.len li ≤ ts := by
  have hv := mp_relseq R htsS hst hext2 ordAcqFence_acquires
  have h0 : m.len li ≤ ((m.write p li .rlx item).tv p).cur.get li := by
    simp [TView.wrote]; omega
  have h1 := hv li
  have h2 := hext3.cur c li
  have h3 := read_respects_view hrd
  omega

/-- the release sequence exists right after the publisher's status store -/
theorem topic_publication_relseq (m : Mem L) (p : Nat) (li ls : L) (hne : li ≠ ls) (item : Nat) :
    RelSeq (((m.write p li .rlx item).fence p ordPubFence).write p ls ordStatusStore stPublished) ls (m.len ls)
      ((m.write p li .rlx item).tv p).cur := by
  have hlen : (m.write p li .rlx item).len ls = m.len ls := Mem.write_len_other m p li .rlx item ls (Ne.symm hne)
  rw [← hlen]
  exact relseq_store _ p ls ordPubFence ordStatusStore stPublished ordPubFence_releases

/-! ### (2) waiter / waker handshake -/

theorem ordPubScFence_sc : ordPubScFence = .sc := by decide
theorem ordCloseScFence_sc : ordCloseScFence = .sc := by decide

/-- **`topic_wake_view`, waker's fence first.**  The waker `p` stores the status (`ordStatusStore`) and
executes its `seq_cst` fence (`ordPubScFence`).  Whenever afterwards — arbitrary steps in between —
a waiter `c` passes the full barrier of `futex_wait` and the kernel's value check loads the status
cell, that load cannot return a message older than the waker's status store: the waiter does not go
to sleep on a stale INITIAL. -/
theorem topic_wake_view_waker_first (m : Mem L) (p c : Nat) (st : L) (sv : Nat) (o : Core.Ord)
    {m2 m3 m4 : Mem L} {ts v : Nat}
    (hext : ((m.write p st ordStatusStore sv).fence p ordPubScFence).Ext m2)
    (hext2 : (m2.fence c .sc).Ext m3)
    (hrd : m3.read c st o ts = some (m4, v)) : m.len st ≤ ts := by
  rw [ordPubScFence_sc] at hext
  have h := sc_fence_dekker_read (m.write p st ordStatusStore sv) p c st o ts v hext hext2 hrd
  have h0 : m.len st ≤ ((m.write p st ordStatusStore sv).tv p).cur.get st := by simp [TView.wrote]; omega
  omega

/-- **`topic_wake_view`, waiter's barrier first.**  The waiter `c` sets the waiter bit by an RMW of any
order (`ordWaitCasSucc` in the code) and passes the full barrier of `futex_wait`.  Whenever
afterwards — arbitrary steps in between, among them the waker's status store — a waker `p` executes
its `seq_cst` fence (`ordPubScFence`) and then loads the waiter cell with `ordWakeLoad`, that load
cannot return a message older than the waiter's RMW: the waker sees the waiter bit and calls
futex-wake.  Together with `topic_wake_view_waker_first` (one of the two `seq_cst` fences comes first
in every execution): at least one side sees the other — no lost wake-up. -/
theorem topic_wake_view_waiter_first (m : Mem L) (p c : Nat) (wt : L) (f : Nat → Nat)
    {m1 m2 m3 m4 : Mem L} {old ts v : Nat}
    (hrmw : m.rmw c wt ordWaitCasSucc f = some (m1, old))
    (hext : (m1.fence c .sc).Ext m2)
    (hext2 : (m2.fence p ordPubScFence).Ext m3)
    (hrd : m3.read p wt ordWakeLoad ts = some (m4, v)) : m.len wt ≤ ts := by
  rw [ordPubScFence_sc] at hext2
  have h := sc_fence_dekker_read m1 c p wt ordWakeLoad ts v hext hext2 hrd
  obtain ⟨_, _, _, _, _, _, _, _, _, _, _, hts, _⟩ := Mem.rmw_facts hrmw
  omega

/-- the same two statements for `close()` (its fence is `ordCloseScFence`) -/
theorem topic_wake_view_close (m : Mem L) (p c : Nat) (st : L) (o : Core.Ord)
    {m2 m3 m4 : Mem L} {ts v : Nat}
    (hext : ((m.write p st ordClosedStore stClosed).fence p ordCloseScFence).Ext m2)
    (hext2 : (m2.fence c .sc).Ext m3)
    (hrd : m3.read c st o ts = some (m4, v)) : m.len st ≤ ts := by
  rw [ordCloseScFence_sc] at hext
  have h := sc_fence_dekker_read (m.write p st ordClosedStore stClosed) p c st o ts v hext hext2 hrd
  have h0 : m.len st ≤ ((m.write p st ordClosedStore stClosed).tv p).cur.get st := by simp [TView.wrote]; omega
  omega

/-! ### litmus tests: exhaustive positive results and negative controls (all by `decide`) -/

inductive Loc | item | st | wt
  deriving DecidableEq, Repr

def mem0 : Mem Loc := Mem.init (fun _ => 0)

/-- message passing: publisher writes item 7, fences with `orf`, stores PUBLISHED; the consumer reads
the status at timestamp `tsS`, fences with `oaf`, reads the item at timestamp `tsI`.
Result: `status * 100 + item` read, `none` if some read is not admissible. -/
def mpRun (orf oaf : Core.Ord) (tsS tsI : Nat) : Option Nat :=
  let m1 := mem0.write 0 .item .rlx 7
  let m2 := (m1.fence 0 orf).write 0 .st ordStatusStore stPublished
  match m2.read 1 .st ordIsPublished tsS with
  | none => none
  | some (m3, s) =>
    match (m3.fence 1 oaf).read 1 .item .rlx tsI with
    | none => none
    | some (_, x) => some (s * 100 + x)

/-- with the orders of the source: seeing PUBLISHED and then the stale item is NOT a behaviour … -/
example : mpRun ordPubFence ordAcqFence 1 0 = none := by decide
/-- … the fresh item is … -/
example : mpRun ordPubFence ordAcqFence 1 1 = some 107 := by decide
/-- … and a consumer that reads the stale INITIAL status may of course still read the old item -/
example : mpRun ordPubFence ordAcqFence 0 0 = some 0 := by decide
/-- NEGATIVE CONTROL: with a relaxed publish fence the consumer sees PUBLISHED and reads the stale item -/
example : mpRun .rlx ordAcqFence 1 0 = some 100 := by decide
/-- NEGATIVE CONTROL: the same with a relaxed consumer fence -/
example : mpRun ordPubFence .rlx 1 0 = some 100 := by decide

/-- the six operations of the handshake litmus test -/
inductive Op
  | wrSt            -- waker: status.store(PUBLISHED, ordStatusStore)
  | fenceP          -- waker: atomic_thread_fence(pf)
  | rdWt (ts : Nat) -- waker: waiter-cell load, reading timestamp ts
  | rmwWt           -- waiter: RMW setting the waiter bit (ordWaitCasSucc)
  | fenceC          -- waiter: barrier of futex_wait (cf)
  | rdSt (ts : Nat) -- waiter: the kernel's status check, reading timestamp ts
  deriving DecidableEq, Repr

/-- run a schedule; `none` when a read is not admissible -/
def exec (pf cf : Core.Ord) : Mem Loc → List Op → Option (Mem Loc)
  | m, [] => some m
  | m, .wrSt :: r => exec pf cf (m.write 0 .st ordStatusStore stPublished) r
  | m, .fenceP :: r => exec pf cf (m.fence 0 pf) r
  | m, .rdWt ts :: r => match m.read 0 .wt ordWakeLoad ts with | none => none | some (m', _) => exec pf cf m' r
  | m, .rmwWt :: r => match m.rmw 1 .wt ordWaitCasSucc (· + waiterUnit) with | none => none | some (m', _) => exec pf cf m' r
  | m, .fenceC :: r => exec pf cf (m.fence 1 cf) r
  | m, .rdSt ts :: r => match m.read 1 .st .rlx ts with | none => none | some (m', _) => exec pf cf m' r

/-- the interleaving of `xs` and `ys` selected by a list of choice bits (`true` = next operation of
`xs`); when the bits run out, or one side is exhausted, the rest follows in order.  Every
interleaving of two 3-operation programs is `merge bits xs ys` for some `bits` of length 6. -/
def merge {α : Type} : List Bool → List α → List α → List α
  | [], xs, ys => xs ++ ys
  | _ :: _, [], ys => ys
  | _ :: _, xs, [] => xs
  | true :: bs, x :: xs, ys => x :: merge bs xs ys
  | false :: bs, xs, y :: ys => y :: merge bs xs ys

def allBits : Nat → List (List Bool)
  | 0 => [[]]
  | n + 1 => (allBits n).map (true :: ·) ++ (allBits n).map (false :: ·)

def interleavings {α : Type} (xs ys : List α) : List (List α) := (allBits 6).map (fun bits => merge bits xs ys)

/-- is there an interleaving of the waker and the waiter in which BOTH read the initial message of
the other's cell (the waker sees no waiter bit and does not wake, the waiter sees INITIAL and
sleeps) — a lost wake-up? -/
def lostWakeup (pf cf : Core.Ord) : Bool :=
  (interleavings [Op.wrSt, .fenceP, .rdWt 0] [Op.rmwWt, .fenceC, .rdSt 0]).any
    (fun sch => (exec pf cf mem0 sch).isSome)

/-- **`topic_wake_view` (litmus form)**: with the waker's fence of the source and the futex barrier,
no interleaving of the view model loses the wake-up — all 20 interleavings (enumerated through 64 choice-bit strings), stale reads included. -/
theorem topic_wake_view : lostWakeup ordPubScFence .sc = false := by decide
/-- the same for `close()` -/
theorem topic_wake_view_closer : lostWakeup ordCloseScFence .sc = false := by decide
/-- NEGATIVE CONTROL: with the waker's `seq_cst` fence dropped (or weakened to acq_rel) the wake-up
can be lost — the dropped-fence mutation is a theorem-level failure: `ordPubScFence` would then be
`.rlx` and `topic_wake_view` would not check. -/
theorem topic_wake_view_needs_fence : lostWakeup .rlx .sc = true ∧ lostWakeup .acqrel .sc = true := by decide
/-- NEGATIVE CONTROL: the waiter's side needs the barrier of `futex_wait` as well -/
theorem topic_wake_view_needs_futex_barrier : lostWakeup ordPubScFence .rlx = true := by decide

end Babylon.Topic.View
