/-
  Atomic-granularity model of `ConcurrentTransientTopic<T>` (src/babylon/concurrent/transient_topic.hpp).

  One model step = one atomic operation / fence / futex call of the real code (exactly what VRT
  observes), so the same `stepThread` serves the theorems (any interleaving = any sequence of
  `Step`s) and the lock-step replay of real executions (`Drivers/C15.lean`).

  * `next`        `_next_event_index`
  * `word i`      the 32-bit futex word of slot `i`: `status (low 16 bits) + waiters * 65536`
  * `val i`       the payload `T value` of slot `i` (plain memory)
  * `cap`         number of slots that exist in the `ConcurrentVector` (a multiple of the block size).
                  The vector is replaced by its specification "slot `i` exists when asked for":
                  `reserved_snapshot(n)` makes `ceil(n / bs)` blocks exist, `ensure(i)` makes
                  `i / bs + 1` blocks exist, `for_each(b, e, f)` calls `f` once per block piece.
  * `cur t`       `_next_consume_index` of the consumer used by thread `t` (one consumer per thread;
                  `subscribe` gives the thread a fresh one)

  Program counters follow the C++ statement by statement:
    publish_n(n, cb)  fetch_add; per block piece [b, pe): cb (plain writes); release fence; relaxed
                      16-bit store of PUBLISHED into every slot; seq_cst fence; per slot
                      wakeup_waiters (relaxed 32-bit load; if a waiter bit is set: weak CAS clearing
                      it, result ignored, then futex wake-all)
    close()           relaxed load of the index; 16-bit store of CLOSED; seq_cst fence; wakeup_waiters
    consume(n)        per slot: 16-bit load (is_closed), 16-bit load (is_published),
                      wait_until_ready (32-bit load; while INITIAL: weak CAS setting the waiter bit and
                      futex_wait, or futex_wait directly when the bit is already set; 32-bit reload);
                      cursor += consumed; acquire fence; the caller then reads the payload
    clear()           32-bit store of INITIAL into every existing slot; `next := 0`

  Client contract built into `Step` (from the header comments / documentation):
    * `close` is called only when no `publish` call is in progress, and no `publish` starts after
      `close` was called until the next `clear`;
    * `clear` runs alone (every thread idle, nothing starts before it returns) and invalidates every
      consumer: consumers are obtained again from `subscribe()` afterwards (cursor 0);
    * one consumer is used by one thread at a time.

  Ghost state (never influences a label or a non-ghost field): `closed`, `clearing` (contract
  tracking), `claims` / `own` (who obtained which index), `item` / `filled` (what was published at
  an index in this generation), `got` (what a consumer has been handed so far) and the
  happens-before knowledge `hb`: `seen t i` = "the publication of slot `i` (the callback's plain
  writes) happens-before thread `t`'s current point" computed ONLY along the edges the code
  really has (orders taken from `Babylon.Gen.Topic`): release fence → relaxed store → relaxed
  load → acquire fence, RMWs continuing a release sequence.  Every rule under-approximates C++20
  happens-before, so `seen t i = true` is a sound conclusion.
  Core Lean only.
-/
import Babylon.Gen.Topic
import Babylon.Core.Trace

namespace Babylon.Topic
open Babylon.Core Babylon.Gen.Topic

structure Cfg where
  bs : Nat                      -- slots per vector block (`ConcurrentVector<Slot, 128>`)

def upd {α : Type} (f : Nat → α) (i : Nat) (v : α) : Nat → α := fun j => if j = i then v else f j

/-! ### futex word = status (16 bits) + waiter count -/
def status (w : Nat) : Nat := w % waiterUnit
/-- 16-bit store into the low half of the word: the waiter half is kept -/
def store16 (w st : Nat) : Nat := (w / waiterUnit) * waiterUnit + st

/-! ### the vector's specification -/
/-- end of the block piece that starts at `b` inside the range ending at `e` (`Snapshot::for_each`) -/
def pieceEnd (c : Cfg) (b e : Nat) : Nat := min e ((b / c.bs + 1) * c.bs)
/-- `reserved_snapshot(size)`: blocks `0 .. ceil(size / bs) - 1` exist afterwards -/
def reserveTo (c : Cfg) (cap size : Nat) : Nat := max cap (((size + (c.bs - 1)) / c.bs) * c.bs)
/-- `ensure(index)`: blocks `0 .. index / bs` exist afterwards -/
def ensureTo (c : Cfg) (cap idx : Nat) : Nat := max cap ((idx / c.bs + 1) * c.bs)

inductive Pc
  | idle
  -- publish_n
  | pAdd (n : Nat)                       -- `_next_event_index.fetch_add(n, relaxed)`
  | pFill (b e : Nat)                    -- `callback(begin, end)` on the piece starting at `b` (range ends at `e`)
  | pRel (b pe e : Nat)                  -- `atomic_thread_fence(release)`
  -- shared by publish_n (st = PUBLISHED) and close (st = CLOSED)
  | wSt (st b pe e j : Nat)              -- `set_published()` / `set_closed()` on slot `j`
  | wSc (st b pe e : Nat)                -- `atomic_thread_fence(seq_cst)`
  | wLd (st b pe e j : Nat)              -- `wakeup_waiters`: `_futex.value().load(relaxed)`
  | wCas (st b pe e j v : Nat)           -- `wakeup_waiters_slow`: `compare_exchange_weak(v, uint16_t(v))`
  | wWake (st b pe e j : Nat)            -- `_futex.wake_all()`
  -- close
  | cLd                                  -- `_next_event_index.load(relaxed)`
  -- consume(n): `b` = cursor at the call, `e = b + n`, `j` = slot under examination (consumed = j - b)
  | kClosed (b e j : Nat)                -- `is_closed()`
  | kPub (b e j : Nat)                   -- `is_published()`
  | kWait (b e j : Nat)                  -- `wait_until_ready`: `_futex.value().load(relaxed)`
  | kCas (b e j v : Nat)                 -- slow: `compare_exchange_weak(v, v + 65536)`
  | kFwait (b e j v : Nat)               -- `_futex.wait(v, nullptr)`
  | kSleep (b e j : Nat)                 -- blocked inside futex_wait
  | kWoke (b e j : Nat)                  -- futex_wait returns
  | kReload (b e j : Nat)                -- `_futex.value().load(relaxed)` at the end of the loop body
  | kAcq (b e m : Nat)                   -- `_next_consume_index += m; atomic_thread_fence(acquire)`
  | kRet (b e m : Nat)                   -- range `[b, b + m)` returned; the caller reads the payload
  -- clear
  | rSt (j : Nat)                        -- `reset()` of slot `j`
  | rNext                                -- `_next_event_index.store(0, relaxed)`
  deriving DecidableEq, Repr, Inhabited

/-! ### happens-before knowledge (ghost) -/
structure HB where
  seen : Nat → Nat → Bool       -- thread ↦ slots whose publication happens-before the thread's current point
  relv : Nat → Nat → Bool       -- thread ↦ `seen` at its last release fence (what a relaxed store publishes)
  acqp : Nat → Nat → Bool       -- thread ↦ knowledge read by relaxed loads, usable after an acquire fence
  msg : Nat → Nat → Bool        -- slot word ↦ knowledge attached to its current value

def kjoin (a b : Nat → Bool) : Nat → Bool := fun i => a i || b i
def kempty : Nat → Bool := fun _ => false

def HB.empty : HB := { seen := fun _ => kempty, relv := fun _ => kempty, acqp := fun _ => kempty, msg := fun _ => kempty }

/-- a load of order `o` by `t` from the word of slot `j` -/
def HB.load (h : HB) (t j : Nat) (o : Ord) : HB :=
  if o.acquires then { h with seen := upd h.seen t (kjoin (h.seen t) (h.msg j)) }
  else { h with acqp := upd h.acqp t (kjoin (h.acqp t) (h.msg j)) }
/-- what a store of order `o` by `t` publishes -/
def HB.src (h : HB) (t : Nat) (o : Ord) : Nat → Bool := if o.releases then h.seen t else h.relv t
/-- a plain atomic store (starts a new release sequence) -/
def HB.store (h : HB) (t j : Nat) (o : Ord) : HB := { h with msg := upd h.msg j (h.src t o) }
/-- a successful read-modify-write (continues the release sequence it read from) -/
def HB.rmw (h : HB) (t j : Nat) (o : Ord) : HB :=
  let h1 := h.load t j o
  { h1 with msg := upd h1.msg j (kjoin (h.msg j) (h1.src t o)) }
def HB.fence (h : HB) (t : Nat) (o : Ord) : HB :=
  let seen1 := if o.acquires then kjoin (h.seen t) (h.acqp t) else h.seen t
  { h with seen := upd h.seen t seen1, relv := upd h.relv t (if o.releases then seen1 else h.relv t) }
/-- the publisher's own plain writes to slots `[b, b + n)` -/
def HB.fill (h : HB) (t b n : Nat) : HB :=
  { h with seen := upd h.seen t (fun i => (decide (b ≤ i) && decide (i < b + n)) || h.seen t i) }

structure State where
  next : Nat
  word : Nat → Nat
  val : Nat → Nat
  cap : Nat
  pc : Nat → Pc
  cur : Nat → Nat
  -- ghost
  closed : Bool
  clearing : Bool
  claims : Nat → Nat
  own : Nat → Option Nat
  item : Nat → Nat
  filled : Nat → Bool
  got : Nat → List (Nat × Nat)
  hb : HB

/-- a new topic (also: the state right after `clear()`): the payload memory, the capacity and the
stale `item` ghost are arbitrary, everything else is zero -/
def State.fresh (val : Nat → Nat) (cap : Nat) (item : Nat → Nat) : State :=
  { next := 0, word := fun _ => 0, val := val, cap := cap, pc := fun _ => .idle, cur := fun _ => 0,
    closed := false, clearing := false, claims := fun _ => 0, own := fun _ => none, item := item,
    filled := fun _ => false, got := fun _ => [], hb := HB.empty }

def Init (s : State) : Prop := ∃ val cap item, s = State.fresh val cap item

/-- nondeterministic inputs of one step -/
structure Inp where
  spurious : Bool := false      -- a weak CAS that would succeed fails instead
  vals : List Nat := []         -- what the publish callback writes into its piece
  woken : Nat := 0              -- the count futex-wake reports (label only)

def wloc (j : Nat) : String := "w" ++ toString j

def startPieces (b e : Nat) : Pc := if b < e then .pFill b e else .idle
def nextStore (st b pe e j : Nat) : Pc := if j + 1 < pe then .wSt st b pe e (j + 1) else .wSc st b pe e
def nextWake (st b pe e j : Nat) : Pc := if j + 1 < pe then .wLd st b pe e (j + 1) else startPieces pe e
def kLoop (b e j : Nat) : Pc := if j < e then .kClosed b e j else .kAcq b e (j - b)
def waitSlow (b e j v : Nat) : Pc := if v ≤ noWaiterMax then .kCas b e j v else .kFwait b e j v

/-- payload / item update by a callback writing `vals` from slot `b` on -/
def fillVals (f : Nat → Nat) (b : Nat) (vals : List Nat) : Nat → Nat :=
  fun i => if b ≤ i then (match vals[i - b]? with | some v => v | none => f i) else f i
def inRange (b e i : Nat) : Bool := decide (b ≤ i) && decide (i < e)

def storeOrd (st : Nat) : Ord := if st = stClosed then ordClosedStore else ordStatusStore
def scOrd (st : Nat) : Ord := if st = stClosed then ordCloseScFence else ordPubScFence

/-- every thread sleeping on slot `j` is woken -/
def wakeAll (pc : Nat → Pc) (j : Nat) : Nat → Pc := fun u =>
  match pc u with
  | .kSleep b e j' => if j' = j then .kWoke b e j' else pc u
  | p => p

/-- the values a consumer reads from the range `[b, b + m)` -/
def readRange (s : State) (b m : Nat) : List (Nat × Nat) := (List.range m).map (fun k => (b + k, s.val (b + k)))

/-- One atomic action of thread `t`. -/
def stepThread (c : Cfg) (s : State) (t : Nat) (i : Inp) : Option (State × Act) :=
  match s.pc t with
  | .idle => none
  | .kSleep _ _ _ => none
  | .kRet _ _ _ => none
  -- ---------------------------------------------------------------- publish_n
  | .pAdd n =>
    let b := s.next
    some ({ s with next := b + n, cap := reserveTo c s.cap (b + n),
                   claims := fun k => s.claims k + (if inRange b (b + n) k then 1 else 0),
                   own := fun k => if inRange b (b + n) k then some t else s.own k,
                   pc := upd s.pc t (startPieces b (b + n)) },
          .rmw "add" "next" 0 ordNextAdd b n)
  | .pFill b e =>
    let pe := pieceEnd c b e
    if i.vals.length = pe - b then
      some ({ s with val := fillVals s.val b i.vals, item := fillVals s.item b i.vals,
                     filled := fun k => inRange b pe k || s.filled k,
                     hb := s.hb.fill t b (pe - b),
                     pc := upd s.pc t (.pRel b pe e) },
            .ev ("fill" :: toString b :: toString (pe - b) :: i.vals.map toString))
    else none
  | .pRel b pe e =>
    some ({ s with hb := s.hb.fence t ordPubFence, pc := upd s.pc t (.wSt stPublished b pe e b) }, .fence ordPubFence)
  | .wSt st b pe e j =>
    some ({ s with word := upd s.word j (store16 (s.word j) st), hb := s.hb.store t j (storeOrd st),
                   pc := upd s.pc t (nextStore st b pe e j) },
          .st (wloc j) 0 (storeOrd st) st)
  | .wSc st b pe e =>
    some ({ s with hb := s.hb.fence t (scOrd st), pc := upd s.pc t (.wLd st b pe e b) }, .fence (scOrd st))
  | .wLd st b pe e j =>
    let v := s.word j
    some ({ s with hb := s.hb.load t j ordWakeLoad,
                   pc := upd s.pc t (if v ≤ noWaiterMax then nextWake st b pe e j else .wCas st b pe e j v) },
          .ld (wloc j) 0 ordWakeLoad v)
  | .wCas st b pe e j v =>
    if s.word j = v ∧ ¬ i.spurious then
      some ({ s with word := upd s.word j (status v), hb := s.hb.rmw t j ordWakeCasSucc,
                     pc := upd s.pc t (.wWake st b pe e j) },
            .cas (wloc j) 0 true ordWakeCasSucc ordWakeCasFail v (status v) true (s.word j))
    else
      some ({ s with hb := s.hb.load t j ordWakeCasFail, pc := upd s.pc t (.wWake st b pe e j) },
            .cas (wloc j) 0 true ordWakeCasSucc ordWakeCasFail v (status v) false (s.word j))
  | .wWake st b pe e j =>
    some ({ s with pc := upd (wakeAll s.pc j) t (nextWake st b pe e j) }, .fwake (wloc j) 0 wakeAllTraceCount i.woken)
  -- ---------------------------------------------------------------- close
  | .cLd =>
    let idx := s.next
    some ({ s with cap := ensureTo c s.cap idx, pc := upd s.pc t (.wSt stClosed idx (idx + 1) (idx + 1) idx) },
          .ld "next" 0 ordCloseLoad idx)
  -- ---------------------------------------------------------------- consume
  | .kClosed b e j =>
    let v := status (s.word j)
    some ({ s with hb := s.hb.load t j ordIsClosed,
                   pc := upd s.pc t (if v = stClosed then .kAcq b e (j - b) else .kPub b e j) },
          .ld (wloc j) 0 ordIsClosed v)
  | .kPub b e j =>
    let v := status (s.word j)
    some ({ s with hb := s.hb.load t j ordIsPublished,
                   pc := upd s.pc t (if v = stPublished then kLoop b e (j + 1) else .kWait b e j) },
          .ld (wloc j) 0 ordIsPublished v)
  | .kWait b e j =>
    let v := s.word j
    some ({ s with hb := s.hb.load t j ordWaitLoad,
                   pc := upd s.pc t (if status v ≠ stInitial then kLoop b e j else waitSlow b e j v) },
          .ld (wloc j) 0 ordWaitLoad v)
  | .kCas b e j v =>
    if s.word j = v ∧ ¬ i.spurious then
      some ({ s with word := upd s.word j (v + waiterUnit), hb := s.hb.rmw t j ordWaitCasSucc,
                     pc := upd s.pc t (.kFwait b e j (v + waiterUnit)) },
            .cas (wloc j) 0 true ordWaitCasSucc ordWaitCasFail v (v + waiterUnit) true (s.word j))
    else
      some ({ s with hb := s.hb.load t j ordWaitCasFail, pc := upd s.pc t (.kReload b e j) },
            .cas (wloc j) 0 true ordWaitCasSucc ordWaitCasFail v (v + waiterUnit) false (s.word j))
  | .kFwait b e j v =>
    if s.word j = v then
      some ({ s with pc := upd s.pc t (.kSleep b e j) }, .fwait (wloc j) 0 v true)
    else
      some ({ s with pc := upd s.pc t (.kReload b e j) }, .fwait (wloc j) 0 v false)
  | .kWoke b e j =>
    some ({ s with pc := upd s.pc t (.kReload b e j) }, .fwoke (wloc j) 0 false)
  | .kReload b e j =>
    let v := s.word j
    some ({ s with hb := s.hb.load t j ordWaitReload,
                   pc := upd s.pc t (if status v = stInitial then waitSlow b e j v else kLoop b e j) },
          .ld (wloc j) 0 ordWaitReload v)
  | .kAcq b e m =>
    some ({ s with cur := upd s.cur t (b + m), hb := s.hb.fence t ordAcqFence, pc := upd s.pc t (.kRet b e m) },
          .fence ordAcqFence)
  -- ---------------------------------------------------------------- clear
  | .rSt j =>
    some ({ s with word := upd s.word j stInitial,
                   pc := upd s.pc t (if j + 1 < s.cap then .rSt (j + 1) else .rNext) },
          .st (wloc j) 0 ordReset stInitial)
  | .rNext =>
    some ({ State.fresh s.val s.cap s.item with word := s.word }, .st "next" 0 ordClearNext 0)

/-! ### calls and returns (harness events) -/
/-- inside a `publish` / `publish_n` call -/
def Pc.publishing : Pc → Bool
  | .pAdd _ | .pFill _ _ | .pRel _ _ _ => true
  | .wSt st _ _ _ _ | .wSc st _ _ _ | .wLd st _ _ _ _ | .wCas st _ _ _ _ _ | .wWake st _ _ _ _ => st != stClosed
  | _ => false

def callPublish (s : State) (t n : Nat) : State := { s with pc := upd s.pc t (.pAdd n) }
def callClose (s : State) (t : Nat) : State := { s with closed := true, pc := upd s.pc t .cLd }
/-- `consume(n)`; the vector reservation `reserved_snapshot(cursor + n)` happens first -/
def callConsume (c : Cfg) (s : State) (t n : Nat) : State :=
  { s with cap := reserveTo c s.cap (s.cur t + n), pc := upd s.pc t (kLoop (s.cur t) (s.cur t + n) (s.cur t)) }
/-- `subscribe()`: the thread drops its consumer and uses a new one -/
def subscribe (s : State) (t : Nat) : State := { s with cur := upd s.cur t 0, got := upd s.got t [] }
def callClear (s : State) (t : Nat) : State :=
  { s with clearing := true, pc := upd s.pc t (if 0 < s.cap then .rSt 0 else .rNext) }
/-- `consume` returns `[b, b + m)` and the caller reads the items -/
def retConsume (s : State) (t b m : Nat) : State :=
  { s with got := upd s.got t (s.got t ++ readRange s b m), pc := upd s.pc t .idle }

/-- The transition relation: any thread performs its next atomic action (with any callback values,
spurious weak-CAS failure, …), or an idle thread starts a call allowed by the client contract, or
a consumer takes the returned range, or a futex sleeper wakes spuriously. -/
inductive Step (c : Cfg) : State → State → Prop
  | act (s : State) (t : Nat) (i : Inp) (s' : State) (l : Act) : stepThread c s t i = some (s', l) → Step c s s'
  | publish (s : State) (t n : Nat) : s.pc t = .idle → s.closed = false → s.clearing = false → Step c s (callPublish s t n)
  | close (s : State) (t : Nat) : s.pc t = .idle → s.clearing = false → (∀ u, (s.pc u).publishing = false) →
      Step c s (callClose s t)
  | consume (s : State) (t n : Nat) : s.pc t = .idle → s.clearing = false → Step c s (callConsume c s t n)
  | subscribe (s : State) (t : Nat) : s.pc t = .idle → s.clearing = false → Step c s (subscribe s t)
  | ret (s : State) (t b e m : Nat) : s.pc t = .kRet b e m → Step c s (retConsume s t b m)
  | clear (s : State) (t : Nat) : s.clearing = false → (∀ u, s.pc u = .idle) → Step c s (callClear s t)
  | spuriousWake (s : State) (t b e j : Nat) : s.pc t = .kSleep b e j →
      Step c s { s with pc := upd s.pc t (.kWoke b e j) }

/-! ### skeletons this model was written against (compared with the generated ones in Properties/C15) -/
def Skel.publish_n : List Site := [
  .rmw "fetch_add" "_next_event_index" .rlx,
  .load "_next_event_index" .rlx,            -- `CONCURRENT = false` branch (not reachable through the
  .store "_next_event_index" .rlx,           --  default `publish` / `publish_n`; not modelled)
  .call "reserved_snapshot", .call "for_each", .call "callback",
  .fence .rel, .call "set_published", .fence .sc, .call "wakeup_waiters"]
def Skel.close : List Site := [
  .load "_next_event_index" .rlx, .call "ensure", .call "set_closed", .fence .sc, .call "wakeup_waiters"]
def Skel.clear : List Site := [.call "for_each", .call "size", .call "reset", .store "_next_event_index" .rlx]
def Skel.set_status : List Site := [.store "status" .rlx]
def Skel.get_status : List Site := [.load "status" .rlx]
def Skel.wakeup_waiters : List Site := [.load "_futex.value()" .rlx, .call "wakeup_waiters_slow"]
def Skel.wakeup_waiters_slow : List Site := [.cas "_futex.value()" false .rlx .rlx, .call "_futex.wake_all"]
def Skel.wait_until_ready : List Site := [.load "_futex.value()" .rlx, .call "wait_until_ready_slow"]
def Skel.wait_until_ready_slow : List Site := [
  .cas "_futex.value()" false .rlx .rlx, .call "_futex.wait", .call "_futex.wait", .load "_futex.value()" .rlx]
def Skel.reset : List Site := [.store "_futex.value()" .rlx]
def Skel.consume : List Site := [
  .call "reserved_snapshot", .call "for_each", .call "is_closed", .call "is_published", .call "wait_until_ready",
  .fence .acq]
def Skel.forward : List Site := [.call "publish_n"]
def Skel.consume1 : List Site := [.call "consume"]

end Babylon.Topic
