/-
  The inductive invariant of the transient-topic transition system (Babylon/Topic/Model.lean).

  Outside `clear()` (`s.clearing = false`) it is `Main`:
    * per thread, `TInv`: what the thread's program counter implies about the shared state — a
      publisher owns the slots of its range, the part not yet filled is unfilled and INITIAL, the part
      filled but not yet stored is filled and INITIAL and known to the publisher's release snapshot, the
      part already stored carries the status; a closer works on slot `next` and `closed` is set; a
      consumer has found every slot of `[cursor, j)` PUBLISHED and holds their publication as pending
      knowledge; …
    * per slot: below `next` every slot has an owner and is PUBLISHED or still pending in its owner's
      call (`lo`); from `next` on slots are unowned, unfilled and INITIAL, except that slot `next` may
      be CLOSED once `close()` was called (`hi`); a PUBLISHED slot is filled, its payload is the item
      recorded at fill time and its futex word's message knows the slot's publication (`pub`);
    * once `close()` was called, slot `next` is CLOSED or a closer is about to store it (`closedst`);
    * a non-zero futex word lies below `cap` (`closed` implies that no publish call is in progress:
      consequence `Main.nopub` of `TInv`);
    * per consumer: everything below its cursor is PUBLISHED and known to it (`cons`), what it was
      handed so far is exactly the items of indices `0 .. base-1` in order (`got`);
    * `wake`: a thread asleep in futex_wait on slot `j` either legitimately waits (status INITIAL,
      waiter bit set) or some thread is committed to wake slot `j`.
  Inside `clear()` it is `Clr`: everybody but the clearing thread is idle, the slots below the loop
  index are zero again, no slot at or beyond `cap` was ever touched.
  `claims` (every index below `next` was handed out exactly once) holds in both modes.
-/
import Babylon.Topic.UStep

namespace Babylon.Topic
open Babylon.Core Babylon.Gen.Topic

/-- status of slot `i` -/
def stOf (s : State) (i : Nat) : Nat := status (s.word i)

/-- consumer of thread `t` examining slot `j` of its range `[b, e)` -/
def KInv (s : State) (t b e j : Nat) : Prop :=
  s.cur t = b ∧ b ≤ j ∧ j < e ∧ e ≤ s.cap ∧
  ∀ i, b ≤ i → i < j → stOf s i = stPublished ∧ (s.hb.acqp t i = true ∨ s.hb.seen t i = true)

/-- publisher (`sv = PUBLISHED`) / closer (`sv = CLOSED`) `t` on piece `[b, pe)` of a range ending at
`e`, having stored the status into `[b, j)` -/
def WInv (s : State) (t sv b pe e j : Nat) : Prop :=
  b < pe ∧ pe ≤ e ∧ e ≤ s.cap ∧ b ≤ j ∧ j ≤ pe ∧
  (∀ i, b ≤ i → i < j → stOf s i = sv) ∧
  ((sv = stPublished ∧ s.closed = false ∧ (∀ i, b ≤ i → i < e → s.own i = some t) ∧
      (∀ i, j ≤ i → i < pe → stOf s i = stInitial ∧ s.filled i = true ∧ s.val i = s.item i) ∧
      (∀ i, b ≤ i → i < pe → s.hb.relv t i = true ∧ s.hb.seen t i = true) ∧
      (∀ i, pe ≤ i → i < e → stOf s i = stInitial ∧ s.filled i = false)) ∨
   (sv = stClosed ∧ s.closed = true ∧ b = s.next ∧ pe = b + 1 ∧ e = pe))

def TInv (s : State) (t : Nat) : Pc → Prop
  | .idle => True
  | .pAdd _ => s.closed = false
  | .pFill b e => s.closed = false ∧ b < e ∧ e ≤ s.cap ∧
      ∀ i, b ≤ i → i < e → s.own i = some t ∧ stOf s i = stInitial ∧ s.filled i = false
  | .pRel b pe e => s.closed = false ∧ b < pe ∧ pe ≤ e ∧ e ≤ s.cap ∧
      (∀ i, b ≤ i → i < e → s.own i = some t) ∧
      (∀ i, b ≤ i → i < pe → stOf s i = stInitial ∧ s.filled i = true ∧ s.val i = s.item i ∧ s.hb.seen t i = true) ∧
      (∀ i, pe ≤ i → i < e → stOf s i = stInitial ∧ s.filled i = false)
  | .wSt sv b pe e j => WInv s t sv b pe e j ∧ j < pe
  | .wSc sv b pe e => WInv s t sv b pe e pe
  | .wLd sv b pe e j => WInv s t sv b pe e pe ∧ b ≤ j ∧ j < pe
  | .wCas sv b pe e j v => WInv s t sv b pe e pe ∧ b ≤ j ∧ j < pe ∧ status v = sv
  | .wWake sv b pe e j => WInv s t sv b pe e pe ∧ b ≤ j ∧ j < pe
  | .cLd => s.closed = true
  | .kClosed b e j | .kPub b e j | .kWait b e j | .kSleep b e j | .kWoke b e j | .kReload b e j => KInv s t b e j
  | .kCas b e j v => KInv s t b e j ∧ status v = stInitial ∧ v ≤ noWaiterMax
  | .kFwait b e j v => KInv s t b e j ∧ status v = stInitial ∧ waiterUnit ≤ v
  | .kAcq b e m => s.cur t = b ∧ b + m ≤ e ∧
      (∀ i, b ≤ i → i < b + m → stOf s i = stPublished ∧ (s.hb.acqp t i = true ∨ s.hb.seen t i = true)) ∧
      (b + m < e → stOf s (b + m) = stClosed)
  | .kRet b e m => s.cur t = b + m ∧ b + m ≤ e ∧ (b + m < e → stOf s (b + m) = stClosed)
  | .rSt _ | .rNext => False

/-- slot `i` still has to be filled or stored by the publish call at this program point -/
def Pc.pending : Pc → Nat → Prop
  | .pFill b e, i => b ≤ i ∧ i < e
  | .pRel b _ e, i => b ≤ i ∧ i < e
  | .wSt sv _ _ e j, i => sv = stPublished ∧ j ≤ i ∧ i < e
  | .wSc sv _ pe e, i | .wLd sv _ pe e _, i | .wCas sv _ pe e _ _, i | .wWake sv _ pe e _, i =>
      sv = stPublished ∧ pe ≤ i ∧ i < e
  | _, _ => False

/-- the thread at this program point has stored the status of slot `j` and has not yet executed
`wakeup_waiters` on it -/
def Pc.willLoad : Pc → Nat → Prop
  | .wSt _ b _ _ j', j => b ≤ j ∧ j < j'
  | .wSc _ b pe _, j => b ≤ j ∧ j < pe
  | .wLd _ _ pe _ j', j => j' ≤ j ∧ j < pe
  | .wCas _ _ pe _ j' _, j | .wWake _ _ pe _ j', j => j' < j ∧ j < pe
  | _, _ => False

/-- the thread has seen the waiter bit of slot `j` and will call futex-wake on it -/
def Pc.loaded : Pc → Nat → Prop
  | .wCas _ _ _ _ j' _, j | .wWake _ _ _ _ j', j => j' = j
  | _, _ => False

/-- the thread is inside `close()` and has not stored CLOSED yet -/
def Pc.willClose : Pc → Prop
  | .cLd => True
  | .wSt sv _ _ _ _ => sv = stClosed
  | _ => False

/-- number of items the thread's consumer has been handed: its cursor, except between the
acquire fence and the return of `consume`, where the cursor already includes the range -/
def base (s : State) (t : Nat) : Nat :=
  match s.pc t with
  | .kRet b _ _ => b
  | _ => s.cur t

def WakeOK (s : State) (j : Nat) : Prop :=
  (stOf s j = stInitial ∧ waiterUnit ≤ s.word j) ∨
  (waiterUnit ≤ s.word j ∧ ∃ w, (s.pc w).willLoad j) ∨
  (∃ w, (s.pc w).loaded j)

structure Main (s : State) : Prop where
  tinv : ∀ t, TInv s t (s.pc t)
  hi : ∀ i, s.next ≤ i → s.own i = none ∧ s.filled i = false ∧
        (stOf s i = stInitial ∨ (stOf s i = stClosed ∧ s.closed = true ∧ i = s.next))
  lo : ∀ i, i < s.next → ∃ t, s.own i = some t ∧ (stOf s i = stPublished ∨ (s.pc t).pending i)
  pub : ∀ i, stOf s i = stPublished → s.filled i = true ∧ s.val i = s.item i ∧ s.hb.msg i i = true ∧ i < s.next
  capw : ∀ i, s.word i ≠ 0 → i < s.cap
  relsub : ∀ t i, s.hb.relv t i = true → s.hb.seen t i = true
  closedst : s.closed = true → stOf s s.next = stClosed ∨ ∃ w, (s.pc w).willClose
  cons : ∀ t i, i < s.cur t → stOf s i = stPublished ∧ s.hb.seen t i = true
  got : ∀ t, s.got t = (List.range (base s t)).map (fun i => (i, s.item i))
  basele : ∀ t, base s t ≤ s.cur t
  wake : ∀ t b e j, s.pc t = .kSleep b e j → WakeOK s j

/-- inside `clear()` -/
def Clr (s : State) : Prop :=
  ∃ t, (∀ u, u ≠ t → s.pc u = .idle) ∧ (∀ i, s.cap ≤ i → s.word i = 0) ∧
    ((∃ j, s.pc t = .rSt j ∧ j < s.cap ∧ ∀ i, i < j → s.word i = 0) ∨
     (s.pc t = .rNext ∧ ∀ i, i < s.cap → s.word i = 0))

def Claims (s : State) : Prop := ∀ i, s.claims i = if i < s.next then 1 else 0

def Inv (s : State) : Prop :=
  Claims s ∧ ((s.clearing = false ∧ Main s) ∨ (s.clearing = true ∧ Clr s))

end Babylon.Topic
