/-
  Preservation of the per-slot parts of `Main` (`hi`, `lo`, `pub`, `capw`, `relsub`) by every step
  outside `clear()`.
-/
import Babylon.Topic.StepT

namespace Babylon.Topic
open Babylon.Core Babylon.Gen.Topic
set_option linter.unusedVariables false

/-- status, piece, range and number of stored slots of a thread inside the store / wake loops -/
def Pc.wInfo : Pc → Option (Nat × Nat × Nat × Nat × Nat)
  | .wSt sv b pe e j => some (sv, b, pe, e, j)
  | .wSc sv b pe e | .wLd sv b pe e _ | .wCas sv b pe e _ _ | .wWake sv b pe e _ => some (sv, b, pe, e, pe)
  | _ => none

theorem TInv.winv {s : State} {t : Nat} {p : Pc} (T : TInv s t p) {sv b pe e j : Nat}
    (h : p.wInfo = some (sv, b, pe, e, j)) : WInv s t sv b pe e j := by
  cases p <;> simp only [Pc.wInfo, Option.some.injEq, Prod.mk.injEq] at h <;> try (cases h; done)
  case wSt => obtain ⟨rfl, rfl, rfl, rfl, rfl⟩ := h; exact T.1
  case wSc => obtain ⟨rfl, rfl, rfl, rfl, rfl⟩ := h; exact T
  case wLd => obtain ⟨rfl, rfl, rfl, rfl, rfl⟩ := h; exact T.1
  case wCas => obtain ⟨rfl, rfl, rfl, rfl, rfl⟩ := h; exact T.1
  case wWake => obtain ⟨rfl, rfl, rfl, rfl, rfl⟩ := h; exact T.1

/-- a thread inside `publish` witnesses that `close()` was not called yet -/
theorem publishing_not_closed {s : State} {t : Nat} {p : Pc} (T : TInv s t p) (hp : p.publishing = true) :
    s.closed = false := by
  cases hw : p.wInfo with
  | none =>
    cases p <;> simp only [Pc.publishing] at hp <;> try (cases hp; done)
    case pAdd n => exact T
    case pFill b e => exact T.1
    case pRel b pe e => exact T.1
    all_goals (simp [Pc.wInfo] at hw)
  | some q =>
    obtain ⟨sv, b, pe, e, j⟩ := q
    have W := T.winv hw
    rcases W.2.2.2.2.2.2 with w | w
    · exact w.2.1
    · exfalso
      cases p <;> simp only [Pc.wInfo, Option.some.injEq, Prod.mk.injEq] at hw <;> try (cases hw; done)
      all_goals (obtain ⟨rfl, -⟩ := hw; simp only [Pc.publishing] at hp; rw [w.1] at hp; exact absurd hp (by decide))

theorem Main.nopub {s : State} (M : Main s) (hc : s.closed = true) (u : Nat) : (s.pc u).publishing = false := by
  cases hpub : (s.pc u).publishing
  · rfl
  · have := publishing_not_closed (M.tinv u) hpub
    rw [hc] at this; cases this

theorem pending_publishing {p : Pc} {i : Nat} (h : p.pending i) : p.publishing = true := by
  cases p <;> simp only [Pc.pending] at h <;> try (exact absurd h id)
  all_goals (first | rfl | (obtain ⟨h1, -⟩ := h; subst h1; exact pub_ne))

/-- statuses of slots below `next` are INITIAL or PUBLISHED, never CLOSED -/
theorem Main.lo_st {s : State} (M : Main s) {i : Nat} (h : i < s.next) : stOf s i = stInitial ∨ stOf s i = stPublished := by
  obtain ⟨t, ho, hp⟩ := M.lo i h
  rcases hp with hp | hp
  · exact Or.inr hp
  · left
    have T := M.tinv t
    cases hpc : s.pc t <;> rw [hpc] at hp T <;> simp only [Pc.pending] at hp <;> try (exact absurd hp id)
    case pFill b e => exact (T.2.2.2 i hp.1 hp.2).2.1
    case pRel b pe e =>
      obtain ⟨t1, t2, t3, t4, t5, t6, t7⟩ := T
      by_cases hpe : i < pe
      · exact (t6 i hp.1 hpe).1
      · exact (t7 i (by omega) hp.2).1
    case wSt sv b pe e j =>
      obtain ⟨⟨w1, w2, w3, w4, w5, w6, w7⟩, w8⟩ := T
      rcases w7 with ⟨a1, a2, a3, a4, a5, a6⟩ | ⟨a1, -⟩
      · by_cases hpe : i < pe
        · exact (a4 i hp.2.1 hpe).1
        · exact (a6 i (by omega) hp.2.2).1
      · rw [hp.1] at a1; exact absurd a1 (by decide)
    all_goals
      have W := T.winv (p := _) rfl
      obtain ⟨w1, w2, w3, w4, w5, w6, w7⟩ := W
      rcases w7 with ⟨a1, a2, a3, a4, a5, a6⟩ | ⟨a1, -⟩
      · exact (a6 i hp.2.1 hp.2.2).1
      · rw [hp.1] at a1; exact absurd a1 (by decide)

/-- the same for the `wSc` program point, whose `TInv` is the bare `WInv` -/
theorem stNZ_step {c : Cfg} {s s' : State} {a : Nat} (M : Main s) (h : UStep c s s' a)
    (hk : s.clearing = false) (hk' : s'.clearing = false) (i : Nat) (hnz : stOf s i ≠ stInitial) :
    stOf s' i = stOf s i :=
  (ext_step M h hk hk' (a + 1) (by omega)).stNZ i hnz

theorem cap_mono_step {c : Cfg} {s s' : State} {a : Nat} (M : Main s) (h : UStep c s s' a)
    (hk : s.clearing = false) (hk' : s'.clearing = false) : s.cap ≤ s'.cap :=
  (ext_step M h hk hk' (a + 1) (by omega)).cap

theorem stOf_word_upd (s : State) (j v i : Nat) (pc' : Nat → Pc) (hb' : HB) (hst : status v = stOf s j) :
    stOf { s with word := upd s.word j v, hb := hb', pc := pc' } i = stOf s i := by
  by_cases hij : i = j
  · subst hij; simp [stOf, hst]
  · simp [stOf, upd_other _ _ hij]

theorem hi_step {c : Cfg} {s s' : State} {a : Nat} (M : Main s) (h : UStep c s s' a)
    (hk : s.clearing = false) (hk' : s'.clearing = false) :
    ∀ i, s'.next ≤ i → s'.own i = none ∧ s'.filled i = false ∧
      (stOf s' i = stInitial ∨ (stOf s' i = stClosed ∧ s'.closed = true ∧ i = s'.next)) := by
  have T := M.tinv a
  cases h with
  | pAdd _ n hp =>
    rw [hp] at T
    intro i hi
    have hi' : s.next + n ≤ i := hi
    obtain ⟨h1, h2, h3⟩ := M.hi i (by omega)
    have hr : inRange s.next (s.next + n) i = false := by rw [inRange_false_iff]; omega
    refine ⟨by simp [hr, h1], h2, Or.inl ?_⟩
    rcases h3 with h3 | h3
    · exact h3
    · have : s.closed = false := T
      rw [this] at h3; cases h3.2.1
  | pFill _ b e vals hp hl =>
    rw [hp] at T
    intro i hi
    obtain ⟨h1, h2, h3⟩ := M.hi i hi
    have hle := pieceEnd_le c b e
    have hr : inRange b (pieceEnd c b e) i = false := by
      rw [inRange_false_iff]; intro hr
      have := (T.2.2.2 i hr.1 (by omega)).1
      rw [h1] at this; cases this
    exact ⟨h1, by simp [hr, h2], h3⟩
  | wSt _ sv b pe e j hp =>
    rw [hp] at T
    obtain ⟨⟨w1, w2, w3, w4, w5, w6, w7⟩, w8⟩ := T
    intro i hi
    obtain ⟨h1, h2, h3⟩ := M.hi i hi
    refine ⟨h1, h2, ?_⟩
    by_cases hij : i = j
    · subst hij
      rcases w7 with ⟨a1, a2, a3, a4, a5, a6⟩ | ⟨a1, a2, a3, a4, a5⟩
      · have := a3 i w4 (by omega)
        rw [h1] at this; cases this
      · right
        refine ⟨?_, a2, ?_⟩
        · simp only [stOf, upd_same]; rw [status_store16 _ _ (by rw [a1]; decide)]; exact a1
        · show i = s.next
          omega
    · simp only [stOf, upd_other _ _ hij]; exact h3
  | wCasOk _ sv b pe e j v hp hv =>
    intro i hi
    rw [stOf_word_upd s j (status v) i _ _ (by rw [status_status, ← hv]; rfl)]
    exact M.hi i hi
  | kCasOk _ b e j v hp hv =>
    intro i hi
    rw [stOf_word_upd s j (v + waiterUnit) i _ _ (by rw [status_add_unit, ← hv]; rfl)]
    exact M.hi i hi
  | close _ hp hkk hq =>
    intro i hi
    obtain ⟨h1, h2, h3⟩ := M.hi i hi
    refine ⟨h1, h2, ?_⟩
    rcases h3 with h3 | h3
    · exact Or.inl h3
    · exact Or.inr ⟨h3.1, rfl, h3.2.2⟩
  | rSt _ j hp => rw [hp] at T; exact absurd T (by simp [TInv])
  | rNext _ hp => rw [hp] at T; exact absurd T (by simp [TInv])
  | clear _ hkk hq => cases hk'
  | _ => exact M.hi

theorem capw_step {c : Cfg} {s s' : State} {a : Nat} (M : Main s) (h : UStep c s s' a)
    (hk : s.clearing = false) (hk' : s'.clearing = false) : ∀ i, s'.word i ≠ 0 → i < s'.cap := by
  have T := M.tinv a
  have hcap := cap_mono_step M h hk hk'
  cases h with
  | wSt _ sv b pe e j hp =>
    rw [hp] at T
    intro i hi
    by_cases hij : i = j
    · subst hij; have := T.1.2.1; have := T.1.2.2.1; have := T.2; show i < s.cap; omega
    · simp only [upd_other _ _ hij] at hi; exact M.capw i hi
  | wCasOk _ sv b pe e j v hp hv =>
    rw [hp] at T
    intro i hi
    by_cases hij : i = j
    · subst hij; have := T.1.2.1; have := T.1.2.2.1; have := T.2.2.1; show i < s.cap; omega
    · simp only [upd_other _ _ hij] at hi; exact M.capw i hi
  | kCasOk _ b e j v hp hv =>
    rw [hp] at T
    intro i hi
    by_cases hij : i = j
    · subst hij; have := T.1.2.2.1; have := T.1.2.2.2.1; show i < s.cap; omega
    · simp only [upd_other _ _ hij] at hi; exact M.capw i hi
  | rSt _ j hp => rw [hp] at T; exact absurd T (by simp [TInv])
  | rNext _ hp => rw [hp] at T; exact absurd T (by simp [TInv])
  | clear _ hkk hq => cases hk'
  | _ => intro i hi; exact Nat.lt_of_lt_of_le (M.capw i hi) hcap

theorem pub_step {c : Cfg} {s s' : State} {a : Nat} (M : Main s) (h : UStep c s s' a)
    (hk : s.clearing = false) (hk' : s'.clearing = false) :
    ∀ i, stOf s' i = stPublished → s'.filled i = true ∧ s'.val i = s'.item i ∧ s'.hb.msg i i = true ∧ i < s'.next := by
  have T := M.tinv a
  cases h with
  | pAdd _ n hp =>
    intro i hi
    obtain ⟨h1, h2, h3, h4⟩ := M.pub i hi
    exact ⟨h1, h2, h3, by show i < s.next + n; omega⟩
  | pFill _ b e vals hp hl =>
    rw [hp] at T
    intro i hi
    obtain ⟨h1, h2, h3, h4⟩ := M.pub i hi
    have hle := pieceEnd_le c b e
    have hout : ¬ (b ≤ i ∧ i < e) := by
      intro hr
      have h0 := (T.2.2.2 i hr.1 hr.2).2.1
      have hi' : stOf s i = stPublished := hi
      rw [h0] at hi'; exact absurd hi' (by decide)
    have hout2 : ¬ (b ≤ i ∧ i < b + vals.length) := by rw [hl]; omega
    refine ⟨by simp [h1], ?_, h3, h4⟩
    show fillVals s.val b vals i = fillVals s.item b vals i
    rw [fillVals_out _ _ _ hout2, fillVals_out _ _ _ hout2]; exact h2
  | wSt _ sv b pe e j hp =>
    rw [hp] at T
    obtain ⟨⟨w1, w2, w3, w4, w5, w6, w7⟩, w8⟩ := T
    intro i hi
    by_cases hij : i = j
    · subst hij
      rcases w7 with ⟨a1, a2, a3, a4, a5, a6⟩ | ⟨a1, a2, a3, a4, a5⟩
      · obtain ⟨q1, q2, q3⟩ := a4 i (Nat.le_refl _) w8
        refine ⟨q2, q3, ?_, M.own_lt (a3 i w4 (by omega))⟩
        show (s.hb.store a i (storeOrd sv)).msg i i = true
        rw [HB.store_msg_same]
        exact HB.src_of_relv _ _ _ _ (a5 i w4 w8).1 (M.relsub a)
      · exfalso
        simp only [stOf, upd_same] at hi
        rw [status_store16 _ _ (by rw [a1]; decide), a1] at hi
        exact absurd hi (by decide)
    · have hi' : stOf s i = stPublished := by
        simp only [stOf, upd_other _ _ hij] at hi; exact hi
      obtain ⟨h1, h2, h3, h4⟩ := M.pub i hi'
      refine ⟨h1, h2, ?_, h4⟩
      show (s.hb.store a j (storeOrd sv)).msg i i = true
      rw [HB.store_msg_other _ _ _ _ hij]; exact h3
  | wCasOk _ sv b pe e j v hp hv =>
    intro i hi
    rw [stOf_word_upd s j (status v) i _ _ (by rw [status_status, ← hv]; rfl)] at hi
    obtain ⟨h1, h2, h3, h4⟩ := M.pub i hi
    exact ⟨h1, h2, HB.rmw_msg_mono _ _ _ _ _ _ h3, h4⟩
  | kCasOk _ b e j v hp hv =>
    intro i hi
    rw [stOf_word_upd s j (v + waiterUnit) i _ _ (by rw [status_add_unit, ← hv]; rfl)] at hi
    obtain ⟨h1, h2, h3, h4⟩ := M.pub i hi
    exact ⟨h1, h2, HB.rmw_msg_mono _ _ _ _ _ _ h3, h4⟩
  | rSt _ j hp => rw [hp] at T; exact absurd T (by simp [TInv])
  | rNext _ hp => rw [hp] at T; exact absurd T (by simp [TInv])
  | clear _ hkk hq => cases hk'
  | _ =>
    first
    | exact M.pub
    | (intro i hi
       obtain ⟨h1, h2, h3, h4⟩ := M.pub i hi
       refine ⟨h1, h2, ?_, h4⟩
       simp only [HB.load_msg]
       exact h3)

theorem relsub_step {c : Cfg} {s s' : State} {a : Nat} (M : Main s) (h : UStep c s s' a)
    (hk : s.clearing = false) (hk' : s'.clearing = false) :
    ∀ t i, s'.hb.relv t i = true → s'.hb.seen t i = true := by
  have T := M.tinv a
  have R := M.relsub
  have hfence : ∀ o t i, (s.hb.fence a o).relv t i = true → (s.hb.fence a o).seen t i = true := by
    intro o t i hr
    by_cases hta : t = a
    · subst hta
      simp only [HB.fence, upd_same] at hr ⊢
      split at hr
      · exact hr
      · have := R t i hr
        split <;> simp [this]
    · rw [HB.fence_relv_other _ _ _ hta] at hr
      exact HB.fence_seen_mono _ _ _ _ _ (R t i hr)
  have hload : ∀ j o t i, (s.hb.load a j o).relv t i = true → (s.hb.load a j o).seen t i = true := by
    intro j o t i hr
    rw [HB.load_relv] at hr
    exact HB.load_seen_mono _ _ _ _ _ _ (R t i hr)
  have hrmw : ∀ j o t i, (s.hb.rmw a j o).relv t i = true → (s.hb.rmw a j o).seen t i = true := by
    intro j o t i hr
    rw [HB.rmw_relv] at hr
    exact HB.rmw_seen_mono _ _ _ _ _ _ (R t i hr)
  cases h with
  | pFill _ b e vals hp hl =>
    intro t i hr
    exact HB.fill_seen_mono _ _ _ _ _ _ (R t i hr)
  | pRel _ b pe e hp => exact hfence ordPubFence
  | wSc _ sv b pe e hp => exact hfence (scOrd sv)
  | kAcq _ b e m hp => exact hfence ordAcqFence
  | wLd _ sv b pe e j hp => exact hload j ordWakeLoad
  | wCasFail _ sv b pe e j v hp => exact hload j ordWakeCasFail
  | kClosed _ b e j hp => exact hload j ordIsClosed
  | kPub _ b e j hp => exact hload j ordIsPublished
  | kWait _ b e j hp => exact hload j ordWaitLoad
  | kCasFail _ b e j v hp => exact hload j ordWaitCasFail
  | kReload _ b e j hp => exact hload j ordWaitReload
  | wCasOk _ sv b pe e j v hp hv => exact hrmw j ordWakeCasSucc
  | kCasOk _ b e j v hp hv => exact hrmw j ordWaitCasSucc
  | rSt _ j hp => rw [hp] at T; exact absurd T (by simp [TInv])
  | rNext _ hp => rw [hp] at T; exact absurd T (by simp [TInv])
  | clear _ hkk hq => cases hk'
  | _ => exact R

theorem pending_startPieces {pe e i : Nat} (h : pe ≤ i ∧ i < e) : (startPieces pe e).pending i := by
  unfold startPieces
  split
  · exact h
  · omega

theorem pending_nextWake {sv b pe e j i : Nat} (h : sv = stPublished ∧ pe ≤ i ∧ i < e) : (nextWake sv b pe e j).pending i := by
  unfold nextWake
  split
  · exact h
  · exact pending_startPieces h.2

/-- a slot the actor still has to fill or store stays so, or has just been published by this step -/
theorem pend_actor {c : Cfg} {s s' : State} {a : Nat} (M : Main s) (h : UStep c s s' a)
    (hk : s.clearing = false) (hk' : s'.clearing = false) (i : Nat) (ho : s.own i = some a)
    (hpend : (s.pc a).pending i) : s'.own i = some a ∧ (stOf s' i = stPublished ∨ (s'.pc a).pending i) := by
  cases h with
  | pFill _ b e vals hp hl =>
    rw [hp] at hpend
    exact ⟨ho, Or.inr (by simp only [upd_same]; exact hpend)⟩
  | pRel _ b pe e hp =>
    rw [hp] at hpend
    exact ⟨ho, Or.inr (by simp only [upd_same]; exact ⟨rfl, hpend.1, hpend.2⟩)⟩
  | wSt _ sv b pe e j hp =>
    have T := M.tinv a
    rw [hp] at hpend T
    obtain ⟨h1, h2, h3⟩ := hpend
    refine ⟨ho, ?_⟩
    by_cases hij : i = j
    · subst hij
      left
      simp only [stOf, upd_same]
      rw [status_store16 _ _ (by rw [h1]; decide)]; exact h1
    · right
      simp only [upd_same]
      unfold nextStore
      split
      · exact ⟨h1, by omega, h3⟩
      · exact ⟨h1, by have := T.2; omega, h3⟩
  | wSc _ sv b pe e hp =>
    rw [hp] at hpend
    exact ⟨ho, Or.inr (by simp only [upd_same]; exact hpend)⟩
  | wLd _ sv b pe e j hp =>
    rw [hp] at hpend
    refine ⟨ho, Or.inr ?_⟩
    simp only [upd_same]
    split
    · exact pending_nextWake hpend
    · exact hpend
  | wCasOk _ sv b pe e j v hp hv =>
    rw [hp] at hpend
    exact ⟨ho, Or.inr (by simp only [upd_same]; exact hpend)⟩
  | wCasFail _ sv b pe e j v hp =>
    rw [hp] at hpend
    exact ⟨ho, Or.inr (by simp only [upd_same]; exact hpend)⟩
  | wWake _ sv b pe e j hp =>
    rw [hp] at hpend
    exact ⟨ho, Or.inr (by simp only [upd_same]; exact pending_nextWake hpend)⟩
  | pAdd _ n hp => rw [hp] at hpend; exact absurd hpend (by simp [Pc.pending])
  | cLd _ hp => rw [hp] at hpend; exact absurd hpend (by simp [Pc.pending])
  | kClosed _ b e j hp => rw [hp] at hpend; exact absurd hpend (by simp [Pc.pending])
  | kPub _ b e j hp => rw [hp] at hpend; exact absurd hpend (by simp [Pc.pending])
  | kWait _ b e j hp => rw [hp] at hpend; exact absurd hpend (by simp [Pc.pending])
  | kCasOk _ b e j v hp hv => rw [hp] at hpend; exact absurd hpend (by simp [Pc.pending])
  | kCasFail _ b e j v hp => rw [hp] at hpend; exact absurd hpend (by simp [Pc.pending])
  | kFwaitSleep _ b e j v hp hv => rw [hp] at hpend; exact absurd hpend (by simp [Pc.pending])
  | kFwaitAgain _ b e j v hp hv => rw [hp] at hpend; exact absurd hpend (by simp [Pc.pending])
  | kWoke _ b e j hp => rw [hp] at hpend; exact absurd hpend (by simp [Pc.pending])
  | kReload _ b e j hp => rw [hp] at hpend; exact absurd hpend (by simp [Pc.pending])
  | kAcq _ b e m hp => rw [hp] at hpend; exact absurd hpend (by simp [Pc.pending])
  | rSt _ j hp => rw [hp] at hpend; exact absurd hpend (by simp [Pc.pending])
  | rNext _ hp => rw [hp] at hpend; exact absurd hpend (by simp [Pc.pending])
  | publish _ n hp hc hkk => rw [hp] at hpend; exact absurd hpend (by simp [Pc.pending])
  | close _ hp hkk hq => rw [hp] at hpend; exact absurd hpend (by simp [Pc.pending])
  | consume _ n hp hkk => rw [hp] at hpend; exact absurd hpend (by simp [Pc.pending])
  | subscribe _ hp hkk => rw [hp] at hpend; exact absurd hpend (by simp [Pc.pending])
  | ret _ b e m hp => rw [hp] at hpend; exact absurd hpend (by simp [Pc.pending])
  | clear _ hkk hq => cases hk'
  | spuriousWake _ b e j hp => rw [hp] at hpend; exact absurd hpend (by simp [Pc.pending])

theorem own_keep {c : Cfg} {s s' : State} {a : Nat} (M : Main s) (h : UStep c s s' a) (hk' : s'.clearing = false)
    (i t : Nat) (ho : s.own i = some t) : s'.own i = some t := by
  cases h with
  | pAdd _ n hp =>
    have := M.own_lt ho
    have hr : inRange s.next (s.next + n) i = false := by rw [inRange_false_iff]; omega
    simp [hr, ho]
  | rNext _ hp => have T := M.tinv a; rw [hp] at T; exact absurd T (by simp [TInv])
  | _ => exact ho

theorem lo_step {c : Cfg} {s s' : State} {a : Nat} (M : Main s) (h : UStep c s s' a)
    (hk : s.clearing = false) (hk' : s'.clearing = false) :
    ∀ i, i < s'.next → ∃ t, s'.own i = some t ∧ (stOf s' i = stPublished ∨ (s'.pc t).pending i) := by
  -- slots that existed before the step
  have old : ∀ i, i < s.next → ∃ t, s'.own i = some t ∧ (stOf s' i = stPublished ∨ (s'.pc t).pending i) := by
    intro i hi
    obtain ⟨t, ho, hp⟩ := M.lo i hi
    refine ⟨t, own_keep M h hk' i t ho, ?_⟩
    rcases hp with hp | hp
    · left; rw [stNZ_step M h hk hk' i (by rw [hp]; exact stP_ne)]; exact hp
    · by_cases hta : t = a
      · subst hta; exact (pend_actor M h hk hk' i ho hp).2
      · right
        rcases pc_other M h t hta with e | ⟨b, e, j, h1, h2⟩
        · rw [e]; exact hp
        · rw [h1] at hp; exact absurd hp (by simp [Pc.pending])
  cases h with
  | pAdd _ n hp =>
    intro i hi
    have hi' : i < s.next + n := hi
    by_cases hlt : i < s.next
    · exact old i hlt
    · refine ⟨a, ?_, Or.inr ?_⟩
      · have hr : inRange s.next (s.next + n) i = true := by simp; omega
        simp [hr]
      · simp only [upd_same]
        exact pending_startPieces ⟨by omega, hi'⟩
  | rNext _ hp => have T := M.tinv a; rw [hp] at T; exact absurd T (by simp [TInv])
  | _ => exact old

theorem closedst_step {c : Cfg} {s s' : State} {a : Nat} (M : Main s) (h : UStep c s s' a)
    (hk : s.clearing = false) (hk' : s'.clearing = false) :
    s'.closed = true → stOf s' s'.next = stClosed ∨ ∃ w, (s'.pc w).willClose := by
  have T := M.tinv a
  -- the generic case: `next` and `closed` unchanged, the actor is not a closer about to store
  have keep : s'.next = s.next → s'.closed = s.closed → ((s.pc a).willClose → False) →
      s'.closed = true → stOf s' s'.next = stClosed ∨ ∃ w, (s'.pc w).willClose := by
    intro hn hc hact hcl
    rw [hc] at hcl
    rcases M.closedst hcl with q | ⟨w, q⟩
    · left; rw [hn, stNZ_step M h hk hk' _ (by rw [q]; exact stC_ne)]; exact q
    · right
      by_cases hwa : w = a
      · subst hwa; exact absurd q hact
      · refine ⟨w, ?_⟩
        rcases pc_other M h w hwa with e | ⟨b, e, j, h1, h2⟩
        · rw [e]; exact q
        · rw [h1] at q; exact absurd q (by simp [Pc.willClose])
  cases h with
  | pAdd _ n hp =>
    intro hcl; rw [hp] at T; have : s.closed = false := T; rw [this] at hcl; cases hcl
  | pFill _ b e vals hp hl => exact keep rfl rfl (fun q => by rw [hp] at q; exact q)
  | pRel _ b pe e hp => exact keep rfl rfl (fun q => by rw [hp] at q; exact q)
  | wSt _ sv b pe e j hp =>
    rw [hp] at T
    obtain ⟨⟨w1, w2, w3, w4, w5, w6, w7⟩, w8⟩ := T
    rcases w7 with ⟨a1, -⟩ | ⟨a1, a2, a3, a4, a5⟩
    · exact keep rfl rfl (fun q => by rw [hp] at q; have q' : sv = stClosed := q; rw [a1] at q'; exact absurd q' (by decide))
    · intro _
      left
      have hj : j = s.next := by omega
      show status (upd s.word j (store16 (s.word j) sv) s.next) = stClosed
      rw [← hj, upd_same, status_store16 _ _ (by rw [a1]; decide)]; exact a1
  | wSc _ sv b pe e hp => exact keep rfl rfl (fun q => by rw [hp] at q; exact q)
  | wLd _ sv b pe e j hp => exact keep rfl rfl (fun q => by rw [hp] at q; exact q)
  | wCasOk _ sv b pe e j v hp hv => exact keep rfl rfl (fun q => by rw [hp] at q; exact q)
  | wCasFail _ sv b pe e j v hp => exact keep rfl rfl (fun q => by rw [hp] at q; exact q)
  | wWake _ sv b pe e j hp => exact keep rfl rfl (fun q => by rw [hp] at q; exact q)
  | cLd _ hp =>
    intro _; exact Or.inr ⟨a, by show (upd s.pc a _ a).willClose; rw [upd_same]; rfl⟩
  | kClosed _ b e j hp => exact keep rfl rfl (fun q => by rw [hp] at q; exact q)
  | kPub _ b e j hp => exact keep rfl rfl (fun q => by rw [hp] at q; exact q)
  | kWait _ b e j hp => exact keep rfl rfl (fun q => by rw [hp] at q; exact q)
  | kCasOk _ b e j v hp hv => exact keep rfl rfl (fun q => by rw [hp] at q; exact q)
  | kCasFail _ b e j v hp => exact keep rfl rfl (fun q => by rw [hp] at q; exact q)
  | kFwaitSleep _ b e j v hp hv => exact keep rfl rfl (fun q => by rw [hp] at q; exact q)
  | kFwaitAgain _ b e j v hp hv => exact keep rfl rfl (fun q => by rw [hp] at q; exact q)
  | kWoke _ b e j hp => exact keep rfl rfl (fun q => by rw [hp] at q; exact q)
  | kReload _ b e j hp => exact keep rfl rfl (fun q => by rw [hp] at q; exact q)
  | kAcq _ b e m hp => exact keep rfl rfl (fun q => by rw [hp] at q; exact q)
  | rSt _ j hp =>
    rw [hp] at T; exact absurd T (by simp [TInv])
  | rNext _ hp =>
    rw [hp] at T; exact absurd T (by simp [TInv])
  | publish _ n hp hc hkk => exact keep rfl rfl (fun q => by rw [hp] at q; exact q)
  | close _ hp hkk hq =>
    intro _; exact Or.inr ⟨a, by show (upd s.pc a .cLd a).willClose; rw [upd_same]; trivial⟩
  | consume _ n hp hkk => exact keep rfl rfl (fun q => by rw [hp] at q; exact q)
  | subscribe _ hp hkk => exact keep rfl rfl (fun q => by rw [hp] at q; exact q)
  | ret _ b e m hp => exact keep rfl rfl (fun q => by rw [hp] at q; exact q)
  | clear _ hkk hq =>
    cases hk'
  | spuriousWake _ b e j hp => exact keep rfl rfl (fun q => by rw [hp] at q; exact q)

end Babylon.Topic
