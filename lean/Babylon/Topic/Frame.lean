/-
  Frame lemma: what a thread's `TInv` needs from a step of the system in order to survive it
  (`Ext`), and that it does survive (`TInv_frame`).
-/
import Babylon.Topic.Inv

namespace Babylon.Topic
open Babylon.Core Babylon.Gen.Topic

/-- `s'` extends `s` from the point of view of thread `u` sitting at program point `p` -/
structure Ext (s s' : State) (u : Nat) (p : Pc) : Prop where
  cap : s.cap ≤ s'.cap
  cur : s'.cur u = s.cur u
  stNZ : ∀ i, stOf s i ≠ stInitial → stOf s' i = stOf s i
  own : ∀ i, s.own i = some u → s'.own i = some u ∧ stOf s' i = stOf s i ∧ s'.filled i = s.filled i ∧
          s'.val i = s.val i ∧ s'.item i = s.item i
  acqp : ∀ i, s.hb.acqp u i = true → s'.hb.acqp u i = true
  seen : ∀ i, s.hb.seen u i = true → s'.hb.seen u i = true
  relv : ∀ i, s.hb.relv u i = true → s'.hb.relv u i = true
  closedT : s.closed = true → s'.closed = true ∧ s'.next = s.next
  closedF : p.publishing = true → s.closed = false → s'.closed = false

theorem stP_ne : stPublished ≠ stInitial := by decide
theorem stC_ne : stClosed ≠ stInitial := by decide
theorem pub_ne : (stPublished != stClosed) = true := by decide

theorem KInv_frame {s s' : State} {u : Nat} {p : Pc} (x : Ext s s' u p) {b e j : Nat}
    (h : KInv s u b e j) : KInv s' u b e j := by
  obtain ⟨h1, h2, h3, h4, h5⟩ := h
  refine ⟨by rw [x.cur]; exact h1, h2, h3, Nat.le_trans h4 x.cap, ?_⟩
  intro i hb hj
  obtain ⟨ha, hq⟩ := h5 i hb hj
  refine ⟨?_, hq.imp (x.acqp i) (x.seen i)⟩
  rw [x.stNZ i (by rw [ha]; exact stP_ne)]; exact ha

theorem WInv_frame {s s' : State} {u : Nat} {p : Pc} (x : Ext s s' u p) {sv b pe e j : Nat} (hp : sv = stPublished → p.publishing = true)
    (h : WInv s u sv b pe e j) : WInv s' u sv b pe e j := by
  obtain ⟨h1, h2, h3, h4, h5, h6, h7⟩ := h
  have hsv : sv ≠ stInitial := by
    rcases h7 with h7 | h7
    · rw [h7.1]; exact stP_ne
    · rw [h7.1]; exact stC_ne
  refine ⟨h1, h2, Nat.le_trans h3 x.cap, h4, h5, ?_, ?_⟩
  · intro i hb hj
    rw [x.stNZ i (by rw [h6 i hb hj]; exact hsv)]; exact h6 i hb hj
  · rcases h7 with ⟨a1, a2, a3, a4, a5, a6⟩ | ⟨a1, a2, a3, a4, a5⟩
    · left
      refine ⟨a1, x.closedF (hp a1) a2, fun i hb he => (x.own i (a3 i hb he)).1, ?_, ?_, ?_⟩
      · intro i hj hpe
        obtain ⟨q1, q2, q3⟩ := a4 i hj hpe
        obtain ⟨-, o2, o3, o4, o5⟩ := x.own i (a3 i (by omega) (by omega))
        exact ⟨by rw [o2]; exact q1, by rw [o3]; exact q2, by rw [o4, o5]; exact q3⟩
      · intro i hb hpe
        exact ⟨x.relv i (a5 i hb hpe).1, x.seen i (a5 i hb hpe).2⟩
      · intro i hpe he
        obtain ⟨q1, q2⟩ := a6 i hpe he
        obtain ⟨-, o2, o3, -, -⟩ := x.own i (a3 i (by omega) he)
        exact ⟨by rw [o2]; exact q1, by rw [o3]; exact q2⟩
    · right
      obtain ⟨c1, c2⟩ := x.closedT a2
      exact ⟨a1, c1, by rw [c2]; exact a3, a4, a5⟩

theorem TInv_frame {s s' : State} {u : Nat} {p : Pc} (x : Ext s s' u p) (h : TInv s u p) : TInv s' u p := by
  cases p with
  | idle => trivial
  | pAdd n => exact x.closedF rfl h
  | pFill b e =>
    obtain ⟨h1, h2, h3, h4⟩ := h
    refine ⟨x.closedF rfl h1, h2, Nat.le_trans h3 x.cap, ?_⟩
    intro i hb he
    obtain ⟨q1, q2, q3⟩ := h4 i hb he
    obtain ⟨o1, o2, o3, -, -⟩ := x.own i q1
    exact ⟨o1, by rw [o2]; exact q2, by rw [o3]; exact q3⟩
  | pRel b pe e =>
    obtain ⟨h1, h2, h3, h4, h5, h6, h7⟩ := h
    refine ⟨x.closedF rfl h1, h2, h3, Nat.le_trans h4 x.cap, fun i hb he => (x.own i (h5 i hb he)).1, ?_, ?_⟩
    · intro i hb hpe
      obtain ⟨q1, q2, q3, q4⟩ := h6 i hb hpe
      obtain ⟨-, o2, o3, o4, o5⟩ := x.own i (h5 i hb (by omega))
      exact ⟨by rw [o2]; exact q1, by rw [o3]; exact q2, by rw [o4, o5]; exact q3, x.seen i q4⟩
    · intro i hpe he
      obtain ⟨q1, q2⟩ := h7 i hpe he
      obtain ⟨-, o2, o3, -, -⟩ := x.own i (h5 i (by omega) he)
      exact ⟨by rw [o2]; exact q1, by rw [o3]; exact q2⟩
  | wSt sv b pe e j =>
    exact ⟨WInv_frame x (fun h' => by subst h'; exact pub_ne) h.1, h.2⟩
  | wSc sv b pe e => exact WInv_frame x (fun h' => by subst h'; exact pub_ne) h
  | wLd sv b pe e j => exact ⟨WInv_frame x (fun h' => by subst h'; exact pub_ne) h.1, h.2⟩
  | wCas sv b pe e j v => exact ⟨WInv_frame x (fun h' => by subst h'; exact pub_ne) h.1, h.2⟩
  | wWake sv b pe e j => exact ⟨WInv_frame x (fun h' => by subst h'; exact pub_ne) h.1, h.2⟩
  | cLd => exact (x.closedT h).1
  | kClosed b e j => exact KInv_frame x h
  | kPub b e j => exact KInv_frame x h
  | kWait b e j => exact KInv_frame x h
  | kSleep b e j => exact KInv_frame x h
  | kWoke b e j => exact KInv_frame x h
  | kReload b e j => exact KInv_frame x h
  | kCas b e j v => exact ⟨KInv_frame x h.1, h.2⟩
  | kFwait b e j v => exact ⟨KInv_frame x h.1, h.2⟩
  | kAcq b e m =>
    obtain ⟨h1, h2, h3, h4⟩ := h
    refine ⟨by rw [x.cur]; exact h1, h2, ?_, ?_⟩
    · intro i hb hm
      obtain ⟨ha, hq⟩ := h3 i hb hm
      exact ⟨by rw [x.stNZ i (by rw [ha]; exact stP_ne)]; exact ha, hq.imp (x.acqp i) (x.seen i)⟩
    · intro hm
      rw [x.stNZ _ (by rw [h4 hm]; exact stC_ne)]; exact h4 hm
  | kRet b e m =>
    obtain ⟨h1, h2, h3⟩ := h
    refine ⟨by rw [x.cur]; exact h1, h2, ?_⟩
    intro hm
    rw [x.stNZ _ (by rw [h3 hm]; exact stC_ne)]; exact h3 hm
  | rSt j => exact h
  | rNext => exact h

end Babylon.Topic
