/-
  `UStep`: the transition relation `Step` of the transient-topic model unfolded into one
  constructor per program point (the label is dropped), so that invariant proofs can do
  `cases` on it and see the successor state as an explicit record update.
  `Step c s s' → UStep c s s'` (`ustep_of_step`).
-/
import Babylon.Topic.Basic

namespace Babylon.Topic
open Babylon.Core Babylon.Gen.Topic

inductive UStep (c : Cfg) (s : State) : State → Nat → Prop
  | pAdd (t n : Nat) (hp : s.pc t = .pAdd n) :
      UStep c s { s with next := s.next + n, cap := reserveTo c s.cap (s.next + n),
                         claims := fun k => s.claims k + (if inRange s.next (s.next + n) k then 1 else 0),
                         own := fun k => if inRange s.next (s.next + n) k then some t else s.own k,
                         pc := upd s.pc t (startPieces s.next (s.next + n)) } t
  | pFill (t b e : Nat) (vals : List Nat) (hp : s.pc t = .pFill b e) (hl : vals.length = pieceEnd c b e - b) :
      UStep c s { s with val := fillVals s.val b vals, item := fillVals s.item b vals,
                         filled := fun k => inRange b (pieceEnd c b e) k || s.filled k,
                         hb := s.hb.fill t b (pieceEnd c b e - b),
                         pc := upd s.pc t (.pRel b (pieceEnd c b e) e) } t
  | pRel (t b pe e : Nat) (hp : s.pc t = .pRel b pe e) :
      UStep c s { s with hb := s.hb.fence t ordPubFence, pc := upd s.pc t (.wSt stPublished b pe e b) } t
  | wSt (t st b pe e j : Nat) (hp : s.pc t = .wSt st b pe e j) :
      UStep c s { s with word := upd s.word j (store16 (s.word j) st), hb := s.hb.store t j (storeOrd st),
                         pc := upd s.pc t (nextStore st b pe e j) } t
  | wSc (t st b pe e : Nat) (hp : s.pc t = .wSc st b pe e) :
      UStep c s { s with hb := s.hb.fence t (scOrd st), pc := upd s.pc t (.wLd st b pe e b) } t
  | wLd (t st b pe e j : Nat) (hp : s.pc t = .wLd st b pe e j) :
      UStep c s { s with hb := s.hb.load t j ordWakeLoad,
                         pc := upd s.pc t (if s.word j ≤ noWaiterMax then nextWake st b pe e j else .wCas st b pe e j (s.word j)) } t
  | wCasOk (t st b pe e j v : Nat) (hp : s.pc t = .wCas st b pe e j v) (hv : s.word j = v) :
      UStep c s { s with word := upd s.word j (status v), hb := s.hb.rmw t j ordWakeCasSucc,
                         pc := upd s.pc t (.wWake st b pe e j) } t
  | wCasFail (t st b pe e j v : Nat) (hp : s.pc t = .wCas st b pe e j v) :
      UStep c s { s with hb := s.hb.load t j ordWakeCasFail, pc := upd s.pc t (.wWake st b pe e j) } t
  | wWake (t st b pe e j : Nat) (hp : s.pc t = .wWake st b pe e j) :
      UStep c s { s with pc := upd (wakeAll s.pc j) t (nextWake st b pe e j) } t
  | cLd (t : Nat) (hp : s.pc t = .cLd) :
      UStep c s { s with cap := ensureTo c s.cap s.next,
                         pc := upd s.pc t (.wSt stClosed s.next (s.next + 1) (s.next + 1) s.next) } t
  | kClosed (t b e j : Nat) (hp : s.pc t = .kClosed b e j) :
      UStep c s { s with hb := s.hb.load t j ordIsClosed,
                         pc := upd s.pc t (if status (s.word j) = stClosed then .kAcq b e (j - b) else .kPub b e j) } t
  | kPub (t b e j : Nat) (hp : s.pc t = .kPub b e j) :
      UStep c s { s with hb := s.hb.load t j ordIsPublished,
                         pc := upd s.pc t (if status (s.word j) = stPublished then kLoop b e (j + 1) else .kWait b e j) } t
  | kWait (t b e j : Nat) (hp : s.pc t = .kWait b e j) :
      UStep c s { s with hb := s.hb.load t j ordWaitLoad,
                         pc := upd s.pc t (if status (s.word j) ≠ stInitial then kLoop b e j else waitSlow b e j (s.word j)) } t
  | kCasOk (t b e j v : Nat) (hp : s.pc t = .kCas b e j v) (hv : s.word j = v) :
      UStep c s { s with word := upd s.word j (v + waiterUnit), hb := s.hb.rmw t j ordWaitCasSucc,
                         pc := upd s.pc t (.kFwait b e j (v + waiterUnit)) } t
  | kCasFail (t b e j v : Nat) (hp : s.pc t = .kCas b e j v) :
      UStep c s { s with hb := s.hb.load t j ordWaitCasFail, pc := upd s.pc t (.kReload b e j) } t
  | kFwaitSleep (t b e j v : Nat) (hp : s.pc t = .kFwait b e j v) (hv : s.word j = v) :
      UStep c s { s with pc := upd s.pc t (.kSleep b e j) } t
  | kFwaitAgain (t b e j v : Nat) (hp : s.pc t = .kFwait b e j v) (hv : s.word j ≠ v) :
      UStep c s { s with pc := upd s.pc t (.kReload b e j) } t
  | kWoke (t b e j : Nat) (hp : s.pc t = .kWoke b e j) :
      UStep c s { s with pc := upd s.pc t (.kReload b e j) } t
  | kReload (t b e j : Nat) (hp : s.pc t = .kReload b e j) :
      UStep c s { s with hb := s.hb.load t j ordWaitReload,
                         pc := upd s.pc t (if status (s.word j) = stInitial then waitSlow b e j (s.word j) else kLoop b e j) } t
  | kAcq (t b e m : Nat) (hp : s.pc t = .kAcq b e m) :
      UStep c s { s with cur := upd s.cur t (b + m), hb := s.hb.fence t ordAcqFence, pc := upd s.pc t (.kRet b e m) } t
  | rSt (t j : Nat) (hp : s.pc t = .rSt j) :
      UStep c s { s with word := upd s.word j stInitial, pc := upd s.pc t (if j + 1 < s.cap then .rSt (j + 1) else .rNext) } t
  | rNext (t : Nat) (hp : s.pc t = .rNext) :
      UStep c s { State.fresh s.val s.cap s.item with word := s.word } t
  | publish (t n : Nat) (hp : s.pc t = .idle) (hc : s.closed = false) (hk : s.clearing = false) :
      UStep c s { s with pc := upd s.pc t (.pAdd n) } t
  | close (t : Nat) (hp : s.pc t = .idle) (hk : s.clearing = false) (hq : ∀ u, (s.pc u).publishing = false) :
      UStep c s { s with closed := true, pc := upd s.pc t .cLd } t
  | consume (t n : Nat) (hp : s.pc t = .idle) (hk : s.clearing = false) :
      UStep c s { s with cap := reserveTo c s.cap (s.cur t + n), pc := upd s.pc t (kLoop (s.cur t) (s.cur t + n) (s.cur t)) } t
  | subscribe (t : Nat) (hp : s.pc t = .idle) (hk : s.clearing = false) :
      UStep c s { s with cur := upd s.cur t 0, got := upd s.got t [] } t
  | ret (t b e m : Nat) (hp : s.pc t = .kRet b e m) :
      UStep c s { s with got := upd s.got t (s.got t ++ readRange s b m), pc := upd s.pc t .idle } t
  | clear (t : Nat) (hk : s.clearing = false) (hq : ∀ u, s.pc u = .idle) :
      UStep c s { s with clearing := true, pc := upd s.pc t (if 0 < s.cap then .rSt 0 else .rNext) } t
  | spuriousWake (t b e j : Nat) (hp : s.pc t = .kSleep b e j) :
      UStep c s { s with pc := upd s.pc t (.kWoke b e j) } t

theorem ustep_of_thread {c : Cfg} {s s' : State} {t : Nat} {i : Inp} {l : Act}
    (h : stepThread c s t i = some (s', l)) : UStep c s s' t := by
  unfold stepThread at h
  split at h
  all_goals try (cases h; done)
  · rename_i n hp; obtain ⟨h1, -⟩ := Prod.mk.inj (Option.some.inj h); subst h1; exact UStep.pAdd t n hp
  · rename_i b e hp
    dsimp only at h
    split at h
    · rename_i hl; obtain ⟨h1, -⟩ := Prod.mk.inj (Option.some.inj h); subst h1; exact UStep.pFill t b e i.vals hp hl
    · cases h
  · rename_i b pe e hp; obtain ⟨h1, -⟩ := Prod.mk.inj (Option.some.inj h); subst h1; exact UStep.pRel t b pe e hp
  · rename_i st b pe e j hp; obtain ⟨h1, -⟩ := Prod.mk.inj (Option.some.inj h); subst h1; exact UStep.wSt t st b pe e j hp
  · rename_i st b pe e hp; obtain ⟨h1, -⟩ := Prod.mk.inj (Option.some.inj h); subst h1; exact UStep.wSc t st b pe e hp
  · rename_i st b pe e j hp; obtain ⟨h1, -⟩ := Prod.mk.inj (Option.some.inj h); subst h1; exact UStep.wLd t st b pe e j hp
  · rename_i st b pe e j v hp
    split at h
    · rename_i hv; obtain ⟨h1, -⟩ := Prod.mk.inj (Option.some.inj h); subst h1; exact UStep.wCasOk t st b pe e j v hp hv.1
    · obtain ⟨h1, -⟩ := Prod.mk.inj (Option.some.inj h); subst h1; exact UStep.wCasFail t st b pe e j v hp
  · rename_i st b pe e j hp; obtain ⟨h1, -⟩ := Prod.mk.inj (Option.some.inj h); subst h1; exact UStep.wWake t st b pe e j hp
  · rename_i hp; obtain ⟨h1, -⟩ := Prod.mk.inj (Option.some.inj h); subst h1; exact UStep.cLd t hp
  · rename_i b e j hp; obtain ⟨h1, -⟩ := Prod.mk.inj (Option.some.inj h); subst h1; exact UStep.kClosed t b e j hp
  · rename_i b e j hp; obtain ⟨h1, -⟩ := Prod.mk.inj (Option.some.inj h); subst h1; exact UStep.kPub t b e j hp
  · rename_i b e j hp; obtain ⟨h1, -⟩ := Prod.mk.inj (Option.some.inj h); subst h1; exact UStep.kWait t b e j hp
  · rename_i b e j v hp
    split at h
    · rename_i hv; obtain ⟨h1, -⟩ := Prod.mk.inj (Option.some.inj h); subst h1; exact UStep.kCasOk t b e j v hp hv.1
    · obtain ⟨h1, -⟩ := Prod.mk.inj (Option.some.inj h); subst h1; exact UStep.kCasFail t b e j v hp
  · rename_i b e j v hp
    split at h
    · rename_i hv; obtain ⟨h1, -⟩ := Prod.mk.inj (Option.some.inj h); subst h1; exact UStep.kFwaitSleep t b e j v hp hv
    · rename_i hv; obtain ⟨h1, -⟩ := Prod.mk.inj (Option.some.inj h); subst h1; exact UStep.kFwaitAgain t b e j v hp hv
  · rename_i b e j hp; obtain ⟨h1, -⟩ := Prod.mk.inj (Option.some.inj h); subst h1; exact UStep.kWoke t b e j hp
  · rename_i b e j hp; obtain ⟨h1, -⟩ := Prod.mk.inj (Option.some.inj h); subst h1; exact UStep.kReload t b e j hp
  · rename_i b e m hp; obtain ⟨h1, -⟩ := Prod.mk.inj (Option.some.inj h); subst h1; exact UStep.kAcq t b e m hp
  · rename_i j hp; obtain ⟨h1, -⟩ := Prod.mk.inj (Option.some.inj h); subst h1; exact UStep.rSt t j hp
  · rename_i hp; obtain ⟨h1, -⟩ := Prod.mk.inj (Option.some.inj h); subst h1; exact UStep.rNext t hp

theorem ustep_of_step {c : Cfg} {s s' : State} (h : Step c s s') : ∃ a, UStep c s s' a := by
  cases h with
  | act t i s' l h => exact ⟨t, ustep_of_thread h⟩
  | publish t n hp hc hk => exact ⟨t, UStep.publish t n hp hc hk⟩
  | close t hp hk hq => exact ⟨t, UStep.close t hp hk hq⟩
  | consume t n hp hk => exact ⟨t, UStep.consume t n hp hk⟩
  | subscribe t hp hk => exact ⟨t, UStep.subscribe t hp hk⟩
  | ret t b e m hp => exact ⟨t, UStep.ret t b e m hp⟩
  | clear t hk hq => exact ⟨t, UStep.clear t hk hq⟩
  | spuriousWake t b e j hp => exact ⟨t, UStep.spuriousWake t b e j hp⟩

end Babylon.Topic
