/-
  Explicit finite executions of the transient-topic transition system: a list of `Move`s is run by an
  executable function that checks every precondition of `Step` (the quantified client-contract
  premises are checked for the threads `0 .. N-1`; threads from `N` on stay idle); a successful run is
  a `Step`-path (`run_reachable`).  Used for the non-vacuity examples of Properties/C15.
-/
import Babylon.Topic.UStep

namespace Babylon.Topic
open Babylon.Core Babylon.Gen.Topic
set_option linter.unusedVariables false

inductive Move
  | act (t : Nat) (sp : Bool) (vals : List Nat)   -- thread `t` performs its next atomic action
  | publish (t n : Nat)
  | close (t : Nat)
  | consume (t n : Nat)
  | subscribe (t : Nat)
  | ret (t : Nat)
  | clear (t : Nat)
  deriving Repr

def applyMove (c : Cfg) (N : Nat) (s : State) : Move → Option State
  | .act t sp vals => if t < N then (stepThread c s t { spurious := sp, vals := vals }).map (·.1) else none
  | .publish t n =>
    if t < N ∧ s.pc t = .idle ∧ s.closed = false ∧ s.clearing = false then some (callPublish s t n) else none
  | .close t =>
    if t < N ∧ s.pc t = .idle ∧ s.clearing = false ∧ (List.range N).all (fun u => !(s.pc u).publishing) = true then
      some (callClose s t) else none
  | .consume t n => if t < N ∧ s.pc t = .idle ∧ s.clearing = false then some (callConsume c s t n) else none
  | .subscribe t => if t < N ∧ s.pc t = .idle ∧ s.clearing = false then some (subscribe s t) else none
  | .ret t =>
    match s.pc t with
    | .kRet b _ m => if t < N then some (retConsume s t b m) else none
    | _ => none
  | .clear t =>
    if t < N ∧ s.clearing = false ∧ (List.range N).all (fun u => decide (s.pc u = .idle)) = true then
      some (callClear s t) else none

/-- threads from `N` on are idle -/
def Bounded (N : Nat) (s : State) : Prop := ∀ u, N ≤ u → s.pc u = .idle

theorem bounded_ustep {c : Cfg} {N : Nat} {s s' : State} {a : Nat} (h : UStep c s s' a) (ha : a < N)
    (hb : Bounded N s) : Bounded N s' := by
  have other : ∀ (p : Pc) u, N ≤ u → upd s.pc a p u = .idle := by
    intro p u hu
    rw [upd_other _ _ (by omega)]; exact hb u hu
  cases h with
  | pAdd _ n hp => exact other _
  | pFill _ b e vals hp hl => exact other _
  | pRel _ b pe e hp => exact other _
  | wSt _ sv b pe e j hp => exact other _
  | wSc _ sv b pe e hp => exact other _
  | wLd _ sv b pe e j hp => exact other _
  | wCasOk _ sv b pe e j v hp hv => exact other _
  | wCasFail _ sv b pe e j v hp => exact other _
  | wWake _ sv b pe e j hp =>
    intro u hu
    show upd (wakeAll s.pc j) a _ u = .idle
    rw [upd_other _ _ (by omega)]
    simp only [wakeAll, hb u hu]
  | cLd _ hp => exact other _
  | kClosed _ b e j hp => exact other _
  | kPub _ b e j hp => exact other _
  | kWait _ b e j hp => exact other _
  | kCasOk _ b e j v hp hv => exact other _
  | kCasFail _ b e j v hp => exact other _
  | kFwaitSleep _ b e j v hp hv => exact other _
  | kFwaitAgain _ b e j v hp hv => exact other _
  | kWoke _ b e j hp => exact other _
  | kReload _ b e j hp => exact other _
  | kAcq _ b e m hp => exact other _
  | rSt _ j hp => exact other _
  | rNext _ hp => intro u hu; rfl
  | publish _ n hp hc hkk => exact other _
  | close _ hp hkk hq => exact other _
  | consume _ n hp hkk => exact other _
  | subscribe _ hp hkk => exact hb
  | ret _ b e m hp => exact other _
  | clear _ hkk hq => exact other _
  | spuriousWake _ b e j hp => exact other _

theorem applyMove_step {c : Cfg} {N : Nat} {s s' : State} {m : Move} (hb : Bounded N s)
    (h : applyMove c N s m = some s') : Step c s s' ∧ Bounded N s' := by
  cases m with
  | act t sp vals =>
    simp only [applyMove] at h
    split at h
    · rename_i ht
      simp only [Option.map_eq_some_iff] at h
      obtain ⟨⟨s1, l⟩, h1, h2⟩ := h
      simp only at h2; subst h2
      exact ⟨Step.act s t _ s1 l h1, bounded_ustep (ustep_of_thread h1) ht hb⟩
    · cases h
  | publish t n =>
    simp only [applyMove] at h
    split at h
    · rename_i hp; simp only [Option.some.injEq] at h; subst h
      exact ⟨Step.publish s t n hp.2.1 hp.2.2.1 hp.2.2.2, bounded_ustep (c := c) (UStep.publish t n hp.2.1 hp.2.2.1 hp.2.2.2) hp.1 hb⟩
    · cases h
  | close t =>
    simp only [applyMove] at h
    split at h
    · rename_i hp; simp only [Option.some.injEq] at h; subst h
      have hq : ∀ u, (s.pc u).publishing = false := by
        intro u
        by_cases hu : u < N
        · have := List.all_eq_true.mp hp.2.2.2 u (List.mem_range.mpr hu)
          simpa using this
        · rw [hb u (by omega)]; rfl
      exact ⟨Step.close s t hp.2.1 hp.2.2.1 hq, bounded_ustep (c := c) (UStep.close t hp.2.1 hp.2.2.1 hq) hp.1 hb⟩
    · cases h
  | consume t n =>
    simp only [applyMove] at h
    split at h
    · rename_i hp; simp only [Option.some.injEq] at h; subst h
      exact ⟨Step.consume s t n hp.2.1 hp.2.2, bounded_ustep (c := c) (UStep.consume t n hp.2.1 hp.2.2) hp.1 hb⟩
    · cases h
  | subscribe t =>
    simp only [applyMove] at h
    split at h
    · rename_i hp; simp only [Option.some.injEq] at h; subst h
      exact ⟨Step.subscribe s t hp.2.1 hp.2.2, bounded_ustep (c := c) (UStep.subscribe t hp.2.1 hp.2.2) hp.1 hb⟩
    · cases h
  | ret t =>
    simp only [applyMove] at h
    split at h
    · rename_i b e m hp
      split at h
      · rename_i ht; simp only [Option.some.injEq] at h; subst h
        exact ⟨Step.ret s t b e m hp, bounded_ustep (c := c) (UStep.ret t b e m hp) ht hb⟩
      · cases h
    · cases h
  | clear t =>
    simp only [applyMove] at h
    split at h
    · rename_i hp; simp only [Option.some.injEq] at h; subst h
      have hq : ∀ u, s.pc u = .idle := by
        intro u
        by_cases hu : u < N
        · have := List.all_eq_true.mp hp.2.2 u (List.mem_range.mpr hu)
          simpa using this
        · exact hb u (by omega)
      exact ⟨Step.clear s t hp.2.1 hq, bounded_ustep (c := c) (UStep.clear t hp.2.1 hq) hp.1 hb⟩
    · cases h

def run (c : Cfg) (N : Nat) : State → List Move → Option State
  | s, [] => some s
  | s, m :: ms =>
    match applyMove c N s m with
    | some s' => run c N s' ms
    | none => none

theorem run_reachable {c : Cfg} {N : Nat} {init : State → Prop} :
    ∀ (ms : List Move) (s s' : State), Reachable init (Step c) s → Bounded N s →
      run c N s ms = some s' → Reachable init (Step c) s'
  | [], s, s', hr, _, h => by simp only [run, Option.some.injEq] at h; subst h; exact hr
  | m :: ms, s, s', hr, hb, h => by
    simp only [run] at h
    split at h
    · rename_i s1 h1
      obtain ⟨hs, hb1⟩ := applyMove_step hb h1
      exact run_reachable ms s1 s' (Reachable.tail hr hs) hb1 h
    · cases h

theorem run_bounded {c : Cfg} {N : Nat} :
    ∀ (ms : List Move) (s s' : State), Bounded N s → run c N s ms = some s' → Bounded N s'
  | [], s, s', hb, h => by simp only [run, Option.some.injEq] at h; subst h; exact hb
  | m :: ms, s, s', hb, h => by
    simp only [run] at h
    split at h
    · rename_i s1 h1
      exact run_bounded ms s1 s' (applyMove_step hb h1).2 h
    · cases h

end Babylon.Topic
