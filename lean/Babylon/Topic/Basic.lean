/-
  Basic facts used by the invariant proofs of the transient-topic model: function update, futex-word
  arithmetic (status / waiter half), block pieces, the happens-before ghost operations.
-/
import Babylon.Topic.Model
import Babylon.Core.Reach

namespace Babylon.Topic
open Babylon.Core Babylon.Gen.Topic

@[simp] theorem upd_same {α : Type} (f : Nat → α) (i : Nat) (v : α) : upd f i v i = v := by simp [upd]
theorem upd_other {α : Type} (f : Nat → α) {i j : Nat} (v : α) (h : j ≠ i) : upd f i v j = f j := by
  simp [upd, h]
theorem upd_apply {α : Type} (f : Nat → α) (i j : Nat) (v : α) : upd f i v j = if j = i then v else f j := rfl

/-! ### futex word arithmetic -/
theorem waiterUnit_eq : waiterUnit = 65536 := by decide
theorem noWaiterMax_eq : noWaiterMax = 65535 := by decide
theorem stInitial_eq : stInitial = 0 := by decide
theorem stPublished_eq : stPublished = 1 := by decide
theorem stClosed_eq : stClosed = 2 := by decide

theorem status_def (w : Nat) : status w = w % 65536 := by simp [status, waiterUnit_eq]

theorem status_store16 (w st : Nat) (h : st < 65536) : status (store16 w st) = st := by
  simp only [status_def, store16, waiterUnit_eq]; omega
theorem status_add_unit (w : Nat) : status (w + waiterUnit) = status w := by
  simp only [status_def, waiterUnit_eq]; omega
theorem status_status (w : Nat) : status (status w) = status w := by
  simp only [status_def]; omega
theorem store16_ge (w st : Nat) (h : waiterUnit ≤ w) : waiterUnit ≤ store16 w st := by
  have hU : 0 < waiterUnit := by decide
  have h1 : 1 ≤ w / waiterUnit := (Nat.le_div_iff_mul_le hU).2 (by simpa using h)
  have h2 : 1 * waiterUnit ≤ w / waiterUnit * waiterUnit := Nat.mul_le_mul_right _ h1
  simp only [store16]
  omega
theorem store16_ne_zero (w st : Nat) (h : st ≠ 0) : store16 w st ≠ 0 := by
  simp only [store16]; omega
theorem status_lt (w : Nat) : status w < 65536 := by simp only [status_def]; omega
theorem status_eq_self {w : Nat} (h : w ≤ noWaiterMax) : status w = w := by
  simp only [status_def, noWaiterMax_eq] at *; omega
theorem status_ne_zero_ne {w : Nat} (h : status w ≠ 0) : w ≠ 0 := by
  intro e; subst e; simp [status_def] at h

/-! ### ranges and block pieces -/
@[simp] theorem inRange_iff (b e i : Nat) : inRange b e i = true ↔ b ≤ i ∧ i < e := by
  simp [inRange]
theorem inRange_false_iff (b e i : Nat) : inRange b e i = false ↔ ¬ (b ≤ i ∧ i < e) := by
  rw [← inRange_iff]; cases inRange b e i <;> simp

theorem pieceEnd_gt {c : Cfg} (hbs : 0 < c.bs) {b e : Nat} (h : b < e) : b < pieceEnd c b e := by
  simp only [pieceEnd]
  have h1 : b < (b / c.bs + 1) * c.bs := by
    have := Nat.lt_div_mul_add (a := b) hbs
    rw [Nat.add_mul]; omega
  omega
theorem pieceEnd_le (c : Cfg) (b e : Nat) : pieceEnd c b e ≤ e := by
  simp only [pieceEnd]; omega

theorem reserveTo_ge_cap (c : Cfg) (cap size : Nat) : cap ≤ reserveTo c cap size := by
  simp only [reserveTo]; omega
theorem reserveTo_ge_size {c : Cfg} (hbs : 0 < c.bs) (cap size : Nat) : size ≤ reserveTo c cap size := by
  simp only [reserveTo]
  have h1 : size + (c.bs - 1) < ((size + (c.bs - 1)) / c.bs + 1) * c.bs := by
    have := Nat.lt_div_mul_add (a := size + (c.bs - 1)) hbs
    rw [Nat.add_mul]; omega
  rw [Nat.add_mul] at h1
  omega
theorem ensureTo_ge_cap (c : Cfg) (cap idx : Nat) : cap ≤ ensureTo c cap idx := by
  simp only [ensureTo]; omega
theorem ensureTo_gt_idx {c : Cfg} (hbs : 0 < c.bs) (cap idx : Nat) : idx < ensureTo c cap idx := by
  simp only [ensureTo]
  have h1 : idx < (idx / c.bs + 1) * c.bs := by
    have := Nat.lt_div_mul_add (a := idx) hbs
    rw [Nat.add_mul]; omega
  omega

/-! ### payload update -/
theorem fillVals_out (f : Nat → Nat) (b : Nat) (vals : List Nat) {i : Nat} (h : ¬ (b ≤ i ∧ i < b + vals.length)) :
    fillVals f b vals i = f i := by
  simp only [fillVals]
  by_cases hb : b ≤ i
  · have : vals.length ≤ i - b := by omega
    simp [hb, List.getElem?_eq_none this]
  · simp [hb]

/-- both the payload and the `item` ghost receive the same values -/
theorem fillVals_in_eq (f g : Nat → Nat) (b : Nat) (vals : List Nat) {i : Nat} (h : b ≤ i ∧ i < b + vals.length) :
    fillVals f b vals i = fillVals g b vals i := by
  simp only [fillVals, h.1, if_true]
  have : i - b < vals.length := by omega
  simp [List.getElem?_eq_getElem this]

/-! ### happens-before ghost: what each operation changes -/
@[simp] theorem kjoin_apply (a b : Nat → Bool) (i : Nat) : kjoin a b i = (a i || b i) := rfl

theorem HB.load_seen_mono (h : HB) (t j : Nat) (o : Ord) (u i : Nat) (hs : h.seen u i = true) :
    (h.load t j o).seen u i = true := by
  unfold HB.load; split
  · by_cases hu : u = t
    · subst hu; simp [hs]
    · simp [upd_other _ _ hu, hs]
  · exact hs
theorem HB.load_acqp_mono (h : HB) (t j : Nat) (o : Ord) (u i : Nat) (hs : h.acqp u i = true) :
    (h.load t j o).acqp u i = true := by
  unfold HB.load; split
  · exact hs
  · by_cases hu : u = t
    · subst hu; simp [hs]
    · simp [upd_other _ _ hu, hs]
@[simp] theorem HB.load_relv (h : HB) (t j : Nat) (o : Ord) : (h.load t j o).relv = h.relv := by
  unfold HB.load; split <;> rfl
@[simp] theorem HB.load_msg (h : HB) (t j : Nat) (o : Ord) : (h.load t j o).msg = h.msg := by
  unfold HB.load; split <;> rfl
/-- a relaxed-or-stronger load of a word whose message knows `i` makes `i` known to the reader at
the latest after its next acquire fence -/
theorem HB.load_gets (h : HB) (t j : Nat) (o : Ord) (i : Nat) (hm : h.msg j i = true) :
    (h.load t j o).acqp t i = true ∨ (h.load t j o).seen t i = true := by
  unfold HB.load; split
  · right; simp [hm]
  · left; simp [hm]

@[simp] theorem HB.store_seen (h : HB) (t j : Nat) (o : Ord) : (h.store t j o).seen = h.seen := rfl
@[simp] theorem HB.store_acqp (h : HB) (t j : Nat) (o : Ord) : (h.store t j o).acqp = h.acqp := rfl
@[simp] theorem HB.store_relv (h : HB) (t j : Nat) (o : Ord) : (h.store t j o).relv = h.relv := rfl
theorem HB.store_msg_other (h : HB) (t j : Nat) (o : Ord) {k : Nat} (hk : k ≠ j) : (h.store t j o).msg k = h.msg k := by
  simp [HB.store, upd_other _ _ hk]
theorem HB.store_msg_same (h : HB) (t j : Nat) (o : Ord) : (h.store t j o).msg j = h.src t o := by
  simp [HB.store]
/-- a thread's release-fence snapshot is part of what any of its stores publishes -/
theorem HB.src_of_relv (h : HB) (t : Nat) (o : Ord) (i : Nat) (hr : h.relv t i = true) (hle : ∀ i, h.relv t i = true → h.seen t i = true) :
    h.src t o i = true := by
  unfold HB.src; split
  · exact hle i hr
  · exact hr

theorem HB.rmw_seen_mono (h : HB) (t j : Nat) (o : Ord) (u i : Nat) (hs : h.seen u i = true) :
    (h.rmw t j o).seen u i = true := by
  simp only [HB.rmw]; exact HB.load_seen_mono h t j o u i hs
theorem HB.rmw_acqp_mono (h : HB) (t j : Nat) (o : Ord) (u i : Nat) (hs : h.acqp u i = true) :
    (h.rmw t j o).acqp u i = true := by
  simp only [HB.rmw]; exact HB.load_acqp_mono h t j o u i hs
@[simp] theorem HB.rmw_relv (h : HB) (t j : Nat) (o : Ord) : (h.rmw t j o).relv = h.relv := by
  simp [HB.rmw]
theorem HB.rmw_msg_mono (h : HB) (t j : Nat) (o : Ord) (k i : Nat) (hm : h.msg k i = true) :
    (h.rmw t j o).msg k i = true := by
  simp only [HB.rmw, HB.load_msg]
  by_cases hk : k = j
  · subst hk; simp [hm]
  · simp [upd_other _ _ hk, hm]

theorem HB.fence_seen_mono (h : HB) (t : Nat) (o : Ord) (u i : Nat) (hs : h.seen u i = true) :
    (h.fence t o).seen u i = true := by
  simp only [HB.fence]
  by_cases hu : u = t
  · subst hu; simp only [upd_same]; split <;> simp [hs]
  · simp [upd_other _ _ hu, hs]
@[simp] theorem HB.fence_acqp (h : HB) (t : Nat) (o : Ord) : (h.fence t o).acqp = h.acqp := rfl
@[simp] theorem HB.fence_msg (h : HB) (t : Nat) (o : Ord) : (h.fence t o).msg = h.msg := rfl
theorem HB.fence_relv_other (h : HB) (t : Nat) (o : Ord) {u : Nat} (hu : u ≠ t) : (h.fence t o).relv u = h.relv u := by
  simp [HB.fence, upd_other _ _ hu]
theorem HB.fence_relv_self (h : HB) (t : Nat) (o : Ord) (i : Nat) (hr : h.relv t i = true)
    (hsub : h.relv t i = true → h.seen t i = true) : (h.fence t o).relv t i = true := by
  simp only [HB.fence, upd_same]
  split
  · split <;> simp [hsub hr]
  · exact hr
/-- an acquiring fence turns pending knowledge into knowledge -/
theorem HB.fence_acquires (h : HB) (t : Nat) (o : Ord) (ho : o.acquires = true) (i : Nat) (ha : h.acqp t i = true) :
    (h.fence t o).seen t i = true := by
  simp [HB.fence, ho, ha]
/-- a releasing fence snapshots the thread's knowledge -/
theorem HB.fence_releases (h : HB) (t : Nat) (o : Ord) (ho : o.releases = true) (i : Nat) (hs : h.seen t i = true) :
    (h.fence t o).relv t i = true := by
  simp only [HB.fence, upd_same, ho, if_true]
  split <;> simp [hs]

theorem HB.fill_seen_mono (h : HB) (t b n : Nat) (u i : Nat) (hs : h.seen u i = true) :
    (h.fill t b n).seen u i = true := by
  simp only [HB.fill]
  by_cases hu : u = t
  · subst hu; simp [hs]
  · simp [upd_other _ _ hu, hs]
theorem HB.fill_seen_in (h : HB) (t b n i : Nat) (hi : b ≤ i ∧ i < b + n) : (h.fill t b n).seen t i = true := by
  simp [HB.fill, hi.1, hi.2]
@[simp] theorem HB.fill_acqp (h : HB) (t b n : Nat) : (h.fill t b n).acqp = h.acqp := rfl
@[simp] theorem HB.fill_relv (h : HB) (t b n : Nat) : (h.fill t b n).relv = h.relv := rfl
@[simp] theorem HB.fill_msg (h : HB) (t b n : Nat) : (h.fill t b n).msg = h.msg := rfl

end Babylon.Topic
