/-
  Termination of `consume` once everything is published and closed: in a quiet state (closed, no
  publish / close call in progress) every consumer inside `consume` can take its next step, the step
  keeps the state quiet, strictly decreases the consumer's `rank` and leaves every other thread's
  rank alone — so each `consume` call returns after at most `rank` of its own steps, under every
  schedule.
-/
import Babylon.Topic.Use

namespace Babylon.Topic
open Babylon.Core Babylon.Gen.Topic
set_option linter.unusedVariables false

/-- inside `consume`, before the range is returned -/
def Pc.consuming : Pc → Bool
  | .kClosed _ _ _ | .kPub _ _ _ | .kWait _ _ _ | .kCas _ _ _ _ | .kFwait _ _ _ _ | .kSleep _ _ _
  | .kWoke _ _ _ | .kReload _ _ _ | .kAcq _ _ _ => true
  | _ => false

/-- bound on the number of own steps until `consume` returns, valid in quiet states -/
def rankPc (s : State) : Pc → Nat
  | .kClosed _ e j => 8 * (e - j) + (if stOf s j = stClosed then 2 else 6)
  | .kPub _ e j => 8 * (e - j) + (if stOf s j = stClosed then 4 else 5)
  | .kWait _ e j | .kReload _ e j => 8 * (e - j) + (if stOf s j = stClosed then 3 else 7)
  | .kCas _ e j _ | .kFwait _ e j _ | .kWoke _ e j | .kSleep _ e j => 8 * (e - j) + 8
  | .kAcq _ _ _ => 1
  | _ => 0

def rank (s : State) (t : Nat) : Nat := rankPc s (s.pc t)

theorem rankPc_congr {s s' : State} (h : s'.word = s.word) (p : Pc) : rankPc s' p = rankPc s p := by
  cases p <;> simp only [rankPc, stOf, h] <;> rfl

theorem rankPc_kLoop_lt {s : State} {b e j : Nat} (hj : j < e) (n : Nat) (hn : 5 ≤ n) :
    rankPc s (kLoop b e (j + 1)) < 8 * (e - j) + n := by
  unfold kLoop
  split
  · simp only [rankPc]
    split <;> omega
  · simp only [rankPc]; omega

theorem quiet_kinv_status {s : State} (M : Main s) (Q : Quiet s) {t b e j : Nat} (K : KInv s t b e j) :
    stOf s j = stPublished ∨ stOf s j = stClosed := by
  have hle := M.kinv_le_next K
  obtain ⟨hlo, hnext⟩ := M.quiet_status Q
  by_cases hlt : j < s.next
  · exact Or.inl (hlo j hlt)
  · have : j = s.next := by omega
    rw [this]; exact Or.inr hnext

theorem consume_enabled {c : Cfg} {s : State} (M : Main s) (Q : Quiet s) {t : Nat} (hc : (s.pc t).consuming = true) :
    ∃ i s' l, stepThread c s t i = some (s', l) := by
  cases hp : s.pc t <;> rw [hp] at hc <;> simp only [Pc.consuming] at hc <;> try (cases hc; done)
  case kSleep b e j => exact absurd hp (M.no_stuck Q t b e j)
  all_goals (refine ⟨{}, ?_⟩; unfold stepThread; rw [hp]; simp only []; first | exact ⟨_, _, rfl⟩ | (split <;> exact ⟨_, _, rfl⟩))

theorem consume_progress {c : Cfg} {s s' : State} {t : Nat} (M : Main s) (Q : Quiet s)
    (hc : (s.pc t).consuming = true) (h : UStep c s s' t) :
    Quiet s' ∧ rank s' t < rank s t ∧ ∀ u, u ≠ t → rank s' u = rank s u := by
  have T := M.tinv t
  -- a consumer step that changes only the happens-before ghost and the consumer's own program counter
  have fin : ∀ (hb' : HB) (p' : Pc), p'.wInfo = none → ¬ p'.willClose → rankPc s p' < rank s t →
      Quiet { s with hb := hb', pc := upd s.pc t p' } ∧ rank { s with hb := hb', pc := upd s.pc t p' } t < rank s t ∧
        ∀ u, u ≠ t → rank { s with hb := hb', pc := upd s.pc t p' } u = rank s u := by
    intro hb' p' h1 h2 h3
    refine ⟨⟨Q.1, fun u => ?_⟩, ?_, fun u hu => ?_⟩
    · by_cases hu : u = t
      · subst hu; show (upd s.pc u p' u).wInfo = none ∧ ¬ (upd s.pc u p' u).willClose
        rw [upd_same]; exact ⟨h1, h2⟩
      · show (upd s.pc t p' u).wInfo = none ∧ ¬ (upd s.pc t p' u).willClose
        rw [upd_other _ _ hu]; exact Q.2 u
    · have e : rankPc { s with hb := hb', pc := upd s.pc t p' } p' = rankPc s p' := rankPc_congr rfl p'
      show rankPc _ (upd s.pc t p' t) < _
      rw [upd_same, e]; exact h3
    · have e : rankPc { s with hb := hb', pc := upd s.pc t p' } (s.pc u) = rankPc s (s.pc u) := rankPc_congr rfl _
      show rankPc _ (upd s.pc t p' u) = _
      rw [upd_other _ _ hu, e]; rfl
  have wk : ∀ b e j, (kLoop b e j).wInfo = none ∧ ¬ (kLoop b e j).willClose := by
    intro b e j; unfold kLoop; split <;> exact ⟨rfl, id⟩
  have ws : ∀ b e j v, (waitSlow b e j v).wInfo = none ∧ ¬ (waitSlow b e j v).willClose := by
    intro b e j v; unfold waitSlow; split <;> exact ⟨rfl, id⟩
  cases h with
  | kClosed _ b e j hp =>
    rw [hp] at T
    have K : KInv s t b e j := T
    have hr : rank s t = 8 * (e - j) + (if stOf s j = stClosed then 2 else 6) := by simp [rank, hp, rankPc]
    rcases quiet_kinv_status M Q K with q | q
    · have hne : ¬ status (s.word j) = stClosed := by
        have : stOf s j = stPublished := q
        simp only [stOf] at this; rw [this]; decide
      rw [if_neg hne]
      refine fin _ _ rfl id ?_
      have : ¬ stOf s j = stClosed := hne
      rw [hr, if_neg this]; simp only [rankPc, if_neg this]; omega
    · have he : status (s.word j) = stClosed := q
      rw [if_pos he]
      refine fin _ _ rfl id ?_
      rw [hr, if_pos q]; simp only [rankPc]; omega
  | kPub _ b e j hp =>
    rw [hp] at T
    have K : KInv s t b e j := T
    have hr : rank s t = 8 * (e - j) + (if stOf s j = stClosed then 4 else 5) := by simp [rank, hp, rankPc]
    rcases quiet_kinv_status M Q K with q | q
    · have he : status (s.word j) = stPublished := q
      have hne : ¬ stOf s j = stClosed := by rw [q]; decide
      rw [if_pos he]
      refine fin _ _ (wk _ _ _).1 (wk _ _ _).2 ?_
      rw [hr, if_neg hne]
      exact rankPc_kLoop_lt K.2.2.1 5 (Nat.le_refl _)
    · have hne : ¬ status (s.word j) = stPublished := by
        have : stOf s j = stClosed := q
        simp only [stOf] at this; rw [this]; decide
      rw [if_neg hne]
      refine fin _ _ rfl id ?_
      rw [hr, if_pos q]; simp only [rankPc, if_pos q]; omega
  | kWait _ b e j hp =>
    rw [hp] at T
    have K : KInv s t b e j := T
    have hr : rank s t = 8 * (e - j) + (if stOf s j = stClosed then 3 else 7) := by simp [rank, hp, rankPc]
    have hnz : status (s.word j) ≠ stInitial := by
      rcases quiet_kinv_status M Q K with q | q
      · have : stOf s j = stPublished := q
        simp only [stOf] at this; rw [this]; exact stP_ne
      · have : stOf s j = stClosed := q
        simp only [stOf] at this; rw [this]; exact stC_ne
    rw [if_pos hnz]
    refine fin _ _ (wk _ _ _).1 (wk _ _ _).2 ?_
    rw [hr]
    have : kLoop b e j = .kClosed b e j := by unfold kLoop; rw [if_pos K.2.2.1]
    rw [this]; simp only [rankPc]
    split <;> omega
  | kReload _ b e j hp =>
    rw [hp] at T
    have K : KInv s t b e j := T
    have hr : rank s t = 8 * (e - j) + (if stOf s j = stClosed then 3 else 7) := by simp [rank, hp, rankPc]
    have hnz : ¬ status (s.word j) = stInitial := by
      rcases quiet_kinv_status M Q K with q | q
      · have : stOf s j = stPublished := q
        simp only [stOf] at this; rw [this]; exact stP_ne
      · have : stOf s j = stClosed := q
        simp only [stOf] at this; rw [this]; exact stC_ne
    rw [if_neg hnz]
    refine fin _ _ (wk _ _ _).1 (wk _ _ _).2 ?_
    rw [hr]
    have : kLoop b e j = .kClosed b e j := by unfold kLoop; rw [if_pos K.2.2.1]
    rw [this]; simp only [rankPc]
    split <;> omega
  | kCasOk _ b e j v hp hv =>
    rw [hp] at T
    obtain ⟨K, t2, t3⟩ := T
    exfalso
    rcases quiet_kinv_status M Q K with q | q
    · have : stOf s j = stInitial := by simp only [stOf, hv]; exact t2
      rw [this] at q; exact absurd q (by decide)
    · have : stOf s j = stInitial := by simp only [stOf, hv]; exact t2
      rw [this] at q; exact absurd q (by decide)
  | kCasFail _ b e j v hp =>
    have hr : rank s t = 8 * (e - j) + 8 := by simp [rank, hp, rankPc]
    refine fin _ _ rfl id ?_
    rw [hr]; simp only [rankPc]; split <;> omega
  | kFwaitSleep _ b e j v hp hv =>
    rw [hp] at T
    obtain ⟨K, t2, t3⟩ := T
    exfalso
    rcases quiet_kinv_status M Q K with q | q
    · have : stOf s j = stInitial := by simp only [stOf, hv]; exact t2
      rw [this] at q; exact absurd q (by decide)
    · have : stOf s j = stInitial := by simp only [stOf, hv]; exact t2
      rw [this] at q; exact absurd q (by decide)
  | kFwaitAgain _ b e j v hp hv =>
    have hr : rank s t = 8 * (e - j) + 8 := by simp [rank, hp, rankPc]
    have := fin s.hb (.kReload b e j) rfl id (by rw [hr]; simp only [rankPc]; split <;> omega)
    exact this
  | kWoke _ b e j hp =>
    have hr : rank s t = 8 * (e - j) + 8 := by simp [rank, hp, rankPc]
    have := fin s.hb (.kReload b e j) rfl id (by rw [hr]; simp only [rankPc]; split <;> omega)
    exact this
  | kAcq _ b e m hp =>
    have hr : rank s t = 1 := by simp [rank, hp, rankPc]
    refine ⟨⟨Q.1, fun u => ?_⟩, ?_, fun u hu => ?_⟩
    · by_cases hu : u = t
      · subst hu; show (upd s.pc u _ u).wInfo = none ∧ ¬ (upd s.pc u _ u).willClose
        rw [upd_same]; exact ⟨rfl, id⟩
      · show (upd s.pc t _ u).wInfo = none ∧ ¬ (upd s.pc t _ u).willClose
        rw [upd_other _ _ hu]; exact Q.2 u
    · show rankPc _ (upd s.pc t (.kRet b e m) t) < _
      rw [upd_same, hr]; simp [rankPc]
    · have eq1 : rankPc { s with cur := upd s.cur t (b + m), hb := s.hb.fence t ordAcqFence, pc := upd s.pc t (.kRet b e m) } (s.pc u) = rankPc s (s.pc u) :=
        rankPc_congr rfl _
      show rankPc _ (upd s.pc t (.kRet b e m) u) = _
      rw [upd_other _ _ hu, eq1]; rfl
  | spuriousWake _ b e j hp => exact absurd hp (M.no_stuck Q t b e j)
  | pAdd _ n hp => rw [hp] at hc; cases hc
  | pFill _ b e vals hp hl => rw [hp] at hc; cases hc
  | pRel _ b pe e hp => rw [hp] at hc; cases hc
  | wSt _ sv b pe e j hp => rw [hp] at hc; cases hc
  | wSc _ sv b pe e hp => rw [hp] at hc; cases hc
  | wLd _ sv b pe e j hp => rw [hp] at hc; cases hc
  | wCasOk _ sv b pe e j v hp hv => rw [hp] at hc; cases hc
  | wCasFail _ sv b pe e j v hp => rw [hp] at hc; cases hc
  | wWake _ sv b pe e j hp => rw [hp] at hc; cases hc
  | cLd _ hp => rw [hp] at hc; cases hc
  | rSt _ j hp => rw [hp] at hc; cases hc
  | rNext _ hp => rw [hp] at hc; cases hc
  | publish _ n hp hcl hkk => rw [hp] at hc; cases hc
  | close _ hp hkk hq => rw [hp] at hc; cases hc
  | consume _ n hp hkk => rw [hp] at hc; cases hc
  | subscribe _ hp hkk => rw [hp] at hc; cases hc
  | ret _ b e m hp => rw [hp] at hc; cases hc
  | clear _ hkk hq => rw [hq t] at hc; cases hc

end Babylon.Topic
