/-
  Consequences of `Main` used everywhere, and: every step outside `clear()` extends the state
  from the point of view of every thread other than the acting one (`ext_step`).
-/
import Babylon.Topic.Frame

namespace Babylon.Topic
open Babylon.Core Babylon.Gen.Topic
set_option linter.unusedVariables false

theorem Main.own_lt {s : State} (M : Main s) {i t : Nat} (h : s.own i = some t) : i < s.next := by
  by_cases hi : i < s.next
  · exact hi
  · have := (M.hi i (by omega)).1
    rw [h] at this; cases this

theorem stOf_upd_other (s : State) {i j : Nat} (v : Nat) (h : i ≠ j) : status (upd s.word j v i) = stOf s i := by
  simp [stOf, upd_other _ _ h]

/-- `Ext` when nothing but program counters, `got`, `claims` and the happens-before ghost changed -/
theorem Ext.of_same {s s' : State} {u : Nat} {p : Pc}
    (hw : s'.word = s.word) (ho : s'.own = s.own) (hf : s'.filled = s.filled) (hv : s'.val = s.val)
    (hi : s'.item = s.item) (hc : s.cap ≤ s'.cap) (hcur : s'.cur u = s.cur u) (hcl : s'.closed = s.closed)
    (hn : s'.next = s.next)
    (ha : ∀ i, s.hb.acqp u i = true → s'.hb.acqp u i = true)
    (hs : ∀ i, s.hb.seen u i = true → s'.hb.seen u i = true)
    (hr : ∀ i, s.hb.relv u i = true → s'.hb.relv u i = true) : Ext s s' u p where
  cap := hc
  cur := hcur
  stNZ := fun i _ => by simp [stOf, hw]
  own := fun i h => ⟨by rw [ho]; exact h, by simp [stOf, hw], by rw [hf], by rw [hv], by rw [hi]⟩
  acqp := ha
  seen := hs
  relv := hr
  closedT := fun h => ⟨by rw [hcl]; exact h, hn⟩
  closedF := fun _ h => by rw [hcl]; exact h

/-- the word of one slot changed, its status did not (waiter-bit CAS) -/
theorem Ext.of_word_same_status {s s' : State} {u : Nat} {p : Pc} (j v : Nat)
    (hw : s'.word = upd s.word j v) (hst : status v = stOf s j)
    (ho : s'.own = s.own) (hf : s'.filled = s.filled) (hv : s'.val = s.val)
    (hi : s'.item = s.item) (hc : s.cap ≤ s'.cap) (hcur : s'.cur u = s.cur u) (hcl : s'.closed = s.closed)
    (hn : s'.next = s.next)
    (ha : ∀ i, s.hb.acqp u i = true → s'.hb.acqp u i = true)
    (hs : ∀ i, s.hb.seen u i = true → s'.hb.seen u i = true)
    (hr : ∀ i, s.hb.relv u i = true → s'.hb.relv u i = true) : Ext s s' u p := by
  have hstall : ∀ i, stOf s' i = stOf s i := by
    intro i
    by_cases hij : i = j
    · subst hij; simp [stOf, hw, hst]
    · simp [stOf, hw, upd_other _ _ hij]
  exact {
    cap := hc
    cur := hcur
    stNZ := fun i _ => hstall i
    own := fun i h => ⟨by rw [ho]; exact h, hstall i, by rw [hf], by rw [hv], by rw [hi]⟩
    acqp := ha
    seen := hs
    relv := hr
    closedT := fun h => ⟨by rw [hcl]; exact h, hn⟩
    closedF := fun _ h => by rw [hcl]; exact h }

theorem Ext.load {s : State} {u : Nat} {p : Pc} (a j : Nat) (o : Ord) (pc' : Nat → Pc) :
    Ext s { s with hb := s.hb.load a j o, pc := pc' } u p :=
  Ext.of_same rfl rfl rfl rfl rfl (Nat.le_refl _) rfl rfl rfl (fun i h => HB.load_acqp_mono s.hb a j o u i h)
    (fun i h => HB.load_seen_mono s.hb a j o u i h) (fun i h => by rw [HB.load_relv]; exact h)

theorem Ext.fence {s : State} {u : Nat} {p : Pc} (a : Nat) (o : Ord) (pc' : Nat → Pc) (hu : u ≠ a) :
    Ext s { s with hb := s.hb.fence a o, pc := pc' } u p :=
  Ext.of_same rfl rfl rfl rfl rfl (Nat.le_refl _) rfl rfl rfl (fun i h => h)
    (fun i h => HB.fence_seen_mono s.hb a o u i h) (fun i h => by rw [HB.fence_relv_other _ _ _ hu]; exact h)

theorem Ext.fence_self {s : State} {p : Pc} (a : Nat) (o : Ord) (pc' : Nat → Pc)
    (hsub : ∀ i, s.hb.relv a i = true → s.hb.seen a i = true) :
    Ext s { s with hb := s.hb.fence a o, pc := pc' } a p :=
  Ext.of_same rfl rfl rfl rfl rfl (Nat.le_refl _) rfl rfl rfl (fun i h => h)
    (fun i h => HB.fence_seen_mono s.hb a o a i h) (fun i h => HB.fence_relv_self s.hb a o i h (hsub i))

theorem Ext.pcOnly {s : State} {u : Nat} {p : Pc} (pc' : Nat → Pc) : Ext s { s with pc := pc' } u p :=
  Ext.of_same rfl rfl rfl rfl rfl (Nat.le_refl _) rfl rfl rfl (fun i h => h) (fun i h => h) (fun i h => h)

theorem ext_step {c : Cfg} {s s' : State} {a : Nat} (M : Main s) (h : UStep c s s' a)
    (hk : s.clearing = false) (hk' : s'.clearing = false) (u : Nat) (hu : u ≠ a) : Ext s s' u (s.pc u) := by
  cases h with
  | pAdd _ n hp =>
    exact {
      cap := reserveTo_ge_cap _ _ _
      cur := rfl
      stNZ := fun i _ => rfl
      own := fun i h => by
        have hlt := M.own_lt h
        have : inRange s.next (s.next + n) i = false := by rw [inRange_false_iff]; omega
        exact ⟨by simp [this, h], rfl, rfl, rfl, rfl⟩
      acqp := fun i h => h
      seen := fun i h => h
      relv := fun i h => h
      closedT := fun hc => by
        have := M.tinv a; rw [hp] at this
        simp only [TInv] at this; rw [hc] at this; cases this
      closedF := fun _ h => h }
  | pFill _ b e vals hp hl =>
    have T := M.tinv a; rw [hp] at T
    obtain ⟨t1, t2, t3, t4⟩ := T
    refine {
      cap := Nat.le_refl _
      cur := rfl
      stNZ := fun i _ => rfl
      own := fun i h => ?_
      acqp := fun i h => h
      seen := fun i h => HB.fill_seen_mono s.hb a b _ u i h
      relv := fun i h => h
      closedT := fun hc => ⟨hc, rfl⟩
      closedF := fun _ h => h }
    -- a slot owned by `u` is not in the actor's range
    have hout : ¬ (b ≤ i ∧ i < e) := by
      intro hr
      have := (t4 i hr.1 hr.2).1
      rw [h] at this; exact hu (Option.some.inj this)
    have hpe := pieceEnd_le c b e
    have hout2 : ¬ (b ≤ i ∧ i < b + vals.length) := by rw [hl]; omega
    have hr : inRange b (pieceEnd c b e) i = false := by rw [inRange_false_iff]; omega
    exact ⟨h, rfl, by simp [hr], fillVals_out _ _ _ hout2, fillVals_out _ _ _ hout2⟩
  | pRel _ b pe e hp =>
    exact Ext.fence _ _ _ hu
  | wSt _ sv b pe e j hp =>
    have T := M.tinv a; rw [hp] at T
    obtain ⟨⟨w1, w2, w3, w4, w5, w6, w7⟩, w8⟩ := T
    refine {
      cap := Nat.le_refl _
      cur := rfl
      stNZ := fun i hnz => ?_
      own := fun i h => ?_
      acqp := fun i h => h
      seen := fun i h => h
      relv := fun i h => h
      closedT := fun hc => ⟨hc, rfl⟩
      closedF := fun _ h => h }
    · by_cases hij : i = j
      · subst hij
        rcases w7 with ⟨a1, -, -, a4, -, -⟩ | ⟨a1, a2, a3, a4, a5⟩
        · exact absurd (a4 i (Nat.le_refl _) w8).1 hnz
        · -- closer: slot `next` is INITIAL or already CLOSED
          have hh := (M.hi i (by omega)).2.2
          rcases hh with hh | hh
          · exact absurd hh hnz
          · simp only [stOf, upd_same]
            rw [status_store16 _ _ (by rw [a1]; decide)]
            rw [a1]; exact hh.1.symm
      · exact stOf_upd_other s _ hij
    · have hij : i ≠ j := by
        intro hij; subst hij
        rcases w7 with ⟨-, -, a3, -, -, -⟩ | ⟨-, -, a3, a4, -⟩
        · have := a3 i w4 (by omega)
          rw [h] at this; exact hu (Option.some.inj this)
        · have := (M.hi i (by omega)).1
          rw [h] at this; cases this
      exact ⟨h, stOf_upd_other s _ hij, rfl, rfl, rfl⟩
  | wSc _ sv b pe e hp =>
    exact Ext.fence _ _ _ hu
  | wLd _ sv b pe e j hp =>
    exact Ext.load _ _ _ _
  | wCasOk _ sv b pe e j v hp hv =>
    exact Ext.of_word_same_status j (status v) rfl (by rw [status_status, ← hv]; rfl) rfl rfl rfl rfl (Nat.le_refl _) rfl rfl rfl
      (fun i h => HB.rmw_acqp_mono s.hb a j _ u i h) (fun i h => HB.rmw_seen_mono s.hb a j _ u i h)
      (fun i h => by rw [HB.rmw_relv]; exact h)
  | wCasFail _ sv b pe e j v hp =>
    exact Ext.load _ _ _ _
  | wWake _ sv b pe e j hp =>
    exact Ext.pcOnly _
  | cLd _ hp =>
    exact Ext.of_same rfl rfl rfl rfl rfl (ensureTo_ge_cap _ _ _) rfl rfl rfl (fun i h => h) (fun i h => h) (fun i h => h)
  | kClosed _ b e j hp =>
    exact Ext.load _ _ _ _
  | kPub _ b e j hp =>
    exact Ext.load _ _ _ _
  | kWait _ b e j hp =>
    exact Ext.load _ _ _ _
  | kCasOk _ b e j v hp hv =>
    exact Ext.of_word_same_status j (v + waiterUnit) rfl (by rw [status_add_unit, ← hv]; rfl) rfl rfl rfl rfl (Nat.le_refl _) rfl rfl rfl
      (fun i h => HB.rmw_acqp_mono s.hb a j _ u i h) (fun i h => HB.rmw_seen_mono s.hb a j _ u i h)
      (fun i h => by rw [HB.rmw_relv]; exact h)
  | kCasFail _ b e j v hp =>
    exact Ext.load _ _ _ _
  | kFwaitSleep _ b e j v hp hv =>
    exact Ext.pcOnly _
  | kFwaitAgain _ b e j v hp hv =>
    exact Ext.pcOnly _
  | kWoke _ b e j hp =>
    exact Ext.pcOnly _
  | kReload _ b e j hp =>
    exact Ext.load _ _ _ _
  | kAcq _ b e m hp =>
    exact Ext.of_same rfl rfl rfl rfl rfl (Nat.le_refl _) (upd_other _ _ hu) rfl rfl (fun i h => h)
      (fun i h => HB.fence_seen_mono s.hb a _ u i h) (fun i h => by rw [HB.fence_relv_other _ _ _ hu]; exact h)
  | rSt _ j hp =>
    have := M.tinv a; rw [hp] at this; exact absurd this (by simp [TInv])
  | rNext _ hp =>
    have := M.tinv a; rw [hp] at this; exact absurd this (by simp [TInv])
  | publish _ n hp hc hkk =>
    exact Ext.pcOnly _
  | close _ hp hkk hq =>
    exact {
      cap := Nat.le_refl _
      cur := rfl
      stNZ := fun i _ => rfl
      own := fun i h => ⟨h, rfl, rfl, rfl, rfl⟩
      acqp := fun i h => h
      seen := fun i h => h
      relv := fun i h => h
      closedT := fun _ => ⟨rfl, rfl⟩
      closedF := fun hpub _ => by rw [hq u] at hpub; cases hpub }
  | consume _ n hp hkk =>
    exact Ext.of_same rfl rfl rfl rfl rfl (reserveTo_ge_cap _ _ _) rfl rfl rfl (fun i h => h) (fun i h => h) (fun i h => h)
  | subscribe _ hp hkk =>
    exact Ext.of_same rfl rfl rfl rfl rfl (Nat.le_refl _) (upd_other _ _ hu) rfl rfl (fun i h => h) (fun i h => h) (fun i h => h)
  | ret _ b e m hp =>
    exact Ext.of_same rfl rfl rfl rfl rfl (Nat.le_refl _) rfl rfl rfl (fun i h => h) (fun i h => h) (fun i h => h)
  | clear _ hkk hq => cases hk'
  | spuriousWake _ b e j hp =>
    exact Ext.pcOnly _

end Babylon.Topic
