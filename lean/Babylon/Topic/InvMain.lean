/-
  `Inv` is inductive: it holds in every initial state and is preserved by every `Step`
  (`inv_reachable`).
-/
import Babylon.Topic.StepW

namespace Babylon.Topic
open Babylon.Core Babylon.Gen.Topic
set_option linter.unusedVariables false

theorem main_step {c : Cfg} (hbs : 0 < c.bs) {s s' : State} {a : Nat} (M : Main s) (h : UStep c s s' a)
    (hk : s.clearing = false) (hk' : s'.clearing = false) : Main s' where
  tinv := tinv_step hbs M h hk hk'
  hi := hi_step M h hk hk'
  lo := lo_step M h hk hk'
  pub := pub_step M h hk hk'
  capw := capw_step M h hk hk'
  relsub := relsub_step M h hk hk'
  closedst := closedst_step M h hk hk'
  cons := cons_step M h hk hk'
  got := (got_step M h hk hk').1
  basele := (got_step M h hk hk').2
  wake := wake_step M h hk hk'

theorem status_zero : status 0 = stInitial := by decide

theorem main_fresh (val : Nat → Nat) (cap : Nat) (item : Nat → Nat) : Main (State.fresh val cap item) where
  tinv := fun t => trivial
  hi := fun i _ => ⟨rfl, rfl, Or.inl status_zero⟩
  lo := fun i hi => absurd hi (Nat.not_lt_zero _)
  pub := fun i hi => by
    have : stOf (State.fresh val cap item) i = stInitial := status_zero
    rw [this] at hi; exact absurd hi (by decide)
  capw := fun i hi => absurd rfl hi
  relsub := fun t i hi => by cases hi
  closedst := fun h => by cases h
  cons := fun t i hi => absurd hi (Nat.not_lt_zero _)
  got := fun t => rfl
  basele := fun t => Nat.le_refl _
  wake := fun t b e j hs => by cases hs

theorem claims_step {c : Cfg} {s s' : State} {a : Nat} (C : Claims s) (h : UStep c s s' a) : Claims s' := by
  cases h with
  | pAdd _ n hp =>
    intro i
    show s.claims i + (if inRange s.next (s.next + n) i then 1 else 0) = if i < s.next + n then 1 else 0
    rw [C i]
    by_cases h1 : i < s.next
    · have : inRange s.next (s.next + n) i = false := by rw [inRange_false_iff]; omega
      simp [h1, this]; omega
    · by_cases h2 : i < s.next + n
      · have : inRange s.next (s.next + n) i = true := by simp; omega
        simp [h1, h2, this]
      · have : inRange s.next (s.next + n) i = false := by rw [inRange_false_iff]; omega
        simp [h1, h2, this]
  | rNext _ hp => intro i; rfl
  | _ => exact C

/-- `Clr` → successor inside or at the end of `clear()` -/
theorem clr_step {c : Cfg} {s s' : State} {a : Nat} (hk : s.clearing = true) (R : Clr s) (h : UStep c s s' a) :
    (s'.clearing = true ∧ Clr s') ∨ (s'.clearing = false ∧ Main s') := by
  obtain ⟨t, hidle, hcap, hrest⟩ := R
  -- only the clearing thread can act
  have hact : ∀ u p, s.pc u = p → p ≠ .idle → u = t := by
    intro u p hp hne
    by_cases hut : u = t
    · exact hut
    · rw [hidle u hut] at hp; exact absurd hp.symm hne
  have hpt : s.pc t ≠ .idle := by
    rcases hrest with ⟨j, h1, -⟩ | ⟨h1, -⟩ <;> rw [h1] <;> simp
  have notmine : ∀ p, s.pc a = p → p ≠ .idle → (∀ j, p ≠ .rSt j) → p ≠ .rNext → False := by
    intro p hp h1 h2 h3
    have := hact a p hp h1
    subst this
    rcases hrest with ⟨j, q, -⟩ | ⟨q, -⟩
    · rw [q] at hp; exact h2 j hp.symm
    · rw [q] at hp; exact h3 hp.symm
  cases h with
  | rSt _ j hp =>
    have hat := hact a _ hp (by simp)
    subst hat
    rcases hrest with ⟨j', q, hj, hz⟩ | ⟨q, -⟩
    · rw [hp] at q
      obtain rfl := Pc.rSt.inj q
      left
      refine ⟨hk, a, ?_, ?_, ?_⟩
      · intro u hu; show upd s.pc a _ u = .idle; rw [upd_other _ _ hu]; exact hidle u hu
      · intro i hi
        have hi' : s.cap ≤ i := hi
        show upd s.word j stInitial i = 0
        rw [upd_other _ _ (by omega)]; exact hcap i hi'
      · by_cases hlt : j + 1 < s.cap
        · left
          refine ⟨j + 1, ?_, hlt, ?_⟩
          · show upd s.pc a _ a = _; rw [upd_same, if_pos hlt]
          · intro i hi
            show upd s.word j stInitial i = 0
            by_cases hij : i = j
            · subst hij; rw [upd_same]; rfl
            · rw [upd_other _ _ hij]; exact hz i (by omega)
        · right
          refine ⟨?_, ?_⟩
          · show upd s.pc a _ a = _; rw [upd_same, if_neg hlt]
          · intro i hi
            have hi' : i < s.cap := hi
            show upd s.word j stInitial i = 0
            by_cases hij : i = j
            · subst hij; rw [upd_same]; rfl
            · rw [upd_other _ _ hij]; exact hz i (by omega)
    · rw [hp] at q; cases q
  | rNext _ hp =>
    have hat := hact a _ hp (by simp)
    subst hat
    rcases hrest with ⟨j', q, -, -⟩ | ⟨q, hz⟩
    · rw [hp] at q; cases q
    · right
      refine ⟨rfl, ?_⟩
      have hw : s.word = fun _ => 0 := by
        funext i
        by_cases hi : i < s.cap
        · exact hz i hi
        · exact hcap i (by omega)
      have : ({ State.fresh s.val s.cap s.item with word := s.word } : State) = State.fresh s.val s.cap s.item := by
        simp only [State.fresh, hw]
      rw [this]
      exact main_fresh _ _ _
  | publish _ n hp hc hkk => rw [hk] at hkk; cases hkk
  | close _ hp hkk hq => rw [hk] at hkk; cases hkk
  | consume _ n hp hkk => rw [hk] at hkk; cases hkk
  | subscribe _ hp hkk => rw [hk] at hkk; cases hkk
  | clear _ hkk hq => rw [hk] at hkk; cases hkk
  | pAdd _ n hp => exact (notmine _ hp (by simp) (by simp) (by simp)).elim
  | pFill _ b e vals hp hl => exact (notmine _ hp (by simp) (by simp) (by simp)).elim
  | pRel _ b pe e hp => exact (notmine _ hp (by simp) (by simp) (by simp)).elim
  | wSt _ sv b pe e j hp => exact (notmine _ hp (by simp) (by simp) (by simp)).elim
  | wSc _ sv b pe e hp => exact (notmine _ hp (by simp) (by simp) (by simp)).elim
  | wLd _ sv b pe e j hp => exact (notmine _ hp (by simp) (by simp) (by simp)).elim
  | wCasOk _ sv b pe e j v hp hv => exact (notmine _ hp (by simp) (by simp) (by simp)).elim
  | wCasFail _ sv b pe e j v hp => exact (notmine _ hp (by simp) (by simp) (by simp)).elim
  | wWake _ sv b pe e j hp => exact (notmine _ hp (by simp) (by simp) (by simp)).elim
  | cLd _ hp => exact (notmine _ hp (by simp) (by simp) (by simp)).elim
  | kClosed _ b e j hp => exact (notmine _ hp (by simp) (by simp) (by simp)).elim
  | kPub _ b e j hp => exact (notmine _ hp (by simp) (by simp) (by simp)).elim
  | kWait _ b e j hp => exact (notmine _ hp (by simp) (by simp) (by simp)).elim
  | kCasOk _ b e j v hp hv => exact (notmine _ hp (by simp) (by simp) (by simp)).elim
  | kCasFail _ b e j v hp => exact (notmine _ hp (by simp) (by simp) (by simp)).elim
  | kFwaitSleep _ b e j v hp hv => exact (notmine _ hp (by simp) (by simp) (by simp)).elim
  | kFwaitAgain _ b e j v hp hv => exact (notmine _ hp (by simp) (by simp) (by simp)).elim
  | kWoke _ b e j hp => exact (notmine _ hp (by simp) (by simp) (by simp)).elim
  | kReload _ b e j hp => exact (notmine _ hp (by simp) (by simp) (by simp)).elim
  | kAcq _ b e m hp => exact (notmine _ hp (by simp) (by simp) (by simp)).elim
  | ret _ b e m hp => exact (notmine _ hp (by simp) (by simp) (by simp)).elim
  | spuriousWake _ b e j hp => exact (notmine _ hp (by simp) (by simp) (by simp)).elim

/-- the `clear()` call: `Main` → `Clr` -/
theorem clr_enter {c : Cfg} {s : State} (M : Main s) (t : Nat) (hq : ∀ u, s.pc u = .idle) :
    Clr { s with clearing := true, pc := upd s.pc t (if 0 < s.cap then .rSt 0 else .rNext) } := by
  refine ⟨t, ?_, ?_, ?_⟩
  · intro u hu; show upd s.pc t _ u = .idle; rw [upd_other _ _ hu]; exact hq u
  · intro i hi
    by_cases hz : s.word i = 0
    · exact hz
    · have := M.capw i hz
      have hi' : s.cap ≤ i := hi
      omega
  · by_cases hlt : 0 < s.cap
    · left
      refine ⟨0, ?_, hlt, fun i hi => absurd hi (Nat.not_lt_zero _)⟩
      show upd s.pc t _ t = _; rw [upd_same, if_pos hlt]
    · right
      refine ⟨?_, fun i hi => ?_⟩
      · show upd s.pc t _ t = _; rw [upd_same, if_neg hlt]
      · have hi' : i < s.cap := hi
        omega

theorem clearing_step {c : Cfg} {s s' : State} {a : Nat} (M : Main s) (h : UStep c s s' a)
    (hk : s.clearing = false) (hk' : s'.clearing = true) : Clr s' := by
  cases h with
  | clear _ hkk hq => exact clr_enter (c := c) M a hq
  | rNext _ hp => cases hk'
  | _ => rw [hk] at hk'; cases hk'

theorem inv_ustep {c : Cfg} (hbs : 0 < c.bs) {s s' : State} {a : Nat} (I : Inv s) (h : UStep c s s' a) : Inv s' := by
  obtain ⟨C, I⟩ := I
  refine ⟨claims_step C h, ?_⟩
  rcases I with ⟨hk, M⟩ | ⟨hk, R⟩
  · cases hk' : s'.clearing
    · exact Or.inl ⟨rfl, main_step hbs M h hk hk'⟩
    · exact Or.inr ⟨rfl, clearing_step M h hk hk'⟩
  · rcases clr_step hk R h with q | q
    · exact Or.inr q
    · exact Or.inl q

theorem inv_init {s : State} (h : Init s) : Inv s := by
  obtain ⟨val, cap, item, rfl⟩ := h
  exact ⟨fun i => by simp [State.fresh], Or.inl ⟨rfl, main_fresh val cap item⟩⟩

theorem inv_reachable {c : Cfg} (hbs : 0 < c.bs) {s : State} (h : Reachable Init (Step c) s) : Inv s :=
  Reachable.invariant Inv (fun _ h0 => inv_init h0)
    (fun s t I hst => by obtain ⟨a, hu⟩ := ustep_of_step hst; exact inv_ustep hbs I hu) s h

/-- the invariant outside `clear()` -/
theorem main_reachable {c : Cfg} (hbs : 0 < c.bs) {s : State} (h : Reachable Init (Step c) s)
    (hk : s.clearing = false) : Main s := by
  rcases (inv_reachable hbs h).2 with ⟨-, M⟩ | ⟨hk', -⟩
  · exact M
  · rw [hk] at hk'; cases hk'

end Babylon.Topic
