/-
  Consequences of the invariant `Main` / `Inv` in the shape the property theorems of C15 state them.
-/
import Babylon.Topic.InvMain

namespace Babylon.Topic
open Babylon.Core Babylon.Gen.Topic
set_option linter.unusedVariables false

/-- the index range `[b, e)` a publish call in progress still works on (from the start of its
current block piece) -/
def Pc.range : Pc → Nat → Prop
  | .pFill b e, i => b ≤ i ∧ i < e
  | .pRel b _ e, i => b ≤ i ∧ i < e
  | .wSt sv b _ e _, i | .wSc sv b _ e, i | .wLd sv b _ e _, i | .wCas sv b _ e _ _, i | .wWake sv b _ e _, i =>
      sv = stPublished ∧ b ≤ i ∧ i < e
  | _, _ => False

theorem Main.range_own {s : State} (M : Main s) {t i : Nat} (h : (s.pc t).range i) : s.own i = some t := by
  have T := M.tinv t
  cases hw : (s.pc t).wInfo with
  | none =>
    cases hp : s.pc t <;> rw [hp] at h T hw <;> simp only [Pc.range] at h <;> try (exact absurd h id)
    case pFill b e => exact (T.2.2.2 i h.1 h.2).1
    case pRel b pe e => exact T.2.2.2.2.1 i h.1 h.2
    all_goals (simp [Pc.wInfo] at hw)
  | some q =>
    obtain ⟨sv, b, pe, e, j⟩ := q
    have W := T.winv hw
    have hr : sv = stPublished ∧ b ≤ i ∧ i < e := by
      cases hp : s.pc t <;> rw [hp] at h hw <;> simp only [Pc.range] at h <;> try (exact absurd h id)
      all_goals first
        | (simp only [Pc.wInfo, Option.some.injEq, Prod.mk.injEq] at hw; obtain ⟨rfl, rfl, rfl, rfl, -⟩ := hw; exact h)
        | (simp [Pc.wInfo] at hw)
    rcases W.2.2.2.2.2.2 with w | w
    · exact w.2.2.1 i hr.2.1 hr.2.2
    · rw [hr.1] at w; exact absurd w.1 (by decide)

/-- two publish calls in progress never work on the same index -/
theorem Main.ranges_disjoint {s : State} (M : Main s) {t u i : Nat} (ht : (s.pc t).range i) (hu : (s.pc u).range i) :
    t = u := by
  have h1 := M.range_own ht
  have h2 := M.range_own hu
  rw [h1] at h2; exact Option.some.inj h2

/-- a consumer that returns a short range has seen CLOSED at the slot after it: `close()` was called,
the slot is `next`, i.e. everything ever published has been delivered to this consumer -/
theorem Main.end_after_all {s : State} (M : Main s) {t b e m : Nat} (hp : s.pc t = .kRet b e m) (hm : b + m < e) :
    s.closed = true ∧ b + m = s.next ∧ s.cur t = s.next ∧ ∀ i, i < s.next → stOf s i = stPublished := by
  have T := M.tinv t
  rw [hp] at T
  obtain ⟨t1, t2, t3⟩ := T
  have hc := t3 hm
  have hge : s.next ≤ b + m := by
    by_cases hlt : b + m < s.next
    · rcases M.lo_st hlt with q | q <;> rw [hc] at q <;> exact absurd q (by decide)
    · omega
  rcases (M.hi _ hge).2.2 with q | q
  · rw [hc] at q; exact absurd q (by decide)
  · refine ⟨q.2.1, q.2.2, by rw [t1]; exact q.2.2, ?_⟩
    intro i hi
    exact (M.cons t i (by rw [t1, q.2.2]; exact hi)).1

/-- no publish / close call in progress -/
def Quiet (s : State) : Prop :=
  s.closed = true ∧ ∀ u, (s.pc u).wInfo = none ∧ ¬ (s.pc u).willClose

theorem Main.quiet_status {s : State} (M : Main s) (Q : Quiet s) :
    (∀ i, i < s.next → stOf s i = stPublished) ∧ stOf s s.next = stClosed := by
  refine ⟨?_, ?_⟩
  · intro i hi
    obtain ⟨t, ho, hp⟩ := M.lo i hi
    rcases hp with hp | hp
    · exact hp
    · have := M.nopub Q.1 t
      rw [pending_publishing hp] at this; cases this
  · rcases M.closedst Q.1 with q | ⟨w, q⟩
    · exact q
    · exact absurd q (Q.2 w).2

/-- a consumer never looks beyond slot `next` -/
theorem Main.kinv_le_next {s : State} (M : Main s) {t b e j : Nat} (K : KInv s t b e j) : j ≤ s.next := by
  obtain ⟨k1, k2, k3, k4, k5⟩ := K
  by_cases hle : j ≤ s.next
  · exact hle
  · exfalso
    by_cases hb : b ≤ s.next
    · have := (M.pub _ (k5 s.next hb (by omega)).1).2.2.2
      omega
    · have := (M.pub _ (M.cons t s.next (by rw [k1]; omega)).1).2.2.2
      omega

/-- once everything is published and closed and no publish / close call is in progress, nobody is
blocked in futex_wait -/
theorem Main.no_stuck {s : State} (M : Main s) (Q : Quiet s) (t b e j : Nat) : s.pc t ≠ .kSleep b e j := by
  intro hp
  have T := M.tinv t
  rw [hp] at T
  have K : KInv s t b e j := T
  have hle := M.kinv_le_next K
  obtain ⟨hlo, hnext⟩ := M.quiet_status Q
  have hst : stOf s j ≠ stInitial := by
    by_cases hlt : j < s.next
    · rw [hlo j hlt]; exact stP_ne
    · have : j = s.next := by omega
      rw [this, hnext]; exact stC_ne
  rcases M.wake t b e j hp with ⟨q, -⟩ | ⟨-, w, q⟩ | ⟨w, q⟩
  · exact hst q
  · exact willLoad_winfo q (Q.2 w).1
  · exact loaded_winfo q (Q.2 w).1

/-- the last step of `clear()` produces a new topic -/
theorem clear_fresh {c : Cfg} (hbs : 0 < c.bs) {s : State} (h : Reachable Init (Step c) s) {t : Nat} (hp : s.pc t = .rNext) :
    Init { State.fresh s.val s.cap s.item with word := s.word } := by
  have I := inv_reachable hbs h
  rcases I.2 with ⟨-, M⟩ | ⟨hk, R⟩
  · have T := M.tinv t; rw [hp] at T; exact absurd T (by simp [TInv])
  · rcases clr_step hk R (UStep.rNext (c := c) t hp) with q | q
    · have : (State.fresh s.val s.cap s.item).clearing = true := q.1
      cases this
    · obtain ⟨u, hidle, hcap, hrest⟩ := R
      have hut : t = u := by
        by_cases hut : t = u
        · exact hut
        · rw [hidle t hut] at hp; cases hp
      subst hut
      rcases hrest with ⟨j, q1, -, -⟩ | ⟨-, hz⟩
      · rw [hp] at q1; cases q1
      · have hw : s.word = fun _ => 0 := by
          funext i
          by_cases hi : i < s.cap
          · exact hz i hi
          · exact hcap i (by omega)
        exact ⟨s.val, s.cap, s.item, by simp only [State.fresh, hw]⟩

end Babylon.Topic
