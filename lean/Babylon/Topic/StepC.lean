/-
  Preservation of the consumer parts of `Main` (`cons`, `got`, `basele`) by every step outside `clear()`.
-/
import Babylon.Topic.StepG

namespace Babylon.Topic
open Babylon.Core Babylon.Gen.Topic
set_option linter.unusedVariables false

theorem seen_mono_step {c : Cfg} {s s' : State} {a : Nat} (M : Main s) (h : UStep c s s' a)
    (hk' : s'.clearing = false) (t i : Nat) (hs : s.hb.seen t i = true) : s'.hb.seen t i = true := by
  cases h with
  | pFill _ b e vals hp hl => exact HB.fill_seen_mono s.hb a b _ t i hs
  | pRel _ b pe e hp => exact HB.fence_seen_mono s.hb a ordPubFence t i hs
  | wSc _ sv b pe e hp => exact HB.fence_seen_mono s.hb a (scOrd sv) t i hs
  | kAcq _ b e m hp => exact HB.fence_seen_mono s.hb a ordAcqFence t i hs
  | wLd _ sv b pe e j hp => exact HB.load_seen_mono s.hb a j ordWakeLoad t i hs
  | wCasFail _ sv b pe e j v hp => exact HB.load_seen_mono s.hb a j ordWakeCasFail t i hs
  | kClosed _ b e j hp => exact HB.load_seen_mono s.hb a j ordIsClosed t i hs
  | kPub _ b e j hp => exact HB.load_seen_mono s.hb a j ordIsPublished t i hs
  | kWait _ b e j hp => exact HB.load_seen_mono s.hb a j ordWaitLoad t i hs
  | kCasFail _ b e j v hp => exact HB.load_seen_mono s.hb a j ordWaitCasFail t i hs
  | kReload _ b e j hp => exact HB.load_seen_mono s.hb a j ordWaitReload t i hs
  | wCasOk _ sv b pe e j v hp hv => exact HB.rmw_seen_mono s.hb a j ordWakeCasSucc t i hs
  | kCasOk _ b e j v hp hv => exact HB.rmw_seen_mono s.hb a j ordWaitCasSucc t i hs
  | rNext _ hp => have T := M.tinv a; rw [hp] at T; exact absurd T (by simp [TInv])
  | _ => exact hs

theorem cons_step {c : Cfg} {s s' : State} {a : Nat} (M : Main s) (h : UStep c s s' a)
    (hk : s.clearing = false) (hk' : s'.clearing = false) :
    ∀ t i, i < s'.cur t → stOf s' i = stPublished ∧ s'.hb.seen t i = true := by
  -- below the old cursor
  have old : ∀ t i, i < s.cur t → stOf s' i = stPublished ∧ s'.hb.seen t i = true := by
    intro t i hi
    obtain ⟨h1, h2⟩ := M.cons t i hi
    exact ⟨by rw [stNZ_step M h hk hk' i (by rw [h1]; exact stP_ne)]; exact h1, seen_mono_step M h hk' t i h2⟩
  have T := M.tinv a
  cases h with
  | kAcq _ b e m hp =>
    rw [hp] at T
    obtain ⟨t1, t2, t3, t4⟩ := T
    intro t i hi
    by_cases hta : t = a
    · subst hta
      simp only [upd_same] at hi
      by_cases hlt : i < s.cur t
      · exact old t i hlt
      · obtain ⟨q1, q2⟩ := t3 i (by omega) hi
        refine ⟨q1, ?_⟩
        rcases q2 with q2 | q2
        · exact HB.fence_acquires s.hb t ordAcqFence ordAcqFence_acquires i q2
        · exact HB.fence_seen_mono s.hb t ordAcqFence t i q2
    · simp only [upd_other _ _ hta] at hi
      exact old t i hi
  | subscribe _ hp hkk =>
    intro t i hi
    by_cases hta : t = a
    · subst hta; simp only [upd_same] at hi; omega
    · simp only [upd_other _ _ hta] at hi
      exact old t i hi
  | rNext _ hp => rw [hp] at T; exact absurd T (by simp [TInv])
  | _ => exact old

/-- `item` is stable on published slots -/
theorem item_keep {c : Cfg} {s s' : State} {a : Nat} (M : Main s) (h : UStep c s s' a)
    (hk' : s'.clearing = false) (i : Nat) (hf : s.filled i = true) : s'.item i = s.item i ∧ s'.filled i = true := by
  cases h with
  | pFill _ b e vals hp hl =>
    have T := M.tinv a; rw [hp] at T
    have hle := pieceEnd_le c b e
    have hout : ¬ (b ≤ i ∧ i < e) := by
      intro hr
      have := (T.2.2.2 i hr.1 hr.2).2.2
      rw [hf] at this; cases this
    have hout2 : ¬ (b ≤ i ∧ i < b + vals.length) := by rw [hl]; omega
    exact ⟨fillVals_out _ _ _ hout2, by simp [hf]⟩
  | rNext _ hp => have T := M.tinv a; rw [hp] at T; exact absurd T (by simp [TInv])
  | _ => exact ⟨rfl, hf⟩

theorem range_map_congr {α : Type} (n : Nat) (f g : Nat → α) (h : ∀ i, i < n → f i = g i) :
    (List.range n).map f = (List.range n).map g := by
  apply List.map_congr_left
  intro i hi
  exact h i (List.mem_range.mp hi)

theorem range_add_map {α : Type} (b m : Nat) (f : Nat → α) :
    (List.range (b + m)).map f = (List.range b).map f ++ (List.range m).map (fun k => f (b + k)) := by
  rw [List.range_add, List.map_append, List.map_map]
  rfl

theorem got_step {c : Cfg} {s s' : State} {a : Nat} (M : Main s) (h : UStep c s s' a)
    (hk : s.clearing = false) (hk' : s'.clearing = false) :
    (∀ t, s'.got t = (List.range (base s' t)).map (fun i => (i, s'.item i))) ∧ (∀ t, base s' t ≤ s'.cur t) := by
  -- items below a consumer's base are published, hence stable
  have hitem : ∀ t i, i < base s t → s'.item i = s.item i := by
    intro t i hi
    have := M.basele t
    exact (item_keep M h hk' i (M.pub i (M.cons t i (by omega)).1).1).1
  -- a thread whose program counter, cursor and `got` are unchanged
  have keep : ∀ t, s'.pc t = s.pc t → s'.cur t = s.cur t → s'.got t = s.got t →
      s'.got t = (List.range (base s' t)).map (fun i => (i, s'.item i)) ∧ base s' t ≤ s'.cur t := by
    intro t h1 h2 h3
    have hb : base s' t = base s t := by simp only [base, h1, h2]
    rw [hb, h3, h2]
    refine ⟨?_, M.basele t⟩
    rw [M.got t]
    exact range_map_congr _ _ _ (fun i hi => by rw [hitem t i hi])
  -- same, when the program counter moved between two points that are not `kRet`
  have keep2 : ∀ t, (∀ b e m, s.pc t ≠ .kRet b e m) → (∀ b e m, s'.pc t ≠ .kRet b e m) → s'.cur t = s.cur t →
      s'.got t = s.got t →
      s'.got t = (List.range (base s' t)).map (fun i => (i, s'.item i)) ∧ base s' t ≤ s'.cur t := by
    intro t h0 h1 h2 h3
    have hb' : base s' t = s'.cur t := by
      unfold base; split
      · rename_i b e m hh; exact absurd hh (h1 b e m)
      · rfl
    have hb : base s t = s.cur t := by
      unfold base; split
      · rename_i b e m hh; exact absurd hh (h0 b e m)
      · rfl
    rw [hb', h3, h2]
    refine ⟨?_, Nat.le_refl _⟩
    rw [M.got t, hb]
    exact range_map_congr _ _ _ (fun i hi => by rw [hitem t i (by rw [hb]; exact hi)])
  have other : ∀ t, t ≠ a → s'.cur t = s.cur t → s'.got t = s.got t →
      s'.got t = (List.range (base s' t)).map (fun i => (i, s'.item i)) ∧ base s' t ≤ s'.cur t := by
    intro t hta h2 h3
    rcases pc_other M h t hta with e | ⟨b, e, j, q1, q2⟩
    · exact keep t e h2 h3
    · exact keep2 t (by rw [q1]; intros; simp) (by rw [q2]; intros; simp) h2 h3
  sorry

end Babylon.Topic
