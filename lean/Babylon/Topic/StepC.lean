/-
  Preservation of the consumer parts of `Main` (`cons`, `got`, `basele`) by every step outside `clear()`.
-/
import Babylon.Topic.StepG

namespace Babylon.Topic
open Babylon.Core Babylon.Gen.Topic
set_option linter.unusedVariables false

theorem seen_mono_step {c : Cfg} {s s' : State} {a : Nat} (M : Main s) (h : UStep c s s' a)
    (hk' : s'.clearing = false) (t i : Nat) (hs : s.hb.seen t i = true) : s'.hb.seen t i = true := by
  cases h with
  | pFill _ b e vals hp hl => exact HB.fill_seen_mono s.hb a b _ t i hs
  | pRel _ b pe e hp => exact HB.fence_seen_mono s.hb a ordPubFence t i hs
  | wSc _ sv b pe e hp => exact HB.fence_seen_mono s.hb a (scOrd sv) t i hs
  | kAcq _ b e m hp => exact HB.fence_seen_mono s.hb a ordAcqFence t i hs
  | wLd _ sv b pe e j hp => exact HB.load_seen_mono s.hb a j ordWakeLoad t i hs
  | wCasFail _ sv b pe e j v hp => exact HB.load_seen_mono s.hb a j ordWakeCasFail t i hs
  | kClosed _ b e j hp => exact HB.load_seen_mono s.hb a j ordIsClosed t i hs
  | kPub _ b e j hp => exact HB.load_seen_mono s.hb a j ordIsPublished t i hs
  | kWait _ b e j hp => exact HB.load_seen_mono s.hb a j ordWaitLoad t i hs
  | kCasFail _ b e j v hp => exact HB.load_seen_mono s.hb a j ordWaitCasFail t i hs
  | kReload _ b e j hp => exact HB.load_seen_mono s.hb a j ordWaitReload t i hs
  | wCasOk _ sv b pe e j v hp hv => exact HB.rmw_seen_mono s.hb a j ordWakeCasSucc t i hs
  | kCasOk _ b e j v hp hv => exact HB.rmw_seen_mono s.hb a j ordWaitCasSucc t i hs
  | rNext _ hp => have T := M.tinv a; rw [hp] at T; exact absurd T (by simp [TInv])
  | _ => exact hs

theorem cons_step {c : Cfg} {s s' : State} {a : Nat} (M : Main s) (h : UStep c s s' a)
    (hk : s.clearing = false) (hk' : s'.clearing = false) :
    ∀ t i, i < s'.cur t → stOf s' i = stPublished ∧ s'.hb.seen t i = true := by
  -- below the old cursor
  have old : ∀ t i, i < s.cur t → stOf s' i = stPublished ∧ s'.hb.seen t i = true := by
    intro t i hi
    obtain ⟨h1, h2⟩ := M.cons t i hi
    exact ⟨by rw [stNZ_step M h hk hk' i (by rw [h1]; exact stP_ne)]; exact h1, seen_mono_step M h hk' t i h2⟩
  have T := M.tinv a
  cases h with
  | kAcq _ b e m hp =>
    rw [hp] at T
    obtain ⟨t1, t2, t3, t4⟩ := T
    intro t i hi
    by_cases hta : t = a
    · subst hta
      simp only [upd_same] at hi
      by_cases hlt : i < s.cur t
      · exact old t i hlt
      · obtain ⟨q1, q2⟩ := t3 i (by omega) hi
        refine ⟨q1, ?_⟩
        rcases q2 with q2 | q2
        · exact HB.fence_acquires s.hb t ordAcqFence ordAcqFence_acquires i q2
        · exact HB.fence_seen_mono s.hb t ordAcqFence t i q2
    · simp only [upd_other _ _ hta] at hi
      exact old t i hi
  | subscribe _ hp hkk =>
    intro t i hi
    by_cases hta : t = a
    · subst hta; simp only [upd_same] at hi; omega
    · simp only [upd_other _ _ hta] at hi
      exact old t i hi
  | rNext _ hp => rw [hp] at T; exact absurd T (by simp [TInv])
  | _ => exact old

/-- `item` is stable on published slots -/
theorem item_keep {c : Cfg} {s s' : State} {a : Nat} (M : Main s) (h : UStep c s s' a)
    (hk' : s'.clearing = false) (i : Nat) (hf : s.filled i = true) : s'.item i = s.item i ∧ s'.filled i = true := by
  cases h with
  | pFill _ b e vals hp hl =>
    have T := M.tinv a; rw [hp] at T
    have hle := pieceEnd_le c b e
    have hout : ¬ (b ≤ i ∧ i < e) := by
      intro hr
      have := (T.2.2.2 i hr.1 hr.2).2.2
      rw [hf] at this; cases this
    have hout2 : ¬ (b ≤ i ∧ i < b + vals.length) := by rw [hl]; omega
    exact ⟨fillVals_out _ _ _ hout2, by simp [hf]⟩
  | rNext _ hp => have T := M.tinv a; rw [hp] at T; exact absurd T (by simp [TInv])
  | _ => exact ⟨rfl, hf⟩

theorem range_map_congr {α : Type} (n : Nat) (f g : Nat → α) (h : ∀ i, i < n → f i = g i) :
    (List.range n).map f = (List.range n).map g := by
  apply List.map_congr_left
  intro i hi
  exact h i (List.mem_range.mp hi)

theorem range_add_map {α : Type} (b m : Nat) (f : Nat → α) :
    (List.range (b + m)).map f = (List.range b).map f ++ (List.range m).map (fun k => f (b + k)) := by
  rw [List.range_add, List.map_append, List.map_map]
  rfl

def Pc.isRet : Pc → Bool
  | .kRet _ _ _ => true
  | _ => false

theorem notRet_of {p : Pc} (h : p.isRet = false) : ∀ b e m, p ≠ .kRet b e m := by
  intro b e m hh; subst hh; simp [Pc.isRet] at h

theorem isRet_startPieces (pe e : Nat) : (startPieces pe e).isRet = false := by
  unfold startPieces; split <;> rfl
theorem isRet_nextWake (sv b pe e j : Nat) : (nextWake sv b pe e j).isRet = false := by
  unfold nextWake; split
  · rfl
  · exact isRet_startPieces _ _
theorem isRet_nextStore (sv b pe e j : Nat) : (nextStore sv b pe e j).isRet = false := by
  unfold nextStore; split <;> rfl
theorem isRet_kLoop (b e j : Nat) : (kLoop b e j).isRet = false := by
  unfold kLoop; split <;> rfl
theorem isRet_waitSlow (b e j v : Nat) : (waitSlow b e j v).isRet = false := by
  unfold waitSlow; split <;> rfl

theorem got_step {c : Cfg} {s s' : State} {a : Nat} (M : Main s) (h : UStep c s s' a)
    (hk : s.clearing = false) (hk' : s'.clearing = false) :
    (∀ t, s'.got t = (List.range (base s' t)).map (fun i => (i, s'.item i))) ∧ (∀ t, base s' t ≤ s'.cur t) := by
  -- items below a consumer's base are published, hence stable
  have hitem : ∀ t i, i < base s t → s'.item i = s.item i := by
    intro t i hi
    have := M.basele t
    exact (item_keep M h hk' i (M.pub i (M.cons t i (by omega)).1).1).1
  -- a thread whose program counter, cursor and `got` are unchanged
  have keep : ∀ t, s'.pc t = s.pc t → s'.cur t = s.cur t → s'.got t = s.got t →
      s'.got t = (List.range (base s' t)).map (fun i => (i, s'.item i)) ∧ base s' t ≤ s'.cur t := by
    intro t h1 h2 h3
    have hb : base s' t = base s t := by simp only [base, h1, h2]
    rw [hb, h3, h2]
    refine ⟨?_, M.basele t⟩
    rw [M.got t]
    exact range_map_congr _ _ _ (fun i hi => by rw [hitem t i hi])
  -- same, when the program counter moved between two points that are not `kRet`
  have keep2 : ∀ t, (∀ b e m, s.pc t ≠ .kRet b e m) → (∀ b e m, s'.pc t ≠ .kRet b e m) → s'.cur t = s.cur t →
      s'.got t = s.got t →
      s'.got t = (List.range (base s' t)).map (fun i => (i, s'.item i)) ∧ base s' t ≤ s'.cur t := by
    intro t h0 h1 h2 h3
    have hb' : base s' t = s'.cur t := by
      unfold base; split
      · rename_i b e m hh; exact absurd hh (h1 b e m)
      · rfl
    have hb : base s t = s.cur t := by
      unfold base; split
      · rename_i b e m hh; exact absurd hh (h0 b e m)
      · rfl
    rw [hb', h3, h2]
    refine ⟨?_, Nat.le_refl _⟩
    rw [M.got t, hb]
    exact range_map_congr _ _ _ (fun i hi => by rw [hitem t i (by rw [hb]; exact hi)])
  have other : ∀ t, t ≠ a → s'.cur t = s.cur t → s'.got t = s.got t →
      s'.got t = (List.range (base s' t)).map (fun i => (i, s'.item i)) ∧ base s' t ≤ s'.cur t := by
    intro t hta h2 h3
    rcases pc_other M h t hta with e | ⟨b, e, j, q1, q2⟩
    · exact keep t e h2 h3
    · exact keep2 t (by rw [q1]; intros; simp) (by rw [q2]; intros; simp) h2 h3
  have T := M.tinv a
  -- the generic actor case: neither the old nor the new program point is `kRet`
  have actor : (s.pc a).isRet = false → (s'.pc a).isRet = false → s'.cur a = s.cur a → s'.got a = s.got a →
      (∀ t, t ≠ a → s'.cur t = s.cur t) → (∀ t, t ≠ a → s'.got t = s.got t) →
      ∀ t, s'.got t = (List.range (base s' t)).map (fun i => (i, s'.item i)) ∧ base s' t ≤ s'.cur t := by
    intro h0 h1 h2 h3 h4 h5 t
    by_cases hta : t = a
    · subst hta; exact keep2 t (notRet_of h0) (notRet_of h1) h2 h3
    · exact other t hta (h4 t hta) (h5 t hta)
  suffices hh : ∀ t, s'.got t = (List.range (base s' t)).map (fun i => (i, s'.item i)) ∧ base s' t ≤ s'.cur t from
    ⟨fun t => (hh t).1, fun t => (hh t).2⟩
  cases h with
  | kAcq _ b e m hp =>
    rw [hp] at T
    obtain ⟨t1, t2, t3, t4⟩ := T
    intro t
    by_cases hta : t = a
    · subst hta
      have hb' : base { s with cur := upd s.cur t (b + m), hb := s.hb.fence t ordAcqFence, pc := upd s.pc t (.kRet b e m) } t = b := by
        simp [base]
      have hb : base s t = b := by simp [base, hp, t1]
      rw [hb']
      refine ⟨?_, by simp⟩
      show s.got t = _
      rw [M.got t, hb]
    · exact other t hta (upd_other _ _ hta) rfl
  | ret _ b e m hp =>
    rw [hp] at T
    obtain ⟨t1, t2, t3⟩ := T
    intro t
    by_cases hta : t = a
    · subst hta
      have hb' : base { s with got := upd s.got t (s.got t ++ readRange s b m), pc := upd s.pc t .idle } t = b + m := by
        simp [base, t1]
      have hb : base s t = b := by simp [base, hp]
      rw [hb']
      refine ⟨?_, by show b + m ≤ s.cur t; omega⟩
      show upd s.got t (s.got t ++ readRange s b m) t = (List.range (b + m)).map (fun i => (i, s.item i))
      rw [upd_same, M.got t, hb, range_add_map]
      congr 1
      unfold readRange
      apply List.map_congr_left
      intro k hk
      have hk' := List.mem_range.mp hk
      have := (M.pub (b + k) (M.cons t (b + k) (by omega)).1).2.1
      rw [this]
    · exact other t hta rfl (upd_other _ _ hta)
  | subscribe _ hp hkk =>
    intro t
    by_cases hta : t = a
    · subst hta
      have hb' : base { s with cur := upd s.cur t 0, got := upd s.got t [] } t = 0 := by
        simp [base, hp]
      rw [hb']
      exact ⟨by simp, by simp⟩
    · exact other t hta (upd_other _ _ hta) (upd_other _ _ hta)
  | rSt _ j hp => rw [hp] at T; exact absurd T (by simp [TInv])
  | rNext _ hp => rw [hp] at T; exact absurd T (by simp [TInv])
  | clear _ hkk hq => cases hk'
  | pAdd _ n hp => exact actor (by rw [hp]; rfl) (by simp only [upd_same]; exact isRet_startPieces _ _) rfl rfl (fun _ _ => rfl) (fun _ _ => rfl)
  | pFill _ b e vals hp hl => exact actor (by rw [hp]; rfl) (by simp only [upd_same]; rfl) rfl rfl (fun _ _ => rfl) (fun _ _ => rfl)
  | pRel _ b pe e hp => exact actor (by rw [hp]; rfl) (by simp only [upd_same]; rfl) rfl rfl (fun _ _ => rfl) (fun _ _ => rfl)
  | wSt _ sv b pe e j hp => exact actor (by rw [hp]; rfl) (by simp only [upd_same]; exact isRet_nextStore _ _ _ _ _) rfl rfl (fun _ _ => rfl) (fun _ _ => rfl)
  | wSc _ sv b pe e hp => exact actor (by rw [hp]; rfl) (by simp only [upd_same]; rfl) rfl rfl (fun _ _ => rfl) (fun _ _ => rfl)
  | wLd _ sv b pe e j hp =>
    exact actor (by rw [hp]; rfl) (by simp only [upd_same]; split; exact isRet_nextWake _ _ _ _ _; rfl) rfl rfl (fun _ _ => rfl) (fun _ _ => rfl)
  | wCasOk _ sv b pe e j v hp hv => exact actor (by rw [hp]; rfl) (by simp only [upd_same]; rfl) rfl rfl (fun _ _ => rfl) (fun _ _ => rfl)
  | wCasFail _ sv b pe e j v hp => exact actor (by rw [hp]; rfl) (by simp only [upd_same]; rfl) rfl rfl (fun _ _ => rfl) (fun _ _ => rfl)
  | wWake _ sv b pe e j hp => exact actor (by rw [hp]; rfl) (by simp only [upd_same]; exact isRet_nextWake _ _ _ _ _) rfl rfl (fun _ _ => rfl) (fun _ _ => rfl)
  | cLd _ hp => exact actor (by rw [hp]; rfl) (by simp only [upd_same]; rfl) rfl rfl (fun _ _ => rfl) (fun _ _ => rfl)
  | kClosed _ b e j hp =>
    exact actor (by rw [hp]; rfl) (by simp only [upd_same]; split <;> rfl) rfl rfl (fun _ _ => rfl) (fun _ _ => rfl)
  | kPub _ b e j hp =>
    exact actor (by rw [hp]; rfl) (by simp only [upd_same]; split; exact isRet_kLoop _ _ _; rfl) rfl rfl (fun _ _ => rfl) (fun _ _ => rfl)
  | kWait _ b e j hp =>
    exact actor (by rw [hp]; rfl) (by simp only [upd_same]; split; exact isRet_kLoop _ _ _; exact isRet_waitSlow _ _ _ _) rfl rfl (fun _ _ => rfl) (fun _ _ => rfl)
  | kCasOk _ b e j v hp hv => exact actor (by rw [hp]; rfl) (by simp only [upd_same]; rfl) rfl rfl (fun _ _ => rfl) (fun _ _ => rfl)
  | kCasFail _ b e j v hp => exact actor (by rw [hp]; rfl) (by simp only [upd_same]; rfl) rfl rfl (fun _ _ => rfl) (fun _ _ => rfl)
  | kFwaitSleep _ b e j v hp hv => exact actor (by rw [hp]; rfl) (by simp only [upd_same]; rfl) rfl rfl (fun _ _ => rfl) (fun _ _ => rfl)
  | kFwaitAgain _ b e j v hp hv => exact actor (by rw [hp]; rfl) (by simp only [upd_same]; rfl) rfl rfl (fun _ _ => rfl) (fun _ _ => rfl)
  | kWoke _ b e j hp => exact actor (by rw [hp]; rfl) (by simp only [upd_same]; rfl) rfl rfl (fun _ _ => rfl) (fun _ _ => rfl)
  | kReload _ b e j hp =>
    exact actor (by rw [hp]; rfl) (by simp only [upd_same]; split; exact isRet_waitSlow _ _ _ _; exact isRet_kLoop _ _ _) rfl rfl (fun _ _ => rfl) (fun _ _ => rfl)
  | publish _ n hp hc hkk => exact actor (by rw [hp]; rfl) (by simp only [upd_same]; rfl) rfl rfl (fun _ _ => rfl) (fun _ _ => rfl)
  | close _ hp hkk hq => exact actor (by rw [hp]; rfl) (by simp only [upd_same]; rfl) rfl rfl (fun _ _ => rfl) (fun _ _ => rfl)
  | consume _ n hp hkk => exact actor (by rw [hp]; rfl) (by simp only [upd_same]; exact isRet_kLoop _ _ _) rfl rfl (fun _ _ => rfl) (fun _ _ => rfl)
  | spuriousWake _ b e j hp => exact actor (by rw [hp]; rfl) (by simp only [upd_same]; rfl) rfl rfl (fun _ _ => rfl) (fun _ _ => rfl)

end Babylon.Topic
