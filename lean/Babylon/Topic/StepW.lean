/-
  Preservation of the no-lost-wake-up part of `Main` (`wake`) by every step outside `clear()`.
-/
import Babylon.Topic.StepC

namespace Babylon.Topic
open Babylon.Core Babylon.Gen.Topic
set_option linter.unusedVariables false

theorem willLoad_winfo {p : Pc} {j : Nat} (h : p.willLoad j) : p.wInfo ≠ none := by
  cases p <;> simp only [Pc.willLoad] at h <;> first | exact absurd h id | simp [Pc.wInfo]
theorem loaded_winfo {p : Pc} {j : Nat} (h : p.loaded j) : p.wInfo ≠ none := by
  cases p <;> simp only [Pc.loaded] at h <;> first | exact absurd h id | simp [Pc.wInfo]

/-- threads other than the actor keep their commitment to wake slot `j` -/
theorem others_keep {c : Cfg} {s s' : State} {a : Nat} (M : Main s) (h : UStep c s s' a) (w j : Nat) (hw : w ≠ a) :
    ((s.pc w).willLoad j → (s'.pc w).willLoad j) ∧ ((s.pc w).loaded j → (s'.pc w).loaded j) := by
  rcases pc_other M h w hw with e | ⟨b, e, j', h1, h2⟩
  · rw [e]; exact ⟨id, id⟩
  · rw [h1]; exact ⟨fun h => absurd h (by simp [Pc.willLoad]), fun h => absurd h (by simp [Pc.loaded])⟩

/-- generic preservation: the word of slot `j` is unchanged and the actor keeps (or upgrades) its
commitment -/
theorem wakeok_keep {c : Cfg} {s s' : State} {a : Nat} (M : Main s) (h : UStep c s s' a) (j : Nat)
    (hword : s'.word j = s.word j)
    (hwl : (s.pc a).willLoad j → waiterUnit ≤ s.word j → (s'.pc a).willLoad j ∨ (s'.pc a).loaded j)
    (hld : (s.pc a).loaded j → (s'.pc a).loaded j)
    (hok : WakeOK s j) : WakeOK s' j := by
  have hst : stOf s' j = stOf s j := by simp [stOf, hword]
  rcases hok with ⟨h1, h2⟩ | ⟨h1, w, h2⟩ | ⟨w, h2⟩
  · exact Or.inl ⟨by rw [hst]; exact h1, by rw [hword]; exact h2⟩
  · by_cases hwa : w = a
    · subst hwa
      rcases hwl h2 h1 with q | q
      · exact Or.inr (Or.inl ⟨by rw [hword]; exact h1, w, q⟩)
      · exact Or.inr (Or.inr ⟨w, q⟩)
    · exact Or.inr (Or.inl ⟨by rw [hword]; exact h1, w, (others_keep M h w j hwa).1 h2⟩)
  · by_cases hwa : w = a
    · subst hwa; exact Or.inr (Or.inr ⟨w, hld h2⟩)
    · exact Or.inr (Or.inr ⟨w, (others_keep M h w j hwa).2 h2⟩)

theorem willLoad_nextWake {sv b pe e j' j : Nat} (h : j' < j ∧ j < pe) : (nextWake sv b pe e j').willLoad j := by
  unfold nextWake
  split
  · exact ⟨by omega, h.2⟩
  · omega

theorem unit_gt_max {w : Nat} (h : waiterUnit ≤ w) : ¬ w ≤ noWaiterMax := by
  rw [waiterUnit_eq] at h; rw [noWaiterMax_eq]; omega

/-- a step that is not the futex-wake of slot `j` keeps `WakeOK s j` -/
theorem wakeok_step {c : Cfg} {s s' : State} {a : Nat} (M : Main s) (h : UStep c s s' a)
    (hk : s.clearing = false) (hk' : s'.clearing = false) (j : Nat)
    (hnw : ∀ sv b pe e, s.pc a ≠ .wWake sv b pe e j) (hok : WakeOK s j) : WakeOK s' j := by
  have T := M.tinv a
  -- an actor outside the store / wake loops that does not write slot words
  have plain : (s.pc a).wInfo = none → s'.word j = s.word j → WakeOK s' j := by
    intro h0 hword
    exact wakeok_keep M h j hword (fun q _ => absurd h0 (willLoad_winfo q)) (fun q => absurd h0 (loaded_winfo q)) hok
  cases h with
  | wSt _ sv b pe e j' hp =>
    rw [hp] at T
    obtain ⟨W, w8⟩ := T
    by_cases hjj : j = j'
    · subst hjj
      -- the status of `j` is stored now: the actor becomes the committed waker
      have hsv := st_lt W.sv
      have hcommit : (nextStore sv b pe e j).willLoad j := by
        unfold nextStore; split
        · exact ⟨W.2.2.2.1, by omega⟩
        · exact ⟨W.2.2.2.1, w8⟩
      rcases hok with ⟨h1, h2⟩ | ⟨h1, w, h2⟩ | ⟨w, h2⟩
      · refine Or.inr (Or.inl ⟨?_, a, ?_⟩)
        · show waiterUnit ≤ upd s.word j (store16 (s.word j) sv) j
          rw [upd_same]; exact store16_ge _ _ h2
        · show (upd s.pc a (nextStore sv b pe e j) a).willLoad j
          rw [upd_same]; exact hcommit
      · refine Or.inr (Or.inl ⟨?_, a, ?_⟩)
        · show waiterUnit ≤ upd s.word j (store16 (s.word j) sv) j
          rw [upd_same]; exact store16_ge _ _ h1
        · show (upd s.pc a (nextStore sv b pe e j) a).willLoad j
          rw [upd_same]; exact hcommit
      · by_cases hwa : w = a
        · subst hwa; rw [hp] at h2; exact absurd h2 (by simp [Pc.loaded])
        · exact Or.inr (Or.inr ⟨w, (others_keep M (UStep.wSt (c := c) a sv b pe e j hp) w j hwa).2 h2⟩)
    · refine wakeok_keep M (UStep.wSt (c := c) a sv b pe e j' hp) j (upd_other _ _ hjj) ?_ ?_ hok
      · intro q _
        rw [hp] at q
        left
        show (upd s.pc a (nextStore sv b pe e j') a).willLoad j
        rw [upd_same]
        unfold nextStore; split
        · exact ⟨q.1, by have := q.2; omega⟩
        · exact ⟨q.1, by have := q.2; omega⟩
      · intro q; rw [hp] at q; exact absurd q (by simp [Pc.loaded])
  | wSc _ sv b pe e hp =>
    refine wakeok_keep M (UStep.wSc (c := c) a sv b pe e hp) j rfl ?_ ?_ hok
    · intro q _
      rw [hp] at q
      left
      show (upd s.pc a (.wLd sv b pe e b) a).willLoad j
      rw [upd_same]; exact q
    · intro q; rw [hp] at q; exact absurd q (by simp [Pc.loaded])
  | wLd _ sv b pe e j' hp =>
    refine wakeok_keep M (UStep.wLd (c := c) a sv b pe e j' hp) j rfl ?_ ?_ hok
    · intro q hu
      rw [hp] at q
      show (upd s.pc a _ a).willLoad j ∨ (upd s.pc a _ a).loaded j
      rw [upd_same]
      by_cases hjj : j' = j
      · subst hjj
        right
        rw [if_neg (unit_gt_max hu)]
        rfl
      · left
        have hlt : j' < j := by have := q.1; omega
        split
        · exact willLoad_nextWake ⟨hlt, q.2⟩
        · exact ⟨hlt, q.2⟩
    · intro q; rw [hp] at q; exact absurd q (by simp [Pc.loaded])
  | wCasOk _ sv b pe e j' v hp hv =>
    rw [hp] at T
    by_cases hjj : j = j'
    · subst hjj
      refine Or.inr (Or.inr ⟨a, ?_⟩)
      show (upd s.pc a (.wWake sv b pe e j) a).loaded j
      rw [upd_same]; rfl
    · refine wakeok_keep M (UStep.wCasOk (c := c) a sv b pe e j' v hp hv) j (upd_other _ _ hjj) ?_ ?_ hok
      · intro q _
        rw [hp] at q
        left
        show (upd s.pc a (.wWake sv b pe e j') a).willLoad j
        rw [upd_same]; exact q
      · intro q; rw [hp] at q
        show (upd s.pc a (.wWake sv b pe e j') a).loaded j
        rw [upd_same]; exact q
  | wCasFail _ sv b pe e j' v hp =>
    refine wakeok_keep M (UStep.wCasFail (c := c) a sv b pe e j' v hp) j rfl ?_ ?_ hok
    · intro q _
      rw [hp] at q
      left
      show (upd s.pc a (.wWake sv b pe e j') a).willLoad j
      rw [upd_same]; exact q
    · intro q; rw [hp] at q
      show (upd s.pc a (.wWake sv b pe e j') a).loaded j
      rw [upd_same]; exact q
  | wWake _ sv b pe e j' hp =>
    have hjj : j' ≠ j := by
      intro hjj; subst hjj; exact hnw sv b pe e hp
    refine wakeok_keep M (UStep.wWake (c := c) a sv b pe e j' hp) j rfl ?_ ?_ hok
    · intro q _
      rw [hp] at q
      left
      show (upd (wakeAll s.pc j') a (nextWake sv b pe e j') a).willLoad j
      rw [upd_same]; exact willLoad_nextWake q
    · intro q; rw [hp] at q; exact absurd q hjj
  | kCasOk _ b e j' v hp hv =>
    rw [hp] at T
    obtain ⟨K, t2, t3⟩ := T
    by_cases hjj : j = j'
    · subst hjj
      -- the waiter bit is being set: the word was below the waiter unit, so only the third disjunct can hold
      rcases hok with ⟨h1, h2⟩ | ⟨h1, w, h2⟩ | ⟨w, h2⟩
      · rw [hv] at h2; exact absurd t3 (unit_gt_max h2)
      · rw [hv] at h1; exact absurd t3 (unit_gt_max h1)
      · by_cases hwa : w = a
        · subst hwa; rw [hp] at h2; exact absurd h2 (by simp [Pc.loaded])
        · exact Or.inr (Or.inr ⟨w, (others_keep M (UStep.kCasOk (c := c) a b e j v hp hv) w j hwa).2 h2⟩)
    · exact wakeok_keep M (UStep.kCasOk (c := c) a b e j' v hp hv) j (upd_other _ _ hjj)
        (fun q _ => by rw [hp] at q; exact absurd q (by simp [Pc.willLoad]))
        (fun q => by rw [hp] at q; exact absurd q (by simp [Pc.loaded])) hok
  | rSt _ j' hp => rw [hp] at T; exact absurd T (by simp [TInv])
  | rNext _ hp => rw [hp] at T; exact absurd T (by simp [TInv])
  | clear _ hkk hq => cases hk'
  | pAdd _ n hp => exact plain (by rw [hp]; rfl) rfl
  | pFill _ b e vals hp hl => exact plain (by rw [hp]; rfl) rfl
  | pRel _ b pe e hp => exact plain (by rw [hp]; rfl) rfl
  | cLd _ hp => exact plain (by rw [hp]; rfl) rfl
  | kClosed _ b e j' hp => exact plain (by rw [hp]; rfl) rfl
  | kPub _ b e j' hp => exact plain (by rw [hp]; rfl) rfl
  | kWait _ b e j' hp => exact plain (by rw [hp]; rfl) rfl
  | kCasFail _ b e j' v hp => exact plain (by rw [hp]; rfl) rfl
  | kFwaitSleep _ b e j' v hp hv => exact plain (by rw [hp]; rfl) rfl
  | kFwaitAgain _ b e j' v hp hv => exact plain (by rw [hp]; rfl) rfl
  | kWoke _ b e j' hp => exact plain (by rw [hp]; rfl) rfl
  | kReload _ b e j' hp => exact plain (by rw [hp]; rfl) rfl
  | kAcq _ b e m hp => exact plain (by rw [hp]; rfl) rfl
  | publish _ n hp hc hkk => exact plain (by rw [hp]; rfl) rfl
  | close _ hp hkk hq => exact plain (by rw [hp]; rfl) rfl
  | consume _ n hp hkk => exact plain (by rw [hp]; rfl) rfl
  | subscribe _ hp hkk => exact plain (by rw [hp]; rfl) rfl
  | ret _ b e m hp => exact plain (by rw [hp]; rfl) rfl
  | spuriousWake _ b e j' hp => exact plain (by rw [hp]; rfl) rfl

def Pc.isSleep : Pc → Bool
  | .kSleep _ _ _ => true
  | _ => false

theorem isSleep_startPieces (pe e : Nat) : (startPieces pe e).isSleep = false := by
  unfold startPieces; split <;> rfl
theorem isSleep_nextWake (sv b pe e j : Nat) : (nextWake sv b pe e j).isSleep = false := by
  unfold nextWake; split
  · rfl
  · exact isSleep_startPieces _ _
theorem isSleep_nextStore (sv b pe e j : Nat) : (nextStore sv b pe e j).isSleep = false := by
  unfold nextStore; split <;> rfl
theorem isSleep_kLoop (b e j : Nat) : (kLoop b e j).isSleep = false := by
  unfold kLoop; split <;> rfl
theorem isSleep_waitSlow (b e j v : Nat) : (waitSlow b e j v).isSleep = false := by
  unfold waitSlow; split <;> rfl

/-- the actor is asleep after a step only if the step was a futex_wait that found the expected value -/
theorem actor_asleep {c : Cfg} {s s' : State} {a : Nat} (M : Main s) (h : UStep c s s' a) (hk' : s'.clearing = false)
    {b e j : Nat} (hs : s'.pc a = .kSleep b e j) :
    ∃ v, s.pc a = .kFwait b e j v ∧ s.word j = v ∧ s'.word = s.word := by
  have key : (s'.pc a).isSleep = true := by rw [hs]; rfl
  cases h with
  | pAdd _ n hp =>
    simp only [upd_same] at key; rw [isSleep_startPieces] at key; cases key
  | pFill _ b e vals hp hl =>
    simp only [upd_same] at key; cases key
  | pRel _ b pe e hp =>
    simp only [upd_same] at key; cases key
  | wSt _ sv b pe e j' hp =>
    simp only [upd_same] at key; rw [isSleep_nextStore] at key; cases key
  | wSc _ sv b pe e hp =>
    simp only [upd_same] at key; cases key
  | wLd _ sv b pe e j' hp =>
    simp only [upd_same] at key; split at key
    · rw [isSleep_nextWake] at key; cases key
    · cases key
  | wCasOk _ sv b pe e j' v hp hv =>
    simp only [upd_same] at key; cases key
  | wCasFail _ sv b pe e j' v hp =>
    simp only [upd_same] at key; cases key
  | wWake _ sv b pe e j' hp =>
    simp only [upd_same] at key; rw [isSleep_nextWake] at key; cases key
  | cLd _ hp =>
    simp only [upd_same] at key; cases key
  | kClosed _ b e j' hp =>
    simp only [upd_same] at key; split at key <;> cases key
  | kPub _ b e j' hp =>
    simp only [upd_same] at key; split at key
    · rw [isSleep_kLoop] at key; cases key
    · cases key
  | kWait _ b e j' hp =>
    simp only [upd_same] at key; split at key
    · rw [isSleep_kLoop] at key; cases key
    · rw [isSleep_waitSlow] at key; cases key
  | kCasOk _ b e j' v hp hv =>
    simp only [upd_same] at key; cases key
  | kCasFail _ b e j' v hp =>
    simp only [upd_same] at key; cases key
  | kFwaitSleep _ b e j' v hp hv =>
    simp only [upd_same] at hs
    obtain ⟨rfl, rfl, rfl⟩ := Pc.kSleep.inj hs
    exact ⟨v, hp, hv, rfl⟩
  | kFwaitAgain _ b e j' v hp hv =>
    simp only [upd_same] at key; cases key
  | kWoke _ b e j' hp =>
    simp only [upd_same] at key; cases key
  | kReload _ b e j' hp =>
    simp only [upd_same] at key; split at key
    · rw [isSleep_waitSlow] at key; cases key
    · rw [isSleep_kLoop] at key; cases key
  | kAcq _ b e m hp =>
    simp only [upd_same] at key; cases key
  | rSt _ j' hp =>
    simp only [upd_same] at key; split at key <;> cases key
  | rNext _ hp =>
    have T := M.tinv a; rw [hp] at T; exact absurd T (by simp [TInv])
  | publish _ n hp hc hkk =>
    simp only [upd_same] at key; cases key
  | close _ hp hkk hq =>
    simp only [upd_same] at key; cases key
  | consume _ n hp hkk =>
    simp only [upd_same] at key; rw [isSleep_kLoop] at key; cases key
  | subscribe _ hp hkk =>
    rw [hp] at key; cases key
  | ret _ b e m hp =>
    simp only [upd_same] at key; cases key
  | clear _ hkk hq =>
    cases hk'
  | spuriousWake _ b e j' hp =>
    simp only [upd_same] at key; cases key

/-- the futex-wake of slot `j` leaves nobody but the actor's successors asleep on `j` -/
theorem wWake_effect {c : Cfg} {s s' : State} {a : Nat} (h : UStep c s s' a) {sv b pe e j : Nat}
    (hpa : s.pc a = .wWake sv b pe e j) : s'.pc = upd (wakeAll s.pc j) a (nextWake sv b pe e j) := by
  cases h with
  | pAdd _ n hp => rw [hp] at hpa; cases hpa
  | pFill _ b e vals hp hl => rw [hp] at hpa; cases hpa
  | pRel _ b pe e hp => rw [hp] at hpa; cases hpa
  | wSt _ sv b pe e j' hp => rw [hp] at hpa; cases hpa
  | wSc _ sv b pe e hp => rw [hp] at hpa; cases hpa
  | wLd _ sv b pe e j' hp => rw [hp] at hpa; cases hpa
  | wCasOk _ sv b pe e j' v hp hv => rw [hp] at hpa; cases hpa
  | wCasFail _ sv b pe e j' v hp => rw [hp] at hpa; cases hpa
  | wWake _ sv b pe e j' hp =>
    rw [hp] at hpa; obtain ⟨rfl, rfl, rfl, rfl, rfl⟩ := Pc.wWake.inj hpa; rfl
  | cLd _ hp => rw [hp] at hpa; cases hpa
  | kClosed _ b e j' hp => rw [hp] at hpa; cases hpa
  | kPub _ b e j' hp => rw [hp] at hpa; cases hpa
  | kWait _ b e j' hp => rw [hp] at hpa; cases hpa
  | kCasOk _ b e j' v hp hv => rw [hp] at hpa; cases hpa
  | kCasFail _ b e j' v hp => rw [hp] at hpa; cases hpa
  | kFwaitSleep _ b e j' v hp hv => rw [hp] at hpa; cases hpa
  | kFwaitAgain _ b e j' v hp hv => rw [hp] at hpa; cases hpa
  | kWoke _ b e j' hp => rw [hp] at hpa; cases hpa
  | kReload _ b e j' hp => rw [hp] at hpa; cases hpa
  | kAcq _ b e m hp => rw [hp] at hpa; cases hpa
  | rSt _ j' hp => rw [hp] at hpa; cases hpa
  | rNext _ hp => rw [hp] at hpa; cases hpa
  | publish _ n hp hc hkk => rw [hp] at hpa; cases hpa
  | close _ hp hkk hq => rw [hp] at hpa; cases hpa
  | consume _ n hp hkk => rw [hp] at hpa; cases hpa
  | subscribe _ hp hkk => rw [hp] at hpa; cases hpa
  | ret _ b e m hp => rw [hp] at hpa; cases hpa
  | clear _ hkk hq => rw [hq a] at hpa; cases hpa
  | spuriousWake _ b e j' hp => rw [hp] at hpa; cases hpa

theorem wake_step {c : Cfg} {s s' : State} {a : Nat} (M : Main s) (h : UStep c s s' a)
    (hk : s.clearing = false) (hk' : s'.clearing = false) :
    ∀ t b e j, s'.pc t = .kSleep b e j → WakeOK s' j := by
  intro t b e j hs
  by_cases hta : t = a
  · subst hta
    obtain ⟨v, h1, h2, h3⟩ := actor_asleep M h hk' hs
    have T := M.tinv t
    rw [h1] at T
    obtain ⟨K, t2, t3⟩ := T
    left
    refine ⟨?_, ?_⟩
    · simp only [stOf, h3, h2]; exact t2
    · rw [h3, h2]; exact t3
  · -- `t` was asleep on `j` before the step
    have hold : s.pc t = .kSleep b e j := by
      rcases pc_other M h t hta with q | ⟨b', e', j', q1, q2⟩
      · rw [← q]; exact hs
      · rw [q2] at hs; cases hs
    by_cases hw : ∃ sv b' pe e', s.pc a = .wWake sv b' pe e' j
    · obtain ⟨sv, b', pe, e', hpa⟩ := hw
      have := wWake_effect h hpa
      rw [this, upd_other _ _ hta] at hs
      simp only [wakeAll, hold, if_true] at hs
      cases hs
    · exact wakeok_step M h hk hk' j (fun sv b' pe e' hpa => hw ⟨sv, b', pe, e', hpa⟩) (M.wake t b e j hold)

end Babylon.Topic
