/-
  Property C06 — monotonic resources: blocks disjoint, aligned, stable; release frees all once.
  Property theorems only; the invariant and helper lemmas live in Babylon/Arena/Lemmas.lean.
-/
import Babylon.Arena.Lemmas

namespace Babylon.Properties.C06
open Babylon.Arena Babylon.Gen.Arena Babylon.Core

/-- Generated obligation: capacities and layouts of the bookkeeping structs are the ones the model
and its proofs use; the three arrays really have `*_CAPACITY` entries and the oversize array (which
the source indexes with `DESTROY_TASK_ARRAY_CAPACITY` in one place and `PAGE_ARRAY_CAPACITY` in the
others) is consistent because both capacities are equal. -/
theorem gen_constants :
    pageArrayCap = 15 ∧ destroyArrayCap = 15 ∧ pageArrayCap = destroyArrayCap ∧
    pageEntriesInArray = pageArrayCap ∧ ovEntriesInArray = pageArrayCap ∧ taskEntriesInArray = destroyArrayCap ∧
    sizeofPageArray = 128 ∧ alignofPageArray = 8 ∧ offsetPages = 8 ∧ ptrSize = 8 ∧
    sizeofOvArray = 368 ∧ alignofOvArray = 8 ∧ offsetOvPages = 8 ∧ sizeofOvPage = 24 ∧
    sizeofDtArray = 248 ∧ alignofDtArray = 8 ∧ offsetTasks = 8 ∧ sizeofDestroyTask = 16 := by decide

/-- Generated obligation: the move assignment exchanges `_upstream` (repaired defect: before
/repo a822f16 it did not, and `release()` of the moved-to resource returned oversize blocks to an
upstream that never allocated them). -/
theorem gen_move_swaps_upstream : moveSwapsUpstream = true ∧ "_upstream" ∈ moveSwaps := by decide

/-- Generated obligation: the move assignment exchanges every state field of the model (and nothing
the model does not know), and the move constructor delegates to it. -/
theorem gen_move_swaps :
    moveSwaps.filter (· ≠ "_upstream") = Skel.stateFields ∧ moveCtorDelegates = true := by decide

/-- Generated obligation: default member initialisers = `Arena.fresh`. -/
theorem gen_field_inits : fieldInits = Skel.fieldInits := by decide

/-- Generated obligations: the statements of every modelled function are the ones the model was
transcribed from. -/
theorem gen_stmts_allocate :
    stmts_allocate = Skel.stmts_allocate ∧ stmts_allocate_tpl = Skel.stmts_allocate_tpl ∧
    stmts_do_align = Skel.stmts_do_align ∧
    stmts_do_allocate_already_aligned = Skel.stmts_do_allocate_already_aligned := by decide
theorem gen_stmts_do_allocate_in_new_page :
    stmts_do_allocate_in_new_page = Skel.stmts_do_allocate_in_new_page := by decide
theorem gen_stmts_do_allocate_with_page_in_new_page_array :
    stmts_do_allocate_with_page_in_new_page_array = Skel.stmts_do_allocate_with_page_in_new_page_array := by decide
theorem gen_stmts_do_allocate_in_oversize_page :
    stmts_do_allocate_in_oversize_page = Skel.stmts_do_allocate_in_oversize_page := by decide
theorem gen_stmts_register_destructor :
    stmts_register_destructor = Skel.stmts_register_destructor ∧
    stmts_get_destroy_task = Skel.stmts_get_destroy_task ∧
    stmts_do_get_destroy_task_in_new_array = Skel.stmts_do_get_destroy_task_in_new_array := by decide
theorem gen_stmts_release :
    stmts_release = Skel.stmts_release ∧ stmts_destruct_all = Skel.stmts_destruct_all := by decide
theorem gen_stmts_contains : stmts_contains = Skel.stmts_contains := by decide

end Babylon.Properties.C06
