/-
  Property C06 — monotonic resources: blocks disjoint, aligned, stable; release frees all once.
  Property theorems only; the invariant and helper lemmas live in Babylon/Arena/*.lean
  (aggregated by Babylon/Arena/Lemmas.lean).

  Model: Babylon/Arena/Model.lean — `ExclusiveMonotonicBufferResource` field by field, two resources
  (`Sys`) with move-assignment and destroy/reconstruct, the page allocator and the upstream resource
  as environment parameters.  Quantifiers of the theorems below: every operation list, every page
  size that is a power of two ≥ sizeof(PageArray), every (bytes, alignment) with alignment a power of
  two (bytes = 0, > page size, alignment > page size included), every allocator behaviour that
  satisfies `SOpOK` (pages `pageSize`-aligned and disjoint from every region held by either resource,
  upstream blocks aligned as requested and disjoint likewise).
-/
import Babylon.Arena.Lemmas

namespace Babylon.Properties.C06
open Babylon.Arena Babylon.Gen.Arena Babylon.Core

/-! ## the invariant holds after every operation list -/

/-- **arena_inv.**  Starting from two freshly configured resources, after *any* list of operations
(allocate / register_destructor / contains / release on either resource, move-assignment between
them, destroy + reconstruct) during which the allocators behaved as assumed, the invariant holds:
bookkeeping chains well-formed (filled from the top, non-head arrays full, each page array inside a
page held by itself or an older array, each oversize array at the end of the upstream block in its
last entry, each destroy-task array a live block), ghost lists = contents of the chains, regions
pairwise disjoint (also across the two resources), every block and array inside a held region and
pairwise disjoint, the free range inside the newest page and untouched, both accounts exact. -/
theorem arena_inv (pa1 ps1 up1 pa2 ps2 up2 : Nat)
    (h1 : ∃ k, ps1 = 2 ^ k) (g1 : sizeofPageArray ≤ ps1) (h2 : ∃ k, ps2 = 2 ^ k) (g2 : sizeofPageArray ≤ ps2)
    (ops : List SOp) (hv : ValidRun ⟨Arena.fresh pa1 ps1 up1, Arena.fresh pa2 ps2 up2⟩ ops) :
    SysInv (runOps Sys.next ⟨Arena.fresh pa1 ps1 up1, Arena.fresh pa2 ps2 up2⟩ ops) := by
  have h0 : SysInv ⟨Arena.fresh pa1 ps1 up1, Arena.fresh pa2 ps2 up2⟩ :=
    ⟨inv_fresh _ _ _ h1 g1, inv_fresh _ _ _ h2 g2, by simp [regions, pageRegs, ovRegs, Arena.fresh]⟩
  have key := runOps_invariant istep (fun p => p.2 → SysInv p.1)
    (fun p op h hp => sys_step_inv (h hp.1) op hp.2)
    (⟨Arena.fresh pa1 ps1 up1, Arena.fresh pa2 ps2 up2⟩, True) (fun _ => h0) ops
  obtain ⟨e1, e2⟩ := istep_run ⟨Arena.fresh pa1 ps1 up1, Arena.fresh pa2 ps2 up2⟩ True ops
  rw [← e1]
  exact key (e2.mpr ⟨trivial, hv⟩)

/-- the invariant is inductive: one step from *any* state satisfying it (not only reachable ones) -/
theorem arena_inv_step (s : Sys) (hI : SysInv s) (op : SOp) (hok : SOpOK s op) : SysInv (s.next op) :=
  sys_step_inv hI op hok

/-! ## allocate -/

section alloc
variable (held : List Seg) {s : Arena} (hI : Inv s) (hsub : ∀ r ∈ regions s, r ∈ held)
  (bytes align : Nat) (kind : Kind) (e : Env) (hal : ∃ k, align = 2 ^ k) (henv : AllocEnvOK held s bytes align e)
include hI hsub hal henv

/-- **alloc_aligned.**  The returned address is a multiple of the requested alignment (all seven
paths, alignment above the page size included). -/
theorem alloc_aligned : align ∣ (s.allocate bytes align kind e).2.1 :=
  (allocate_post held hI.core hsub bytes align kind e hal henv).2

/-- **alloc_in_owned.**  A non-empty block lies inside a page or an upstream block the resource
holds after the call. -/
theorem alloc_in_owned :
    bytes = 0 ∨ ∃ r ∈ regions (s.allocate bytes align kind e).1,
      Inside ⟨(s.allocate bytes align kind e).2.1, bytes⟩ r :=
  (newest_block (allocate_inv held hI hsub bytes align kind e hal henv)
    (allocate_post held hI.core hsub bytes align kind e hal henv).1.blocks).2.2

/-- **alloc_disjoint.**  The block shares no byte with any block handed out earlier and still live
(destroy-task arrays included). -/
theorem alloc_disjoint : ∀ b ∈ s.blocks, Disj ⟨(s.allocate bytes align kind e).2.1, bytes⟩ b.seg :=
  (newest_block (allocate_inv held hI hsub bytes align kind e hal henv)
    (allocate_post held hI.core hsub bytes align kind e hal henv).1.blocks).1

/-- **alloc_clear_of_bookkeeping.**  The block shares no byte with any page array, oversize array
or destroy-task array of the resource (as they are after the call). -/
theorem alloc_clear_of_bookkeeping :
    (∀ a ∈ (s.allocate bytes align kind e).1.pageArrs, Disj ⟨(s.allocate bytes align kind e).2.1, bytes⟩ a.seg) ∧
    (∀ a ∈ (s.allocate bytes align kind e).1.ovArrs, Disj ⟨(s.allocate bytes align kind e).2.1, bytes⟩ a.seg) ∧
    (∀ a ∈ (s.allocate bytes align kind e).1.dtArrs,
        Disj ⟨(s.allocate bytes align kind e).2.1, bytes⟩ ⟨a.addr, sizeofDtArray⟩) := by
  have hp := (allocate_post held hI.core hsub bytes align kind e hal henv).1
  have hI' := allocate_inv held hI hsub bytes align kind e hal henv
  have hn := newest_block hI' hp.blocks
  refine ⟨?_, ?_, ?_⟩
  · intro a ha
    exact hn.2.1 _ (List.mem_append_left _ (List.mem_map.mpr ⟨a, ha, rfl⟩))
  · intro a ha
    exact hn.2.1 _ (List.mem_append_right _ (List.mem_map.mpr ⟨a, ha, rfl⟩))
  · intro a ha
    rw [hp.frame.2.2.2.1] at ha
    have hb : (⟨a.addr, sizeofDtArray, .dtArray⟩ : Block) ∈ s.blocks := (hI.core.dt.shape a ha).2.2
    exact hn.1 _ hb

/-- **alloc_stable** (allocate).  Blocks live before the call stay live, their memory stays held,
nothing is returned to any allocator and no bookkeeping store touches a live user block. -/
theorem alloc_stable : Stable s (s.allocate bytes align kind e).1 (s.allocate bytes align kind e).2.2 :=
  allocate_stable held hI hsub bytes align kind e hal henv

end alloc

/-- **alloc_stable** (every operation other than `release`).  `contains` changes nothing;
`register_destructor` may allocate a destroy-task array: same guarantees as `allocate`. -/
theorem alloc_stable_op (held : List Seg) {s : Arena} (hI : Inv s) (hsub : ∀ r ∈ regions s, r ∈ held)
    (op : Op) (hne : op ≠ .release) (henv : OpEnvOK held s op) : Stable s (s.step op).1 (s.step op).2 := by
  cases op with
  | alloc bytes align e => exact allocate_stable held hI hsub bytes align .user e henv.1 henv.2
  | reg tag e => exact register_stable held hI hsub tag e henv
  | contains ptr => exact ⟨fun b hb => hb, fun r hr => hr, by simp [Arena.step], by simp [Arena.step]⟩
  | release => exact absurd rfl hne

/-- **alloc_stable** (move).  Move-assignment exchanges the two resources' states wholesale: every
live block, every held region and every registered destructor now belongs to the other resource,
nothing is lost, duplicated, returned or written. -/
theorem alloc_stable_move (s : Sys) (src dst : Bool) :
    (s.step (.move src dst)).2 = [] ∧
    ((s.next (.move src dst) = s) ∨ (s.next (.move src dst) = ⟨s.b, s.a⟩)) := by
  have hsw : ∀ x y : Arena, moveAssign x y = (y, x) := by
    intro x y; simp [moveAssign, c_moveSwapsUpstream]
  cases src <;> cases dst <;> simp [Sys.next, Sys.step, Sys.get, Sys.set, hsw]

/-- **alloc_disjoint / alloc_stable across resources.**  In every state satisfying the system
invariant, no block of one resource shares a byte with a block of the other. -/
theorem blocks_disjoint_across (s : Sys) (hI : SysInv s) :
    ∀ x ∈ s.a.blocks, ∀ y ∈ s.b.blocks, Disj x.seg y.seg :=
  fun _ hx _ hy => cross_blocks_disj hI.a hI.b hI.cross hx hy

/-- In every state satisfying the invariant all live blocks are pairwise disjoint, clear of every
page / oversize array, and each non-empty one lies inside a held region. -/
theorem blocks_wellplaced {s : Arena} (hI : Inv s) :
    (s.blocks.map Block.seg).Pairwise Disj ∧
    (∀ b ∈ s.blocks, ∀ a ∈ arrSegs s, Disj b.seg a) ∧
    (∀ b ∈ s.blocks, b.bytes = 0 ∨ ∃ r ∈ regions s, Inside b.seg r) := by
  have hd := hI.core.geo.iDisj
  simp only [items] at hd
  refine ⟨(List.pairwise_append.mp hd).1, fun b hb a ha => block_arr_disj hI hb ha, ?_⟩
  intro b hb
  exact hI.core.geo.iIn b.seg (by simp only [items]; exact List.mem_append_left _ (List.mem_map.mpr ⟨b, hb, rfl⟩))

/-! ## release -/

/-- **release_pages_exact.**  The pages handed to `_page_allocator->deallocate`, in order, are
exactly the pages obtained and not yet returned — each once, to the allocator it came from. -/
theorem release_pages_exact {s : Arena} (hI : Inv s) : pageFrees s.release.2 = s.pagesHeld :=
  release_pageFrees hI

/-- **release_oversize_exact.**  The `(upstream, block, bytes, alignment)` tuples passed to
`_upstream->deallocate`, in order, are exactly the ones recorded when the blocks were obtained —
each once, with the size and alignment it was obtained with, to the upstream it was obtained from
(this needs the move assignment to carry `_upstream`: `gen_move_swaps_upstream`). -/
theorem release_oversize_exact {s : Arena} (hI : Inv s) : upFrees s.release.2 = s.ovHeld :=
  release_upFrees hI

/-- **release_destructors_once.**  The trace of `release()` splits into a first part that runs the
registered destructors — each exactly once, newest first (LIFO) — and returns nothing, and a second
part in which no destructor runs (where all pages and blocks are returned). -/
theorem release_destructors_once {s : Arena} (hI : Inv s) :
    ∃ pre post, s.release.2 = pre ++ post ∧ dtorRuns pre = s.dtors ∧ (∀ ev ∈ pre, ev.isFree = false) ∧
      dtorRuns post = [] :=
  release_dtors hI

/-- **release_no_read_after_free.**  For any two events of the `release()` trace, if the earlier one
returns a page or an upstream block and the later one is a bookkeeping read (`next` field, page
entry, oversize entry, destroy task), the read does not touch the returned memory. -/
theorem release_no_read_after_free {s : Arena} (hI : Inv s) : NoReadAfterFree s.pageSize s.release.2 :=
  release_noRAF hI

/-- **release_resets.**  After `release()` the resource is exactly a freshly configured one (all
pointers null, both accounts zero, nothing held, nothing registered) on the same allocators — hence
reusable: the invariant holds again (`arena_inv_step`). -/
theorem release_resets {s : Arena} (hI : Inv s) :
    s.release.1 = Arena.fresh s.pa s.pageSize s.up ∧ s.release.1.spaceUsed = 0 ∧ s.release.1.spaceAllocated = 0 ∧
    Inv s.release.1 := by
  have h := release_eq_fresh hI
  refine ⟨h, by rw [h]; rfl, by rw [h]; rfl, ?_⟩
  rw [h]; exact inv_fresh _ _ _ hI.core.psPow2 hI.core.psGe

/-- The accounts in every state satisfying the invariant: `space_allocated` = page size × pages held
+ bytes of the upstream blocks held; `space_used` = sum of the sizes requested. -/
theorem accounting {s : Arena} (hI : Inv s) :
    s.spaceAllocated = s.pageSize * s.pagesHeld.length + (s.ovHeld.map (·.2.bytes)).sum ∧
    s.spaceUsed = (s.blocks.map (·.bytes)).sum :=
  ⟨hI.core.acctAlloc, hI.acctUsed⟩

/-! ## shared / swiss variants -/

/-- **shared_release_destructors_first.**  `SharedMonotonicBufferResource::release()` (= the swiss
one) over *all* per-thread resources: its trace splits into a first part in which every destructor
registered through any thread runs exactly once (per thread newest first) and nothing is returned,
and a second part without destructors in which every page and every upstream block of every
per-thread resource is returned exactly once as obtained; afterwards every per-thread resource is
fresh (accounts zero, reusable).  So a destructor registered through thread B still sees the blocks
allocated through thread A.  (The two-pass shape is pinned by `gen_stmts_shared_release`.) -/
theorem shared_release_destructors_first (subs : List Arena) (hI : ∀ s ∈ subs, Inv s) :
    ∃ pre post, (sharedRelease subs).2 = pre ++ post ∧
      dtorRuns pre = subs.flatMap (·.dtors) ∧ (∀ ev ∈ pre, ev.isFree = false) ∧
      dtorRuns post = [] ∧ pageFrees post = subs.flatMap (·.pagesHeld) ∧ upFrees post = subs.flatMap (·.ovHeld) ∧
      (sharedRelease subs).1 = subs.map (fun s => Arena.fresh s.pa s.pageSize s.up) :=
  sharedRelease_spec subs hI

/-- **shared_release_no_read_after_free.**  With the per-thread resources on one page allocator and
their regions mutually disjoint, the shared `release()` never reads a bookkeeping field from memory
returned earlier in the same call — its own or another thread's. -/
theorem shared_release_no_read_after_free (ps : Nat) (subs : List Arena) (hI : ∀ s ∈ subs, Inv s)
    (hps : ∀ s ∈ subs, s.pageSize = ps)
    (hcross : subs.Pairwise (fun a b => ∀ r ∈ regions a, ∀ q ∈ regions b, Disj r q)) :
    NoReadAfterFree ps (sharedRelease subs).2 :=
  sharedRelease_noRAF ps subs hI hps hcross

/-- **shared_threads_disjoint.**  Blocks handed out by two different per-thread resources whose
regions are disjoint never overlap (any two members of the per-thread family; each thread allocates
only from its own resource: `gen_stmts_shared_release`, C19 slot privacy). -/
theorem shared_threads_disjoint {s t : Arena} (hs : Inv s) (ht : Inv t)
    (hcross : ∀ r ∈ regions s, ∀ q ∈ regions t, Disj r q) :
    ∀ x ∈ s.blocks, ∀ y ∈ t.blocks, Disj x.seg y.seg :=
  fun _ hx _ hy => cross_blocks_disj hs ht hcross hx hy

/-- The model's arithmetic `alignUp` is the source's mask expression `(x + a - 1) & -a` evaluated in
64-bit unsigned arithmetic, for every power-of-two alignment and every address that does not
overflow (used by `do_align`, by the rounding of `bytes` in both array placements). -/
theorem align_mask_is_round_up (x a k : Nat) (ha : a = 2 ^ k) (hk : k ≤ 64) (hx : x + a - 1 < 2 ^ 64) :
    (x + a - 1) &&& (2 ^ 64 - a) = alignUp x a :=
  alignUp_eq_mask x a k ha hk hx

/-! ## generated obligations (the tie to the source text) -/

/-- Generated obligation: capacities and layouts of the bookkeeping structs are the ones the model
and its proofs use; the three arrays really have `*_CAPACITY` entries and the oversize array (which
the source indexes with `DESTROY_TASK_ARRAY_CAPACITY` in one place and `PAGE_ARRAY_CAPACITY` in the
others) is consistent because both capacities are equal. -/
theorem gen_constants :
    pageArrayCap = 15 ∧ destroyArrayCap = 15 ∧ pageArrayCap = destroyArrayCap ∧
    pageEntriesInArray = pageArrayCap ∧ ovEntriesInArray = pageArrayCap ∧ taskEntriesInArray = destroyArrayCap ∧
    sizeofPageArray = 128 ∧ alignofPageArray = 8 ∧ offsetPages = 8 ∧ ptrSize = 8 ∧
    sizeofOvArray = 368 ∧ alignofOvArray = 8 ∧ offsetOvPages = 8 ∧ sizeofOvPage = 24 ∧
    sizeofDtArray = 248 ∧ alignofDtArray = 8 ∧ offsetTasks = 8 ∧ sizeofDestroyTask = 16 := by decide

/-- Generated obligation: the move assignment exchanges `_upstream` (repaired defect: before
/repo a822f16 it did not, and `release()` of the moved-to resource returned oversize blocks to an
upstream that never allocated them). -/
theorem gen_move_swaps_upstream : moveSwapsUpstream = true ∧ "_upstream" ∈ moveSwaps := by decide

/-- Generated obligation: the move assignment exchanges every state field of the model (and nothing
the model does not know), and the move constructor delegates to it. -/
theorem gen_move_swaps :
    moveSwaps.filter (· ≠ "_upstream") = Skel.stateFields ∧ moveCtorDelegates = true := by decide

/-- Generated obligation: default member initialisers = `Arena.fresh`. -/
theorem gen_field_inits : fieldInits = Skel.fieldInits := by decide

/-- Generated obligations: the statements of every modelled function are the ones the model was
transcribed from. -/
theorem gen_stmts_allocate :
    stmts_allocate = Skel.stmts_allocate ∧ stmts_allocate_tpl = Skel.stmts_allocate_tpl ∧
    stmts_do_align = Skel.stmts_do_align ∧
    stmts_do_allocate_already_aligned = Skel.stmts_do_allocate_already_aligned := by decide
theorem gen_stmts_do_allocate_in_new_page :
    stmts_do_allocate_in_new_page = Skel.stmts_do_allocate_in_new_page := by decide
theorem gen_stmts_do_allocate_with_page_in_new_page_array :
    stmts_do_allocate_with_page_in_new_page_array = Skel.stmts_do_allocate_with_page_in_new_page_array := by decide
theorem gen_stmts_do_allocate_in_oversize_page :
    stmts_do_allocate_in_oversize_page = Skel.stmts_do_allocate_in_oversize_page := by decide
theorem gen_stmts_register_destructor :
    stmts_register_destructor = Skel.stmts_register_destructor ∧
    stmts_get_destroy_task = Skel.stmts_get_destroy_task ∧
    stmts_do_get_destroy_task_in_new_array = Skel.stmts_do_get_destroy_task_in_new_array := by decide
theorem gen_stmts_release :
    stmts_release = Skel.stmts_release ∧ stmts_destruct_all = Skel.stmts_destruct_all := by decide
theorem gen_stmts_contains : stmts_contains = Skel.stmts_contains := by decide

/-- Generated obligation behind the assumption "pages are `page_size`-aligned and the page size is
a power of two" (`PageOKenv`, hypotheses `∃ k, ps = 2 ^ k` of the theorems) for the library's own
allocators: `NewDeletePageAllocator` normalises its page size with `bit_ceil` and asks `operator new`
for exactly `align_val_t(_page_size)` — for every page size, not capped — and returns pages with the
same arguments; `SystemPageAllocator` forwards to one.  (Cached / Batch / Counting / PageHeap only
forward pages; the harness's spy checks all of them at run time up to 65536-byte pages.) -/
theorem gen_page_allocator_alignment :
    stmts_newdelete_set_page_size = Skel.stmts_newdelete_set_page_size ∧
    stmts_newdelete_allocate = Skel.stmts_newdelete_allocate ∧
    stmts_newdelete_deallocate = Skel.stmts_newdelete_deallocate ∧
    stmts_system_allocate = Skel.stmts_system_allocate ∧
    newDeletePageAlignArg = "::std::align_val_t(_page_size)" := by decide

set_option maxRecDepth 8192 in
/-- Generated obligation: the shared `release()` makes two passes over the per-thread resources —
`destruct_all()` on every one, then `release()` on every one — the swiss one only clears its arena
pointer before delegating, and a thread allocates from its own per-thread resource. -/
theorem gen_stmts_shared_release :
    stmts_shared_release = Skel.stmts_shared_release ∧ stmts_swiss_release = Skel.stmts_swiss_release ∧
    stmts_shared_do_allocate = Skel.stmts_shared_do_allocate := by decide


/-! ## non-vacuity -/

/-- a history on 256-byte pages that takes the fast path, two page-array placements, both upstream
paths, a destroy-task array, an over-aligned request that moves `_free_begin` past `_free_end`, a
move, a release and a reconstruction, with a concrete allocator placement -/
def demoOps : List SOp :=
  [ .on false (.alloc 0 1 ⟨0, 0, 0⟩),                  -- empty resource, zero bytes: nullptr
    .on false (.alloc 8 8 ⟨1024, 0, 0⟩),               -- new page, page array behind the block
    .on false (.alloc 16 16 ⟨0, 0, 0⟩),                -- fast path
    .on false (.alloc 300 64 ⟨0, 0, 65536⟩),           -- upstream, new oversize array
    .on false (.alloc 200 512 ⟨0, 0, 131072⟩),         -- upstream, room in the array; alignment > page size
    .on false (.reg 7 ⟨2048, 0, 0⟩),                   -- destroy-task array in a new page
    .on false (.alloc 100 1 ⟨4096, 0, 0⟩),             -- new page, room in the page array
    .move false true,
    .on true (.alloc 256 256 ⟨8192, 0, 0⟩),
    .on true .release,
    .renew false 3 512 3,
    .on false (.alloc 0 1 ⟨0, 0, 0⟩) ]

def demoInit : Sys := ⟨Arena.fresh 0 256 0, Arena.fresh 1 128 1⟩

/-- the hypotheses of `arena_inv` are satisfiable by that history … -/
theorem demo_valid : ValidRun demoInit demoOps := ValidRunD.sound (by decide)

/-- … which is not trivial: before the release the moved-to resource holds 8 blocks in 4 pages and
2 upstream blocks, one destructor is registered, both accounts are non-zero … -/
example : (runOps Sys.next demoInit (demoOps.take 9)).b.blocks.length = 8 ∧
    (runOps Sys.next demoInit (demoOps.take 9)).b.pagesHeld.length = 4 ∧
    (runOps Sys.next demoInit (demoOps.take 9)).b.ovHeld.length = 2 ∧
    (runOps Sys.next demoInit (demoOps.take 9)).b.dtors = [7] ∧
    (runOps Sys.next demoInit (demoOps.take 9)).b.spaceAllocated = 1024 + 688 + 200 ∧
    (runOps Sys.next demoInit (demoOps.take 9)).b.spaceUsed = 0 + 8 + 16 + 300 + 200 + 248 + 100 + 256 := by decide

/-- … and the release returns those 4 pages and 2 blocks after running the destructor. -/
example : pageFrees ((runOps Sys.next demoInit (demoOps.take 9)).b.release.2) = [(0, 8192), (0, 4096), (0, 2048), (0, 1024)] ∧
    upFrees ((runOps Sys.next demoInit (demoOps.take 9)).b.release.2) = [(0, ⟨131072, 200, 512⟩), (0, ⟨65536, 688, 64⟩)] ∧
    dtorRuns ((runOps Sys.next demoInit (demoOps.take 9)).b.release.2) = [7] := by decide

/-- the shared release on two per-thread resources with registered destructors: both destructors
run before the first page goes back -/
example :
    let a := (Arena.fresh 0 512 0).register 1 ⟨1024, 0, 0⟩
    let b := (Arena.fresh 0 512 0).register 2 ⟨2048, 0, 0⟩
    (sharedRelease [a.1, b.1]).2.filterMap (fun ev => match ev with
      | .dtor t => some (Sum.inl t) | .pageFree _ p => some (Sum.inr p) | _ => none)
      = [.inl 1, .inl 2, .inr 1024, .inr 2048] := by decide

example : SysInv (runOps Sys.next demoInit demoOps) :=
  arena_inv 0 256 0 1 128 1 ⟨8, rfl⟩ (by decide) ⟨7, rfl⟩ (by decide) demoOps demo_valid

end Babylon.Properties.C06
