/-
  Property C06 — property theorems only (helper lemmas live next to the model).
  Stub: nothing claimed yet.
-/
namespace Babylon.Properties.C06
end Babylon.Properties.C06
