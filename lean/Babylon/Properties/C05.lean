/-
  Property C05 — anyflow: a run equals sequential evaluation; each vertex runs at most once; the
  closure finishes; reset re-initialises.  Property theorems only (helper lemmas live next to the
  models in Babylon/Anyflow/).

  L1  `Babylon.Anyflow.Dep`    ONE `GraphDependency` at atomic granularity (counter `_waiting_num`,
      three actors A / C b / T whose atomic sub-steps interleave freely, each actor may or may not
      occur).  Finite state space ⇒ `dep_protocol_exhaustive` is a certified closed set evaluated by
      the kernel (694 reachable states).
  L2  `Babylon.Anyflow.Graph`  arbitrary finite DAG; dependencies replaced by the specification
      proved in L1; vertex / data / closure mechanisms concrete; invariants over every schedule.
-/
import Babylon.Anyflow.DepLemmas
import Babylon.Anyflow.GraphLemmas
import Babylon.Anyflow.GraphTerm
import Babylon.Anyflow.View

namespace Babylon.Properties.C05
open Babylon.Core Babylon.Anyflow Babylon.Gen.Anyflow

/-! ## generated obligations (the source still is what the models were written against) -/

/-- `+1` without / `+2` with a condition; every `ready` decrements by one; terminal values. -/
theorem gen_dep_constants :
    incNoCond = 1 ∧ incCond = 2 ∧ readyDec = 1 ∧ readyDec2 = 1 ∧ readyActivateTargetAt = 1 ∧
    readySecondSubUnless = 0 ∧ readyNotifyAt = 0 ∧ checkEstablishedShape = 1 := by decide

/-- the `switch` of `GraphDependency::activate` has exactly the cases -1, 0, 1, 2 and the first two
report "finished at activation" (`return 1`). -/
theorem gen_dep_cases : activateCases = [-1, 0, 1, 2] ∧ activateFinishCases = [-1, 0] := by decide

theorem gen_skel_dep :
    skel_dep_activate = Dep.Skel.activate ∧ skel_dep_ready = Dep.Skel.ready ∧
    skel_activate_case_m1 = [] ∧ skel_activate_case_0 = Dep.Skel.case0 ∧
    skel_activate_case_1 = Dep.Skel.case1 ∧ skel_activate_case_2 = Dep.Skel.case2 ∧
    skel_activate_case_default = [] ∧ skel_dep_reset = [.store "_waiting_num" .rlx] := by decide

theorem gen_vertex_constants :
    vertexReadyDec = 1 ∧ vertexReadyOldAt = 1 ∧ vertexBatchRunnableAt = 0 ∧
    closureInitVertexNum = 1 ∧ closureInitDataNum = 1 ∧ sealedClosure = 2 ^ 64 - 1 := by decide

theorem gen_skel_vertex :
    skel_vertex_activate = Graph.Skel.vertexActivate ∧ skel_vertex_ready = Graph.Skel.vertexReady ∧
    skel_vertex_reset = Graph.Skel.vertexReset ∧ skel_vertex_invoke = Graph.Skel.vertexInvoke ∧
    skel_vertex_flush_emits = Graph.Skel.flushEmits ∧ skel_vertex_closure_done = Graph.Skel.closureDone ∧
    skel_vertex_run = Graph.Skel.vertexRun := by decide

theorem gen_skel_data :
    skel_data_release = Dep.Skel.release ∧ skel_data_ready = Graph.Skel.dataReady ∧
    skel_data_reset = Graph.Skel.dataReset ∧ skel_data_bind = Graph.Skel.dataBind ∧
    skel_data_acquire = Graph.Skel.dataAcquire ∧ skel_data_trigger = Graph.Skel.dataTrigger ∧
    skel_data_recursive_activate = Graph.Skel.recursiveActivate := by decide

theorem gen_skel_closure :
    skel_closure_mark_finished = Graph.Skel.markFinished ∧
    skel_closure_depend_vertex_add = Graph.Skel.vertexAdd ∧ skel_closure_depend_vertex_sub = Graph.Skel.vertexSub ∧
    skel_closure_depend_data_add = Graph.Skel.dataAdd ∧ skel_closure_depend_data_sub = Graph.Skel.dataSub ∧
    skel_closure_fire = Graph.Skel.fire ∧ skel_closure_finish = Graph.Skel.finish := by decide

theorem gen_skel_graph :
    skel_graph_run = Graph.Skel.graphRun ∧ skel_graph_reset = Graph.Skel.graphReset ∧
    skel_inplace_run = Graph.Skel.inplaceRun ∧ skel_pool_run = Graph.Skel.poolRun := by decide

set_option maxRecDepth 100000 in
/-- `reset()` re-initialises exactly the fields the model's `reset` event re-initialises (text of
`GraphDependency::reset`, `GraphVertex::reset`, `GraphData::reset`, `Graph::reset`, whitespace removed). -/
theorem gen_reset_text :
    resetTextDependency = Graph.Skel.resetDependency ∧ resetTextVertex = Graph.Skel.resetVertex ∧
    resetTextData = Graph.Skel.resetData ∧ resetTextGraph = Graph.Skel.resetGraph := by decide +kernel

/-! ## L1 — the dependency counter protocol -/

/-- **dep_protocol_exhaustive** — proved for every dependency whose condition and target are
*different* data (`C` and `T` are two actors, each telling the dependency once); hence `_partial`.
Full statement (all dependencies, including `to(A).on(A)`): FALSE for the code as it is — see
`dep_same_data_counterexample` and the known finding `oracle:samedata:code`
(patches/C05-same-data-condition.diff reduces that case to "C then T on one thread", which is
covered below).

For every interleaving of the atomic sub-steps of `A` (activate),
`C b` (condition ready with value `b`) and `T` (target ready), every subset of these actors, with or
without a condition, and any number of spurious weak-CAS failures:
* the counter stays in `[-3, 2]` and the `default:` branch of the switch is never taken; the
  condition's value is never read before the condition is sealed;
* `notifySource` (`_source->ready(this)`) and `finishedAtActivate` (`activate` returns 1) happen at
  most once *together* — never both, never twice — and only after `A`'s `fetch_add`, when the
  condition is ready and (the dependency is not established or the target is ready); without `A`
  neither happens; the vertex counter is decremented exactly that often and never below 0;
* once the source has been told, `_ready` is final: ready ⇔ established (and then the target is ready);
* `_target->trigger` / `recursive_activate(target)` happen at most once together, only after `A`
  and only if established; the condition is triggered at most once, only after `A`;
* the source vertex is made runnable / invoked at most once, never before it was told;
* nothing is lost: when every actor that started has finished and the dependency is resolvable
  (`A` done, `C` done or absent condition, `T` done or not established) the source has been told
  exactly once and has run; an unresolved activated dependency has demanded what it waits for. -/
theorem dep_protocol_exhaustive_partial (s : Dep.State) (h : Reachable (· ∈ Dep.inits) Dep.Step s) :
    (-3 ≤ s.cntI ∧ s.cntI ≤ 2) ∧ s.bad = false ∧ 0 ≤ s.vwnI ∧ s.vwnI = 1 - (s.notified + s.finA : Nat) ∧
    s.notified + s.finA ≤ 1 ∧
    (s.notified + s.finA = 1 → s.a ≠ .idle ∧ s.condOK = true ∧ (s.estTrue = false ∨ s.tgtSealed = true)) ∧
    (s.a = .idle → s.notified = 0 ∧ s.finA = 0) ∧
    (s.notified + s.finA = 1 → s.rdy = s.estTrue) ∧ (s.rdy = true → s.est = true ∧ s.tgtSealed = true) ∧
    s.trigT + s.actT ≤ 1 ∧ (s.trigT + s.actT = 1 → s.a ≠ .idle ∧ s.estTrue = true ∧ s.condOK = true) ∧
    s.trigC ≤ 1 ∧ (s.trigC = 1 → s.a ≠ .idle ∧ s.cfg.hasCond = true) ∧
    s.runnable ≤ 1 ∧ s.invoked ≤ s.runnable ∧ s.runnable ≤ s.notified + s.finA ∧
    (s.a = .done → (s.c = .idle ∨ s.c = .done) → (s.t = .idle ∨ s.t = .done) →
      (s.cfg.hasCond = true → s.c = .idle → s.trigC = 1) ∧
      ((s.cfg.hasCond = false ∨ s.c = .done) → s.estTrue = true → s.t = .idle → s.trigT + s.actT = 1) ∧
      ((s.cfg.hasCond = false ∨ s.c = .done) → (s.estTrue = false ∨ s.t = .done) →
         s.notified + s.finA = 1 ∧ s.invoked = 1)) :=
  Dep.good_spec s (Dep.reachable_good s h)

/-- **Counterexample for condition = target** (finding `oracle:samedata:code`).  The data is ready
before the activation and does not establish the condition: `ready()` runs twice through the
condition branch, the counter walks 0 → -1 → -2 → -3 → -4 — outside `[-3, 2]` — the activation's
`+2` yields -2, which is none of the `case` labels: the `default:` branch is taken, `activate`
returns 0 (not finished) and no `ready()` call is left to tell the source.  The vertex never becomes
runnable and `Graph::run` finishes with -1. -/
theorem dep_same_data_counterexample :
    Dep.sameDataBeforeActivate = -4 ∧ ¬ (-3 ≤ Dep.sameDataBeforeActivate) ∧
    Dep.sameDataSwitchValue = -2 ∧ Dep.sameDataSwitchValue ∉ activateCases := by decide

/-- not vacuous: the schedule "T, then C (condition false), then A" drives the counter to -3 and
then to the terminal value -1 of the activation, which reports the dependency finished. -/
example : ∃ s, Reachable (· ∈ Dep.inits) Dep.Step s ∧ s.finA = 1 ∧ s.cntI = -1 ∧ s.invoked = 1 :=
  ⟨_, Dep.witness_reachable, by decide⟩

/-- not vacuous: "A, then C (condition true) activating the target, then T" tells the source from `ready()`. -/
example : ∃ s, Reachable (· ∈ Dep.inits) Dep.Step s ∧ s.notified = 1 ∧ s.actT = 1 ∧ s.rdy = true ∧ s.invoked = 1 :=
  ⟨_, Dep.witness2_reachable, by decide⟩

/-! ## view level — publication under the release/acquire view model (Core/MemView.lean) -/

/-- the orders written in the code on the publication path: every counter decrement / increment, the seal
CAS, the acquire CAS and `mark_finished` are acq_rel (release AND acquire), `GraphData::ready()` is an
acquire load -/
theorem gen_view_orders :
    ordDepAdd.releases = true ∧ ordDepAdd.acquires = true ∧ ordDepSub.releases = true ∧ ordDepSub.acquires = true ∧
    ordVertexReady.releases = true ∧ ordVertexReady.acquires = true ∧
    ordVertexBatch.releases = true ∧ ordVertexBatch.acquires = true ∧
    ordSeal.releases = true ∧ ordSeal.acquires = true ∧ ordReadyLoad.acquires = true ∧
    ordAcquireCas.releases = true ∧ ordDataSub.releases = true ∧ ordDataSub.acquires = true ∧
    ordVertexSub.releases = true ∧ ordVertexSub.acquires = true ∧
    ordMarkFinished.releases = true ∧ ordMarkFinished.acquires = true := by decide

open Babylon.Anyflow.View Babylon.Core.MemView in
/-- **data_publication_view** (every execution of the view model, stale reads included; the orders are
those of the code: the vertex counter is decremented with `ordVertexReady` / `ordVertexBatch`).  An emitter
writes the value of data `d` (plain), then — after its seal CAS, the dependency counter … — decrements the
waiting counter `V` of a dependent vertex; the thread whose decrement of `V` triggers the vertex (its RMW
reads from the release sequence of all earlier decrements, the counter being modified by RMWs only) and the
processor it then runs read, for that and hence for EVERY dependency, a value no older than the dependency's
publishing write — although different inputs were published by different threads. -/
theorem data_publication_view {ma m0 m1 m2 m3 m4 m5 : Mem Loc} {c p d V x : Nat} {ow orr : Core.Ord}
    {f g : Nat → Nat} {old old' ts v : Nat}
    (hc : Chain ma) (hw : Path (ma.write c (.val d) ow x) m0)
    (hx : m0.rmw c (.word V) ordVertexReady f = some (m1, old)) (hp : Path m1 m2)
    (hs : m2.rmw p (.word V) ordVertexReady g = some (m3, old')) (hq : Path m3 m4)
    (hr : m4.read p (.val d) orr ts = some (m5, v)) :
    ma.len (.val d) ≤ ts :=
  View.data_publication_view hc hw hx (by decide) hp hs (by decide) hq hr

open Babylon.Anyflow.View Babylon.Core.MemView in
/-- **data_publication_view**, dependency already ready when it is activated: the emitter's seal CAS
(`ordSeal`) is seen by the activating thread's `GraphData::ready()` (`ordReadyLoad`, reading the sealed
message or a later one); that thread reports the dependency in its batch `fetch_sub` (`ordVertexBatch`) on
the vertex counter; the triggering decrement (`ordVertexReady`) acquires it.  Two hops, same conclusion.
(`View.data_publication_view_activation_rmw` is the variant through the dependency counter's `fetch_add`.) -/
theorem data_publication_view_activation {ma m0 m1 m2 m3 m4 m5 m6 m7 m8 m9 : Mem Loc} {c a p d S V x : Nat}
    {ow orr : Core.Ord} {f f2 g : Nat → Nat} {old old2 old' tsS vS ts v : Nat}
    (hc : Chain ma) (hw : Path (ma.write c (.val d) ow x) m0)
    (hx : m0.rmw c (.word S) ordSeal f = some (m1, old)) (hp1 : Path m1 m2)
    (hl : m2.read a (.word S) ordReadyLoad tsS = some (m3, vS)) (hts : m0.len (.word S) ≤ tsS) (hp2 : Path m3 m4)
    (hx2 : m4.rmw a (.word V) ordVertexBatch f2 = some (m5, old2)) (hp3 : Path m5 m6)
    (hs : m6.rmw p (.word V) ordVertexReady g = some (m7, old')) (hq : Path m7 m8)
    (hr : m8.read p (.val d) orr ts = some (m9, v)) :
    ma.len (.val d) ≤ ts :=
  View.data_publication_view_activation hc hw hx (by decide) hp1 hl (by decide) hts hp2 hx2 (by decide) hp3 hs (by decide) hq hr

open Babylon.Anyflow.View Babylon.Core.MemView in
/-- **closure_finish_view.**  Every sealer of a target wrote the value before its `depend_data_sub`
(`ordDataSub`); the decrement that reaches 0 acquires all of them; the thread returning from `get()` /
`wait()` continues from that thread through the finish / flush future (`handoff`, the contract proved for
C08): it observes all target data — every read of a target's value returns the sealer's message or a later one. -/
theorem closure_finish_view {ma m0 m1 m2 m3 m4 m5 m6 : Mem Loc} {c q g t D x : Nat} {ow orr : Core.Ord}
    {f f' : Nat → Nat} {old old' ts v : Nat}
    (hc : Chain ma) (hw : Path (ma.write c (.val t) ow x) m0)
    (hx : m0.rmw c (.word D) ordDataSub f = some (m1, old)) (hp : Path m1 m2)
    (hs : m2.rmw q (.word D) ordDataSub f' = some (m3, old')) (hq : Path m3 m4)
    (hq2 : Path (handoffMem m4 q g) m5) (hr : m5.read g (.val t) orr ts = some (m6, v)) :
    ma.len (.val t) ≤ ts :=
  View.closure_finish_view hc hw hx (by decide) hp hs (by decide) hq hq2 hr

open Babylon.Anyflow.View in
/-- not vacuous + negative controls (concrete executions of the view model, `View.pubRun oE oT stale`):
with the code's orders the stale read of the input is inadmissible and the fresh one returns the published 7;
with the emitter's decrement relaxed or acquire-only, or the triggering decrement relaxed or release-only,
the processor MAY read the stale initial value 0. -/
example :
    pubRun ordVertexReady ordVertexReady 0 = none ∧ pubRun ordVertexReady ordVertexReady 1 = some 7 ∧
    pubRun .rlx ordVertexReady 0 = some 0 ∧ pubRun .acq ordVertexReady 0 = some 0 ∧
    pubRun ordVertexReady .rlx 0 = some 0 ∧ pubRun ordVertexReady .rel 0 = some 0 := by decide

/-! ## L2 — whole graphs -/

open Babylon.Anyflow.Graph in
/-- **vertex_invoke_once** (every graph, every dependency count `n`, every schedule).  With each
activated dependency contributing its one decrement only when resolvable (L1), the vertex counter
equals `n - counted`, exactly one decrement observes it reach 0, so the vertex is put on a runnable
stack at most once and its processor is entered at most once per run — and only when every one of
its dependencies is activated and resolvable (condition evaluated, target ready if the condition
holds).  The activation body runs at most once (`activate` needs `vact v = false`). -/
theorem vertex_invoke_once (p : Params) (s : State) (h : Reachable (· = State.init) (Step p) s) (v : Nat) :
    s.runnable v ≤ 1 ∧ s.started v ≤ s.runnable v ∧
    (s.vact v = true → s.wn v = (p.g.nDeps v : Int) - (s.counted v : Int)) ∧
    (s.runnable v = 1 → s.vact v = true ∧ s.counted v = p.g.nDeps v ∧
       ∀ d ∈ (p.g.vert v).deps, resolvable s d = true) ∧
    (∀ s', stepEvent p s (.activate v) = some s' → s.vact v = false ∧ s'.vact v = true) :=
  Graph.vertex_invoke_once p s h v

open Babylon.Anyflow.Graph in
/-- **data_publish_once.**  A data node is sealed at most once per run, and from then on its value
never changes (until `reset`). -/
theorem data_publish_once (p : Params) (s : State) (h : Reachable (· = State.init) (Step p) s) (d : Nat) :
    s.seals d ≤ 1 ∧ (s.sealed d = true ↔ s.seals d = 1) ∧
    (∀ e s', stepEvent p s e = some s' → s.sealed d = true →
       s' = State.init ∨ (s'.sealed d = true ∧ s'.val d = s.val d)) :=
  Graph.data_publish_once p s h d

open Babylon.Anyflow.Graph in
/-- **closure_finish_flush** — `_partial`: the flush part carries the hypothesis "no emitter unknown
to the closure seals data after `run`" (`lateEnv = false`).  Full statement (flush at most once for
every schedule, including data emitted by other threads while `Graph::run` activates): FALSE for the
code as it is — see `closure_flush_twice_counterexample` and the known finding
`oracle:inject:dup-flush`.

The closure is finished by the first successful `mark_finished` and its
code never changes; as long as no emitter unknown to the closure seals data after `run` (`lateEnv`),
the vertex count is `1 (until fire) + open vertex closures`, the flush is signalled at most once and
only when the count has returned to 0, i.e. after `fire` and after every started vertex closure is
done — no processor is running then and none starts afterwards. -/
theorem closure_finish_flush_partial (p : Params) (s : State) (h : Reachable (· = State.init) (Step p) s) :
    (∀ e s' c, stepEvent p s e = some s' → s.fin = some c → s' = State.init ∨ s'.fin = some c) ∧
    (s.lateEnv = false →
      s.wvn = (if s.firedV then 0 else 1) + s.opened ∧ s.procs ≤ s.opened ∧ s.flushed ≤ 1 ∧
      (s.flushed = 1 → s.firedV = true ∧ s.wvn = 0 ∧ s.opened = 0 ∧ s.procs = 0) ∧
      (s.flushed = 1 → ∀ v ins, stepEvent p s (.procStart v ins) = none)) :=
  Graph.closure_finish_flush p s h

open Babylon.Anyflow.Graph in
/-- **Counterexample with a late emitter** (finding `oracle:inject:dup-flush`): on the graph
`v0: d0 ↦ d1` with target `d1`, the schedule `cexSchedule` — the environment seals `d0` after
`run`, between the activation of the dependency and the emitter's notification — is a path of the
model that flushes the closure twice (and finishes it with -1 although every input was provided). -/
theorem closure_flush_twice_counterexample :
    wfB cexParams = true ∧
    (runEvents cexParams State.init cexSchedule).map (fun s => (s.flushed, s.fin, s.lateEnv)) = some (2, some (-1), true) ∧
    ∃ s, Reachable (· = State.init) (Step cexParams) s ∧ s.flushed = 2 := by
  refine ⟨by decide, by decide, ?_⟩
  cases h : runEvents cexParams State.init cexSchedule with
  | none => exact absurd h (by decide)
  | some s =>
    refine ⟨s, runEvents_reachable (.base rfl) h, ?_⟩
    have : (runEvents cexParams State.init cexSchedule).map (·.flushed) = some 2 := by decide
    rw [h] at this; simpa using this

open Babylon.Anyflow.Graph in
/-- **graph_safety** — `_partial`: `WF` contains `cond ≠ target` for every dependency (the L2 model
replaces dependencies by the specification that L1 proves only for such dependencies).
(every well-formed DAG, every schedule).  While the closure is not finished, a
vertex is activated — hence run — only if the targets need it: some emit of it that the environment
does not provide is demanded by the targets through established dependencies, where "established"
is judged by the *sequential* semantics `evalSeq`. -/
theorem graph_safety_partial (p : Params) (hwf : WF p) (s : State) (h : Reachable (· = State.init) (Step p) s)
    (hfin : s.fin = none) (v : Nat) :
    (s.vact v = true → VNeeded p v) ∧ (s.started v ≥ 1 → VNeeded p v) :=
  Graph.graph_safety p hwf s h hfin v

open Babylon.Anyflow.Graph in
/-- **graph_eq_sequential** — `_partial`: (1) `WF` contains `cond ≠ target`; (2) it is the "on
success" half of the property.  Full statement: additionally every run terminates with the closure
finished, and with code 0 whenever the sequential evaluation has everything it needs — FALSE for the
code as it is when a dependency has `cond = target` (`dep_same_data_counterexample`: the run
finishes with -1) or when an unknown emitter races with the run (`closure_flush_twice_counterexample`).
Termination itself is `graph_terminates` (strictly decreasing measure + no stuck state).
(every well-formed DAG, every input, every target set, every schedule).
If the run finishes successfully (code 0) every target is ready and holds the value the sequential
evaluation `evalSeq` of the same graph gives; more generally, until the closure finishes every
sealed data holds its `evalSeq` value. -/
theorem graph_eq_sequential_partial (p : Params) (hwf : WF p) (s : State) (h : Reachable (· = State.init) (Step p) s) :
    (s.fin = none → ∀ d, s.sealed d = true → s.val d = evalSeq p d) ∧
    (s.fin = some 0 → ∀ t ∈ p.targets, s.sealed t = true ∧ s.val t = evalSeq p t) :=
  Graph.graph_eq_sequential p hwf s h

open Babylon.Anyflow.Graph in
/-- **graph_terminates** — `_partial`.  Full statement: no reachable non-final state without an
enabled step and every maximal run ends flushed and finished.  Proved: the closure machinery never
waits on itself — while the run is not flushed and no processor is inside `process` (processors
and the environment are the only parties allowed to take time) one of `bind`, `fire`, vertex-closure
completion is enabled, and once flushed the closure can always be marked finished; together with
the L1 clause "nothing is lost" (a resolvable activated dependency has told its vertex once all its
actors are done) and `vertex_invoke_once` this is the termination argument.  Missing: the global
well-founded measure over the DAG (each vertex and data makes progress at most once) and fairness
of the executor, which would turn "can progress" into "terminates". -/
theorem graph_terminates_partial (p : Params) (hwf : WF p) (s : State) (h : Reachable (· = State.init) (Step p) s)
    (hr : s.running = true) (hl : s.lateEnv = false) (hp : s.procs = 0) :
    (s.flushed = 0 → ∃ e, (e = .bind ∨ e = .fireD ∨ e = .fireV ∨ e = .vsub) ∧ (stepEvent p s e).isSome = true) ∧
    (s.flushed = 1 → s.fin = none → (stepEvent p s (.finish (-1))).isSome = true) :=
  Graph.closure_progress p hwf s h hr hl hp

open Babylon.Anyflow.Graph in
/-- **graph_terminates** (every well-formed DAG — `WF` excludes `cond = target` as in the other theorems —
every input, target set and schedule).  One run = steps of the model other than `reset` (`TStep`), with the
executor hypothesis explicit on the one event the model leaves open: a vertex closure is created only for a
vertex that has been made runnable, one per vertex (what `GraphVertex::invoke` does; the ghost `k` counts them).
* **measure**: `M` (2·unsealed data + pending data-count decrements + unbound targets + phase flags +
  inactive vertices + dependencies not yet activated + dependency notifications not yet counted +
  2·vertex closures still to be created + open vertex closures + 2·processors still to start + running
  processors) strictly decreases on EVERY step from a reachable state — no fairness assumption is needed for
  finiteness;
* **bound**: an execution of `n` steps satisfies `n + M last ≤ M first`; in particular every execution of a
  run has at most `M (init, 0)` steps and every maximal execution is finite;
* **no stuck state**: a reachable state (no emitter unknown to the closure, `lateEnv = false`, as in
  `closure_finish_flush_partial`) in which no event other than `reset` is enabled is the end of the run:
  fired, flushed exactly once, no vertex closure open, no processor running, closure finished; finished
  with 0 means every target is ready with its `evalSeq` value, otherwise the run failed with that code.
Hence under any scheduler that keeps taking enabled steps (fairness in its weakest form) every run reaches,
after at most `M (init, 0)` steps, a finished and flushed closure. -/
theorem graph_terminates (p : Params) (hwf : WF p) :
    (∀ s k s' k', Reachable (· = State.init) (Step p) s → TStep p (s, k) (s', k') → M p (s', k') < M p (s, k)) ∧
    (∀ n x y, Reachable (· = State.init) (Step p) x.1 → TChain p n x y → n + M p y ≤ M p x) ∧
    (∀ s, Reachable (· = State.init) (Step p) s → s.lateEnv = false →
      (∀ e, e ≠ Ev.reset → stepEvent p s e = none) →
      s.running = true ∧ s.firedV = true ∧ s.flushed = 1 ∧ s.wvn = 0 ∧ s.opened = 0 ∧ s.procs = 0 ∧ s.fin ≠ none ∧
      (s.fin = some 0 → ∀ t ∈ p.targets, s.sealed t = true ∧ s.val t = evalSeq p t)) :=
  ⟨fun _ _ _ _ hr h => step_decreases hwf hr h, fun _ _ _ hr hc => tchain_bound hwf hr hc,
   fun _ hr hl hs => graph_stuck hwf hr hl hs⟩

open Babylon.Anyflow.Graph in
/-- not vacuous: on the one-vertex graph `cexParams` the measure of the initial state is 16, `okSchedule` is an
execution of 15 `TStep`s (the executor hypothesis on `vadd` holds) that brings the measure down to 0 and ends
with the closure finished with 0 and flushed once. -/
example : M cexParams (State.init, 0) = 16 ∧
    (runT cexParams (State.init, 0) okSchedule).map (fun y => (M cexParams y, y.2, y.1.fin, y.1.flushed)) = some (0, 1, some 0, 1) ∧
    ∃ y, TChain cexParams 15 (State.init, 0) y ∧ M cexParams y = 0 := by
  refine ⟨by decide, by decide, ?_⟩
  cases h : runT cexParams (State.init, 0) okSchedule with
  | none => exact absurd h (by decide)
  | some y =>
    refine ⟨y, runT_chain h, ?_⟩
    have : (runT cexParams (State.init, 0) okSchedule).map (fun y => M cexParams y) = some 0 := by decide
    rw [h] at this; simpa using this

open Babylon.Anyflow.Graph in
/-- not vacuous: the one-vertex graph `cexParams` is well-formed, and `okSchedule` (input preset before
`run`) is a path of the model on which the processor runs once, the closure finishes with 0, is flushed
once, and the target holds its `evalSeq` value. -/
example : WF cexParams ∧
    (runEvents cexParams State.init okSchedule).map (fun s => (s.fin, s.flushed, s.val 1, s.started 0, s.lateEnv))
      = some (some 0, 1, evalSeq cexParams 1, 1, false) ∧ evalSeq cexParams 1 = some 9 :=
  ⟨cex_wf, by decide, by decide⟩

open Babylon.Anyflow.Graph in
/-- **reset_reinit.**  `reset` is accepted only when the run is completely over (fired, vertex count
0) and maps any such state to the initial state, from which all theorems above apply again (they are
invariants of `Reachable`, which includes `reset` steps). -/
theorem reset_reinit (p : Params) (s s' : State) (h : stepEvent p s .reset = some s') :
    s' = State.init ∧ s.running = true ∧ s.firedV = true ∧ s.wvn = 0 :=
  Graph.reset_reinit p s s' h

end Babylon.Properties.C05
