/-
  Property C05 — property theorems only (helper lemmas live next to the model).
  Stub: nothing claimed yet.
-/
namespace Babylon.Properties.C05
end Babylon.Properties.C05
