/-
  Property C11 — serialization: round trip, exact size, protobuf wire compatibility, hostile input.
  Property theorems only (helper lemmas live in Babylon/Wire/Lemmas*.lean).
-/
import Babylon.Wire.Codec

namespace Babylon.Properties.C11
open Babylon.Wire Babylon.Gen.Wire

/-- Generated obligation: the parse loops have the repaired shape (vector loops like list). -/
theorem gen_loop_guards :
    vectorLoopGuard = "GetDirectBufferPointer" ∧ vectorBoolLoopGuard = "GetDirectBufferPointer" ∧
    listLoopGuard = "GetDirectBufferPointer" ∧ setLoopGuard = "GetDirectBufferPointer" ∧
    mapLoopGuard = "GetDirectBufferPointer" ∧ aggLoopGuard = "GetDirectBufferPointer" ∧
    vectorReserveGuarded = true := by decide

end Babylon.Properties.C11
