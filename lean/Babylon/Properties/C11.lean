/-
  Property C11 — serialization: round trip, exact size, protobuf wire compatibility, hostile input.
  Property theorems only; the model is Babylon/Wire/{Varint,Codec,Pb}.lean, helper lemmas are
  Babylon/Wire/Lemmas*.lean.

  Reading guide
  * `Ty`/`Val`/`size`/`encode`/`decode`/`parse`, the stream state `St` and the presentation `Pres` are defined in
    Babylon/Wire/Codec.lean, protobuf's own encoding `pbEncode` in Babylon/Wire/Pb.lean; `Cfg.repaired dbg` is the
    shape of the source after the three repairs (8b82019 vector loop guard, b08339f unreadable length, d4a542c stale
    field cache) in a debug (`dbg = true`) or NDEBUG build; `gen_source_is_repaired` pins that the source in /repo
    has that shape, the other `gen_*` obligations pin every constant and parser-shape fact the model relies on.
  * hypotheses: `wfTy` (a type that can be declared in C++), `hasTy` (a value of the type), and for the round trip
    `canonTy`/`canon` (the shapes excluded from it are listed at `decode_encode` and exhibited by the
    `finding_*` theorems below and by the harness as known findings).
  * A: `varint_roundtrip`, `varint_size_formula`, `size_eq_length`, `calculated_size_eq_length`(`_stable`),
       `cache_holder_is_size_cached`, `decode_total_bounded`(`_state`),
       `decode_encode`(`_into`), `empty_encoding_reads_as_default`
    B: `decode_returns_value`, `decode_fixpoint`, `unknown_fields_skipped`, `absent_keeps_default`,
       `field_parse_touches_only_its_member`, `field_order_irrelevant`, `pb_compat_reads`
    witnesses: `finding_*` (known findings), `witness_*` (the three repaired defects, on the pre-repair shape)
  * not covered by a theorem: the size caches (harness oracle `enc`/`enc2`), protobuf reading babylon's bytes
    (harness oracle `pb` with protobuf's own parser), memory safety of the C++ (ASan/UBSan on the sampled inputs).
-/
import Babylon.Wire.LemmasRoundtrip2
import Babylon.Wire.LemmasTotal
import Babylon.Wire.LemmasUnknown
import Babylon.Wire.LemmasFixpoint2
import Babylon.Wire.LemmasPb
import Babylon.Wire.LemmasOrder
import Babylon.Wire.LemmasTraits

namespace Babylon.Properties.C11
open Babylon.Wire Babylon.Gen.Wire

/-! ## Generated obligations: the model was written against this source -/

/-- `varint_size` is `((63 ^ clz(v | 1)) * 9 + 73) / 64`. -/
theorem gen_varint_size_expr : vsOr = 1 ∧ vsXor = 63 ∧ vsMul = 9 ∧ vsAdd = 73 ∧ vsDiv = 64 := by decide

/-- The compiled `SerializationHelper::varint_size` and protobuf's `VarintSize32/64` (used by the scalar traits)
take, at every power of two and just below, the values of the model's `varintSize`. -/
theorem gen_varint_size_probe :
    varintSizeAtPow2 = (List.range 64).map (fun k => varintSize (2 ^ k)) ∧
    varintSizeBelowPow2 = (List.range 65).map (fun k => varintSize (2 ^ k - 1)) ∧
    pbVarintSize64AtPow2 = varintSizeAtPow2 ∧ pbVarintSize64BelowPow2 = varintSizeBelowPow2 ∧
    pbVarintSize32AtPow2 = varintSizeAtPow2.take 32 ∧ pbVarintSize32BelowPow2 = varintSizeBelowPow2.take 33 := by
  decide

/-- `make_tag` is `field_number << 3 | WIRE_TYPE`, the parser dispatches on `tag >> 3` and checks `tag & 7`; the
compiled `make_tag` agrees with `mkTag` on sample types. -/
theorem gen_tag :
    tagShift = 3 ∧ tagFieldShift = 3 ∧ tagWireMask = 7 ∧
    probedTags = [("agg", 5, mkTag 5 (.agg false .nil)), ("i32", 5, mkTag 5 (.int 32 true)),
                  ("f32", 300, mkTag 300 .f32), ("f64", 1, mkTag 1 .f64)] := by decide

/-- `SerializeTraits<T>::WIRE_TYPE` of every kind of the universe is the model's `Ty.wire`. -/
theorem gen_wire_types :
    wtVarint = 0 ∧ wtFixed64 = 1 ∧ wtLenDelim = 2 ∧ wtFixed32 = 5 ∧
    wireTypes =
      [("bool", Ty.bool.wire), ("i8", (Ty.int 8 true).wire), ("i16", (Ty.int 16 true).wire),
       ("i32", (Ty.int 32 true).wire), ("i64", (Ty.int 64 true).wire), ("u8", (Ty.int 8 false).wire),
       ("u16", (Ty.int 16 false).wire), ("u32", (Ty.int 32 false).wire), ("u64", (Ty.int 64 false).wire),
       ("enum", (Ty.enum 32 true).wire), ("f32", Ty.f32.wire), ("f64", Ty.f64.wire), ("str", Ty.str.wire),
       ("vec", (Ty.vec (.int 32 true)).wire), ("vecf32", (Ty.vec .f32).wire), ("vecstr", (Ty.vec .str).wire),
       ("arr", (Ty.arr (.int 32 true) 3).wire), ("arrf64", (Ty.arr .f64 2).wire), ("list", (Ty.list (.int 32 true)).wire),
       ("set", (Ty.set (.int 32 true)).wire), ("map", (Ty.map (.int 32 true) (.int 32 true)).wire),
       ("uptrI", (Ty.uptr (.int 32 true)).wire), ("uptrF", (Ty.uptr .f32).wire), ("uptrS", (Ty.uptr .str).wire),
       ("sptrI", (Ty.sptr (.int 64 true)).wire), ("sptrD", (Ty.sptr .f64).wire), ("sptrS", (Ty.sptr .str).wire),
       ("agg", (Ty.agg false .nil).wire), ("aggTrivial", (Ty.agg false .nil).wire)] := by decide

/-- bool and the 8/16/32-bit integers are written, read and sized through `Varint32`, the 64-bit integers and enums
(of whatever underlying width) through `Varint64`, and what was read is stored by a plain `static_cast<T>(uvalue)`
(`intVarintBits`, `enumVarintBits`, `scalarRead` in the model). -/
theorem gen_varint_kinds :
    varint32Kinds = ["bool", "int8_t", "int16_t", "int32_t", "uint8_t", "uint16_t", "uint32_t"] ∧
    varint64Kinds = ["int64_t", "uint64_t"] ∧ enumVarintBits = 64 ∧ enumReadBits = 64 ∧ enumSizeBits = 64 ∧
    scalarIO =
      [("bool", 32, 32, 32, "static_cast<T>(uvalue)"), ("int8_t", 32, 32, 32, "static_cast<T>(uvalue)"),
       ("int16_t", 32, 32, 32, "static_cast<T>(uvalue)"), ("int32_t", 32, 32, 32, "static_cast<T>(uvalue)"),
       ("uint8_t", 32, 32, 32, "static_cast<T>(uvalue)"), ("uint16_t", 32, 32, 32, "static_cast<T>(uvalue)"),
       ("uint32_t", 32, 32, 32, "static_cast<T>(uvalue)"), ("int64_t", 64, 64, 64, "static_cast<T>(uvalue)"),
       ("uint64_t", 64, 64, 64, "static_cast<T>(uvalue)"), ("enum", 64, 64, 64, "static_cast<T>(uvalue)")] ∧
    intVarintBits 8 = 32 ∧ intVarintBits 16 = 32 ∧ intVarintBits 32 = 32 ∧ intVarintBits 64 = 64 := by decide

/-- Aggregate macro rules: an empty member is omitted; only COMPLEX members have a per-field size cache, and it is
written before the `size == 0` return; the whole-object cache exists from 10 weighted members on (COMPLEX 10,
SIMPLE 1, TRIVIAL 0).  (The base class is not counted: known finding `oracle:complex-base-uncached`.) -/
theorem gen_aggregate_rules :
    emptyMemberOmitted = true ∧ fieldCacheOnlyForComplex = true ∧ fieldCacheWrittenBeforeZeroTest = true ∧
    aggWholeCacheThreshold = 10 ∧ aggCountComplex = 10 ∧ aggCountSimple = 1 ∧ aggCountTrivial = 0 ∧
    aggCountIncludesBase = false ∧ cxComplex = 0 ∧ cxSimple = 1 ∧ cxTrivial = 2 := by decide

/-- Every container parse loop is guarded by `GetDirectBufferPointer` (vector included, since 8b82019) and the
float/double `reserve` is guarded. -/
theorem gen_loop_guards :
    vectorLoopGuard = "GetDirectBufferPointer" ∧ vectorBoolLoopGuard = "GetDirectBufferPointer" ∧
    listLoopGuard = "GetDirectBufferPointer" ∧ setLoopGuard = "GetDirectBufferPointer" ∧
    mapLoopGuard = "GetDirectBufferPointer" ∧ aggLoopGuard = "GetDirectBufferPointer" ∧
    vectorReserveGuarded = true := by decide

/-- A length prefix that cannot be read fails the parse (since b08339f); the wire type of a known field is
compared in debug builds only; string parse clears, vector parse appends, `unique_ptr` keeps an existing pointee,
`shared_ptr` always makes a new one. -/
theorem gen_parser_shape :
    lengthReadChecked = true ∧ debugWireTypeCheck = true ∧ ndebugWireTypeCheck = false ∧
    stringClearsBeforeParse = true ∧ vectorClearsBeforeParse = false ∧ uniquePtrKeepsExisting = true ∧
    sharedPtrAlwaysNew = true := by decide

/-- `consume_unknown_field`: varint → read a varint; fixed32 → skip 4; fixed64 → skip 8; length-delimited → read a
varint and skip that many bytes; anything else fails. -/
theorem gen_unknown_field_cases :
    unknownFieldCases = [(0, "varint64"), (5, "skip 4"), (1, "skip 8"), (2, "varint64;skip varint")] := by decide

/-- The size traits every container header declares, as written in the source: a vector / list / array / set
forwards `SERIALIZED_SIZE_CACHED` of its element, a map takes key **or** value (while `SERIALIZABLE` takes key
**and** value), smart pointers forward it; `SERIALIZED_SIZE_COMPLEXITY` of a container is
`T == TRIVIAL ? SIMPLE : COMPLEX`, of a map the default (COMPLEX), of a smart pointer the pointee's except that
TRIVIAL becomes SIMPLE (since 0635990: a pointer can be null). -/
theorem gen_trait_exprs :
    traitExprs =
      [("vector.SERIALIZABLE", "T.SERIALIZABLE"),
       ("vector.SERIALIZED_SIZE_CACHED", "T.SERIALIZED_SIZE_CACHED"),
       ("vector.SERIALIZED_SIZE_COMPLEXITY", "T.SERIALIZED_SIZE_COMPLEXITY==TRIVIAL?SIMPLE:COMPLEX"),
       ("vectorBool.SERIALIZABLE", "true"),
       ("vectorBool.SERIALIZED_SIZE_CACHED", "false"),
       ("vectorBool.SERIALIZED_SIZE_COMPLEXITY", "SIMPLE"),
       ("list.SERIALIZABLE", "T.SERIALIZABLE"),
       ("list.SERIALIZED_SIZE_CACHED", "T.SERIALIZED_SIZE_CACHED"),
       ("list.SERIALIZED_SIZE_COMPLEXITY", "T.SERIALIZED_SIZE_COMPLEXITY==TRIVIAL?SIMPLE:COMPLEX"),
       ("array.SERIALIZABLE", "T.SERIALIZABLE"),
       ("array.SERIALIZED_SIZE_CACHED", "T.SERIALIZED_SIZE_CACHED"),
       ("array.SERIALIZED_SIZE_COMPLEXITY", "T.SERIALIZED_SIZE_COMPLEXITY==TRIVIAL?SIMPLE:COMPLEX"),
       ("set.SERIALIZABLE", "T.SERIALIZABLE"),
       ("set.SERIALIZED_SIZE_CACHED", "T.SERIALIZED_SIZE_CACHED"),
       ("set.SERIALIZED_SIZE_COMPLEXITY", "T.SERIALIZED_SIZE_COMPLEXITY==TRIVIAL?SIMPLE:COMPLEX"),
       ("map.SERIALIZABLE", "K.SERIALIZABLE&&V.SERIALIZABLE"),
       ("map.SERIALIZED_SIZE_CACHED", "K.SERIALIZED_SIZE_CACHED||V.SERIALIZED_SIZE_CACHED"),
       ("map.SERIALIZED_SIZE_COMPLEXITY", "<default>"),
       ("uniquePtr.SERIALIZABLE", "T.SERIALIZABLE"),
       ("uniquePtr.SERIALIZED_SIZE_CACHED", "T.SERIALIZED_SIZE_CACHED"),
       ("uniquePtr.SERIALIZED_SIZE_COMPLEXITY", "T.SERIALIZED_SIZE_COMPLEXITY==TRIVIAL?SIMPLE:T.SERIALIZED_SIZE_COMPLEXITY"),
       ("sharedPtr.SERIALIZABLE", "T.SERIALIZABLE"),
       ("sharedPtr.SERIALIZED_SIZE_CACHED", "T.SERIALIZED_SIZE_CACHED"),
       ("sharedPtr.SERIALIZED_SIZE_COMPLEXITY", "T.SERIALIZED_SIZE_COMPLEXITY==TRIVIAL?SIMPLE:T.SERIALIZED_SIZE_COMPLEXITY"),
       ("string.SERIALIZABLE", "true"),
       ("string.SERIALIZED_SIZE_CACHED", "<default>"),
       ("string.SERIALIZED_SIZE_COMPLEXITY", "SIMPLE")] ∧
    ptrInheritsTrivial = false ∧ trivialShortcutIn = ["vector", "array"] ∧ calculateFirstIffSizeCached = true := by
  decide

/-- struct {int32_t a; std::vector<int32_t> v} — a COMPLEX member: size-cached -/
def tyCx : Ty := .agg false (.cons 1 (.int 32 true) (.num 0) (.cons 2 (.vec (.int 32 true)) .nil .nil))
/-- struct {int32_t a; std::string s} — few simple members: not cached -/
def tySmall : Ty := .agg false (.cons 1 (.int 32 true) (.num 0) (.cons 2 .str (.bytes []) .nil))
/-- struct {float a; double b} — TRIVIAL -/
def tyTrivial : Ty := .agg false (.cons 1 .f32 (.num 0) (.cons 2 .f64 (.num 0) .nil))
/-- `k` int32_t members numbered 1…k -/
def intFields : Nat → Nat → Fields
  | 0, _ => .nil
  | k + 1, n => .cons n (.int 32 true) (.num 0) (intFields k (n + 1))
def tyMany : Ty := .agg false (intFields 10 1)
def tyNine : Ty := .agg false (intFields 9 1)
/-- struct : std::vector<int32_t> {int32_t a} — COMPLEX base class (known finding) -/
def tyBaseCx : Ty := .agg true (.cons 1 (.vec (.int 32 true)) .nil (.cons 2 (.int 32 true) (.num 0) .nil))

/-- the types whose `SERIALIZED_SIZE_COMPLEXITY` / `SERIALIZED_SIZE_CACHED` the translator compiles and prints -/
def traitSamples : List (String × Ty) :=
  [("f32", .f32), ("i32", .int 32 true), ("str", .str), ("vecf32", .vec .f32), ("veci32", .vec (.int 32 true)),
   ("vecbool", .vec .bool), ("listf32", .list .f32), ("listi32", .list (.int 32 true)), ("seti32", .set (.int 32 true)),
   ("arri32", .arr (.int 32 true) 3), ("arrf64", .arr .f64 2), ("map_i32_i32", .map (.int 32 true) (.int 32 true)),
   ("uptrf32", .uptr .f32), ("sptrf64", .sptr .f64), ("uptri32", .uptr (.int 32 true)), ("sptrstr", .sptr .str),
   ("small", tySmall), ("trivial", tyTrivial), ("cx", tyCx), ("many", tyMany), ("nine", tyNine),
   ("outer", .agg false (.cons 1 tyCx .nil .nil)),
   ("ptrtrivial", .agg false (.cons 1 (.uptr .f32) .null .nil)), ("basecx", tyBaseCx),
   ("uptr_trivial", .uptr tyTrivial), ("vec_cx", .vec tyCx), ("vec_small", .vec tySmall), ("vec_trivial", .vec tyTrivial),
   ("list_cx", .list tyCx), ("set_cx", .set tyCx), ("arr_cx", .arr tyCx 2), ("uptr_cx", .uptr tyCx),
   ("sptr_many", .sptr tyMany), ("map_str_cx", .map .str tyCx), ("map_cx_i32", .map tyCx (.int 32 true)),
   ("map_cx_many", .map tyCx tyMany), ("map_str_small", .map .str tySmall), ("map_i32_vec", .map (.int 32 true) (.vec (.int 32 true))),
   ("map_str_uptrcx", .map .str (.uptr tyCx)), ("vec_map_str_cx", .vec (.map .str tyCx))]

/-- The compiled `SerializeTraits<T>::SERIALIZED_SIZE_COMPLEXITY` and `::SERIALIZED_SIZE_CACHED` of 40 sample types —
every container over cached / COMPLEX / SIMPLE / TRIVIAL elements, maps with a cached key only, a cached value only,
both, neither — are what the model's `complexity` and `sizeCached` compute. -/
theorem gen_trait_probes :
    probedTraits = traitSamples.map (fun p => (p.1, complexity ptrInheritsTrivial p.2, sizeCached ptrInheritsTrivial p.2)) := by
  decide

/-- The source in /repo has the repaired shape the theorems below are about. -/
theorem gen_source_is_repaired (dbg : Bool) : Cfg.ofSource dbg = Cfg.repaired dbg := by
  cases dbg <;> decide

/-! ## A. Varints and sizes -/

/-- Reading back a written varint: for every `v < 2^64` and whatever follows, scanning (at most 10 bytes) returns
`v` and the number of bytes written. -/
theorem varint_roundtrip (v : Nat) (hv : v < 2 ^ 64) (rest : Bytes) :
    scanVarint 10 (encVarint v ++ rest) = some (v, (encVarint v).length) :=
  scanVarint_encVarint v hv rest

/-- The code's clz formula `((63 ^ clz(v|1)) * 9 + 73) / 64` is the number of 7-bit groups written, for all
`v < 2^64`. -/
theorem varint_size_formula (v : Nat) (hv : v < 2 ^ 64) :
    (Nat.log2 (v ||| 1) * 9 + 73) / 64 = (encVarint v).length :=
  (encVarint_length v hv).symm

/-- **Exact size**: for every declarable type and every value (well-typed or not) whose encoding stays below
4 GiB — beyond which `WriteVarint32(size)` truncates a length prefix — the predicted size is the number of bytes
produced. -/
theorem size_eq_length (t : Ty) (ht : wfTy t = true) (v : Val) (hs : size t v < 2 ^ 32) :
    (encode t v).length = size t v :=
  encode_length t ht v hs

/-- **Exact size, as the code computes it.**  `calcSize` is `calculate_serialized_size` with the
"TRIVIAL element ⇒ n · size(value[0])" shortcut of vector.h / array.h.  For every declarable type, every well-typed
value (encoding below 4 GiB), with the traits the source has now (`ptrInheritsTrivial = false`,
`gen_trait_exprs`): the predicted size is the number of bytes produced. -/
theorem calculated_size_eq_length (t : Ty) (ht : wfTy t = true) (v : Val) (hv : hasTy t v = true)
    (hs : size t v < 2 ^ 32) : (encode t v).length = calcSize false t v := by
  rw [calcSize_eq_size false t (sizeStable_of_repaired t) v hv]
  exact encode_length t ht v hs

/-- … and for either shape of the pointer traits (`inh`), on the types without a smart pointer that is declared
TRIVIAL (`sizeStable`). -/
theorem calculated_size_eq_length_stable (inh : Bool) (t : Ty) (ht : wfTy t = true) (hst : sizeStable inh t = true)
    (v : Val) (hv : hasTy t v = true) (hs : size t v < 2 ^ 32) : (encode t v).length = calcSize inh t v := by
  rw [calcSize_eq_size inh t hst v hv]
  exact encode_length t ht v hs

/-- **Whoever holds a size cache is SERIALIZED_SIZE_CACHED.**  `Serialization::serialize_to_string / _coded_stream`
run `calculate_serialized_size` first exactly when `SERIALIZED_SIZE_CACHED` (`gen_trait_exprs`); `serialize` trusts
the caches.  For every type — any nesting of vectors, lists, sets, arrays, maps (key OR value), smart pointers and
aggregates — in which no aggregate has a COMPLEX base class (the recorded finding `oracle:complex-base-uncached`,
`finding_complex_base_uncached`): if anything inside keeps a size cache (an aggregate with a COMPLEX member or ten
weighted members), the type is SERIALIZED_SIZE_CACHED, so the caches are always filled before they are read.  (What
the caches then hold is not modelled: that is the harness oracle `enc` / `enc2`.) -/
theorem cache_holder_is_size_cached (inh : Bool) (t : Ty) (hb : noComplexBase inh t = true)
    (hc : hasCacheInside inh t = true) : sizeCached inh t = true :=
  cached_of_cacheInside inh t hb hc

/-! ## A. Hostile input: termination and bounds -/

/-- **Parsing terminates and stays inside the input**: for every declarable type, every byte string (shorter than
2 GiB, what the `int`-sized protobuf streams address), every presentation (array- or stream-backed, with or
without an outer limit), every object parsed into, debug or NDEBUG build: the parser never spins or aborts
(`noret`), and when it reports success it has consumed `k` bytes with `k` at most the number of bytes readable
before the limit / the end of the input — it never looks at anything else (`Adv`, `St.window`) — and has restored
the limit it was given. -/
theorem decode_total_bounded (dbg : Bool) (t : Ty) (ht : wfTy t = true) (p : Pres) (bs : Bytes)
    (hlen : bs.length ≤ intMax) (d : Val) :
    parse (Cfg.repaired dbg) t p bs d ≠ .noret ∧
    ∀ v st', parse (Cfg.repaired dbg) t p bs d = .ok v st' →
      ∃ k, k ≤ (St.init p bs).avail ∧ k ≤ bs.length ∧ st' = (St.init p bs).adv k := by
  have h := decode_spec dbg t ht (St.init p bs) d (init_WF p bs hlen)
  refine ⟨h.2, fun v st' e => ?_⟩
  obtain ⟨k, hk, rfl⟩ := (h.1 v st' e).1
  refine ⟨k, hk, ?_, rfl⟩
  have := (St.init p bs).avail_le_length
  have hb : (St.init p bs).bs = bs := by
    unfold St.init
    cases p.outer <;> simp
  rw [hb] at this
  omega

/-- The same for a parser started in the middle of a stream (any well-formed state): this is what every nested
`deserialize` call sees. -/
theorem decode_total_bounded_state (dbg : Bool) (t : Ty) (ht : wfTy t = true) (st : St) (hwf : st.WF) (d : Val) :
    decode (Cfg.repaired dbg) t st d ≠ .noret ∧
    ∀ v st', decode (Cfg.repaired dbg) t st d = .ok v st' → Adv st st' :=
  ⟨(decode_spec dbg t ht st d hwf).2, fun v st' e => ((decode_spec dbg t ht st d hwf).1 v st' e).1⟩

/-! ## A. Round trip -/

/-- **Round trip**.  For every declarable canonical type `t`, every well-typed canonical value `v` whose encoding is
below 2 GiB, every presentation that shows all the bytes (flat array, string, stream-backed with any chunking,
with or without an enclosing limit), debug or NDEBUG build: parsing `encode t v` into a fresh object succeeds,
consumes exactly the encoding and yields `norm t v` — `v` itself, except that a smart pointer to a value whose
encoding is empty reads back as null (the exception stated in the property).

Canonical (`canonTy`, `canon`) excludes exactly:
* a string / container / pointer member with a non-empty default member initialiser (`resettable`), and containers
  or arrays whose elements are smart pointers to a varint / fixed-width type (`Ty.packedNonEmpty`) — both are run on
  the real code and reported as known findings (`finding_nonempty_default`, `finding_null_scalar_ptr`);
* sets / maps with duplicate keys, which are not values of the C++ containers.
Not covered by the model at all: the size caches (known finding `oracle:complex-base-uncached`, and the repaired
`oracle:stale-field-cache`, are caught by the harness oracle only). -/
theorem decode_encode (dbg : Bool) (t : Ty) (v : Val) (p : Pres) (ht : wfTy t = true) (hc : canonTy t = true)
    (hv : hasTy t v = true) (hcv : canon t v = true) (hsz : size t v < 2 ^ 31) (hp : p.shows (size t v)) :
    parse (Cfg.repaired dbg) t p (encode t v) (dflt t) =
      .ok (norm t v) ((St.init p (encode t v)).adv (size t v)) := by
  have hlen := encode_length t ht v (by omega)
  have hle : (encode t v).length ≤ intMax := by rw [hlen]; unfold intMax; omega
  have hw := init_window p (encode t v) hle (by rw [hlen]; exact hp)
  have := (rt dbg t ht hc v (dflt t) hv hcv (resettable_dflt t hc) hsz).1 (St.init p (encode t v))
    (init_WF p _ hle) hw
  rw [hlen] at this
  exact this

/-- The same into any object whose members are resettable (e.g. an object that was parsed into before and
cleared), not only a default-constructed one. -/
theorem decode_encode_into (dbg : Bool) (t : Ty) (v d : Val) (p : Pres) (ht : wfTy t = true) (hc : canonTy t = true)
    (hv : hasTy t v = true) (hcv : canon t v = true) (hd : resettable t d = true) (hsz : size t v < 2 ^ 31)
    (hp : p.shows (size t v)) :
    parse (Cfg.repaired dbg) t p (encode t v) d = .ok (norm t v) ((St.init p (encode t v)).adv (size t v)) := by
  have hlen := encode_length t ht v (by omega)
  have hle : (encode t v).length ≤ intMax := by rw [hlen]; unfold intMax; omega
  have hw := init_window p (encode t v) hle (by rw [hlen]; exact hp)
  have := (rt dbg t ht hc v d hv hcv hd hsz).1 (St.init p (encode t v)) (init_WF p _ hle) hw
  rw [hlen] at this
  exact this

/-- **Absent fields keep their defaults / empty ⇒ default**: a value whose encoding is empty reads back as any
resettable object of its type — so a member that is omitted from the wire (size 0) and therefore keeps the fresh
object's default is exactly what the round trip needs. -/
theorem empty_encoding_reads_as_default (t : Ty) (v d : Val) (ht : wfTy t = true) (hc : canonTy t = true)
    (hv : hasTy t v = true) (hd : resettable t d = true) (h0 : size t v = 0) : norm t v = d :=
  norm_of_size_zero t ht hc v d hv hd h0

/-! ## B. Fixpoint, unknown fields, absent fields, field order -/

/-- **What a successful parse returns is a value** (any configuration of the model, any bytes, any state of the
stream, any well-typed canonical object parsed into): integers in range, arrays of the declared length, sets / maps
without duplicates.  `keysPtrFree`: set elements and map keys hold no smart pointers (C++ compares them by value). -/
theorem decode_returns_value (cfg : Cfg) (t : Ty) (ht : wfTy t = true) (hc : canonTy t = true)
    (hk : keysPtrFree t = true) (st : St) (d v : Val) (st' : St) (hd : hasTy t d = true) (hcd : canon t d = true)
    (h : decode cfg t st d = .ok v st') : hasTy t v = true ∧ canon t v = true :=
  decode_wf cfg t ht hc hk st d v st' hd hcd h

/-- **Parse success ⇒ the result serializes and parses back to itself.**  Whatever bytes `bs`, presentation `p`
and (well-typed canonical) object `d` a parse started from, if it reports success with `v` then serializing `v` and
parsing the bytes into a fresh object — through any presentation `q` that shows them all — succeeds and yields
`norm t v`: `v` itself, smart pointers to empty-encoding values read back as null.  (`size t v < 2^31`: the
re-serialization must itself be presentable; it can be longer than `bs`, e.g. `ff 01` read as `int8_t` −1 is
written back as 5 bytes.) -/
theorem decode_fixpoint (dbg : Bool) (t : Ty) (p q : Pres) (bs : Bytes) (d v : Val) (st' : St)
    (ht : wfTy t = true) (hc : canonTy t = true) (hk : keysPtrFree t = true) (hd : hasTy t d = true)
    (hcd : canon t d = true) (h : parse (Cfg.repaired dbg) t p bs d = .ok v st') (hsz : size t v < 2 ^ 31)
    (hq : q.shows (size t v)) :
    parse (Cfg.repaired dbg) t q (encode t v) (dflt t) =
      .ok (norm t v) ((St.init q (encode t v)).adv (size t v)) := by
  obtain ⟨h1, h2⟩ := decode_wf (Cfg.repaired dbg) t ht hc hk (St.init p bs) d v st' hd hcd h
  exact decode_encode dbg t v q ht hc h1 h2 hsz hq

/-- **Unknown fields are skipped.**  While parsing an aggregate, a well-formed field whose number no member has —
wire type varint, fixed64, fixed32 or length-delimited (`okPayload`) — is stepped over: the parse goes on exactly
as if it had started behind it.  Holds at any point of any stream (`st`), for whatever follows (`rest`). -/
theorem unknown_fields_skipped (dbg : Bool) (b : Bool) (fs : Fields) (hfs : wfFields fs = true) (num w : Nat)
    (payload rest : Bytes) (d : Val) (hnum : num < 2 ^ 29) (hw : okPayload w payload) (hun : fs.hasNum num = false)
    (hd : shapeOf fs d = true) (st : St) (hwf : st.WF)
    (hwin : st.window = encVarint (num * 8 + w) ++ payload ++ rest) :
    decode (Cfg.repaired dbg) (.agg b fs) st d =
      decode (Cfg.repaired dbg) (.agg b fs) (st.adv (encVarint (num * 8 + w) ++ payload).length) d :=
  agg_skips_unknown dbg b fs hfs num w payload rest d hnum hw hun hd st hwf hwin

/-- **Absent fields keep their defaults** (1): an aggregate parsed from no readable bytes is left exactly as it
was. -/
theorem absent_keeps_default (cfg : Cfg) (b : Bool) (fs : Fields) (st : St) (d : Val) (h : st.avail = 0) :
    decode cfg (.agg b fs) st d = .ok d st :=
  agg_empty_input cfg b fs st d h

/-- **Absent fields keep their defaults** (2) / building block of field-order independence: one iteration of the
aggregate loop whose tag carries the number of the member at *any* position parses that member in place and leaves
every other entry of the object — before (`rpre`) and after (`xs`) — as it was. -/
theorem field_parse_touches_only_its_member (cfg : Cfg) (n : Nat) (t : Ty) (d0 : Val) (pre rest : Fields)
    (tag : Nat) (st : St) (rpre x xs : Val) (hs : shapeOf pre rpre = true) (hn : pre.hasNum n = false) (r : Val)
    (st' : St) (h : decodeField cfg (pre.app (.cons n t d0 rest)) n tag st (rpre.app (.cons x xs)) = .ok r st') :
    ∃ x', r = rpre.app (.cons x' xs) ∧ fieldWith cfg t.wire tag (decode cfg t) st x = .ok x' st' :=
  field_touches_only_its_member cfg n t d0 pre rest tag st rpre x xs hs hn r st' h

/-- **Field order does not matter.**  For an aggregate with pairwise distinct field numbers, a well-typed canonical
value `vs` and a fresh (resettable) object `ds`: whatever order `order` the members arrive in — each member with a
non-empty encoding exactly once (`chunk fs vs i` = tag, length, payload of member `i`; `encodeInOrder` concatenates
them in wire order), members with an empty encoding absent — the parse yields the same `normFields fs vs` as in
declaration order (`decode_encode`).  Holds at any point of any stream whose readable window is those bytes. -/
theorem field_order_irrelevant (dbg : Bool) (b : Bool) (fs : Fields) (vs ds : Val) (order : List Nat)
    (hw : wfFields fs = true) (hc : canonFields fs = true) (hnd : fs.nodupNums = true)
    (hty : hasTyFields fs vs = true) (hcv : canonRec fs vs = true) (hd : resettableFields fs ds = true)
    (hsz : sizeFields fs vs < 2 ^ 31) (hnodup : order.Nodup)
    (hin : ∀ i, i ∈ order → i < fs.len ∧ size (fs.nthTy i) (vs.nth i) ≠ 0)
    (hall : ∀ i, i < fs.len → size (fs.nthTy i) (vs.nth i) ≠ 0 → i ∈ order)
    (st : St) (hwf : st.WF) (hwin : st.window = encodeInOrder fs vs order) :
    decode (Cfg.repaired dbg) (.agg b fs) st ds =
      .ok (normFields fs vs) (st.adv (encodeInOrder fs vs order).length) :=
  agg_any_order dbg b fs vs ds order hw hc hnd hty hcv hd hsz hnodup hin hall st hwf hwin

/-! ## B. protobuf wire compatibility -/

/-- **babylon reads protobuf.**  For a declarable struct made of the kinds docs/serialization documents as
compatible (`compatTy`: optional bool / int32 / int64 / uint32 / uint64 / float / double / enum / string / bytes /
nested message, packed repeated scalars) and any well-typed value, parsing *protobuf's own encoding* of the value
(`pbEncode`, written from the protobuf rules: negative int32 sign-extended to 10 bytes, set optional fields always
present, empty packed fields absent; checked byte for byte against protobuf's writer by the harness) into a fresh
object yields exactly the value — through any presentation, debug or NDEBUG.

The converse (protobuf reads babylon's bytes) needs a model of protobuf's parser and is not stated in Lean: the
harness hands every generated encoding of the documented struct to protobuf's generic wire parser
(`UnknownFieldSet`) and compares field numbers, wire types and values (`pb` op, oracle `protobuf-reads-babylon`). -/
theorem pb_compat_reads (dbg : Bool) (t : Ty) (v : Val) (p : Pres) (ht : wfTy t = true) (hc : compatTy t = true)
    (hcan : canonTy t = true) (hv : hasTy t v = true) (hsz : (pbEncode t v).length < 2 ^ 31)
    (hp : p.shows (pbEncode t v).length) :
    parse (Cfg.repaired dbg) t p (pbEncode t v) (dflt t) =
      .ok v ((St.init p (pbEncode t v)).adv (pbEncode t v).length) := by
  have hle : (pbEncode t v).length ≤ intMax := by unfold intMax; omega
  exact (pb_rt dbg t ht hc v (dflt t) hv (resettable_dflt t hcan) hsz).1 (St.init p (pbEncode t v))
    (init_WF p _ hle) (init_window p _ hle hp)

/-! ### the hypotheses are satisfiable (and the theorems say something on a real struct) -/

/-- `struct A1 { int32_t a; std::string s; std::vector<int32_t> v; BABYLON_SERIALIZABLE((a,1)(s,2)(v,3)) }` -/
def exTy : Ty :=
  .agg false (.cons 1 (.int 32 true) (.num 0) (.cons 2 .str (.bytes []) (.cons 3 (.vec (.int 32 true)) .nil .nil)))
/-- `{5, "ab", {1, -1, 300}}` -/
def exVal : Val :=
  .cons (.num 5) (.cons (.bytes [97, 98]) (.cons (.cons (.num 1) (.cons (.num 4294967295) (.cons (.num 300) .nil))) .nil))

example : wfTy exTy = true ∧ canonTy exTy = true ∧ hasTy exTy exVal = true ∧ canon exTy exVal = true ∧
    size exTy exVal < 2 ^ 31 := by decide
example : encode exTy exVal = [0x08, 0x05, 0x12, 0x02, 0x61, 0x62, 0x1a, 0x08, 0x01, 0xff, 0xff, 0xff, 0xff, 0x0f, 0xac, 0x02] := by
  decide
example : (⟨false, none⟩ : Pres).shows 16 := fun _ h => by cases h
/-- the members of the example in the order v, a, s: other bytes, same value -/
example : encodeInOrder (match exTy with | .agg _ fs => fs | _ => .nil) exVal [2, 0, 1] =
    [0x1a, 0x08, 0x01, 0xff, 0xff, 0xff, 0xff, 0x0f, 0xac, 0x02, 0x08, 0x05, 0x12, 0x02, 0x61, 0x62] ∧
    parse (Cfg.repaired false) exTy ⟨true, none⟩
      [0x1a, 0x08, 0x01, 0xff, 0xff, 0xff, 0xff, 0x0f, 0xac, 0x02, 0x08, 0x05, 0x12, 0x02, 0x61, 0x62] (dflt exTy) =
      .ok exVal ((St.init ⟨true, none⟩
        [0x1a, 0x08, 0x01, 0xff, 0xff, 0xff, 0xff, 0x0f, 0xac, 0x02, 0x08, 0x05, 0x12, 0x02, 0x61, 0x62]).adv 16) := by
  decide
/-- the same struct is of the documented-compatible kinds; protobuf writes the −1 in ten bytes -/
example : compatTy exTy = true ∧ pbEncode exTy exVal =
    [0x08, 0x05, 0x12, 0x02, 0x61, 0x62, 0x1a, 0x0d, 0x01, 0xff, 0xff, 0xff, 0xff, 0xff, 0xff, 0xff, 0xff, 0xff, 0x01, 0xac, 0x02] := by
  decide

/-! ## Witnesses: why the hypotheses are there (each is also run on the real code by the harness) -/

/-- Known finding `oracle:nonempty-default`: `struct { std::string s {"abc"}; }` with `s = ""` — the empty member is
omitted and the fresh object keeps `"abc"`. -/
theorem finding_nonempty_default :
    let t : Ty := .agg false (.cons 1 .str (.bytes [97, 98, 99]) .nil)
    let v : Val := .cons (.bytes []) .nil
    wfTy t = true ∧ hasTy t v = true ∧ canonTy t = false ∧
    parse (Cfg.repaired false) t ⟨true, none⟩ (encode t v) (dflt t) =
      .ok (.cons (.bytes [97, 98, 99]) .nil) (St.init ⟨true, none⟩ []) := by decide

/-- Known finding `oracle:null-scalar-ptr-in-container`: `std::vector<std::unique_ptr<int32_t>> {nullptr, &5}`
encodes as `05` and reads back `{&5}`. -/
theorem finding_null_scalar_ptr :
    let t : Ty := .vec (.uptr (.int 32 true))
    let v : Val := .cons .null (.cons (.some (.num 5)) .nil)
    wfTy t = true ∧ hasTy t v = true ∧ canonTy t = false ∧ encode t v = [5] ∧
    parse (Cfg.repaired false) t ⟨true, none⟩ (encode t v) (dflt t) =
      .ok (.cons (.some (.num 5)) .nil) ((St.init ⟨true, none⟩ [5]).adv 1) := by decide

/-- Before 8b82019 (`vecGuardLimit`): a top-level `std::vector<int32_t> {1,2,3}` presented by a stream-backed
`CodedInputStream` without a limit parsed as empty, with success. -/
theorem witness_vector_no_limit :
    parse { Cfg.repaired false with vecGuardLimit := true } (.vec (.int 32 true)) ⟨false, none⟩ [1, 2, 3] .nil =
      .ok .nil (St.init ⟨false, none⟩ [1, 2, 3]) := by decide

/-- … and `std::vector<float>` aborted (`reserve(size_t(-1)/4)` throws inside `noexcept`). -/
theorem witness_vector_float_no_limit :
    parse { Cfg.repaired false with vecGuardLimit := true, vecReserveUnguarded := true } (.vec .f32) ⟨false, none⟩
      [0, 0, 128, 63] .nil = .noret := by decide

/-- Before b08339f (`lenChecked = false`): eleven `0xff` bytes parsed as `std::list<std::string>` from a flat array
never return — the unreadable length is taken as 0, nothing is consumed, the loop spins. -/
theorem witness_unreadable_length :
    parse { Cfg.repaired false with lenChecked := false } (.list .str) ⟨true, none⟩
      [255, 255, 255, 255, 255, 255, 255, 255, 255, 255, 255] .nil = .noret := by decide

/-- Known finding `oracle:complex-base-uncached`, in the trait model: `struct S : std::vector<int32_t> {int32_t a}`
keeps a per-base size cache but is not SERIALIZED_SIZE_CACHED — the hypothesis `noComplexBase` of
`cache_holder_is_size_cached` is needed. -/
theorem finding_complex_base_uncached :
    hasCacheInside false tyBaseCx = true ∧ sizeCached false tyBaseCx = false ∧ noComplexBase false tyBaseCx = false := by
  decide

/-- Before 0635990 (`inh = true`): `std::vector<std::unique_ptr<float>> {nullptr, &1.5f}` — the pointer was declared
TRIVIAL, the vector predicted `2 · size(value[0]) = 0` bytes and produced 4. -/
theorem witness_nullable_ptr_trivial_size :
    let t : Ty := .vec (.uptr .f32)
    let v : Val := .cons .null (.cons (.some (.num 1069547520)) .nil)
    wfTy t = true ∧ hasTy t v = true ∧ sizeStable true t = false ∧ calcSize true t v = 0 ∧ (encode t v).length = 4 ∧
    calcSize false t v = 4 := by decide

/-- With a map taking key AND value (the seeded change the sample probes catch): `unordered_map<std::string, Cx>` would
hold caches without being SERIALIZED_SIZE_CACHED; with OR (the source, `gen_trait_exprs` / `gen_trait_probes`) it is. -/
theorem witness_map_needs_or :
    hasCacheInside false (.map .str tyCx) = true ∧ sizeCached false (.map .str tyCx) = true ∧
    (sizeCached false .str && sizeCached false tyCx) = false := by decide

end Babylon.Properties.C11
