/-
  Property C11 — property theorems only (helper lemmas live next to the model).
  Stub: nothing claimed yet.
-/
namespace Babylon.Properties.C11
end Babylon.Properties.C11
