/-
  Property C16 — property theorems only (helper lemmas live next to the model).
-/
import Babylon.ExecQ.Model

namespace Babylon.Properties.C16
open Babylon.ExecQ Babylon.Gen.ExecQ Babylon.Core

theorem gen_skel_execute : skel_execute_move = Skel.execute ∧ skel_execute_copy = Skel.execute := by decide
theorem gen_skel_signal_push_event : skel_signal_push_event = Skel.signal_push_event := by decide
theorem gen_skel_start_consumer : skel_start_consumer = Skel.start_consumer := by decide
theorem gen_skel_consume_until_empty : skel_consume_until_empty = Skel.consume_until_empty := by decide
theorem gen_skel_join : skel_join = Skel.join := by decide

end Babylon.Properties.C16
