/-
  Property C16 — property theorems only (helper lemmas live next to the model).
  Stub: nothing claimed yet.
-/
namespace Babylon.Properties.C16
end Babylon.Properties.C16
