/-
  Property C16 — ConcurrentExecutionQueue: items consumed once, one consumer at a time, none stranded;
  refused launches recover.  Property theorems only; the model is `Babylon.ExecQ.Model`, the invariants
  and their proofs are in `Babylon/ExecQ/Lemmas*.lean`.

  The transition system is `Babylon.ExecQ.Step c` (`Reach c` = its reachable states): any number of
  threads, each at any time idle or inside `execute` / `signal_push_event` / `join` /
  `consume_until_empty`; one step = one atomic operation on `_events`, one step of the abstract queue
  (take an index / publish it / batch-pop a published prefix / empty poll, see Q1-Q3 in the model), one
  launch attempt whose outcome (refuse / accept inline / accept asynchronously) is an arbitrary fault
  input, or one call of the consume function's stages.  Theorems over `Reach c` therefore hold for all
  numbers of producers, all capacities `c.cap`, all interleavings — in particular of producers with the
  consumer's exit decision (empty poll, size check, CAS) — and all accept/refuse sequences.
  `ReachA c` restricts the executor to "every launch is accepted".
  `Reach` / `ReachA` range over executions in which the `_events` counter never overflows (`StepN`: fewer
  than `2 ^ c.evBits` signals while one consumer activation lasts).  `gen_events_width` pins the code's
  counter to 64 bits, where this needs 2^64 signals before the queue is once seen empty;
  `eq_events_wrap_counterexample` shows that for a narrow counter the restriction cannot be dropped.

  `c.sizeCheck = true` is the code after repair 0c66556 (`gen_exit_checks_size` pins it to the source);
  `eq_prefix_counterexample` shows that without that branch `join()` returns early.
-/
import Babylon.ExecQ.LemmasProgress
import Babylon.ExecQ.Sched
import Babylon.ExecQ.Pinned
import Babylon.ExecQ.View

namespace Babylon.Properties.C16
open Babylon.ExecQ Babylon.Gen.ExecQ Babylon.Core

/-! ## Generated obligations: the source is the code the model was written against -/

theorem gen_skel_execute : skel_execute_move = Skel.execute ∧ skel_execute_copy = Skel.execute := by decide
theorem gen_skel_signal_push_event : skel_signal_push_event = Skel.signal_push_event := by decide
theorem gen_skel_start_consumer : skel_start_consumer = Skel.start_consumer := by decide
theorem gen_skel_consume_until_empty : skel_consume_until_empty = Skel.consume_until_empty := by decide
theorem gen_skel_join : skel_join = Skel.join := by decide
/-- the full statement text of every modelled function is the text the model was written against
(skeletons and constants below only see the atomic operations; these see everything, e.g. a counter
that bounds the re-poll loop) -/
theorem gen_src_execute : src_execute_move = Pinned.execute_move ∧ src_execute_copy = Pinned.execute_copy := ⟨rfl, rfl⟩
theorem gen_src_signal_push_event : src_signal_push_event = Pinned.signal_push_event := rfl
theorem gen_src_start_consumer : src_start_consumer = Pinned.start_consumer := rfl
theorem gen_src_consume_until_empty : src_consume_until_empty = Pinned.consume_until_empty := rfl
theorem gen_src_join : src_join = Pinned.join := rfl
theorem gen_src_queue_size : src_queue_size = Pinned.queue_size := rfl
/-- memory orders of the `_events` protocol (the labels of the model use the generated names, so every
replayed trace line also checks them) -/
theorem gen_orders :
    ordSignal = .acqrel ∧ ordRollbackS = .acqrel ∧ ordRollbackF = .acq ∧ ordConsLoad = .acq ∧
    ordConsReload = .acq ∧ ordExitS = .acqrel ∧ ordExitF = .acq ∧ ordJoin = .acq := by decide
/-- increment 1, roll-back expects 1 first and resets to 0, the consumer resets to 0; the push is the
concurrent spinning variant, the pop the non-concurrent batch variant -/
theorem gen_constants :
    signalInc = 1 ∧ rollbackExpectInit = 1 ∧ rollbackDesired = 0 ∧ exitDesired = 0 ∧
    pushConcurrent = true ∧ pushFutexWait = false ∧ pushFutexWake = false ∧
    popConcurrent = false ∧ popFutexWake = false := by decide
/-- the consumer re-polls instead of leaving while an index is handed out but not popped (repair
0c66556); the theorems below that assume `c.sizeCheck = true` are about this code -/
theorem gen_exit_checks_size : exitChecksSize = true := by decide
/-- `_events` is a 64-bit counter and its operations yield 64-bit values (the `events` locals are `size_t`
by `gen_src_start_consumer` / `gen_src_consume_until_empty`): an overflow needs 2^64 signals within one
consumer activation -/
theorem gen_events_width : eventsBytes = 8 ∧ eventsValueBytes = 8 := by decide
/-- the configuration the replay driver runs the model in (`sizeCheck := exitChecksSize`,
`evBits := 8 * eventsBytes`, any capacity) satisfies the hypothesis `c.sizeCheck = true` of the theorems
below and has the 64-bit counter -/
theorem gen_code_cfg (cap : Nat) :
    ({ cap := cap, sizeCheck := exitChecksSize, evBits := 8 * eventsBytes } : Cfg).sizeCheck = true ∧
    ({ cap := cap, sizeCheck := exitChecksSize, evBits := 8 * eventsBytes } : Cfg).evBits = 64 :=
  ⟨gen_exit_checks_size, rfl⟩

/-! ## eq_single_consumer -/

/-- **At most one consumer; `_events` accounting.**  In every reachable state, under every executor
behaviour: at most one thread owns the current `_events ≠ 0` episode (it is the producer between its
`fetch_add` that returned 0 and the outcome of the launch / its roll-back, or the running consumer);
while such a thread exists no accepted launch is pending, and at most one accepted launch is ever
pending; and `_events > 0` exactly when an owner exists or an accepted launch is pending. -/
theorem eq_single_consumer (c : Cfg) (s : State) (hr : Reach c s) :
    (∀ t u, (s.pc t).owner = true → (s.pc u).owner = true → t = u) ∧
    (∀ t, (s.pc t).owner = true → s.launched = 0) ∧ s.launched ≤ 1 ∧
    (0 < s.events ↔ (∃ t, (s.pc t).owner = true) ∨ s.launched = 1) := by
  have ho := (reach_invB hr).o
  refine ⟨ho.uniq, ho.nol, ho.l1, ?_, ?_⟩
  · intro hpos
    by_cases h : ∃ t, (s.pc t).owner = true
    · exact .inl h
    · right
      have hno : ∀ t, (s.pc t).owner = false := by
        intro t; cases ho' : (s.pc t).owner
        · rfl
        · exact absurd ⟨t, ho'⟩ h
      have hl1 := ho.l1
      by_cases hl : s.launched = 0
      · have := ho.zero hno hl; omega
      · omega
  · rintro (⟨t, ht⟩ | hl)
    · exact ho.pos t ht
    · exact ho.posl (by omega)

/-- the consume function is never running in two places at once, and `consume_until_empty` is never
running on two threads -/
theorem eq_consume_exclusive (c : Cfg) (s : State) (hr : Reach c s) :
    (∀ t u, (s.pc t).consumer = true → (s.pc u).consumer = true → t = u) ∧
    (∀ t u, (s.pc t).inCb = true → (s.pc u).inCb = true → t = u) := by
  have ho := (reach_invB hr).o
  have hcb : ∀ p : Pc, p.inCb = true → p.owner = true := by
    intro p h; cases p <;> simp [Pc.inCb] at h <;> rfl
  exact ⟨fun t u ht hu => ho.uniq t u (Pc.owner_of_consumer ht) (Pc.owner_of_consumer hu),
    fun t u ht hu => ho.uniq t u (hcb _ ht) (hcb _ hu)⟩

/-! ## eq_each_once_in_order -/

/-- **Exactly once, in order.**  What the consume function has been handed so far is exactly the items
of the indices `0 … ncons-1` in index order — a prefix of the items of all indices taken — and in that
order the items of one producer appear in the order it submitted them (increasing `seq`), so no item
appears twice and none is invented; moreover an item is never delivered before an earlier item of the
same producer. -/
theorem eq_each_once_in_order (c : Cfg) (s : State) (hr : Reach c s) :
    s.consumed = (List.range s.ncons).filterMap s.tick ∧ s.ncons ≤ s.head ∧ s.head ≤ s.tail ∧
    s.consumed <+: allItems s ∧
    (allItems s).Pairwise (fun a b => a.owner = b.owner → a.seq < b.seq) ∧
    s.consumed.Nodup ∧
    (∀ a b, b ∈ s.consumed → a ∈ allItems s → a.owner = b.owner → a.seq < b.seq → a ∈ s.consumed) := by
  obtain ⟨ho, hq, hn, hi⟩ := reach_invB hr
  -- consumed ++ rest = popped = items of the indices below head
  obtain ⟨rest, hrest, hlen⟩ : ∃ rest, s.popped = s.consumed ++ rest ∧ s.ncons + rest.length = s.head := by
    by_cases h : ∃ t, (s.pc t).consumer = true
    · obtain ⟨t, ht⟩ := h
      exact ⟨_, hi.ccb t ht, hn.ncb t ht⟩
    · have hno : ∀ t, (s.pc t).consumer = false := by
        intro t; cases h' : (s.pc t).consumer
        · rfl
        · exact absurd ⟨t, h'⟩ h
      exact ⟨[], by rw [List.append_nil]; exact hi.cno hno, by simpa using hn.nno hno⟩
  have hnh : s.ncons ≤ s.head := by omega
  have hsome : ∀ (a b : Nat), a + b ≤ s.tail → (((List.range b).map (a + ·)).filterMap s.tick).length = b := by
    intro a b hab
    rw [length_filterMap_all_some, List.length_map, List.length_range]
    intro x hx
    rw [List.mem_map] at hx
    obtain ⟨y, hy, rfl⟩ := hx
    rw [List.mem_range] at hy
    exact hq.tick_some _ (by omega)
  have hsplit : ∀ (a b : Nat), (List.range (a + b)).filterMap s.tick =
      (List.range a).filterMap s.tick ++ ((List.range b).map (a + ·)).filterMap s.tick := by
    intro a b; rw [List.range_add, List.filterMap_append]
  have hcons : s.consumed = (List.range s.ncons).filterMap s.tick := by
    have h1 : s.consumed ++ rest = (List.range s.ncons).filterMap s.tick ++
        ((List.range (s.head - s.ncons)).map (s.ncons + ·)).filterMap s.tick := by
      rw [← hrest, hi.popped, ← hsplit, show s.ncons + (s.head - s.ncons) = s.head by omega]
    have h2 : s.consumed.length = ((List.range s.ncons).filterMap s.tick).length := by
      have := hsome 0 s.ncons (by have := hq.ht; omega)
      simp only [Nat.zero_add, List.map_id'] at this
      rw [← hi.len, this]
    exact (List.append_inj h1 h2).1
  have hpre : s.consumed <+: allItems s := by
    refine ⟨((List.range (s.tail - s.ncons)).map (s.ncons + ·)).filterMap s.tick, ?_⟩
    have := hq.ht
    rw [hcons, allItems, ← hsplit, show s.ncons + (s.tail - s.ncons) = s.tail by omega]
  have hpw := pairwise_items hi s.tail
  have hnd : (allItems s).Nodup := by
    refine hpw.imp ?_
    intro a b hab heq
    subst heq
    exact Nat.lt_irrefl _ (hab rfl)
  refine ⟨hcons, hnh, hq.ht, hpre, hpw, hnd.sublist hpre.sublist, ?_⟩
  intro a b hb ha hab hlt
  obtain ⟨tl, htl⟩ := hpre
  rw [← htl, List.mem_append] at ha
  rcases ha with ha | ha
  · exact ha
  · exfalso
    rw [allItems] at htl
    have hpw' := hpw
    rw [← htl, List.pairwise_append] at hpw'
    have := hpw'.2.2 b hb a ha hab.symm
    omega

/-! ## eq_none_stranded -/

/-- general form: no refused launch outstanding (`debt = false`, see `eq_refused_recovers`) -/
theorem eq_none_stranded_debt (c : Cfg) (hc : c.sizeCheck = true) (s : State) (hr : Reach c s)
    (hd : s.debt = false) (i : Nat) (h1 : s.head ≤ i) (h2 : i < s.tail) :
    (∃ t, (s.pc t).owner = true) ∨ s.launched = 1 ∨
    (s.sig i = false ∧ (s.pc (s.holder i)).inFlight = true) := by
  obtain ⟨ho, hq, hn, hi⟩ := reach_invB hr
  have hcv := reach_invC hc hr
  by_cases hev : s.events = 0
  · right; right
    have hs := hcv.cov hd hev i h1
    refine ⟨hs, ?_⟩
    rcases hq.conv i h2 hs with ⟨it, h⟩ | h <;> rw [h] <;> rfl
  · rcases ((eq_single_consumer c s hr).2.2.2.1 (by omega)) with h | h
    · exact .inl h
    · exact .inr (.inl h)

/-- **None stranded.**  If every launch is accepted then in every reachable state every index that is
still in the queue (taken but not popped — in particular every published, unconsumed item) is covered:
a consumer is running or a producer is about to launch one (`owner`), or an accepted launch is pending,
or the producer of that very index is still inside its `execute`, before its `_events.fetch_add` — which
will return 0 and make it launch, because `_events = 0` in that case. -/
theorem eq_none_stranded (c : Cfg) (hc : c.sizeCheck = true) (s : State) (hr : ReachA c s)
    (i : Nat) (h1 : s.head ≤ i) (h2 : i < s.tail) :
    (∃ t, (s.pc t).owner = true) ∨ s.launched = 1 ∨
    (s.sig i = false ∧ (s.pc (s.holder i)).inFlight = true ∧ s.events = 0) := by
  have hd : s.debt = false := by
    cases h : s.debt
    · rfl
    · have := (reach_invC hc (ReachA.reach hr)).debtRef h
      rw [reachA_refusals hr] at this; omega
  rcases eq_none_stranded_debt c hc s (ReachA.reach hr) hd i h1 h2 with h | h | ⟨h3, h4⟩
  · exact .inl h
  · exact .inr (.inl h)
  · by_cases hev : s.events = 0
    · exact .inr (.inr ⟨h3, h4, hev⟩)
    · rcases ((eq_single_consumer c s (ReachA.reach hr)).2.2.2.1 (by omega)) with h | h
      · exact .inl h
      · exact .inr (.inl h)

/-- at quiescence (all threads idle, nothing launched, no refusal outstanding) everything submitted has
been handed to the consume function -/
theorem eq_quiescent_all_consumed (c : Cfg) (hc : c.sizeCheck = true) (s : State) (hr : Reach c s)
    (hd : s.debt = false) (hidle : ∀ t, s.pc t = .idle) (hl : s.launched = 0) :
    s.consumed = allItems s ∧ s.ncons = s.tail := by
  obtain ⟨ho, hq, hn, hi⟩ := reach_invB hr
  have hht : s.head = s.tail := by
    by_cases h : s.head < s.tail
    · rcases eq_none_stranded_debt c hc s hr hd s.head (Nat.le_refl _) h with ⟨t, ht⟩ | h' | ⟨_, h'⟩
      · rw [hidle] at ht; cases ht
      · omega
      · rw [hidle] at h'; cases h'
    · have := hq.ht; omega
  have hnc : s.ncons = s.head := hn.nno (fun t => by rw [hidle]; rfl)
  refine ⟨?_, by omega⟩
  rw [(eq_each_once_in_order c s hr).1, allItems, hnc, hht]

/-! ## eq_join_sound -/

/-- **Join is sound.**  When `join()`'s load observes `_events = 0` and no refused launch is outstanding,
every index whose `execute` had returned when the join was called (the ghost snapshot `snap`) has been
handed to the consume function, and the consume function has returned from it (no thread is inside
it). -/
theorem eq_join_sound (c : Cfg) (hc : c.sizeCheck = true) (s : State) (hr : Reach c s) (t : Nat) (snap : List Nat)
    (hpc : s.pc t = .j0 snap) (he : s.events = 0) (hd : s.debt = false) :
    (∀ tk, tk ∈ snap → tk < s.ncons) ∧ (∀ u, (s.pc u).consumer = false) := by
  obtain ⟨ho, hq, hn, hi⟩ := reach_invB hr
  have hcv := reach_invC hc hr
  have hnc : ∀ u, (s.pc u).consumer = false := by
    intro u; cases h : (s.pc u).consumer
    · rfl
    · have := ho.pos u (Pc.owner_of_consumer h); omega
  refine ⟨?_, hnc⟩
  intro tk htk
  have hs := hn.snap t snap hpc tk htk
  have hlt : tk < s.head := by
    by_cases h : tk < s.head
    · exact h
    · have := hcv.cov hd he tk (by omega); rw [hs] at this; cases this
  rw [hn.nno hnc]; exact hlt

/-- … hence, when every launch is accepted, no `join()` ever returns while something submitted before
it is unconsumed (`joinBad` is raised by a returning join exactly in that case). -/
theorem eq_join_sound_accepting (c : Cfg) (hc : c.sizeCheck = true) (s : State) (hr : ReachA c s) :
    s.joinBad = false := by
  induction hr with
  | base hi => subst hi; rfl
  | tail hr' hst ih =>
    rename_i s1 s2
    have hd : s1.debt = false := by
      cases h : s1.debt
      · rfl
      · have := (reach_invC hc (ReachA.reach hr')).debtRef h
        rw [reachA_refusals hr'] at this; omega
    obtain ⟨hst, hw⟩ := hst
    cases hst with
    | act t inp s' l h hne =>
      have hs := stepThread_tstep h hw
      cases hs with
      | joinRet snap hpc he =>
        have := (eq_join_sound c hc s1 (ReachA.reach hr') t snap hpc he hd).1
        show (s1.joinBad || snap.any fun tk => decide (s1.ncons ≤ tk)) = false
        rw [ih, Bool.false_or, List.any_eq_false]
        intro tk htk
        have := this tk htk
        simp only [decide_eq_true_eq]; omega
      | joinSpin snap hpc he => exact ih
      | _ => exact ih
    | execute t v h => exact ih
    | signal t h => exact ih
    | join t h => exact ih
    | start t h hl => exact ih

/-! ## eq_refused_recovers -/

/-- **After refused launches `_events` is 0 again**: the roll-back CAS that ends a refused
`start_consumer` leaves `_events = 0`, returns −1 (code 1), and leaves no owner and no pending launch —
the state every later `signal_push_event` starts a launch from (`eq_next_signal_launches`). -/
theorem eq_refused_rollback (c : Cfg) (s s' : State) (hr : Reach c s) (t ev : Nat) (otk : Option Nat) (inp : Inp) (l : Label)
    (hpc : s.pc t = .pRollback ev otk) (he : s.events = ev) (hst : stepThread c s t inp = some (s', l)) :
    s'.events = 0 ∧ s'.result t = 1 ∧ s'.pc t = .idle ∧ (∀ u, (s'.pc u).owner = false) ∧ s'.launched = 0 := by
  have hw : s'.wrapped = false := by
    have := reach_wrapped hr
    simp only [stepThread, hpc, he, if_true, Option.some.injEq, Prod.mk.injEq] at hst
    rw [← hst.1]; exact this
  have hr' : Reach c s' := .tail hr ⟨.act s t inp s' l hst, hw⟩
  have ho' := (reach_invB hr').o
  have h := stepThread_tstep hst hw
  cases h <;> simp_all
  refine ⟨?_, ?_⟩
  · intro u
    cases hu : (upd s.pc t Pc.idle u).owner
    · rfl
    · have := ho'.pos u hu; simp at this
  · cases hl : s.launched with
    | zero => rfl
    | succ n => have := ho'.posl (by show 0 < s.launched; omega); simp at this

/-- with `_events = 0` the next `signal_push_event` (bare, or at the end of an `execute`) performs a
launch attempt -/
theorem eq_next_signal_launches (c : Cfg) (s s' : State) (t : Nat) (otk : Option Nat) (inp : Inp) (l : Label)
    (hpc : s.pc t = .pSignal otk) (he : s.events = 0) (hst : stepThread c s t inp = some (s', l))
    (hw : s'.wrapped = false) :
    s'.pc t = .pLaunch 1 otk ∧ s'.events = 1 := by
  have h := stepThread_tstep hst hw
  cases h <;> simp_all

/-- **Refused launches recover.**  For every history of accepted and refused launches: when a consumer
leaves (its exit CAS succeeds), every index whose producer has signalled — in particular everything
that was pending when launches were refused — has been handed to the consume function; `_events` is 0,
the refusal debt is cleared, and what remains in the queue belongs to producers that are still inside
`execute` before their `fetch_add` (which will therefore launch the next consumer). -/
theorem eq_refused_recovers (c : Cfg) (hc : c.sizeCheck = true) (s s' : State) (hr : Reach c s) (t ev : Nat) (k : Kont)
    (inp : Inp) (l : Label) (hpc : s.pc t = .cExit k ev) (he : s.events = ev)
    (hst : stepThread c s t inp = some (s', l)) :
    s'.events = 0 ∧ s'.debt = false ∧ (∀ i, s'.sig i = true → i < s'.ncons) ∧
    (∀ i, s'.head ≤ i → i < s'.tail → s'.sig i = false ∧ (s'.pc (s'.holder i)).inFlight = true) := by
  have hw : s'.wrapped = false := by
    have := reach_wrapped hr
    simp only [stepThread, hpc, he, if_true, Option.some.injEq, Prod.mk.injEq] at hst
    rw [← hst.1]; exact this
  have hr' : Reach c s' := .tail hr ⟨.act s t inp s' l hst, hw⟩
  obtain ⟨ho', hq', hn', hi'⟩ := reach_invB hr'
  have hcv' := reach_invC hc hr'
  have h := stepThread_tstep hst hw
  have hev : s'.events = 0 ∧ s'.debt = false := by cases h <;> simp_all
  have hnc : ∀ u, (s'.pc u).consumer = false := by
    intro u; cases hu : (s'.pc u).consumer
    · rfl
    · have := ho'.pos u (Pc.owner_of_consumer hu); omega
  have hcov := hcv'.cov hev.2 hev.1
  refine ⟨hev.1, hev.2, ?_, ?_⟩
  · intro i hs
    rw [hn'.nno hnc]
    by_cases hlt : i < s'.head
    · exact hlt
    · have := hcov i (by omega); rw [hs] at this; cases this
  · intro i h1 h2
    have hs := hcov i h1
    refine ⟨hs, ?_⟩
    rcases hq'.conv i h2 hs with ⟨it, h⟩ | h <;> rw [h] <;> rfl

/-! ## Hand-off under the release/acquire view model (weak memory)

`Babylon.ExecQ.View`: `_events` and consumer-private locations in the view memory of
`Babylon/Core/MemView.lean`; `View.Path codeOrds m m'` = any number of protocol actions of any threads
between two memories, every admissible stale read included; `codeOrds` = the generated memory orders. -/

section ViewLevel
open Babylon.ExecQ.View Babylon.Core.MemView

/-- the generated orders have the strengths the hand-off needs: the consumer's exit CAS, the roll-back CAS
and the signal release; the signal and join's load acquire -/
theorem gen_view_orders :
    codeOrds.exitS.releases = true ∧ codeOrds.rbS.releases = true ∧ codeOrds.sig.releases = true ∧
    codeOrds.sig.acquires = true ∧ codeOrds.join.acquires = true := codeOrds_ok

/-- **Consecutive consumer incarnations are ordered (view level).**  In every execution of the view model
that starts from an initial memory: consumer incarnation k (thread `c`) leaves with its successful exit CAS
on `_events` at memory `m0`; after any further actions of any threads a producer `p` performs the
`_events.fetch_add` that launches incarnation k+1 (any later signal in fact — all writes of `_events` are
RMWs, so it reads from the release sequence headed by that CAS).  Then
 * everything `c` had seen or done when it left is in `p`'s view right after that RMW, and stays there
   (inline executor: `p` itself is incarnation k+1);
 * it is in the view of any thread `b` the executor starts the consumer on (hand-off from `p`);
 * hence any read of a consumer-private location by a thread whose view contains `p`'s returns a message
   at least as new as the newest one incarnation k had seen or written (`write_ts_in_view`: its own
   writes included) — never an older, stale one. -/
theorem eq_consumer_handoff_view (iv : Loc → Nat) (m0 m1 m2 m3 : Mem Loc) (c p e ts obs old : Nat)
    (hinit : Path codeOrds (Mem.init iv) m0)
    (hexit : m0.cas c .events codeOrds.exitS codeOrds.exitF e 0 ts = some (m1, true, obs))
    (hpath : Path codeOrds m1 m2)
    (hsig : m2.rmw p .events codeOrds.sig (· + 1) = some (m3, old)) :
    (m0.tv c).cur ≤ (m3.tv p).cur ∧
    (∀ m4, Path codeOrds m3 m4 → (m0.tv c).cur ≤ (m4.tv p).cur) ∧
    (∀ (m4 : Mem Loc) (b : Nat), Path codeOrds m3 m4 → (m0.tv c).cur ≤ ((handoffMem m4 p b).tv b).cur) ∧
    (∀ (m4 m5 : Mem Loc) (b k : Nat) (ord : Core.Ord) (tsr v : Nat), (m0.tv c).cur ≤ (m4.tv b).cur → m4.read b (.priv k) ord tsr = some (m5, v) →
      (m0.tv c).cur.get (.priv k) ≤ tsr) := by
  have hx : m0.rmw c .events codeOrds.exitS (fun _ => 0) = some (m1, obs) := by
    rcases Mem.cas_spec hexit with ⟨_, _, h⟩ | ⟨h, _⟩
    · exact h
    · cases h
  have h1 : (m0.tv c).cur ≤ (m3.tv p).cur :=
    handoff_rmw (reach_chain iv hinit) hx gen_view_orders.1 hpath hsig gen_view_orders.2.2.2.1
  refine ⟨h1, fun m4 h4 => View.le_trans h1 ((path_ext h4).cur p), ?_, ?_⟩
  · intro m4 b h4
    have h2 := View.le_trans h1 ((path_ext h4).cur p)
    simp only [handoffMem, MemView.upd_same]
    exact View.le_trans h2 (View.le_join_right _ _)
  · intro m4 m5 b k ord tsr v hle hr
    exact Nat.le_trans (hle (.priv k)) (read_respects_view hr)

/-- **join() sees what the consumers did (view level).**  In every execution of the view model: if the
load of `join()` (generated order) reads message number `tsj` of `_events`, then for every consumer exit
(successful exit CAS of thread `c` at memory `m0`) whose message is `tsj` or an earlier one, everything
`c` had seen or done when it left — all its consume-function calls — is in the joining thread's view.
A joiner that knows of a signal (its view of `_events` covers the signal's message) can only read that
message or a later one, so the 0 it reads was written after that signal.  (That the consumers which
left by then have handled everything signalled before is the protocol theorem `eq_refused_recovers`.) -/
theorem eq_join_view (iv : Loc → Nat) (m0 m1 m2 m3 : Mem Loc) (c j e ts obs tsj v : Nat)
    (hinit : Path codeOrds (Mem.init iv) m0)
    (hexit : m0.cas c .events codeOrds.exitS codeOrds.exitF e 0 ts = some (m1, true, obs))
    (hpath : Path codeOrds m1 m2)
    (hjoin : m2.read j .events codeOrds.join tsj = some (m3, v)) :
    (m0.len .events ≤ tsj → (m0.tv c).cur ≤ (m3.tv j).cur) ∧
    (m2.tv j).cur.get .events ≤ tsj := by
  have hx : m0.rmw c .events codeOrds.exitS (fun _ => 0) = some (m1, obs) := by
    rcases Mem.cas_spec hexit with ⟨_, _, h⟩ | ⟨h, _⟩
    · exact h
    · cases h
  exact ⟨fun hts => handoff_load (reach_chain iv hinit) hx gen_view_orders.1 hpath hjoin gen_view_orders.2.2.2.2 hts,
    read_respects_view hjoin⟩

/-- with the generated orders the next incarnation / the joiner cannot read the private location's stale
initial message and does read incarnation k's write … -/
example : handOffRun codeOrds.exitS codeOrds.sig 0 = none ∧ handOffRun codeOrds.exitS codeOrds.sig 1 = some 7 ∧
    joinRun codeOrds.exitS codeOrds.join 0 = none ∧ joinRun codeOrds.exitS codeOrds.join 1 = some (0, 7) := by decide
/-- … negative controls: with the exit CAS relaxed, or the launching `fetch_add` relaxed, or join's load
relaxed, the stale read IS an execution of the view model -/
example : handOffRun .rlx codeOrds.sig 0 = some 0 := by decide
example : handOffRun codeOrds.exitS .rlx 0 = some 0 := by decide
example : joinRun .rlx codeOrds.join 0 = some (0, 0) := by decide
example : joinRun codeOrds.exitS .rlx 0 = some (0, 0) := by decide

end ViewLevel

/-! ## No deadlock (the safety form of "join does return") -/

/-- **No deadlock.**  With a capacity of at least 1 and no refused launch outstanding, whenever some
thread is inside a call (a producer blocked on a full queue, a spinning `join`, …) there is a thread
that can take a step which is not merely another unsuccessful `join` poll — or an accepted launch is
waiting for a worker to start it (the executor's own obligation).  So the system never gets stuck with
work pending: a blocked producer always finds the consumer side able to move, and a `join` that still
sees `_events ≠ 0` always finds an owner of that episode able to move. -/
theorem eq_no_deadlock (c : Cfg) (hc : c.sizeCheck = true) (hcap : 0 < c.cap) (s : State) (hr : Reach c s)
    (hd : s.debt = false) (t : Nat) (hne : s.pc t ≠ .idle) :
    (∃ u, s.pc u ≠ .idle ∧ Enabled c s u ∧ ¬ (∃ sn, s.pc u = .j0 sn ∧ s.events ≠ 0)) ∨ s.launched = 1 := by
  obtain ⟨ho, hq, hn, hi⟩ := reach_invB hr
  have hcv := reach_invC hc hr
  have own : ∀ u, (s.pc u).owner = true →
      (∃ u, s.pc u ≠ .idle ∧ Enabled c s u ∧ ¬ (∃ sn, s.pc u = .j0 sn ∧ s.events ≠ 0)) ∨ s.launched = 1 := by
    intro u hu
    refine .inl ⟨u, ?_, enabled_owner c s u hu, ?_⟩
    · intro h; rw [h] at hu; cases hu
    · rintro ⟨sn, h, _⟩; rw [h] at hu; cases hu
  have key : s.events ≠ 0 →
      (∃ u, s.pc u ≠ .idle ∧ Enabled c s u ∧ ¬ (∃ sn, s.pc u = .j0 sn ∧ s.events ≠ 0)) ∨ s.launched = 1 := by
    intro he
    rcases (eq_single_consumer c s hr).2.2.2.1 (by omega) with ⟨u, hu⟩ | h
    · exact own u hu
    · exact .inr h
  have self : Enabled c s t → (∀ sn, s.pc t ≠ .j0 sn) →
      (∃ u, s.pc u ≠ .idle ∧ Enabled c s u ∧ ¬ (∃ sn, s.pc u = .j0 sn ∧ s.events ≠ 0)) ∨ s.launched = 1 :=
    fun he hj => .inl ⟨t, hne, he, fun ⟨sn, h, _⟩ => hj sn h⟩
  cases hpc : s.pc t with
  | idle => exact absurd hpc hne
  | pTicket v => exact self ⟨.none, by simp [stepThread, hpc]⟩ (by simp [hpc])
  | pSignal otk => exact self (enabled_signal c s t otk hpc) (by simp [hpc])
  | pLaunch ev otk => exact own t (by rw [hpc]; rfl)
  | pRollback ev otk => exact own t (by rw [hpc]; rfl)
  | c0 k => exact own t (by rw [hpc]; rfl)
  | cPop k ev got => exact own t (by rw [hpc]; rfl)
  | cCb k ev b st => exact own t (by rw [hpc]; rfl)
  | cSize k ev => exact own t (by rw [hpc]; rfl)
  | cExit k ev => exact own t (by rw [hpc]; rfl)
  | j0 sn =>
    by_cases he : s.events = 0
    · refine .inl ⟨t, hne, ⟨.none, by simp [stepThread, hpc, he]⟩, ?_⟩
      rintro ⟨_, _, h⟩; exact h he
    · exact key he
  | pPublish it tk =>
    by_cases hlt : tk < s.head + c.cap
    · exact self (enabled_publish c s t it tk hpc hlt) (by simp [hpc])
    · -- blocked on a full queue: the head index is taken; its holder or the consumer side can move
      have htl := (hq.pp t it tk hpc).1
      have hht : s.head < s.tail := by omega
      cases hs : s.sig s.head with
      | true =>
        apply key
        intro he
        have := hcv.cov hd he s.head (Nat.le_refl _)
        rw [hs] at this; cases this
      | false =>
        rcases hq.conv s.head hht hs with ⟨it', h⟩ | h
        · refine .inl ⟨s.holder s.head, by rw [h]; simp, enabled_publish c s _ it' s.head h (by omega), ?_⟩
          rintro ⟨sn, h', _⟩; rw [h] at h'; cases h'
        · refine .inl ⟨s.holder s.head, by rw [h]; simp, enabled_signal c s _ _ h, ?_⟩
          rintro ⟨sn, h', _⟩; rw [h] at h'; cases h'

/-! ## The branch of repair 0c66556 is necessary -/

/-- the witness found on the real code before the repair (`c16 inline 36`), reduced: thread 3 takes
index 0 and stalls before publishing; thread 1 pushes at index 1, signals, becomes the inline consumer,
polls empty (index 0 is unpublished), resets `_events` and returns; its `join()` then returns although
its own item is not consumed. -/
def prefixWitness : List Move :=
  [.execute 3 300, .act 3 .none,
   .execute 1 100, .act 1 .none, .act 1 .none, .act 1 .none, .act 1 (.launch .inl),
   .act 1 .none, .act 1 (.pop 0), .act 1 .none,
   .join 1, .act 1 .none]

/-- **Without the size check `join()` returns early** even though every launch is accepted: on the
shape of `consume_until_empty` before repair 0c66556 (`sizeCheck := false`) a state is reachable in which
a `join()` has returned while an item whose `execute` had returned before that join is unconsumed — and
at that moment the published item at index 1 has no consumer, no pending launch and no launching
producer. -/
theorem eq_prefix_counterexample :
    ∃ s, ReachA { cap := 4, sizeCheck := false } s ∧ s.joinBad = true ∧ s.refusals = 0 ∧
      s.pub 1 = true ∧ s.sig 1 = true ∧ s.head = 0 ∧ s.events = 0 ∧ s.launched = 0 ∧ s.ncons = 0 := by
  have hrun : (run { cap := 4, sizeCheck := false } State.init prefixWitness).map
      (fun s => decide (s.joinBad = true ∧ s.refusals = 0 ∧ s.pub 1 = true ∧ s.sig 1 = true ∧ s.head = 0 ∧
        s.events = 0 ∧ s.launched = 0 ∧ s.ncons = 0)) = some true := by decide
  cases hs : run { cap := 4, sizeCheck := false } State.init prefixWitness with
  | none => rw [hs] at hrun; simp at hrun
  | some s =>
    rw [hs] at hrun
    exact ⟨s, runA_reachable prefixWitness _ _ (by decide) (Reachable.base rfl) hs, by simpa using hrun⟩

/-- on the repaired code the same schedule cannot leave: after the empty poll the consumer sees
`_next_push_index ≠ head` and polls again -/
example : (run { cap := 4 } State.init (prefixWitness.take 9 ++ [.act 1 .none])).map (fun s => s.pc 1) =
    some (.cPop (.inl (some 1)) 1 false) := by decide

/-! ## The no-overflow restriction is necessary for a narrow counter -/

/-- with a 2-bit `_events` (overflow after 4 signals): thread 1 is held inside the consume function,
thread 2 signals three times (1 → 2 → 3 → 0), thread 3's `execute` then reads 0 from its `fetch_add`
and launches a second consumer, which pops the next item and enters the consume function too. -/
def wrapWitness : List Move :=
  [.execute 1 100, .act 1 .none, .act 1 .none, .act 1 .none, .act 1 (.launch .inl),
   .act 1 .none, .act 1 (.pop 1), .act 1 .none,
   .signal 2, .act 2 .none, .signal 2, .act 2 .none, .signal 2, .act 2 .none,
   .execute 3 300, .act 3 .none, .act 3 .none, .act 3 .none, .act 3 (.launch .inl),
   .act 3 .none, .act 3 (.pop 1), .act 3 .none]

/-- **A counter that overflows breaks "one consumer at a time".**  In the unrestricted system (`Step`,
overflow allowed) with `evBits = 2` a state is reachable, without any refusal, in which the consume
function is running on two threads at once.  The same schedule with the counter narrowed to 32 bits
needs 2^32 signals during one consumer activation (replayed on the real code by the harness mode `wrap`,
which presets `_events` to 2^32 − k); `gen_events_width` pins the code to 64 bits. -/
theorem eq_events_wrap_counterexample :
    ∃ s, Reachable (· = State.init) (Step { cap := 4, evBits := 2 }) s ∧
      (s.pc 1).inCb = true ∧ (s.pc 3).inCb = true ∧ s.refusals = 0 ∧ s.wrapped = true := by
  have hrun : (runW { cap := 4, evBits := 2 } State.init wrapWitness).map
      (fun s => decide ((s.pc 1).inCb = true ∧ (s.pc 3).inCb = true ∧ s.refusals = 0 ∧ s.wrapped = true)) =
      some true := by decide
  cases hs : runW { cap := 4, evBits := 2 } State.init wrapWitness with
  | none => rw [hs] at hrun; simp at hrun
  | some s =>
    rw [hs] at hrun
    exact ⟨s, runW_reachable wrapWitness _ _ (Reachable.base rfl) hs, by simpa using hrun⟩

/-- the same schedule with the 64-bit counter does not overflow and thread 3 launches nothing -/
example : (run { cap := 4 } State.init (wrapWitness.take 18)).map (fun s => (s.pc 3, s.events, s.wrapped)) =
    some (.idle, 5, false) := by decide

/-! ## Non-vacuity -/

/-- three threads, capacity 4: thread 1's launch is refused twice (roll-back CAS fails once because
thread 2 signalled meanwhile, then succeeds), thread 2's next execute launches an asynchronous consumer
that starts on thread 5, delivers all three items in two batches and leaves; thread 1 joins. -/
def demoSched : List Move :=
  [.execute 1 100, .act 1 .none, .act 1 .none, .act 1 .none,           -- index 0, published, events 0 → 1
   .act 1 (.launch .refuse),                                             -- first refusal
   .execute 2 200, .act 2 .none, .act 2 .none, .act 2 .none,           -- index 1, events 1 → 2, returns 0
   .act 1 .none,                                                         -- roll-back CAS(1 → 0) fails, expected := 2
   .act 1 (.launch .refuse), .act 1 .none,                               -- second refusal, CAS(2 → 0) succeeds: events = 0, −1
   .join 1, .act 1 .none,                                                -- join returns at once (launches were refused)
   .execute 2 201, .act 2 .none, .act 2 .none, .act 2 .none,           -- index 2, events 0 → 1: next signal launches
   .act 2 (.launch .async), .start 5,
   .act 5 .none, .act 5 (.pop 2), .act 5 .none, .act 5 .none, .act 5 .none, .act 5 .none,
   .act 5 (.pop 1), .act 5 .none, .act 5 .none, .act 5 .none,
   .act 5 .reload, .act 5 (.pop 0), .act 5 .none, .act 5 .none,         -- empty poll, size = 0, exit CAS
   .join 1, .act 1 .none]

example : ∃ s, Reach { cap := 4 } s ∧ s.refusals = 2 ∧ s.debt = false ∧ s.events = 0 ∧
    s.consumed.map (·.val) = [100, 200, 201] ∧ s.ncons = 3 ∧ s.tail = 3 ∧ s.result 1 = 1 ∧
    s.returned = [2, 0, 1] ∧ (∀ t, t < 8 → s.pc t = .idle) := by
  have hrun : (run { cap := 4 } State.init demoSched).map
      (fun s => decide (s.refusals = 2 ∧ s.debt = false ∧ s.events = 0 ∧ s.consumed.map (·.val) = [100, 200, 201] ∧
        s.ncons = 3 ∧ s.tail = 3 ∧ s.result 1 = 1 ∧ s.returned = [2, 0, 1]) &&
        (List.range 8).all (fun t => s.pc t = .idle)) = some true := by decide
  cases hs : run { cap := 4 } State.init demoSched with
  | none => rw [hs] at hrun; simp at hrun
  | some s =>
    rw [hs] at hrun
    simp only [Option.map_some, Option.some.injEq, Bool.and_eq_true, decide_eq_true_eq] at hrun
    obtain ⟨⟨h1, h2, h3, h4, h5, h6, h7, h8⟩, h9⟩ := hrun
    refine ⟨s, run_reachable demoSched _ _ (Reachable.base rfl) hs, h1, h2, h3, h4, h5, h6, h7, h8, ?_⟩
    intro t ht
    have := List.all_eq_true.mp h9 t (List.mem_range.mpr ht)
    simpa using this

/-- the hypotheses of `eq_join_sound` are satisfiable with a non-empty snapshot: the state just before
the last step of `demoSched` -/
example : ∃ s, Reach { cap := 4 } s ∧ s.pc 1 = .j0 [2, 0, 1] ∧ s.events = 0 ∧ s.debt = false := by
  have hrun : (run { cap := 4 } State.init (demoSched.take 35)).map (fun s => (s.pc 1, s.events, s.debt)) =
      some (.j0 [2, 0, 1], 0, false) := by decide
  cases hs : run { cap := 4 } State.init (demoSched.take 35) with
  | none => rw [hs] at hrun; simp at hrun
  | some s =>
    rw [hs] at hrun
    simp only [Option.map_some, Option.some.injEq, Prod.mk.injEq] at hrun
    exact ⟨s, run_reachable _ _ _ (Reachable.base rfl) hs, hrun.1, hrun.2.1, hrun.2.2⟩

/-- why `eq_no_deadlock` assumes that no refused launch is outstanding: with capacity 2, after the two
refusals of `demoSched` nobody consumes, `_events` is 0, and thread 2's third push (index 2) waits for
a slot forever unless somebody calls `signal_push_event` again — the documented consequence of a failed
launch ("data is enqueued but cannot be consumed"). -/
example : ∃ s, Reach { cap := 2 } s ∧ s.debt = true ∧ s.events = 0 ∧ s.launched = 0 ∧
    (∀ inp, stepThread { cap := 2 } s 2 inp = none) ∧ (∀ t, t < 8 → t ≠ 2 → s.pc t = .idle) := by
  have hrun : (run { cap := 2 } State.init (demoSched.take 16)).map
      (fun s => decide (s.debt = true ∧ s.events = 0 ∧ s.launched = 0 ∧ s.head = 0 ∧
        s.pc 2 = .pPublish ⟨2, 1, 201⟩ 2) && (List.range 8).all (fun t => t = 2 || s.pc t = .idle)) = some true := by
    decide
  cases hs : run { cap := 2 } State.init (demoSched.take 16) with
  | none => rw [hs] at hrun; simp at hrun
  | some s =>
    rw [hs] at hrun
    simp only [Option.map_some, Option.some.injEq, Bool.and_eq_true, decide_eq_true_eq] at hrun
    obtain ⟨⟨h1, h2, h3, h4, h5⟩, h6⟩ := hrun
    refine ⟨s, run_reachable _ _ _ (Reachable.base rfl) hs, h1, h2, h3, ?_, ?_⟩
    · intro inp; simp [stepThread, h5, h4]
    · intro t ht hne
      have := List.all_eq_true.mp h6 t (List.mem_range.mpr ht)
      simpa [hne] using this

end Babylon.Properties.C16
