/-
  Property C20 — property theorems only (helper lemmas live next to the model).
  Stub: nothing claimed yet.
-/
namespace Babylon.Properties.C20
end Babylon.Properties.C20
