/-
  Property C20 — logging (work in progress: generated obligations only so far).
-/
import Babylon.Log.Entry

namespace Babylon.Properties.C20
open Babylon.Log Babylon.Gen.Log Babylon.Core

theorem gen_constants : sizeofPageTable = 8 ∧ sizeofPtr = 8 ∧ 0 < inlinePageCapacity := by decide

end Babylon.Properties.C20
