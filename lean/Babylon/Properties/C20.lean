/-
  Property C20 — logging: each committed entry written once, intact, in order; pages returned.
  Property theorems only; models: Babylon/Log/Entry.lean (part A) and Babylon/Log/Appender.lean
  (part B); helper lemmas: Babylon/Log/Lemmas*.lean.

  Part A — `LogStreamBuffer` / `LogEntry` (sequential, all inputs).  `Stream.finish ps a0 ops` is
  `begin()` on an allocator that has handed out `a0` pages of size `ps`, any list `ops` of
  `sputn bytes` / `sputc byte` / `sync`, then `end()`.  Hypothesis `Fits ps n` (n = bytes streamed):
      0 < ps  ∧  (K·ps < n  →  8 ∣ ps ∧ 24 ≤ ps)
  i.e. any positive page size while the entry fits the `K = INLINE_PAGE_CAPACITY` inline pages,
  and a page that can hold the `PageTable` header plus two pointers, ending exactly at the page end,
  once a page table is needed.  Outside it the code writes past the table page
  (`entry_excluded_page_sizes`; the real code is run at `ps = 16` by checks/C20.py: ASan
  heap-buffer-overflow in `LogStreamBuffer::overflow`).
-/
import Babylon.Log.LemmasFinal
import Babylon.Log.LemmasApp

namespace Babylon.Properties.C20
open Babylon.Log Babylon.Gen.Log Babylon.Core

/-! ### Generated obligations (stop checking when the source changes) -/

/-- Layout constants the model's address arithmetic relies on. -/
theorem gen_constants :
    sizeofPageTable = 8 ∧ sizeofPtr = 8 ∧ 0 < inlinePageCapacity ∧
    offsetofTableNext = 0 ∧ offsetofTablePages = sizeofPageTable ∧
    -- `pages[INLINE_PAGE_CAPACITY-1]` is the storage of `head`, and the entry ends right after it
    offsetofHead = offsetofPages + (inlinePageCapacity - 1) * sizeofPtr ∧
    sizeofLogEntry = offsetofHead + sizeofPtr := by decide

/-- The statement order of the transcribed functions. -/
theorem gen_skeletons :
    skel_overflow = [.call "sync", .call "allocate", .call "overflow_page_table", .call "setp", .call "sputc"] ∧
    skel_overflow_page_table = [.call "allocate", .call "page_size", .call "page_size"] ∧
    skel_append_to_iovec =
      [.call "pages_append_to_iovec", .call "page_table_append_to_iovec", .call "pages_append_to_iovec"] ∧
    skel_page_table_append_to_iovec =
      [.call "pages_append_to_iovec", .call "emplace_back", .call "pages_append_to_iovec", .call "emplace_back"] ∧
    skel_pages_append_to_iovec = [.call "emplace_back", .call "emplace_back"] ∧
    skel_begin = [.call "setp"] ∧ skel_end = [.call "sync"] ∧
    skel_discard = [.call "append_to_iovec", .call "push_back", .call "deallocate", .call "clear", .call "clear"] := by
  decide

/-- Shapes of the tests and size expressions the model copies. -/
theorem gen_entry_shapes :
    overflowTableTest = "if" ∧ overflowAllocBeforeTable = true ∧
    fullTableSizeExpr = "(page_size-sizeof(PageTable))/sizeof(char*)*page_size" ∧
    fullInlineSizeExpr = "INLINE_PAGE_CAPACITY*page_size" ∧ inlineTestOp = ">" ∧ tableLoopOp = ">" := by decide

/-! ### Part A -/

/-- **entry_bytes_exact.**  Whatever is streamed into an entry, in whatever pieces: nothing faults,
the size field is the number of bytes streamed, and the concatenation of the scatter list produced
by `append_to_iovec` is exactly the byte sequence streamed. -/
theorem entry_bytes_exact {α : Type} (ps a0 : Nat) (ops : List (Op α)) (hfit : Fits ps (bytesOf ops).length) :
    (Stream.finish ps a0 ops).buf.fault = none ∧
    (Stream.finish ps a0 ops).buf.size = (bytesOf ops).length ∧
    ∃ iov, appendToIovec (Stream.finish ps a0 ops).buf.entry ps = some iov ∧
      iovBytes (Stream.finish ps a0 ops).dmem iov = bytesOf ops := by
  rcases finish_spec ps a0 ops hfit with ⟨h1, h2⟩ | ⟨F, c, T, hs, hps, hsz⟩
  · have hps : ps ≠ 0 := by have := hfit.1; omega
    rw [h2, h1]
    refine ⟨rfl, rfl, [], ?_, rfl⟩
    simp [appendToIovec, Stream.begin, Buf.begin, Buf.entry, hps, pagesAppend_zero]
  · obtain ⟨iov, h1, h2, _⟩ := hs.read_spec hsz (by rw [hps]; exact hfit)
    rw [hps] at h1
    exact ⟨hs.inv.nofault, hsz, iov, h1, h2⟩

/-- **entry_pages_once.**  Every page allocated for the entry — data pages and page-table pages —
appears in the scatter list exactly once and nothing else does; the zero-length elements are exactly
the page-table pages. -/
theorem entry_pages_once {α : Type} (ps a0 : Nat) (ops : List (Op α)) (hfit : Fits ps (bytesOf ops).length) :
    ∃ iov, appendToIovec (Stream.finish ps a0 ops).buf.entry ps = some iov ∧
      (iov.map Prod.fst).Perm (Stream.finish ps a0 ops).buf.allocs ∧
      (iov.map Prod.fst).Nodup ∧
      (∀ e ∈ iov, e.2 = 0 ↔ ((Stream.finish ps a0 ops).buf.tmem e.1).isSome) := by
  rcases finish_spec ps a0 ops hfit with ⟨h1, h2⟩ | ⟨F, c, T, hs, hps, hsz⟩
  · have hps : ps ≠ 0 := by have := hfit.1; omega
    rw [h2]
    refine ⟨[], ?_, by simp [Stream.begin, Buf.begin], by simp, by simp⟩
    simp [appendToIovec, Stream.begin, Buf.begin, Buf.entry, hps, pagesAppend_zero]
  · obtain ⟨iov, h1, _, hnz, hz, hperm⟩ := hs.read_spec hsz (by rw [hps]; exact hfit)
    rw [hps] at h1
    refine ⟨iov, h1, hperm, hperm.nodup_iff.2 hs.inv.nodup, ?_⟩
    intro e he
    have hdisj : ∀ x, x ∈ F ++ [c] → x ∈ T → False := by
      intro x hx hxT
      have hnd : (F ++ c :: T).Nodup := hs.inv.perm.nodup_iff.1 hs.inv.nodup
      have := (List.nodup_append.1 hnd)
      simp only [List.mem_append, List.mem_singleton] at hx
      rcases hx with hx | hx
      · exact this.2.2 x hx x (by simp [hxT]) rfl
      · subst hx
        exact (List.nodup_cons.1 this.2.1).1 hxT
    constructor
    · intro h0
      have : e ∈ iov.filter isz := List.mem_filter.2 ⟨he, by simp [isz, h0]⟩
      have : e.1 ∈ (iov.filter isz).map Prod.fst := List.mem_map_of_mem this
      rw [hz] at this
      exact (hs.inv.tdom e.1).2 this
    · intro hsome
      have hT : e.1 ∈ T := (hs.inv.tdom e.1).1 hsome
      apply Classical.byContradiction
      intro hne
      have : e ∈ iov.filter nz := List.mem_filter.2 ⟨he, by simp [nz, hne]⟩
      have : e.1 ∈ (iov.filter nz).map Prod.fst := List.mem_map_of_mem this
      rw [hnz] at this
      exact hdisj e.1 this hT

/-- **entry_layout_size_only.**  The finished structural state — size field, inline slots, table
pages, allocations, hence the scatter list — is a function of the page size, the allocator position
and the *number* of bytes only: it equals the state reached by that many single-character writes. -/
theorem entry_layout_size_only {α : Type} (ps a0 : Nat) (ops : List (Op α)) (hfit : Fits ps (bytesOf ops).length) :
    (Stream.finish ps a0 ops).buf = ((Buf.begin ps a0).putN (bytesOf ops).length).sync := by
  have hst := St.run ops (St.begin (α := α) ps a0) (by simpa using hfit)
  have hc := canon_run ops (St.begin (α := α) ps a0) (by simpa using hfit) rfl
  simp only [List.nil_append, List.length_nil, Nat.zero_add] at hst hc
  have hok := hst.ok
  have hok2 := putN_ok ps a0 (bytesOf ops).length hfit
  show ((Stream.begin ps a0).run ops).buf.sync = _
  rw [sync_eq hok.1 hok.2, sync_eq hok2.1 hok2.2]
  exact hc

/-- Corollary in the form of the property text: two ways of streaming the same number of bytes
produce the same scatter list. -/
theorem entry_layout_same_length {α β : Type} (ps a0 : Nat) (ops₁ : List (Op α)) (ops₂ : List (Op β))
    (hlen : (bytesOf ops₁).length = (bytesOf ops₂).length) (hfit : Fits ps (bytesOf ops₁).length) :
    appendToIovec (Stream.finish ps a0 ops₁).buf.entry ps = appendToIovec (Stream.finish ps a0 ops₂).buf.entry ps := by
  rw [entry_layout_size_only ps a0 ops₁ hfit, entry_layout_size_only ps a0 ops₂ (hlen ▸ hfit), hlen]

/-- **entry_discard_returns_all.**  `AsyncFileAppender::discard(entry)` hands to `deallocate`
exactly the pages allocated for the entry, each once (equality of multisets; the allocation list has
no duplicates). -/
theorem entry_discard_returns_all {α : Type} (ps a0 : Nat) (ops : List (Op α)) (hfit : Fits ps (bytesOf ops).length) :
    ∃ freed, discardPages (Stream.finish ps a0 ops).buf.entry ps = some freed ∧
      freed.Perm (Stream.finish ps a0 ops).buf.allocs ∧ freed.Nodup := by
  obtain ⟨iov, h1, h2, h3, _⟩ := entry_pages_once ps a0 ops hfit
  exact ⟨iov.map Prod.fst, by simp [discardPages, h1], h2, h3⟩

/-- Link to part B: an entry that received at least one byte has a non-zero size field and a
non-empty scatter list (so it is a well-formed `reserve` event of the appender model, `Ev.WF`, and
cannot be mistaken for the stop marker). -/
theorem entry_nonempty_scatter {α : Type} (ps a0 : Nat) (ops : List (Op α)) (hfit : Fits ps (bytesOf ops).length)
    (hne : bytesOf ops ≠ []) :
    (Stream.finish ps a0 ops).buf.size ≠ 0 ∧
    ∃ iov, appendToIovec (Stream.finish ps a0 ops).buf.entry ps = some iov ∧ iov ≠ [] := by
  rcases finish_spec ps a0 ops hfit with ⟨h1, _⟩ | ⟨F, c, T, hs, hps, hsz⟩
  · exact absurd h1 hne
  · obtain ⟨iov, h1, _, hnz, _, _⟩ := hs.read_spec hsz (by rw [hps]; exact hfit)
    rw [hps] at h1
    refine ⟨?_, iov, h1, ?_⟩
    · rw [hsz]
      intro h0
      exact hne (List.length_eq_zero_iff.1 h0)
    · intro h0
      rw [h0] at hnz
      simp at hnz

/-- The hypothesis is needed: at the page sizes it excludes the writer stores past the end of the
table page as soon as the entry needs a page table (16: the table holds one pointer but the
inline→table transition stores two; 8: not even one; 20: the pointer array never ends at the page
end).  `K·ps + 1` bytes are the shortest such entry. -/
theorem entry_excluded_page_sizes :
    (Stream.finish 16 0 [Op.sputn (List.replicate (K * 16 + 1) ())]).buf.fault = some "heap-buffer-overflow" ∧
    (Stream.finish 8 0 [Op.sputn (List.replicate (K * 8 + 1) ())]).buf.fault = some "heap-buffer-overflow" ∧
    ((Buf.begin 20 0).putN (K * 20 + 20 + 1)).fault = some "heap-buffer-overflow" ∧
    ¬ Fits 16 (K * 16 + 1) ∧ Fits 16 (K * 16) ∧ Fits 24 (K * 24 + 1) := by
  refine ⟨by decide +kernel, by decide +kernel, by decide +kernel, ?_, ?_, ?_⟩
  · intro h; exact absurd (h.2 (by omega)) (by decide)
  · exact ⟨by decide, fun h => absurd h (by omega)⟩
  · exact ⟨by decide, fun _ => by decide⟩

/-- Non-vacuity: a three-table entry at page size 32 (`E = 3`), streamed in pieces, with the scatter
list the theorems talk about. -/
example : Fits 32 (K * 32 + 5 * 32 + 7) ∧
    (appendToIovec (Stream.finish 32 0
        [Op.sputn (List.replicate 100 ()), Op.sync, Op.sputc (), Op.sputn (List.replicate (K * 32 + 5 * 32 + 7 - 101) ())]).buf.entry 32).map
      (fun iov => iov.drop (K - 1)) =
      some [(K - 1, 32), (K, 32), (K + 2, 32), (K + 1, 0), (K + 3, 32), (K + 5, 32), (K + 6, 32), (K + 4, 0),
            (K + 7, 7), (K + 8, 0)] := by
  refine ⟨⟨by decide, fun _ => by decide⟩, by decide +kernel⟩

open Babylon.Log.App

/-! ### Part B — abstract event model of `AsyncFileAppender` (Babylon/Log/Appender.lean)

The theorems are about the *model*: the queue is replaced by its specification (C01: items are popped
in ticket order, only once published), `writev` is complete, descriptors come from an oracle.  The
real appender is tied to the model by sampling only (checks/C20.py: multi-threaded runs whose
recorded rounds are replayed through `App.step`).
-/

/-- Generated obligations for the appender: batch bound, chunk bound, stop-marker test, queue
flags, statement order of `keep_writing` / `write_use_plain_writev` / `close`. -/
theorem gen_appender_shapes :
    iovMax = 1024 ∧ uioMaxIov = 1024 ∧
    batchExpr = "::std::min<size_t>(UIO_MAXIOV,_queue.capacity())" ∧
    writevChunkExpr = "::std::min<ssize_t>(IOV_MAX,iov.end()-iter)" ∧
    stopMarkerSize = "0" ∧ writePushFlags = "true,false,false" ∧ popFlags = "false,false" ∧
    skel_keep_writing = [.call "capacity", .call "try_pop_n", .call "destination", .call "append_to_iovec",
      .call "check_and_get_file_descriptor", .call "close", .call "write_use_plain_writev", .call "usleep"] ∧
    skel_write_use_plain_writev = [.call "writev", .call "deallocate", .call "clear", .call "clear"] ∧
    skel_close = [.call "joinable", .call "push", .call "join"] ∧ skel_write = [.call "push"] ∧
    -- `discard()` runs on the logging threads, concurrently: its scatter-list / page scratch vectors must be
    -- per thread (the model treats each discard as the sequential `discardPages` of part A)
    discardScratchPerThread = true := by decide

/-- Queue pairing rule (bounded_queue.h): a producer that sleeps on the slot futex
(`USE_FUTEX_WAIT`) is woken only by a consumer popping with `USE_FUTEX_WAKE`.  `keep_writing` pops
without wake, so neither `write()` nor `close()` may push with futex wait — before the repair
67478f3 `close()` used the default `push<true, true, true>` and slept forever when it found the
queue full (checks/C20.py runs that schedule on the real code on every run). -/
theorem gen_queue_pairing :
    (writePushFutexWait = true → popFutexWake = true) ∧ (closePushFutexWait = true → popFutexWake = true) ∧
    -- many logging threads and close() push concurrently: `CONCURRENT = true` (ticket by fetch_add)
    writePushConcurrent = true ∧ closePushConcurrent = true := by
  decide

/-- **appender_each_once_ordered.**  Take any event history of the model (any number of logging
threads reserving / publishing entries, `close()`, any batching `round n1 n2 fds` of the writer with
any descriptors, i.e. any rotation) after which `keep_writing` has returned.  Let `pre` be the
entries whose `write()` took its queue ticket before `close()` did (`hist` up to the stop marker).
Then there is a list `post` of entries ticketed *after* the marker (empty when nothing was written
after `close()`) such that
* every file object received exactly the scatter lists of its entries of `pre ++ post`, each once,
  whole (unmixed) and in ticket order;
* at the granularity of `write_use_plain_writev` executions the same holds for whole entries, so
  each entry went to a single descriptor, in `writev` calls of 1…`IOV_MAX` elements;
* entries of one thread are in `pre` in the order the thread wrote them;
* the pages handed back to the allocator are, as a multiset, exactly the pages of `pre ++ post`. -/
theorem appender_each_once_ordered (capacity : Nat) (files : List Nat) (hfiles : files.Nodup) (evs : List Ev)
    (s : State) (hrun : run (session capacity files) evs = some s) (hwf : ∀ e ∈ evs, e.WF)
    (hexit : s.exited = true) :
    ∃ post, post.Sublist ((s.hist.dropWhile nzs).drop 1) ∧
      (∀ f, written s f = ((s.hist.takeWhile nzs ++ post).filter (·.file = f)).flatMap (·.iov)) ∧
      (∀ f, (s.out.filter (·.file = f)).flatMap (·.items) = (s.hist.takeWhile nzs ++ post).filter (·.file = f)) ∧
      (∀ x ∈ s.out, FlushOk x) ∧
      (s.hist.takeWhile nzs).Pairwise (fun a b => a.tid = b.tid → a.seq < b.seq) ∧
      s.freed.Perm (pagesOf (s.hist.takeWhile nzs ++ post)) := by
  have h := run_AInv evs (session_AInv capacity files hfiles) hwf hrun
  obtain ⟨post, hp, hsub⟩ := h.exit_spec hexit
  refine ⟨post, hsub, ?_, ?_, h.flushOk, ?_, ?_⟩
  · intro f
    unfold written
    rw [flushes_cat _ (fun x hx => h.flushOk x (List.mem_filter.1 hx).1), h.outItems f, hp]
  · intro f; rw [h.outItems f, hp]
  · have hsubl : (s.hist.takeWhile nzs).Sublist s.hist := List.takeWhile_sublist nzs
    have hpw := List.Pairwise.sublist hsubl h.order
    have hall : ∀ a ∈ s.hist.takeWhile nzs, a.size ≠ 0 := by
      intro a ha
      have hall' := List.all_eq_true.1 (List.all_takeWhile (l := s.hist) (p := nzs)) a ha
      simpa [nzs] using hall'
    refine List.Pairwise.imp_of_mem ?_ hpw
    intro a b ha hb hab htid
    exact hab (hall a ha) (hall b hb) htid
  · rw [← hp]; exact h.freedPerm

/-- When nothing is written after `close()` the files hold exactly the entries written before it. -/
theorem appender_no_write_after_close (capacity : Nat) (files : List Nat) (hfiles : files.Nodup) (evs : List Ev)
    (s : State) (hrun : run (session capacity files) evs = some s) (hwf : ∀ e ∈ evs, e.WF) (hexit : s.exited = true)
    (hlast : (s.hist.dropWhile nzs).drop 1 = []) :
    (∀ f, written s f = ((s.hist.takeWhile nzs).filter (·.file = f)).flatMap (·.iov)) ∧
    s.freed.Perm (pagesOf (s.hist.takeWhile nzs)) := by
  obtain ⟨post, h1, h2, _, _, _, h6⟩ := appender_each_once_ordered capacity files hfiles evs s hrun hwf hexit
  rw [hlast] at h1
  have : post = [] := List.eq_nil_of_sublist_nil h1
  subst this
  simp only [List.append_nil] at h2 h6
  exact ⟨h2, h6⟩

/-- `hist` is the sequence of `reserve` / `close` events in the order they happened: ticket order. -/
theorem appender_hist_is_ticket_order (capacity : Nat) (files : List Nat) (evs : List Ev) (s : State)
    (hrun : run (session capacity files) evs = some s) :
    s.hist.map itemKey = evs.filterMap evItem := by
  have := run_hist evs hrun
  simpa [session] using this

/-- **Sessions.**  `initialize(); …; close()` can be repeated on the same appender with the same file
objects: `close()` keeps `_destinations` and every `FileObject` keeps its cached index.  The first
session starts from `session c []` (`= init c`); whatever a session did, its final state has one
empty destination per file object used so far, without duplicates — exactly the start state
`session c (those files)` of the next `initialize()`, to which the theorems above apply again (they
hold for every duplicate-free `files`).  The descriptor supplied for a destination is arbitrary in
every round (`fds`), in particular it may be an invalid one during a file-object outage: the pages
of the round's entries are returned all the same (last clause of `appender_each_once_ordered`). -/
theorem appender_session_restart (capacity : Nat) (files : List Nat) (hfiles : files.Nodup) (evs : List Ev)
    (s : State) (hrun : run (session capacity files) evs = some s) (hwf : ∀ e ∈ evs, e.WF) :
    init capacity = session capacity [] ∧
    (session capacity (s.dests.map (·.file))).dests = s.dests ∧ (s.dests.map (·.file)).Nodup ∧
    (session capacity (s.dests.map (·.file))).batch = s.batch := by
  have h := run_AInv evs (session_AInv capacity files hfiles) hwf hrun
  refine ⟨rfl, h.dests_idle.1.symm, h.dests_idle.2, ?_⟩
  exact (run_batch evs hrun).symm

/-- Non-vacuity: two threads, two files, an entry longer than one `writev`, rotation of file 7
between the two rounds, `close()` — the hypotheses of the theorem are satisfiable and the run exits. -/
def exampleEvents : List Ev :=
  [.reserve 1 7 40 [(0, 32), (1, 8)], .reserve 2 9 8 [(2, 8)], .publish 1, .publish 0, .round 2 0 [3, 4],
   .reserve 1 7 12000 ((List.range 1500).map (fun i => (100 + i, 8))), .publish 0, .close, .publish 1,
   .round 1 1 [5, 4]]

example : (∀ e ∈ exampleEvents, e.WF) ∧
    (run (init 4) exampleEvents).map (·.exited) = some true ∧
    (run (init 4) exampleEvents).map (fun s => s.out.map (fun x => (x.file, x.fd, x.calls.map List.length))) =
      some [(7, 3, [2]), (9, 4, [1]), (7, 5, [1024, 476])] ∧
    (run (init 4) exampleEvents).map (·.freed.length) = some 1503 := by
  refine ⟨?_, by decide +kernel, by decide +kernel, by decide +kernel⟩
  intro e he
  simp only [exampleEvents, List.mem_cons, List.not_mem_nil, or_false] at he
  rcases he with rfl | rfl | rfl | rfl | rfl | rfl | rfl | rfl | rfl | rfl <;> simp [Ev.WF]

end Babylon.Properties.C20
