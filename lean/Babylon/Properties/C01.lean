/-
  Property C01 — property theorems only (helper lemmas live next to the model).
  Stub: nothing claimed yet.
-/
namespace Babylon.Properties.C01
end Babylon.Properties.C01
