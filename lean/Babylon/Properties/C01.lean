/-
  Property C01 — bounded queue: each element delivered exactly once, FIFO, with exclusive, fully
  published access.  Property theorems only; the model is Babylon/BQ/Model.lean, the invariant and
  its preservation are in Babylon/BQ/{Attr,Summary,StepCases*,Inv*,Props}.lean, the abstract queue
  specification other properties import is Babylon/BQ/Spec.lean.

  All theorems quantify over `ReachF c y`: every state reachable from the initial state by any
  interleaving of any number of threads running any client programs that respect the documented
  contract (`Step.call`: pairing rules, CONCURRENT=false operations do not overlap others on their
  side, 1 ≤ batch ≤ capacity), for every capacity `2^bits`, with the explicit hypothesis
  `Ver16Faithful` on each step (`StepF`): the comparison of 16-bit truncated versions a thread is
  about to make agrees with the comparison of the untruncated versions.  `bq_ver16_faithful`
  discharges that hypothesis under a total-traffic bound.
-/
import Babylon.BQ.Props
import Babylon.BQ.Skel
import Babylon.BQ.Examples
import Babylon.BQ.TryFailEx
import Babylon.BQ.PubView
import Babylon.BQ.WakeView
import Babylon.BQ.OutstandingEx
import Babylon.BQ.ThreadBound

namespace Babylon.Properties.C01
open Babylon.BQ Babylon.Core Babylon.Gen.BQ

/-! ### generated obligations: the source is the one the model was written against -/
theorem gen_skel_slotfutex :
    skel_version = Skel.version ∧ skel_wait = Skel.wait ∧ skel_set_version = Skel.set_version ∧
    skel_wakeup_waiters = Skel.wakeup_waiters ∧ skel_set_version_and_wakeup = Skel.set_version_and_wakeup ∧
    skel_block_slow = Skel.block_slow ∧ skel_spin_slow = Skel.spin_slow := by decide
theorem gen_skel_api :
    skel_push = Skel.push ∧ skel_pop = Skel.pop ∧ skel_push_n = Skel.push_n ∧ skel_pop_n = Skel.pop_n ∧
    skel_try_push_n = Skel.try_push_n ∧ skel_try_pop_n = Skel.try_pop_n ∧ skel_cpush_n = Skel.cpush_n ∧
    skel_cpop_n = Skel.cpop_n ∧ skel_timed_pop_n = Skel.timed_pop_n ∧ skel_size = Skel.size := by decide
theorem gen_skel_deal :
    skel_deal = Skel.deal ∧ skel_try_deal = Skel.try_deal ∧ skel_deal_n = Skel.deal_n ∧
    skel_deal_n_comp = Skel.deal_n_comp ∧ skel_try_deal_n = Skel.try_deal_n := by decide
/-- memory orders handed to version() / wait / set_version / fences, in source order: the single path
publishes with acquire load + release exchange/store, the batch paths with relaxed accesses bracketed by
an acquire fence before and a release fence after the callback -/
theorem gen_orders :
    ords_deal = [.acq, .rel] ∧ ords_try_deal = [.rlx, .acq, .rlx, .rlx, .rlx, .rel] ∧
    ords_deal_n = [.rlx, .acq, .rel, .rlx, .sc] ∧ ords_deal_n_comp = [.rlx, .rlx, .rlx, .acq, .rel, .rlx] ∧
    ords_try_deal_n = [.rlx, .rlx, .rlx, .acq, .rel, .rlx, .sc] ∧ ords_timed_pop_n = [.rlx, .rlx] := by decide
/-- layout of a slot, waiter-bit constants, version bump, capacity rounding, and the version arithmetic
of the real `push_version_for_index` / `pop_version_for_index` sampled on real queues against the
model's `expVer` (including the 16-bit wrap) -/
theorem gen_constants :
    sizeofFutex = 4 ∧ futexOff1 = 8 ∧ futexOff2 = 16 ∧ sizeofSlot1 = sizeofSlot2 ∧
    waiterInc = 65536 ∧ waiterThreshold = 65535 ∧ versionBump = 1 ∧ versionBumpSites = 9 ∧
    capOf0 = 1 ∧ capOf1 = 1 ∧ capOf3 = 4 ∧ capOf8 = 8 ∧
    pushVer_c4_i13 = v16 (expVer { bits := 2 } .push 13) ∧ popVer_c4_i13 = v16 (expVer { bits := 2 } .pop 13) ∧
    pushVer_c1_i5 = v16 (expVer { bits := 0 } .push 5) ∧ popVer_c8_i7 = v16 (expVer { bits := 3 } .pop 7) ∧
    pushVer_c2_wrap = v16 (expVer { bits := 1 } .push (2 * 32768 + 1)) ∧
    popVer_c2_wrap = v16 (expVer { bits := 1 } .pop (2 * 32767 + 1)) := by decide
theorem gen_flags :
    compFlags = [true, false, true, false] ∧ timedFlags = [true, false] ∧ defaultFlags = Skel.defaultFlags := by decide

/-- source text of the declarations and functions that fix the 16-bit truncation of versions (`uint16_t` return / parameter
types of version(), push/pop_version_for_index, wait_until_reach_expected_version, set_version) and the `==` of the wait fast path -/
theorem gen_src_truncation :
    src_decl_slotfutex = Skel.Pinned.decl_slotfutex ∧
    src_decl_version_for_index = Skel.Pinned.decl_version_for_index ∧
    src_version = Skel.Pinned.version ∧
    src_wait = Skel.Pinned.wait ∧
    src_set_version = Skel.Pinned.set_version ∧
    src_push_version_for_index = Skel.Pinned.push_version_for_index ∧
    src_pop_version_for_index = Skel.Pinned.pop_version_for_index :=
  ⟨rfl, rfl, rfl, rfl, rfl, rfl, rfl⟩
/-- source text of the public operations (ticket dispensing, ring-end split, early returns of try_*_n, template flags at the
call sites) -/
theorem gen_src_api :
    src_push = Skel.Pinned.push ∧
    src_pop = Skel.Pinned.pop ∧
    src_push_n = Skel.Pinned.push_n ∧
    src_pop_n = Skel.Pinned.pop_n ∧
    src_try_push_n = Skel.Pinned.try_push_n ∧
    src_try_pop_n = Skel.Pinned.try_pop_n ∧
    src_cpush_n = Skel.Pinned.cpush_n ∧
    src_cpop_n = Skel.Pinned.cpop_n ∧
    src_timed_pop_n = Skel.Pinned.timed_pop_n :=
  ⟨rfl, rfl, rfl, rfl, rfl, rfl, rfl, rfl, rfl⟩
/-- source text of deal / try_deal / deal_n_continuously (x2) / try_deal_n_continuously -/
theorem gen_src_deal :
    src_deal = Skel.Pinned.deal ∧
    src_try_deal = Skel.Pinned.try_deal ∧
    src_deal_n = Skel.Pinned.deal_n ∧
    src_deal_n_comp = Skel.Pinned.deal_n_comp ∧
    src_try_deal_n = Skel.Pinned.try_deal_n :=
  ⟨rfl, rfl, rfl, rfl, rfl⟩

/-! ### the invariant -/
/-- **bq_inv.**  In every reachable state: tickets below the dispensers are each held by at most one
thread (`uniq`, `heldLt`); a slot's version says exactly which deals on it are complete (`doneGt`,
`futLe`, `heldLt`); what a thread has observed stays true (`lbLe`); exclusive paths see the dispenser
value they rely on (`expOk`); values follow tickets (`valRd`, `valWr`, `popPush`). -/
theorem bq_inv (c : Cfg) (y : Sys) (h : ReachF c y) : Inv c y := inv_reach h

/-- **bq_exclusive.**  No two threads are inside a callback on the same slot (single and batch ranges):
while a producer or consumer callback runs it has exclusive access to its element. -/
theorem bq_exclusive (c : Cfg) (y : Sys) (h : ReachF c y) (t u sl : Nat)
    (ht : (y.s.pc t).inCb c sl) (hu : (y.s.pc u).inCb c sl) : t = u :=
  exclusive_of_inv (inv_reach h) t u sl ht hu

/-- a thread inside a callback on slot `sl` holds the unique ticket whose turn it is on that slot: the
slot version equals the version that ticket waits for (nobody else can be admitted before it releases) -/
theorem bq_callback_owns_turn (c : Cfg) (y : Sys) (h : ReachF c y) (t sl : Nat) (ht : (y.s.pc t).inCb c sl) :
    ∃ sd i, (y.s.pc t).held sd i ∧ slotOf c i = sl ∧ y.s.ver sl = expVer c sd i := by
  have hI := inv_reach h
  obtain ⟨sd, i, h1, h2, h3⟩ := inCb_crit c _ (hI.wf t) sl ht
  exact ⟨sd, i, h1, h2, by rw [← h2]; exact hI.crit t sd i h1 (by rw [h2]; exact h3)⟩

/-- **bq_value.**  The value a pop callback of ticket `i` read is the value the push callback of ticket
`i` wrote. -/
theorem bq_value (c : Cfg) (y : Sys) (h : ReachF c y) (i v : Nat) (hp : y.s.poppedV i = some v) :
    y.s.pushedV i = some v := (inv_reach h).popPush i v hp

/-- **bq_no_dup_no_invent.**  Always: the values handed to consumers, listed by ticket, form a sublist of
the values handed in by producers listed by ticket (each ticket is popped at most once — it is one entry of
the list — and only with the value pushed under it), and no value exists for a ticket that was not issued. -/
theorem bq_no_dup_no_invent (c : Cfg) (y : Sys) (h : ReachF c y) (n : Nat) :
    List.Sublist (poppedUpTo y.s n) (pushedUpTo y.s n) ∧
    (∀ i, y.s.pushedV i ≠ none → i < y.s.pushIdx) ∧ (∀ i, y.s.poppedV i ≠ none → i < y.s.popIdx) :=
  ⟨popped_sublist_pushed (inv_reach h) n, (inv_reach h).ghostLt .push, (inv_reach h).ghostLt .pop⟩

/-- **bq_conserve.**  At quiescence with as many tickets popped as pushed, the list of popped values equals
the list of pushed values *in ticket order* (hence as multisets): nothing lost, duplicated or invented. -/
theorem bq_conserve (c : Cfg) (y : Sys) (h : ReachF c y) (hq : Quiescent y) (hbal : y.s.pushIdx = y.s.popIdx) :
    poppedUpTo y.s y.s.popIdx = pushedUpTo y.s y.s.pushIdx ∧ (poppedUpTo y.s y.s.popIdx).length = y.s.popIdx :=
  conserve_of_quiescent (inv_reach h) hq hbal

/-- every issued ticket whose callback finished has its value recorded; in particular at quiescence every
issued ticket has been served -/
theorem bq_all_served (c : Cfg) (y : Sys) (h : ReachF c y) (hq : Quiescent y) (sd : Side) (i : Nat)
    (hi : i < y.s.idx sd) : y.s.ghostV sd i ≠ none := ghost_total_of_quiescent (inv_reach h) hq sd i hi

/-- **bq_fifo.**  Ticket order respects real-time order: if ticket `a` had been issued when thread `t` was
idle (in particular if the operation that took `a` had returned), every ticket a later call of `t` takes on
that side is larger.  With `bq_value` (popped value of ticket `i` = pushed value of ticket `i`) this is the
FIFO clause: a value pushed by an operation that returned before another push began has the smaller ticket,
and ordered pops take increasing tickets, so it is never popped after the later value by ordered pops. -/
theorem bq_fifo (c : Cfg) (y y' : Sys) (hy : ReachF c y) (t : Nat) (sd : Side) (a b : Nat)
    (ha : a < y.s.idx sd) (hidle : y.s.pc t = .idle)
    (hlater : Reachable (· = y) (StepF c) y') (hb : (y'.s.pc t).held sd b) : a < b :=
  fifo_tickets hy t sd a b ha hidle hlater hb

/-- tickets a call takes are never below the dispenser value at the moment the call began -/
theorem bq_ticket_ge_start (c : Cfg) (y : Sys) (h : ReachF c y) (t : Nat) (sd : Side) (i : Nat)
    (hh : (y.s.pc t).held sd i) : y.start t sd ≤ i ∧ i < y.s.idx sd :=
  ⟨(inv_reach h).heldGe t sd i hh, ((inv_reach h).heldLt t sd i hh).1⟩

/-- **bq_ver16_faithful** (total-traffic form).  While every slot version and every version a thread is
about to compare against is below 2^16 (fewer than 2^15 rounds of the ring have been dealt), comparing the
16-bit truncations is comparing the untruncated versions, i.e. the hypothesis of `StepF` holds.
The window form is `bq_ver16_faithful_window` below.  The hypothesis cannot be dropped: with 2^15·capacity tickets
outstanding the truncated version of a slot repeats and a stalled thread would be admitted one lap early. -/
theorem bq_ver16_faithful (c : Cfg) (s : State) (hv : ∀ sl, s.ver sl < 65536)
    (hE : ∀ t sl E, (s.pc t).cmp c = some (sl, E) → E < 65536) : ∀ t, Faithful c s t :=
  faithful_of_small c s hv hE

/-- **bq_ver16_faithful, window form.**  If for every comparison a thread is about to make the untruncated slot version and
the untruncated expected version are less than 2^16 versions — 2^15 rounds of the ring — apart (`OutstandingBound`: everything
simultaneously live lies within 2^15·capacity tickets), then comparing the 16-bit truncations is exact, including when the stored
16-bit version wraps between the two (65534 → 0).  This is exactly what the code's comment "同时重叠出现的version规模不会太大" assumes. -/
theorem bq_ver16_faithful_window (c : Cfg) (s : State)
    (hwin : ∀ t sl E, (s.pc t).cmp c = some (sl, E) → s.ver sl < E + 65536 ∧ E < s.ver sl + 65536) : ∀ t, Faithful c s t :=
  faithful_of_window c s hwin

/-- for the wait of a ticket holder on its own ticket the bound is one-sided (the slot is never ahead of a held ticket) -/
theorem bq_ver16_faithful_holder (c : Cfg) (y : Sys) (h : ReachF c y) (t : Nat) (sd : Side) (i : Nat)
    (hh : (y.s.pc t).held sd i) (hwin : expVer c sd i < y.s.ver (slotOf c i) + 65536) :
    (v16 (y.s.ver (slotOf c i)) = v16 (expVer c sd i) ↔ y.s.ver (slotOf c i) = expVer c sd i) :=
  faithful_holder (inv_reach h) t sd i hh hwin

/-- the low half of the futex word the code loads is the truncation of the model's untruncated version -/
theorem bq_word_low16 (s : State) (j : Nat) : v16 (s.word j) = v16 (s.ver j) := v16_word s j

/-! ### `Ver16Faithful` from a bound on concurrency only (Babylon/BQ/Outstanding.lean)
`ReachO`: executions of the UNRESTRICTED transition system (`Step`, no faithfulness assumed, any length, any total traffic)
along which `OutstandingBound` holds: every ticket taken and not completed (`held`), and every ticket whose slot a thread is
about to compare without holding it (`stale`: try_*, timed pop, waker reload), is fewer than 2^15 - 1 = 32767 rounds of the
ring below its dispenser; such an index is at most one round ahead of it (`ahead`, a fact of the code that `Inv` does not record). -/

/-- **bq_ver16_faithful, ticket-level form.**  In a state satisfying the safety invariant, `OutstandingBound` implies that every
truncated comparison any thread is about to make is exact (16-bit compare = untruncated compare). -/
theorem bq_ver16_faithful_outstanding (c : Cfg) (y : Sys) (hI : Inv c y) (hb : OutstandingBound c y.s) :
    ∀ t, Faithful c y.s t := faithful_of_outstanding hI hb

/-- the version window behind it: slot version and expected version of every pending comparison are < 2^16 apart -/
theorem bq_outstanding_window (c : Cfg) (y : Sys) (hI : Inv c y) (hb : OutstandingBound c y.s) (t sl E : Nat)
    (h : (y.s.pc t).cmp c = some (sl, E)) : y.s.ver sl < E + 65536 ∧ E < y.s.ver sl + 65536 :=
  window_of_outstanding hI hb t sl E h

/-- every execution under the concurrency bound is a faithful execution: all theorems above stated for `ReachF`
(and those for `GReach` / `G2Reach`, which lift every `ReachF` execution, `bq_try_ghost_total`) apply to it -/
theorem bq_reach_under_outstanding_bound (c : Cfg) (y : Sys) (h : ReachO c y) : ReachF c y := reachF_of_reachO h

/-- **bq_all_under_outstanding_bound.**  The safety theorems of C01 for unbounded total traffic, under the bound on
concurrency only: invariant, exclusive callbacks, value, no duplication / invention, conservation and service at quiescence,
ticket range. -/
theorem bq_all_under_outstanding_bound (c : Cfg) (y : Sys) (h : ReachO c y) :
    Inv c y ∧
    (∀ t u sl, (y.s.pc t).inCb c sl → (y.s.pc u).inCb c sl → t = u) ∧
    (∀ t sl, (y.s.pc t).inCb c sl → ∃ sd i, (y.s.pc t).held sd i ∧ slotOf c i = sl ∧ y.s.ver sl = expVer c sd i) ∧
    (∀ i v, y.s.poppedV i = some v → y.s.pushedV i = some v) ∧
    (∀ n, List.Sublist (poppedUpTo y.s n) (pushedUpTo y.s n)) ∧
    (∀ i, y.s.pushedV i ≠ none → i < y.s.pushIdx) ∧ (∀ i, y.s.poppedV i ≠ none → i < y.s.popIdx) ∧
    (Quiescent y → y.s.pushIdx = y.s.popIdx →
      poppedUpTo y.s y.s.popIdx = pushedUpTo y.s y.s.pushIdx ∧ (poppedUpTo y.s y.s.popIdx).length = y.s.popIdx) ∧
    (Quiescent y → ∀ sd i, i < y.s.idx sd → y.s.ghostV sd i ≠ none) ∧
    (∀ t sd i, (y.s.pc t).held sd i → y.start t sd ≤ i ∧ i < y.s.idx sd) := by
  have hf := reachF_of_reachO h
  exact ⟨bq_inv c y hf, fun t u sl => bq_exclusive c y hf t u sl, fun t sl => bq_callback_owns_turn c y hf t sl,
    fun i v => bq_value c y hf i v, fun n => (bq_no_dup_no_invent c y hf n).1, (bq_no_dup_no_invent c y hf 0).2.1,
    (bq_no_dup_no_invent c y hf 0).2.2, fun hq hbal => bq_conserve c y hf hq hbal,
    fun hq sd i hi => bq_all_served c y hf hq sd i hi, fun t sd i hh => bq_ticket_ge_start c y hf t sd i hh⟩

/-- **bq_fifo under the concurrency bound** -/
theorem bq_fifo_under_outstanding_bound (c : Cfg) (y y' : Sys) (hy : ReachO c y) (t : Nat) (sd : Side) (a b : Nat)
    (ha : a < y.s.idx sd) (hidle : y.s.pc t = .idle)
    (hlater : Reachable (· = y) (StepO c) y') (hb : (y'.s.pc t).held sd b) : a < b :=
  bq_fifo c y y' (reachF_of_reachO hy) t sd a b ha hidle (laterF_of_laterO (reachF_of_reachO hy) hlater).1 hb

/-- **the bound is necessary (1): staleness.**  Capacity 1, NO ticket outstanding: a state satisfying the whole safety invariant in
which a `try_push` that read the push index 0 is about to compare, 32768 = 32767·capacity + 1 tickets have been issued since
(exactly one more than `OutstandingBound.stale` allows) and the truncated comparison succeeds wrongly (slot version 65536 vs 0).
So bounding the number of taken-but-uncompleted tickets alone does not give `Ver16Faithful`; the in-flight index reads of
try_* must be bounded as well. -/
theorem bq_outstanding_bound_tight_stale :
    Inv oneCfg staleSys ∧ (∀ t sd i, ¬ (staleSys.s.pc t).held sd i) ∧
    (staleSys.s.pc 1).watch = some (.push, 0, 0) ∧ staleSys.s.idx .push = 0 + 32767 * oneCfg.cap + 1 ∧
    ¬ Faithful oneCfg staleSys.s 1 :=
  ⟨staleSys_inv, staleSys_bound.1, staleSys_bound.2.1, staleSys_bound.2.2, staleSys_unfaithful⟩

/-- **the bound is necessary (2): outstanding tickets.**  Capacity 1, 32769 = 2^15 + 1 blocked pushers holding the tickets
0 … 32768 (one slot, 32768 rounds apart): the holder of ticket 32768 compares truncated version 0 with truncated expected
version 65536 % 65536 = 0 and would be admitted while the turn is ticket 0's.  The number of outstanding tickets here is
2^15 + 1 for ANY capacity if all of them sit on one slot, i.e. the threshold on the *count* of outstanding tickets is 2^15,
not 2^15·capacity; 2^15·capacity is the threshold on their *span*. -/
theorem bq_outstanding_bound_needed_held :
    (∀ t, t ≤ 32768 → (crowdState.pc t).held .push t) ∧ crowdState.idx .push = 32769 ∧
    ¬ Faithful oneCfg crowdState 32768 :=
  ⟨crowd_held, rfl, crowd_unfaithful⟩

/-- non-vacuity: a blocking push that has compared its slot version under the bound and reached its callback -/
example : ∃ y t, ReachO exCfg y ∧ (y.s.pc t).held .push 0 := ⟨ex3, 1, ex3_reachO, rfl, rfl⟩

/-! ### count → span: `OutstandingBound.held` from a bound on the number of threads (Babylon/BQ/ThreadBound.lean) -/

/-- the tickets of one side a thread holds lie within two rounds of the ring -/
theorem bq_held_width (c : Cfg) (p : Pc) (hw : p.wf c) (sd : Side) :
    ∃ R, ∀ i, p.held sd i → R ≤ i ∧ i < R + 2 * c.cap := held_width c p hw sd

/-- **count → span.**  If only threads `0 … n-1` run (one call at a time each, as in the model), an outstanding ticket `i`
has `idx ≤ i + 2·n·capacity`: the tickets `i, i + 2·cap, i + 4·cap, …` below the dispenser are all outstanding (same slot, later
rounds) and pairwise held by different threads (`bq_held_width`), pigeonhole. -/
theorem bq_outstanding_span_of_threads (c : Cfg) (y : Sys) (hI : Inv c y) (n : Nat) (hn : ∀ t, n ≤ t → y.s.pc t = .idle)
    (u : Nat) (sd : Side) (i : Nat) (hh : (y.s.pc u).held sd i) : y.s.idx sd ≤ i + (2 * n) * c.cap :=
  held_span_of_threads hI n hn u sd i hh

/-- fewer than 2^14 = 16384 threads ⇒ the `held` part of `OutstandingBound` (client-checkable) -/
theorem bq_held_bound_of_threads (c : Cfg) (y : Sys) (hI : Inv c y) (n : Nat) (hn : ∀ t, n ≤ t → y.s.pc t = .idle) (hlt : n < 16384)
    (t : Nat) (sd : Side) (i : Nat) (hh : (y.s.pc t).held sd i) : y.s.idx sd < i + 32767 * c.cap :=
  held_bound_of_threads hI n hn hlt t sd i hh

/-- a thread bound can NOT give the `stale` part: `staleSys` satisfies `Inv`, only thread 1 is inside a call, and its
truncated comparison is wrong -/
theorem bq_thread_bound_not_sufficient_for_stale :
    (∀ t, 2 ≤ t → staleSys.s.pc t = .idle) ∧ Inv oneCfg staleSys ∧ ¬ Faithful oneCfg staleSys.s 1 := stale_not_from_threads

/-- executions of the unrestricted system with `n < 16384` threads whose in-flight index reads satisfy `WatchBound`
(`stale`, `ahead`) are executions under `OutstandingBound` -/
theorem bq_reach_under_thread_bound (c : Cfg) (n : Nat) (hlt : n < 16384) (y : Sys) (h : ReachT c n y) : ReachO c y :=
  reachO_of_reachT hlt h

/-- **bq_all_under_thread_bound**: the C01 safety theorems (`bq_all_under_outstanding_bound`) for unbounded traffic with
fewer than 16384 threads, assuming only `WatchBound` for try_* / timed / waker index reads -/
theorem bq_all_under_thread_bound (c : Cfg) (n : Nat) (hlt : n < 16384) (y : Sys) (h : ReachT c n y) :
    ReachF c y ∧ Inv c y ∧ (∀ t u sl, (y.s.pc t).inCb c sl → (y.s.pc u).inCb c sl → t = u) ∧
    (∀ i v, y.s.poppedV i = some v → y.s.pushedV i = some v) ∧
    (∀ m, List.Sublist (poppedUpTo y.s m) (pushedUpTo y.s m)) := by
  have ho := reachO_of_reachT hlt h
  have hall := bq_all_under_outstanding_bound c y ho
  exact ⟨reachF_of_reachO ho, hall.1, hall.2.1, hall.2.2.2.1, hall.2.2.2.2.1⟩

/-! ### try-failure justification
Ghost record (Babylon/BQ/TryFail.lean, TryFailN.lean): a product `Sys × ghost` whose steps are exactly the `StepF` steps plus a
deterministic ghost update, so every execution lifts uniquely (`bq_try_ghost_total`) and the quantification is unchanged.
`wit t`   : at some state since `t`'s current call began the queue was empty (pop side) / full (push side) — `EF`: the slot of
            the next ticket of that side is not at that ticket's version;
`nr t r`  : at some state since the call began, ticket `start + r` of the call's side (`start` = dispenser value when the call
            began) was not ready;
`ovl t`   : at some step since the call began the dispenser of the call's side moved while `t` itself did not step — another
            operation on that side overlapped the call. -/

/-- every reachable state carries its ghosts: the ghost products do not restrict the executions -/
theorem bq_try_ghost_total (c : Cfg) (y : Sys) (h : ReachF c y) :
    (∃ w, GReach c ⟨y, w⟩) ∧ (∃ n o, G2Reach c ⟨y, n, o⟩) := ⟨greach_of_reach h, g2reach_of_reach h⟩

/-- the ghost `wit` is set only by a state of the current call in which the queue is empty / full, or carried over inside the
same call -/
theorem bq_try_ghost_meaning (c : Cfg) (a b : GSys) (h : GStep c a b) (t : Nat) (hw : b.wit t) :
    (a.y.cur t ≠ none ∧ b.y.cur t ≠ none ∧ a.wit t) ∨ EFo c b.y.s (trySide (b.y.cur t)) := wit_step h t hw

/-- **bq_try_fail_justified (try_push / try_pop).**  When a single-element try_ call has failed (it is about to return `false`),
at some state of its own call interval the queue was full (try_push) / empty (try_pop).  No overlap disjunct is needed: try_deal
re-reads the dispenser before giving up, and dispensers are monotone. -/
theorem bq_try_fail_justified (c : Cfg) (g : GSys) (h : GReach c g) (t : Nat) (sd : Side) (conc wake : Bool)
    (hc : tryCall (g.y.cur t) = some (sd, conc, wake)) (hp : g.y.s.pc t = .retd 0) : g.wit t :=
  try_fail_justified h t sd conc wake hc hp

/-- **bq_try_fail_justified (try_push_n / try_pop_n).**  When a batch try_ call is about to return `res ≠ num` elements, another
operation on the same dispenser overlapped the call, or at some state of the call interval the first ticket the call did not get
(`start + res`) was not ready — the queue held no further element / free slot for it (for `res = 0`: it was empty / full). -/
theorem bq_try_fail_justified_n (c : Cfg) (g : G2Sys) (h : G2Reach c g) (t : Nat) (sd : Side) (num res : Nat)
    (hc : tryNCall (g.y.cur t) = some (sd, num)) (hp : g.y.s.pc t = .retd res) (hne : res ≠ num) :
    g.ovl t ∨ g.nr t res := tryN_short_justified h t sd num res hc hp hne

/-! ### publication under weak memory (release/acquire view model, Babylon/Core/MemView.lean)
Slot-level model `Babylon.BQ.Pub` (Babylon/BQ/PubView.lean): one slot word + its element cell; deal `t` on the slot waits (loads of
order `ld`, any admissible — possibly stale — message; optional waiter-bit RMW), runs its callback (push = plain write of the cell,
pop = plain read; plain accesses are relaxed accesses of the view model, so a read may return any message the thread's view admits),
then releases version `t+1` by exchange or store of order `st`.  `Pub.Reach` = every execution of that system.  The orders are the two
orders of `Gen.BQ.ords_deal` (`Pub.codeOrds`); the negative-control `example`s in PubView.lean show by `decide` that with a relaxed
load or a relaxed store the consumer can read the stale cell value.  Not covered: the batch path (relaxed + fences). -/

/-- the memory orders of `deal()` extracted from the source are acquire (version load / waiter CAS) and release (version
exchange / store) -/
theorem gen_pub_orders : Pub.codeOrds.ld.acquires = true ∧ Pub.codeOrds.st.releases = true := Pub.codeOrds_ok

/-- **bq_publication (consumer sees the producer's writes).**  In every execution of the view model, a pop callback (odd deal `t`
in its critical section) that reads the element cell can only read the LATEST message of the cell — no stale read is admissible —
and its value is the one the producer of deal `t-1` wrote. -/
theorem bq_publication_read (pay : Nat → Nat) (s : Pub.St) (h : Pub.Reach Pub.codeOrds pay s) (t ts : Nat)
    (m' : Babylon.Core.MemView.Mem Pub.Loc) (v : Nat) (hpc : s.pc t = .crit) (hodd : t % 2 = 1)
    (hr : s.m.read t .cell .rlx ts = some (m', v)) : ts + 1 = s.m.len .cell ∧ v = pay (t - 1) :=
  Pub.pub_read_latest Pub.codeOrds pay Pub.codeOrds_ok s h t ts m' v hpc hodd hr

/-- **bq_publication (exclusive access, no overwrite race).**  A callback runs with a thread view that covers the whole history of
the cell: every earlier access of the element happens-before it. -/
theorem bq_publication_exclusive (pay : Nat → Nat) (s : Pub.St) (h : Pub.Reach Pub.codeOrds pay s) (t : Nat) (hpc : s.pc t = .crit) :
    ((s.m.tv t).cur).get .cell + 1 = s.m.len .cell :=
  Pub.pub_write_latest Pub.codeOrds pay Pub.codeOrds_ok s h t hpc

/-- **bq_publication (happens-before chain).**  The thread view right after the callback of deal `t-1` (push i → pop i, and
pop i → push i+capacity on the same slot) is contained in the view with which the callback of deal `t` runs. -/
theorem bq_publication_hb (pay : Nat → Nat) (s : Pub.St) (h : Pub.Reach Pub.codeOrds pay s) (t : Nat) (hpc : s.pc t = .crit)
    (ht : 0 < t) : s.acc (t - 1) ≤ (s.m.tv t).cur :=
  Pub.pub_hb Pub.codeOrds pay Pub.codeOrds_ok s h t hpc ht

/-! ### batch-path publication under weak memory (Babylon/BQ/WakeView.lean)
deal_n_continuously / try_deal_n_continuously publish with relaxed version accesses bracketed by fences; the fence orders are the
generated constants `ordBatchRelFence` / `ordBatchAcqFence` (`ordTryBatch…` for the try variant), `.rlx` when the fence is missing. -/
open Babylon.Core.MemView in
/-- **bq_publication_batch.**  Releaser `p`: callback writes the element cell `lc` (plain), `atomic_thread_fence(ordBatchRelFence)`,
`set_version(nv, ordBatchStore)` on the version cell `lv`.  After arbitrary steps of anybody the next dealer `c` loads that version
message with `ordBatchLoad`, after arbitrary steps executes `atomic_thread_fence(ordBatchAcqFence)`, after arbitrary steps reads
the cell at any admissible timestamp.  In EVERY view-model execution: the version read is `nv`, the cell read is not older than the
releaser's write (no stale element), and it is exactly the released value when the cell was written once in between. -/
theorem bq_publication_batch {L : Type} [DecidableEq L] (m : Mem L) (p c : Nat) (lc lv : L) (hne : lc ≠ lv) (item nv : Nat)
    (o : Babylon.Core.Ord) {m3 m4 m5 m7 m8 : Mem L} {s x ts : Nat}
    (hext : (((m.write p lc .rlx item).fence p ordBatchRelFence).write p lv ordBatchStore nv).Ext m3)
    (hst : m3.read c lv ordBatchLoad (m.len lv) = some (m4, s)) (hext2 : m4.Ext m5)
    (hext3 : (m5.fence c ordBatchAcqFence).Ext m7) (hrd : m7.read c lc o ts = some (m8, x)) :
    s = nv ∧ m.len lc ≤ ts ∧ (m7.len lc = m.len lc + 1 → x = item) :=
  WakeView.publication_batch m p c lc lv hne item nv o hext hst hext2 hext3 hrd

open Babylon.Core.MemView in
/-- **bq_publication_batch (happens-before).**  Everything the releaser had seen or done before its release fence — the element
reads of a pop callback included — is in the next dealer's view after its acquire fence: the next write of the slot is ordered
after them (no overwrite race). -/
theorem bq_publication_batch_hb {L : Type} [DecidableEq L] (m : Mem L) (p c : Nat) (lv : L) (nv : Nat) {m3 m4 m5 : Mem L} {s : Nat}
    (hext : ((m.fence p ordBatchRelFence).write p lv ordBatchStore nv).Ext m3)
    (hst : m3.read c lv ordBatchLoad (m.len lv) = some (m4, s)) (hext2 : m4.Ext m5) :
    s = nv ∧ (m.tv p).cur ≤ ((m5.fence c ordBatchAcqFence).tv c).cur :=
  WakeView.publication_batch_hb m p c lv nv hext hst hext2

/-- the fence orders extracted from both batch functions have the needed strength (a dropped fence is extracted as `.rlx` and fails here) -/
theorem gen_batch_fences :
    ordBatchRelFence.releases = true ∧ ordTryBatchRelFence.releases = true ∧ ordBatchAcqFence.acquires = true ∧
    ordTryBatchAcqFence.acquires = true ∧ WakeView.mpRun ordTryBatchRelFence ordTryBatchAcqFence 1 0 = none := by decide

/-- negative control: without the release fence, or without the acquire fence, the next dealer can see the new version and still
read the stale element -/
theorem bq_publication_batch_needs_fences :
    WakeView.mpRun .rlx ordBatchAcqFence 1 0 = some 100 ∧ WakeView.mpRun ordBatchRelFence .rlx 1 0 = some 100 :=
  WakeView.publication_batch_needs_fences

/-! ### non-vacuity: the hypotheses are satisfiable by concrete non-trivial states (capacity 2) -/
/-- a reachable state in which thread 1 holds push ticket 0 (hypotheses of `bq_ticket_ge_start`, `bq_fifo`) -/
example : ∃ y t, ReachF exCfg y ∧ (y.s.pc t).held .push 0 := ⟨ex2, 1, ex2_reach, rfl, rfl⟩
/-- a reachable state in which thread 1 is inside its push callback on slot 0 (hypotheses of `bq_exclusive`) -/
example : ∃ y t, ReachF exCfg y ∧ (y.s.pc t).inCb exCfg 0 := ⟨ex4, 1, ex4_reach, rfl⟩
/-- the initial state is quiescent and balanced (hypotheses of `bq_conserve`) -/
example : ReachF exCfg Sys.init ∧ Quiescent Sys.init ∧ Sys.init.s.pushIdx = Sys.init.s.popIdx :=
  ⟨Reachable.base rfl, fun _ => rfl, rfl⟩

/-- a reachable state in which thread 1's try_pop on the empty queue has failed (hypotheses of `bq_try_fail_justified`) -/
example : ∃ g, GReach exCfg g ∧ tryCall (g.y.cur 1) = some (.pop, true, true) ∧ g.y.s.pc 1 = .retd 0 := by
  obtain ⟨w, hw⟩ := greach_of_reach tf4_reach
  exact ⟨⟨tf4, w⟩, hw, rfl, rfl⟩

/-- a reachable state of the view model in which deal 0 is in its critical section (hypotheses of `bq_publication_exclusive`) -/
example : ∃ s, Pub.Reach Pub.codeOrds (fun _ => 7) s ∧ s.pc 0 = .crit := by
  have h : (Pub.St.init.m.read 0 .word Pub.codeOrds.ld 0).isSome := by decide
  obtain ⟨⟨m', v⟩, hr⟩ := Option.isSome_iff_exists.mp h
  have hv : v = 0 := by
    obtain ⟨msg, hm, hv, _, _⟩ := Babylon.Core.MemView.Mem.read_spec hr
    have : msg = ⟨0, Babylon.Core.MemView.View.bot⟩ := by
      have e : (Pub.St.init.m.hist Pub.Loc.word) = [⟨0, Babylon.Core.MemView.View.bot⟩] := rfl
      rw [e] at hm; simp at hm; exact hm.symm
    rw [hv, this]
  subst hv
  exact ⟨_, Reachable.tail (Reachable.base rfl) (Pub.Step.loadWord Pub.St.init 0 0 m' 0 rfl hr), by simp [Babylon.Core.MemView.upd]⟩

end Babylon.Properties.C01
