/-
  Property C10 — garbage collector: reclaimers run exactly once, never early, before stop returns.
  Property theorems only; the model is Babylon/GC/Model.lean, helper lemmas and the inductive
  invariants are in Babylon/GC/Lemmas*.lean.

  `Reach c s`: `s` is reachable from the initial state by **any** interleaving of the actions of
  any number of retiring clients, region slots, the stopping thread and the collector thread, for
  queue capacity `c.cap` — all schedules, histories, capacities, batch boundaries.

  Epoch specification assumed (model header; proved for the real `Epoch` under C09:
  `epoch_safety_sc`, `epoch_safety_view`, `epoch_new_slot_safe`, `epoch_released_never_holds`,
  `epoch_stale_gver_conservative`): a `low_water_mark()` call returns some `m` with
  `m ≤ p` for every slot pinned with epoch `p` from before the call's begin until after its end, and
  `m ≥` the smallest epoch pinned at some moment of the call.
  Queue specification assumed (C01 `bq_exactly_once`, `bq_fifo`, `bq_exclusive`; C02): tickets by
  `fetch_add`; a ticket is published once the slot of the previous round was released; the batch pop
  takes a prefix of published tickets and, if the head was already published when it began, at least one.
-/
import Babylon.GC.LiveRegions
import Babylon.GC.LiveEnabled
import Babylon.GC.View

namespace Babylon.Properties.C10
open Babylon.GC Babylon.Core

/-! ### generated obligations: the source still has the shape the model was written against -/

/-- The collector loop (the repair of DESIGN §7 #2): it goes on while the marker has not been seen
**or** consumed tasks are still waiting; a new batch is consumed only while running and when the
previous one is exhausted; the block's statements and the reclaim call are the modelled ones. -/
theorem gen_loop_shape :
    Gen.GC.loopCond = Shape.loopCond ∧ Gen.GC.consumeCond = Shape.consumeCond ∧
    Gen.GC.consumeBlock = Shape.consumeBlock ∧ Gen.GC.reclaimCall = Shape.reclaimCall := by decide

/-- consume: the marker is `lowest_epoch == UINT64_MAX` (= a default-constructed task, which is what
`stop()` pushes), at the marker `running=false; break;`, otherwise the task is appended. -/
theorem gen_marker_shape :
    Gen.GC.markerEpoch = 2 ^ 64 - 1 ∧ Gen.GC.defaultEpoch = Gen.GC.markerEpoch ∧
    Gen.GC.markerAction = Shape.markerAction ∧ Gen.GC.absorbAction = Shape.absorbAction ∧
    Gen.GC.consumeRunningInit = true := by decide

/-- reclaim_start_from: stop at the first task with `lowest_epoch > low_water_mark` (so `≤` reclaims),
the low water mark is read once before the walk. -/
theorem gen_reclaim_shape :
    Gen.GC.notYetCond = Shape.notYetCond ∧ Gen.GC.notYetAction = Shape.notYetAction ∧
    Gen.GC.skel_reclaim_start_from = [.call "low_water_mark", .call "t.reclaimer"] := by decide

/-- constants of the loop and the queue flavours used (`push<true,false,false>` = concurrent, spinning,
no futex wake; `try_pop_n<false,false>` = single consumer, no futex wake). -/
theorem gen_constants :
    Gen.GC.batchMax = 1024 ∧ Gen.GC.sleepBelow = 100 ∧ Gen.GC.backoffInit = 1000 ∧ Gen.GC.backoffIncr = 10 ∧
    Gen.GC.backoffMax = 100000 ∧ Gen.GC.backoffShift = 1 ∧
    Gen.GC.retirePushFlags = [true, false, false] ∧ Gen.GC.stopPushFlags = [true, false, false] ∧
    Gen.GC.popFlags = [false, false] := by decide

/-- call skeletons of keep_reclaim / consume / stop / retire -/
theorem gen_skeletons :
    Gen.GC.skel_keep_reclaim = [.call "clear", .call "consume_reclaim_task", .call "reclaim_start_from", .call "usleep"] ∧
    Gen.GC.skel_consume = [.call "try_pop_n", .call "emplace_back"] ∧
    Gen.GC.skel_stop = [.call "joinable", .call "push", .call "join"] ∧
    Gen.GC.skel_retire = [.call "retire", .call "tick", .call "push"] := by decide

/-- the whole statement text of the two life-cycle functions: `start()` does nothing but launch
`keep_reclaim` unless a thread is joinable — in particular it leaves the queue alone, so what was
retired while no collector was running is still there; `stop()` pushes the marker and joins iff a
thread is joinable. -/
theorem gen_life_cycle_shape :
    Gen.GC.startBody = "{if(!_gc_thread.joinable()){_gc_thread=::std::thread(&GarbageCollector<R>::keep_reclaim,this);}return0;}" ∧
    Gen.GC.skel_start = [.call "joinable", .call "::std::thread"] ∧
    Gen.GC.stopBody = "{if(_gc_thread.joinable()){_queue.templatepush<true,false,false>(ReclaimTask{});_gc_thread.join();}}" := by decide

/-- the call sites of the two lower layers the specification is stated over: `tick` is one SC
`fetch_add(1)` returning old + 1; `lock` reads the global version then stores it in the slot then
fences; `unlock` stores the idle value `UINT64_MAX`; the scan loads the slots with acquire; a push
takes its ticket with a `fetch_add` on the push index. -/
theorem gen_lower_layers :
    Gen.GC.skel_epoch_tick = [.rmw "fetch_add" "_version" .sc] ∧ Gen.GC.tickAdds = 1 ∧ Gen.GC.tickReturnsOldPlus = 1 ∧
    Gen.GC.skel_epoch_lock = [.load "_version" .rlx, .store "slot.version" .rlx, .fence .sc] ∧
    Gen.GC.skel_epoch_unlock = [.store "slot.version" .rel] ∧ Gen.GC.slotIdle = 2 ^ 64 - 1 ∧
    Gen.GC.skel_epoch_lwm = [.call "snapshot", .call "accessor_number", .call "for_each", .load "version" .acq] ∧
    Gen.GC.skel_queue_push.head? = some (.rmw "fetch_add" "_next_push_index" .rlx) := by decide

/-! ### exactly once -/

/-- **At most once**: in every reachable state the invocation log holds no reclaimer twice. -/
theorem gc_at_most_once (c : Cfg) (s : State) (h : Reach c s) : s.invoked.Nodup :=
  invoked_nodup h

/-! ### never early -/

/-- **Never early**: whenever the collector invokes reclaimer `id`, it is the task at `tasks[index]`,
its epoch `e` is at most the low water mark `m` read in this pass, and no slot is pinned that was
pinned before the tick that produced `e` (every such slot has `since ≥ e`, while a slot pinned
before that tick has `since < e`: `gc_open_at_retirement_has_older_pin`).  Hence every critical
region that was open when the reclaimer was retired has been closed. -/
theorem gc_never_early (c : Cfg) (s s' : State) (id : Nat) (h : Reach c s)
    (hs : step c s (.reclaim id) = some s') :
    ∃ t m cnt, s.cpc = .reclaim m cnt ∧ s.tasks[s.index]? = some t ∧ t.id = id ∧ leLwm t.e m = true ∧
      ∀ i p since, s.slots i = .pinned p since → t.e ≤ since := by
  have he := (reach_inv h).e
  simp only [step, stepWith] at hs
  split at hs <;> try contradiction
  rename_i m cnt hpc
  split at hs <;> try contradiction
  rename_i t hnext
  split at hs <;> try contradiction
  rename_i hid
  simp only [nextReclaimable] at hnext
  split at hnext <;> try contradiction
  rename_i t' hget
  split at hnext <;> try contradiction
  rename_i hle
  injection hnext with hnext; subst hnext
  refine ⟨t', m, cnt, hpc, hget, hid, hle, ?_⟩
  intro i p a hi
  refine he.recI m cnt hpc i p a hi t' ?_ hle
  have hlt : s.index < s.tasks.length := by
    rcases Nat.lt_or_ge s.index s.tasks.length with h | h
    · exact h
    · rw [List.getElem?_eq_none h] at hget; cases hget
  rw [List.drop_eq_getElem_cons hlt]
  rw [List.getElem?_eq_getElem hlt] at hget
  injection hget with hget
  rw [hget]; exact List.mem_cons_self

/-- every entry of the invocation log was reclaimable: epoch ≤ the low water mark read in its pass -/
theorem gc_never_early_log (c : Cfg) (s : State) (h : Reach c s) :
    ∀ x ∈ s.log, leLwm x.e x.m = true := (reach_inv h).e.logOk

/-- reading of the ghost `since`: a slot that is pinned when `retire` ticks was pinned at a global
version strictly below the epoch the tick returns (and the pin itself is untouched by the tick). -/
theorem gc_open_at_retirement_has_older_pin (c : Cfg) (s s' : State) (id i p since : Nat) (h : Reach c s)
    (hs : step c s (.tick id) = some s') (hp : s.slots i = .pinned p since) :
    ∃ e, s'.calls id = .reserve e ∧ since < e ∧ s'.slots i = .pinned p since := by
  have he := (reach_inv h).e
  simp only [step, stepWith] at hs
  split at hs <;> try contradiction
  injection hs with hs; subst hs
  refine ⟨s.gver + Gen.GC.tickReturnsOldPlus, by simp, ?_, hp⟩
  have := (he.pinLe i p since hp).2
  have h1 : Gen.GC.tickReturnsOldPlus = 1 := rfl
  omega

/-- the same for a client that ticks on its own and later passes the value to `retire(r, e)` -/
theorem gc_open_at_client_tick_has_older_pin (c : Cfg) (s s' : State) (i p since : Nat) (h : Reach c s)
    (hs : step c s .clientTick = some s') (hp : s.slots i = .pinned p since) :
    since < s'.gver ∧ s'.slots i = .pinned p since := by
  have he := (reach_inv h).e
  simp only [step, stepWith] at hs
  injection hs with hs; subst hs
  have := (he.pinLe i p since hp).2
  have h1 : Gen.GC.tickAdds = 1 := rfl
  exact ⟨by dsimp only; omega, hp⟩

/-! ### retire blocks while the queue is full and loses nothing -/

/-- **Conservation**: the ids of all tasks that ever obtained a queue ticket are, as a multiset,
exactly: invoked ++ waiting in `tasks[index..]` ++ skipped behind a stop marker ++ still queued;
no id occurs twice; an id is there iff its `retire` call has taken its ticket.  **Blocking**: a
retire call holding ticket `k` can publish iff `k < popIdx + capacity` (it waits while the queue is
full and is enabled again as soon as the collector has popped far enough); published cells never
exceed the capacity.  Nothing is skipped unless a stop marker has been popped, and a task whose
ticket precedes every marker ticket is never skipped. -/
theorem gc_retire_blocks_not_drops (c : Cfg) (s : State) (h : Reach c s) :
    s.places.Perm (taskIds s.allItems) ∧ s.places.Nodup ∧
    (∀ id, id ∈ s.places ↔ (s.calls id).ticketed = true) ∧
    (∀ id e k, s.calls id = .publish e k → ((step c s (.publish id)).isSome ↔ k < s.popIdx + c.cap)) ∧
    (∀ i x, s.cells[i]? = some (x, true) → i < c.cap) ∧
    (Item.marker ∉ s.popped → s.dropped = []) ∧
    (∀ id e k, (s.calls id = .publish e k ∨ s.calls id = .done e k) →
      (∀ km : Nat, s.allItems[km]? = some Item.marker → k < km) → id ∉ s.dropped.map (·.id)) := by
  have hi := reach_inv h
  have hperm := places_perm h
  have hnd : s.places.Nodup := hperm.nodup_iff.mpr hi.cns.nodup
  refine ⟨hperm, hnd, ?_, ?_, hi.q.room, ?_, ?_⟩
  · intro id; rw [hperm.mem_iff]; exact hi.cns.has id
  · intro id e k hk
    have ⟨h1, _⟩ := hi.q.pub id e k hk
    simp only [step, stepWith, hk]
    constructor
    · intro hsome
      split at hsome
      · rename_i hg; exact hg.2
      · cases hsome
    · intro hlt
      rw [if_pos ⟨h1, hlt⟩]; rfl
  · intro hn; exact (hi.k.runEq hn).2
  · intro id e k hcall hbefore hmem
    -- the task is in the queue or among the consumed ones; `places` has no duplicates
    have hk := hi.q.tick id e k hcall
    rcases Nat.lt_or_ge k s.popped.length with hlt | hge
    · -- popped: then it sits in front of the first marker, hence consumed
      have hkp : s.popped[k]? = some (Item.task ⟨id, e⟩) := by
        simp only [State.allItems] at hk; rwa [List.getElem?_append_left hlt] at hk
      have hcm : (⟨id, e⟩ : Task) ∈ s.consumed := by
        by_cases hm : Item.marker ∈ s.popped
        · have hj := getElem?_firstMarker hm
          have hjlt : (s.popped.takeWhile notMarker).length < s.popped.length := by
            rcases Nat.lt_or_ge (s.popped.takeWhile notMarker).length s.popped.length with hl | hl
            · exact hl
            · rw [List.getElem?_eq_none hl] at hj; cases hj
          have hkj : k < (s.popped.takeWhile notMarker).length := by
            apply hbefore
            simp only [State.allItems]
            rw [List.getElem?_append_left hjlt]; exact hj
          have : Item.task ⟨id, e⟩ ∈ s.popped.takeWhile notMarker := by
            apply List.mem_of_getElem? (i := k)
            rw [getElem?_takeWhile_notMarker hkj]; exact hkp
          exact hi.k.pre.subset (mem_tasksOf.mpr this)
        · rw [(hi.k.runEq hm).1]
          exact mem_tasksOf.mpr (List.mem_of_getElem? hkp)
      rw [← hi.k.split] at hcm
      have hin : id ∈ s.invoked ++ (s.tasks.drop s.index).map (·.id) := by
        rw [List.mem_append] at hcm ⊢
        rcases hcm with hc | hc
        · left
          rw [List.mem_map] at hc
          obtain ⟨x, hx, hxe⟩ := hc
          simp only [State.invoked, List.mem_map]
          exact ⟨x, hx, by have : x.task.id = id := by rw [hxe]
                           simpa [Inv.task] using this⟩
        · right; exact List.mem_map.mpr ⟨_, hc, rfl⟩
      unfold State.places at hnd
      rw [List.append_assoc, List.nodup_append] at hnd
      have := hnd.2.2 id hin id (List.mem_append_left _ hmem)
      exact this rfl
    · -- still queued
      have hkc : (s.cells.map (·.1))[k - s.popped.length]? = some (Item.task ⟨id, e⟩) := by
        simp only [State.allItems] at hk; rwa [List.getElem?_append_right hge] at hk
      have hin : id ∈ taskIds (s.cells.map (·.1)) := by
        simp only [taskIds, List.mem_map]
        exact ⟨⟨id, e⟩, mem_tasksOf.mpr (List.mem_of_getElem? hkc), rfl⟩
      unfold State.places at hnd
      rw [List.nodup_append] at hnd
      have hleft : id ∈ s.invoked ++ (s.tasks.drop s.index).map (·.id) ++ s.dropped.map (·.id) :=
        List.mem_append_right _ hmem
      exact hnd.2.2 id hleft id hin rfl

/-! ### all before stop returns -/

/-- **All before stop**, over any number of `start()` / `stop()` cycles: when a `stop()` (on a running
collector) has returned, every reclaimer whose `retire` had obtained its ticket before that `stop()`
was called — in particular every reclaimer whose `retire` had returned
(`gc_retired_before_stop_has_early_ticket`), whether the collector was running at the time or not
(retired before the first `start()`, or between a `stop()` and the next `start()`) — has been
invoked.  The only exception is a `retire` that took its ticket *while an earlier `stop()` was in
progress* (`late`: a client race the property excludes); no fairness is needed: this is about the
moment `stop()` returns, and it stays true afterwards, also across the next `start()`. -/
theorem gc_all_before_stop (c : Cfg) (s : State) (h : Reach c s) (hret : s.stop = .returned)
    (id e k p : Nat) (hcall : s.calls id = .done e k) (hp : s.pushAtStop = some p) (hk : k < p)
    (hlate : id ∉ s.late) : id ∈ s.invoked :=
  all_before_stop h hret (Or.inr hcall) hp hk hlate

/-- the unconditional form: invoked, or skipped behind a stop marker -/
theorem gc_all_before_stop_or_skipped (c : Cfg) (s : State) (h : Reach c s) (hret : s.stop = .returned)
    (p k : Nat) (t : Task) (hp : s.pushAtStop = some p) (hk : k < p)
    (hkt : s.allItems[k]? = some (Item.task t)) : t.id ∈ s.invoked ∨ t ∈ s.dropped :=
  reach_rprop h hret p hp k t hk hkt

/-- what is skipped behind a marker took its ticket while a `stop()` was in progress, and a `retire`
that takes its ticket at any other time is never marked `late` by that step -/
theorem gc_skipped_only_late (c : Cfg) (s : State) (h : Reach c s) : ∀ t ∈ s.dropped, t.id ∈ s.late :=
  (reach_linv h).dropLate

theorem gc_not_late_outside_stop (c : Cfg) (s s' : State) (id : Nat)
    (hs : step c s (.reserve id) = some s')
    (hout : s.stop = .idle ∨ s.stop = .reserve ∨ s.stop = .returned) : s'.late = s.late := by
  simp only [step, stepWith] at hs
  split at hs <;> try contradiction
  injection hs with hs; subst hs
  rcases hout with h | h | h <;> simp [h]

/-- `start()` leaves the queue alone: nothing retired while no collector was running is lost -/
theorem gc_start_keeps_queue (c : Cfg) (s s' : State) (hs : step c s .start = some s') :
    s'.cells = s.cells ∧ s'.pushIdx = s.pushIdx ∧ s'.popIdx = s.popIdx ∧ s'.allItems = s.allItems ∧
    s'.calls = s.calls ∧ s'.log = s.log := by
  simp only [step, stepWith] at hs
  split at hs
  · injection hs with hs; subst hs; exact ⟨rfl, rfl, rfl, rfl, rfl, rfl⟩
  · injection hs with hs; subst hs; exact ⟨rfl, rfl, rfl, rfl, rfl, rfl⟩

/-- a `retire` that has its ticket (a fortiori one that has returned) when `stop()` is called has a
ticket below the push index recorded at that call -/
theorem gc_retired_before_stop_has_early_ticket (c : Cfg) (s s' : State) (h : Reach c s)
    (hs : step c s .callStop = some s') (id e k : Nat)
    (hcall : s.calls id = .publish e k ∨ s.calls id = .done e k) :
    ∃ p, s'.pushAtStop = some p ∧ k < p ∧ s'.calls id = s.calls id := by
  have hq := (reach_inv h).q
  have hk := hq.tick id e k hcall
  have hlen := allItems_length hq
  have hlt : k < s.allItems.length := by
    rcases Nat.lt_or_ge k s.allItems.length with h | h
    · exact h
    · rw [List.getElem?_eq_none h] at hk; cases hk
  simp only [step, stepWith] at hs
  split at hs <;> try contradiction
  injection hs with hs; subst hs
  exact ⟨s.pushIdx, rfl, by omega, rfl⟩

/-! ### the collector-loop invariant -/

/-- **Collector loop**: `index ≤ tasks.size()`; the reclaimed tasks followed by `tasks[index..]` are
exactly the tasks consumed so far, in consumption order; consumption order is ticket (FIFO) order;
everything popped in front of the first stop marker has been consumed — all of it while no marker
has been popped; and what has been popped is the first `popIdx` tickets. -/
theorem gc_collector_loop_invariant (c : Cfg) (s : State) (h : Reach c s) :
    s.index ≤ s.tasks.length ∧
    s.log.map Inv.task ++ s.tasks.drop s.index = s.consumed ∧
    s.consumed.Sublist (tasksOf s.popped) ∧
    tasksOf (s.popped.takeWhile notMarker) <+: s.consumed ∧
    (Item.marker ∉ s.popped → s.consumed = tasksOf s.popped) ∧
    s.popped = s.allItems.take s.popIdx := by
  have hi := reach_inv h
  refine ⟨hi.k.idx, hi.k.split, hi.k.sub, hi.k.pre, fun hn => (hi.k.runEq hn).1, ?_⟩
  simp [State.allItems, ← hi.q.popLen]

/-- once a collector thread has finished (and after it has been joined), nothing it consumed is left
un-reclaimed, and it finishes only after it has popped a marker of its own run -/
theorem gc_collector_done (c : Cfg) (s : State) (h : Reach c s) :
    (s.cpc = .done → s.running = false ∧ s.tasks.drop s.index = [] ∧ Item.marker ∈ s.popped.drop s.runBase) ∧
    (s.cpc = .off → s.tasks.drop s.index = []) := by
  have hk := (reach_inv h).k
  refine ⟨fun hd => ⟨(hk.fin hd).1, (hk.fin hd).2, ?_⟩, hk.finOff⟩
  apply Classical.byContradiction
  intro hn
  have := hk.run.mpr hn
  rw [(hk.fin hd).1] at this; cases this

/-! ### `stop()` returns -/

/-- **Termination of `stop()`** (the liveness half of "no later than the return of `stop()`").
`x` is any infinite execution of the model (stuttering allowed); from some moment `n0` on
(`Fair x n0`, spelled out in Babylon/GC/Live.lean):
* client contract — `stop()` has been called, no `retire` call is in flight and none starts, nobody
  ticks (new regions may still be entered and left at will);
* fairness — the collector thread is scheduled again and again until it has finished, the stopping
  thread whenever one of its actions is enabled; capacity ≥ 1;
* environment — at `n0` no slot holds (or is about to store) an epoch below the global version,
  i.e. **every critical region that was entered before the last tick has been closed** ("every
  region open at stop eventually closes"; regions entered later never block and may stay open).
Then `stop()` returns.  Without the last hypothesis `stop()` legitimately waits for ever
(`gc_never_early` forbids the collector to invoke the blocked reclaimer, `gc_collector_done` forbids
it to exit before). -/
theorem gc_stop_terminates (c : Cfg) (x : Exec c) (n0 : Nat) (hf : Fair x n0) :
    ∃ n, (x.σ n).stop = .returned :=
  stop_terminates x n0 hf

/-- The same with the environment hypothesis in its per-region form (`RegionsProceed`): every slot
that has read, or holds, an epoch below the current global version — a critical region entered before
the last tick, in particular every region that was open when `stop()` was called and could block a
retired reclaimer — eventually takes its next step (stores its slot, then closes).  Regions entered
after the last tick are not constrained at all. -/
theorem gc_stop_terminates_regions_close (c : Cfg) (x : Exec c) (n0 : Nat) (hc : Contract x n0)
    (hr : RegionsProceed x n0) : ∃ n, (x.σ n).stop = .returned :=
  stop_terminates_regions x n0 hc hr

/-- both halves together: under the same hypotheses there is a moment at which `stop()` has
returned and every reclaimer whose `retire` obtained its ticket before `stop()` was called (not
during an earlier `stop()`) has been invoked — exactly once (`gc_at_most_once`). -/
theorem gc_stop_returns_with_all_invoked (c : Cfg) (x : Exec c) (n0 : Nat) (hf : Fair x n0) :
    ∃ n, (x.σ n).stop = .returned ∧ (x.σ n).invoked.Nodup ∧
      ∀ id e k p, (x.σ n).calls id = .done e k → (x.σ n).pushAtStop = some p → k < p →
        id ∉ (x.σ n).late → id ∈ (x.σ n).invoked := by
  obtain ⟨n, hn⟩ := stop_terminates x n0 hf
  exact ⟨n, hn, invoked_nodup (x.reach n),
    fun id e k p h1 h2 h3 h4 => gc_all_before_stop c _ (x.reach n) hn id e k p h1 h2 h3 h4⟩

/-- the fairness hypothesis on the collector is satisfiable: until it has finished, the collector
thread always has an enabled action while it exists and has not finished (so a scheduler can always run it) -/
theorem gc_collector_always_enabled (c : Cfg) (s : State) (hcap : 1 ≤ c.cap) (h : Reach c s)
    (hnd : collActive s.cpc = true) : ∃ l, l.isColl = true ∧ (step c s l).isSome = true :=
  collector_enabled hcap h hnd

/-- … and the environment hypothesis persists once it holds: without ticks, a region entered later
reads the current global version -/
theorem gc_no_stale_persists (c : Cfg) (s s' : State) (l : Lbl) (hq : Quiet s) (hn : NoStale s)
    (hl : l.retiring = false) (h : step c s l = some s') : NoStale s' :=
  noStale_step hq hn hl h

/-! ### view level: what the collector has seen when it invokes a reclaimer -/

/-- **`gc_reclaim_view`** (release/acquire view model of Core/MemView.lean, every execution, stale
reads included): the retiring thread `r` pushes (store of order `oPush`, releasing, to a queue slot
word) at memory `mR` and the collector `c` pops that message (load of order `oPop`, acquiring); the
reader `d` ends its region (store of order `oEnd`, releasing, to its epoch slot) at `mD` and the
collector's low-water-mark scan reads that message (load of order `oScan`, acquiring); whatever else
happens in between and afterwards (`Mem.Ext`), at the moment `mF` the collector invokes the reclaimer
the retirer's view at `retire()` — its unlinking writes — and the reader's view at its region end —
all its accesses inside the region — are contained in the collector's view: destroying the object
cannot race with them.  The code's orders for the region end and the scan satisfy the hypotheses
(`gc_view_epoch_orders_ok`); with either of them relaxed the conclusion fails (negative controls). -/
theorem gc_reclaim_view (mR m2 m3 mD m4 m5 mF : Core.MemView.Mem GC.View.Loc) (r d c i j : Nat)
    (oPush oPop oEnd oScan : Core.Ord) (v v' idle w' : Nat)
    (hPush : oPush.releases = true) (hPop : oPop.acquires = true)
    (hEnd : oEnd.releases = true) (hScan : oScan.acquires = true)
    (hext1 : (mR.write r (.qslot i) oPush v).Ext m2)
    (hpop : m2.read c (.qslot i) oPop (mR.len (.qslot i)) = some (m3, v'))
    (hext2 : (mD.write d (.eslot j) oEnd idle).Ext m4)
    (hscan : m4.read c (.eslot j) oScan (mD.len (.eslot j)) = some (m5, w'))
    (hF1 : m3.Ext mF) (hF2 : m5.Ext mF) :
    (mR.tv r).cur ≤ (mF.tv c).cur ∧ (mD.tv d).cur ≤ (mF.tv c).cur :=
  GC.View.gc_reclaim_view mR m2 m3 mD m4 m5 mF r d c i j oPush oPop oEnd oScan v v' idle w'
    hPush hPop hEnd hScan hext1 hpop hext2 hscan hF1 hF2

theorem gc_view_epoch_orders_ok :
    Gen.Epoch.unlockStoreOrd.releases = true ∧ Gen.Epoch.releaseStoreOrd.releases = true ∧
    Gen.Epoch.scanSlotOrd.acquires = true := GC.View.gc_epoch_orders_ok

/-- positive and negative controls (concrete view-model executions, `decide`): with the code's orders a
reclaimer cannot read the object's state from before the reader's / retirer's write; with the
region-end store, the scan load, the push or the pop relaxed it can -/
theorem gc_view_controls :
    GC.View.regionRun Gen.Epoch.unlockStoreOrd Gen.Epoch.scanSlotOrd 0 = none ∧
    GC.View.regionRun .rlx Gen.Epoch.scanSlotOrd 0 = some (99, 0) ∧
    GC.View.regionRun Gen.Epoch.unlockStoreOrd .rlx 0 = some (99, 0) ∧
    GC.View.retireRun .rel .acq 0 = none ∧
    GC.View.retireRun .rlx .acq 0 = some (1, 0) ∧ GC.View.retireRun .rel .rlx 0 = some (1, 0) :=
  ⟨GC.View.gc_view_positive.1, GC.View.gc_view_negative_relaxed_region_end, GC.View.gc_view_negative_relaxed_scan,
   GC.View.gc_view_positive.2.2.1, GC.View.gc_view_negative_relaxed_push, GC.View.gc_view_negative_relaxed_pop⟩

/-! ### non-vacuity and the pre-repair loop -/

/-- the schedule of DESIGN §7 #2: a region is open (slot 0 pinned at version 0), one retire,
`stop()`; the collector consumes the task and the marker in one batch while the region is open -/
def openRegionRetireStop : List Lbl :=
  [.start, .newSlot, .enterRead 0, .enterPin 0,
   .callRetire 7, .tick 7, .reserve 7, .publish 7,
   .callStop, .stopReserve, .stopPublish,
   .consumeBegin, .pop 2, .scanBegin, .scanEnd (some 0), .passEnd]

/-- On the repaired loop the collector keeps polling after that schedule; once the region closes the
task is reclaimed and only then the collector exits and `stop()` returns: the hypotheses of
`gc_all_before_stop` / `gc_never_early` are satisfiable and the conclusions are not vacuous. -/
example :
    ((runL step ⟨2⟩ State.init (openRegionRetireStop ++
        [.scanBegin, .scanEnd (some 0), .passEnd, .leave 0,
         .scanBegin, .scanEnd none, .reclaim 7, .passEnd, .exit, .stopJoin])).map
      (fun s => (s.invoked, decide (s.stop = .returned), s.pushAtStop, s.late))) = some ([7], true, some 1, []) := by decide

/-- … and it cannot exit or reclaim while the region is open -/
example :
    ((runL step ⟨2⟩ State.init (openRegionRetireStop ++ [.exit])).isNone ∧
     (runL step ⟨2⟩ State.init (openRegionRetireStop ++ [.scanBegin, .scanEnd (some 1)])).isNone ∧
     (runL step ⟨2⟩ State.init (openRegionRetireStop ++ [.scanBegin, .scanEnd (some 0), .reclaim 7])).isNone) := by decide

/-- Life cycle with the default capacity of one slot: reclaimer 1 is retired **before** `start()`,
waits in the queue, is invoked by the first run; after `stop()` reclaimer 2 is retired while no
collector exists, `start()` again, `stop()` again: both are invoked, each `stop()` has returned. -/
example :
    ((runL step ⟨1⟩ State.init
        [.callRetire 1, .tick 1, .reserve 1, .publish 1,
         .stopNoop, .start,
         .consumeBegin, .pop 1, .scanBegin, .scanEnd none, .reclaim 1, .passEnd,
         .callStop, .stopReserve, .stopPublish,
         .consumeBegin, .pop 1, .scanBegin, .scanEnd none, .passEnd, .exit, .stopJoin,
         .callRetire 2, .tick 2, .reserve 2, .publish 2,
         .start,
         .callStop, .stopReserve,
         .consumeBegin, .pop 1, .scanBegin, .scanEnd none, .reclaim 2, .passEnd,
         .stopPublish,
         .consumeBegin, .pop 1, .scanBegin, .scanEnd none, .passEnd, .exit, .stopJoin]).map
      (fun s => (s.invoked, decide (s.stop = .returned), s.pushAtStop, s.late, s.dropped.length))) =
      some ([1, 2], true, some 3, [], 0) := by decide

/-- **The loop before the repair** (`while (running)`, kept as the sanity mutation): on the same
schedule the collector exits right after the batch that contained the marker, `stop()` returns, and
reclaimer 7 — retired before `stop()` was called — has not been invoked: `gc_all_before_stop` is
false for that loop.  (Replayed on the real code by corpus/C10/open_region_retire_stop.txt.) -/
theorem gc_stop_drops_counterexample_old_loop :
    ∃ s, runL stepOld ⟨2⟩ State.init (openRegionRetireStop ++ [.exit, .stopJoin]) = some s ∧
      s.stop = .returned ∧ s.calls 7 = .done 1 0 ∧ s.pushAtStop = some 1 ∧ 7 ∉ s.invoked := by
  refine ⟨_, rfl, ?_, ?_, ?_, ?_⟩ <;> decide

end Babylon.Properties.C10
