/-
  Property C10 — property theorems only (helper lemmas live next to the model).
  Stub: nothing claimed yet.
-/
namespace Babylon.Properties.C10
end Babylon.Properties.C10
