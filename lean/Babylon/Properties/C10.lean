/-
  Property C10 — garbage collector: reclaimers run exactly once, never early, before stop returns.
  Property theorems only; helper lemmas in Babylon/GC/Lemmas*.lean.
-/
import Babylon.GC.Model

namespace Babylon.Properties.C10
open Babylon.GC Babylon.Core

/-- Generated obligation pinning the shape of the collector loop (the repair of DESIGN §7 #2): the loop
goes on while the marker has not been seen **or** consumed tasks are still waiting, and a new batch
is consumed only while running and when the previous one is exhausted. -/
theorem gen_loop_shape :
    Gen.GC.loopCond = Shape.loopCond ∧ Gen.GC.consumeCond = Shape.consumeCond ∧
    Gen.GC.consumeBlock = Shape.consumeBlock ∧ Gen.GC.reclaimCall = Shape.reclaimCall := by decide

end Babylon.Properties.C10
