/-
  Property C15 — property theorems only (helper lemmas live next to the model).
  Stub: nothing claimed yet.
-/
namespace Babylon.Properties.C15
end Babylon.Properties.C15
