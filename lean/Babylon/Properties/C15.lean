/-
  Property C15 — transient topic: each subscriber sees every item once, in order, then the end.
  Property theorems only; the model is Babylon/Topic/Model.lean (one step = one atomic operation,
  fence or futex call of transient_topic.hpp), the inductive invariant and its preservation are in
  Babylon/Topic/{Inv,Frame,ExtStep,StepT,StepG,StepC,StepW,InvMain,Use,Progress}.lean.

  All theorems quantify over `Reach c s`: every state reachable from a new topic through ANY
  interleaving of any number of threads running publish / publish_n (any batch sizes, any callback
  values), close, consume (any batch sizes), subscribe, clear, with spurious weak-CAS failures and
  spurious futex returns, for any positive block size `c.bs` of the slot vector (so ranges straddle
  blocks arbitrarily), under the client contract stated in Model.lean.

  Memory model: the transition system interleaves atomic operations (SC).  The publication of item
  payloads is additionally proved along happens-before edges only (`topic_publication`): the model's
  ghost `hb` moves knowledge exclusively through the release fence / relaxed store / relaxed load /
  acquire fence chain the source has (orders are the generated constants of Babylon.Gen.Topic, so a
  weakened fence breaks `ordPubFence_releases` / `ordAcqFence_acquires` and with them this file).
  Weak memory (section "view model" at the end, proofs in Babylon/Topic/View.lean over
  Babylon.Core.MemView, stale reads allowed): `topic_publication_view` (+ `_seq` through the word's
  release sequence) and `topic_wake_view*` for the waiter / waker handshake, with negative controls
  for a relaxed publish fence and for a dropped seq_cst fence.  Modelling choices of the handshake
  (the waiter has NO seq_cst fence in user code — the barrier is futex_wait's; the two halves of the
  mixed-size word are two locations, which only adds behaviours) are stated at the theorems.
-/
import Babylon.Topic.Progress
import Babylon.Topic.Sched
import Babylon.Topic.View

namespace Babylon.Properties.C15
open Babylon.Topic Babylon.Gen.Topic Babylon.Core
set_option linter.unusedVariables false

/-! ### Generated obligations: the source still is what the model was written against -/

/-- status encoding, waiter-bit arithmetic, block size of the slot vector, futex word layout -/
theorem gen_constants :
    stInitial = 0 ∧ stPublished = 1 ∧ stClosed = 2 ∧ statusBits = 16 ∧ waiterUnit = 2 ^ 16 ∧
    noWaiterMax = 2 ^ 16 - 1 ∧ blockSize = 128 ∧ sizeofFutex = 4 ∧ futexNeedCreate = 0 ∧
    valueOffset = 0 ∧ wakeAllTraceCount = 99 := by decide

/-- memory orders written in the source (the model's labels and its happens-before ghost use these
names, never literals) -/
theorem gen_orders :
    ordNextAdd = .rlx ∧ ordPubFence = .rel ∧ ordStatusStore = .rlx ∧ ordPubScFence = .sc ∧
    ordClosedStore = .rlx ∧ ordCloseLoad = .rlx ∧ ordCloseScFence = .sc ∧
    ordWakeLoad = .rlx ∧ ordWakeCasSucc = .rlx ∧ ordWakeCasFail = .rlx ∧
    ordIsClosed = .rlx ∧ ordIsPublished = .rlx ∧ ordWaitLoad = .rlx ∧ ordWaitCasSucc = .rlx ∧
    ordWaitCasFail = .rlx ∧ ordWaitReload = .rlx ∧ ordAcqFence = .acq ∧ ordReset = .rlx ∧
    ordClearNext = .rlx := by decide

theorem gen_skel_publish_n : skel_publish_n = Skel.publish_n := by decide
theorem gen_skel_publish_forward :
    skel_publish = Skel.forward ∧ skel_publish_n_fwd = Skel.forward ∧ skel_consume1 = Skel.consume1 := by decide
theorem gen_skel_close : skel_close = Skel.close := by decide
theorem gen_skel_clear : skel_clear = Skel.clear ∧ skel_reset = Skel.reset := by decide
theorem gen_skel_status :
    skel_set_published = Skel.set_status ∧ skel_set_closed = Skel.set_status ∧
    skel_is_published = Skel.get_status ∧ skel_is_closed = Skel.get_status := by decide
theorem gen_skel_wakeup :
    skel_wakeup_waiters = Skel.wakeup_waiters ∧ skel_wakeup_waiters_slow = Skel.wakeup_waiters_slow := by decide
theorem gen_skel_wait :
    skel_wait_until_ready = Skel.wait_until_ready ∧ skel_wait_until_ready_slow = Skel.wait_until_ready_slow := by decide
theorem gen_skel_consume : skel_consume = Skel.consume := by decide


/-! ### The property -/

/-- reachable states of the topic with block size `c.bs` -/
abbrev Reach (c : Cfg) (s : State) : Prop := Reachable Init (Step c) s

/-- **Concurrent publishers never share a slot.**  Every index below `_next_event_index` has been
handed to exactly one `publish` call and none above (`claims` counts the hand-outs), and two publish
calls in progress never have an index of their remaining ranges in common. -/
theorem topic_slots_disjoint {c : Cfg} (hbs : 0 < c.bs) {s : State} (h : Reach c s) :
    (∀ i, s.claims i = if i < s.next then 1 else 0) ∧
    (s.clearing = false → ∀ t u i, (s.pc t).range i → (s.pc u).range i → t = u) :=
  ⟨(inv_reachable hbs h).1, fun hk _ _ _ ht hu => (main_reachable hbs h hk).ranges_disjoint ht hu⟩

/-- **Each subscriber sees every item once, in publication-index order.**  What thread `t`'s consumer
has been handed since `subscribe()` is exactly the list of `(index, item)` for the indices
`0, 1, …, base-1` in this order (`base` = its cursor), where `item i` is what the publisher's callback
wrote into slot `i`; every slot below the cursor is filled, PUBLISHED, still holds that item, and is
below `_next_event_index`. -/
theorem topic_each_once_in_order {c : Cfg} (hbs : 0 < c.bs) {s : State} (h : Reach c s) (hk : s.clearing = false)
    (t : Nat) :
    s.got t = (List.range (base s t)).map (fun i => (i, s.item i)) ∧ base s t ≤ s.cur t ∧
    ∀ i, i < s.cur t → s.filled i = true ∧ status (s.word i) = stPublished ∧ s.val i = s.item i ∧ i < s.next := by
  have M := main_reachable hbs h hk
  refine ⟨M.got t, M.basele t, fun i hi => ?_⟩
  have hp := (M.cons t i hi).1
  exact ⟨(M.pub i hp).1, hp, (M.pub i hp).2.1, (M.pub i hp).2.2.2⟩

/-- The item recorded for a filled slot never changes until `clear()` (so "the item of index `i`" in
`topic_each_once_in_order` is well defined), and a filled slot stays filled. -/
theorem topic_item_stable {c : Cfg} (hbs : 0 < c.bs) {s s' : State} (h : Reach c s) (hst : Step c s s')
    (hk : s.clearing = false) (hk' : s'.clearing = false) (i : Nat) (hf : s.filled i = true) :
    s'.item i = s.item i ∧ s'.filled i = true := by
  obtain ⟨a, hu⟩ := ustep_of_step hst
  exact item_keep (main_reachable hbs h hk) hu hk' i hf

/-- **The end marker comes exactly after all items.**  `consume(n)` blocks until it can return `n`
items unless the topic is closed: if it returns fewer (`m < n`, including `m = 0`, the end marker),
then `close()` was called, the consumer's cursor equals `_next_event_index`, and every index below it
is PUBLISHED — with `topic_each_once_in_order`: the consumer has by then been handed every item ever
published. -/
theorem topic_end_marker_after_all_items {c : Cfg} (hbs : 0 < c.bs) {s : State} (h : Reach c s)
    (hk : s.clearing = false) {t b e m : Nat} (hp : s.pc t = .kRet b e m) (hshort : b + m < e) :
    s.closed = true ∧ s.cur t = s.next ∧ b + m = s.next ∧ ∀ i, i < s.next → status (s.word i) = stPublished := by
  obtain ⟨h1, h2, h3, h4⟩ := (main_reachable hbs h hk).end_after_all hp hshort
  exact ⟨h1, h3, h2, h4⟩

/-- **No lost wake-up.**  Whenever a thread is blocked in `futex_wait` on slot `j`, either the slot is
still INITIAL with the waiter bit set (the future status store keeps the bit and its `wakeup_waiters`
will see it), or the waiter bit is set and some thread has stored the status and has yet to execute
`wakeup_waiters` on `j`, or some thread has seen the waiter bit and is about to call futex-wake on `j`. -/
theorem topic_no_lost_wakeup {c : Cfg} (hbs : 0 < c.bs) {s : State} (h : Reach c s) (hk : s.clearing = false)
    {t b e j : Nat} (hp : s.pc t = .kSleep b e j) :
    (status (s.word j) = stInitial ∧ waiterUnit ≤ s.word j) ∨
    (waiterUnit ≤ s.word j ∧ ∃ w, (s.pc w).willLoad j) ∨
    (∃ w, (s.pc w).loaded j) :=
  (main_reachable hbs h hk).wake t b e j hp

/-- **Nobody is stuck once everything is published and closed**: in a state where `close()` was
called and no publish / close call is in progress, no thread is blocked in `futex_wait`. -/
theorem topic_no_stuck {c : Cfg} (hbs : 0 < c.bs) {s : State} (h : Reach c s) (hk : s.clearing = false)
    (hq : Quiet s) (t b e j : Nat) : s.pc t ≠ .kSleep b e j :=
  (main_reachable hbs h hk).no_stuck hq t b e j

/-- … and every `consume` call returns: in such a state a thread inside `consume` can always take its
next step, and each of its steps keeps the state quiet, strictly decreases its `rank` (≤ 8 · batch
size + 8) and leaves every other thread's rank unchanged — so under every schedule each consumer
reaches the return of `consume` after at most `rank` steps of its own (then
`topic_end_marker_after_all_items` / `topic_each_once_in_order` describe what it returns). -/
theorem topic_consume_terminates {c : Cfg} (hbs : 0 < c.bs) {s : State} (h : Reach c s) (hk : s.clearing = false)
    (hq : Quiet s) {t : Nat} (hc : (s.pc t).consuming = true) :
    (∃ i s' l, stepThread c s t i = some (s', l)) ∧
    ∀ i s' l, stepThread c s t i = some (s', l) →
      Quiet s' ∧ rank s' t < rank s t ∧ ∀ u, u ≠ t → rank s' u = rank s u := by
  have M := main_reachable hbs h hk
  exact ⟨consume_enabled M hq hc, fun i s' l hs => consume_progress M hq hc (ustep_of_thread hs)⟩

/-- **The publisher's writes are fully visible.**  When `consume` hands the range `[b, b + m)` to
thread `t`, the publication (the callback's plain writes) of every slot of the range happens-before
`t`'s current point — along the release-fence → relaxed-store → relaxed-load → acquire-fence edges of
the source only — and the slot holds exactly the item written by its publisher. -/
theorem topic_publication {c : Cfg} (hbs : 0 < c.bs) {s : State} (h : Reach c s) (hk : s.clearing = false)
    {t b e m : Nat} (hp : s.pc t = .kRet b e m) (i : Nat) (hb : b ≤ i) (hm : i < b + m) :
    s.hb.seen t i = true ∧ s.filled i = true ∧ s.val i = s.item i := by
  have M := main_reachable hbs h hk
  have T := M.tinv t
  rw [hp] at T
  have hi : i < s.cur t := by rw [T.1]; exact hm
  have hc := M.cons t i hi
  exact ⟨hc.2, (M.pub i hc.1).1, (M.pub i hc.1).2.1⟩

/-- **After `clear()` the topic behaves like a new one**: the last step of `clear()` leads to an
initial state (`Init`: index 0, every futex word 0, nothing closed / claimed / filled, every consumer
gone; only the payload memory and the vector's capacity are kept — "后续publish可以复用这些对象").
Since every theorem above is proved from an arbitrary `Init` state, it holds verbatim for the cycle
after the `clear()`. -/
theorem topic_clear_eq_new {c : Cfg} (hbs : 0 < c.bs) {s s' : State} (h : Reach c s) {t : Nat} {i : Inp} {l : Act}
    (hp : s.pc t = .rNext) (hs : stepThread c s t i = some (s', l)) : Init s' := by
  have := clear_fresh hbs h hp
  unfold stepThread at hs
  rw [hp] at hs
  simp only [Option.some.injEq, Prod.mk.injEq] at hs
  rw [← hs.1]; exact this


/-! ### The two synchronisation cores over the release/acquire VIEW model (stale reads allowed)

Proofs in Babylon/Topic/View.lean over Babylon/Core/MemView.lean; `Ext` hypotheses stand for
"arbitrary steps of anybody in between".  Orders are the generated constants. -/
section ViewModel
open Babylon.Core.MemView Babylon.Topic.View
variable {L : Type} [DecidableEq L]

/-- **Item publication, view model.**  Publisher `p`: plain item write; `fence(ordPubFence)`;
`status.store(PUBLISHED, ordStatusStore)`.  Consumer `c`: loads that status message with
`ordIsPublished`; `fence(ordAcqFence)`; reads the item cell at any admissible timestamp `ts`.  In
every view-model execution the status read is PUBLISHED, the item read is not older than the
publisher's write (no stale item), and equals the published value when the cell was written once. -/
theorem topic_publication_view (m : Mem L) (p c : Nat) (li ls : L) (hne : li ≠ ls) (item : Nat) (o : Core.Ord)
    {m3 m4 m5 m7 m8 : Mem L} {s x ts : Nat}
    (hext : (((m.write p li .rlx item).fence p ordPubFence).write p ls ordStatusStore stPublished).Ext m3)
    (hst : m3.read c ls ordIsPublished (m.len ls) = some (m4, s))
    (hext2 : m4.Ext m5)
    (hext3 : (m5.fence c ordAcqFence).Ext m7)
    (hrd : m7.read c li o ts = some (m8, x)) :
    s = stPublished ∧ m.len li ≤ ts ∧ (m7.len li = m.len li + 1 → x = item) :=
  View.topic_publication_view m p c li ls hne item o hext hst hext2 hext3 hrd

/-- … also when the consumer's status load returns a later message of the word's release sequence
(the word is only modified by RMWs after the status store; `RelSeq` is established by
`View.topic_publication_relseq` and kept by `View.relseq_rmw` / `View.relseq_hist_eq`). -/
theorem topic_publication_view_seq (m : Mem L) (p c : Nat) (li ls : L) (item : Nat) (o : Core.Ord)
    {m3 m4 m5 m7 m8 : Mem L} {s x ts tsS : Nat}
    (R : RelSeq m3 ls (m.len ls) ((m.write p li .rlx item).tv p).cur) (htsS : m.len ls ≤ tsS)
    (hst : m3.read c ls ordIsPublished tsS = some (m4, s))
    (hext2 : m4.Ext m5)
    (hext3 : (m5.fence c ordAcqFence).Ext m7)
    (hrd : m7.read c li o ts = some (m8, x)) : m.len li ≤ ts :=
  View.topic_publication_view_seq m p c li ls item o R htsS hst hext2 hext3 hrd

/-- NEGATIVE CONTROL (publication): with the orders of the source a consumer that saw PUBLISHED cannot
read the stale item (`none` = not a behaviour); with a relaxed publish fence, or a relaxed consumer
fence, it can (`some 100` = status 1, item 0). -/
theorem topic_publication_view_needs_fences :
    mpRun ordPubFence ordAcqFence 1 0 = none ∧ mpRun ordPubFence ordAcqFence 1 1 = some 107 ∧
    mpRun .rlx ordAcqFence 1 0 = some 100 ∧ mpRun ordPubFence .rlx 1 0 = some 100 := by decide

/-- **`topic_wake_view`, waker's fence first**: the waker stores the status and executes its
`seq_cst` fence; a waiter that afterwards passes the full barrier of `futex_wait` cannot read, in the
kernel's value check, a status older than that store — it does not sleep on a stale INITIAL.
(Status half and waiter half of the futex word are two locations `st` / `wt` here.) -/
theorem topic_wake_view_waker_first (m : Mem L) (p c : Nat) (st : L) (sv : Nat) (o : Core.Ord)
    {m2 m3 m4 : Mem L} {ts v : Nat}
    (hext : ((m.write p st ordStatusStore sv).fence p ordPubScFence).Ext m2)
    (hext2 : (m2.fence c .sc).Ext m3)
    (hrd : m3.read c st o ts = some (m4, v)) : m.len st ≤ ts :=
  View.topic_wake_view_waker_first m p c st sv o hext hext2 hrd

/-- **`topic_wake_view`, waiter's barrier first**: the waiter sets the waiter bit (RMW,
`ordWaitCasSucc`) and passes the barrier of `futex_wait`; a waker that afterwards executes its
`seq_cst` fence and loads the waiter half (`ordWakeLoad`) cannot miss that RMW — it sees the waiter
bit and wakes.  One of the two fences is first in every execution: at least one side sees the other. -/
theorem topic_wake_view_waiter_first (m : Mem L) (p c : Nat) (wt : L) (f : Nat → Nat)
    {m1 m2 m3 m4 : Mem L} {old ts v : Nat}
    (hrmw : m.rmw c wt ordWaitCasSucc f = some (m1, old))
    (hext : (m1.fence c .sc).Ext m2)
    (hext2 : (m2.fence p ordPubScFence).Ext m3)
    (hrd : m3.read p wt ordWakeLoad ts = some (m4, v)) : m.len wt ≤ ts :=
  View.topic_wake_view_waiter_first m p c wt f hrmw hext hext2 hrd

/-- the waker-first statement for `close()` -/
theorem topic_wake_view_close (m : Mem L) (p c : Nat) (st : L) (o : Core.Ord)
    {m2 m3 m4 : Mem L} {ts v : Nat}
    (hext : ((m.write p st ordClosedStore stClosed).fence p ordCloseScFence).Ext m2)
    (hext2 : (m2.fence c .sc).Ext m3)
    (hrd : m3.read c st o ts = some (m4, v)) : m.len st ≤ ts :=
  View.topic_wake_view_close m p c st o hext hext2 hrd

/-- **`topic_wake_view` (exhaustive litmus form)**: waker `[status store; fence; load waiter half]`
against waiter `[RMW waiter half; futex barrier; load status]` from the initial memory: in none of the
interleavings of the view model do both sides read the other's initial message (= lost wake-up) —
for `publish_n`'s fence and for `close`'s. -/
theorem topic_wake_view : lostWakeup ordPubScFence .sc = false ∧ lostWakeup ordCloseScFence .sc = false := by
  decide

/-- NEGATIVE CONTROL (handshake): with the waker's `seq_cst` fence dropped or weakened to acq_rel the
wake-up can be lost, and the waiter's side needs the barrier of `futex_wait` too.  A source change
that weakens the fence changes `ordPubScFence`, and `topic_wake_view` above stops checking. -/
theorem topic_wake_view_needs_fence :
    lostWakeup .rlx .sc = true ∧ lostWakeup .acqrel .sc = true ∧ lostWakeup ordPubScFence .rlx = true := by
  decide

end ViewModel

/-! ### Non-vacuity: concrete executions with block size 2 (ranges straddle blocks) -/

/-- publisher 0 publishes a batch of 3 (two block pieces); consumer 1 started first and sleeps on slot 0,
is woken, takes 2 items; `close()`; consumer 1 asks for 2 more, gets 1 (short range = end marker);
then `clear()` runs up to its last step. -/
def demo1 : List Move :=
  [.subscribe 1, .consume 1 2,
   .act 1 false [], .act 1 false [], .act 1 false [],      -- is_closed, is_published, wait_until_ready load
   .act 1 false [], .act 1 false [],                       -- CAS sets the waiter bit, futex_wait sleeps
   .publish 0 3, .act 0 false [],                          -- fetch_add
   .act 0 false [70, 71]]                                  -- callback on the first piece [0, 2)

def demoSleep : List Move := demo1

def demo2 : List Move := demo1 ++
  [.act 0 false [], .act 0 false [], .act 0 false [], .act 0 false [],   -- release fence, 2 stores, seq_cst fence
   .act 0 false [], .act 0 false [], .act 0 false [],                    -- load (waiter bit seen), CAS, futex wake
   .act 0 false [],                                                      -- wakeup_waiters on slot 1 (no waiter)
   .act 0 false [72], .act 0 false [], .act 0 false [], .act 0 false [], .act 0 false [],  -- second piece [2, 3)
   .act 1 false [], .act 1 false [],                                     -- woken, reload
   .act 1 false [], .act 1 false [], .act 1 false [], .act 1 false [],   -- slots 0 and 1: is_closed, is_published
   .act 1 false []]                                                      -- acquire fence

example : ((run ⟨2⟩ 2 (State.fresh (fun _ => 0) 0 (fun _ => 0)) demo2).map
    (fun s => decide (s.pc 1 = .kRet 0 2 2 ∧ s.val 0 = 70 ∧ s.val 1 = 71 ∧ s.next = 3 ∧ s.cap = 4))) = some true := by
  decide

example : ∃ s, Reach ⟨2⟩ s ∧ s.clearing = false ∧ s.pc 1 = .kSleep 0 2 0 := by
  cases hs : run ⟨2⟩ 2 (State.fresh (fun _ => 0) 0 (fun _ => 0)) demoSleep with
  | none => exact absurd hs (by decide)
  | some s =>
    have hr : Reach ⟨2⟩ s := run_reachable demoSleep _ _ (Reachable.base ⟨_, _, _, rfl⟩) (fun _ _ => rfl) hs
    have : (run ⟨2⟩ 2 (State.fresh (fun _ => 0) 0 (fun _ => 0)) demoSleep).map
        (fun s => decide (s.clearing = false ∧ s.pc 1 = .kSleep 0 2 0)) = some true := by decide
    rw [hs] at this
    exact ⟨s, hr, by simpa using this⟩

example : ∃ s, Reach ⟨2⟩ s ∧ s.clearing = false ∧ s.pc 1 = .kRet 0 2 2 ∧ s.val 0 = 70 ∧ s.val 1 = 71 := by
  cases hs : run ⟨2⟩ 2 (State.fresh (fun _ => 0) 0 (fun _ => 0)) demo2 with
  | none => exact absurd hs (by decide)
  | some s =>
    have hr : Reach ⟨2⟩ s := run_reachable demo2 _ _ (Reachable.base ⟨_, _, _, rfl⟩) (fun _ _ => rfl) hs
    have : (run ⟨2⟩ 2 (State.fresh (fun _ => 0) 0 (fun _ => 0)) demo2).map
        (fun s => decide (s.clearing = false ∧ s.pc 1 = .kRet 0 2 2 ∧ s.val 0 = 70 ∧ s.val 1 = 71)) = some true := by decide
    rw [hs] at this
    exact ⟨s, hr, by simpa using this⟩

/-- … close, the short range, quiet state, clear up to its last step -/
def demo3 : List Move := demo2 ++
  [.ret 1, .close 0, .act 0 false [], .act 0 false [], .act 0 false [], .act 0 false [],   -- close: load, store, fence, load
   .consume 1 2,
   .act 1 false [], .act 1 false [],                 -- slot 2: is_closed, is_published
   .act 1 false [],                                  -- slot 3: is_closed sees CLOSED
   .act 1 false []]                                  -- acquire fence: returns 1 item < 2

example : ∃ s, Reach ⟨2⟩ s ∧ s.clearing = false ∧ Quiet s ∧ s.pc 1 = .kRet 2 4 1 ∧ s.val 2 = 72 ∧
    s.got 1 = [(0, 70), (1, 71)] := by
  cases hs : run ⟨2⟩ 2 (State.fresh (fun _ => 0) 0 (fun _ => 0)) demo3 with
  | none => exact absurd hs (by decide)
  | some s =>
    have hr : Reach ⟨2⟩ s := run_reachable demo3 _ _ (Reachable.base ⟨_, _, _, rfl⟩) (fun _ _ => rfl) hs
    have hb : Bounded 2 s := run_bounded demo3 _ _ (fun _ _ => rfl) hs
    have : (run ⟨2⟩ 2 (State.fresh (fun _ => 0) 0 (fun _ => 0)) demo3).map
        (fun s => decide (s.clearing = false ∧ s.closed = true ∧ s.pc 0 = .idle ∧ s.pc 1 = .kRet 2 4 1 ∧ s.val 2 = 72 ∧
          s.got 1 = [(0, 70), (1, 71)])) = some true := by decide
    rw [hs] at this
    simp only [Option.map_some, Option.some.injEq, decide_eq_true_eq] at this
    obtain ⟨h1, h2, h3, h4, h5, h6⟩ := this
    refine ⟨s, hr, h1, ⟨h2, fun u => ?_⟩, h4, h5, h6⟩
    by_cases h0 : u = 0
    · subst h0; rw [h3]; exact ⟨rfl, id⟩
    · by_cases h1' : u = 1
      · subst h1'; rw [h4]; exact ⟨rfl, id⟩
      · rw [hb u (by omega)]; exact ⟨rfl, id⟩

/-- … the consumer takes the range, `clear()` runs up to its last step (4 slots reset) -/
def demo4 : List Move := demo3 ++ [.ret 1, .clear 0, .act 0 false [], .act 0 false [], .act 0 false [], .act 0 false []]

example : ∃ s, Reach ⟨2⟩ s ∧ s.clearing = true ∧ s.pc 0 = .rNext ∧ s.next = 3 ∧
    s.got 1 = [(0, 70), (1, 71), (2, 72)] := by
  cases hs : run ⟨2⟩ 2 (State.fresh (fun _ => 0) 0 (fun _ => 0)) demo4 with
  | none => exact absurd hs (by decide)
  | some s =>
    have hr : Reach ⟨2⟩ s := run_reachable demo4 _ _ (Reachable.base ⟨_, _, _, rfl⟩) (fun _ _ => rfl) hs
    have : (run ⟨2⟩ 2 (State.fresh (fun _ => 0) 0 (fun _ => 0)) demo4).map
        (fun s => decide (s.clearing = true ∧ s.pc 0 = .rNext ∧ s.next = 3 ∧ s.got 1 = [(0, 70), (1, 71), (2, 72)])) = some true := by
      decide
    rw [hs] at this
    exact ⟨s, hr, by simpa using this⟩

end Babylon.Properties.C15
