/-
  Property C15 — transient topic: each subscriber sees every item once, in order, then the end.
  Property theorems only; helper lemmas in Babylon/Topic/Lemmas*.lean.
-/
import Babylon.Topic.Model

namespace Babylon.Properties.C15
open Babylon.Topic Babylon.Gen.Topic Babylon.Core

/-! ### Generated obligations: the source still is what the model was written against -/

/-- status encoding, waiter-bit arithmetic, block size of the slot vector, futex word layout -/
theorem gen_constants :
    stInitial = 0 ∧ stPublished = 1 ∧ stClosed = 2 ∧ statusBits = 16 ∧ waiterUnit = 2 ^ 16 ∧
    noWaiterMax = 2 ^ 16 - 1 ∧ blockSize = 128 ∧ sizeofFutex = 4 ∧ futexNeedCreate = 0 ∧
    valueOffset = 0 ∧ wakeAllTraceCount = 99 := by decide

/-- memory orders written in the source (the model's labels and its happens-before ghost use these
names, never literals) -/
theorem gen_orders :
    ordNextAdd = .rlx ∧ ordPubFence = .rel ∧ ordStatusStore = .rlx ∧ ordPubScFence = .sc ∧
    ordClosedStore = .rlx ∧ ordCloseLoad = .rlx ∧ ordCloseScFence = .sc ∧
    ordWakeLoad = .rlx ∧ ordWakeCasSucc = .rlx ∧ ordWakeCasFail = .rlx ∧
    ordIsClosed = .rlx ∧ ordIsPublished = .rlx ∧ ordWaitLoad = .rlx ∧ ordWaitCasSucc = .rlx ∧
    ordWaitCasFail = .rlx ∧ ordWaitReload = .rlx ∧ ordAcqFence = .acq ∧ ordReset = .rlx ∧
    ordClearNext = .rlx := by decide

theorem gen_skel_publish_n : skel_publish_n = Skel.publish_n := by decide
theorem gen_skel_publish_forward :
    skel_publish = Skel.forward ∧ skel_publish_n_fwd = Skel.forward ∧ skel_consume1 = Skel.consume1 := by decide
theorem gen_skel_close : skel_close = Skel.close := by decide
theorem gen_skel_clear : skel_clear = Skel.clear ∧ skel_reset = Skel.reset := by decide
theorem gen_skel_status :
    skel_set_published = Skel.set_status ∧ skel_set_closed = Skel.set_status ∧
    skel_is_published = Skel.get_status ∧ skel_is_closed = Skel.get_status := by decide
theorem gen_skel_wakeup :
    skel_wakeup_waiters = Skel.wakeup_waiters ∧ skel_wakeup_waiters_slow = Skel.wakeup_waiters_slow := by decide
theorem gen_skel_wait :
    skel_wait_until_ready = Skel.wait_until_ready ∧ skel_wait_until_ready_slow = Skel.wait_until_ready_slow := by decide
theorem gen_skel_consume : skel_consume = Skel.consume := by decide

end Babylon.Properties.C15
