/-
  Property C07 — executors: an accepted task runs exactly once, on a thread that reports itself as
  running in that executor, its future becomes ready; stop() / the destructor drain submitted work
  including tasks spawned into local queues; a failed submission never runs and yields an invalid
  future.  Property theorems only (the model is Babylon/Exec/Model.lean, helper lemmas and the
  inductive invariants live in Babylon/Exec/Inv*.lean).

  All theorems quantify over every reachable state of the ticket-level transition system `Step c`,
  i.e. over every interleaving of external submitters, workers (own queue, stealing, blocking global
  pop), the balance thread and `stop()`, every worker count, global / local capacity, stealing on or
  off, balance thread present or not, and every task program (tasks submit any number of children,
  from inside or outside a foreign executor scope).  What is assumed of the bounded queue below the
  tickets is stated as Q1–Q5 at the top of the model (properties C01/C02).
-/
import Babylon.Exec.InvAll
import Babylon.Exec.NoStuck
import Babylon.Exec.SimpleLemmas
import Babylon.Exec.SimpleOnce
import Babylon.Exec.View
import Babylon.Gen.Exec

namespace Babylon.Properties.C07
open Babylon.Exec Babylon.Core

/-! ## Generated obligations: the source the model was written against -/

theorem gen_queue_sizing :
    Gen.Exec.globalFactor = Babylon.Exec.globalFactor ∧ Gen.Exec.localFactor = Babylon.Exec.localFactor := by decide

/-- call-site flags of the queue operations (which side is concurrent, who waits on a futex, who wakes) -/
theorem gen_queue_flags :
    Gen.Exec.globalPushFlags = [true, false, true] ∧ Gen.Exec.stopPushFlags = [true, false, true] ∧
    Gen.Exec.wakeupPushFlags = [true, false, true] ∧ Gen.Exec.globalPopFlags = [true, true, false] ∧
    Gen.Exec.localPushFlags = [false, false, false] ∧ Gen.Exec.ownPopFlags = [true, false] ∧
    Gen.Exec.stealPopFlags = [true, false] ∧ Gen.Exec.balancePopFlags = [true, false] := by decide

set_option maxRecDepth 100000 in
/-- `stop()`: clear `_running`, join the balance thread, one STOP per worker, join the workers -/
theorem gen_stop_order :
    Gen.Exec.stmts_stop =
      ["if(!_running.load(::std::memory_order_acquire)){return;}",
       "_running.store(false,::std::memory_order_release);",
       "if(_balance_thread.joinable()){_balance_thread.join();}",
       "for(size_ti=0;i<_threads.size();++i){_global_task_queue.push<true,false,true>(Task{.type=TaskType::STOP,.function{}});}",
       "for(auto&thread:_threads){thread.join();}",
       "_threads.clear();"] ∧
    Gen.Exec.stmts_dtor = ["stop();"] := by decide

set_option maxRecDepth 100000 in
/-- the worker loop: own queue, then (optionally) the stealing scan, then the blocking global pop;
FUNCTION runs, STOP returns, WAKEUP loops -/
theorem gen_keep_execute :
    Gen.Exec.skel_keep_execute =
      [.call "local", .call "try_pop", .call "for_each", .call "try_pop", .call "pop", .call "task.function"] ∧
    Gen.Exec.dispatch =
      "caseTaskType::FUNCTION:{task.function();}break;caseTaskType::STOP:{return;}caseTaskType::WAKEUP:{}break;default:(static_cast<void>(0));" := by
  decide

set_option maxRecDepth 100000 in
/-- the stealing scan, the whole visitor: `for_each` calls it once per 128-entry block of the
thread-local storage, so it must return at once when an earlier block has already yielded a task;
inside a block it stops at the first success (model: `wSteal k` → `chk (steal k)` → run, never another
`try_pop` into the same `task`) -/
theorem gen_steal_scan :
    Gen.Exec.stealBlock =
      "_local_task_queues.for_each([&](TaskQueue*iter,TaskQueue*end){if(steal_success){return;}while(iter!=end){auto&queue=*iter++;steal_success=queue.try_pop<true,false>(task);if(steal_success){return;}}});" := by
  decide

set_option maxRecDepth 100000 in
/-- `enqueue_task`: local queue only on a thread running in the pool, with capacity > 0 and
`size() < capacity`; otherwise the global queue -/
theorem gen_enqueue_task :
    Gen.Exec.stmts_enqueue_task =
      ["if(is_running_in()){if(_local_capacity>0){auto&local_queue=_local_task_queues.local();if(local_queue.size()<_local_capacity){local_queue.push<false,false,false>(::std::move(task));return0;}}}",
       "_global_task_queue.push<true,false,true>(::std::move(task));",
       "return0;"] ∧
    Gen.Exec.skel_bq_size = [.load "_next_pop_index" .rlx, .load "_next_push_index" .rlx] := by decide

set_option maxRecDepth 100000 in
/-- the repaired balance thread pops into a local `Task` and forwards it afterwards (the slot of the
local queue is released before the possibly blocking global push) — pins the shape fixed by 4e1dfd6 -/
theorem gen_balance_forwards_after_pop :
    Gen.Exec.stmts_keep_balance =
      ["while(_running.load(::std::memory_order_acquire)){::std::this_thread::sleep_for(_balance_interval);_local_task_queues.for_each([&](TaskQueue*iter,TaskQueue*end){while(iter!=end){auto&queue=*iter++;Tasktask;while(queue.try_pop<true,false>(task)){enqueue_task(::std::move(task));}}});}"] := by
  decide

set_option maxRecDepth 100000 in
/-- index-level shape of the queue operations the ticket specification Q1–Q5 speaks about -/
theorem gen_queue_ticket_ops :
    Gen.Exec.skel_bq_try_deal =
      [.load "next_index" .rlx, .call "futex.version", .load "next_index" .rlx,
       .cas "next_index" false .rlx .rlx, .store "next_index" .rlx, .call "callback",
       .call "set_version_and_wakeup_waiters", .call "futex.set_version"] ∧
    Gen.Exec.skel_bq_push =
      [.rmw "fetch_add" "_next_push_index" .rlx, .load "_next_push_index" .rlx,
       .store "_next_push_index" .rlx, .call "deal"] ∧
    Gen.Exec.skel_bq_pop =
      [.rmw "fetch_add" "_next_pop_index" .rlx, .load "_next_pop_index" .rlx,
       .store "_next_pop_index" .rlx, .call "deal"] := by decide

set_option maxRecDepth 100000 in
/-- the front end's failure branch and the three `invoke`s -/
theorem gen_front_end :
    Gen.Exec.executeFailCond = "(__builtin_expect(false||(ret!=0),false))" ∧
    Gen.Exec.executeFailAction = "future=Future<R,F>();" ∧
    Gen.Exec.stmts_execute.drop 3 =
      ["autofuture=s.promise.get_future();", "MoveOnlyFunction<void(void)>function{::std::move(s)}",
       "autoret=invoke(::std::move(function));",
       "if((__builtin_expect(false||(ret!=0),false))){future=Future<R,F>();}", "returnfuture;"] ∧
    Gen.Exec.stmts_submit.drop 2 =
      ["MoveOnlyFunction<void(void)>function{::std::move(s)}", "returninvoke(::std::move(function));"] ∧
    Gen.Exec.stmts_basic_invoke = ["return-1;"] ∧
    Gen.Exec.stmts_inplace_invoke = ["RunnerScopescope{*this}", "function();", "return0;"] ∧
    Gen.Exec.skel_newthread_invoke =
      [.rmw "fetch_add" "_running" .acqrel, .call "::std::thread", .call "captured_function",
       .rmw "fetch_sub" "_running" .acqrel, .call "detach"] ∧
    Gen.Exec.skel_newthread_join = [.load "_running" .acq, .call "usleep"] ∧
    Gen.Exec.stmts_is_running_in = ["returnthis==current();"] := by decide

set_option maxRecDepth 100000 in
/-- the source of the always-new-thread executor, as modelled by `Simple.stepNewThread`: `invoke`
increments `_running`, creates ONE detached thread whose closure owns the function, enters a
`RunnerScope`, calls the function once and decrements `_running`, and returns 0; `join()` polls
`_running > 0`; the destructor is `join()` -/
theorem gen_src_newthread :
    Gen.Exec.stmts_newthread_invoke =
      ["_running.fetch_add(1,::std::memory_order_acq_rel);",
       "::std::thread([this,captured_function=::std::move(function)]{RunnerScopescope{*this};captured_function();_running.fetch_sub(1,::std::memory_order_acq_rel);}).detach();",
       "return0;"] ∧
    Gen.Exec.stmts_newthread_join = ["while(_running.load(::std::memory_order_acquire)>0){::usleep(1000);}"] ∧
    Gen.Exec.stmts_newthread_dtor = ["join();"] := by decide

/-! ## The thread pool -/

/-- where task `id` really is: an unreleased cell of the global or of a local queue, the hands of a
thread (carried towards a queue, about to run, running), or finished -/
def AtPlace (s : State) (id : Nat) : Loc → Prop
  | .gq i => s.g.itemAt i = some (.task id) ∧ s.g.stAt i ≠ some .free
  | .lq k i => (s.l k).itemAt i = some (.task id) ∧ (s.l k).stAt i ≠ some .free
  | .hand t => (s.pc t).carry = some id ∨ (s.pc t).exec = some id
  | .fin => s.done id = true
  | .nowhere => False

/-- **exec_task_conservation.**  In every reachable state every task that entered the executor is in
exactly one place; a task that did not enter is nowhere; its function has been entered at most once,
exactly once iff it is running or finished. -/
theorem exec_task_conservation (c : Cfg) (hc : c.WF) (s : State) (hr : Reach c s) (id : Nat) :
    (s.known id = true → ∃ p, AtPlace s id p ∧ ∀ q, AtPlace s id q → q = p) ∧
    (s.known id = false → ∀ q, ¬ AtPlace s id q) ∧
    s.runs id ≤ 1 ∧
    (s.runs id = 1 ↔ (s.done id = true ∨ ∃ t, (s.pc t).exec = some id ∧ s.pc t ≠ .wPre id)) := by
  obtain ⟨I, J, B, K, X, U, M, Z⟩ := Inv.reachable hc hr
  have huniq : ∀ q, AtPlace s id q → q = s.loc id := by
    intro q hq
    cases q with
    | nowhere => exact hq.elim
    | gq i => exact (K.b1 i id hq.1 hq.2).symm
    | lq k i => exact (K.b2 k i id hq.1 hq.2).symm
    | hand t =>
      rcases hq with h | h
      · exact (K.b3c t id h).symm
      · exact (K.b3e t id h).symm
    | fin => exact ((K.a4 id).mpr hq).symm
  have hat : s.known id = true → AtPlace s id (s.loc id) := by
    intro hk
    cases hl : s.loc id with
    | nowhere => rw [(K.a5 id).mp hl] at hk; cases hk
    | gq i => exact K.a1 id i hl
    | lq k i => exact K.a2 id k i hl
    | hand t => exact K.a3 id t hl
    | fin => exact (K.a4 id).mp hl
  refine ⟨fun hk => ⟨s.loc id, hat hk, huniq⟩, ?_, ?_, ?_⟩
  · intro hk q hq
    have h1 := huniq q hq
    have h2 := (K.a5 id).mpr hk
    rw [h2] at h1; subst h1; exact hq
  · cases hl : s.loc id with
    | nowhere => rw [U.u1 id hl]; omega
    | gq i => rw [U.u2 id i hl]; omega
    | lq k i => rw [U.u3 id k i hl]; omega
    | fin => rw [U.u4 id hl]; omega
    | hand t =>
      by_cases h : (s.pc t).exec = some id ∧ s.pc t ≠ .wPre id
      · rw [U.u5 id t hl h.1 h.2]; omega
      · have : (s.pc t).exec ≠ some id ∨ s.pc t = .wPre id := by
          by_cases h1 : (s.pc t).exec = some id
          · right; exact Classical.byContradiction (fun h2 => h ⟨h1, h2⟩)
          · left; exact h1
        rw [U.u6 id t hl this]; omega
  · constructor
    · intro h1
      cases hl : s.loc id with
      | nowhere => rw [U.u1 id hl] at h1; cases h1
      | gq i => rw [U.u2 id i hl] at h1; cases h1
      | lq k i => rw [U.u3 id k i hl] at h1; cases h1
      | fin => exact Or.inl ((K.a4 id).mp hl)
      | hand t =>
        right
        refine ⟨t, ?_⟩
        apply Classical.byContradiction
        intro hn
        have : (s.pc t).exec ≠ some id ∨ s.pc t = .wPre id := by
          by_cases h1' : (s.pc t).exec = some id
          · right; exact Classical.byContradiction (fun h2 => hn ⟨h1', h2⟩)
          · left; exact h1'
        rw [U.u6 id t hl this] at h1; cases h1
    · rintro (hd | ⟨t, hex, hne⟩)
      · exact U.u4 id ((K.a4 id).mpr hd)
      · exact U.u5 id t (K.b3e t id hex) hex hne

/-- **exec_worker_exit_clean.**  (a) From the moment a worker has found its own local queue empty
until it is back at the loop head — in particular while it scans for work to steal, waits on the
global queue, returns on a STOP, and for ever after it has returned — its own local queue holds no
unclaimed ticket.  (b) A worker returns only on a `STOP` it received from the global queue (the ticket
is recorded).  (c) Only the owner of a slot pushes into that slot's queue. -/
theorem exec_worker_exit_clean (c : Cfg) (hc : c.WF) (s : State) (hr : Reach c s) :
    (∀ w k, (s.pc w).afterEmpty = true → s.owner k = some w → (s.l k).cells.length ≤ (s.l k).popIdx) ∧
    (∀ w, w ∈ c.workers → s.pc w = .exited →
      ∃ j, s.exitTicket w = some j ∧ s.g.itemAt j = some .stop ∧ s.g.stAt j = some .free) ∧
    (∀ t k v s', step c s t (.stPush k v) = some s' → s.owner k = some t) := by
  obtain ⟨I, J, B, K, X, U, M, Z⟩ := Inv.reachable hc hr
  refine ⟨J.l7, ?_, ?_⟩
  · intro w hw hex
    have := M.e1 w (Or.inr ⟨hex, hw⟩)
    cases het : s.exitTicket w with
    | none => exact absurd het this.1
    | some j => exact ⟨j, rfl, this.2 j het⟩
  · intro t k v s' hst
    have hcase := step_cases hst
    cases hcase with
    | rLSt id cid p k' hpc hown hp =>
      exact I.o2 t _ hown (by rw [hpc]; rfl)

/-- **exec_stop_drains.**  When `stop()` (or the destructor) returns — and at any time afterwards —
every task whose submission had reported success before `stop()` was called, and every task that was
ever pushed into a local queue, has finished.  (A pool without workers runs nothing; tasks pushed
directly into the global queue after `stop()` began are outside the property.) -/
theorem exec_stop_drains (c : Cfg) (hc : c.WF) (hw : c.workers ≠ []) (s : State) (hr : Reach c s)
    (hret : s.stopReturned = true ∨ ∃ t, s.pc t = .sEnd) (id : Nat) (hk : s.known id = true)
    (hcov : s.preStop id = true ∨ s.viaLocal id = true) : s.done id = true := by
  obtain ⟨I, J, B, K, X, U, M, Z⟩ := Inv.reachable hc hr
  have hall : (∀ u, u ∈ c.workers → s.pc u = .exited) ∧ balExited c s := by
    rcases hret with h | ⟨t, h⟩
    · exact M.j3 h
    · exact M.j2 t h
  obtain ⟨hwx, hbx⟩ := hall
  -- every thread whose program counter belongs to a worker or to the balance thread has returned
  have hrole : ∀ t, (s.pc t).role = .worker ∨ (s.pc t).role = .bal → False := by
    intro t h
    rcases h with h | h
    · have := hwx t (I.r1 t h); rw [this] at h; simp [Pc.role] at h
    · have := hbx t (I.r2 t h); rw [this] at h; simp [Pc.role] at h
  cases hl : s.loc id with
  | nowhere => rw [(K.a5 id).mp hl] at hk; cases hk
  | fin => exact (K.a4 id).mp hl
  | hand t =>
    exfalso
    rcases K.a3 id t hl with hcar | hex
    · -- carried: by an external submitter (then neither accepted nor local) — workers and balancer are gone
      by_cases hb : (s.pc t).role = .bal
      · exact hrole t (Or.inr hb)
      · have := K.v2 t id hcar hb
        rcases hcov with h | h
        · have := K.f5 id h; simp_all
        · simp_all
    · -- executing: only workers execute
      have : (s.pc t).role = .worker := by
        have hwf := I.wf t
        revert hex hwf
        generalize s.pc t = p
        intro hex hwf
        exact exec_role c p hwf id hex
      exact hrole t (Or.inl this)
  | lq k i =>
    exfalso
    obtain ⟨hit, hst⟩ := K.a2 id k i hl
    -- the queue has an owner (it is non-empty), the owner has returned, so the queue is drained
    cases how : s.owner k with
    | none =>
      have := J.l3 k how
      simp [Q.itemAt, this] at hit
    | some w =>
      have hwm : w ∈ c.workers := I.o5 w k (I.o1 k w how)
      have hex := hwx w hwm
      have hdr := J.l7 w k (by rw [hex]; rfl) how
      obtain ⟨st, hst'⟩ := Q.itemAt_some_stAt _ _ _ hit
      have hlt := Q.stAt_some_lt _ _ _ hst'
      have hcell := Q.cell_of _ _ _ _ hit hst'
      have := (J.l1 k i _ hcell).mpr (by omega)
      simp at this
      rw [this] at hst'; exact hst hst'
  | gq i =>
    exfalso
    obtain ⟨hit, hst⟩ := K.a1 id i hl
    have hgt := K.t1 id i hl
    -- the first worker returned on a STOP with ticket j0; all pop tickets up to it have been served
    obtain ⟨w0, hw0⟩ : ∃ w0, w0 ∈ c.workers := by
      cases hws : c.workers with
      | nil => exact absurd hws hw
      | cons a _ => exact ⟨a, by simp⟩
    have he := M.e1 w0 (Or.inr ⟨hwx w0 hw0, hw0⟩)
    cases het : s.exitTicket w0 with
    | none => exact absurd het he.1
    | some j0 =>
      obtain ⟨hj0s, hj0f⟩ := he.2 j0 het
      obtain ⟨hfm, hfmle⟩ := M.m2 j0 hj0s
      cases hf : s.firstMarker with
      | none => exact absurd hf hfm
      | some jf =>
        have h1 : i < jf := M.m3 id i jf hcov hgt hf
        have h2 : jf ≤ j0 := hfmle jf hf
        -- cell j0 is free, hence below the pop index
        have hj0lt : j0 < s.g.popIdx := by
          apply Nat.lt_of_not_le
          intro hle
          obtain ⟨st, hst'⟩ := Q.itemAt_some_stAt _ _ _ hj0s
          have hcell := Q.cell_of _ _ _ _ hj0s hj0f
          exact J.g0 j0 _ hcell hle rfl
        -- so ticket i has been handed out; nobody waits any more, hence its cell is free
        rcases J.g1 i (by omega) with hfree | ⟨w, hw'⟩
        · exact hst hfree
        · have : (s.pc w).role = .worker := by rw [hw']; rfl
          exact hrole w (Or.inl this)

/-- **exec_runs_inside.**  (a) A task's function is entered only on a thread of the pool, inside
`keep_execute`'s `RunnerScope` and outside any foreign scope, i.e. where `is_running_in()` is true.
(b) A failed submission leaves no entry: the task never runs, never finishes, its future is invalid.
(c) An accepted task that has finished has a valid, ready future.  (d) A submission takes the local
path only on a thread running in the pool (`inp` is what `is_running_in()` returns). -/
theorem exec_runs_inside (c : Cfg) (hc : c.WF) (s : State) (hr : Reach c s) :
    (∀ t id inp s', step c s t (.run id inp) = some s' → inp = true ∧ t ∈ c.workers ∧ s.scope t = 0) ∧
    (∀ id, s.rejected id = true →
      s.known id = false ∧ s.runs id = 0 ∧ s.done id = false ∧ s.futValid id = false ∧ s.accepted id = false) ∧
    (∀ id, s.accepted id = true → s.done id = true → s.futValid id = true ∧ s.futReady id = true) ∧
    (∀ t id inp s', step c s t (.submit id inp) = some s' →
      (inp = true ↔ ((s.pc t).role = .worker ∧ s.scope t = 0))) := by
  obtain ⟨I, J, B, K, X, U, M, Z⟩ := Inv.reachable hc hr
  refine ⟨?_, ?_, ?_, ?_⟩
  · intro t id inp s' hst
    have hcase := step_cases hst
    cases hcase with
    | wRunTask id hpc hscope => exact ⟨rfl, I.r1 t (by rw [hpc]; rfl), hscope⟩
  · intro id hrej
    have hk := K.f1 id hrej
    have hl := (K.a5 id).mpr hk
    refine ⟨hk, U.u1 id hl, ?_, ?_, ?_⟩
    · cases hd : s.done id with
      | false => rfl
      | true => have := (K.a4 id).mpr hd; rw [hl] at this; cases this
    · cases hv : s.futValid id with
      | false => rfl
      | true => have := (K.f2 id (K.f4 id hv)).1; rw [hk] at this; cases this
    · cases ha : s.accepted id with
      | false => rfl
      | true => have := (K.f2 id ha).1; rw [hk] at this; cases this
  · intro id ha hd
    exact ⟨(K.f2 id ha).2, K.f3 id hd⟩
  · intro t id inp s' hst
    have hcase := step_cases hst
    cases hcase with
    | submitExt id hpc hk hrj =>
      constructor
      · intro h; cases h
      · intro h; rw [hpc] at h; simp [Pc.role] at h
    | submitIn id0 cid hpc hk hrj =>
      constructor
      · intro h; exact ⟨by rw [hpc]; rfl, by simpa using h⟩
      · intro h; simpa using h.2

/-- **exec_local_push_never_blocks** (part of `exec_no_stuck`).  With the repaired balance thread the
push into a local queue never waits for a slot: whenever a worker holds a local push ticket, the
completion of that push is enabled.  (Before the repair the balance thread could keep the slot of
ticket `p - slots` occupied while blocked on the full global queue; corpus case `hold 177`.) -/
theorem exec_local_push_never_blocks (c : Cfg) (hc : c.WF) (s : State) (hr : Reach c s)
    (w id cid p : Nat) (hpc : s.pc w = .rLPub id cid p) : ∃ s', step c s w .publish = some s' := by
  obtain ⟨I, J, B, K, X, U, M, Z⟩ := Inv.reachable hc hr
  have hrole : (s.pc w).role = .worker := by rw [hpc]; rfl
  have hne : s.pc w ≠ .wInit := by rw [hpc]; simp
  cases hown : s.own w with
  | none => exact absurd hown (I.o4 w hrole hne)
  | some k =>
    have hcell := J.l5 w id cid p k hpc hown
    have hst : (s.l k).stAt p = some .reserved := by simp [Q.stAt, hcell]
    have hb := Z.s4 w id cid p k hpc hown
    have hL := L_le_lslots c
    have hfree : (s.l k).slotFree c.lslots p = true := by
      rw [Q.slotFree_iff]
      by_cases hp : p < c.lslots
      · exact Or.inl hp
      · right
        have hlt : p - c.lslots < (s.l k).popIdx := by omega
        have hlen : p - c.lslots < (s.l k).cells.length := Nat.lt_of_lt_of_le hlt (J.l0 k)
        have hget : (s.l k).cells[p - c.lslots]? = some ((s.l k).cells[p - c.lslots]) := by simp [hlen]
        have := (J.l1 k _ _ hget).mpr hlt
        simp [Q.stAt, hget, this]
    have : (step c s w .publish).isSome = true := by simp [step, hpc, hown, hfree, hst]
    exact Option.isSome_iff_exists.mp this

/-- **exec_wait_for.**  Who waits for whom, in every reachable state: a blocked global pop with
ticket `i` waits for a push that either nobody has started (`i` beyond the push tickets handed out)
or that is held by a thread; a blocked global push with ticket `p` waits for pop ticket `p - slots`,
which is either not handed out yet or held by a worker that is itself waiting; a local push never
blocks (`exec_local_push_never_blocks`); `stop()` pushes its markers only after the balance thread has
returned.  (Building block of `exec_no_stuck`, kept because the replay driver's stall classification
`stallByDesign` in lean/Drivers/C07.lean is phrased in these terms.) -/
theorem exec_wait_for (c : Cfg) (hc : c.WF) (s : State) (hr : Reach c s) :
    (∀ w i, s.pc w = .wGWait i → i < s.g.popIdx ∧
      (s.g.ready i = true ∨ s.g.cells.length ≤ i ∨ s.g.stAt i = some .reserved)) ∧
    (∀ t p k, s.pc t = .gPub p k → s.g.stAt p = some .reserved ∧
      (s.g.slotFree c.gslots p = true ∨ s.g.popIdx ≤ p - c.gslots ∨ ∃ w, s.pc w = .wGWait (p - c.gslots))) ∧
    (∀ t, (s.pc t).pastB = true → balExited c s) := by
  obtain ⟨I, J, B, K, X, U, M, Z⟩ := Inv.reachable hc hr
  refine ⟨?_, ?_, M.m7⟩
  · intro w i hpc
    refine ⟨J.g2 w i hpc, ?_⟩
    cases hst : s.g.stAt i with
    | none => right; left; exact (Q.stAt_none_iff _ _).mp hst
    | some st =>
      cases st with
      | reserved => right; right; rfl
      | full => left; exact (Q.ready_iff _ _).mpr hst
      | free =>
        exact absurd hst (B.g5 w i hpc)
  · intro t p k hpc
    refine ⟨J.g3 t p k hpc, ?_⟩
    by_cases hf : s.g.slotFree c.gslots p = true
    · exact Or.inl hf
    · right
      by_cases hle : s.g.popIdx ≤ p - c.gslots
      · exact Or.inl hle
      · right
        rcases J.g1 (p - c.gslots) (by omega) with h | h
        · exfalso; apply hf; rw [Q.slotFree_iff]; exact Or.inr h
        · exact h

/-- **exec_no_stuck** (repaired balance thread, 4e1dfd6).  While `stop()` is in progress — some thread
is between the entry of `stop()` and its return — no reachable state of a pool with at least one worker
has all threads blocked, except by design: either some thread that is inside the pool's code (not an
outside thread between calls, not a finished thread) has an enabled step, or there is a live worker and
every live worker is blocked, from inside a task, pushing a child into the full global queue
(`ByDesign`; the documented way to wedge a bounded pool, reached e.g. by one worker whose task submits
more children than the global queue holds).  In particular `stop()` never waits for a worker that waits
on an empty global queue, the balance thread never holds anything a worker waits for, and a worker never
waits for a slot of its local queue.  The proof (Babylon/Exec/NoStuck.lean) classifies the four
blocking program counters, shows by well-founded descent along `p ↦ p - slots` that a blocked push and
a blocked pop cannot coexist when nothing moves, and counts STOP markers (pushed = one per worker,
received = workers that have left the loop) to rule out a worker starving while `stop()` joins it. -/
theorem exec_no_stuck (c : Cfg) (hc : c.WF) (hw : c.workers ≠ []) (s : State) (hr : Reach c s)
    (T : Nat) (hT : (s.pc T).role = .stopper) :
    (∃ t, s.pc t ≠ .idle ∧ s.pc t ≠ .exited ∧ Enabled c s t) ∨ ByDesign c s := by
  obtain ⟨A, K, N⟩ := Inv7.reachable hc hr
  exact no_stuck_inv hc hw A K N T hT

/-! ## Non-vacuity: concrete reachable states satisfying the hypotheses -/

/-- one worker, no local queue, no balance thread -/
def demoCfg : Cfg := { L := 0, G := 1, steal := false, workers := [1], bal := none }

/-- an external thread submits task 0, the worker runs it, then `stop()` -/
def demoRun : List (Nat × Lbl) :=
  [(0, .submit 0 false), (0, .gPushTk 0), (0, .publish), (0, .accept 0),
   (1, .ldPop 0 0), (1, .ldPop 0 0), (1, .gPopTk 0), (1, .receive), (1, .run 0 true), (1, .done 0),
   (1, .ldPop 0 0), (1, .ldPop 0 0), (1, .gPopTk 1),
   (0, .stopBegin), (0, .ldRun true), (0, .stRun), (0, .gPushTk 1), (0, .publish),
   (1, .receive), (1, .exit), (0, .join 1), (0, .stopEnd)]

/-- one worker with local capacity 2, stealing on, a balance thread; task 0 spawns task 1 into the
local queue (after `stop()` has begun), the worker pops it from there -/
def demoCfg2 : Cfg := { L := 2, G := 1, steal := true, workers := [1], bal := some 2 }

def demoRun2 : List (Nat × Lbl) :=
  [(0, .submit 0 false), (0, .gPushTk 0), (0, .publish), (0, .accept 0),
   (1, .ldPop 0 0), (1, .ldPop 0 0), (1, .ldPop 0 0), (1, .ldPop 0 0), (1, .gPopTk 0), (1, .receive),
   (1, .run 0 true),
   (0, .stopBegin), (0, .ldRun true), (0, .stRun),
   (2, .ldRun false), (2, .exit), (0, .join 2), (0, .gPushTk 1),
   (1, .submit 1 true), (1, .ldPop 0 0), (1, .ldPush 0 0), (1, .ldPush 0 0), (1, .stPush 0 1), (1, .publish),
   (1, .accept 1), (1, .done 0),
   (1, .ldPop 0 0), (1, .casPop 0 0 true 0), (1, .run 1 true), (1, .done 1),
   (1, .ldPop 0 1), (1, .ldPop 0 1), (1, .ldPop 0 1), (1, .ldPop 0 1), (1, .gPopTk 1),
   (0, .publish), (1, .receive), (1, .exit), (0, .join 1), (0, .stopEnd)]

theorem demo_wf : demoCfg.WF ∧ demoCfg2.WF := by
  constructor <;> (constructor <;> simp [demoCfg, demoCfg2])

/-- the hypotheses of `exec_stop_drains` are satisfiable (and its conclusion is what happens): a task
accepted before `stop()`, and a task pushed into a local queue while `stop()` was in progress -/
example : ∃ s, Reach demoCfg s ∧ s.stopReturned = true ∧ s.known 0 = true ∧ s.preStop 0 = true ∧
    s.done 0 = true ∧ s.runs 0 = 1 ∧ s.futReady 0 = true := by
  have h : (runTrace demoCfg (State.init demoCfg) demoRun).map
      (fun s => s.stopReturned && s.known 0 && s.preStop 0 && s.done 0 && (s.runs 0 == 1) && s.futReady 0) = some true := by
    decide
  cases hs : runTrace demoCfg (State.init demoCfg) demoRun with
  | none => rw [hs] at h; cases h
  | some s =>
    rw [hs] at h
    simp only [Option.map_some, Option.some.injEq, Bool.and_eq_true, beq_iff_eq] at h
    exact ⟨s, reach_runTrace demoRun (Reachable.base rfl) hs, h.1.1.1.1.1, h.1.1.1.1.2, h.1.1.1.2, h.1.1.2, h.1.2, h.2⟩

example : ∃ s, Reach demoCfg2 s ∧ s.stopReturned = true ∧ s.known 1 = true ∧ s.viaLocal 1 = true ∧
    s.preStop 1 = false ∧ s.done 1 = true ∧ s.runs 1 = 1 := by
  have h : (runTrace demoCfg2 (State.init demoCfg2) demoRun2).map
      (fun s => s.stopReturned && s.known 1 && s.viaLocal 1 && !s.preStop 1 && s.done 1 && (s.runs 1 == 1)) = some true := by
    decide
  cases hs : runTrace demoCfg2 (State.init demoCfg2) demoRun2 with
  | none => rw [hs] at h; cases h
  | some s =>
    rw [hs] at h
    simp only [Option.map_some, Option.some.injEq, Bool.and_eq_true, beq_iff_eq, Bool.not_eq_true'] at h
    exact ⟨s, reach_runTrace demoRun2 (Reachable.base rfl) hs, h.1.1.1.1.1, h.1.1.1.1.2, h.1.1.1.2, h.1.1.2, h.1.2, h.2⟩

/-- task 0 submits three children into the global queue (2 slots, nobody pops) while `stop()` begins:
the only worker is blocked on the third push, `stop()` on its marker behind it -/
def demoRun3 : List (Nat × Lbl) :=
  [(0, .submit 0 false), (0, .gPushTk 0), (0, .publish), (0, .accept 0),
   (1, .ldPop 0 0), (1, .ldPop 0 0), (1, .gPopTk 0), (1, .receive), (1, .run 0 true),
   (1, .submit 1 true), (1, .gPushTk 1), (1, .publish), (1, .accept 1),
   (1, .submit 2 true), (1, .gPushTk 2), (1, .publish), (1, .accept 2),
   (1, .submit 3 true), (1, .gPushTk 3),
   (0, .stopBegin), (0, .ldRun true), (0, .stRun), (0, .gPushTk 4)]

/-- the hypotheses of `exec_no_stuck` are satisfiable and its second disjunct is needed: a reachable
state with `stop()` in progress that is wedged by design -/
example : ∃ s, Reach demoCfg s ∧ (s.pc 0).role = .stopper ∧ ByDesign demoCfg s := by
  have h : (runTrace demoCfg (State.init demoCfg) demoRun3).map
      (fun s => decide ((s.pc 0).role = .stopper) && decide (s.pc 1 = .gPub 3 (.rRet 0 3)) &&
        !(s.g.slotFree demoCfg.gslots 3)) = some true := by
    decide
  cases hs : runTrace demoCfg (State.init demoCfg) demoRun3 with
  | none => rw [hs] at h; cases h
  | some s =>
    rw [hs] at h
    simp only [Option.map_some, Option.some.injEq, Bool.and_eq_true, decide_eq_true_eq, Bool.not_eq_true'] at h
    obtain ⟨⟨h1, h2⟩, h3⟩ := h
    refine ⟨s, reach_runTrace demoRun3 (Reachable.base rfl) hs, h1, ⟨1, by simp [demoCfg], by rw [h2]; simp⟩, ?_⟩
    intro w hw _
    simp [demoCfg] at hw; subst hw
    exact ⟨3, 0, 3, h2, h3⟩

/-! ## The two small executors -/

/-- **inplace executor**: when `execute`/`submit` returns success the task has run exactly once, to
completion, on the calling thread, inside the call; an accepted task ran exactly once; a rejected
submission (base `Executor`, `invoke` = -1) never ran -/
theorem exec_inplace (s : Simple.State) (hr : Simple.ReachI s) :
    (∀ t id s', Simple.stepInplace s t (.accept id) = some s' →
      s.done id = true ∧ s.runs id = 1 ∧ s.ranOn id = some t) ∧
    (∀ id, s.accepted id = true → s.runs id = 1 ∧ s.done id = true) ∧
    (∀ id, s.rejected id = true → s.runs id = 0 ∧ s.done id = false ∧ s.accepted id = false) :=
  ⟨fun t id _ h => Simple.inplace_accept_inside hr t id h,
   fun id => (Simple.inplace_exactly_once hr id).1, fun id => (Simple.inplace_exactly_once hr id).2⟩

/-- **exec_newthread** (always-new-thread executor, all task counts and interleavings of
`Simple.stepNewThread`: any number of submitting threads, tasks submitting further tasks, `join()`
at any time).
1. No task function is entered more than once.
2. An accepted task either has its own thread created and waiting to start (`id ∈ spawned`, not run
   yet) or has been entered exactly once; a finished task was entered exactly once and its future is
   ready (the closure handed to `invoke` fulfils the promise right after the function returns —
   `gen_front_end` pins that closure, `futReady` is set with `done`).
3. The thread a task ran on is the thread created for it by the `invoke` that accepted it, and that is
   not the submitting thread.
4. When `join()` — hence the destructor, which is `join()` (`gen_src_newthread`) — has returned, every
   task accepted before `join()` was called has run exactly once, has finished and its future is ready.
5. A rejected submission never ran, was never accepted and never finished. -/
theorem exec_newthread (s : Simple.State) (hr : Simple.ReachN s) (id : Nat) :
    s.runs id ≤ 1 ∧
    (s.accepted id = true → (s.runs id = 0 ∧ id ∈ s.spawned) ∨ s.runs id = 1) ∧
    (s.done id = true → s.runs id = 1 ∧ s.futReady id = true) ∧
    (∀ u, s.ranOn id = some u → s.bornFor u = some id ∧ s.subBy id ≠ none ∧ s.subBy id ≠ some u) ∧
    (s.joinReturned = true → s.preJoin id = true → s.done id = true ∧ s.runs id = 1 ∧ s.futReady id = true) ∧
    (s.rejected id = true → s.runs id = 0 ∧ s.accepted id = false ∧ s.done id = false) := by
  obtain ⟨N, X⟩ := Simple.InvX.reachable hr
  refine ⟨X.x5 id, ?_, ?_, ?_, ?_, (Simple.newthread_join_drains hr id).2⟩
  · intro h
    rcases X.x6a id h with h1 | h1
    · exact Or.inl ⟨X.x4 id h1, h1⟩
    · exact Or.inr h1
  · intro h; exact ⟨X.x7d id h, by rw [X.x8 id]; exact h⟩
  · intro u h
    have hb := X.b3 id u h
    exact ⟨hb, (X.b1 u id hb).2.1, (X.b1 u id hb).2.2⟩
  · intro h1 h2
    have hd := N.n7r h1 id h2
    exact ⟨hd, X.x7d id hd, by rw [X.x8 id]; exact hd⟩

/-- a task spawning a child, both on their own threads, `join()` afterwards: the hypotheses of
`exec_newthread` are satisfiable -/
def demoRunN : List (Nat × Simple.Ev) :=
  [(0, .submit 0), (0, .inc 0), (0, .spawn 1), (0, .accept 0), (1, .run 0 true),
   (1, .submit 1), (1, .inc 1), (1, .spawn 2), (1, .accept 1), (1, .done 0), (1, .dec 2), (1, .exit),
   (0, .joinBegin), (0, .ldCnt 1), (2, .run 1 true), (2, .done 1), (2, .dec 1), (0, .ldCnt 0), (0, .joinEnd)]

def runN : Simple.State → List (Nat × Simple.Ev) → Option Simple.State
  | s, [] => some s
  | s, (t, e) :: rest =>
    match Simple.stepNewThread s t e with
    | some s' => runN s' rest
    | none => none

theorem reach_runN {s s' : Simple.State} (tr : List (Nat × Simple.Ev)) (hr : Simple.ReachN s)
    (h : runN s tr = some s') : Simple.ReachN s' := by
  induction tr generalizing s with
  | nil => simp only [runN, Option.some.injEq] at h; subst h; exact hr
  | cons x rest ih =>
    obtain ⟨t, e⟩ := x
    simp only [runN] at h
    split at h
    · rename_i s1 hs1
      exact ih (Reachable.tail hr ⟨t, e, hs1⟩) h
    · cases h

example : ∃ s, Simple.ReachN s ∧ s.joinReturned = true ∧ s.preJoin 0 = true ∧ s.accepted 1 = true ∧
    s.ranOn 0 = some 1 ∧ s.ranOn 1 = some 2 ∧ s.subBy 1 = some 1 := by
  have h : (runN Simple.State.init demoRunN).map
      (fun s => s.joinReturned && s.preJoin 0 && s.accepted 1 && decide (s.ranOn 0 = some 1) && decide (s.ranOn 1 = some 2) &&
        decide (s.subBy 1 = some 1)) = some true := by decide
  cases hs : runN Simple.State.init demoRunN with
  | none => rw [hs] at h; cases h
  | some s =>
    rw [hs] at h
    simp only [Option.map_some, Option.some.injEq, Bool.and_eq_true, decide_eq_true_eq] at h
    exact ⟨s, reach_runN demoRunN (Reachable.base rfl) hs, h.1.1.1.1.1, h.1.1.1.1.2, h.1.1.1.2, h.1.1.2, h.1.2, h.2⟩

/-! ## View level: what the queue slot and the promise hand over (release/acquire view model) -/

open Babylon.Core.MemView in
/-- **exec_task_view.**  The submitter writes the task's state, then its push completes with a releasing
store on the slot word (`oPush.releases`); the worker's pop acquire-loads that message (`oPop.acquires`)
and runs the task: in every execution of the view model — any actions of any threads in between
(`Mem.Ext`), any admissible stale message — every read of the task state by the running task returns
the submitter's message or a later one.  (`Exec.View.exec_task_view_rmw`: the same for a push completed
by a releasing RMW; `Exec.View.task_controls`: with a relaxed push or pop the stale read IS admissible.) -/
theorem exec_task_view (m : Mem Exec.View.Loc) (sub wrk k : Nat) (oPush oPop od oD : Core.Ord) (v x : Nat)
    {m1 m2 m3 m4 m5 : Mem Exec.View.Loc} {x' v' ts : Nat}
    (hpush : oPush.releases = true) (hpop : oPop.acquires = true)
    (hstate : (m.write sub (.state k) od v).Ext m1)
    (hpushed : (m1.write sub .slot oPush x).Ext m2)
    (hpopped : m2.read wrk .slot oPop (m1.len .slot) = some (m3, x'))
    (hrun : m3.Ext m4)
    (hread : m4.read wrk (.state k) oD ts = some (m5, v')) :
    m.len (.state k) ≤ ts :=
  Exec.View.exec_task_view m sub wrk k oPush oPop od oD v x hpush hpop hstate hpushed hpopped hrun hread

open Babylon.Core.MemView in
/-- **exec_result_view.**  The task writes its result, the promise publishes with its releasing exchange
on the future's state word (the generated `ordFutexXchg` of C08; `Exec.View.future_ords_ok` also covers
`ordSeal`), the thread returning from `future.get()` has acquire-loaded that message (`ordGetLoad`):
every later read of the result by that thread returns the task's write or a later one
(`Exec.View.exec_result_view` for arbitrary orders with `.releases` / `.acquires` hypotheses,
`Exec.View.result_controls` for the negative controls). -/
theorem exec_result_view (m : Mem Exec.View.Loc) (wrk getter k : Nat) (od oD : Core.Ord) (v : Nat) (f : Nat → Nat)
    {m1 m2 m2' m3 m4 m5 : Mem Exec.View.Loc} {old x' v' ts : Nat}
    (hres : (m.write wrk (.result k) od v).Ext m1)
    (hpub : m1.rmw wrk .fut Gen.Future.ordFutexXchg f = some (m2', old)) (hthen : m2'.Ext m2)
    (hgot : m2.read getter .fut Gen.Future.ordGetLoad (m1.len .fut) = some (m3, x'))
    (hafter : m3.Ext m4)
    (hread : m4.read getter (.result k) oD ts = some (m5, v')) :
    m.len (.result k) ≤ ts :=
  Exec.View.exec_result_view_code m wrk getter k od oD v f hres hpub hthen hgot hafter hread

end Babylon.Properties.C07
