/-
  Property C07 — executors: an accepted task runs exactly once, on a thread that reports itself as
  running in that executor, its future becomes ready; stop() / the destructor drain submitted work
  including tasks spawned into local queues; a failed submission never runs and yields an invalid
  future.  Property theorems only (helper lemmas live next to the model, Babylon/Exec/Lemmas*.lean).
-/
import Babylon.Exec.Model
import Babylon.Exec.Simple

namespace Babylon.Properties.C07
open Babylon.Exec Babylon.Core

/-! ## Generated obligations: the source the model was written against -/

theorem gen_queue_sizing : Gen.Exec.globalFactor = 2 ∧ Gen.Exec.localFactor = 2 := by decide

end Babylon.Properties.C07
