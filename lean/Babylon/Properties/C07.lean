/-
  Property C07 — property theorems only (helper lemmas live next to the model).
  Stub: nothing claimed yet.
-/
namespace Babylon.Properties.C07
end Babylon.Properties.C07
