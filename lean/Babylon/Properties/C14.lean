/-
  Property C14 — id allocator / deposit box: live ids unique, one taker wins, stale ids never
  match.  Property theorems only; helper lemmas in Babylon/IdAlloc/Lemmas*.lean.
-/
import Babylon.IdAlloc.Model

namespace Babylon.Properties.C14
open Babylon.IdAlloc Babylon.Gen.IdAlloc Babylon.Core

/-- Generated obligations: the source's atomic skeletons (operations, order of operations,
memory orders) are the ones the model was written against. -/
theorem gen_skel_allocate : skel_allocate = Skel.allocate := by decide
theorem gen_skel_deallocate : skel_deallocate = Skel.deallocate := by decide
/-- pop keeps the version, push bumps it by one, the taker's CAS goes to version + 1;
sentinels are the two largest values of the id type. -/
theorem gen_constants :
    popVersionBump = 0 ∧ pushVersionBump = 1 ∧ takeVersionBump = 1 ∧
    tail16 = 2 ^ 16 - 1 ∧ active16 = 2 ^ 16 - 2 ∧ tail32 = 2 ^ 32 - 1 ∧ active32 = 2 ^ 32 - 2 ∧
    sizeofVV16 = 4 ∧ sizeofVV32 = 8 ∧ valueOffset = 0 := by decide

end Babylon.Properties.C14
