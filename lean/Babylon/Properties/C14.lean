/-
  Property C14 — property theorems only (helper lemmas live next to the model).
  Stub: nothing claimed yet.
-/
namespace Babylon.Properties.C14
end Babylon.Properties.C14
