/-
  Property C14 — id allocator / deposit box: live ids unique, one taker wins, stale ids never
  match.  Property theorems only; helper lemmas in Babylon/IdAlloc/Lemmas*.lean.

  The transition system is `Babylon.IdAlloc.Step` (one step = one atomic operation of the real
  code, any thread, any interleaving, any number of threads, any call history respecting the client
  contract "only the holder of an id deallocates it, once").  The positive theorems quantify over
  `ReachGood c`: executions all of whose states satisfy
    * `NoWrap c`: a thread sitting at the CAS of `allocate` read the head fewer than `2^W` pushes ago;
    * `Cap c`:    at most `2^W - 2` ids were minted (ids stay below ACTIVE_FLAG / FREE_LIST_TAIL).
  `ida_wrap_counterexample` shows NoWrap cannot be dropped (with Cap still satisfied).

  Per-thread ids (`ThreadId`): a thread's id is `allocate()` at its first use and `deallocate(own id)`
  in its thread-local destructor on `IdAllocator<uint16_t>`, i.e. the special case `W = 16`, every
  model thread calling `alloc` at most once and `dealloc` on its own result; thread birth/death
  orders are call histories of `Step`, so the theorems below apply verbatim (the harness mode
  `threadid` checks the same statements on real thread creation and exit).
-/
import Babylon.IdAlloc.LemmasUse
import Babylon.IdAlloc.Sched
import Babylon.IdAlloc.Pinned
import Babylon.IdAlloc.View
import Babylon.IdAlloc.BoxLemmas
import Babylon.IdAlloc.BoxSched

namespace Babylon.Properties.C14
open Babylon.IdAlloc Babylon.Gen.IdAlloc Babylon.Core

/-- Generated obligations: the source's atomic skeletons (operations, order of operations,
memory orders) are the ones the model was written against. -/
theorem gen_skel_allocate : skel_allocate = Skel.allocate := by decide
theorem gen_skel_deallocate : skel_deallocate = Skel.deallocate := by decide
/-- pop keeps the version, push bumps it by one, the taker's CAS goes to version + 1;
sentinels are the two largest values of the id type. -/
theorem gen_constants :
    popVersionBump = 0 ∧ pushVersionBump = 1 ∧ takeVersionBump = 1 ∧
    tail16 = 2 ^ 16 - 1 ∧ active16 = 2 ^ 16 - 2 ∧ tail32 = 2 ^ 32 - 1 ∧ active32 = 2 ^ 32 - 2 ∧
    sizeofVV16 = 4 ∧ sizeofVV32 = 8 ∧ valueOffset = 0 := by decide
theorem gen_skel_box :
    skel_box_emplace = Skel.boxEmplace ∧ skel_box_take_released = Skel.boxTake ∧
    skel_box_finish_released = Skel.boxFinish := by decide

/-- source text of IdAllocator: allocate (which head the returned id is taken from), deallocate, end, for_each (types of the scan bounds), accessors, class layout -/
theorem gen_src_alloc :
    src_allocate = Skel.Pinned.allocate ∧
    src_deallocate = Skel.Pinned.deallocate ∧
    src_end = Skel.Pinned.endFn ∧
    src_for_each = Skel.Pinned.for_each ∧
    src_next_value = Skel.Pinned.next_value ∧
    src_free_head = Skel.Pinned.free_head ∧
    src_decl_versioned_value = Skel.Pinned.decl_versioned_value ∧
    src_decl_id_allocator = Skel.Pinned.decl_id_allocator :=
  ⟨rfl, rfl, rfl, rfl, rfl, rfl, rfl, rfl⟩
/-- source text of ThreadIdImpl: id allocated in the constructor of the thread_local, released in its destructor -/
theorem gen_src_thread_id :
    src_tid_current = Skel.Pinned.tid_current ∧
    src_tid_end = Skel.Pinned.tid_end ∧
    src_tid_for_each = Skel.Pinned.tid_for_each ∧
    src_tid_ctor = Skel.Pinned.tid_ctor ∧
    src_tid_dtor = Skel.Pinned.tid_dtor ∧
    src_decl_thread_id_impl = Skel.Pinned.decl_thread_id_impl :=
  ⟨rfl, rfl, rfl, rfl, rfl, rfl⟩
/-- source text of DepositBox's operations -/
theorem gen_src_box :
    src_box_emplace = Skel.Pinned.box_emplace ∧
    src_box_take = Skel.Pinned.box_take ∧
    src_box_take_released = Skel.Pinned.box_take_released ∧
    src_box_finish_released = Skel.Pinned.box_finish_released ∧
    src_box_unsafe_get = Skel.Pinned.box_unsafe_get ∧
    src_decl_slot = Skel.Pinned.decl_slot :=
  ⟨rfl, rfl, rfl, rfl, rfl, rfl⟩
/-- source text of DepositBox::Accessor: special member functions (move = exchange / swap, release exactly once in the destructor) -/
theorem gen_src_accessor :
    src_acc_move_ctor = Skel.Pinned.acc_move_ctor ∧
    src_acc_move_assign = Skel.Pinned.acc_move_assign ∧
    src_acc_dtor = Skel.Pinned.acc_dtor ∧
    src_acc_bool = Skel.Pinned.acc_bool ∧
    src_acc_arrow = Skel.Pinned.acc_arrow ∧
    src_acc_star = Skel.Pinned.acc_star ∧
    src_acc_ctor = Skel.Pinned.acc_ctor ∧
    src_decl_accessor = Skel.Pinned.decl_accessor :=
  ⟨rfl, rfl, rfl, rfl, rfl, rfl, rfl, rfl⟩

/-- states reachable by executions that satisfy NoWrap and Cap throughout -/
abbrev ReachGood (c : Cfg) : State → Prop := Reachable (· = State.init c) (StepR c (Good c))

/-- The free-list invariant (chain from the head is finite, duplicate-free, ends in the tail
sentinel, its members are minted, unowned and not being pushed; ids being pushed are unowned and
pushed once; pending pop snapshots are current iff no push happened since; flag bookkeeping)
holds in every reachable state, for every interleaving, thread count and call history. -/
theorem ida_invariant (c : Cfg) (s : State) (hr : ReachGood c s) : Inv c s := (reach_inv hr).1

/-- **Uniqueness.**  Under NoWrap (and Cap) no allocation ever hands out an id that has an owner:
the ghost flag `dup`, raised by the pop CAS and by the minting `fetch_add` exactly when the id they
hand out is currently owned, is never raised. -/
theorem ida_unique (c : Cfg) (s : State) (hr : ReachGood c s) : s.dup = false := (reach_inv hr).1.nd

/-- the same, step-wise: whenever a pop CAS of thread `t` succeeds on id `cv`, or a `fetch_add`
mints `s.nv`, that id has no owner at that moment, is not on the free list afterwards and is not
being pushed by anybody -/
theorem ida_unique_step (c : Cfg) (s : State) (hr : ReachGood c s) :
    (∀ t cv cg nr, s.pc t = .a2 cv cg nr → s.headV = cv → s.headG % 2 ^ c.W = cg % 2 ^ c.W →
        s.owner cv = none ∧ ∀ u, (s.pc u).transit ≠ some cv) ∧
    (s.owner s.nv = none ∧ s.nv ∉ s.fl ∧ ∀ u, (s.pc u).transit ≠ some s.nv) := by
  obtain ⟨hi, hg⟩ := reach_inv hr
  constructor
  · intro t cv cg nr hpc hV hG
    have ht := hi.thr t
    rw [hpc] at ht
    have hmem : cv ∈ s.fl := by rw [← hV]; exact hi.head_mem (by rw [hV]; exact ht.1)
    exact ⟨(hi.flmem cv hmem).2, fun u hu => (hi.transit_props hu).2.2 hmem⟩
  · exact ⟨hi.high _ (Nat.le_refl _), fun hm => Nat.lt_irrefl _ (hi.flmem _ hm).1,
      fun u hu => Nat.lt_irrefl _ (hi.transit_props hu).2.1⟩

/-- **NoWrap is necessary.**  With 2-bit versions (`W = 2`, versions wrap after 4 pushes) an
explicit 64-step execution — thread 2 stalls between reading `next[0]` and its CAS while thread 1
recycles id 0 four times — hands id 1 to thread 2 while thread 1 still owns it.  Every state of
this execution satisfies Cap. -/
def wrapSched : List Move :=
  mvAllocMint 1 ++ mvAllocMint 1 ++ mvDealloc 1 1 ++ mvDealloc 1 0 ++
  [.alloc 2, .act 2 false, .act 2 false] ++        -- thread 2 reads head (0, 2) and next[0] = 1, then stalls
  mvAllocPop 1 ++ mvAllocPop 1 ++                  -- thread 1 pops 0 and 1
  mvDealloc 1 0 ++ mvAllocPop 1 ++ mvDealloc 1 0 ++ mvAllocPop 1 ++ mvDealloc 1 0 ++ mvAllocPop 1 ++
  mvDealloc 1 0 ++                                 -- head = (0, 6) and 6 % 4 = 2 % 4
  [.act 2 false, .act 2 false] ++                  -- thread 2's CAS succeeds with the stale next: head := 1
  [.alloc 2, .act 2 false, .act 2 false, .act 2 false]   -- pops 1, which thread 1 still holds

theorem ida_wrap_counterexample :
    ∃ s, Reachable (· = State.init ⟨2⟩) (StepR ⟨2⟩ (Cap ⟨2⟩)) s ∧ s.dup = true := by
  have hrun : (run ⟨2⟩ (fun s => decide (s.nv ≤ 2)) (State.init ⟨2⟩) wrapSched).map (·.dup) = some true := by
    decide
  cases hs : run ⟨2⟩ (fun s => decide (s.nv ≤ 2)) (State.init ⟨2⟩) wrapSched with
  | none => rw [hs] at hrun; simp at hrun
  | some s =>
    rw [hs] at hrun
    refine ⟨s, ?_, by simpa using hrun⟩
    exact run_reachable (P := Cap ⟨2⟩) (fun s h => by simpa [Cap, Cfg.active] using h) wrapSched _ _
      (Reachable.base rfl) hs

/-- **Reuse.**  In a quiescent reachable state in which some minted id is free, an `allocate` by
thread `t` that runs alone (only `t` takes steps) and returns has returned a previously minted,
previously unowned id — the head of the free list, with the current version —, now owns it, and
has not advanced `next_value`. -/
theorem ida_reuse (c : Cfg) (s s2 : State) (t i : Nat) (hr : ReachGood c s) (hq : Quiescent s)
    (hi : i < s.nv) (hfree : s.owner i = none)
    (hsolo : Solo c t (callAlloc s t) s2) (hret : s2.pc t = .idle) :
    ∃ v, s2.result t = some (v, s.headG % 2 ^ c.W) ∧ v = s.headV ∧ v < s.nv ∧ s.owner v = none ∧
      s2.owner v = some t ∧ s2.nv = s.nv := by
  have hinv := (reach_inv hr).1
  obtain ⟨hv, hlt, ho⟩ := hinv.free_head hq hi hfree
  obtain ⟨h1, h2, h3, _⟩ := solo_alloc_reuses hv hsolo hret
  exact ⟨s.headV, h1, rfl, hlt, ho, h3, h2⟩

/-- … and such a solitary allocate does return when its weak CAS does not fail spuriously. -/
theorem ida_reuse_returns (c : Cfg) (s : State) (t i : Nat) (hr : ReachGood c s) (hq : Quiescent s)
    (hi : i < s.nv) (hfree : s.owner i = none) :
    ∃ s2, Solo c t (callAlloc s t) s2 ∧ s2.pc t = .idle :=
  solo_alloc_terminates c s t ((reach_inv hr).1.free_head hq hi hfree).1

/-- **for_each at quiescence** reports exactly the owned ids: the ids below `next_value` whose flag
is ACTIVE are, in increasing order and without repetition, the ids that currently have an owner. -/
theorem ida_for_each_quiescent (c : Cfg) (s : State) (hr : ReachGood c s) (hq : Quiescent s) :
    forEachIds c s s.nv = (List.range s.nv).filter (fun i => (s.owner i).isSome) ∧
    ∀ i, i ∈ forEachIds c s s.nv ↔ (s.owner i).isSome = true := by
  have hinv := (reach_inv hr).1
  have h1 := hinv.forEach_quiescent hq
  refine ⟨h1, fun i => ?_⟩
  rw [h1, List.mem_filter, List.mem_range]
  exact ⟨fun h => h.2, fun h => ⟨hinv.owned_lt h, h⟩⟩

/-! Non-vacuity: a concrete non-trivial execution of `IdAllocator<uint16_t>` satisfies every
hypothesis used above (three threads; ids 0,1,2 minted; 1 and 0 freed, 0 reused by another thread). -/

def demoSched : List Move :=
  mvAllocMint 1 ++ mvAllocMint 2 ++ mvAllocMint 1 ++ mvDealloc 2 1 ++
  [.alloc 3, .act 3 false, .dealloc 1 0, .act 1 false, .act 3 false, .act 1 false, .act 1 false,
   .act 3 false,          -- thread 3's CAS fails: thread 1 pushed meanwhile
   .act 3 false, .act 3 true, .act 3 false, .act 3 false, .act 3 false]

def demoOk (s : State) : Bool := decide (s.headG < 2 ^ 16 ∧ s.nv ≤ 2 ^ 16 - 2)

theorem good_of_small {c : Cfg} {s : State} (h1 : s.headG < 2 ^ c.W) (h2 : s.nv ≤ c.active) : Good c s :=
  ⟨fun _ _ _ _ _ => by omega, h2⟩

example : ∃ s, ReachGood ⟨16⟩ s ∧ Quiescent s ∧ s.nv = 3 ∧ s.fl = [1] ∧ s.owner 0 = some 3 ∧
    s.owner 1 = none ∧ s.owner 2 = some 1 ∧ forEachIds ⟨16⟩ s s.nv = [0, 2] := by
  cases hs : run ⟨16⟩ demoOk (State.init ⟨16⟩) demoSched with
  | none => exact absurd hs (by decide)
  | some s =>
    have hreach : ReachGood ⟨16⟩ s :=
      run_reachable (P := Good ⟨16⟩)
        (fun s h => by
          simp only [demoOk, decide_eq_true_eq] at h
          exact good_of_small h.1 (by simpa [Cfg.active] using h.2))
        demoSched _ _ (Reachable.base rfl) hs
    have hq : Quiescent s := by
      refine run_quiescent (n := 4) hs (by decide) (fun _ _ => rfl) ?_
      have : (run ⟨16⟩ demoOk (State.init ⟨16⟩) demoSched).map
          (fun s => (List.range 4).all (fun u => s.pc u = .idle)) = some true := by decide
      rw [hs] at this; simpa using this
    have hrest : (run ⟨16⟩ demoOk (State.init ⟨16⟩) demoSched).map
        (fun s => decide (s.nv = 3 ∧ s.fl = [1] ∧ s.owner 0 = some 3 ∧ s.owner 1 = none ∧
          s.owner 2 = some 1 ∧ forEachIds ⟨16⟩ s s.nv = [0, 2])) = some true := by decide
    rw [hs] at hrest
    exact ⟨s, hreach, hq, by simpa using hrest⟩

/-! ## DepositBox

`BStep` (Babylon/IdAlloc/Box.lean): any number of threads, each step one atomic operation of
`emplace` / `take_released` / `finish_released` (the embedded allocator's steps are the `stepThread`
of the IdAllocator model), any interleaving; `take` is called with ids returned by `emplace`, at any
time, any number of times, by any threads; `finish_released` once by the winner.  `BReach c`:
executions all of whose states satisfy `BGood c` = the 2^W-bit free-list version never wraps
("NoWrap 32": fewer than `2^W - 1` slot recycles) and Cap. -/

abbrev BReach (c : Cfg) : BState → Prop :=
  Reachable (fun b0 => b0 = BState.init c ∧ BGood c b0) (BStepR c)

/-- **One taker wins.**  For the id `(v, r)` that one `emplace(x)` returned: at every moment at most
one `take` has succeeded, and it obtained the item `x` of that emplace; as soon as at least one
`take(id)` has returned (successfully or not) exactly one has succeeded — in particular once all
have returned, exactly one obtained the item. -/
theorem box_single_taker (c : Cfg) (b : BState) (v r x : Nat) (hr : BReach c b) (hi : (v, r, x) ∈ b.issued) :
    (b.won v r = [] ∨ b.won v r = [x]) ∧
    (0 < (b.won v r).length + b.lost v r → b.won v r = [x]) := by
  have hinv := (breach_inv hr).1
  rcases hinv.stale v r x hi with h1 | h1
  · have hw := (hinv.live v r x h1).2.2.2.1
    refine ⟨Or.inl hw, fun hpos => ?_⟩
    rw [hw] at hpos
    have : 0 < b.lost v r := by simpa using hpos
    exact absurd hw (hinv.lostWon v r this)
  · exact ⟨Or.inr h1.1, fun _ => h1.1⟩

/-- **A stale id never matches again.**  Once the item of id `(v, r)` has been taken, in every
continuation of the execution — however often slot `v` is released, re-allocated and re-issued —
the slot's version stays strictly above `r`, so every `take_released((v, r))` fails: its CAS does
not match, it returns nothing and changes neither the slot nor the winners. -/
theorem box_stale_never_matches (c : Cfg) (b b' : BState) (v r : Nat) (hr : BReach c b)
    (htaken : b.won v r ≠ []) (hcont : BStar c b b') :
    r < b'.ver v ∧
    ∀ t sp b'' l, b'.bpc t = .take v r → bstep c b' t sp = some (b'', l) →
      b''.tres t = some none ∧ b''.won = b'.won ∧ b''.ver = b'.ver := by
  have hinv' := (breach_inv (hcont.reach hr)).1
  have hlt := hinv'.taken_lt (hcont.won_mono v r htaken)
  refine ⟨hlt, fun t sp b'' l hb hst => ?_⟩
  have := bstep_take_fail hb (by omega) hst
  exact ⟨this.1, this.2.1, this.2.2.1⟩

/-- Versions issued for one slot strictly increase from round to round (`issued` lists the ids
returned by emplace, newest first): each recycle is a push, which bumps the free-list version the
next pop hands out. -/
theorem box_versions_increase (c : Cfg) (b : BState) (hr : BReach c b) :
    b.issued.Pairwise (fun new old => new.1 = old.1 → old.2.1 < new.2.1) := (breach_inv hr).1.incr

/-- the embedded allocator of a reachable box state satisfies the IdAllocator invariant (so slot ids
held by different emplaced items are distinct: `dup = false`) -/
theorem box_alloc_unique (c : Cfg) (b : BState) (hr : BReach c b) : b.al.dup = false := (breach_inv hr).1.al.nd

/-- **The global no-wrap bound of the box theorems is necessary.**  With 2-bit versions (`W = 2`) slot 0
is issued as `(0,0)`, taken, released and re-issued four more times; the fifth id is `(0,0)` again
(free-list version 4 ≡ 0), so the id of the first round matches a second time: two successful
takes are recorded for id `(0,0)`, the second one obtaining the item of the fifth emplace. -/
def boxWrapSched : List BMove :=
  bmEmplaceMint 1 10 ++ bmTake 2 0 0 ++ bmFinish 2 0 ++
  bmEmplacePop 1 11 ++ bmTake 2 0 1 ++ bmFinish 2 0 ++
  bmEmplacePop 1 12 ++ bmTake 2 0 2 ++ bmFinish 2 0 ++
  bmEmplacePop 1 13 ++ bmTake 2 0 3 ++ bmFinish 2 0 ++
  bmEmplacePop 1 14 ++                           -- issued as (0, 0) again
  bmTake 3 0 0                                   -- a holder of the round-1 id takes the round-5 item

theorem box_wrap_counterexample :
    ∃ b, Reachable (· = BState.init ⟨2⟩) (fun a b => BStep ⟨2⟩ a b ∧ Cap ⟨2⟩ b.al) b ∧
      b.won 0 0 = [14, 10] ∧ b.tres 3 = some (some 14) := by
  have hrun : (brun ⟨2⟩ (fun b => decide (b.al.nv ≤ 2)) (BState.init ⟨2⟩) boxWrapSched).map
      (fun b => decide (b.won 0 0 = [14, 10] ∧ b.tres 3 = some (some 14))) = some true := by decide
  cases hs : brun ⟨2⟩ (fun b => decide (b.al.nv ≤ 2)) (BState.init ⟨2⟩) boxWrapSched with
  | none => rw [hs] at hrun; simp at hrun
  | some b =>
    rw [hs] at hrun
    refine ⟨b, ?_, by simpa using hrun⟩
    exact brun_reachable (P := fun b => Cap ⟨2⟩ b.al) (fun b h => by simpa [Cap, Cfg.active] using h)
      boxWrapSched _ _ (Reachable.base rfl) hs

/-! Non-vacuity for the box: two threads race to take the id of one emplace, the loser fails, the
winner releases, the slot is re-issued with a larger version, the stale id fails again. -/

def boxDemo : List BMove :=
  bmEmplaceMint 1 7 ++                          -- id (0, 0) for item 7
  [.take 2 0 0, .take 3 0 0, .act 3 false, .act 2 false] ++   -- thread 3 wins, thread 2 loses
  bmFinish 3 0 ++ bmEmplacePop 1 8 ++           -- slot 0 recycled: id (0, 1) for item 8
  bmTake 2 0 0 ++                               -- stale id: fails
  bmTake 2 0 1                                  -- fresh id: succeeds

def boxOk (b : BState) : Bool := decide (b.al.headG + 1 < 2 ^ 32 ∧ b.al.nv ≤ 2 ^ 32 - 2)

example : ∃ b, BReach ⟨32⟩ b ∧ b.issued = [(0, 1, 8), (0, 0, 7)] ∧ b.won 0 0 = [7] ∧ b.lost 0 0 = 2 ∧
    b.won 0 1 = [8] ∧ b.ver 0 = 2 ∧ b.tres 2 = some (some 8) ∧ b.tres 3 = some (some 7) := by
  cases hs : brun ⟨32⟩ boxOk (BState.init ⟨32⟩) boxDemo with
  | none => exact absurd hs (by decide)
  | some b =>
    have hreach : BReach ⟨32⟩ b :=
      brun_reachable (P := BGood ⟨32⟩)
        (fun b h => by
          simp only [boxOk, decide_eq_true_eq] at h
          exact ⟨h.1, by simpa [Cfg.active] using h.2⟩)
        boxDemo _ _ (Reachable.base ⟨rfl, bgood_init ⟨32⟩ (by decide)⟩) hs
    have hrest : (brun ⟨32⟩ boxOk (BState.init ⟨32⟩) boxDemo).map
        (fun b => decide (b.issued = [(0, 1, 8), (0, 0, 7)] ∧ b.won 0 0 = [7] ∧ b.lost 0 0 = 2 ∧
          b.won 0 1 = [8] ∧ b.ver 0 = 2 ∧ b.tres 2 = some (some 8) ∧ b.tres 3 = some (some 7))) = some true := by
      decide
    rw [hs] at hrest
    exact ⟨b, hreach, by simpa using hrest⟩

/-! ## Weak memory: the item of a deposit-box slot under the release/acquire view model

`Babylon/IdAlloc/View.lean` over `Babylon.Core.MemView` (every interleaving, every admissible stale
read).  The orders are the ones extracted from the source (`View.ordEmplaceStore`, `View.ordTake`,
`View.ordPush`, `View.ordPop` = first store / CAS of the generated skeletons). -/

open Babylon.Core.MemView in
/-- **Publication of the item.**  The slot's version word does not carry the item (stored before the
construction, relaxed; taken with a relaxed CAS — `gen_view_orders`, `box_version_word_does_not_publish`);
the item is published by the hand-off of the *id*: emplacer `a` stores the version, constructs the item,
passes the id by a releasing store on a client location; taker `b` acquires that message, wins the take
CAS (extracted orders) and reads the item: it gets the right id, can never read an item message older
than the construction, and reads exactly the constructed item while the slot is not re-emplaced. -/
theorem box_publication_view {L : Type} [DecidableEq L] (m0 : Mem L) (a b : Nat) (ver item ch : L)
    (ov ov' oh oh' : Core.Ord) (r x idv d tsv : Nat) {m m1 m2 m3 m4 m5 m6 m7 : Mem L} {v obs ts' v' : Nat}
    (hrel : oh.releases = true) (hacq : oh'.acquires = true)
    (h0 : (m0.write a ver View.ordEmplaceStore r).Ext m) (h1 : (m.write a item ov x).Ext m1)
    (h2 : (m1.write a ch oh idv).Ext m2) (h3 : m2.read b ch oh' (m1.len ch) = some (m3, v)) (h4 : m3.Ext m4)
    (h5 : m4.cas b ver View.ordTake.1 View.ordTake.2 r d tsv = some (m5, true, obs)) (h6 : m5.Ext m6)
    (h7 : m6.read b item ov' ts' = some (m7, v')) :
    v = idv ∧ m.len item ≤ ts' ∧ (m6.len item = m.len item + 1 → v' = x) :=
  View.box_publication_view_code m0 a b ver item ch ov ov' oh oh' r x idv d tsv hrel hacq h0 h1 h2 h3 h4 h5 h6 h7

/-- the hand-off hypothesis of `box_publication_view` is necessary: with the extracted orders and a
hand-off that does not synchronise, the winning taker reads the unconstructed slot (concrete view-model
executions, kernel-evaluated) -/
theorem box_version_word_does_not_publish :
    View.pubRun View.ordEmplaceStore View.ordTake.1 .rlx .rlx 0 = some 0 ∧
    View.pubRun View.ordEmplaceStore View.ordTake.1 .rel .rlx 0 = some 0 ∧
    View.pubRun View.ordEmplaceStore View.ordTake.1 .rlx .acq 0 = some 0 :=
  View.box_version_word_does_not_publish

open Babylon.Core.MemView in
/-- **Reuse of a slot.**  Taker `b` reads the item; `finish_released` pushes the slot (CAS with the
extracted order, releasing); `free_head` is then modified by RMWs only; the next emplacer `c` pops
(CAS with the extracted order, acquiring): everything `b` had seen when it read the item — the message it
read included — is in `c`'s view before `c` constructs the next item: no overwrite race. -/
theorem box_reuse_view {L : Type} [DecidableEq L] (m : Mem L) (b c : Nat) (item head : L) (ov : Core.Ord)
    (e d tsp e' d' tsq : Nat) {m1 m2 m3 m4 m5 m6 : Mem L} {ts0 v obs obs' : Nat}
    (h1 : m.read b item ov ts0 = some (m1, v)) (h2 : m1.Ext m2)
    (h3 : m2.cas b head View.ordPush.1 View.ordPush.2 e d tsp = some (m3, true, obs))
    (h4 : View.OnlyRmw head m3 m4)
    (h5 : m4.cas c head View.ordPop.1 View.ordPop.2 e' d' tsq = some (m5, true, obs')) (h6 : m5.Ext m6) :
    (m1.tv b).cur ≤ (m6.tv c).cur ∧ ts0 ≤ (m6.tv c).cur.get item ∧ ts0 < m6.len item :=
  View.box_reuse_view_code m b c item head ov e d tsp e' d' tsq h1 h2 h3 h4 h5 h6

/-- generated obligations of the two theorems above: push releases, pop acquires (needed by
`box_reuse_view`; weakening either breaks this); version store and take CAS are relaxed (so the version
word cannot publish; strengthening them changes nothing above but is reported here) -/
theorem gen_view_orders :
    View.ordPush.1.releases = true ∧ View.ordPop.1.acquires = true ∧
    View.ordEmplaceStore = .rlx ∧ View.ordTake = (.rlx, .rlx) :=
  ⟨View.gen_reuse_orders.1, View.gen_reuse_orders.2, View.gen_box_orders.1, View.gen_box_orders.2⟩

/-- negative controls of `box_reuse_view`: with the push CAS or the pop CAS relaxed the next emplacer's
view does not cover the taker's read; with the extracted orders it does, also through an intervening RMW -/
theorem box_reuse_view_controls :
    View.reuseRun View.ordPush.1 View.ordPop.1 false = some 1 ∧ View.reuseRun View.ordPush.1 View.ordPop.1 true = some 1 ∧
    View.reuseRun .rlx View.ordPop.1 false = some 0 ∧ View.reuseRun View.ordPush.1 .rlx false = some 0 := by decide

end Babylon.Properties.C14
