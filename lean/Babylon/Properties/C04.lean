/-
  Property C04 — property theorems only (helper lemmas live next to the model).
  Stub: nothing claimed yet.
-/
namespace Babylon.Properties.C04
end Babylon.Properties.C04
