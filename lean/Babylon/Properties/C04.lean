/-
  Property C04 — property theorems only (helper lemmas live next to the model).
-/
import Babylon.CVec.Model

namespace Babylon.Properties.C04
open Babylon.Core Babylon.CVec

/-! ### generated obligations: the model was written against these facts of the current source -/
theorem gen_tsShift : Gen.CVec.tsShift = 6 := by decide
theorem gen_expireAfter : Gen.CVec.expireAfter = 1 := by decide
theorem gen_stampBits : Gen.CVec.stampBits = 16 := by decide
theorem gen_headLayout : Gen.CVec.nodeShift = 48 ∧ Gen.CVec.makeHeadShift = 48 ∧ Gen.CVec.nodeMask = 2 ^ 48 - 1 := by decide
theorem gen_indexBits : Gen.CVec.indexBits = 32 := by decide
theorem gen_staticBits : Gen.CVec.staticBits1 = 0 ∧ Gen.CVec.staticBits4 = 2 ∧ Gen.CVec.staticBits16 = 4 := by decide
theorem gen_skel_retire : Gen.CVec.skel_retire = Skel.retire Gen.CVec.retireRereads := by decide
theorem gen_skel_gc : Gen.CVec.skel_gc = Skel.gc := by decide
theorem gen_skel_unsafe_gc : Gen.CVec.skel_unsafe_gc = Skel.unsafe_gc := by decide
theorem gen_skel_retire_dtor : Gen.CVec.skel_retire_dtor = Skel.retire_dtor := by decide
theorem gen_skel_get_qualified : Gen.CVec.skel_get_qualified = Skel.get_qualified := by decide
theorem gen_skel_slow : Gen.CVec.skel_slow = Skel.slow := by decide
theorem gen_skel_snapshot : Gen.CVec.skel_snapshot = Skel.snapshot := by decide
theorem gen_skel_dtor : Gen.CVec.skel_dtor = Skel.dtor := by decide
theorem gen_skel_create_block : Gen.CVec.skel_create_block = Skel.create_block := by decide
theorem gen_skel_delete_block : Gen.CVec.skel_delete_block = Skel.delete_block := by decide

end Babylon.Properties.C04
