/-
  Property C04 — ConcurrentVector: references obtained from ensure / operator[] / snapshots keep
  designating the same element however many threads grow the vector; two threads asking for the same
  index get the same element; every element is constructed exactly once before anyone can see it and
  destroyed exactly once when the vector dies; a snapshot stays usable for at least one cooling period
  (64 s) after the growth that superseded it, even if gc() is called.

  Model: Babylon/CVec/Model.lean (one step = one atomic operation on `_block_table` /
  `RetireList::_head` or one clock read of the real code, plus the thread-local allocator /
  constructor work that follows it).  `R c s` = "s is reachable": any number of threads, any
  interleaving of ensure / reserve / for_each-fill-copy / snapshot / operator[] / gc calls, any
  indices, any monotone clock history starting anywhere (16-bit stamp wrap included), destructor at
  quiescence.  Helper lemmas: Babylon/CVec/Lemmas*.lean.  Only theorems here.

  Residual (not covered by a theorem): node addresses of the retire list are never reused in the model
  — an ABA on a reused address needs one retire / gc call stalled for 2^16 stamp units (48.5 days);
  "64 s" is time on the clock the code reads (virtual in the correspondence runs); executions are
  sequentially consistent interleavings (memory orders are tied by the skeleton obligations below, by
  lock-step trace equality and by the happens-before monitor of the correspondence harness).
-/
import Babylon.CVec.Witness
import Babylon.CVec.View

namespace Babylon.Properties.C04
open Babylon.Core Babylon.CVec

/-- reachable states of the vector with configuration `c` -/
abbrev R (c : Cfg) (s : State) : Prop := Reachable Init (Step c) s

/-! ### generated obligations: the model was written against these facts of the current source -/
theorem gen_tsShift : Gen.CVec.tsShift = 6 := by decide
theorem gen_expireAfter : Gen.CVec.expireAfter = 1 := by decide
theorem gen_stampBits : Gen.CVec.stampBits = 16 := by decide
theorem gen_headLayout : Gen.CVec.nodeShift = 48 ∧ Gen.CVec.makeHeadShift = 48 ∧ Gen.CVec.nodeMask = 2 ^ 48 - 1 := by decide
theorem gen_indexBits : Gen.CVec.indexBits = 32 := by decide
theorem gen_staticBits : Gen.CVec.staticBits1 = 0 ∧ Gen.CVec.staticBits4 = 2 ∧ Gen.CVec.staticBits16 = 4 := by decide
/-- the retry loop of `RetireList::retire` takes a fresh stamp for every CAS attempt (fix f6ba807;
before it the full `retire_never_early` was false, see `retire_stale_timestamp_counterexample`) -/
theorem gen_retireRereads : Gen.CVec.retireRereads = true := by decide
theorem gen_skel_retire : Gen.CVec.skel_retire = Skel.retire Gen.CVec.retireRereads := by decide
theorem gen_skel_gc : Gen.CVec.skel_gc = Skel.gc := by decide
theorem gen_skel_unsafe_gc : Gen.CVec.skel_unsafe_gc = Skel.unsafe_gc := by decide
theorem gen_skel_retire_dtor : Gen.CVec.skel_retire_dtor = Skel.retire_dtor := by decide
theorem gen_skel_get_qualified : Gen.CVec.skel_get_qualified = Skel.get_qualified := by decide
theorem gen_skel_slow : Gen.CVec.skel_slow = Skel.slow := by decide
theorem gen_skel_snapshot : Gen.CVec.skel_snapshot = Skel.snapshot := by decide
theorem gen_skel_dtor : Gen.CVec.skel_dtor = Skel.dtor := by decide
theorem gen_skel_create_block : Gen.CVec.skel_create_block = Skel.create_block := by decide
theorem gen_skel_delete_block : Gen.CVec.skel_delete_block = Skel.delete_block := by decide
/-- publication orders: the publishing CAS releases; every way of obtaining the table pointer acquires
(weakening any of the four in vector.hpp breaks the corresponding obligation and the view theorems) -/
theorem gen_ordTblCasSucc_releases : Core.Ord.releases Gen.CVec.ordTblCasSucc = true := by decide
theorem gen_ordTblLoad_acquires : Core.Ord.acquires Gen.CVec.ordTblLoad = true := by decide
theorem gen_ordSnapshotLoad_acquires : Core.Ord.acquires Gen.CVec.ordSnapshotLoad = true := by decide
theorem gen_ordTblCasFail_acquires : Core.Ord.acquires Gen.CVec.ordTblCasFail = true := by decide
/-- `_block_table` is never exchanged and its only plain stores are the three in the constructor and in
swap() (not thread-safe): inside the thread-safe API it is modified by the CAS alone (release sequence) -/
theorem gen_tblWrites : Gen.CVec.tblStoreSites = 3 ∧ Gen.CVec.tblExchangeSites = 0 := by decide

/-! ### index arithmetic (static and dynamic block sizes are both `2 ^ bits`) -/

/-- `block_index` / `block_offset` split an index into quotient and remainder by the block size -/
theorem cvec_index_split (c : Cfg) (i : Nat) (h : i / c.bs < 2 ^ 32) :
    blockIndex c i = i / c.bs ∧ blockOffset c i = i % c.bs ∧ blockOffset c i < c.bs ∧
      blockIndex c i * c.bs + blockOffset c i = i :=
  ⟨blockIndex_eq_div c i h, blockOffset_eq_mod c i, blockOffset_lt c i, index_split c i h⟩

/-- one element per index: different indices never share (block index, offset) -/
theorem cvec_index_injective (c : Cfg) (i j : Nat) (hi : i / c.bs < 2 ^ 32) (hj : j / c.bs < 2 ^ 32)
    (hb : blockIndex c i = blockIndex c j) (ho : blockOffset c i = blockOffset c j) : i = j :=
  index_inj c i j hi hj hb ho

/-- `ensure(i)` / `reserve(n)` ask for exactly enough blocks -/
theorem cvec_growth_covers (c : Cfg) (i n : Nat) (hi : i / c.bs < 2 ^ 32) (hn : (n + c.mask) / c.bs < 2 ^ 32) :
    (i < needEnsure c i * c.bs ∧ (needEnsure c i - 1) * c.bs ≤ i) ∧
    (n ≤ needReserve c n * c.bs ∧ needReserve c n * c.bs < n + c.bs) :=
  ⟨needEnsure_covers c i hi, needReserve_covers c n hn⟩

/-- `set_block_size`: the block size is the least power of two `≥ hint` -/
theorem cvec_block_size_rounds_up (hint : Nat) (h : hint ≤ 2 ^ 31) :
    hint ≤ 2 ^ setBits hint ∧ (setBits hint = 0 ∨ 2 ^ (setBits hint - 1) < hint) := setBits_spec hint h

/-- `for_each(b, e)` (also `fill_n` / `copy_n`, which go through it): the callback ranges are non-empty,
each inside one block, and together exactly the elements `[b, e)` in order — also when the range
straddles blocks or ends exactly on a block boundary -/
theorem cvec_for_each_covers (c : Cfg) (bl : List Nat) (b e : Nat) (hbe : b ≤ e) (he : e / c.bs < 2 ^ 32) :
    expandSegs (forEachSegs c bl b e) = rangeElems c bl b e ∧
    ∀ s ∈ forEachSegs c bl b e, 0 < s.2.2 ∧ s.2.1 + s.2.2 ≤ c.bs := forEachSegs_spec c bl b e hbe he

/-! ### stable addresses -/

/-- every table ever installed in `_block_table` is a prefix of the current one -/
theorem cvec_prefix_chain {c : Cfg} {s : State} (h : R c s) (T : Nat) (hT : s.pub T = true) :
    s.tbl T <+: s.tbl s.cur := (Inv.of_reachable h).a.pre T hT

/-- index `i` designates the same (block, offset) through every table / snapshot that covers it -/
theorem cvec_same_element {c : Cfg} {s : State} (h : R c s) (T₁ T₂ i : Nat) (a₁ a₂ : Nat × Nat)
    (h₁ : s.pub T₁ = true) (h₂ : s.pub T₂ = true)
    (e₁ : elemAt c (s.tbl T₁) i = some a₁) (e₂ : elemAt c (s.tbl T₂) i = some a₂) : a₁ = a₂ := by
  have p₁ := elemAt_prefix (cvec_prefix_chain h T₁ h₁) e₁
  have p₂ := elemAt_prefix (cvec_prefix_chain h T₂ h₂) e₂
  rw [p₁] at p₂; exact Option.some.inj p₂

/-- what a thread holds is a published table: its snapshot, and the table behind an element returned
by `ensure` / `operator[]` -/
theorem cvec_snapshot_published {c : Cfg} {s : State} (h : R c s) (t T : Nat) (hs : s.snap t = some T) :
    s.pub T = true := (Inv.of_reachable h).sn.snapPub t T hs

/-- two threads asking for the same index get the same element, and a snapshot (old or new) covering
that index agrees with them -/
theorem cvec_threads_agree {c : Cfg} {s : State} (h : R c s) (t u i b o b' o' : Nat)
    (ht : s.result t = .elem i b o) (hu : s.result u = .elem i b' o') : (b, o) = (b', o') := by
  have inv := Inv.of_reachable h
  have e₁ := inv.sn.resCur t i b o ht
  have e₂ := inv.sn.resCur u i b' o' hu
  rw [e₁] at e₂; exact Option.some.inj e₂

theorem cvec_snapshot_agrees {c : Cfg} {s : State} (h : R c s) (t u T i b o : Nat) (a : Nat × Nat)
    (hs : s.snap t = some T) (he : elemAt c (s.tbl T) i = some a) (hu : s.result u = .elem i b o) : a = (b, o) := by
  have inv := Inv.of_reachable h
  have e₁ := elemAt_prefix (inv.a.pre T (inv.sn.snapPub t T hs)) he
  have e₂ := inv.sn.resCur u i b o hu
  rw [e₁] at e₂; exact Option.some.inj e₂

/-- different indices are different elements: blocks of a table are pairwise distinct -/
theorem cvec_one_element_per_index {c : Cfg} {s : State} (h : R c s) (T i j : Nat) (a : Nat × Nat)
    (hT : s.pub T = true) (hi : i / c.bs < 2 ^ 32) (hj : j / c.bs < 2 ^ 32)
    (ei : elemAt c (s.tbl T) i = some a) (ej : elemAt c (s.tbl T) j = some a) : i = j := by
  have inv := Inv.of_reachable h
  have pi := elemAt_prefix (inv.a.pre T hT) ei
  have pj := elemAt_prefix (inv.a.pre T hT) ej
  simp only [elemAt, Option.map_eq_some_iff] at pi pj
  obtain ⟨b, hb, rfl⟩ := pi
  obtain ⟨b', hb', hab⟩ := pj
  simp only [Prod.mk.injEq] at hab
  obtain ⟨rfl, ho⟩ := hab
  have hidx : blockIndex c i = blockIndex c j := by
    have hnd := inv.b.curNodup
    obtain ⟨h1, e1⟩ := List.getElem?_eq_some_iff.mp hb
    obtain ⟨h2, e2⟩ := List.getElem?_eq_some_iff.mp hb'
    exact (List.getElem_inj (h₀ := h1) (h₁ := h2) hnd).mp (e1.trans e2.symm)
  exact index_inj c i j hi hj hidx ho.symm

/-! ### built once, destroyed once -/

/-- a block reachable through any published table has had its elements constructed exactly once, none
destroyed, and is not freed — as long as the vector lives -/
theorem cvec_construct_once {c : Cfg} {s : State} (h : R c s) (T b : Nat) (hlive : s.destroyed = false)
    (hT : s.pub T = true) (hb : b ∈ s.tbl T) : s.ctorN b = 1 ∧ s.dtorN b = 0 ∧ s.freeN b = 0 := by
  have inv := Inv.of_reachable h
  have hcur : b ∈ s.tbl s.cur := (inv.a.pre T hT).subset hb
  obtain ⟨h1, h2⟩ := inv.b.liveCur hlive b hcur
  have := (inv.b.global b).2.2
  exact ⟨h1, h2, by omega⟩

/-- the blocks a thread is about to publish with its CAS are fully constructed (exactly once) and
still private: in no published table -/
theorem cvec_constructed_before_publication {c : Cfg} {s : State} (h : R c s) (t nt old need : Nat)
    (made : List Nat) (k : Kont) (hpc : s.pc t = .casT nt old need made k) (b : Nat) (hb : b ∈ made) :
    s.ctorN b = 1 ∧ s.dtorN b = 0 ∧ s.freeN b = 0 ∧ ∀ T, s.pub T = true → b ∉ s.tbl T := by
  have inv := Inv.of_reachable h
  have hspec : (s.pc t).spec = some (nt, made) := by rw [hpc]; rfl
  obtain ⟨h1, h2⟩ := inv.b.liveMade t nt made hspec b hb
  have := (inv.b.global b).2.2
  refine ⟨h1, h2, by omega, fun T hT hm => ?_⟩
  exact inv.b.madeNotCur t nt made hspec b hb ((inv.a.pre T hT).subset hm)

/-- the loser of the table CAS destroys and frees exactly the blocks it created, each once; they were
never published; nothing else is destroyed or freed by that step -/
theorem cvec_loser_deletes_own_blocks {c : Cfg} {s s' : State} (h : R c s) (t nt old need : Nat)
    (made : List Nat) (k : Kont) (inp : Inp) (ls : List Act) (hpc : s.pc t = .casT nt old need made k)
    (hlose : s.cur ≠ old) (hst : stepThread c s t inp = some (s', ls)) :
    (∀ b ∈ made, s'.ctorN b = 1 ∧ s'.dtorN b = 1 ∧ s'.freeN b = 1 ∧ ∀ T, s'.pub T = true → b ∉ s'.tbl T) ∧
    (∀ b, b ∉ made → s'.dtorN b = s.dtorN b ∧ s'.freeN b = s.freeN b) := by
  have inv := Inv.of_reachable h
  have hspec : (s.pc t).spec = some (nt, made) := by rw [hpc]; rfl
  have hcnt := count_nodup (inv.b.madeNodup t nt made hspec)
  have hmade : ∀ b ∈ made, s.ctorN b = 1 ∧ s.dtorN b = 0 ∧ s.freeN b = 0 ∧ ∀ T, s.pub T = true → b ∉ s.tbl T :=
    fun b hb => cvec_constructed_before_publication h t nt old need made k hpc b hb
  have hfreshNot : ∀ b ∈ made, b ∉ madeIds (deleted s made) (need - (s.tbl s.cur).length) := by
    intro b hb hm
    have h1 := inv.b.madeLe t nt made hspec b hb
    have h2 : s.nalloc < b := ((mem_madeIds _ _ b).mp hm).1
    omega
  have hts := stepThread_TStep hst
  cases hts
  case casWin _ _ _ _ _ hpc' hc => rw [hpc] at hpc'; cases hpc'; exact absurd hc hlose
  case casLoseDone nt' old' need' made' k' hpc' hc hl =>
    rw [hpc] at hpc'; cases hpc'
    refine ⟨fun b hb => ?_, fun b hb => ?_⟩
    · obtain ⟨h1, h2, h3, h4⟩ := hmade b hb
      have hc1 : made.count b = 1 := by rw [hcnt, if_pos hb]
      show s.ctorN b = 1 ∧ s.dtorN b + made.count b = 1 ∧ s.freeN b + made.count b = 1 ∧ _
      exact ⟨h1, by omega, by omega, h4⟩
    · have hc0 : made.count b = 0 := by rw [hcnt, if_neg hb]
      show s.dtorN b + made.count b = s.dtorN b ∧ s.freeN b + made.count b = s.freeN b
      omega
  case casLoseRetry nt' old' need' made' k' hpc' hc hl =>
    rw [hpc] at hpc'; cases hpc'
    refine ⟨fun b hb => ?_, fun b hb => ?_⟩
    · obtain ⟨h1, h2, h3, h4⟩ := hmade b hb
      have hc1 : made.count b = 1 := by rw [hcnt, if_pos hb]
      have hn := hfreshNot b hb
      show (if b ∈ madeIds (deleted s made) (need - (s.tbl s.cur).length) then s.ctorN b + 1 else s.ctorN b) = 1 ∧
        s.dtorN b + made.count b = 1 ∧ s.freeN b + made.count b = 1 ∧ _
      rw [if_neg hn]
      exact ⟨h1, by omega, by omega, h4⟩
    · have hc0 : made.count b = 0 := by rw [hcnt, if_neg hb]
      show s.dtorN b + made.count b = s.dtorN b ∧ s.freeN b + made.count b = s.freeN b
      omega
  all_goals (exfalso; simp_all)

/-- at no time has an element been constructed twice, destroyed twice or without having been
constructed, or its block freed otherwise than right after its elements' destruction -/
theorem cvec_never_twice {c : Cfg} {s : State} (h : R c s) (a : Nat) :
    s.ctorN a ≤ 1 ∧ s.dtorN a ≤ s.ctorN a ∧ s.freeN a = s.dtorN a := (Inv.of_reachable h).b.global a

/-- when the vector has been destroyed every block that was ever constructed — published or not — has
been destroyed exactly once and freed exactly once -/
theorem cvec_destroyed_once {c : Cfg} {s : State} (h : R c s) (hd : s.destroyed = true) (a : Nat) :
    s.ctorN a ≤ 1 ∧ s.dtorN a = s.ctorN a ∧ s.freeN a = s.ctorN a := by
  have inv := Inv.of_reachable h
  have hg := inv.b.global a
  have hall := inv.b.doneAll hd a
  omega

/-! ### publication under the release/acquire view model (stale reads included) -/

section ViewModel
open Babylon.Core.MemView Babylon.CVec.View Babylon.Gen.CVec
variable {L : Type} [DecidableEq L]

/-- Grower `a` constructs cell `le` (an element of a new block, or an entry of the new table: plain
write of `x`), does anything else, then wins the CAS on the table pointer `lt` with the orders of the
source.  In any later memory `m3` whose `lt` has since been modified by CASes only (`R`, supplied by
`cvec_publication_relseq` / `cvec_publication_relseq_step`), a reader `b` that loads `lt` through
`get_qualified_block_table` (`ordTblLoad`: ensure / reserve / for_each / fill_n / copy_n) and obtains
`a`'s table or ANY LATER one (`tsT`; stale loads included), then reads `le` at any admissible timestamp
`ts'`, cannot read a message older than the constructing write — the unconstructed cell is not a
behaviour of any view-model execution — and reads exactly `x` if the cell was written once. -/
theorem cvec_publication_view (m : Mem L) (a b : Nat) (le lt : L) (ov ov' : Core.Ord) (x e d ts : Nat)
    {m1 m2 m3 m4 m5 m6 : Mem L} {obs v tsT ts' v' : Nat}
    (h1 : (m.write a le ov x).Ext m1)
    (h2 : m1.cas a lt ordTblCasSucc ordTblCasFail e d ts = some (m2, true, obs))
    (h3 : m2.Ext m3) (R : RelSeq m3 lt (m1.len lt) (m1.tv a).cur) (hts : m1.len lt ≤ tsT)
    (h4 : m3.read b lt ordTblLoad tsT = some (m4, v))
    (h5 : m4.Ext m5)
    (h6 : m5.read b le ov' ts' = some (m6, v')) :
    m.len le ≤ ts' ∧ (m5.len le = m.len le + 1 → v' = x) :=
  View.cvec_publication_view m a b le lt ov ov' x e d ts h1 h2 h3 R hts h4 h5 h6

/-- the same for snapshot() / operator[] / size() (`ordSnapshotLoad`) -/
theorem cvec_publication_view_snapshot (m : Mem L) (a b : Nat) (le lt : L) (ov ov' : Core.Ord) (x e d ts : Nat)
    {m1 m2 m3 m4 m5 m6 : Mem L} {obs v tsT ts' v' : Nat}
    (h1 : (m.write a le ov x).Ext m1)
    (h2 : m1.cas a lt ordTblCasSucc ordTblCasFail e d ts = some (m2, true, obs))
    (h3 : m2.Ext m3) (R : RelSeq m3 lt (m1.len lt) (m1.tv a).cur) (hts : m1.len lt ≤ tsT)
    (h4 : m3.read b lt ordSnapshotLoad tsT = some (m4, v))
    (h5 : m4.Ext m5)
    (h6 : m5.read b le ov' ts' = some (m6, v')) :
    m.len le ≤ ts' ∧ (m5.len le = m.len le + 1 → v' = x) :=
  View.cvec_publication_view_snapshot m a b le lt ov ov' x e d ts h1 h2 h3 R hts h4 h5 h6

/-- the loser of the growth race: its own CAS fails and hands back the winner's (or a later) table through
the failure order of the source; the cells it then copies / returns were constructed -/
theorem cvec_publication_view_loser (m : Mem L) (a b : Nat) (le lt : L) (ov ov' : Core.Ord) (x e d ts e' d' : Nat)
    {m1 m2 m3 m4 m5 m6 : Mem L} {obs obs' tsT ts' v' : Nat}
    (h1 : (m.write a le ov x).Ext m1)
    (h2 : m1.cas a lt ordTblCasSucc ordTblCasFail e d ts = some (m2, true, obs))
    (h3 : m2.Ext m3) (R : RelSeq m3 lt (m1.len lt) (m1.tv a).cur) (hts : m1.len lt ≤ tsT)
    (h4 : m3.cas b lt ordTblCasSucc ordTblCasFail e' d' tsT = some (m4, false, obs'))
    (h5 : m4.Ext m5)
    (h6 : m5.read b le ov' ts' = some (m6, v')) :
    m.len le ≤ ts' ∧ (m5.len le = m.len le + 1 → v' = x) :=
  View.cvec_publication_view_loser m a b le lt ov ov' x e d ts e' d' h1 h2 h3 R hts h4 h5 h6

/-- the release sequence exists right after the publishing CAS … -/
theorem cvec_publication_relseq {m1 m2 : Mem L} {a : Nat} {lt : L} {e d ts obs : Nat}
    (h2 : m1.cas a lt ordTblCasSucc ordTblCasFail e d ts = some (m2, true, obs)) :
    RelSeq m2 lt (m1.len lt) (m1.tv a).cur := View.cvec_publication_relseq h2

/-- … and survives every later CAS on the table pointer (won or lost, by anybody) and every step that does
not write it -/
theorem cvec_publication_relseq_step {m m' : Mem L} {lt : L} {ts0 : Nat} {W : MemView.View L} {t : Nat}
    {e d ts : Nat} {ok : Bool} {obs : Nat} (R : RelSeq m lt ts0 W) (hlt : ts0 < m.len lt)
    (h : m.cas t lt ordTblCasSucc ordTblCasFail e d ts = some (m', ok, obs)) : RelSeq m' lt ts0 W :=
  View.cvec_publication_relseq_step R hlt h

theorem cvec_publication_relseq_frame {m m' : Mem L} {lt : L} {ts0 : Nat} {W : MemView.View L}
    (R : RelSeq m lt ts0 W) (h : m'.hist lt = m.hist lt) : RelSeq m' lt ts0 W := relseq_hist_eq R h

/-- NEGATIVE CONTROLS (concrete view-model executions, see Babylon/CVec/View.lean for the litmus program):
with the publishing CAS relaxed, or the reading load relaxed, or the loser's failure order relaxed, the
reader obtains table 1 and reads the UNCONSTRUCTED element (0 instead of 7) -/
example : pubRun .rlx ordTblLoad false 1 0 = some 100 := by decide
example : pubRun ordTblCasSucc .rlx false 1 0 = some 100 := by decide
example : loserRun ordTblCasSucc .rlx 1 0 = some 100 := by decide
/-- with the orders of the source that outcome does not exist, directly and through a later table -/
example : pubRun ordTblCasSucc ordTblLoad false 1 0 = none ∧ pubRun ordTblCasSucc ordSnapshotLoad false 1 0 = none ∧
    pubRun ordTblCasSucc ordTblLoad true 2 0 = none ∧ loserRun ordTblCasSucc ordTblCasFail 1 0 = none ∧
    pubRun ordTblCasSucc ordTblLoad false 1 1 = some 107 := by decide

end ViewModel

/-! ### cooling period -/

/-- arithmetic core: the code compares stamps truncated to 16 bits; if the head's stamp was taken no
later than the current one, a positive truncated test `uint16_t(c - h) > 1` means the untruncated
stamps are at least two units apart, however often the 16-bit stamp wrapped in between -/
theorem retire_expire_sound (hstamp c : Nat) (hle : hstamp ≤ c) (he : expired hstamp c = true) : hstamp + 2 ≤ c := by
  have := expired_sound hstamp c hle he
  have hA : Gen.CVec.expireAfter = 1 := rfl
  omega

/-- As long as no push has installed a stamp older than the one it replaced (`stale = false`) a table
superseded at time `g` is freed by retire / gc only on observing a clock value `v` at least two stamp
units later.  Holds for the code before and after fix f6ba807. -/
theorem retire_never_early_partial {c : Cfg} {s : State} (h : R c s) (hns : s.stale = false) (x g v : Nat)
    (hf : s.freedT x = some (some v)) (hg : s.supAt x = some g) : unitOf g + 2 ≤ unitOf v ∧ v ≤ s.now := by
  obtain ⟨g', hg', h2, h3⟩ := (Inv.of_reachable h).r.freedOk hns x v hf
  rw [hg] at hg'; cases hg'
  exact ⟨h2, h3⟩

/-- With the stamp re-read for every attempt of retire's retry loop no push is ever stale … -/
theorem retire_never_stale {c : Cfg} {s : State} (hc : c.reread = true) (h : R c s) : s.stale = false :=
  (Inv.of_reachable h).r.rereadOk hc

/-- … so, for every interleaving of concurrent ensure / reserve / gc calls and every monotone clock
history (16-bit wrap included): a table superseded at time `g` is freed before the destructor only by
an operation that observed a clock value `v` with `v / 64 s ≥ g / 64 s + 2`, i.e. more than 64 s later. -/
theorem retire_never_early {c : Cfg} {s : State} (hc : c.reread = true) (h : R c s) (x g v : Nat)
    (hf : s.freedT x = some (some v)) (hg : s.supAt x = some g) :
    unitOf g + 2 ≤ unitOf v ∧ g + unitNs < v ∧ v ≤ s.now := by
  obtain ⟨h1, h2⟩ := retire_never_early_partial h (retire_never_stale hc h) x g v hf hg
  exact ⟨h1, unit_gap g v h1, h2⟩

/-- the configuration the current source has (`gen_retireRereads`) -/
theorem retire_never_early_code (bits : Nat) {s : State} (h : R { bits := bits } s) (x g v : Nat)
    (hf : s.freedT x = some (some v)) (hg : s.supAt x = some g) :
    unitOf g + 2 ≤ unitOf v ∧ g + unitNs < v ∧ v ≤ s.now :=
  retire_never_early (c := { bits := bits }) gen_retireRereads h x g v hf hg

/-- sequential histories: calls never overlap (a call starts only when every thread is idle) -/
inductive SeqStep (c : Cfg) : State → State → Prop
  | act (s : State) (t : Nat) (inp : Inp) (s' : State) (ls : List Act) : stepThread c s t inp = some (s', ls) → SeqStep c s s'
  | ensure (s : State) (t i : Nat) : (∀ u, s.pc u = .idle) → s.destroyed = false → SeqStep c s (callEnsure c s t i)
  | reserve (s : State) (t n : Nat) : (∀ u, s.pc u = .idle) → s.destroyed = false → SeqStep c s (callReserve c s t n)
  | range (s : State) (t b e : Nat) : (∀ u, s.pc u = .idle) → s.destroyed = false → b ≤ e → SeqStep c s (callRange c s t b e)
  | snap (s : State) (t : Nat) (k : SKont) : (∀ u, s.pc u = .idle) → s.destroyed = false → SeqStep c s (callSnap s t k)
  | gc (s : State) (t : Nat) : (∀ u, s.pc u = .idle) → s.destroyed = false → SeqStep c s (callGc s t)
  | destroy (s : State) (t : Nat) : (∀ u, s.pc u = .idle) → s.destroyed = false → SeqStep c s (callDestroy s t)
  | tick (s : State) (d : Nat) : SeqStep c s (tick s d)

theorem seq_reachable {c : Cfg} {s : State} (h : Reachable Init (SeqStep c) s) : R c s := by
  induction h with
  | base hi => exact .base hi
  | tail _ hst ih =>
    refine .tail ih ?_
    have nox : ∀ {s : State}, (∀ u, s.pc u = .idle) → ∀ u, s.pc u ≠ .xLoad := fun hi u => by rw [hi u]; simp
    cases hst with
    | act => rename_i h; exact .act _ _ _ _ _ h
    | ensure t i hi hd => exact .ensure _ t i (hi t) hd (nox hi)
    | reserve t n hi hd => exact .reserve _ t n (hi t) hd (nox hi)
    | range t b e hi hd hbe => exact .range _ t b e (hi t) hd (nox hi) hbe
    | snap t k hi hd => exact .snap _ t k (hi t) hd (nox hi)
    | gc t hi hd => exact .gc _ t (hi t) hd (nox hi)
    | destroy t hi hd => exact .destroy _ t hi hd
    | tick d => exact .tick _ d

/-- every sequential ensure / reserve / gc history and every monotone clock history (including 16-bit
wrap of the stamp and any starting time): a table is freed only two stamp units (more than 64 s) after
the growth that retired it, or by the destructor -/
theorem retire_never_early_seq {c : Cfg} {s : State} (hc : c.reread = true)
    (h : Reachable Init (SeqStep c) s) (x g v : Nat)
    (hf : s.freedT x = some (some v)) (hg : s.supAt x = some g) : unitOf g + 2 ≤ unitOf v ∧ g + unitNs < v := by
  obtain ⟨h1, h2, _⟩ := retire_never_early hc (seq_reachable h) x g v hf hg
  exact ⟨h1, h2⟩

/-- A snapshot stays usable for 64 s after the growth that superseded it, gc() or not: while the
vector lives, the table of a snapshot is either not freed at all — in particular when it is still
current, or when fewer than 64 s have passed since the CAS that superseded it — or it was freed by an
operation that observed the clock more than 64 s after that CAS. -/
theorem snapshot_usable_64s {c : Cfg} {s : State} (hc : c.reread = true) (h : R c s) (t T : Nat)
    (hs : s.snap t = some T) (hlive : s.destroyed = false) :
    s.freedT T = none ∨ ∃ g v, s.supAt T = some g ∧ s.freedT T = some (some v) ∧ g + unitNs < v ∧ v ≤ s.now := by
  have inv := Inv.of_reachable h
  have hpub := inv.sn.snapPub t T hs
  cases hf : s.freedT T with
  | none => exact Or.inl rfl
  | some r =>
    right
    cases r with
    | none =>
      rcases inv.f.f1 T hf with hd | hp
      · rw [hlive] at hd; cases hd
      · rw [hpub] at hp; cases hp
    | some v =>
      obtain ⟨g, hg, h2, h3⟩ := inv.r.freedOk (inv.r.rereadOk hc) T v hf
      exact ⟨g, v, hg, rfl, unit_gap g v h2, h3⟩

/-- consequence in the form the property states it: less than 64 s after being superseded (or while
still current) the table of a live vector's snapshot has not been freed -/
theorem snapshot_not_freed_within_64s {c : Cfg} {s : State} (hc : c.reread = true) (h : R c s) (t T : Nat)
    (hs : s.snap t = some T) (hlive : s.destroyed = false)
    (hrecent : s.supAt T = none ∨ ∃ g, s.supAt T = some g ∧ s.now ≤ g + unitNs) : s.freedT T = none := by
  rcases snapshot_usable_64s hc h t T hs hlive with h0 | ⟨g, v, hg, _, h1, h2⟩
  · exact h0
  · rcases hrecent with hn | ⟨g', hg', hle⟩
    · rw [hn] at hg; cases hg
    · rw [hg] at hg'; cases hg'; omega

/-! ### the defect fixed by f6ba807, kept as a theorem about the model without the re-read -/

def staleCfg : Cfg := { bits := 0, reread := false }

/-- Without the re-read the full statement is false: the schedule of
corpus/C04/stale_timestamp_witness.txt reaches a state where table 3, superseded at 126.0 s, has been
freed by a gc() that observed 128.5 s. -/
theorem retire_stale_timestamp_counterexample :
    ∃ s, R staleCfg s ∧ ∃ x g v, s.freedT x = some (some v) ∧ s.supAt x = some g ∧ v < g + unitNs := by
  have hrun : (run staleCfg (State.init 1000000000) staleSchedule).map
      (fun s => decide (s.freedT 3 = some (some 128500004000)) && decide (s.supAt 3 = some 126000002000)) = some true := by
    decide +kernel
  cases hs : run staleCfg (State.init 1000000000) staleSchedule with
  | none => rw [hs] at hrun; cases hrun
  | some s =>
    rw [hs] at hrun
    simp only [Option.map_some, Option.some.injEq, Bool.and_eq_true, decide_eq_true_eq] at hrun
    exact ⟨s, run_reach_init hs, 3, 126000002000, 128500004000, hrun.1, hrun.2, by decide⟩

/-! ### non-vacuity: the hypotheses above are satisfiable by non-trivial reachable states -/

def okCfg : Cfg := { bits := 1, reread := true }
/-- block size 2: thread 0 ensures index 0, thread 1 takes a snapshot (table 1), thread 0 ensures index
3 (table 3 supersedes table 1 at 1.000002 s), thread 1 ensures index 3 through the fast path, 200 s
pass, thread 0 calls gc(), which observes 201 s and frees tables 1 and the empty one -/
def okSchedule : List Ev := [
  .ensure 0 0, .act 0, .act 0, .act 0, .act 0 1000001000, .act 0 1000002000, .act 0,
  .snap 1, .act 1,
  .ensure 0 3, .act 0, .act 0, .act 0, .act 0 1000003000, .act 0 1000004000, .act 0,
  .ensure 1 3, .act 1,
  .tick 200000000000,
  .gc 0, .act 0, .act 0 201000005000, .act 0 ]

example : ∃ s, R okCfg s ∧ s.snap 1 = some 1 ∧ s.destroyed = false ∧ s.supAt 1 = some 1000002000 ∧
    s.freedT 1 = some (some 201000005000) ∧ s.result 1 = .elem 3 4 1 ∧ s.tbl s.cur = [2, 4] ∧ s.ctorN 4 = 1 := by
  have hrun : (run okCfg (State.init 1000000000) okSchedule).map
      (fun s => decide (s.snap 1 = some 1 ∧ s.destroyed = false ∧ s.supAt 1 = some 1000002000 ∧
        s.freedT 1 = some (some 201000005000) ∧ s.result 1 = .elem 3 4 1 ∧ s.tbl s.cur = [2, 4] ∧ s.ctorN 4 = 1)) = some true := by
    decide +kernel
  cases hs : run okCfg (State.init 1000000000) okSchedule with
  | none => rw [hs] at hrun; cases hrun
  | some s =>
    rw [hs] at hrun
    simp only [Option.map_some, Option.some.injEq, decide_eq_true_eq] at hrun
    exact ⟨s, run_reach_init hs, hrun⟩

/-- the truncated test across the 16-bit wrap: fires two units later, not one; exactly 2^16 (+1) units later it
misses (the list is then freed by the next retire / gc or by the destructor), never the other way round -/
example : expired 65535 1 = true ∧ expired 65535 0 = false ∧ expired 7 65543 = false ∧ expired 7 65544 = false ∧
    expired 7 65545 = true := by decide

end Babylon.Properties.C04
