/-
  Property C08 — Future / Promise / CountDownLatch: the value reaches every waiter and callback
  exactly once.  Property theorems only; the model is Babylon/Future/Model.lean, helper lemmas and
  invariants live in Babylon/Future/Lemmas*.lean.
-/
import Babylon.Future.Model

namespace Babylon.Properties.C08
open Babylon.Future Babylon.Gen.Future Babylon.Core

/-! ## Generated obligations: the current /repo source is the one the model was written against -/

theorem gen_skel_set_value : skel_set_value = Skel.set_value := by decide
theorem gen_skel_seal : skel_seal = Skel.seal := by decide
theorem gen_skel_get : skel_get = Skel.get := by decide
theorem gen_skel_wait_for : skel_wait_for = Skel.wait_for := by decide
theorem gen_skel_on_finish : skel_on_finish = Skel.on_finish := by decide
theorem gen_skel_wait_slow : skel_wait_slow = Skel.wait_slow := by decide
theorem gen_skel_wait_for_slow : skel_wait_for_slow = Skel.wait_for_slow := by decide
theorem gen_skel_promise_set_value : skel_promise_set_value = Skel.promise_set_value := by decide
theorem gen_skel_future_ready : skel_future_ready = Skel.future_ready := by decide
theorem gen_skel_count_down : skel_count_down = Skel.count_down := by decide
theorem gen_skel_latch_ctor : skel_latch_ctor = Skel.latch_ctor := by decide

/-- constants and branch shapes: READY is bit 31 of a 32-bit word, SEALED is the all-ones pointer,
waiters add exactly one, the setter wakes iff the old word was non-zero, the clamp and the expiry
test of `wait_for` are at zero, the latch fires at zero with value 0. -/
theorem gen_constants :
    readyMask = 2 ^ 31 ∧ sealedHead = 2 ^ 64 - 1 ∧ sizeofFutexWord = 4 ∧ sizeofHead = 8 ∧ sizeofCount = 8 ∧
    futexNeedCreate = 0 ∧ wakeIfWaitersAbove = 0 ∧
    waitAddOperand = 1 ∧ waitAddLocalBump = 1 ∧ waitForAddOperand = 1 ∧ waitForAddLocalBump = 1 ∧
    timeoutExpiredAtMost = 0 ∧ timeoutClampLow = 0 ∧ waitForSlowFinal = true ∧ waitForFast = true ∧
    latchFireAt = 0 ∧ latchValue = 0 := by decide

/-- the orders publication rests on: the seal releases and acquires, the READY exchange releases,
every load / RMW through which a reader learns "ready" acquires, the registration CAS releases on
success and acquires on failure, the latch decrement is acq_rel. -/
theorem gen_orders :
    ordSeal.releases = true ∧ ordSeal.acquires = true ∧ ordFutexXchg.releases = true ∧
    ordGetLoad.acquires = true ∧ ordWaitForLoad.acquires = true ∧ ordWaitAdd.acquires = true ∧
    ordWaitLoad.acquires = true ∧ ordWaitForAdd.acquires = true ∧ ordWaitForSlowLoad.acquires = true ∧
    ordRegLoad.acquires = true ∧ ordRegCasSucc.releases = true ∧ ordRegCasFail.acquires = true ∧
    ordFutureReady.acquires = true ∧ ordCountSub.releases = true ∧ ordCountSub.acquires = true := by decide

end Babylon.Properties.C08
