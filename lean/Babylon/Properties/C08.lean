/-
  Property C08 — property theorems only (helper lemmas live next to the model).
  Stub: nothing claimed yet.
-/
namespace Babylon.Properties.C08
end Babylon.Properties.C08
