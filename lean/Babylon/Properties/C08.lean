/-
  Property C08 — Future / Promise / CountDownLatch: the value reaches every waiter and callback
  exactly once.  Property theorems only; the model is Babylon/Future/Model.lean, helper lemmas and
  invariants live in Babylon/Future/Lemmas*.lean.
-/
import Babylon.Future.Model
import Babylon.Future.LemmasK
import Babylon.Future.LemmasH
import Babylon.Future.LemmasR
import Babylon.Future.Run
import Babylon.Future.ViewLemmas

namespace Babylon.Properties.C08
open Babylon.Future Babylon.Gen.Future Babylon.Core

/-! ## Generated obligations: the current /repo source is the one the model was written against -/

theorem gen_skel_set_value : skel_set_value = Skel.set_value := by decide
theorem gen_skel_seal : skel_seal = Skel.seal := by decide
theorem gen_skel_get : skel_get = Skel.get := by decide
theorem gen_skel_wait_for : skel_wait_for = Skel.wait_for := by decide
theorem gen_skel_on_finish : skel_on_finish = Skel.on_finish := by decide
theorem gen_skel_wait_slow : skel_wait_slow = Skel.wait_slow := by decide
theorem gen_skel_wait_for_slow : skel_wait_for_slow = Skel.wait_for_slow := by decide
theorem gen_skel_promise_set_value : skel_promise_set_value = Skel.promise_set_value := by decide
theorem gen_skel_future_ready : skel_future_ready = Skel.future_ready := by decide
theorem gen_skel_count_down : skel_count_down = Skel.count_down := by decide
theorem gen_skel_latch_ctor : skel_latch_ctor = Skel.latch_ctor := by decide

/-- constants and branch shapes: READY is bit 31 of a 32-bit word, SEALED is the all-ones pointer,
waiters set exactly bit 0, the setter wakes iff the old word was non-zero, the clamp and the expiry
test of `wait_for` are at zero, the latch fires at zero with value 0. -/
theorem gen_constants :
    readyMask = 2 ^ 31 ∧ sealedHead = 2 ^ 64 - 1 ∧ sizeofFutexWord = 4 ∧ sizeofHead = 8 ∧ sizeofCount = 8 ∧
    futexNeedCreate = 0 ∧ wakeIfWaitersAbove = 0 ∧
    waitOrOperand = 1 ∧ waitOrLocalMask = 1 ∧ waitForOrOperand = 1 ∧ waitForOrLocalMask = 1 ∧
    timeoutExpiredAtMost = 0 ∧ timeoutClampLow = 0 ∧ waitForSlowFinal = true ∧ waitForFast = true ∧
    latchFireAt = 0 ∧ latchValue = 0 := by decide

/-- the waiter mark in the futex word is a flag set with `fetch_or` in both slow paths — not a counter
incremented with `fetch_add`, which is never decremented by a `wait_for` that times out and carries
into READY_MASK after 2^31 waits (the defect fixed by /repo e39f62f; harness mode `wrap`). -/
theorem gen_waiter_flag :
    skel_wait_slow.head? = some (.rmw "fetch_or" "_futex.value()" .acq) ∧
    skel_wait_for_slow.getD 1 (.call "") = .rmw "fetch_or" "_futex.value()" .acq ∧
    (skel_wait_slow ++ skel_wait_for_slow).all (fun x => match x with | .rmw op _ _ => op == "fetch_or" | _ => true) = true := by
  decide

/-- the orders publication rests on: the seal releases and acquires, the READY exchange releases,
every load / RMW through which a reader learns "ready" acquires, the registration CAS releases on
success and acquires on failure, the latch decrement is acq_rel. -/
theorem gen_orders :
    ordSeal.releases = true ∧ ordSeal.acquires = true ∧ ordFutexXchg.releases = true ∧
    ordGetLoad.acquires = true ∧ ordWaitForLoad.acquires = true ∧ ordWaitRmw.acquires = true ∧
    ordWaitLoad.acquires = true ∧ ordWaitForRmw.acquires = true ∧ ordWaitForSlowLoad.acquires = true ∧
    ordRegLoad.acquires = true ∧ ordRegCasSucc.releases = true ∧ ordRegCasFail.acquires = true ∧
    ordFutureReady.acquires = true ∧ ordCountSub.releases = true ∧ ordCountSub.acquires = true := by decide

/-! ## Property theorems

All statements are about every state reachable by `Step` from `Init`: every interleaving of one
setter (or the `count_down`s of a latch) with any number of threads calling `get`, `wait_for τ` (any
`int64_t` τ), `on_finish`/`then`, `ready` on copies of the future, any number of times; spurious futex
wake-ups and spurious weak-CAS failures included; the clock advances arbitrarily.

The futex word only ever holds 0, 1, READY, READY|1 (`InvF`), so no hypothesis on the number of
waits is needed (before the fix e39f62f the low bits were a never-decremented counter and every
READY-dependent theorem needed `adds < 2^31`). -/

abbrev Reach (s : State) : Prop := Reachable Init Step s

/-- the value storage holds the argument of `set_value` (or nothing yet), and is written at most once -/
theorem fut_value_once {s : State} (hr : Reach s) :
    s.constructs ≤ 1 ∧ s.seals ≤ 1 ∧ (s.storage = none ∨ (s.storage = s.setVal ∧ s.setVal.isSome = true)) := by
  have hS := InvS.reach hr
  refine ⟨hS.cons_le, Nat.le_trans hS.seals_le hS.cons_le, ?_⟩
  have := hS.cons_le
  by_cases h0 : s.constructs = 0
  · exact .inl (hS.storage_none h0)
  · exact .inr (hS.storage_some (by omega))

/-- **callbacks, safety**: at every moment a callback has run at most once, never before the value
was constructed, and what it found in the storage is the value passed to `set_value`. -/
theorem fut_cb_safe {s : State} (hr : Reach s) (id : Nat) :
    (s.runs id).length ≤ 1 ∧ ∀ x ∈ s.runs id, x = s.setVal ∧ x.isSome = true ∧ s.storage = x := by
  have hK := InvK.reach hr
  have hS := InvS.reach hr
  constructor
  · cases hst : s.regStarted id
    · simp [(hK.fresh id hst).1]
    · have := hK.started id hst
      cases ho : s.regOwner id with
      | none => simp [ho] at this
      | some t =>
        cases hh : holds (s.pc t) id
        · have := hK.tokB id t ho hh; omega
        · simp [(hK.tokA id t ho hh).1]
  · intro x hx
    obtain ⟨h1, h2⟩ := hK.seen id x hx
    have hc : s.constructs = 1 := by
      have := hS.cons_le
      by_cases h0 : s.constructs = 0
      · rw [hS.storage_none h0] at h2; cases h2
      · omega
    obtain ⟨h3, h4⟩ := hS.storage_some hc
    subst h1
    exact ⟨h3, h2, rfl⟩

/-- **callbacks, no loss**: once `on_finish(cb)` has returned, `cb` has run or is queued (in the open
list, or in the list the setter detached and is running) — exactly one of the two. -/
theorem fut_cb_not_lost {s : State} (hr : Reach s) (id : Nat) (hreg : s.regDone id = true) :
    (s.runs id).length + (lists s).count id = 1 := by
  have hK := InvK.reach hr
  cases hst : s.regStarted id
  · have := (hK.fresh id hst).2.2.1; rw [hreg] at this; cases this
  · have := hK.started id hst
    cases ho : s.regOwner id with
    | none => simp [ho] at this
    | some t =>
      cases hh : holds (s.pc t) id
      · exact hK.tokB id t ho hh
      · have := (hK.tokA id t ho hh).2.2; rw [hreg] at this; cases this

/-- **callbacks, exactly once** (`fut_cb_exactly_once`): when both `on_finish(cb)` and `set_value`
have returned — whichever came first, or concurrently — `cb` has run exactly once and saw the value. -/
theorem fut_cb_exactly_once {s : State} (hr : Reach s) (id : Nat)
    (hreg : s.regDone id = true) (hset : s.setDone = true) :
    s.runs id = [s.setVal] ∧ s.setVal.isSome = true ∧ s.storage = s.setVal := by
  have hS := InvS.reach hr
  have h1 := fut_cb_not_lost hr id hreg
  obtain ⟨hx, _, hdet, _⟩ := hS.done hset
  have hhead : s.head = none := hS.head_none.mpr (hS.xchg_seal hx)
  have hl : lists s = [] := by simp [lists, hhead, hdet]
  rw [hl] at h1
  have hlen : (s.runs id).length = 1 := by simpa using h1
  obtain ⟨_, hsafe⟩ := fut_cb_safe hr id
  match hr' : s.runs id with
  | [] => simp [hr'] at hlen
  | [x] =>
    obtain ⟨h3, h4, h5⟩ := hsafe x (by simp [hr'])
    subst h3
    exact ⟨rfl, h4, h5⟩
  | _ :: _ :: _ => simp [hr'] at hlen

/-- **publication**: every read of the value by a getter or a callback, and every read of a callback
node by the setter, is ordered after the corresponding write by the release/acquire edges the code has. -/
theorem fut_publication_hb {s : State} (hr : Reach s) : s.unsync = false :=
  (InvH.reach hr).unsync

/-- **get** (`fut_get_value`): `get()` returns only after READY was published, and what the caller
reads is the value passed to `set_value`. -/
theorem fut_get_value {s : State} (hr : Reach s) (t : Nat) (x : Option Nat)
    (h : s.result t = some (.got x)) : x = s.setVal ∧ x.isSome = true ∧ s.head = none := by
  have hS := InvS.reach hr
  obtain ⟨h1, h2, h3⟩ := (InvR.reach hr).resG t x h
  have hc : s.constructs = 1 := by
    have := hS.cons_le
    by_cases h0 : s.constructs = 0
    · rw [hS.storage_none h0] at h2; cases h2
    · omega
  subst h1
  exact ⟨(hS.storage_some hc).1, h2, hS.head_none.mpr (hS.xchg_seal h3)⟩

/-- a thread about to return from `get()` has observed READY after the constructor and the seal -/
theorem fut_get_only_after_ready {s : State} (hr : Reach s) (t : Nat) (h : s.pc t = .gR) :
    s.xchgDone = true ∧ s.head = none ∧ s.storage = s.setVal ∧ s.setVal.isSome = true := by
  have hS := InvS.reach hr
  have hx := (InvF.reach hr).gR t h
  have hs := hS.xchg_seal hx
  have hc : s.constructs = 1 := by have := hS.cons_le; have := hS.seals_le; omega
  exact ⟨hx, hS.head_none.mpr hs, hS.storage_some hc⟩

/-- **no lost wake-up** (`fut_no_lost_wakeup`): a thread asleep in `futex_wait` (no `wake_all` since it
fell asleep) either sleeps on a word the setter has not exchanged yet, or the setter is just about to
call `wake_all`.  There is no state with READY published, the setter past its wake, and a sleeper. -/
theorem fut_no_lost_wakeup {s : State} (hr : Reach s) (t : Nat) (ha : asleepIn s t = true) :
    s.xchgDone = false ∨ ∃ u d, s.firer = some u ∧ s.pc u = .s3 d := by
  have hF := InvF.reach hr
  have hS := InvS.reach hr
  cases hx : s.xchgDone
  · exact .inl rfl
  · right
    have hc : s.constructs = 1 := by have := hS.xchg_seal hx; have := hS.cons_le; have := hS.seals_le; omega
    have hf : s.firer ≠ none := fun hn => by have := hS.none_fired hn; omega
    cases hfu : s.firer with
    | none => exact absurd hfu hf
    | some u =>
      have key : isS3 (s.pc u) = true := by
        unfold asleepIn at ha
        split at ha
        · rename_i e he; exact (hF.wS t e he).2.2 (by simpa using ha) hx u hfu
        · rename_i w e he; exact (hF.fS t w e he).2.2 (by simpa using ha) hx u hfu
        · cases ha
      cases hp : s.pc u <;> simp [hp, isS3] at key
      exact ⟨u, _, rfl, hp⟩

/-- after `set_value` has returned nobody is asleep -/
theorem fut_no_sleeper_after_set {s : State} (hr : Reach s) (hd : s.setDone = true) (t : Nat) :
    asleepIn s t = false := by
  cases ha : asleepIn s t
  · rfl
  · rcases fut_no_lost_wakeup hr t ha with hx | ⟨u, d, hf, hp⟩
    · have := ((InvS.reach hr).done hd).1; rw [hx] at this; cases this
    · have := ((InvS.reach hr).done hd).2.2.2 u; rw [hp] at this; cases this

/-- **no deadlock**: once `set_value` has returned every thread that is inside a call can take a step
(without relying on spurious wake-ups) -/
theorem fut_no_deadlock {s : State} (hr : Reach s) (hd : s.setDone = true)
    (addr : Nat → Nat) (t : Nat) (hp : s.pc t ≠ .idle) : (stepThread addr s t {}).isSome = true := by
  have ha := fut_no_sleeper_after_set hr hd t
  unfold asleepIn at ha
  cases hpc : s.pc t <;> simp only [hpc] at ha hp <;> simp only [stepThread, hpc]
  case idle => exact absurd rfl hp
  case wS e => simp at ha; simp; omega
  all_goals (first | (simp; done) | (split <;> first | (simp; done) | (split <;> simp)))

/-- **wait_for = true** (`fut_wait_for_sound`, first half): only if READY was observed, hence after
the value was constructed and the list sealed. -/
theorem fut_wait_for_true {s : State} (hr : Reach s) (t : Nat) (b : Bool) (st to n : Nat)
    (h : s.result t = some (.waited true b st to n)) :
    s.xchgDone = true ∧ s.head = none ∧ s.storage = s.setVal ∧ s.setVal.isSome = true := by
  have hS := InvS.reach hr
  have hx := (InvR.reach hr).resT t b st to n h
  have hs := hS.xchg_seal hx
  have hc : s.constructs = 1 := by have := hS.cons_le; have := hS.seals_le; omega
  exact ⟨hx, hS.head_none.mpr hs, hS.storage_some hc⟩

/-- **wait_for = false** (`fut_wait_for_sound`, second half): only from the slow path, and only if
the clock value `n` the call read last is at least `start + timeout` (`start` = clock read at entry,
`timeout = max 0 τ` as passed by `wait_for`), although `until_ns = start + timeout` is computed in
wrap-around `int64_t`; the only assumption is that the clock reading is below 2^63 ns. -/
theorem fut_wait_for_false {s : State} (hr : Reach s) (t : Nat) (b : Bool) (st to n : Nat)
    (h : s.result t = some (.waited false b st to n)) :
    b = true ∧ st ≤ n ∧ n ≤ s.now ∧ (n < 2 ^ 63 → st + to ≤ n) := by
  obtain ⟨h1, h2, h3, h4⟩ := InvRF.reach hr t b st to n h
  exact ⟨h1, h3, h2, h4⟩

/-- the timeout handed to `wait_for_slow` is `max(0, τ)`: negative timeouts are clamped to zero -/
theorem fut_wait_for_clamp (addr : Nat → Nat) (s s' : State) (t : Nat) (tau : Int) (h : Hint) (l : Act)
    (hp : s.pc t = .f0 tau) (hnr : hasReady s.futex = false) (hst : stepThread addr s t h = some (s', l)) :
    s'.pc t = .f1 (max 0 tau).toNat := by
  simp only [stepThread, hp, hnr, timeoutClampLow] at hst
  simp only [Option.some.injEq, Prod.mk.injEq] at hst
  obtain ⟨rfl, _⟩ := hst
  simp

/-- **after set_value**: once READY is published, `get` goes straight to its return, `wait_for(τ)`
returns `true` for every τ, `ready()` returns `true`, `on_finish` runs the callback inline. -/
theorem fut_after_set {s : State} (hr : Reach s) (hx : s.xchgDone = true)
    (addr : Nat → Nat) (t : Nat) (h : Hint) (s' : State) (l : Act) (hst : stepThread addr s t h = some (s', l)) :
    (s.pc t = .g0 → s'.pc t = .gR) ∧
    (∀ tau, s.pc t = .f0 tau → s'.pc t = .ret (.waited true false 0 0 0)) ∧
    (s.pc t = .q0 → s'.pc t = .ret (.ready true)) ∧
    (∀ id, s.pc t = .r0 id → s'.pc t = .rRun id) := by
  have hF := InvF.reach hr
  have hS := InvS.reach hr
  have hrd : hasReady s.futex = true := (wordReady_or (hF.word1 hx)).2.1
  have hh : s.head = none := hS.head_none.mpr (hS.xchg_seal hx)
  refine ⟨?_, ?_, ?_, ?_⟩
  · intro hp
    simp only [stepThread, hp, hrd, if_true, Option.some.injEq, Prod.mk.injEq] at hst
    obtain ⟨rfl, _⟩ := hst; simp
  · intro tau hp
    simp only [stepThread, hp, hrd, if_true, waitForFast, Option.some.injEq, Prod.mk.injEq] at hst
    obtain ⟨rfl, _⟩ := hst; simp
  · intro hp
    simp only [stepThread, hp, hh, Option.some.injEq, Prod.mk.injEq] at hst
    obtain ⟨rfl, _⟩ := hst; simp
  · intro id hp
    simp only [stepThread, hp, hh, Option.some.injEq, Prod.mk.injEq] at hst
    obtain ⟨rfl, _⟩ := hst; simp

/-- `ready()` returns `true` only after the list was sealed, i.e. after the value was constructed -/
theorem fut_ready_true {s : State} (hr : Reach s) (t : Nat) (h : s.result t = some (.ready true)) :
    s.head = none ∧ s.storage = s.setVal ∧ s.setVal.isSome = true := by
  have hS := InvS.reach hr
  have hh := (InvR.reach hr).resReady t h
  have hs := hS.head_none.mp hh
  have hc : s.constructs = 1 := by have := hS.cons_le; have := hS.seals_le; omega
  exact ⟨hh, hS.storage_some hc⟩

/-- **latch** (`latch_exact`): the latch's promise is set at most once; it is never ready before the
count is zero; the `count_down` that brings the count to zero is the (only) thread that enters
`set_value`; and once every call has returned, ready ⇔ count = 0. -/
theorem latch_exact {s : State} (hr : Reach s) (hl : s.latch = true) :
    (s.constructs ≤ 1 ∧ s.seals ≤ 1) ∧
    (s.head = none → s.count = 0) ∧
    (s.count = 0 → s.firer.isSome = true) ∧
    (∀ t, inSet (s.pc t) = true → s.firer = some t) ∧
    ((∀ t, s.pc t = .idle) → (s.count = 0 ↔ s.head = none) ∧ (s.count = 0 → s.setDone = true ∧ s.storage = some latchValue)) := by
  have hP := InvP.reach hr
  have hS := InvS.reach hr
  have hL := InvL.reach hr
  have hsealed : s.head = none → s.count = 0 := fun hh => by
    have hs := hS.head_none.mp hh
    have hc : s.constructs ≠ 0 := by have := hS.seals_le; omega
    have hf : s.firer ≠ none := fun hn => hc (hS.none_fired hn)
    exact hP.fired hl (by cases hfu : s.firer <;> simp_all)
  refine ⟨⟨hS.cons_le, Nat.le_trans hS.seals_le hS.cons_le⟩, hsealed, hP.zero hl, hP.owner, ?_⟩
  intro hidle
  have hdone : s.count = 0 → s.setDone = true := fun h0 => by
    have := hP.zero hl h0
    cases hfu : s.firer with
    | none => simp [hfu] at this
    | some u =>
      rcases hL u hfu with hin | hd
      · rw [hidle u] at hin; cases hin
      · exact hd
  refine ⟨⟨fun h0 => ?_, hsealed⟩, fun h0 => ⟨hdone h0, ?_⟩⟩
  · exact hS.head_none.mpr (hS.xchg_seal (hS.done (hdone h0)).1)
  · have hx := (hS.done (hdone h0)).1
    have hc : s.constructs = 1 := by have := hS.xchg_seal hx; have := hS.cons_le; have := hS.seals_le; omega
    rw [(hS.storage_some hc).1, hS.latch_val hl]

/-! ## Non-vacuity: concrete reachable states satisfying the hypotheses above -/

/-- callback 0 registered by thread 1 before the seal (run by the setter), callback 1 by thread 2 whose
CAS loses to the sealing exchange (run inline), a getter (thread 3) that sleeps on the futex and is
woken, `set_value(7)` by thread 0 -/
def demoEvs : List Ev := [
  .reg 1 0, .act 1 {}, .act 1 {}, .act 1 {},         -- on_finish(cb0): load, CAS ok, return
  .reg 2 1, .act 2 {},                               -- on_finish(cb1): load (list still open)
  .get 3, .act 3 {}, .act 3 {}, .act 3 {},           -- get: load, fetch_or, futex_wait (sleeps)
  .set 0 7, .act 0 {}, .act 0 {}, .act 0 {},         -- set_value(7): ready check, construct, seal
  .act 2 {}, .act 2 {}, .act 2 {},                   -- cb1: CAS fails on SEALED, run inline, return
  .act 0 {}, .act 0 {woken := 1},                    -- exchange READY, wake_all
  .act 3 {}, .act 3 {}, .act 3 {},                   -- getter: woken, load READY, return the value
  .act 0 {}, .act 0 {}]                              -- run cb0, return
def demo : Option State := runEvs (State.init none) demoEvs
theorem demo_some : demo.isSome = true := by decide

example : let s := demo.get demo_some
    Reach s ∧ s.setDone = true ∧ s.regDone 0 = true ∧ s.regDone 1 = true ∧
    s.runs 0 = [some 7] ∧ s.runs 1 = [some 7] ∧ s.result 3 = some (.got (some 7)) ∧ s.adds = 1 := by
  refine ⟨runEvs_reach (init_reach none (by simp)) demoEvs (Option.some_get demo_some).symm, ?_⟩
  decide

/-- a latch with count 3: `count_down(1)` by thread 1, `count_down(2)` by thread 2 fires; thread 3 polls
`wait_for(5)` across a clock tick of 10 ns before that (returns false), then `ready()` afterwards -/
def latchEvs : List Ev := [
  .waitFor 3 5, .act 3 {}, .act 3 {}, .act 3 {}, .act 3 {},   -- load, clock, fetch_or, futex_wait (sleeps)
  .tick 10, .act 3 {}, .act 3 {}, .act 3 {}, .act 3 {},       -- timeout, load, clock, return false
  .down 1 1, .act 1 {}, .act 1 {},                            -- 3 → 2
  .down 2 2, .act 2 {},                                       -- 2 → 0: this thread sets the promise
  .act 2 {}, .act 2 {}, .act 2 {}, .act 2 {}, .act 2 {}, .act 2 {},
  .ready 3, .act 3 {}, .act 3 {}]
def latchDemo : Option State := runEvs (State.init (some 3)) latchEvs
theorem latchDemo_some : latchDemo.isSome = true := by decide

example : let s := latchDemo.get latchDemo_some
    Reach s ∧ s.latch = true ∧ s.count = 0 ∧ s.setDone = true ∧ s.firer = some 2 ∧
    s.result 3 = some (.ready true) ∧ (∀ t < 8, s.pc t = .idle) := by
  refine ⟨runEvs_reach (init_reach (some 3) (by simp)) latchEvs (Option.some_get latchDemo_some).symm, ?_⟩
  decide

/-- the state right after the timed-out `wait_for(5)` of that run: `false`, 10 ns ≥ 0 + 5 elapsed -/
theorem latchDemo10_some : (runEvs (State.init (some 3)) (latchEvs.take 10)).isSome = true := by decide
example : ∃ s, Reach s ∧ s.result 3 = some (.waited false true 0 5 10) :=
  ⟨(runEvs (State.init (some 3)) (latchEvs.take 10)).get latchDemo10_some,
    runEvs_reach (init_reach (some 3) (by simp)) _ (Option.some_get latchDemo10_some).symm, by decide⟩

/-! ## Publication under the release/acquire view model (`Core/MemView.lean`, stale reads allowed)

`Babylon/Future/ViewModel.lean` is the publication skeleton of `set_value` / `get` / `wait_for` /
`ready` / `on_finish` over `MemView.Mem`: the setter writes the value storage (plain), seals `_head`
(RMW, order `ordSeal`), publishes READY in `_futex` (RMW, order `ordFutexXchg`) and runs the detached
callbacks; readers load `_futex` / `_head` at ANY timestamp their view admits, `fetch_or` the waiter
flag, race the registration CAS against the seal (failure order `ordRegCasFail`), and finally read
the value at any admissible timestamp.  All orders are the constants `gen/future.py` extracts. -/

section ViewLevel
open Babylon.Future.ViewM Babylon.Core.MemView

/-- generated obligation: the orders in the current source give release on both publishing RMWs and
acquire on every load / RMW / failed CAS through which a reader learns "ready" -/
theorem gen_view_orders : genOrds.Good := by decide

abbrev VReach (s : VState) : Prop := Reachable VInit (VStep genOrds) s

/-- **publication, view level** (`fut_publication_view`): in every execution of the view model, whatever
a `get()` / `wait_for()=true` caller, a `ready()=true` observer, an inline callback (registered after
the seal or racing it: CAS lost to the sealing exchange) or a callback run by the setter reads from
the value storage is the argument of `set_value` — never the unconstructed content. -/
theorem fut_publication_view {s : VState} (hr : VReach s) (t x : Nat) (h : s.pc t = .done x) :
    s.setv = some x :=
  (VInv.reach gen_view_orders hr).done t x h

/-- the same for any orders satisfying `Ords.Good` (what the proof really uses) -/
theorem fut_publication_view_of_good (o : Ords) (hg : o.Good) {s : VState}
    (hr : Reachable VInit (VStep o) s) (t x : Nat) (h : s.pc t = .done x) : s.setv = some x :=
  (VInv.reach hg hr).done t x h

/-- **happens-before form**: a thread that has observed READY / SEALED (or is the setter running its
callbacks) has a view that contains the write of the value: its read of the storage cannot return
timestamp 0 (the unconstructed content), and every read it can make returns the set value. -/
theorem fut_publication_view_hb {s : VState} (hr : VReach s) (t : Nat) (h : s.pc t = .gR ∨ s.pc t = .s3) :
    1 ≤ (s.m.tv t).cur.get Loc.value ∧ s.m.read t .value .rlx 0 = none ∧
    ∀ ts m' x, s.m.read t .value .rlx ts = some (m', x) → s.setv = some x ∧ 1 ≤ ts := by
  have hi := VInv.reach gen_view_orders hr
  have hk : K s.m t := hi.know t (by rcases h with h | h <;> simp [h, knows])
  refine ⟨hk, ?_, fun ts m' x hrd => ?_⟩
  · cases hrd : s.m.read t .value .rlx 0 with
    | none => rfl
    | some p =>
      obtain ⟨m', x⟩ := p
      have := (L_readv hrd hi.minv hk).2.1
      omega
  · obtain ⟨h1, h2, _, _⟩ := L_readv hrd hi.minv hk
    exact ⟨h1, h2⟩

/-! ### concrete executions: positive runs and negative controls (evaluated by `decide`) -/

/-- what thread `t` ends up with after the events `es` (storage initially holds 99) -/
def viewRun (o : Ords) (es : List VEv) (t : Nat) : Option VPc := (runV o (VState.init 99) es).map (fun s => s.pc t)

/-- set_value(7) completes publication; thread 1 calls get(), loads the READY message, reads the value -/
def getEvs (valueTs : Nat) : List VEv :=
  [.set 0 7, .act 0 0, .act 0 0, .act 0 0, .get 1 .get, .act 1 1, .act 1 valueTs]
/-- thread 1 starts on_finish on the open list, the setter constructs and seals, thread 1's CAS loses to the
sealing exchange (reads the SEALED message) and runs the callback inline -/
def regRaceEvs (valueTs : Nat) : List VEv :=
  [.reg 1 5, .act 1 0, .set 0 7, .act 0 0, .act 0 0, .act 1 1, .act 1 valueTs]

-- with the orders of the source: the new value is read, the stale (unconstructed) one is not admissible
example : viewRun genOrds (getEvs 1) 1 = some (.done 7) := by decide
example : viewRun genOrds (getEvs 0) 1 = none := by decide
example : viewRun genOrds (regRaceEvs 1) 1 = some (.done 7) := by decide
example : viewRun genOrds (regRaceEvs 0) 1 = none := by decide
/-- the positive run is a reachable state of the view model (non-vacuity of `fut_publication_view`) -/
theorem viewDemo_some : (runV genOrds (VState.init 99) (regRaceEvs 1)).isSome = true := by decide
example : ∃ s, VReach s ∧ s.pc 1 = .done 7 ∧ s.setv = some 7 :=
  ⟨(runV genOrds (VState.init 99) (regRaceEvs 1)).get viewDemo_some,
    runV_reach (Reachable.base ⟨99, rfl⟩) _ (Option.some_get viewDemo_some).symm, by decide, by decide⟩

-- NEGATIVE CONTROLS: relax one publishing / observing operation and the conclusion fails — the reader
-- can read the unconstructed storage (99) although it observed READY / SEALED
/-- READY exchange relaxed: get() returns garbage -/
example : viewRun { genOrds with xchg := .rlx } (getEvs 0) 1 = some (.done 99) := by decide
/-- get()'s load relaxed -/
example : viewRun { genOrds with getLoad := .rlx } (getEvs 0) 1 = some (.done 99) := by decide
/-- seal relaxed: the callback whose registration lost to the seal sees garbage -/
example : viewRun { genOrds with sealO := .rlx } (regRaceEvs 0) 1 = some (.done 99) := by decide
/-- CAS failure order relaxed -/
example : viewRun { genOrds with casFail := .rlx } (regRaceEvs 0) 1 = some (.done 99) := by decide
/-- and such orders are rejected by the obligation -/
example : ¬ ({ genOrds with xchg := .rlx } : Ords).Good := by decide
example : ¬ ({ genOrds with sealO := .rlx } : Ords).Good := by decide

end ViewLevel

end Babylon.Properties.C08
