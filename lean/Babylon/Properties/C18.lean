/-
  Property C18 — hash set/map: contents, size and iteration match a reference set after any
  history.  Property theorems only; helper lemmas live in Babylon/Swiss/SeqLemmas.lean.
-/
import Babylon.Swiss.Seq

namespace Babylon.Properties.C18
open Babylon.Swiss Babylon.Gen.Swiss Babylon.Core

/-- Generated obligation: the model's constants are the ones in the source. -/
theorem gen_constants :
    groupSize = 16 ∧ groupMask = 15 ∧ checkerMask = 127 ∧ checkerBits = 7 ∧ dummyLen = 32 ∧
    emptyCtl = -128 ∧ busyCtl = -127 ∧ dummyCtl = -126 := by decide

/-- Generated obligation: `total_size` starts its sum from the head table's *element count*
(not its bucket count, which is 16 for the element-less placeholder head). -/
theorem gen_total_size_seed : totalSizeSeed = "size" := by decide

end Babylon.Properties.C18
