/-
  Property C18 — hash set/map: contents, size and iteration match a reference set after any
  history.  Property theorems only; helper lemmas live in Babylon/Swiss/SeqLemmas*.lean.

  Model: `Babylon/Swiss/Seq.lean` (sequential model of `ConcurrentFixedSwissTable` /
  `ConcurrentTransientHashSet` / `…HashMap`, differential-tested against the real code on every
  run of the check).  All theorems hold for every hash function `hash : Nat → Nat`, every table
  size and every operation sequence.

  Invariant (defined in `SeqLemmasWF.lean` / `SeqLemmasSet.lean`):
  * `Table.WF hash t`: not the placeholder; `n` a power of two `≥ 16`; `ctrl.length = n + 16`,
    `vals.length = n`; mirrored tail bytes `ctrl[n+j] = ctrl[j]` (`j < 15`); every bucket is
    `(EMPTY, none)` or `(tag (hash k), some (k, v))`; `size` = number of elements; keys pairwise
    distinct; probe-prefix-full (`Table.Reach`: every window probed before the one holding a key
    is full).
  * `HSet.WF hash s`: the head is the placeholder or a `WF` table, every chained table is `WF`,
    every table that has a successor is saturated (placeholder, or all `n` buckets occupied), and
    keys are pairwise distinct across all tables.
  Abstraction: `HSet.abs s` = all stored pairs in iteration order (an association list with
  pairwise distinct keys).  Reference: association list with insert-if-absent (`specInsert`).
-/
import Babylon.Swiss.SeqLemmasRun
import Babylon.Swiss.Pinned

namespace Babylon.Properties.C18
open Babylon.Swiss Babylon.Gen.Swiss Babylon.Core

/-- Generated obligation: the model's constants are the ones in the source. -/
theorem gen_constants :
    groupSize = 16 ∧ groupMask = 15 ∧ checkerMask = 127 ∧ checkerBits = 7 ∧ dummyLen = 32 ∧
    emptyCtl = -128 ∧ busyCtl = -127 ∧ dummyCtl = -126 := by decide

/-- Generated obligation: `total_size` starts its sum from the head table's *element count*
(not its bucket count, which is 16 for the element-less placeholder head). -/
theorem gen_total_size_seed : totalSizeSeed = "size" := by decide

/-- Generated obligations: the source text of every fixed-table function the model follows is the text
the model was written against (`Swiss/Pinned.lean`). -/
theorem gen_src_table : src_find = Pinned.find ∧ src_do_emplace = Pinned.do_emplace ∧ src_table_clear = Pinned.table_clear ∧ src_table_rehash = Pinned.table_rehash ∧ src_table_reserve = Pinned.table_reserve ∧ src_construct_with_bucket = Pinned.construct_with_bucket ∧ src_table_begin = Pinned.table_begin ∧ src_find_first_non_empty = Pinned.find_first_non_empty ∧ src_table_swap = Pinned.table_swap ∧ src_table_copy_ctor = Pinned.table_copy_ctor ∧ src_table_iter_incr = Pinned.table_iter_incr := ⟨rfl, rfl, rfl, rfl, rfl, rfl, rfl, rfl, rfl, rfl, rfl⟩
/-- … and of every set-level function (growth chain, size, iteration, clear / reserve / rehash / copy). -/
theorem gen_src_set : src_set_emplace = Pinned.set_emplace ∧ src_set_find = Pinned.set_find ∧ src_set_begin = Pinned.set_begin ∧ src_set_size = Pinned.set_size ∧ src_set_total_size = Pinned.set_total_size ∧ src_set_clear = Pinned.set_clear ∧ src_set_rehash = Pinned.set_rehash ∧ src_set_reserve = Pinned.set_reserve ∧ src_set_swap = Pinned.set_swap ∧ src_set_copy_ctor = Pinned.set_copy_ctor ∧ src_set_iter_incr = Pinned.set_iter_incr := ⟨rfl, rfl, rfl, rfl, rfl, rfl, rfl, rfl, rfl, rfl, rfl⟩

/-! ### 1. the invariant holds initially and is preserved by every operation -/

/-- what the table invariant says (so that the statement is visible here) -/
theorem table_wf_unfold {hash : Nat → Nat} {t : Table} (h : t.WF hash) :
    t.dummy = false ∧ (∃ k, t.n = 2 ^ k) ∧ 16 ≤ t.n ∧ t.ctrl.length = t.n + 16 ∧
    t.vals.length = t.n ∧ (∀ j, j < 15 → t.ctl (t.n + j) = t.ctl j) ∧
    (∀ i, i < t.n → (t.ctl i = emptyCtl ∧ t.val i = none) ∨
      (∃ k v, t.ctl i = tagOf (hash k) ∧ t.val i = some (k, v))) ∧
    t.size = t.occupied.length ∧
    (∀ i j k, i < t.n → j < t.n → t.keyAt i = some k → t.keyAt j = some k → i = j) ∧
    (∀ i k, i < t.n → t.keyAt i = some k → t.Reach i (t.n / 16) 0 (t.baseOf (hash k))) := by
  refine ⟨h.notDummy, h.pow2, h.ge16, h.ctrlLen, h.valsLen, h.mirror, h.bucket, ?_, h.distinct,
    h.reach⟩
  rw [h.sizeEq]
  unfold Table.elems
  apply filterMap_length_of_isSome
  intro x hx
  unfold Table.occupied at hx
  rw [List.mem_filter, List.mem_range] at hx
  obtain ⟨k, v, _, hv⟩ := h.ctl_nonneg hx.1 (by simpa using hx.2)
  simp [hv]

/-- what the set invariant says -/
theorem set_wf_unfold {hash : Nat → Nat} {s : HSet} (h : s.WF hash) :
    (s.head = Table.placeholder ∨ s.head.WF hash) ∧ (∀ t ∈ s.chain, t.WF hash) ∧
    (s.chain ≠ [] → s.head.Sat) ∧ (s.abs.map (·.1)).Nodup := by
  obtain ⟨hok, hsat, hrest⟩ := h.chain
  refine ⟨?_, ?_, hsat, h.nodup⟩
  · rcases hok with h1 | ⟨_, h1⟩
    · exact Or.inr h1
    · exact Or.inl h1
  · have : ∀ (c : List Table), ChainOK hash false c → ∀ t ∈ c, t.WF hash := by
      intro c
      induction c with
      | nil => intro _ t ht; cases ht
      | cons a as ih =>
        intro hc t ht
        rcases List.mem_cons.1 ht with rfl | ht
        · rcases hc.1 with h1 | ⟨h1, _⟩
          · exact h1
          · cases h1
        · exact ih hc.2.2 t ht
    exact this _ hrest

theorem wf_default (hash : Nat → Nat) : HSet.default.WF hash ∧ HSet.default.abs = [] :=
  ⟨(default_refines hash).1, (default_refines hash).2.eq_nil⟩

theorem wf_withBuckets (hash : Nat → Nat) (n : Nat) :
    (HSet.withBuckets n).WF hash ∧ (HSet.withBuckets n).abs = [] :=
  ⟨(withBuckets_refines hash n).1, (withBuckets_refines hash n).2.eq_nil⟩

theorem wf_emplace {hash : Nat → Nat} {s : HSet} (h : s.WF hash) (e : Elem) :
    (s.emplace hash e).1.WF hash := (h.emplace_spec e).1

theorem wf_clear {hash : Nat → Nat} {s : HSet} (h : s.WF hash) : s.clear.WF hash := h.clear.1

theorem wf_reserve {hash : Nat → Nat} {s : HSet} (h : s.WF hash) (n : Nat) :
    (s.reserve hash n).WF hash := (h.reserve n).1

theorem wf_rehash {hash : Nat → Nat} {s : HSet} (h : s.WF hash) (n : Nat) :
    (s.rehash hash n).WF hash := (h.rehash n).1

theorem wf_copy {hash : Nat → Nat} {s : HSet} (h : s.WF hash) : (s.copy hash).WF hash := h.copy.1

/-- every operation of the protocol (including move assignment and swap of two containers)
preserves the invariant of both registers -/
theorem wf_step {hash : Nat → Nat} {ms : Regs HSet} (h : ∀ r, (ms.get r).WF hash) (op : Op) :
    ∀ r, ((mstep hash ms op).1.get r).WF hash := by
  have href : RefS hash ms ⟨ms.a.abs, ms.b.abs⟩ := by
    intro r
    cases r
    · exact ⟨h .A, List.Perm.refl _⟩
    · exact ⟨h .B, List.Perm.refl _⟩
  intro r
  exact ((step_refines href op).1 r).1

/-! ### 2. `emplace` -/

/-- `table_probe_complete`: the table-level `emplace` refuses (`{end(), false}`) only when every
bucket is occupied (triangular probing visits all `n / 16` windows, which cover the ring), and
then the table is unchanged and does not hold the key. -/
theorem table_probe_complete {hash : Nat → Nat} {t : Table} (h : t.WF hash) (e : Elem)
    (hfull : (t.emplace hash e).2 = .full) :
    (∀ i, i < t.n → 0 ≤ t.ctl i) ∧ t.size = t.n ∧ (t.emplace hash e).1 = t ∧ t.Absent e.1 := by
  rcases h.emplace_spec e with ⟨i, v, h1, _⟩ | ⟨i, t', h1, _⟩ | ⟨h1, h2, h3⟩
  · rw [h1] at hfull; cases hfull
  · rw [h1] at hfull; cases hfull
  · refine ⟨?_, h.sat_size h2, by rw [h1], h3⟩
    rcases h2 with hd | hs
    · rw [h.notDummy] at hd; cases hd
    · exact hs

/-- the classic fact behind it: triangular numbers below `2^k` are pairwise distinct mod `2^k`,
hence hit every residue -/
theorem triangular_complete (k : Nat) :
    (∀ a b, a < 2 ^ k → b < 2 ^ k → tri a % 2 ^ k = tri b % 2 ^ k → a = b) ∧
    (∀ w, w < 2 ^ k → ∃ m, m < 2 ^ k ∧ tri m % 2 ^ k = w) :=
  ⟨fun _ _ ha hb h => tri_inj ha hb h, fun _ hw => tri_surj hw⟩

/-- the table-level `emplace` never takes a `continue` branch (BUSY / lost race) sequentially -/
theorem table_emplace_never_stuck {hash : Nat → Nat} {t : Table} (h : t.WF hash) (e : Elem) :
    (t.emplace hash e).2 ≠ .stuck := by
  rcases h.emplace_spec e with ⟨i, v, h1, _⟩ | ⟨i, t', h1, _⟩ | ⟨h1, _⟩ <;>
    (rw [h1]; intro hc; cases hc)

/-- set-level `emplace` never gets stuck; it reports `inserted = true` iff the key was absent;
the returned position holds the first-inserted pair (the new pair if absent, the unchanged old
pair otherwise); the content afterwards is the old content plus the pair if the key was absent. -/
theorem emplace_spec {hash : Nat → Nat} {s : HSet} (h : s.WF hash) (e : Elem) :
    ∃ ti i, (s.emplace hash e).2 = .done ti i (s.abs.lookup e.1).isNone ∧
      (s.emplace hash e).1.at ti i = some (e.1, (s.abs.lookup e.1).getD e.2) ∧
      (s.emplace hash e).1.abs.Perm (specInsert s.abs e) := by
  have href : Refines hash s s.abs := ⟨h, List.Perm.refl _⟩
  obtain ⟨h1, ti, i, h2, h3⟩ := href.emplace e
  exact ⟨ti, i, h2, h3, h1.2⟩

theorem emplace_never_stuck {hash : Nat → Nat} {s : HSet} (h : s.WF hash) (e : Elem) :
    (s.emplace hash e).2 ≠ .stuck := by
  obtain ⟨ti, i, h1, _⟩ := emplace_spec h e
  rw [h1]; intro hc; cases hc

/-- if the key is present nothing changes at all -/
theorem emplace_present_unchanged {hash : Nat → Nat} {s : HSet} (h : s.WF hash) (e : Elem)
    {v : Nat} (hv : s.abs.lookup e.1 = some v) : (s.emplace hash e).1 = s := by
  rcases (h.emplace_spec e).2 with ⟨_, ti, i, _, heq, _⟩ | ⟨habs, _⟩
  · rw [heq]
  · rw [lookup_none_of_absent habs] at hv; cases hv

/-- the content as a finite map after `emplace`: first insertion wins -/
theorem emplace_lookup {hash : Nat → Nat} {s : HSet} (h : s.WF hash) (e : Elem) (k : Nat) :
    (s.emplace hash e).1.abs.lookup k =
      match s.abs.lookup k with
      | some v => some v
      | none => if k = e.1 then some e.2 else none := by
  obtain ⟨_, _, _, _, hp⟩ := emplace_spec h e
  rw [lookup_perm hp (wf_emplace h e).nodup k]
  exact lookup_specInsert _ _ _

/-! ### 3. `find` -/

/-- `find` succeeds exactly for the stored keys and yields the first-inserted pair -/
theorem find_eq_lookup {hash : Nat → Nat} {s : HSet} (h : s.WF hash) (k : Nat) :
    s.find hash k = (s.abs.lookup k).map (fun v => (k, v)) := h.find_eq k

theorem find_iff_mem {hash : Nat → Nat} {s : HSet} (h : s.WF hash) (k v : Nat) :
    s.find hash k = some (k, v) ↔ (k, v) ∈ s.abs := by
  rw [h.find_eq k]
  constructor
  · intro hf
    cases hl : s.abs.lookup k with
    | none => rw [hl] at hf; cases hf
    | some w =>
      rw [hl] at hf
      simp only [Option.map_some, Option.some.injEq, Prod.mk.injEq, true_and] at hf
      subst hf
      exact mem_of_lookup hl
  · intro hm
    rw [lookup_of_mem_nodup h.nodup hm]
    rfl

/-! ### 4. `size` -/

/-- `size()` is the number of stored pairs, whose keys are pairwise distinct -/
theorem size_eq_card {hash : Nat → Nat} {s : HSet} (h : s.WF hash) :
    s.size = s.abs.length ∧ (s.abs.map (·.1)).Nodup := ⟨h.size_eq, h.nodup⟩

/-! ### 5. iteration -/

/-- `begin()` … `++` … `end()` visits exactly the stored pairs -/
theorem iter_eq_abs (s : HSet) : s.iter = s.abs := s.iter_eq

/-- each element is visited exactly once, `size()` of them, and they are the `find`-able ones -/
theorem iter_each_once {hash : Nat → Nat} {s : HSet} (h : s.WF hash) :
    (s.iter.map (·.1)).Nodup ∧ s.iter.length = s.size ∧
    ∀ k v, (k, v) ∈ s.iter ↔ s.find hash k = some (k, v) := by
  rw [s.iter_eq]
  exact ⟨h.nodup, h.size_eq.symm, fun k v => (find_iff_mem h k v).symm⟩

/-! ### 6. `clear`, `reserve`, `rehash`, copy -/

theorem clear_empty {hash : Nat → Nat} {s : HSet} (h : s.WF hash) :
    s.clear.WF hash ∧ s.clear.abs = [] ∧ s.clear.size = 0 := by
  have h1 := h.clear
  have h2 : s.clear.abs = [] := h1.2.eq_nil
  refine ⟨h1.1, h2, ?_⟩
  rw [h1.1.size_eq, h2]; rfl

theorem reserve_preserves {hash : Nat → Nat} {s : HSet} (h : s.WF hash) (n : Nat) :
    (s.reserve hash n).abs.Perm s.abs ∧
    ∀ k, (s.reserve hash n).abs.lookup k = s.abs.lookup k :=
  ⟨(h.reserve n).2, fun k => lookup_perm (h.reserve n).2 (h.reserve n).1.nodup k⟩

theorem rehash_preserves {hash : Nat → Nat} {s : HSet} (h : s.WF hash) (n : Nat) :
    (s.rehash hash n).abs.Perm s.abs ∧
    ∀ k, (s.rehash hash n).abs.lookup k = s.abs.lookup k :=
  ⟨(h.rehash n).2, fun k => lookup_perm (h.rehash n).2 (h.rehash n).1.nodup k⟩

/-- the copy holds the same key → value pairs (nothing is dropped) -/
theorem copy_eq {hash : Nat → Nat} {s : HSet} (h : s.WF hash) :
    (s.copy hash).abs.Perm s.abs ∧ (s.copy hash).size = s.size ∧
    ∀ k, (s.copy hash).abs.lookup k = s.abs.lookup k := by
  refine ⟨h.copy.2, ?_, fun k => lookup_perm h.copy.2 h.copy.1.nodup k⟩
  rw [h.copy.1.size_eq, h.size_eq, h.copy.2.length_eq]

/-! ### 7. arbitrary operation sequences -/

/-- both registers default-constructed (initial state of driver and harness) -/
def minit : Regs HSet := ⟨HSet.default, HSet.default⟩
def sinit : Regs (List Elem) := ⟨[], []⟩

/-- **Main theorem.**  For every hash function and every sequence of operations over
{construct (default | n), emplace, find, size, iterate, clear, reserve, rehash, copy,
move-assign, swap} on two containers, every observable output of the model — the `inserted`
flag and stored mapped value of `emplace`, the result of `find`, `size()`, and the iteration
(as a multiset) — equals the output of the reference container (association list, first
insertion wins); in particular `emplace` never spins; and the final states still refine the
reference states (so the statement composes). -/
theorem set_refines_map (hash : Nat → Nat) (ops : List Op) :
    OutsEquiv (runOps (mstep hash) minit ops).2 (runOps sstep sinit ops).2 ∧
    ∀ r, Refines hash ((runOps (mstep hash) minit ops).1.get r)
      ((runOps sstep sinit ops).1.get r) := by
  have h0 : RefS hash minit sinit := by
    intro r; cases r <;> exact default_refines hash
  obtain ⟨h1, h2⟩ := run_refines ops h0
  exact ⟨h2, h1⟩

/-- the same from any pair of well-formed containers (e.g. constructed with any bucket count) -/
theorem set_refines_map_from (hash : Nat → Nat) (ms : Regs HSet) (ss : Regs (List Elem))
    (h : ∀ r, Refines hash (ms.get r) (ss.get r)) (ops : List Op) :
    OutsEquiv (runOps (mstep hash) ms ops).2 (runOps sstep ss ops).2 ∧
    ∀ r, Refines hash ((runOps (mstep hash) ms ops).1.get r) ((runOps sstep ss ops).1.get r) := by
  obtain ⟨h1, h2⟩ := run_refines ops h
  exact ⟨h2, h1⟩

/-- no `emplace` of any run ever reports `stuck` -/
theorem run_never_stuck (hash : Nat → Nat) (ops : List Op) :
    Out.stuck ∉ (runOps (mstep hash) minit ops).2 := by
  have hspec : ∀ (ops : List Op) (ss : Regs (List Elem)), Out.stuck ∉ (runOps sstep ss ops).2 := by
    intro ops
    induction ops with
    | nil => intro ss h; cases h
    | cons op ops ih =>
      intro ss h
      simp only [runOps] at h
      rcases List.mem_cons.1 h with h | h
      · cases op <;> simp only [sstep] at h <;> (try split at h) <;> cases h
      · exact ih _ h
  have htr : ∀ {os os' : List Out}, OutsEquiv os os' → Out.stuck ∈ os → Out.stuck ∈ os' := by
    intro os os' he
    induction he with
    | nil => intro h; cases h
    | cons ho _ ih =>
      intro h
      rcases List.mem_cons.1 h with h | h
      · subst h
        rename_i o' _ _ _
        cases o' <;> simp [Out.Equiv] at ho
        exact List.mem_cons_self
      · exact List.mem_cons_of_mem _ (ih h)
  intro h
  exact hspec ops sinit (htr (set_refines_map hash ops).1 h)

/-! ### 8. non-vacuity: concrete, non-trivial well-formed states -/

/-- 40 keys with the same tag and consecutive probe bases (identity hash) -/
def keys40 : List Elem := (List.range 40).map (fun k => (k * 128 + 5, k + 100))

/-- a default-constructed set after 40 insertions: placeholder head + tables of 32 and 64 -/
def s40 : HSet := HSet.default.emplaceAll id keys40

set_option maxRecDepth 100000 in
example : s40.tables.map (·.n) = [16, 32, 64] ∧ s40.tables.map (·.size) = [0, 32, 8] ∧
    s40.size = 40 ∧ s40.iter.length = 40 ∧ s40.find id (17 * 128 + 5) = some (17 * 128 + 5, 117) ∧
    s40.find id 6 = none := by decide +kernel

/-- the invariant's hypotheses are satisfiable by that state (and by every reachable state) -/
example : s40.WF id ∧ s40.abs.Perm keys40 := by
  have := Refines.emplaceAll (hash := id) keys40 (default_refines id)
  rw [foldl_specInsert_nodup _ _ (by decide)] at this
  exact this

/-- a colliding hash (everything in one probe sequence) on a sized container that must grow -/
example : ((HSet.withBuckets 16).emplaceAll (fun _ => 0) keys40).WF (fun _ => 0) ∧
    ((HSet.withBuckets 16).emplaceAll (fun _ => 0) keys40).abs.Perm keys40 := by
  have := Refines.emplaceAll (hash := fun _ => 0) keys40 (withBuckets_refines _ 16)
  rw [foldl_specInsert_nodup _ _ (by decide)] at this
  exact this

set_option maxRecDepth 100000 in
example : ((HSet.withBuckets 16).emplaceAll (fun _ => 0) keys40).tables.map (·.size) = [16, 24] ∧
    ((HSet.withBuckets 16).emplaceAll (fun _ => 0) keys40).size = 40 := by decide +kernel

/-- a run exercising growth, copy, swap, clear, reserve and rehash; outputs as predicted -/
def demoOps : List Op :=
  (List.range 20).map (fun k => Op.emplace .A (k * 128) k) ++
  [.emplace .A 128 999, .size .A, .find .A 128, .copy .A .B, .swap .A .B, .clear .B, .size .B,
   .reserve .A 100, .rehash .A 7, .size .A, .find .A (19 * 128), .find .A 1]

set_option maxRecDepth 100000 in
example : ((runOps (mstep id) minit demoOps).2.drop 20) =
    [.emplaced false (some 1), .size 20, .found (some 1), .ok, .ok, .ok, .size 0, .ok, .ok,
     .size 20, .found (some 19), .found none] := by decide +kernel

end Babylon.Properties.C18
