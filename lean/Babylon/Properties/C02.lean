/-
  Property C02 — bounded queue: a blocked push/pop is always woken (no lost wake-up, no deadlock);
  the timed exclusive pop returns by its deadline.  Property theorems only; same model as C01
  (Babylon/BQ/Model.lean: futex_wait re-checks the word, wake_all wakes every sleeper of the slot,
  spurious wake-ups allowed, timeouts are clock events), lemmas in Babylon/BQ/{Wake,WakeStep,Progress,
  Timed}.lean.  Quantification as in C01: all interleavings, thread counts, capacities 2^bits, client
  programs within the contract, `Ver16Faithful` steps.

  Theorems (all proved, no partials):
    bq_sleep_sound        futex level, no assumption on pairing: a sleeper's slot still carries the waiter
                          bit, or a thread is committed to wake_all on that slot.
    bq_wake_pending       under the pairing rules (invariant `bq_pairing`): a sleeper whose awaited version is
                          present while the waiter bit is still set is owed a wake-up by a thread committed to
                          wake_all, or by the waking batch releaser that stored that version (relaxed 16-bit
                          store; seq_cst fence; re-load; CAS-clear; wake_all) and has not finished the re-load /
                          CAS / wake of that slot.
    bq_guard_stable       the awaited version stays until the waiter acts.
    bq_no_cyclic_wait     the chain "my slot is the turn of a ticket held by ..." ends in a thread that is not
                          waiting, in a waiter whose version is present, or in a ticket the client did not request.
    bq_no_stuck           safety form of deadlock freedom: whenever some thread is inside an operation, some
                          thread is Runnable (inside an operation and not in a blocking wait — its next action is
                          enabled, `bq_active_enabled` — or in a blocking wait whose version is present and not
                          asleep), or a slot is ready for a ticket that no call has requested yet (unbalanced
                          program: the queue waits for the client).  Fairness of the scheduler is assumed, not
                          proved (no temporal logic): the theorems say a step is always available and
                          `bq_guard_stable` says it stays useful.
    bq_timed_bound        remaining timeout ≤ timeout of the call; expiry test ends the wait.
  `bq_wake_view` (batch waker against the waiter over the View memory model) is proved below, with negative controls.
  All executions here are sequentially consistent interleavings; the seq_cst fence of the batch waker is tied by
  `gen_batch_wake_fence`, weak-memory behaviour is exercised by the VRT view-mode pass of the check.
-/
import Babylon.BQ.Spec
import Babylon.BQ.WakePending
import Babylon.BQ.WakeView
import Babylon.BQ.Skel
import Babylon.BQ.Examples

namespace Babylon.Properties.C02
open Babylon.BQ Babylon.Core Babylon.Gen.BQ

/-! ### generated obligations on the wake-up code -/
/-- waiter: load; CAS(version → version|WAITER); futex_wait on the combined word; re-load.
single waker: exchange(release) then wake_all; batch waker: relaxed load, CAS-clear (relaxed), wake_all -/
theorem gen_wake_code :
    skel_block_slow = Skel.block_slow ∧ skel_spin_slow = Skel.spin_slow ∧ skel_wait = Skel.wait ∧
    skel_wakeup_waiters = Skel.wakeup_waiters ∧ skel_set_version_and_wakeup = Skel.set_version_and_wakeup ∧
    waiterInc = 65536 ∧ waiterThreshold = 65535 ∧ waiterThresholdOps = ["<=", "<=", "<="] ∧ spinUsleep = 1000 := by decide
/-- the batch releases end with: release fence, relaxed version stores, **seq_cst fence**, wakeup_waiters -/
theorem gen_batch_wake_fence :
    skel_deal_n = Skel.deal_n ∧ skel_try_deal_n = Skel.try_deal_n ∧
    ords_deal_n = [.rlx, .acq, .rel, .rlx, .sc] ∧ ords_try_deal_n = [.rlx, .rlx, .rlx, .acq, .rel, .rlx, .sc] ∧
    (Skel.deal_n.drop 4 = [.fence .rel, .call "mark_tsan_release", .call "set_version", .fence .sc, .call "wakeup_waiters"]) := by
  decide
/-- the compensating paths never wake and never futex-wait; the timed pop futex-waits and is exclusive -/
theorem gen_pairing_sites :
    compFlags = [true, false, true, false] ∧ timedFlags = [true, false] ∧
    skel_deal_n_comp = Skel.deal_n_comp ∧ skel_timed_pop_n = Skel.timed_pop_n ∧ timedWaitsOnIndexPlusNum = 1 := by decide

/-- source text of the waiter / waker functions (parameter types — `wakeup_waiters(uint16_t)` truncates `expected_version + 1` —,
the timeout refresh of block_until_reach_expected_version_slow, the early returns of wakeup_waiters) -/
theorem gen_src_wake :
    src_decl_slotfutex = Skel.Pinned.decl_slotfutex ∧
    src_wakeup_waiters = Skel.Pinned.wakeup_waiters ∧
    src_set_version_and_wakeup = Skel.Pinned.set_version_and_wakeup ∧
    src_block_slow = Skel.Pinned.block_slow ∧
    src_spin_slow = Skel.Pinned.spin_slow ∧
    src_wait = Skel.Pinned.wait :=
  ⟨rfl, rfl, rfl, rfl, rfl, rfl⟩

/-- source text of the batch operations: template flags (WAIT / WAKE order) at the call sites of both ring segments, the
stores-fence-wakeup tail -/
theorem gen_src_batch_sites :
    src_push_n = Skel.Pinned.push_n ∧
    src_pop_n = Skel.Pinned.pop_n ∧
    src_deal_n = Skel.Pinned.deal_n ∧
    src_try_deal_n = Skel.Pinned.try_deal_n ∧
    src_timed_pop_n = Skel.Pinned.timed_pop_n :=
  ⟨rfl, rfl, rfl, rfl, rfl⟩

/-- source text of the scheduling interface the waits and wake-ups go through (sched_interface.hpp): one FUTEX_WAIT syscall per
wait with the caller's relative timeout and no retry loop, FUTEX_WAKE(INT32_MAX) for wake_all -/
theorem gen_src_sched :
    src_sched_futex_wait = Skel.Pinned.sched_futex_wait ∧
    src_sched_futex_wake_one = Skel.Pinned.sched_futex_wake_one ∧
    src_sched_futex_wake_all = Skel.Pinned.sched_futex_wake_all ∧
    src_sched_usleep = Skel.Pinned.sched_usleep ∧
    src_sched_yield = Skel.Pinned.sched_yield ∧
    src_futex_wait = Skel.Pinned.futex_wait ∧
    src_futex_wake_all = Skel.Pinned.futex_wake_all :=
  ⟨rfl, rfl, rfl, rfl, rfl, rfl, rfl⟩

/-! ### no lost wake-up at the futex level -/
/-- **bq_sleep_sound.**  (S0) a thread hands to futex_wait only a word value with the waiter bit set;
(S1) while a thread sleeps on a slot, that slot's waiter bit is still set — so the next releaser that
exchanges the word, or re-loads it after its stores, sees it — or some thread has consumed the bit and is
committed to `wake_all` on that slot (it is at the wake-up call itself); the wake-up, when performed, makes
every sleeper of the slot runnable (`Step`/`wakeAll`). -/
theorem bq_sleep_sound (c : Cfg) (y : Sys) (h : ReachF c y) :
    (∀ t cur, (y.s.pc t).waitVal = some cur → waiterThreshold < cur) ∧
    (∀ t sl, (y.s.pc t).asleepOn c sl → y.s.wbit sl = true ∨ ∃ u, (y.s.pc u).strong c sl) :=
  ⟨(sinv_reach h).s0, (sinv_reach h).s1⟩

/-- the kernel's re-check: a thread falls asleep only if the word still equals the value it registered with -/
theorem bq_sleep_rechecks (c : Cfg) (s s' : State) (t : Nat) (inp : Inp) (l : Act) (x : WCtx) (cur : Nat)
    (hp : s.pc t = .wait x (.fwait cur)) (h : stepThread c s t inp = some (s', l))
    (hs : s'.pc t = .wait x (.asleep cur)) : s.word (x.slot c) = cur := by
  simp only [stepThread, hp] at h
  split at h
  · assumption
  · simp only [Option.some.injEq, Prod.mk.injEq] at h
    rw [← h.1] at hs; simp [State.setPc, upd] at hs

/-- **bq_guard_stable.**  Once the version a ticket holder waits for is present it stays until the holder
itself releases the ticket (so a fair scheduler lets every such waiter proceed). -/
theorem bq_guard_stable (c : Cfg) (y y' : Sys) (hy : ReachF c y) (h : StepF c y y') (t : Nat) (sd : Side) (i : Nat)
    (hv : y.s.ver (slotOf c i) = expVer c sd i) (hh' : (y'.s.pc t).held sd i) :
    y'.s.ver (slotOf c i) = expVer c sd i := guard_stable hy h t sd i hv hh'

/-- slot versions never decrease -/
theorem bq_version_monotone (c : Cfg) (y y' : Sys) (hy : ReachF c y) (h : StepF c y y') (sl : Nat) :
    y.s.ver sl ≤ y'.s.ver sl := step_ver_mono (inv_reach hy) h sl

/-- **bq_pairing.**  The template flags carried by every thread agree with the run's pairing configuration: a
thread that may futex-wait for a ticket of side `sd` runs where every release of the opposite side wakes, and a
thread that may release on `sd` without waking runs where `c.wakes sd = false` (documented pairing rules,
enforced on calls by `Call.paired`). -/
theorem bq_pairing (c : Cfg) (y : Sys) (h : ReachF c y) (t : Nat) (sd : Side) :
    ((y.s.pc t).mf sd → c.wakes sd.other = true) ∧ ((y.s.pc t).nw sd → c.wakes sd = false) := flaginv_reach h t sd

/-- **bq_wake_pending.**  A sleeper (not the timed one) whose awaited version is present while the waiter bit of its
slot is still set is owed a wake-up: some thread is at `wake_all` for that slot, or is the waking batch releaser that
stored exactly that version and has not finished `wakeup_waiters` for that slot — covering every interleaving of the
waiter's CAS-registration / futex_wait with the waker's store / fence / re-load / CAS-clear. -/
theorem bq_wake_pending (c : Cfg) (y : Sys) (h : ReachF c y) (t : Nat) (x : WCtx) (cur : Nat)
    (hp : y.s.pc t = .wait x (.asleep cur)) (hnt : x.isTimed = false)
    (hv : y.s.ver (x.slot c) = x.E c) (hb : y.s.wbit (x.slot c) = true) :
    ∃ u, (y.s.pc u).strong c (x.slot c) ∨ (y.s.pc u).cond c (x.slot c) (x.E c) := s2_reach h t x cur hp hnt hv hb

/-- **bq_no_cyclic_wait.**  If some thread is inside a blocking wait then
(1) a thread that is inside an operation is *not* in a blocking wait, or
(2) some blocked thread's awaited version is present, or
(3) a slot is ready for a ticket that no call has requested yet (the program is not balanced yet). -/
theorem bq_no_cyclic_wait (c : Cfg) (y : Sys) (h : ReachF c y) (t sl E : Nat)
    (hw : (y.s.pc t).waitingOn c = some (sl, E)) : Progress c y := no_cyclic_wait (inv_reach h) E t sl hw

/-- **bq_no_stuck.**  No reachable state has every unfinished thread asleep, or spinning on a version nobody will
produce: if some thread is inside an operation, then some thread is `Runnable`, or a slot is ready for a ticket that no
call has requested yet (for programs whose pushes and pops balance, the missing operation is still to be issued by the
client).  In particular a balanced program never reaches VRT's deadlock verdict along a path of the model. -/
theorem bq_no_stuck (c : Cfg) (y : Sys) (h : ReachF c y) (t : Nat) (ht : y.s.pc t ≠ .idle) :
    (∃ u, Runnable c y u) ∨ (∃ sd i, y.s.idx sd ≤ i ∧ y.s.ver (slotOf c i) = expVer c sd i) := no_stuck h t ht

/-- a thread that is inside an operation and not in a blocking wait can indeed move: its next action (or its return) is enabled -/
theorem bq_active_enabled (c : Cfg) (y : Sys) (u : Nat) (hne : y.s.pc u ≠ .idle) (hw : (y.s.pc u).waitingOn c = none) :
    ∃ y', Step c y y' := active_enabled c y u hne hw

/-- for balanced programs case (3) cannot persist: when as many pops as pushes have been requested and
nobody holds a ticket, every issued ticket has been served and the next version of every slot … is the
statement `bq_all_served` of C01; here: a ready slot for an unissued *pop* ticket `i` means push ticket `i`
was completed, i.e. an element is queued that nobody asked for yet. -/
theorem bq_unissued_pop_means_element (c : Cfg) (y : Sys) (h : ReachF c y) (i : Nat)
    (hv : y.s.ver (slotOf c i) = expVer c .pop i) : y.s.pushedV i = some (y.s.val (slotOf c i)) :=
  (inv_reach h).valRd i hv

/-! ### the batch waker's handshake under weak memory (Babylon/BQ/WakeView.lean)
Release/acquire view model of Core/MemView.lean; the two halves of the futex word as two locations (only adds behaviours);
futex_wait = full barrier + load (kernel contract); orders from the generated constants, a missing fence extracted as `.rlx`. -/
/-- **bq_wake_view.**  Batch waker [set_version(ordBatchStore); fence(ordBatchScFence); word.load(ordWakeLoad)] against a waiter
[CAS waiter mark (ordBatchLoad); futex barrier; kernel value check]: in NO interleaving of the view model (all of them, stale reads
included) do both sides read the other's initial message — the waker sees the mark or the kernel sees the new version: no lost
wake-up.  For deal_n_continuously and try_deal_n_continuously. -/
theorem bq_wake_view : WakeView.lostWakeup ordBatchScFence .sc = false ∧ WakeView.lostWakeup ordTryBatchScFence .sc = false :=
  WakeView.wake_view

/-- **bq_wake_view_needs_fence** (negative control).  With the waker's seq_cst fence dropped (extracted as `.rlx`) or weakened to
acq_rel the wake-up can be lost: the dropped-fence mutation breaks `bq_wake_view` itself. -/
theorem bq_wake_view_needs_fence : WakeView.lostWakeup .rlx .sc = true ∧ WakeView.lostWakeup .acqrel .sc = true :=
  WakeView.wake_view_needs_fence

/-- the waiter side needs the barrier of futex_wait as well (trusted kernel contract) -/
theorem bq_wake_view_needs_futex_barrier : WakeView.lostWakeup ordBatchScFence .rlx = true := WakeView.wake_view_needs_futex_barrier

open Babylon.Core.MemView in
/-- general form, waker's fence first: a waiter that passes the futex barrier afterwards cannot have the kernel check read a version
older than the waker's store — it does not sleep on the stale version (arbitrary steps of anybody in between) -/
theorem bq_wake_view_waker_first {L : Type} [DecidableEq L] (m : Mem L) (p c : Nat) (lv : L) (nv : Nat) (o : Babylon.Core.Ord)
    {m2 m3 m4 : Mem L} {ts v : Nat}
    (hext : ((m.write p lv ordBatchStore nv).fence p ordBatchScFence).Ext m2) (hext2 : (m2.fence c .sc).Ext m3)
    (hrd : m3.read c lv o ts = some (m4, v)) : m.len lv ≤ ts := WakeView.wake_view_waker_first m p c lv nv o hext hext2 hrd

open Babylon.Core.MemView in
/-- general form, waiter's barrier first: a waker that fences afterwards and then loads the mark cannot read a message older than the
waiter's CAS — it sees the mark, clears it and calls wake_all -/
theorem bq_wake_view_waiter_first {L : Type} [DecidableEq L] (m : Mem L) (p c : Nat) (wt : L) (f : Nat → Nat)
    {m1 m2 m3 m4 : Mem L} {old ts v : Nat}
    (hrmw : m.rmw c wt ordBatchLoad f = some (m1, old)) (hext : (m1.fence c .sc).Ext m2)
    (hext2 : (m2.fence p ordBatchScFence).Ext m3) (hrd : m3.read p wt ordWakeLoad ts = some (m4, v)) : m.len wt ≤ ts :=
  WakeView.wake_view_waiter_first m p c wt f hrmw hext hext2 hrd

/-! ### timed exclusive pop -/
/-- **bq_timed_bound.**  The relative timeout a thread in `try_pop_n_exclusively_until` still waits with
(the value it hands to futex_wait — checked against the real timeout on every replayed trace) never exceeds the
timeout of the call: it performs no wait reaching past `call time + timeout` as measured by its own clock
readings. -/
theorem bq_timed_bound (c : Cfg) (y : Sys) (h : ReachF c y) (t tmo : Nat) (ht : (y.s.pc t).timedTmo = some tmo) :
    ∃ wk n T, y.cur t = some (.timedPopN wk n T) ∧ tmo ≤ T := tinv_reach h t tmo ht

/-- a clock reading at or past the remaining time ends the wait: the thread goes on to `try_pop_n` and returns
what is available then -/
theorem bq_timed_expiry (c : Cfg) (s : State) (u : Nat) (inp : Inp) (wk : Bool) (i num tb tmo cur : Nat)
    (hp : s.pc u = .wait (.timed wk i num tb tmo) (.clk1 cur)) (hexp : tmo ≤ inp.now - tb) :
    ∃ s' l, stepThread c s u inp = some (s', l) ∧
      s'.pc u = .nIdx .pop { conc := false, wake := wk, acc := 0, g2 := none, back := none } num :=
  timed_expiry c s u inp wk i num tb tmo cur hp hexp

/-- the remaining timeout only shrinks along the thread's own steps -/
theorem bq_timed_shrinks (c : Cfg) (s s' : State) (u : Nat) (inp : Inp) (l : Act)
    (h : stepThread c s u inp = some (s', l)) (tmo' : Nat) (ht : (s'.pc u).timedTmo = some tmo') :
    ∃ tmo, (s.pc u).timedTmo = some tmo ∧ tmo' ≤ tmo := step_timedTmo c s s' u inp l h tmo' ht

/-! ### the abstract specification is refined (used by C07, C10, C16, C17, C20) -/
theorem bq_refines_spec (c : Cfg) (y y' : Sys) (hy : ReachF c y) (h : StepF c y y') :
    Spec.QStep (Spec.absQ y) (Spec.absQ y') := Spec.refines hy h

/-! ### non-vacuity -/
/-- a reachable state with a consumer asleep on slot 0 of the empty queue, waiter bit set (premise of `bq_sleep_sound`) -/
example : ∃ y t, ReachF exCfg y ∧ (y.s.pc t).asleepOn exCfg 0 ∧ y.s.wbit 0 = true :=
  ⟨sl5, 1, sl5_reach, ⟨xw, 65536, rfl, rfl⟩, rfl⟩
/-- that consumer is in a blocking wait for version 1 of slot 0 (premise of `bq_no_stuck_partial`); here case (3)
applies: slot 0 is ready for push ticket 0, which nobody has requested (premises of `bq_no_cyclic_wait`, `bq_no_stuck`) -/
example : (sl5.s.pc 1).waitingOn exCfg = some (0, 1) ∧ sl5.s.idx .push ≤ 0 ∧ sl5.s.ver (slotOf exCfg 0) = expVer exCfg .push 0 :=
  ⟨rfl, Nat.le_refl _, rfl⟩

end Babylon.Properties.C02
