/-
  Property C02 — bounded queue: a blocked push/pop is always woken (no lost wake-up, no deadlock);
  the timed exclusive pop returns by its deadline.  Property theorems only; same model as C01
  (Babylon/BQ/Model.lean: futex_wait re-checks the word, wake_all wakes every sleeper of the slot,
  spurious wake-ups allowed, timeouts are clock events), lemmas in Babylon/BQ/{Wake,WakeStep,Progress,
  Timed}.lean.  Quantification as in C01: all interleavings, thread counts, capacities 2^bits, client
  programs within the contract, `Ver16Faithful` steps.

  What is proved, and what is not:
    bq_sleep_sound        proved (futex level, no assumption on pairing): a sleeper's slot still
                          carries the waiter bit, or a thread is committed to wake_all on that slot.
    bq_guard_stable       proved.
    bq_no_stuck_partial   proved: no cyclic wait — whenever a thread is in a blocking wait, some thread
                          inside an operation is not waiting (and its next action is enabled), or some
                          waiter's awaited version is present, or a slot is ready for a ticket no call
                          has requested yet (the client owes the matching operation: unbalanced program).
    bq_timed_bound        proved: remaining timeout ≤ timeout of the call, expiry test ends the wait.
    NOT proved (kept visible below as `bq_no_stuck` / `bq_wake_pending`): that a sleeper whose awaited
    version is present *while the waiter bit is still set* is owed a wake-up by the batch waker that
    stored that version (relaxed 16-bit store; seq_cst fence; re-load; CAS-clear; wake_all), under the
    pairing rule USE_FUTEX_WAIT ⇒ USE_FUTEX_WAKE on the opposite side.  For the single-element waker
    this is `bq_sleep_sound` (the exchange returns and clears the waiter bit atomically).  The batch
    case is covered by the correspondence (lock-step replay: the implementation performs every wake-up
    of the model; VRT deadlock verdicts on balanced programs incl. weak-memory mode) and by the
    generated obligations `gen_wake_code` / `gen_batch_wake_fence`.
-/
import Babylon.BQ.Spec
import Babylon.BQ.Skel
import Babylon.BQ.Examples

namespace Babylon.Properties.C02
open Babylon.BQ Babylon.Core Babylon.Gen.BQ

/-! ### generated obligations on the wake-up code -/
/-- waiter: load; CAS(version → version|WAITER); futex_wait on the combined word; re-load.
single waker: exchange(release) then wake_all; batch waker: relaxed load, CAS-clear (relaxed), wake_all -/
theorem gen_wake_code :
    skel_block_slow = Skel.block_slow ∧ skel_spin_slow = Skel.spin_slow ∧ skel_wait = Skel.wait ∧
    skel_wakeup_waiters = Skel.wakeup_waiters ∧ skel_set_version_and_wakeup = Skel.set_version_and_wakeup ∧
    waiterInc = 65536 ∧ waiterThreshold = 65535 ∧ spinUsleep = 1000 := by decide
/-- the batch releases end with: release fence, relaxed version stores, **seq_cst fence**, wakeup_waiters -/
theorem gen_batch_wake_fence :
    skel_deal_n = Skel.deal_n ∧ skel_try_deal_n = Skel.try_deal_n ∧
    ords_deal_n = [.rlx, .acq, .rel, .rlx, .sc] ∧ ords_try_deal_n = [.rlx, .rlx, .rlx, .acq, .rel, .rlx, .sc] ∧
    (Skel.deal_n.drop 4 = [.fence .rel, .call "mark_tsan_release", .call "set_version", .fence .sc, .call "wakeup_waiters"]) := by
  decide
/-- the compensating paths never wake and never futex-wait; the timed pop futex-waits and is exclusive -/
theorem gen_pairing_sites :
    compFlags = [true, false, true, false] ∧ timedFlags = [true, false] ∧
    skel_deal_n_comp = Skel.deal_n_comp ∧ skel_timed_pop_n = Skel.timed_pop_n ∧ timedWaitsOnIndexPlusNum = 1 := by decide

/-! ### no lost wake-up at the futex level -/
/-- **bq_sleep_sound.**  (S0) a thread hands to futex_wait only a word value with the waiter bit set;
(S1) while a thread sleeps on a slot, that slot's waiter bit is still set — so the next releaser that
exchanges the word, or re-loads it after its stores, sees it — or some thread has consumed the bit and is
committed to `wake_all` on that slot (it is at the wake-up call itself); the wake-up, when performed, makes
every sleeper of the slot runnable (`Step`/`wakeAll`). -/
theorem bq_sleep_sound (c : Cfg) (y : Sys) (h : ReachF c y) :
    (∀ t cur, (y.s.pc t).waitVal = some cur → waiterThreshold < cur) ∧
    (∀ t sl, (y.s.pc t).asleepOn c sl → y.s.wbit sl = true ∨ ∃ u, (y.s.pc u).strong c sl) :=
  ⟨(sinv_reach h).s0, (sinv_reach h).s1⟩

/-- the kernel's re-check: a thread falls asleep only if the word still equals the value it registered with -/
theorem bq_sleep_rechecks (c : Cfg) (s s' : State) (t : Nat) (inp : Inp) (l : Act) (x : WCtx) (cur : Nat)
    (hp : s.pc t = .wait x (.fwait cur)) (h : stepThread c s t inp = some (s', l))
    (hs : s'.pc t = .wait x (.asleep cur)) : s.word (x.slot c) = cur := by
  simp only [stepThread, hp] at h
  split at h
  · assumption
  · simp only [Option.some.injEq, Prod.mk.injEq] at h
    rw [← h.1] at hs; simp [State.setPc, upd] at hs

/-- **bq_guard_stable.**  Once the version a ticket holder waits for is present it stays until the holder
itself releases the ticket (so a fair scheduler lets every such waiter proceed). -/
theorem bq_guard_stable (c : Cfg) (y y' : Sys) (hy : ReachF c y) (h : StepF c y y') (t : Nat) (sd : Side) (i : Nat)
    (hv : y.s.ver (slotOf c i) = expVer c sd i) (hh' : (y'.s.pc t).held sd i) :
    y'.s.ver (slotOf c i) = expVer c sd i := guard_stable hy h t sd i hv hh'

/-- slot versions never decrease -/
theorem bq_version_monotone (c : Cfg) (y y' : Sys) (hy : ReachF c y) (h : StepF c y y') (sl : Nat) :
    y.s.ver sl ≤ y'.s.ver sl := step_ver_mono (inv_reach hy) h sl

/-- **bq_no_stuck_partial** (no cyclic wait).  If some thread is inside a blocking wait then
(1) a thread that is inside an operation is *not* in a blocking wait, or
(2) some blocked thread's awaited version is present, or
(3) a slot is ready for a ticket that no call has requested yet (the program is not balanced yet).
Missing for the full `bq_no_stuck`: in case (2) a *sleeping* waiter is owed a wake-up (`bq_wake_pending`). -/
theorem bq_no_stuck_partial (c : Cfg) (y : Sys) (h : ReachF c y) (t sl E : Nat)
    (hw : (y.s.pc t).waitingOn c = some (sl, E)) : Progress c y := no_cyclic_wait (inv_reach h) E t sl hw

/-- in case (1) the thread can indeed move: its next action (or its return) is enabled -/
theorem bq_active_enabled (c : Cfg) (y : Sys) (u : Nat) (hne : y.s.pc u ≠ .idle) (hw : (y.s.pc u).waitingOn c = none) :
    ∃ y', Step c y y' := active_enabled c y u hne hw

/-- for balanced programs case (3) cannot persist: when as many pops as pushes have been requested and
nobody holds a ticket, every issued ticket has been served and the next version of every slot … is the
statement `bq_all_served` of C01; here: a ready slot for an unissued *pop* ticket `i` means push ticket `i`
was completed, i.e. an element is queued that nobody asked for yet. -/
theorem bq_unissued_pop_means_element (c : Cfg) (y : Sys) (h : ReachF c y) (i : Nat)
    (hv : y.s.ver (slotOf c i) = expVer c .pop i) : y.s.pushedV i = some (y.s.val (slotOf c i)) :=
  (inv_reach h).valRd i hv

/-
  Full statements not proved (see the header):

  theorem bq_wake_pending (c) (y) (h : ReachF c y) (t sl) (x cur) :
      y.s.pc t = .wait x (.asleep cur) → x.isTimed = false → y.s.ver (x.slot c) = x.E c →
      ∃ u, (y.s.pc u).strong c (x.slot c) ∨ (u is a batch releaser with USE_FUTEX_WAKE that stored x.E c into the slot
                                             and has not finished wakeup_waiters for it)

  theorem bq_no_stuck (c) (y) (h : ReachF c y) : (∃ t, y.s.pc t ≠ .idle) →
      (∃ u y', u's step leads to y' and is not a futile wait iteration) ∨ (a needed ticket is unissued)
-/

/-! ### timed exclusive pop -/
/-- **bq_timed_bound.**  The relative timeout a thread in `try_pop_n_exclusively_until` still waits with
(the value it hands to futex_wait — checked against the real timeout on every replayed trace) never exceeds the
timeout of the call: it performs no wait reaching past `call time + timeout` as measured by its own clock
readings. -/
theorem bq_timed_bound (c : Cfg) (y : Sys) (h : ReachF c y) (t tmo : Nat) (ht : (y.s.pc t).timedTmo = some tmo) :
    ∃ wk n T, y.cur t = some (.timedPopN wk n T) ∧ tmo ≤ T := tinv_reach h t tmo ht

/-- a clock reading at or past the remaining time ends the wait: the thread goes on to `try_pop_n` and returns
what is available then -/
theorem bq_timed_expiry (c : Cfg) (s : State) (u : Nat) (inp : Inp) (wk : Bool) (i num tb tmo cur : Nat)
    (hp : s.pc u = .wait (.timed wk i num tb tmo) (.clk1 cur)) (hexp : tmo ≤ inp.now - tb) :
    ∃ s' l, stepThread c s u inp = some (s', l) ∧
      s'.pc u = .nIdx .pop { conc := false, wake := wk, acc := 0, g2 := none, back := none } num :=
  timed_expiry c s u inp wk i num tb tmo cur hp hexp

/-- the remaining timeout only shrinks along the thread's own steps -/
theorem bq_timed_shrinks (c : Cfg) (s s' : State) (u : Nat) (inp : Inp) (l : Act)
    (h : stepThread c s u inp = some (s', l)) (tmo' : Nat) (ht : (s'.pc u).timedTmo = some tmo') :
    ∃ tmo, (s.pc u).timedTmo = some tmo ∧ tmo' ≤ tmo := step_timedTmo c s s' u inp l h tmo' ht

/-! ### the abstract specification is refined (used by C07, C10, C16, C17, C20) -/
theorem bq_refines_spec (c : Cfg) (y y' : Sys) (hy : ReachF c y) (h : StepF c y y') :
    Spec.QStep (Spec.absQ y) (Spec.absQ y') := Spec.refines hy h

/-! ### non-vacuity -/
/-- a reachable state with a consumer asleep on slot 0 of the empty queue, waiter bit set (premise of `bq_sleep_sound`) -/
example : ∃ y t, ReachF exCfg y ∧ (y.s.pc t).asleepOn exCfg 0 ∧ y.s.wbit 0 = true :=
  ⟨sl5, 1, sl5_reach, ⟨xw, 65536, rfl, rfl⟩, rfl⟩
/-- that consumer is in a blocking wait for version 1 of slot 0 (premise of `bq_no_stuck_partial`); here case (3)
applies: slot 0 is ready for push ticket 0, which nobody has requested -/
example : (sl5.s.pc 1).waitingOn exCfg = some (0, 1) ∧ sl5.s.idx .push ≤ 0 ∧ sl5.s.ver (slotOf exCfg 0) = expVer exCfg .push 0 :=
  ⟨rfl, Nat.le_refl _, rfl⟩

end Babylon.Properties.C02
