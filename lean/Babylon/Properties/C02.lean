/-
  Property C02 — property theorems only (helper lemmas live next to the model).
  Stub: nothing claimed yet.
-/
namespace Babylon.Properties.C02
end Babylon.Properties.C02
