/-
  Property C03 — concurrent hash set/map: linearizable insert-if-absent, one winner per key.
  Property theorems only (model: `Babylon/Swiss/Conc.lean`; invariants and lemmas:
  `Babylon/Swiss/Conc*.lean`, reusing the probing lemmas of the sequential model proved for C18).

  Every theorem quantifies over: the hash function `hash : Nat → Nat` (so colliding hashes and equal
  7-bit tags are included), every state reachable from any initial bucket count or from the
  default-constructed placeholder (`Init`), through any interleaving of any number of threads
  (`Step`: one relaxed byte load / fence + compare / CAS / construct / release store / size add /
  yield / next-pointer load or CAS of any thread, or a call / return), any key multiset, any number
  of growth steps.  `Reach hash s` = `s` is such a state.
-/
import Babylon.Swiss.ConcHist
import Babylon.Swiss.ConcView

namespace Babylon.Properties.C03
open Babylon.Core Babylon.Swiss Babylon.Swiss.Conc
open Babylon.Gen.SwissConc
open Babylon.Gen.Swiss (emptyCtl busyCtl dummyCtl groupSize groupMask checkerMask checkerBits dummyLen)

/-! ### generated obligations: the source still has the shape the model was written against -/

theorem gen_skel_do_emplace : skel_do_emplace = Skel.do_emplace := by decide
theorem gen_skel_find : skel_find = Skel.find := by decide
theorem gen_skel_set_emplace : skel_set_emplace = Skel.set_emplace := by decide
theorem gen_skel_set_find : skel_set_find = Skel.set_find := by decide
theorem gen_skel_group_load : skel_group_load_tsan = Skel.group_load_tsan := by decide
/-- the two generators agree on `do_emplace` / `find` (C18 and C03 model the same code) -/
theorem gen_skel_same_as_seq : Babylon.Gen.Swiss.skel_do_emplace = Babylon.Gen.SwissConc.skel_do_emplace ∧
    Babylon.Gen.Swiss.skel_find = Babylon.Gen.SwissConc.skel_find := by decide
/-- one group = 16 relaxed byte loads; the tag is published with release and read under an acquire
fence; the slot lock is taken by an acquiring CAS EMPTY→BUSY -/
theorem gen_orders : groupLoads = groupSize ∧ ordGroupLoad = .rlx ∧
    ordEmplaceFence.acquires = true ∧ ordFindFence.acquires = true ∧
    ordCasSucc.acquires = true ∧ ordStoreMain.releases = true ∧ ordStoreMirror.releases = true ∧
    ordSetEmplaceNextLoad.acquires = true ∧ ordSetFindHeadLoad.acquires = true ∧
    ordSetFindNextLoad.acquires = true ∧ ordSetCasSucc.acquires = true ∧ ordSetCasSucc.releases = true ∧
    ordSetCasFail.acquires = true := by decide
theorem gen_cas_operands : casExpected = emptyCtl ∧ casDesired = busyCtl ∧
    casFailBranches = [(dummyCtl, "break"), (busyCtl, "yield-continue")] ∧ growShift = 1 := by decide
theorem gen_controls : emptyCtl < 0 ∧ busyCtl < 0 ∧ dummyCtl < 0 ∧ emptyCtl ≠ busyCtl ∧ emptyCtl ≠ dummyCtl ∧
    busyCtl ≠ dummyCtl ∧ groupSize = 16 ∧ groupMask = 15 ∧ checkerMask = 127 ∧ checkerBits = 7 ∧
    dummyLen = 32 := by decide

/-! ### swiss_ctrl_monotone -/

/-- **swiss_ctrl_monotone (1/2).**  In one step of any thread every control byte of every table
either keeps its value or moves EMPTY → BUSY (main byte, by the CAS), BUSY → tag (main byte) or
EMPTY → tag (mirrored byte); tables are never removed, the chain and the history only grow. -/
theorem swiss_ctrl_monotone (hash : Nat → Nat) {s s' : State} (h : Reach hash s) (hst : Step hash s s') :
    (∀ tb, tb < s.nodes.length → ∀ x, CtlMove (nodeAt s.nodes tb).tab.n x
      ((nodeAt s.nodes tb).tab.ctl x) ((nodeAt s'.nodes tb).tab.ctl x)) ∧
    s.nodes.length ≤ s'.nodes.length ∧ s.chain <+: s'.chain ∧ s.log <+: s'.log :=
  ⟨step_ctl_move h hst, (step_mono h hst).1.1, (step_mono h hst).2.1, (step_mono h hst).2.2⟩

/-- never back: a published tag (non-negative byte), a constructed value, a claim and a `next`
pointer are final -/
theorem swiss_ctrl_final (hash : Nat → Nat) {s s' : State} (h : Reach hash s) (hst : Step hash s s')
    {tb : Nat} (htb : tb < s.nodes.length) :
    (∀ x, 0 ≤ (nodeAt s.nodes tb).tab.ctl x → (nodeAt s'.nodes tb).tab.ctl x = (nodeAt s.nodes tb).tab.ctl x) ∧
    (∀ i e, (nodeAt s.nodes tb).tab.val i = some e → (nodeAt s'.nodes tb).tab.val i = some e) ∧
    (∀ x, (nodeAt s.nodes tb).next = some x → (nodeAt s'.nodes tb).next = some x) :=
  let le := (step_mono h hst).1.2 tb htb
  ⟨le.ctl, le.val, le.next⟩

/-- **swiss_ctrl_monotone (2/2).**  A mirrored byte equals its main byte, except that it is still
EMPTY while the inserter of that bucket is between its CAS and its second release store. -/
theorem swiss_mirror_lag (hash : Nat → Nat) {s : State} (h : Reach hash s) {tb j : Nat}
    (htb : tb < s.nodes.length) (hd : (nodeAt s.nodes tb).tab.dummy = false) (hj : j < 15) :
    (nodeAt s.nodes tb).tab.ctl ((nodeAt s.nodes tb).tab.n + j) = (nodeAt s.nodes tb).tab.ctl j ∨
    ((nodeAt s.nodes tb).tab.ctl ((nodeAt s.nodes tb).tab.n + j) = emptyCtl ∧ Inserting s tb j) := by
  have hok := (reachable_good h).1.nodes tb htb
  rcases hok.mirror hd j hj with he | ⟨_, heq⟩
  · by_cases hm : (nodeAt s.nodes tb).tab.ctl j = emptyCtl
    · left; rw [he, hm]
    · exact Or.inr ⟨he, reachable_mirror h tb htb hd j hj hm he⟩
  · exact Or.inl heq

/-! ### swiss_one_winner -/

/-- **swiss_one_winner (1/3).**  For each key at most one call reports `inserted = true`: two
`true` results in the history for the same key are the same event. -/
theorem swiss_one_winner (hash : Nat → Nat) {s : State} (h : Reach hash s) {a b : Nat}
    (ha : a < s.log.length) (hb : b < s.log.length)
    {t1 t2 : Nat} {k1 k2 : Kind} {e1 e2 : Elem} {tb1 i1 tb2 i2 : Nat} {b1 b2 : Bool} {m1 m2 : Option (Nat × Nat)}
    (h1 : s.log[a] = .ret t1 k1 e1 (.slot tb1 i1 true) b1 m1)
    (h2 : s.log[b] = .ret t2 k2 e2 (.slot tb2 i2 true) b2 m2) (hk : e1.1 = e2.1) : a = b := by
  obtain ⟨hi, hl⟩ := reachable_good h
  have r1 := hl.rets _ (h1 ▸ List.getElem_mem ha)
  have r2 := hl.rets _ (h2 ▸ List.getElem_mem hb)
  obtain ⟨l1, p1, _⟩ := r1
  obtain ⟨l2, p2, _⟩ := r2
  rw [hk] at p1
  obtain ⟨e3, e4⟩ := hi.distinct _ _ _ _ _ l1 l2 p1.2.2.2.1 p2.2.2.2.1
  subst e3 e4
  exact nodup_filterMap_index (f := insertedSlot) (o := (tb1, i1)) ha hb hl.winners
    (by rw [h1]; rfl) (by rw [h2]; rfl)

/-- **swiss_one_winner (2/3).**  All calls (insertions and lookups, on the fixed table or on the
growing set) that return an element for a key return the same bucket of the same table, and that
bucket holds the key, fully constructed and published. -/
theorem swiss_same_slot (hash : Nat → Nat) {s : State} (h : Reach hash s)
    {t1 t2 : Nat} {k1 k2 : Kind} {e1 e2 : Elem} {tb1 i1 tb2 i2 : Nat} {ins1 ins2 b1 b2 : Bool}
    {m1 m2 : Option (Nat × Nat)}
    (h1 : Event.ret t1 k1 e1 (.slot tb1 i1 ins1) b1 m1 ∈ s.log)
    (h2 : Event.ret t2 k2 e2 (.slot tb2 i2 ins2) b2 m2 ∈ s.log) (hk : e1.1 = e2.1) :
    tb1 = tb2 ∧ i1 = i2 ∧ (nodeAt s.nodes tb1).tab.keyAt i1 = some e1.1 ∧
      (nodeAt s.nodes tb1).tab.ctl i1 = tagOf (hash e1.1) := by
  obtain ⟨hi, hl⟩ := reachable_good h
  obtain ⟨l1, p1, _⟩ := hl.rets _ h1
  obtain ⟨l2, p2, _⟩ := hl.rets _ h2
  rw [← hk] at p2
  obtain ⟨e3, e4⟩ := hi.distinct _ _ _ _ _ l1 l2 p1.2.2.2.1 p2.2.2.2.1
  exact ⟨e3, e4, p1.2.2.1, p1.2.2.2.2.1⟩

/-- **swiss_one_winner (3/3).**  Fully constructed before visible: a bucket whose main control byte
shows a tag holds a constructed value whose key has that tag; and the value cell a thread is about
to compare its key with (after its acquire fence) has been constructed. -/
theorem swiss_constructed_before_visible (hash : Nat → Nat) {s : State} (h : Reach hash s) :
    (∀ tb i, tb < s.nodes.length → (nodeAt s.nodes tb).tab.dummy = false → i < (nodeAt s.nodes tb).tab.n →
      0 ≤ (nodeAt s.nodes tb).tab.ctl i →
      ∃ k v, (nodeAt s.nodes tb).tab.val i = some (k, v) ∧ (nodeAt s.nodes tb).tab.ctl i = tagOf (hash k)) ∧
    (∀ t f j ms, s.pc t = .cmp f (j :: ms) →
      ∃ k v, (nodeAt s.nodes f.tb).tab.val ((f.base + j) % f.n) = some (k, v) ∧
        tagOf (hash k) = tagOf (hash f.e.1)) := by
  obtain ⟨hi, _⟩ := reachable_good h
  refine ⟨fun tb i htb hd hlt hc => ?_, fun t f j ms hpc => ?_⟩
  · obtain ⟨k, v, h1, h2, _⟩ := (hi.nodes tb htb).slot_nonneg hd hlt hc
    exact ⟨k, v, h2, h1⟩
  · obtain ⟨k, v, h1, h2, _⟩ := cmp_reads_constructed hi hpc
    exact ⟨k, v, h1, h2⟩

/-! ### swiss_probe_prefix_full -/

/-- **swiss_probe_prefix_full.**  If bucket `i` of a table is claimed for key `k` (from the moment
the CAS of its inserter succeeds), then in the current state every probe window of `k` before the
one containing `i` has no negative byte, and neither has any byte of that window before `i` —
so no probe for `k` stops before reaching `i`.  (`ReachC` unfolds to exactly this.) -/
theorem swiss_probe_prefix_full (hash : Nat → Nat) {s : State} (h : Reach hash s) {tb i k : Nat}
    (htb : tb < s.nodes.length) (hd : (nodeAt s.nodes tb).tab.dummy = false)
    (hc : claimAt (nodeAt s.nodes tb) i = some k) :
    ∃ m j, m < (nodeAt s.nodes tb).tab.n / 16 ∧ j < 16 ∧
      (wbase (nodeAt s.nodes tb).tab.n ((nodeAt s.nodes tb).tab.baseOf (hash k)) m + j) % (nodeAt s.nodes tb).tab.n = i ∧
      (∀ m', m' < m → ∀ j', j' < 16 →
        0 ≤ (nodeAt s.nodes tb).tab.ctl (wbase (nodeAt s.nodes tb).tab.n ((nodeAt s.nodes tb).tab.baseOf (hash k)) m' + j')) ∧
      (∀ j', j' < j →
        0 ≤ (nodeAt s.nodes tb).tab.ctl (wbase (nodeAt s.nodes tb).tab.n ((nodeAt s.nodes tb).tab.baseOf (hash k)) m + j')) := by
  have hok := (reachable_good h).1.nodes tb htb
  exact hok.reach hd i k (hok.claim_lt hc) hc

/-- a stored key is claimed: the hypothesis of `swiss_probe_prefix_full` holds for every bucket
that holds a value -/
theorem swiss_stored_is_claimed (hash : Nat → Nat) {s : State} (h : Reach hash s) {tb i k v : Nat}
    (htb : tb < s.nodes.length) (hd : (nodeAt s.nodes tb).tab.dummy = false)
    (hi : i < (nodeAt s.nodes tb).tab.n) (hv : (nodeAt s.nodes tb).tab.val i = some (k, v)) :
    claimAt (nodeAt s.nodes tb) i = some k := by
  have hok := (reachable_good h).1.nodes tb htb
  rcases hok.slot hd i hi with ⟨_, h2, _⟩ | ⟨k', _, h3, h4⟩ | ⟨k', v', _, h3, h4⟩
  · rw [h2] at hv; cases hv
  · rcases h4 with h4 | ⟨v', h4⟩
    · rw [h4] at hv; cases hv
    · rw [h4] at hv; cases hv; exact h3
  · rw [h3] at hv; cases hv; exact h4

/-! ### swiss_find_after_insert -/

/-- **swiss_find_after_insert.**  `must` of a call is, by the definition of `doCall`, the bucket that
the first call of the history *so far* returned for the same key (`doneOf s.log key`), i.e. an
insertion / lookup of the key that had already returned when this call began.  A call so bound —
a `find` or an `emplace`, on the set, or on the fixed table if the bucket is in it — returns exactly
that bucket, with `inserted = false`: it never misses it, never inserts the key again, never
returns `end()`. -/
theorem swiss_find_after_insert (hash : Nat → Nat) {s : State} (h : Reach hash s)
    {t : Nat} {k : Kind} {e : Elem} {r : Res} {b : Bool} {tb i : Nat}
    (hev : Event.ret t k e r b (some (tb, i)) ∈ s.log) (hu : k.isSet = true ∨ tb = 0) :
    r = .slot tb i false := by
  obtain ⟨_, hl⟩ := reachable_good h
  have hr := hl.rets _ hev
  cases r with
  | none => exact absurd hu (fun hu => hr.2.1 tb i rfl hu)
  | slot tb' i' ins =>
    obtain ⟨_, _, _, _, hm⟩ := hr
    obtain ⟨e1, e2, e3⟩ := hm tb i rfl hu
    subst e1 e2 e3; rfl

/-- the same, while the call is still running: when its result is computed it is the bound bucket -/
theorem swiss_find_after_insert_pending (hash : Nat → Nat) {s : State} (h : Reach hash s)
    {t : Nat} {f : Frame} {r : Res} {tb i : Nat} (hpc : s.pc t = .ret f r)
    (hm : f.must = some (tb, i)) (hu : f.kind.isSet = true ∨ tb = 0) : r = .slot tb i false := by
  obtain ⟨hi, _⟩ := reachable_good h
  have hthr := hi.thr t
  rw [hpc] at hthr
  cases r with
  | none => exact absurd hu (fun hu => hthr.2.1 tb i hm hu)
  | slot tb' i' ins =>
    obtain ⟨_, _, _, _, _, hmm⟩ := hthr
    obtain ⟨e1, e2, e3⟩ := hmm tb i hm hu
    subst e1 e2 e3; rfl

/-- **swiss_find_after_insert, on the history alone.**  If a call for a key returned bucket
`(tb, i)` (event `q1`), and a later call `p2` of thread `t2` for the same key — a `find` or an
`emplace`, on the set, or on the fixed table if `tb = 0` — returns at `q2` (the first event of `t2`
after `p2`), then it returns exactly that bucket with `inserted = false`. -/
theorem swiss_find_after_insert_history (hash : Nat → Nat) {s : State} (h : Reach hash s) {q1 p2 q2 : Nat}
    (h12 : q1 < p2) (h22 : p2 < q2)
    {t1 : Nat} {k1 : Kind} {e1 : Elem} {tb i : Nat} {ins1 b1 : Bool} {m1 : Option (Nat × Nat)}
    (hq1 : s.log[q1]? = some (.ret t1 k1 e1 (.slot tb i ins1) b1 m1))
    {t2 : Nat} {k2 : Kind} {e2 : Elem} (hp2 : s.log[p2]? = some (.call t2 k2 e2))
    {k2' : Kind} {e2' : Elem} {r : Res} {b2 : Bool} {m2 : Option (Nat × Nat)}
    (hq2 : s.log[q2]? = some (.ret t2 k2' e2' r b2 m2))
    (hbetween : ∀ x, p2 < x → x < q2 → ∀ ev, s.log[x]? = some ev → evTid ev ≠ t2)
    (hkey : e2.1 = e1.1) (hu : k2.isSet = true ∨ tb = 0) :
    k2' = k2 ∧ e2' = e2 ∧ r = .slot tb i false := by
  obtain ⟨p, hp1, _, hp3, hp4, hp5⟩ := (reachable_hist h).returned q2 t2 k2' e2' r b2 m2 hq2
  have hpe : p = p2 := by
    rcases Nat.lt_trichotomy p p2 with hlt | heq | hgt
    · exact absurd rfl (hp4 p2 hlt h22 _ hp2)
    · exact heq
    · exact absurd rfl (hbetween p hgt hp1 _ hp3)
  subst hpe
  rw [hp2] at hp3
  simp only [Option.some.injEq, Event.call.injEq, true_and] at hp3
  obtain ⟨rfl, rfl⟩ := hp3
  refine ⟨rfl, rfl, ?_⟩
  have hmem1 : Event.ret t1 k1 e1 (.slot tb i ins1) b1 m1 ∈ s.log := List.mem_of_getElem? hq1
  have hmemT : Event.ret t1 k1 e1 (.slot tb i ins1) b1 m1 ∈ s.log.take p := by
    apply List.mem_of_getElem? (i := q1)
    rw [List.getElem?_take_of_lt h12]; exact hq1
  obtain ⟨tb', i', hd⟩ := doneOf_isSome hmemT hkey.symm
  obtain ⟨t3, k3, e3, ins3, b3, m3, hmem3, hk3⟩ := doneOf_some hd
  have hmem3' : Event.ret t3 k3 e3 (.slot tb' i' ins3) b3 m3 ∈ s.log := List.mem_of_mem_take hmem3
  obtain ⟨e4, e5, _⟩ := swiss_same_slot hash h hmem3' hmem1 (hk3.trans hkey)
  subst e4 e5
  rw [hd] at hp5
  subst hp5
  exact swiss_find_after_insert hash h (List.mem_of_getElem? hq2) hu

/-! ### swiss_full_fails_clean -/

/-- **swiss_full_fails_clean.**  An insertion returns `end()` only on the fixed table, only when the
table refuses every key (it is the placeholder, or every bucket is non-empty — and stays so), and
then no construct step of that call has executed (its arguments were not consumed).  More
generally the arguments of an insertion are consumed iff it reports `inserted = true`; a lookup
never reports `true`; an insertion into the growing set never fails. -/
theorem swiss_full_fails_clean (hash : Nat → Nat) {s : State} (h : Reach hash s)
    {t : Nat} {k : Kind} {e : Elem} {r : Res} {b : Bool} {m : Option (Nat × Nat)}
    (hev : Event.ret t k e r b m ∈ s.log) :
    (r = .none → b = false ∧ (k.isFind = false → k = .tEmplace ∧ (nodeAt s.nodes 0).tab.Sat)) ∧
    (∀ tb i ins, r = .slot tb i ins → ins = b ∧ (k.isFind = true → ins = false)) := by
  obtain ⟨_, hl⟩ := reachable_good h
  have hr := hl.rets _ hev
  cases r with
  | none => exact ⟨fun _ => ⟨hr.1, hr.2.2⟩, fun _ _ _ hh => by cases hh⟩
  | slot tb i ins =>
    refine ⟨(fun hh => nomatch hh), fun tb' i' ins' hh => ?_⟩
    cases hh
    exact ⟨hr.2.2.1, hr.2.2.2.1⟩

/-- a saturated table: the placeholder, or no bucket is EMPTY / BUSY any more -/
theorem sat_unfold (T : Table) : T.Sat ↔ (T.dummy = true ∨ ∀ i, i < T.n → 0 ≤ T.ctl i) := Iff.rfl

/-! ### set_growth_no_dup_no_drop -/

/-- **set_growth_no_dup_no_drop (1/3).**  No duplicate: over all tables of the set (and all buckets
of one table) a key is stored at most once. -/
theorem set_growth_no_dup (hash : Nat → Nat) {s : State} (h : Reach hash s) {tb tb' i i' k v v' : Nat}
    (htb : tb < s.nodes.length) (htb' : tb' < s.nodes.length)
    (hi : i < (nodeAt s.nodes tb).tab.n) (hi' : i' < (nodeAt s.nodes tb').tab.n)
    (hv : (nodeAt s.nodes tb).tab.val i = some (k, v)) (hv' : (nodeAt s.nodes tb').tab.val i' = some (k, v')) :
    tb = tb' ∧ i = i' := by
  obtain ⟨hinv, _⟩ := reachable_good h
  have real : ∀ {tb i k v}, tb < s.nodes.length → (nodeAt s.nodes tb).tab.val i = some (k, v) →
      (nodeAt s.nodes tb).tab.dummy = false := by
    intro tb i k v htb hv
    cases hd : (nodeAt s.nodes tb).tab.dummy with
    | false => rfl
    | true =>
      rw [(hinv.nodes tb htb).placeholder_of_dummy hd, placeholder_val] at hv; cases hv
  exact hinv.distinct _ _ _ _ k htb htb'
    (swiss_stored_is_claimed hash h htb (real htb hv) hi hv)
    (swiss_stored_is_claimed hash h htb' (real htb' hv') hi' hv')

/-- **set_growth_no_dup_no_drop (2/3).**  No drop: a stored element is never removed or overwritten
by any step, and every insertion that returns does so with a bucket that stores its key (in a
table linked into the chain). -/
theorem set_growth_no_drop (hash : Nat → Nat) {s : State} (h : Reach hash s) :
    (∀ s', Step hash s s' → ∀ tb i e, tb < s.nodes.length →
      (nodeAt s.nodes tb).tab.val i = some e → (nodeAt s'.nodes tb).tab.val i = some e) ∧
    (∀ t k e tb i ins b m, Event.ret t k e (.slot tb i ins) b m ∈ s.log →
      tb ∈ s.chain ∧ (nodeAt s.nodes tb).tab.keyAt i = some e.1 ∧ 0 ≤ (nodeAt s.nodes tb).tab.ctl i) := by
  obtain ⟨hinv, hl⟩ := reachable_good h
  refine ⟨fun s' hst tb i e htb hv => ((step_mono h hst).1.2 tb htb).val i e hv, ?_⟩
  intro t k e tb i ins b m hev
  obtain ⟨hlt, hp, _⟩ := hl.rets _ hev
  refine ⟨?_, hp.2.2.1, by rw [hp.2.2.2.2.1]; exact tagOf_nonneg _⟩
  apply Classical.byContradiction
  intro hnm
  have := (hinv.offChain tb hlt hnm).2 i
  rw [hp.2.2.2.1] at this; cases this

/-- **set_growth_no_dup_no_drop (3/3).**  The chain is a linked list that only grows, and only by the
successful CAS of a thread that found `next == nullptr`: `next` of the node at position `p` is the
node at position `p + 1` (none for the last), node ids in the chain are pairwise distinct, every
table before a table that holds a claimed bucket is saturated. -/
theorem set_chain_grows_by_cas (hash : Nat → Nat) {s : State} (h : Reach hash s) :
    (∀ p, p < s.chain.length → (nodeAt s.nodes (s.chain.getD p 0)).next = s.chain[p + 1]?) ∧
    s.chain.Nodup ∧ s.chain.head? = some 0 ∧
    (∀ p q x k, p < q → q < s.chain.length → claimAt (nodeAt s.nodes (s.chain.getD q 0)) x = some k →
      (nodeAt s.nodes (s.chain.getD p 0)).tab.Sat) ∧
    (∀ s', Step hash s s' → s'.chain ≠ s.chain →
      ∃ t f nw, s.pc t = .nextCas f nw ∧ (nodeAt s.nodes f.tb).next = none ∧ s'.chain = s.chain ++ [nw] ∧
        (nodeAt s'.nodes f.tb).next = some nw) := by
  obtain ⟨hinv, _⟩ := reachable_good h
  exact ⟨hinv.chain.link, hinv.chain.nodup, hinv.chain.head, hinv.later,
    fun s' hst hne => step_chain_by_cas h hst hne⟩

/-! ### publication under weak memory (release/acquire view model, stale reads included) -/

section view
open Babylon.Core.MemView Babylon.Swiss.ConcView
variable {L : Type} [DecidableEq L]

/-- **swiss_publication_view.**  In EVERY execution of the view model `Core/MemView.lean`:
thread `a` writes the value cell `vl` (a plain write, any order `ov`), later stores the tag into a
control byte `c` — the main byte (`ordStoreMain`) or the mirrored byte (`ordStoreMirror`), the
orders the translator extracts from `do_emplace`; thread `b` reads that message of `c` with one of
the 16 relaxed byte loads of the group (`ordGroupLoad`), later executes the fence of `find`
(`ordFindFence`) or of `do_emplace` (`ordEmplaceFence`), later reads the value cell (plain, any
order `ov'`).  Then `b` read the tag, the message of `vl` it reads is not older than the
constructing write, and it is the constructed element `e` if the cell has been written once (which
is what the SC theorems guarantee).  Everything else the two threads and all other threads do in
between is arbitrary (`Mem.Ext`).  Weakening any of the four orders in the source breaks this
obligation (`decide` on the generated constants). -/
theorem swiss_publication_view (m : Mem L) (a b : Nat) (vl c : L) (ov ov' os of : Ord) (e tag : Nat)
    (hos : os = ordStoreMain ∨ os = ordStoreMirror) (hof : of = ordFindFence ∨ of = ordEmplaceFence)
    {m1 m2 m3 m4 m5 m6 : Mem L} {v ts' v' : Nat}
    (h1 : (m.write a vl ov e).Ext m1)
    (h2 : (m1.write a c os tag).Ext m2)
    (h3 : m2.read b c ordGroupLoad (m1.len c) = some (m3, v))
    (h4 : m3.Ext m4)
    (h5 : (m4.fence b of).Ext m5)
    (h6 : m5.read b vl ov' ts' = some (m6, v')) :
    v = tag ∧ m.len vl ≤ ts' ∧ (m5.len vl = m.len vl + 1 → v' = e) :=
  publication_store_fence m a b vl c ov ov' os ordGroupLoad of e tag
    (by rcases hos with rfl | rfl <;> decide) (by rcases hof with rfl | rfl <;> decide) h1 h2 h3 h4 h5 h6

/-- **set_node_publication_view.**  The winner `a` of a growth race writes a field or a control
byte `nf` of the new `TableNode` (plain), later wins the CAS on `next` (`ordSetCasSucc`); a thread
`b` that reads the CAS's message with the `next` load of `Set::emplace` (`ordSetEmplaceNextLoad`)
or of `Set::find` (`ordSetFindHeadLoad`, `ordSetFindNextLoad`) and later reads `nf` (plain) cannot
read anything older than the winner's write — in every execution of the view model. -/
theorem set_node_publication_view (m : Mem L) (a b : Nat) (nf nx : L) (ov ov' ol : Ord) (x e d ts : Nat)
    (hol : ol = ordSetEmplaceNextLoad ∨ ol = ordSetFindHeadLoad ∨ ol = ordSetFindNextLoad)
    {m1 m2 m3 m4 m5 m6 : Mem L} {obs v ts' v' : Nat}
    (h1 : (m.write a nf ov x).Ext m1)
    (h2 : m1.cas a nx ordSetCasSucc ordSetCasFail e d ts = some (m2, true, obs))
    (h3 : m2.Ext m3)
    (h4 : m3.read b nx ol (m1.len nx) = some (m4, v))
    (h5 : m4.Ext m5)
    (h6 : m5.read b nf ov' ts' = some (m6, v')) :
    v = d ∧ m.len nf ≤ ts' ∧ (m5.len nf = m.len nf + 1 → v' = x) :=
  publication_cas_load m a b nf nx ov ov' ordSetCasSucc ordSetCasFail ol x e d ts (by decide)
    (by rcases hol with rfl | rfl | rfl <;> decide) h1 h2 h3 h4 h5 h6

/-- **set_node_publication_view_loser.**  The same for the thread that LOSES the growth race: its
own CAS (`ordSetCasSucc` / failure order `ordSetCasFail`) fails on the winner's message, hands back
the winner's node `d`, and everything the winner wrote into the node before its CAS is visible to
the loser's later plain reads. -/
theorem set_node_publication_view_loser (m : Mem L) (a b : Nat) (nf nx : L) (ov ov' : Ord)
    (x e d ts e' d' : Nat) {m1 m2 m3 m4 m5 m6 : Mem L} {obs obs' ts' v' : Nat}
    (h1 : (m.write a nf ov x).Ext m1)
    (h2 : m1.cas a nx ordSetCasSucc ordSetCasFail e d ts = some (m2, true, obs))
    (h3 : m2.Ext m3)
    (h4 : m3.cas b nx ordSetCasSucc ordSetCasFail e' d' (m1.len nx) = some (m4, false, obs'))
    (h5 : m4.Ext m5)
    (h6 : m5.read b nf ov' ts' = some (m6, v')) :
    obs' = d ∧ m.len nf ≤ ts' ∧ (m5.len nf = m.len nf + 1 → v' = x) :=
  publication_cas_cas m a b nf nx ov ov' ordSetCasSucc ordSetCasFail ordSetCasSucc ordSetCasFail
    x e d ts e' d' (by decide) (by decide) h1 h2 h3 h4 h5 h6

end view

/-! negative controls: concrete executions of the view model (locations: `false` = value cell / node
field, `true` = control byte / `next`; thread 0 writes 7 and publishes, thread 1 reads) -/

/-- what thread 1 gets when it reads the value cell at timestamp `tsVal` after having read the tag
message and executed its fence; `none` = that read is not admissible -/
def pubScenario (os of : Ord) (tsVal : Nat) : Option Nat :=
  let m0 : Babylon.Core.MemView.Mem Bool := Babylon.Core.MemView.Mem.init (fun _ => 0)
  let m1 := m0.write 0 false .rlx 7
  let m2 := m1.write 0 true os 1
  match m2.read 1 true ordGroupLoad 1 with
  | none => none
  | some (m3, _) => ((m3.fence 1 of).read 1 false .rlx tsVal).map (·.2)

/-- with the orders of the source the stale (unconstructed) message is not readable, the constructed
one is -/
example : pubScenario ordStoreMain ordFindFence 0 = none ∧ pubScenario ordStoreMain ordFindFence 1 = some 7 ∧
    pubScenario ordStoreMirror ordEmplaceFence 0 = none := by decide
/-- negative control: a RELAXED tag store lets the reader see the unconstructed cell (value 0) -/
example : pubScenario .rlx ordFindFence 0 = some 0 := by decide
/-- negative control: without the acquire fence (a relaxed "fence" is no fence) likewise -/
example : pubScenario ordStoreMain .rlx 0 = some 0 := by decide

/-- growth: thread 0 writes a node field, wins the CAS on `next` (0 → 5) with order `so`; thread 1
reads `next` with order `ol`, then the node field at timestamp `tsVal` -/
def nodeScenario (so ol : Ord) (tsVal : Nat) : Option Nat :=
  let m0 : Babylon.Core.MemView.Mem Bool := Babylon.Core.MemView.Mem.init (fun _ => 0)
  let m1 := m0.write 0 false .rlx 7
  match m1.cas 0 true so ordSetCasFail 0 5 0 with
  | some (m2, true, _) =>
    match m2.read 1 true ol 1 with
    | none => none
    | some (m3, _) => (m3.read 1 false .rlx tsVal).map (·.2)
  | _ => none

/-- the loser: thread 1's own CAS (0 → 9) fails on the winner's message with failure order `fo` -/
def loserScenario (fo : Ord) (tsVal : Nat) : Option Nat :=
  let m0 : Babylon.Core.MemView.Mem Bool := Babylon.Core.MemView.Mem.init (fun _ => 0)
  let m1 := m0.write 0 false .rlx 7
  match m1.cas 0 true ordSetCasSucc ordSetCasFail 0 5 0 with
  | some (m2, true, _) =>
    match m2.cas 1 true ordSetCasSucc fo 0 9 1 with
    | some (m3, false, _) => (m3.read 1 false .rlx tsVal).map (·.2)
    | _ => none
  | _ => none

example : nodeScenario ordSetCasSucc ordSetEmplaceNextLoad 0 = none ∧
    nodeScenario ordSetCasSucc ordSetFindNextLoad 1 = some 7 ∧ loserScenario ordSetCasFail 0 = none ∧
    loserScenario ordSetCasFail 1 = some 7 := by decide
/-- negative control: a RELAXED growth CAS publishes nothing -/
example : nodeScenario .rlx ordSetEmplaceNextLoad 0 = some 0 := by decide
/-- negative control: a relaxed `next` load acquires nothing -/
example : nodeScenario ordSetCasSucc .rlx 0 = some 0 := by decide
/-- negative control (the seeded change "release / relaxed failure order"): the loser of the growth
race may read the new node unpublished -/
example : loserScenario .rlx 0 = some 0 := by decide

/-! ### non-vacuity: concrete reachable states -/

/-- identity hash, as in the correspondence harness -/
def idHash : Nat → Nat := fun k => k

/-- the call returns if its result has been computed -/
def retIfDone (s : State) (t : Nat) : State :=
  match s.pc t with
  | .ret f r => doRet s t f r
  | _ => s

/-- an idle thread calls -/
def callIfIdle (s : State) (t : Nat) (k : Kind) (e : Elem) : State :=
  if s.pc t = .idle then doCall idHash s t k e else s

theorem reach_retIfDone {s : State} (h : Reach idHash s) (t : Nat) : Reach idHash (retIfDone s t) := by
  unfold retIfDone
  split
  · next f r hpc => exact reach_ret h hpc
  · exact h

theorem reach_callIfIdle {s : State} (h : Reach idHash s) (t : Nat) (k : Kind) (e : Elem) :
    Reach idHash (callIfIdle s t k e) := by
  unfold callIfIdle
  split
  · next hpc => exact reach_call h hpc k e
  · exact h

/-- thread 1 inserts key 42 into a 16-bucket fixed table and returns; then thread 2 looks it up -/
def exState : State :=
  let s0 := State.init (Table.mk' 16)
  let s1 := retIfDone (runThread idHash (callIfIdle s0 1 .tEmplace (42, 7)) 1 22) 1
  retIfDone (runThread idHash (callIfIdle s1 2 .tFind (42, 0)) 2 18) 2

theorem exState_reach : Reach idHash exState := by
  have h0 : Reach idHash (State.init (Table.mk' 16)) := Reachable.base (Or.inl ⟨16, rfl⟩)
  exact reach_retIfDone (reach_runThread (reach_callIfIdle
    (reach_retIfDone (reach_runThread (reach_callIfIdle h0 1 .tEmplace (42, 7)) 1 22) 1) 2 .tFind (42, 0)) 2 18) 2

/-- the hypotheses of the theorems above are satisfiable: in `exState` the insertion has returned
`(bucket 0, true)` having consumed its argument, and the later lookup, bound to that bucket, has
returned it -/
example : exState.log =
    [.call 1 .tEmplace (42, 7), .ret 1 .tEmplace (42, 7) (.slot 0 0 true) true none,
     .call 2 .tFind (42, 0), .ret 2 .tFind (42, 0) (.slot 0 0 false) false (some (0, 0))] := by
  decide

end Babylon.Properties.C03
