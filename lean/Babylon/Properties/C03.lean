/-
  Property C03 — concurrent hash set/map: linearizable insert-if-absent, one winner per key.
  Property theorems only (helper lemmas live next to the model, `Babylon/Swiss/Conc*.lean`).
-/
import Babylon.Swiss.Conc

namespace Babylon.Properties.C03
open Babylon.Core Babylon.Swiss Babylon.Swiss.Conc
open Babylon.Gen.SwissConc
open Babylon.Gen.Swiss (emptyCtl busyCtl dummyCtl groupSize groupMask checkerMask checkerBits dummyLen)

/-! ### generated obligations: the source still has the shape the model was written against -/

theorem gen_skel_do_emplace : skel_do_emplace = Skel.do_emplace := by decide
theorem gen_skel_find : skel_find = Skel.find := by decide
theorem gen_skel_set_emplace : skel_set_emplace = Skel.set_emplace := by decide
theorem gen_skel_set_find : skel_set_find = Skel.set_find := by decide
theorem gen_skel_group_load : skel_group_load_tsan = Skel.group_load_tsan := by decide
/-- the two generators agree on `do_emplace` / `find` (C18 and C03 model the same code) -/
theorem gen_skel_same_as_seq : Babylon.Gen.Swiss.skel_do_emplace = Babylon.Gen.SwissConc.skel_do_emplace ∧
    Babylon.Gen.Swiss.skel_find = Babylon.Gen.SwissConc.skel_find := by decide
/-- one group = 16 relaxed byte loads; the tag is published with release and read under an acquire
fence; the slot lock is taken by an acquiring CAS EMPTY→BUSY -/
theorem gen_orders : groupLoads = groupSize ∧ ordGroupLoad = .rlx ∧
    ordEmplaceFence.acquires = true ∧ ordFindFence.acquires = true ∧
    ordCasSucc.acquires = true ∧ ordStoreMain.releases = true ∧ ordStoreMirror.releases = true ∧
    ordSetEmplaceNextLoad.acquires = true ∧ ordSetFindHeadLoad.acquires = true ∧
    ordSetFindNextLoad.acquires = true ∧ ordSetCasSucc.acquires = true ∧ ordSetCasSucc.releases = true ∧
    ordSetCasFail.acquires = true := by decide
theorem gen_cas_operands : casExpected = emptyCtl ∧ casDesired = busyCtl ∧
    casFailBranches = [(dummyCtl, "break"), (busyCtl, "yield-continue")] ∧ growShift = 1 := by decide
theorem gen_controls : emptyCtl < 0 ∧ busyCtl < 0 ∧ dummyCtl < 0 ∧ emptyCtl ≠ busyCtl ∧ emptyCtl ≠ dummyCtl ∧
    busyCtl ≠ dummyCtl ∧ groupSize = 16 ∧ groupMask = 15 ∧ checkerMask = 127 ∧ checkerBits = 7 ∧
    dummyLen = 32 := by decide

end Babylon.Properties.C03
