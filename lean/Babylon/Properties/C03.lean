/-
  Property C03 — property theorems only (helper lemmas live next to the model).
  Stub: nothing claimed yet.
-/
namespace Babylon.Properties.C03
end Babylon.Properties.C03
