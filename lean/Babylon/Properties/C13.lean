/-
  Property C13 — property theorems only (helper lemmas live next to the model).
  Stub: nothing claimed yet.
-/
namespace Babylon.Properties.C13
end Babylon.Properties.C13
