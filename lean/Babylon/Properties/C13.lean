/-
  Property C13 — coroutines: each suspension resumed exactly once, on its executor, right result;
  coroutine futex wake_one / wake_all / cancel / non-matching wait / no bookkeeping leak.
  Property theorems only; models in Babylon/Coro/{Futex,Cancel,Await}.lean, lemmas in
  Babylon/Coro/Lemmas*.lean.
-/
import Babylon.Gen.Coro
import Babylon.Coro.Futex
import Babylon.Coro.Cancel
import Babylon.Coro.Await
import Babylon.Coro.Theorems
import Babylon.Coro.Counter
import Babylon.Coro.CancelLemmas
import Babylon.Coro.AwaitLemmas

namespace Babylon.Properties.C13
open Babylon.Coro Babylon.Gen.Coro Babylon.Core

/-! ## Generated obligations: the source still has the statements the models were written against -/

/-- `Futex::wake_one`: the scan unlinks the first node, saves `next` BEFORE clearing it and advances
through the saved pointer (repaired shape of DESIGN 7 #3). -/
theorem gen_wake_one :
    stmts_wake_one = [
      "auto&box=DepositBox<Node>::instance()", "Node*node=nullptr", "lock_guard<mutex>lock", "_mutex",
      "Node*next_node=nullptr", "for(node=_awaiter_head.next;node!=nullptr;node=next_node)",
      "next_node=node->next", "if(next_node!=nullptr)", "next_node->prev=&_awaiter_head",
      "_awaiter_head.next=next_node", "node->prev=nullptr", "node->next=nullptr",
      "if(box.take_released(node->id))", "break", "if(node)", "node->promise->resume(node->handle)",
      "box.finish_released(node->id)", "return1", "return0"] ∧
    wakeOneSavesNext = true ∧ wakeOneAdvance = ["node=next_node"] := by decide

/-- `Futex::wake_all`: two phases; the second loop reads `node->next` BEFORE `finish_released`
(repaired shape of DESIGN 7 #4) — the shape flag the model is instantiated with. -/
theorem gen_wake_all :
    stmts_wake_all = [
      "auto&box=DepositBox<Node>::instance()", "Node*head=nullptr", "lock_guard<mutex>lock", "_mutex",
      "head=_awaiter_head.next", "_awaiter_head.next=nullptr", "autotail=&head",
      "for(autonode=head;node!=nullptr;node=node->next)", "node->prev=nullptr",
      "if(box.take_released(node->id))", "tail=&(node->next)", "else", "*tail=node->next", "intwaked=0",
      "for(autonode=head;node!=nullptr;)", "autonext_node=node->next", "node->promise->resume(node->handle)",
      "box.finish_released(node->id)", "node=next_node", "waked++", "returnwaked"] ∧
    wakeAllNextFirst = true := by decide

theorem gen_add_awaiter :
    stmts_add_awaiter = [
      "lock_guard<mutex>lock", "_mutex", "if(expected_value==_value)", "node->prev=&_awaiter_head",
      "node->next=_awaiter_head.next", "_awaiter_head.next=node", "if(node->next)", "node->next->prev=node",
      "returntrue", "returnfalse"] := by decide

theorem gen_remove_awaiter :
    stmts_remove_awaiter = [
      "lock_guard<mutex>lock", "_mutex", "if(node->prev)", "node->prev->next=node->next", "if(node->next)",
      "node->next->prev=node->prev"] := by decide

/-- `Futex::Awaitable::await_suspend`: emplace, fill the node, add_awaiter; on failure take and finish
the own slot (repaired shape of DESIGN 7 #5), on success hand out the token. -/
theorem gen_await_suspend :
    stmts_await_suspend = [
      "auto&box=DepositBox<Node>::instance()", "autoid=box.emplace()", "autonode=&box.unsafe_get(id)",
      "node->futex=_futex", "node->id=id", "node->promise=&handle.promise()", "node->handle=handle",
      "autosuccess=_futex->add_awaiter(node,_expected_value)", "if(!success)", "box.take_released(id)",
      "box.finish_released(id)", "elseif(_on_suspend)", "_on_suspend({id})", "returnsuccess"] ∧
    waitFailRecycles = true := by decide

theorem gen_cancel :
    stmts_cancel = [
      "auto&box=DepositBox<Node>::instance()", "autonode=box.take_released(id)", "if(!node)", "returnfalse",
      "node->futex->remove_awaiter(node)", "node->promise->resume(node->handle)", "box.finish_released(id)",
      "returntrue"] := by decide

/-- cancellable wrapper -/
theorem gen_cancellable :
    stmts_bc_cancel = Cancel.Stmts.bc_cancel ∧ stmts_bc_resume = Cancel.Stmts.bc_resume ∧
    stmts_bc_do_cancel = Cancel.Stmts.bc_do_cancel ∧ stmts_bc_do_resume = Cancel.Stmts.bc_do_resume ∧
    stmts_c_await_resume = Cancel.Stmts.c_await_resume ∧ stmts_accessor_dtor = Cancel.Stmts.accessor_dtor := by decide

/-- task / promise / future awaitable -/
theorem gen_await :
    stmts_final_await_suspend = Await.Stmts.final_await_suspend ∧
    stmts_awaiter_inplace_resumable = Await.Stmts.awaiter_inplace_resumable ∧
    stmts_inplace_resumable = Await.Stmts.inplace_resumable ∧
    stmts_resume_awaiter = Await.Stmts.resume_awaiter ∧ stmts_promise_resume = Await.Stmts.promise_resume ∧
    stmts_task_await_suspend = Await.Stmts.task_await_suspend ∧
    stmts_task_await_suspend_p = Await.Stmts.task_await_suspend_p ∧
    stmts_future_await_ready = Await.Stmts.future_await_ready ∧
    stmts_future_await_suspend = Await.Stmts.future_await_suspend ∧
    stmts_set_awaiter = Await.Stmts.set_awaiter := by decide

/-- `BasicPromise::resume_in_executor`: the closure is handed to `executor->invoke`; ANY code != 0 (the
BasicExecutor contract for "neither moved nor called") makes the library resume the coroutine in place, so a
rejected resumption never leaves the coroutine suspended -/
theorem gen_resume_in_executor : stmts_resume_in_executor = Await.Stmts.resume_in_executor := by decide

/-! ## Coroutine futex (model: Babylon/Coro/Futex.lean, repaired configuration `cfgFixed`)

`Reach s` = `s` is reachable from the initial state by ANY interleaving of any number of client threads
(wake_one / wake_all / cancel with fresh or stale tokens / stores to the futex words) and coroutine
frames (any programs of waits, any number of futexes, any history of slot reuse).
`HoldsWait s a n` = actor `a` has taken the wait in slot `n` and has not yet called `resume` for it;
`AtResume s a n` = `a` is at the statement `node->promise->resume(node->handle)` for slot `n`. -/

/-- the configuration the theorems are about is the one the source has (`gen_wake_all`) -/
theorem gen_cfg : cfgFixed.nextFirst = wakeAllNextFirst := by decide

/-- **cofutex_resume_at_most_once.**  No reachable state has ever seen a `resume` of a coroutine that was
not suspended (`bad` is set by every such call and never cleared); an actor about to call `resume` targets a
suspended coroutine whose *current* wait is this slot and which was not resumed yet; and two actors never
hold waits of the same coroutine — so every suspension is resumed at most once, by the single winner of
`take`. -/
theorem cofutex_resume_at_most_once {s : State} (h : Reach s) :
    s.bad = false ∧
    (∀ a n, AtResume s a n → s.fr (s.node n).h = .suspended ∧ (s.box n).rsm = false ∧ s.wslot (s.node n).h = some n ∧
      (s.box n).own = some a) ∧
    (∀ a b n m, HoldsWait s a n → HoldsWait s b m → (s.node n).h = (s.node m).h → n = m ∧ a = b) := by
  refine ⟨h.inv.noBad, ?_, fun a b n m hn hm he => holds_unique h hn hm he⟩
  intro a n hr
  have := holds_facts h (atResume_holds h hr)
  exact ⟨this.2.2.2.2.1, this.2.2.2.1, this.2.2.2.2.2.2, this.2.2.1⟩

/-- the resume itself: from a state where `a` is at the resume statement, the step marks the coroutine
`resuming` (exactly one more resume for that coroutine, none for the others) and moves `a` on -/
theorem cofutex_resume_step {s : State} (h : Reach s) {a : Actor} {n : Nat} (hr : AtResume s a n) (inp : Nat × Nat) :
    ∃ s', step cfgFixed s a inp = some (s', .resume (s.node n).h (s.fex (s.node n).h)) ∧
      s'.fr (s.node n).h = .resuming ∧ s'.resumes (s.node n).h = s.resumes (s.node n).h + 1 ∧ s'.bad = false := by
  have hf := (cofutex_resume_at_most_once h).2.1 a n hr
  have hb := h.inv.noBad
  have hres : (s.resumeOf n).fr (s.node n).h = .resuming ∧ (s.resumeOf n).resumes (s.node n).h = s.resumes (s.node n).h + 1 ∧
      (s.resumeOf n).bad = false := by
    simp [State.resumeOf, State.resume, hf.1, hb]
  rcases hr with e | ⟨nx, k, took, rs, e⟩ | e
  · exact ⟨_, step_oResume e, hres⟩
  · exact ⟨_, step_aResume e, hres⟩
  · exact ⟨_, step_cResume e, hres⟩

/-- **cofutex_wake_one_progress.**  (1) A `wake_one` that ends its scan empty-handed has looked at every
waiter that was linked when it took the lock (`seen = l0`) and left the list empty; (2) during the scan the
nodes skipped so far followed by the still linked ones are exactly the lock-time list, the scan position
is the first linked node, and that node is skipped only if its ownership is already in the hands of a
canceller that has not unlinked it yet; (3) an untaken node is taken, the scan stops and `wake_one` goes on
to resume its coroutine.  Hence: if some waiter linked at lock time is not being cancelled, `wake_one`
resumes one. -/
theorem cofutex_wake_one_progress {s : State} (h : Reach s) {a : Actor} {f : Nat} {l0 seen : List Nat} :
    (s.pc a = .oUnlock f none l0 seen → seen = l0 ∧ s.glist f = [] ∧ s.hnext f = none) ∧
    (∀ cur, s.pc a = .oScan f cur l0 seen →
      l0 = seen ++ s.glist f ∧ (s.glist f).head? = some cur ∧
      ((s.box cur).taken = true → CancelPending s cur) ∧
      ((s.box cur).taken = false → ∀ inp, ∃ s', step cfgFixed s a inp = some (s', .take cur (s.node cur).ver true) ∧
        s'.pc a = .oUnlock f (some cur) l0 seen)) := by
  refine ⟨fun hp => wake_one_none h hp, ?_⟩
  intro cur hp
  have := wake_one_scan h hp
  exact ⟨this.1, this.2.1, this.2.2.2, fun hnt inp => wake_one_takes h hp hnt⟩

/-- the lock step of `wake_one` records the list as it is at that moment -/
theorem cofutex_wake_one_lock {s s' : State} {a : Actor} {f : Nat} {inp : Nat × Nat} {e : Ev}
    (hp : s.pc a = .oLock f) (hs : step cfgFixed s a inp = some (s', e)) :
    (∃ cur, s'.pc a = .oScan f cur (s.glist f) []) ∨ s'.pc a = .oUnlock f none (s.glist f) [] := by
  rw [step_oLock hp] at hs
  split at hs
  · cases hx : s.hnext f with
    | none => rw [hx] at hs; injection hs with hs; injection hs with hs _; subst hs; right; simp
    | some x => rw [hx] at hs; injection hs with hs; injection hs with hs _; subst hs; left; exact ⟨x, by simp⟩
  · cases hs

/-- **cofutex_wake_all_complete.**  (1) first phase: a node is skipped only if a canceller owns it; at the
end every waiter linked at lock time is either taken by this `wake_all` or was skipped, the taken ones form
the private chain `hd -> …` and the futex list is empty; (2) second phase: the resumed nodes are always a
prefix of the taken ones and the chain from the current node is the rest; each node is held (suspended
coroutine, first resume); (3) when `wake_all` is about to return it has resumed exactly the nodes it took,
in order, and returns their number. -/
theorem cofutex_wake_all_complete {s : State} (h : Reach s) {a : Actor} :
    (∀ f hd tail cur took pend skip l0, s.pc a = .aScan f hd tail cur took pend skip l0 →
      (∀ x, x ∈ l0 ↔ (x ∈ took ∨ x ∈ skip ∨ x ∈ pend)) ∧ pend.head? = some cur ∧ s.glist f = [] ∧
      ((s.box cur).taken = true → CancelPending s cur)) ∧
    (∀ f hd took skip l0, s.pc a = .aUnlock f hd took skip l0 →
      (∀ x, x ∈ l0 ↔ (x ∈ took ∨ x ∈ skip)) ∧ NChain s.node hd took ∧ took.Nodup ∧ s.glist f = [] ∧
      (∀ n ∈ took, HoldsWait s a n)) ∧
    (∀ n nx k took rs, s.pc a = .aResume n nx k took rs →
      rs = took.take k ∧ (∃ rest, took.drop k = n :: rest ∧ NChain s.node nx rest) ∧ HoldsWait s a n) ∧
    (∀ n k took rs, s.pc a = .aFree n none k took rs → rs = took ∧ k + 1 = took.length) :=
  ⟨fun _ _ _ _ _ _ _ _ hp => wake_all_scan h hp, fun _ _ _ _ _ hp => wake_all_phase1 h hp,
   fun _ _ _ _ _ hp => wake_all_phase2 h hp, fun _ _ _ _ hp => wake_all_done h hp⟩

/-- the old shape of the second loop (`node = node->next` after `finish_released`, DESIGN 7 #4) does NOT
have this property: in the reachable state below `wake_all` has returned 1 although it took two waiters;
the other one is suspended, its slot is taken by the returned `wake_all`, so nobody will ever resume it and
the slot is never recycled.  (Replayed on the real code before commit 3796820: corpus seed 415.) -/
theorem cofutex_wake_all_old_shape_counterexample :
    ∃ s, Reachable (· = State.init) (Step cfgOld) s ∧
      s.pc (.cl 9) = .idle ∧ s.res 9 = 1 ∧ s.fr 1 = .suspended ∧
      (s.box 1).alloc = true ∧ (s.box 1).taken = true ∧ (s.box 1).own = some (.cl 9) ∧ (s.box 1).rsm = false := by
  have hrun : (runMoves cfgOld State.init witnessMoves).isSome = true := by rfl
  obtain ⟨s, hs⟩ := Option.isSome_iff_exists.mp hrun
  refine ⟨s, runMoves_reachable (Reachable.base rfl) hs, ?_⟩
  have e : (runMoves cfgOld State.init witnessMoves).map
      (fun s => (s.pc (.cl 9), s.res 9, s.fr 1, (s.box 1).alloc, (s.box 1).taken, (s.box 1).own, (s.box 1).rsm)) =
      some (.idle, 1, .suspended, true, true, some (.cl 9), false) := by rfl
  rw [hs] at e
  simp only [Option.map_some, Option.some.injEq, Prod.mk.injEq] at e
  exact e

/-- the same schedule in the repaired configuration is not even a run: `wake_all` reads `next` first -/
example : runMoves cfgFixed State.init witnessMoves = none := by rfl

/-- **cofutex_no_leak.**  Every allocated deposit-box slot is accounted for: it is the unpublished slot of a
coroutine that is still inside `await_suspend`, or it is taken and its taker's program counter holds it
(and will finish it), or it is published, untaken and linked (or waiting to be scanned by a `wake_all`
that holds the lock) - a wait in progress.  At quiescence the allocated slots are exactly the linked,
untaken waits of suspended coroutines, one per coroutine (`wslot` is a function), and every suspended
coroutine has one: slots allocated − recycled = waits in progress. -/
theorem cofutex_no_leak {s : State} (h : Reach s) :
    (∀ n, (s.box n).alloc = true →
      (∃ h', (s.pc (.fr h')).fresh = some n) ∨
      (∃ a, (s.box n).own = some a ∧ (n ∈ (s.pc a).pre ∨ (s.pc a).post = some n)) ∨
      ((s.box n).pub = true ∧ (s.box n).taken = false ∧
        (n ∈ s.glist (s.node n).fut ∨ ∃ b, s.lock (s.node n).fut = some b ∧ n ∈ (s.pc b).pend))) ∧
    ((∀ a, s.pc a = .idle) →
      (∀ n, (s.box n).alloc = true → n ∈ s.glist (s.node n).fut ∧ (s.box n).taken = false ∧
        s.fr (s.node n).h = .suspended ∧ s.wslot (s.node n).h = some n) ∧
      (∀ h', s.fr h' = .suspended → ∃ n, s.wslot h' = some n ∧ (s.box n).alloc = true ∧ (s.node n).h = h' ∧
        n ∈ s.glist (s.node n).fut)) :=
  ⟨fun _ ha => slot_accounted h ha,
   fun hq => ⟨fun _ ha => quiescent_slots h hq ha, fun _ hs => quiescent_frames h hq hs⟩⟩

/-- **cofutex_nonmatching_no_suspend.**  The comparison of `add_awaiter` happens under the lock
(`wLock` records `val f == v`); on a mismatch the wait goes `unlock -> take own slot -> finish own slot ->
coroutine running again` by its own three steps; all along its slot is unpublished and in no list, and no
actor holds a wait of this coroutine, so nobody can resume it: the coroutine continues without a
suspension/resume cycle and the slot is recycled. -/
theorem cofutex_nonmatching_no_suspend {s : State} (h : Reach s) {h' : Nat} :
    (∀ f v n ver, s.pc (.fr h') = .wLock f v n ver → s.lock f = none → ∀ inp,
      step cfgFixed s (.fr h') inp =
        some (({ s with lock := upd s.lock f (some (.fr h')) }).setPc (.fr h') (.wLink f v n ver (s.val f == v)), .lock f)) ∧
    (∀ f v n ver, s.pc (.fr h') = .wLink f v n ver false → ∀ inp, ∃ s',
      step cfgFixed s (.fr h') inp = some (s', .unlock f) ∧ s'.pc (.fr h') = .wTake n ver ∧
      s'.glist = s.glist ∧ s'.hnext = s.hnext ∧ s'.box = s.box) ∧
    (∀ n ver, s.pc (.fr h') = .wTake n ver → ∀ inp, ∃ s',
      step cfgFixed s (.fr h') inp = some (s', .take n ver true) ∧ s'.pc (.fr h') = .wFree n) ∧
    (∀ n, s.pc (.fr h') = .wFree n → ∀ inp, ∃ s',
      step cfgFixed s (.fr h') inp = some (s', .free n) ∧ s'.pc (.fr h') = .idle ∧ s'.fr h' = .running ∧
      (s'.box n).alloc = false ∧ s'.resumes = s.resumes) ∧
    (s.pc (.fr h') ≠ .idle → (∀ a n, HoldsWait s a n → (s.node n).h ≠ h') ∧
      ∀ n, (s.pc (.fr h')).fresh = some n → (s.box n).pub = false ∧ ∀ f, n ∉ s.glist f) := by
  refine ⟨?_, ?_, ?_, ?_, ?_⟩
  · intro f v n ver hp hl inp
    rw [step_wLock hp, if_pos hl]
  · intro f v n ver hp inp
    exact ⟨_, step_wLinkF hp, by simp, rfl, rfl, rfl⟩
  · intro n ver hp inp
    have hfr := h.inv.freshOk h' n (by simp [hp, Pc.fresh])
    have hnt : (s.box n).taken = false := by
      cases ht : (s.box n).taken
      · rfl
      · have := (hfr.2.2.2 ht).1; rw [hp] at this; cases this
    have hv := h.inv.freshVerT h' n ver hp
    have htk : (s.take n ver (.fr h')).1 = true := by simp [take_eq, hv, hnt]
    refine ⟨(s.take n ver (.fr h')).2.setPc (.fr h') (.wFree n), ?_, by simp⟩
    rw [step_wTake hp, htk]
  · intro n hp inp
    refine ⟨_, step_wFree hp, by simp, by simp [Actor.frame, upd], by simp [upd], rfl⟩
  · intro hp
    refine ⟨in_await_not_held h hp, ?_⟩
    intro n hf
    have := in_await_slot h hf
    exact ⟨this.2.1, this.2.2⟩

/-- the waiter list as pointers is the ghost list the theorems talk about: for every futex the `next` /
`prev` fields starting at `_awaiter_head` spell exactly `glist f`, without duplicates, every member is an
allocated, published node of this futex -/
theorem cofutex_list_wf {s : State} (h : Reach s) (f : Nat) :
    Chain s.node (.head f) (s.hnext f) (s.glist f) ∧ (s.glist f).Nodup ∧
    ∀ n ∈ s.glist f, (s.box n).alloc = true ∧ (s.box n).pub = true ∧ (s.node n).fut = f := by
  obtain ⟨h1, h2, h3⟩ := h.inv.listOk f
  exact ⟨h1, h2, fun n hn => ⟨(h3 n hn).1, (h3 n hn).2.1, (h3 n hn).2.2.1⟩⟩

/-! non-vacuity: the hypotheses of the theorems above are met by reachable states -/

/-- two coroutines waiting on futex 0 (list = 2 -> 1), a `wake_all` in its second loop about to resume the
first of the two waits it took -/
example : ∃ s, Reach s ∧ s.pc (.cl 9) = .aResume 2 (some 1) 0 [2, 1] [] ∧ s.fr 2 = .suspended := by
  let ms : List Move := [.spawn 1 0, .run 1, .spawn 2 0, .run 2] ++ waitMoves 1 1 7 ++ waitMoves 2 2 7 ++
    [.wakeAll 9 0, .act (.cl 9) (0, 0), .act (.cl 9) (0, 0), .act (.cl 9) (0, 0), .act (.cl 9) (0, 0), .act (.cl 9) (0, 0)]
  have hrun : (runMoves cfgFixed State.init ms).isSome = true := by rfl
  obtain ⟨s, hs⟩ := Option.isSome_iff_exists.mp hrun
  refine ⟨s, runMoves_reachable (Reachable.base rfl) hs, ?_⟩
  have e : (runMoves cfgFixed State.init ms).map (fun s => (s.pc (.cl 9), s.fr 2)) =
      some (.aResume 2 (some 1) 0 [2, 1] [], .suspended) := by rfl
  rw [hs] at e
  simp only [Option.map_some, Option.some.injEq, Prod.mk.injEq] at e
  exact e

/-- a `wake_one` whose scan meets a node taken by a canceller that has not unlinked it yet, with another
waiter behind it (the situation of DESIGN 7 #3) -/
example : ∃ s, Reach s ∧ s.pc (.cl 9) = .oScan 0 2 [2, 1] [] ∧ (s.box 2).taken = true ∧ s.pc (.cl 8) = .cLock 2 := by
  let ms : List Move := [.spawn 1 0, .run 1, .spawn 2 0, .run 2] ++ waitMoves 1 1 7 ++ waitMoves 2 2 7 ++
    [.cancel 8 2 7, .act (.cl 8) (0, 0), .wakeOne 9 0, .act (.cl 9) (0, 0)]
  have hrun : (runMoves cfgFixed State.init ms).isSome = true := by rfl
  obtain ⟨s, hs⟩ := Option.isSome_iff_exists.mp hrun
  refine ⟨s, runMoves_reachable (Reachable.base rfl) hs, ?_⟩
  have e : (runMoves cfgFixed State.init ms).map (fun s => (s.pc (.cl 9), (s.box 2).taken, s.pc (.cl 8))) =
      some (.oScan 0 2 [2, 1] [], true, .cLock 2) := by rfl
  rw [hs] at e
  simp only [Option.map_some, Option.some.injEq, Prod.mk.injEq] at e
  exact e

/-! ## Cancellable wrapper (model: Babylon/Coro/Cancel.lean) -/

/-- **cancel_single_winner.**  For every interleaving of the proxy task's completion path with any number of
cancellations (fresh and stale tokens, slot reuse): the awaiter is never resumed while not suspended and
at most once; the winner of `take` is unique and is the only one that resumes; once the proxy has finished
its final step the awaiter has been resumed exactly once (or the winning canceller is at its resume
statement); and the awaited result is the empty optional if and only if a cancellation won (otherwise it is
the value the inner awaitable produced). -/
theorem cancel_single_winner {s : Cancel.State} (h : Cancel.Reach s) (i : Nat) :
    s.bad = false ∧ s.resumes i ≤ 1 ∧
    (s.resumes i = 1 → s.winner i ≠ none) ∧
    (s.ppc i = .done → s.resumes i = 1 ∨ ∃ c n, s.winner i = some (.cancel c) ∧ s.kpc c = .doCancel n i) ∧
    (∀ r, s.result i = some r →
      (r = none ↔ ∃ c, s.winner i = some (.cancel c)) ∧ (∀ v, r = some v → v = s.value i ∧ s.winner i = some .completion)) := by
  have hI := h.inv
  cases hw : s.winner i with
  | none =>
    have h0 := hI.w0 i hw
    refine ⟨hI.noBad, by omega, by omega, ?_, ?_⟩
    · intro hd
      rcases h0.2.2.2 with ⟨_, h', _⟩ | ⟨n, v, _, _, _, _, _, _, h'⟩
      · rw [hd] at h'; cases h'
      · rcases h' with h' | h' <;> (rw [hd] at h'; cases h')
    · intro r hr; rw [h0.2.2.1] at hr; cases hr
  | some w =>
    cases w with
    | completion =>
      have hc := hI.wC i hw
      have hres : s.resumes i ≤ 1 := by rcases hc.2.2 with h' | h' | h' <;> omega
      refine ⟨hI.noBad, hres, by simp, ?_, ?_⟩
      · intro hd
        rcases hc.2.2 with h' | h' | h'
        · rcases h'.1 with e | e <;> (rw [hd] at e; cases e)
        · rw [hd] at h'; cases h'.1
        · exact Or.inl h'.2.1
      · intro r hr
        have := hI.resOk i r hr
        rw [hc.1] at this
        simp at this
        subst this
        exact ⟨by simp, fun v hv => by injection hv with hv; exact ⟨hv.symm, rfl⟩⟩
    | cancel c =>
      have hk := hI.wK i c hw
      have hres : s.resumes i ≤ 1 := by rcases hk.2.2 with h' | h' <;> omega
      refine ⟨hI.noBad, hres, by simp, ?_, ?_⟩
      · intro _
        rcases hk.2.2 with h' | h'
        · obtain ⟨n, v, ht⟩ := hk.2.1
          exact Or.inr ⟨c, n, rfl, h'.1 n v ht⟩
        · exact Or.inl h'.2.1
      · intro r hr
        have hro := hI.resOk i r hr
        rcases hk.2.2 with h' | h'
        · rw [h'.2.2.2.2] at hr; cases hr
        · rw [h'.2.2.1] at hro
          simp at hro
          subst hro
          exact ⟨by simp, fun v hv => by cases hv⟩

/-- non-vacuity: a run in which a cancellation wins and the awaiter receives the empty optional -/
example : ∃ s, Cancel.Reach s ∧ s.result 0 = some none ∧ s.winner 0 = some (.cancel 5) := by
  have r0 : Cancel.Reach Cancel.State.init := Reachable.base rfl
  have r1 := Reachable.tail r0 (Cancel.Step.spawn _ 0 42 rfl)
  have r2 := Reachable.tail r1 (Cancel.Step.arm _ 0 3 7 _ _ rfl)
  have r3 := Reachable.tail r2 (Cancel.Step.cancel _ 5 3 7 rfl rfl (Nat.le_refl _))
  have r4 := Reachable.tail r3 (Cancel.Step.kstep _ 5 _ _ rfl)
  have r5 := Reachable.tail r4 (Cancel.Step.kstep _ 5 _ _ rfl)
  have r6 := Reachable.tail r5 (Cancel.Step.run _ 0 _ rfl)
  exact ⟨_, r6, rfl, rfl⟩

/-! ## Task / future awaits (model: Babylon/Coro/Await.lean) -/

/-- **await_resumed_on_executor.**  For every interleaving of tasks awaiting tasks (bound to the same, another
or no executor), tasks awaiting futures (registration racing with `set_value`), executors running pending
resumptions and executors REJECTING them (fault input; `resume_in_executor` then resumes in place): a coroutine
bound to executor `e` only ever runs in the context of `e` - it is (re)started either by `invoke` on its own
executor or inline by a thread that is already running in that executor - unless `e` itself refused the
resumption (`fb`), the only case in which the library continues it in place; a pending resumption is always
queued on the coroutine's own executor; a pending resumption can always be completed, accepted or rejected
(the coroutine is never left suspended by the hand-over); and no coroutine is resumed while it is not
suspended (every suspension is resumed at most once). -/
theorem await_resumed_on_executor {s : Await.State} (h : Await.Reach s) :
    s.wrongCtx = false ∧ s.bad = false ∧
    (∀ f c e, s.fr f = .running c → s.fex f = some e → c = some e ∨ s.fb f = true) ∧
    (∀ f via, s.fr f = .resuming via → via = s.fex f ∧
      (∃ s', Await.run s f = some s' ∧ s'.fr f = .running via) ∧
      (∀ c, ∃ s', Await.reject s f c = some s' ∧ s'.fr f = .running c)) := by
  refine ⟨h.inv.noWrong, h.inv.noBad, h.inv.ctxOk, ?_⟩
  intro f via hr
  refine ⟨h.inv.viaOk f via hr, ⟨s.enter f via, by simp [Await.run, hr], by simp [Await.State.enter, Await.upd]⟩, ?_⟩
  intro c
  exact ⟨{ s with fr := Await.upd s.fr f (.running c), fb := Await.upd s.fb f true },
    by simp [Await.reject, hr], by simp [Await.upd]⟩

/-- non-vacuity: frame 0 on executor 1 awaits task 1 bound to executor 2; the task is started through
executor 2, finishes there, and frame 0 is queued back on executor 1 -/
example : ∃ s, Await.Reach s ∧ s.fr 0 = .resuming (some 1) ∧ s.fr 1 = .done ∧ s.got 0 = some 5 := by
  have r0 : Await.Reach Await.State.init := Reachable.base rfl
  have r1 := Reachable.tail r0 (Await.Step.submit _ 0 1 _ rfl)
  have r2 := Reachable.tail r1 (Await.Step.run _ 0 _ rfl)
  have r3 := Reachable.tail r2 (Await.Step.create _ 1 (some 2) _ rfl)
  have r4 := Reachable.tail r3 (Await.Step.awaitTask _ 0 1 _ rfl)
  have r5 := Reachable.tail r4 (Await.Step.run _ 1 _ rfl)
  have r6 := Reachable.tail r5 (Await.Step.finish _ 1 5 _ rfl)
  exact ⟨_, r6, rfl, rfl, rfl⟩

end Babylon.Properties.C13
