/-
  Property C13 — coroutines: each suspension resumed exactly once, on its executor, right result;
  coroutine futex wake_one / wake_all / cancel / non-matching wait / no bookkeeping leak.
  Property theorems only; models in Babylon/Coro/{Futex,Cancel,Await}.lean, lemmas in
  Babylon/Coro/Lemmas*.lean.
-/
import Babylon.Gen.Coro
import Babylon.Coro.Futex
import Babylon.Coro.Cancel
import Babylon.Coro.Await

namespace Babylon.Properties.C13
open Babylon.Coro Babylon.Gen.Coro

/-! ## Generated obligations: the source still has the statements the models were written against -/

/-- `Futex::wake_one`: the scan unlinks the first node, saves `next` BEFORE clearing it and advances
through the saved pointer (repaired shape of DESIGN 7 #3). -/
theorem gen_wake_one :
    stmts_wake_one = [
      "auto&box=DepositBox<Node>::instance()", "Node*node=nullptr", "lock_guard<mutex>lock", "_mutex",
      "Node*next_node=nullptr", "for(node=_awaiter_head.next;node!=nullptr;node=next_node)",
      "next_node=node->next", "if(next_node!=nullptr)", "next_node->prev=&_awaiter_head",
      "_awaiter_head.next=next_node", "node->prev=nullptr", "node->next=nullptr",
      "if(box.take_released(node->id))", "break", "if(node)", "node->promise->resume(node->handle)",
      "box.finish_released(node->id)", "return1", "return0"] ∧
    wakeOneSavesNext = true ∧ wakeOneAdvance = ["node=next_node"] := by decide

/-- `Futex::wake_all`: two phases; the second loop reads `node->next` BEFORE `finish_released`
(repaired shape of DESIGN 7 #4) — the shape flag the model is instantiated with. -/
theorem gen_wake_all :
    stmts_wake_all = [
      "auto&box=DepositBox<Node>::instance()", "Node*head=nullptr", "lock_guard<mutex>lock", "_mutex",
      "head=_awaiter_head.next", "_awaiter_head.next=nullptr", "autotail=&head",
      "for(autonode=head;node!=nullptr;node=node->next)", "node->prev=nullptr",
      "if(box.take_released(node->id))", "tail=&(node->next)", "else", "*tail=node->next", "intwaked=0",
      "for(autonode=head;node!=nullptr;)", "autonext_node=node->next", "node->promise->resume(node->handle)",
      "box.finish_released(node->id)", "node=next_node", "waked++", "returnwaked"] ∧
    wakeAllNextFirst = true := by decide

theorem gen_add_awaiter :
    stmts_add_awaiter = [
      "lock_guard<mutex>lock", "_mutex", "if(expected_value==_value)", "node->prev=&_awaiter_head",
      "node->next=_awaiter_head.next", "_awaiter_head.next=node", "if(node->next)", "node->next->prev=node",
      "returntrue", "returnfalse"] := by decide

theorem gen_remove_awaiter :
    stmts_remove_awaiter = [
      "lock_guard<mutex>lock", "_mutex", "if(node->prev)", "node->prev->next=node->next", "if(node->next)",
      "node->next->prev=node->prev"] := by decide

/-- `Futex::Awaitable::await_suspend`: emplace, fill the node, add_awaiter; on failure take and finish
the own slot (repaired shape of DESIGN 7 #5), on success hand out the token. -/
theorem gen_await_suspend :
    stmts_await_suspend = [
      "auto&box=DepositBox<Node>::instance()", "autoid=box.emplace()", "autonode=&box.unsafe_get(id)",
      "node->futex=_futex", "node->id=id", "node->promise=&handle.promise()", "node->handle=handle",
      "autosuccess=_futex->add_awaiter(node,_expected_value)", "if(!success)", "box.take_released(id)",
      "box.finish_released(id)", "elseif(_on_suspend)", "_on_suspend({id})", "returnsuccess"] ∧
    waitFailRecycles = true := by decide

theorem gen_cancel :
    stmts_cancel = [
      "auto&box=DepositBox<Node>::instance()", "autonode=box.take_released(id)", "if(!node)", "returnfalse",
      "node->futex->remove_awaiter(node)", "node->promise->resume(node->handle)", "box.finish_released(id)",
      "returntrue"] := by decide

/-- cancellable wrapper -/
theorem gen_cancellable :
    stmts_bc_cancel = Cancel.Stmts.bc_cancel ∧ stmts_bc_resume = Cancel.Stmts.bc_resume ∧
    stmts_bc_do_cancel = Cancel.Stmts.bc_do_cancel ∧ stmts_bc_do_resume = Cancel.Stmts.bc_do_resume ∧
    stmts_c_await_resume = Cancel.Stmts.c_await_resume ∧ stmts_accessor_dtor = Cancel.Stmts.accessor_dtor := by decide

/-- task / promise / future awaitable -/
theorem gen_await :
    stmts_final_await_suspend = Await.Stmts.final_await_suspend ∧
    stmts_awaiter_inplace_resumable = Await.Stmts.awaiter_inplace_resumable ∧
    stmts_inplace_resumable = Await.Stmts.inplace_resumable ∧
    stmts_resume_awaiter = Await.Stmts.resume_awaiter ∧ stmts_promise_resume = Await.Stmts.promise_resume ∧
    stmts_task_await_suspend = Await.Stmts.task_await_suspend ∧
    stmts_task_await_suspend_p = Await.Stmts.task_await_suspend_p ∧
    stmts_future_await_ready = Await.Stmts.future_await_ready ∧
    stmts_future_await_suspend = Await.Stmts.future_await_suspend ∧
    stmts_set_awaiter = Await.Stmts.set_awaiter := by decide

end Babylon.Properties.C13
