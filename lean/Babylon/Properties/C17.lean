/-
  Property C17 — page allocators / object pool: resources conserved, never shared, never lost.
  Property theorems only; the model is Babylon/Pages/Model.lean, helper lemmas are in Babylon/Pages/*.lean.

  The transition system is `Babylon.Pages.Step c`: any number `c.nthreads` of threads, any queue capacity
  `c.cap`, any batch size / counting layer / pool mode; one step = one atomic operation, fence, (reverse)
  callback event or silent thread-local move of the real `CachedPageAllocator`, `BatchPageAllocator`,
  `CountingPageAllocator`, `PageHeap` (allocate, deallocate, destructors) or `ObjectPool` (pop, try_pop, push in
  strict and auto-create mode), or a call / return event allowed by the client contract (`callOp`: a caller
  gives back only tokens it holds; the upstream hands out only tokens that are not live).  `Reach c s` = `s` is
  reachable, by any interleaving, from the empty queue at the start of ANY round `r0` (`State.initAt c r0`;
  `r0 = 0` is a fresh allocator, large `r0` are the states just below the wrap of the 16-bit slot version).

  ASSUMED bounded-queue specification (C01/C02's theorems, not re-proved here; stated in the header of
  Model.lean): it enters the model as guards of `acquire` / `takeVal` / `publish` (C01 `bq_inv`,
  `bq_exclusive`: exclusive access to a slot between "version observed" and "version advanced"; `bq_value`:
  the slot stores what the same ticket pushed; `bq_ver16_faithful`: truncated versions compare like the
  untruncated ones) and of `dlWait` (C02 `bq_sleep_sound`: a sleeper is woken once its version is published).
  Every theorem below is about the executions these guards permit; the lock-step replay
  (lean/Drivers/C17.lean) reports a divergence whenever the real code takes a step the guards forbid.
-/
import Babylon.Pages.Comp
import Babylon.Pages.View

namespace Babylon.Properties.C17
open Babylon.Pages Babylon.Core Babylon.Gen.Pages

/-! ## Generated obligations: the source is the one the model was written against -/

/-- the compensating `deal_n_continuously`: version check, read of the OPPOSITE ticket counter, compensating
`try_pop_n` / `try_push_n`, yield; acquire fence, callback, release fence, version publish -/
theorem gen_skel_comp_deal_n : skel_comp_deal_n =
    [.call "version", .load "_next_pop_index" .rlx, .load "_next_push_index" .rlx, .call "try_pop_n",
     .call "try_push_n", .call "S::yield", .fence .acq, .call "callback", .fence .rel, .call "set_version"] := by decide

theorem gen_skel_tickets :
    skel_comp_push_n = [.rmw "fetch_add" "_next_push_index" .rlx, .call "deal_n_continuously",
      .call "deal_n_continuously", .call "deal_n_continuously"] ∧
    skel_comp_pop_n = [.rmw "fetch_add" "_next_pop_index" .rlx, .call "deal_n_continuously",
      .call "deal_n_continuously", .call "deal_n_continuously"] ∧
    skel_push1 = [.rmw "fetch_add" "_next_push_index" .rlx, .load "_next_push_index" .rlx,
      .store "_next_push_index" .rlx, .call "deal"] ∧
    skel_pop1 = [.rmw "fetch_add" "_next_pop_index" .rlx, .load "_next_pop_index" .rlx,
      .store "_next_pop_index" .rlx, .call "deal"] := by decide

theorem gen_skel_try :
    skel_try_deal_n = [.call "version", .cas "next_index" true .rlx .rlx, .store "next_index" .rlx, .fence .acq,
      .call "callback", .fence .rel, .call "set_version", .fence .sc, .call "wakeup_waiters"] ∧
    skel_try_push_n = [.load "_next_push_index" .rlx, .call "try_deal_n_continuously",
      .call "try_deal_n_continuously", .call "try_deal_n_continuously"] ∧
    skel_try_pop_n = [.load "_next_pop_index" .rlx, .call "try_deal_n_continuously",
      .call "try_deal_n_continuously", .call "try_deal_n_continuously"] ∧
    skel_try_deal = [.load "next_index" .rlx, .call "version", .load "next_index" .rlx,
      .cas "next_index" false .rlx .rlx, .store "next_index" .rlx, .call "callback",
      .call "set_version_and_wakeup_waiters", .call "set_version"] ∧
    skel_deal = [.call "wait_until_reach_expected_version", .call "callback",
      .call "set_version_and_wakeup_waiters", .call "set_version"] ∧
    skel_size = [.load "_next_pop_index" .rlx, .load "_next_push_index" .rlx] ∧
    skel_sf_set_version_and_wakeup = [.xchg "_futex.value()" .rel, .call "wake_all"] := by decide

/-- the compensating decision is `need_index <= index + num` on a relaxed read of the opposite counter, the
compensation is `try_pop_n<true,false>(rc, 1)` / `try_push_n<true,false>(rc, 1)`, the destructor pops with
`try_pop_n<false,false>`, versions are `2·round (+1)` truncated to 16 bits -/
theorem gen_constants :
    compDecisionOp = "<=" ∧ compTryPopFlags = [true, false] ∧ compTryPopNum = 1 ∧
    compTryPushFlags = [true, false] ∧ compTryPushNum = 1 ∧ dtorTryPopFlags = [false, false] ∧
    pushVersionFactor = 2 ∧ popVersionOffset = 1 ∧ verMod = 2 ^ 16 ∧ versionBits = 16 ∧ futexWordBits = 32 ∧
    ringSplitChecked = 1 ∧ defaultCapacity = 1 ∧ ceil0 = 1 ∧ ceil3 = 4 := by decide

/-- memory orders the model's labels carry: the batch paths are relaxed accesses bracketed by an acquire and
a release fence, the single-element paths acquire the version and publish it with release -/
theorem gen_orders :
    ordCompVer = .rlx ∧ ordCompSetVer = .rlx ∧ ordOppPush = .rlx ∧ ordOppPop = .rlx ∧
    ordTryNVer = .rlx ∧ ordTryNSetVer = .rlx ∧ ordTryNCas = .rlx ∧ ordTryNCasFail = .rlx ∧ ordTryNStoreIdx = .rlx ∧
    ordTicketPushN = .rlx ∧ ordTicketPopN = .rlx ∧ ordTicket1Push = .rlx ∧ ordTicket1Pop = .rlx ∧
    ordDealWait = .acq ∧ ordDealSetVer = .rel ∧ ordDealXchg = .rel ∧
    ordTry1Ver = .acq ∧ ordTry1SetVer = .rel ∧ ordTry1Cas = .rlx ∧ ordSizePop = .rlx ∧ ordSizePush = .rlx := by decide

/-- the allocators: call structure, counting before (CountingPageAllocator) / after (PageHeap) forwarding,
batch allocator shape -/
theorem gen_skel_allocators :
    skel_cached_allocate = [.call "pop_n", .call "::std::copy", .call "_upstream->allocate", .call "_upstream->allocate"] ∧
    skel_cached_deallocate = [.call "push_n", .call "::std::copy_n", .call "_upstream->deallocate",
      .call "_upstream->deallocate"] ∧
    skel_cached_dtor = [.call "try_pop_n", .call "_upstream->deallocate"] ∧
    skel_batch_allocate1 = [.call "_cache.local", .call "_upstream->allocate"] ∧
    skel_batch_allocate_n = [.call "allocate"] ∧ skel_batch_deallocate = [.call "_upstream->deallocate"] ∧
    skel_batch_dtor = [.call "_cache.for_each", .call "_upstream->deallocate"] ∧
    countingCountsBefore = 1 ∧ heapCountsAfter = 1 ∧ countDeltaChecked = 1 ∧ batchShapeChecked = 1 := by decide

/-- the pool: strict mode `pop<true,true,false>` / `push<true,false,true>`, `try_pop<true,false>`, auto mode
`pop_n` / `push_n` of one element with creator / reset as reverse callbacks, recycler first, size gate, queue
of twice the capacity -/
theorem gen_skel_pool :
    skel_pool_pop = [.call "_free_objects.template pop_n", .call "_object_creator", .call "_free_objects.template pop"] ∧
    skel_pool_try_pop = [.call "_free_objects.template try_pop"] ∧
    skel_pool_push = [.call "_object_recycler", .call "_free_objects.size", .call "_free_objects.template push_n",
      .call "_free_objects.template push"] ∧
    skel_pool_push_deleter = [.call "push"] ∧ skel_pool_deleter_call = [.call "_pool->push"] ∧
    poolPopFlags = [true, true, false] ∧ poolTryPopFlags = [true, false] ∧ poolPushFlags = [true, false, true] ∧
    poolQueueFactor = 2 := by decide

/-- the two repaired shapes stay repaired: `ObjectPool<T>::Deleter::operator=(Deleter&&)` returns `*this`
(it had no return statement: move-assigning a pooled handle was undefined behaviour), and
`BatchPageAllocator::allocate` sizes the buffer of a default-constructed thread slot before the first refill
(it wrote `_batch_size` pointers through a null pointer).  Witnesses: harness modes `handles`, `batchdefault`. -/
theorem gen_repaired_shapes : deleterAssignReturnsThis = 1 ∧ batchLazyBuffer = 1 := by decide

/-! ## Single owner, conservation -/

/-- **pages_single_owner.**  In every reachable state the list of all token occurrences, place by place
(cache slots, callers, thread buffers, in-flight lists of every thread), has no duplicates: a token is in at
most one place, and at most once in it; a token in no place is upstream.  Invariant: every step is a move
(`Step.delta`). -/
theorem pages_single_owner (c : Cfg) (s : State) (h : Reach c s) : (toks c s).Nodup := reach_nodup h

/-- every transition moves tokens: it permutes the live tokens, or brings in one token from upstream that
was not live, or sends exactly one live token back upstream -/
theorem pages_each_step_is_a_move (c : Cfg) (s s' : State) (h : Step c s s') : Delta c s s' := Step.delta h

/-- what single ownership means for a token handed out by allocate / pop (it is in `held`): it is not cached,
not in a thread buffer, not in flight in any thread, and it is not held twice (by two callers) -/
theorem pages_never_shared (c : Cfg) (s : State) (h : Reach c s) (p : Tok) (hp : p ∈ s.held) :
    p ∉ cacheToks s ∧ p ∉ s.bufs.flatten ∧ p ∉ thToks c s ∧ s.held.count p = 1 := by
  have hn := reach_nodup h
  unfold toks at hn
  have h1 := List.nodup_append.mp hn
  have h2 := List.nodup_append.mp h1.1
  have h3 := List.nodup_append.mp h2.1
  refine ⟨fun hc => ?_, fun hb => ?_, fun ht => ?_, ?_⟩
  · exact h3.2.2 p hc p hp rfl
  · exact h2.2.2 p (List.mem_append.mpr (Or.inr hp)) p hb rfl
  · exact h1.2.2 p (List.mem_append.mpr (Or.inl (List.mem_append.mpr (Or.inr hp)))) p ht rfl
  · rw [h3.2.1.count]; simp [hp]

/-- a token that goes back upstream (`upstream_free`, `destroy`) is afterwards in no place at all: nothing
that was returned upstream is still cached, held or in flight -/
theorem returned_upstream_is_gone (c : Cfg) (s s' : State) (h : Reach c s) (hst : Step c s s') (p : Tok)
    (hfree : (toks c s).Perm (p :: toks c s')) : p ∉ toks c s' := by
  have hn := hfree.nodup_iff.mp (reach_nodup h)
  exact (List.nodup_cons.mp hn).1

/-- **pages_conserved, at every moment**: obtained − returned = number of live tokens (cached + held by callers
+ thread buffers + in flight). -/
theorem pages_conserved_always (c : Cfg) (s : State) (h : Reach c s) :
    s.obtained = s.returned + ((cacheToks s).length + s.held.length + s.bufs.flatten.length + (thToks c s).length) := by
  have := reach_conserve h
  simp only [toks, List.length_append] at this
  omega

/-- **pages_conserved.**  At any quiescent point (no thread inside a call) nothing is in flight:
#obtained − #returned = #callers + #cached + #threadBuffers. -/
theorem pages_conserved (c : Cfg) (s : State) (h : Reach c s) (hq : Quiescent c s) :
    s.obtained = s.returned + (s.held.length + (cacheToks s).length + s.bufs.flatten.length) := by
  have h1 := pages_conserved_always c s h
  rw [thToks_quiescent (reach_idleEmpty h) hq] at h1
  simp only [List.length_nil] at h1
  omega

/-! ## Counting allocator, PageHeap, batch allocator -/

/-- **counting_exact.**  For a page-allocator stack with a counting layer (`CountingPageAllocator` in front of
the cache: counter updated before forwarding; `PageHeap`: after), at every quiescent point the counter equals
the number of pages that are above the cache layer — with callers or prefetched in thread buffers —, hence
`allocated_page_num() = max(0, counter)` is exactly that number.  (Between quiescent points the counter is
off by the calls in progress: `reach_cntInv`.) -/
theorem counting_exact (c : Cfg) (s : State) (hm : c.mode = Mode.pages) (hcnt : c.count ≠ CountMode.off)
    (hcap : 0 < c.cap) (h : Reach c s) (hq : Quiescent c s) :
    s.counter = (s.held.length : Int) + s.bufs.flatten.length ∧
    s.counter.toNat = s.held.length + s.bufs.flatten.length := by
  have hi := reach_cntInv hm hcnt hcap h
  unfold CntInv at hi
  rw [adjSum_quiescent (reach_idleEmpty h) hq] at hi
  refine ⟨by omega, by omega⟩

/-- the bookkeeping behind it: `CachedPageAllocator::allocate(pages, n)` fills its page array segment by segment
(`min(n, capacity)` pages through the queue, the rest from upstream); the invariant `LenOK` holds for every
thread of every reachable state -/
theorem allocate_length_bookkeeping (c : Cfg) (s : State) (hcap : 0 < c.cap) (h : Reach c s) (t : Tid) :
    LenOK c (s.th t) := reach_len hcap h t

/-- **batch_dtor_returns_buffers.**  `~BatchPageAllocator`, called (alone: only thread `t` takes steps) with the
list of thread slots it enumerates covering every non-empty buffer: when it returns, every thread buffer is
empty — each buffer went through `_upstream->deallocate` (the moves are token moves, so nothing is lost:
`pages_conserved_always`). -/
theorem batch_dtor_returns_buffers (c : Cfg) (s s1 s2 : State) (t : Tid) (order : List Nat)
    (hcall : callOp c s t (.bdtor order) = some s1)
    (hord : ∀ u p ps, s.bufs[u]? = some (p :: ps) → u ∈ order)
    (hrun : RunT c t s1 s2) (hret : (s2.th t).pc = .retWait) : s2.bufs.flatten = [] :=
  bdInv_done (bdInv_run hrun (bdInv_call hcall hord)) hret

/-- **cached_dtor_returns_all.**  `~CachedPageAllocator` = `try_pop_n<false,false>(cb, capacity())` with a
callback that frees every popped page upstream.  Called at a quiescent point whose queue has the quiescent
shape `QShape` (ASSUMED: C01 `bq_inv` at quiescence — tickets `[pop, push)` are pop-ready and hold a token, the
other slots are push-ready and empty; the replay driver checks `qshapeB`, which implies it, at every quiescent
point of every trace), and running alone, the destructor returns with an empty cache; exactly the cached pages
went upstream, nothing else moved. -/
theorem cached_dtor_returns_all (c : Cfg) (s s0 s' : State) (t : Tid) (ht : t < c.nthreads) (h : Reach c s)
    (hq : QShape c s) (hcall : callOp c s t .dtor = some s0) (hrun : RunT c t s0 s')
    (hret : (s'.th t).pc = .retWait) :
    cacheToks s' = [] ∧ s'.returned = s.returned + (cacheToks s).length ∧ s'.obtained = s.obtained ∧
      s'.held = s.held ∧ s'.bufs = s.bufs :=
  dtor_returns_all ht h hq hcall hrun hret

/-- the executable check the driver runs at quiescent points implies `QShape` -/
theorem qshape_checked (c : Cfg) (s : State) (h : qshapeB c s = true) : QShape c s := qshapeB_sound h

/-- **compensation_terminates (B).**  The compensating wait loop exits once its range is published: if the
slots `i … num-1` of the current segment carry the expected version (and nobody is inside them), then `num - i`
steps of the thread — all of them matching version reads — take it to the acquire fence in front of the
callback, with the ticket counters, the hit counter, the upstream counters and the cache content unchanged:
no further compensation, no opposite-counter read.
(Not proved: that the range *does* get published under a fair scheduler — the concurrent progress argument
needs the full ticket invariant of C01; VRT's deadlock / step-limit verdicts cover it on the sampled
schedules.  Observation: after a failed compensation the loop re-checks without `S::yield()`, so it relies on
preemptive scheduling.) -/
theorem compensation_terminates (c : Cfg) (hcap : 0 < c.cap) (s : State) (t : Tid)
    (hpc : (s.th t).pc = .rdVer) (hnum : (s.th t).num ≤ c.cap) (hlen : s.slots.length = c.cap)
    (hi : (s.th t).i < (s.th t).num) (hpub : Published c s t) :
    ∃ s', runThread c t ((s.th t).num - (s.th t).i) s = some s' ∧ (s'.th t).pc = .fAcq ∧
      (s'.th t).hit = (s.th t).hit ∧ s'.pushIdx = s.pushIdx ∧ s'.popIdx = s.popIdx ∧
      s'.obtained = s.obtained ∧ s'.returned = s.returned ∧ cacheToks s' = cacheToks s :=
  wait_exits_when_published hcap _ s t hpc hnum hlen hi rfl hpub

/-! ## Object pool -/

/-- **pool_strict_bound (1).**  A strict pool never creates or destroys an object by itself: the objects that
exist are exactly the injected ones, and at every moment they are with callers, cached, or in flight inside a
pop / push — so the number of objects outstanding with callers never exceeds the number injected. -/
theorem pool_strict_bound (c : Cfg) (s : State) (hm : c.mode = Mode.poolStrict) (h : Reach c s) :
    s.held.length + (cacheToks s).length + (thToks c s).length = s.injected ∧ s.held.length ≤ s.injected := by
  have hs := reach_strict hm h
  have hc := pages_conserved_always c s h
  rw [hs.obt, hs.ret] at hc
  have hb : s.bufs.flatten.length = 0 := by rw [hs.bufs]; rfl
  omega

/-- **pool_strict_bound (2): a blocked pop is woken by the matching push.**  When the push of ticket `i`
publishes its slot (and wakes the sleepers), the pop of the same ticket that was waiting is enabled, and after
its two silent steps it holds exactly the object that was pushed. -/
theorem pool_blocked_pop_resumes (c : Cfg) (s s' : State) (t u : Tid) (tok : Tok) (spur : Bool) (l : Option Act)
    (h : Reach c s) (hut : u ≠ t)
    (hu : (s.th u).pc = .dlPub) (hud : (s.th u).dir = .push)
    (ht : (s.th t).pc = .dlWait) (htd : (s.th t).dir = .pop) (hi : (s.th t).idx = (s.th u).idx)
    (hstep : stepThread c s u tok spur = some (s', l)) :
    ∃ o s1 s2, (s.th u).pages = [o] ∧
      stepThread c s' t 0 false = some (s1, none) ∧ (s1.th t).pc = .dlCb ∧
      stepThread c s1 t 0 false = some (s2, none) ∧ (s2.th t).pc = .dlPub ∧ (s2.th t).pages = (s.th t).pages ++ [o] :=
  pop_enabled_by_push (reach_slotsOK h) hut hu hud ht htd hi hstep

/-- **pool_auto_recycle_once.**  For every object `o`: the recycler has run on `o` as often as `push(o)` has
been called, minus the pushes that are between their call and the recycler (at most one, the object is in
flight in exactly one thread); at quiescence the two numbers are equal — once per returned object. -/
theorem pool_auto_recycle_once (c : Cfg) (s : State) (h : Reach c s) (o : Tok) :
    s.recLog.count o ≤ s.pushLog.count o ∧ s.pushLog.count o ≤ s.recLog.count o + 1 ∧
    (Quiescent c s → s.recLog.count o = s.pushLog.count o) := by
  have hr := reach_recInv h o
  have hn := reach_nodup h
  have hsub : (pend c s).count o ≤ (thToks c s).count o := pend_le_thToks c s o
  have hle : (thToks c s).count o ≤ 1 := by
    have : (toks c s).count o ≤ 1 := List.nodup_iff_count.mp hn o
    unfold toks at this
    simp only [List.count_append] at this
    omega
  refine ⟨by omega, by omega, fun hq => ?_⟩
  rw [pend_quiescent hq] at hr
  simp at hr
  omega

/-- overflow in auto mode: the gate `capacity <= size()` sends the pushed object back upstream (it is
destroyed): the step is a `free`, so the object is afterwards in no place — not leaked into a slot, not cached
twice, not handed to anybody. -/
theorem pool_overflow_destroyed (c : Cfg) (s s' : State) (t : Tid) (tok : Tok) (spur : Bool) (l : Option Act)
    (h : Reach c s) (ht : t < c.nthreads) (hpc : (s.th t).pc = .pDestroy)
    (hstep : stepThread c s t tok spur = some (s', l)) :
    ∃ o, (s.th t).pages = [o] ∧ l = some (.ev ["up_free", toString o]) ∧ s'.returned = s.returned + 1 ∧
      o ∉ toks c s' ∧ (s'.th t).pc = .retWait := by
  obtain ⟨o, hpg, hl, hr, hpc', hperm⟩ := pDestroy_step ht hpc hstep
  exact ⟨o, hpg, hl, hr, returned_upstream_is_gone c s s' h (Step.thread t tok spur l ht hstep) o hperm, hpc'⟩

/-! ## Hand-off over the release/acquire view model (stale reads included) -/

/-- **pool_handoff_view.**  Single-element path (strict pool `push` / `pop`, `try_pop`): the previous owner's
releasing publication of the slot version, read by the new owner's acquiring load, transfers the previous
owner's whole view: `(view of previous owner at push) ≤ (view of new owner after pop)`, it stays so, and any
later read of an object cell by the new owner returns a message at least as new as the newest one the previous
owner knew (its last write or a later one).  Negative controls (relaxed push / relaxed pop admit the stale
read) are `example … := by decide` in Babylon/Pages/View.lean. -/
theorem pool_handoff_view (m0 : MemView.Mem View.Loc) (a b : Nat) (oPush oPop : Core.Ord) (ver : Nat)
    {m2 m3 m4 m5 : MemView.Mem View.Loc} {v' : Nat}
    (hrel : oPush.releases = true) (hacq : oPop.acquires = true)
    (hext : (m0.write a .slot oPush ver).Ext m2)
    (hpop : m2.read b .slot oPop (m0.len .slot) = some (m3, v'))
    (hlater : m3.Ext m4) (k : Nat) (o : Core.Ord) (ts w : Nat) (huse : m4.read b (.cell k) o ts = some (m5, w)) :
    v' = ver ∧ (m0.tv a).cur ≤ (m3.tv b).cur ∧ (m0.tv a).cur ≤ (m4.tv b).cur ∧ ((m0.tv a).cur).get (.cell k) ≤ ts :=
  View.pool_handoff_view m0 a b oPush oPop ver hrel hacq hext hpop hlater k o ts w huse

/-- **pool_handoff_view_fences.**  Batch / compensating paths (page caches, thread-buffer spill and refill
through the shared queue, auto-mode pool): release fence + relaxed version store on the giving side, relaxed
version load + acquire fence on the taking side — same conclusion. -/
theorem pool_handoff_view_fences (m0 : MemView.Mem View.Loc) (a b : Nat) (ver : Nat)
    {m2 m3 m4 m5 m6 : MemView.Mem View.Loc} {v' : Nat}
    (hext : ((m0.fence a .rel).write a .slot .rlx ver).Ext m2)
    (hpop : m2.read b .slot .rlx (m0.len .slot) = some (m3, v'))
    (hmid : m3.Ext m4) (hlater : (m4.fence b .acq).Ext m5)
    (k : Nat) (o : Core.Ord) (ts w : Nat) (huse : m5.read b (.cell k) o ts = some (m6, w)) :
    v' = ver ∧ (m0.tv a).cur ≤ ((m4.fence b .acq).tv b).cur ∧ ((m0.tv a).cur).get (.cell k) ≤ ts :=
  View.pool_handoff_view_fences m0 a b ver hext hpop hmid hlater k o ts w huse

/-- the orders and fences these two theorems need are the ones written in the source -/
theorem gen_handoff_orders :
    ordDealSetVer.releases = true ∧ ordDealXchg.releases = true ∧ ordTry1SetVer.releases = true ∧
    ordDealWait.acquires = true ∧ ordTry1Ver.acquires = true := View.codeOrds_ok

/-! ## Non-vacuity -/

/-- capacity 2, three threads: a page is cached (and its slot already acquired by a popper), another is with
a caller, and thread 1 is in the middle of a compensating allocate: it has just obtained page 3 from upstream
for a compensating push -/
def demoCfg : Cfg := { cap := 2, nthreads := 3 }

def demoSched : List Move :=
  [.call 0 (.alloc 2), .act 0, .act 0, .act 0, .act 0, .act 0, .act 0, .act 0, .act 0 1, .act 0, .act 0,   -- first page compensated
   .act 0, .act 0, .act 0, .act 0, .act 0, .act 0, .act 0, .act 0 2, .act 0, .act 0,                     -- second page
   .act 0, .act 0, .act 0, .act 0, .act 0, .act 0, .act 0, .ret 0,                                      -- callback, publish, return [1, 2]
   .call 0 (.dealloc [2]), .act 0, .act 0, .act 0, .act 0, .act 0, .ret 0,                              -- page 2 cached
   .call 1 (.alloc 2), .act 1, .act 1, .act 1, .act 1, .act 1, .act 1, .act 1, .act 1, .act 1 3]

example : ∃ s, Reach demoCfg s ∧ s.held = [1] ∧ cacheToks s = [2] ∧ (s.th 1).pc = .cRel ∧ (s.th 1).carry = [3] ∧
    s.obtained = 3 ∧ s.returned = 0 := by
  cases hs : run demoCfg (State.init demoCfg) demoSched with
  | none => exact absurd hs (by decide)
  | some s =>
    have hr : Reach demoCfg s := run_reach demoSched _ _ (Reachable.base ⟨0, rfl⟩) hs
    have hrest : (run demoCfg (State.init demoCfg) demoSched).map
        (fun s => decide (s.held = [1] ∧ cacheToks s = [2] ∧ (s.th 1).pc = .cRel ∧ (s.th 1).carry = [3] ∧
          s.obtained = 3 ∧ s.returned = 0)) = some true := by decide
    rw [hs] at hrest
    exact ⟨s, hr, by simpa using hrest⟩


/-- the hypotheses of `cached_dtor_returns_all` are satisfiable, and the destructor does return: capacity 2,
pages 1 and 2 cached at a quiescent point with the quiescent shape; the destructor runs 10 steps and returns
with both pages gone upstream -/
def demoFill : List Move :=
  [.call 0 (.alloc 2), .act 0, .act 0, .act 0, .act 0, .act 0, .act 0, .act 0, .act 0 1, .act 0, .act 0,
   .act 0, .act 0, .act 0, .act 0, .act 0, .act 0, .act 0, .act 0 2, .act 0, .act 0,
   .act 0, .act 0, .act 0, .act 0, .act 0, .act 0, .act 0, .ret 0,
   .call 0 (.dealloc [1, 2]), .act 0, .act 0, .act 0, .act 0, .act 0, .act 0, .act 0, .ret 0]

example : ∃ s s0 s', Reach demoCfg s ∧ Quiescent demoCfg s ∧ QShape demoCfg s ∧ cacheToks s = [1, 2] ∧
    callOp demoCfg s 0 .dtor = some s0 ∧ RunT demoCfg 0 s0 s' ∧ (s'.th 0).pc = .retWait ∧
    cacheToks s' = [] ∧ s'.returned = 2 := by
  cases hs : run demoCfg (State.init demoCfg) demoFill with
  | none => exact absurd hs (by decide)
  | some s =>
    have hr : Reach demoCfg s := run_reach demoFill _ _ (Reachable.base ⟨0, rfl⟩) hs
    have hfacts : (run demoCfg (State.init demoCfg) demoFill).map
        (fun s => quiescentB demoCfg s && qshapeB demoCfg s && decide (cacheToks s = [1, 2])) = some true := by decide
    rw [hs] at hfacts
    simp only [Option.map_some, Option.some.injEq, Bool.and_eq_true, decide_eq_true_eq] at hfacts
    obtain ⟨⟨hq, hsh⟩, hct⟩ := hfacts
    have hquiet : Quiescent demoCfg s := by
      intro t ht
      have := List.all_eq_true.mp hq t (List.mem_range.mpr ht)
      simpa using this
    cases hc : callOp demoCfg s 0 .dtor with
    | none =>
      exfalso
      have : ((run demoCfg (State.init demoCfg) demoFill).bind (fun s => callOp demoCfg s 0 .dtor)).isSome = true := by decide
      rw [hs] at this; simp [hc] at this
    | some s0 =>
      cases hd : runThread demoCfg 0 10 s0 with
      | none =>
        exfalso
        have : (((run demoCfg (State.init demoCfg) demoFill).bind (fun s => callOp demoCfg s 0 .dtor)).bind
            (fun s0 => runThread demoCfg 0 10 s0)).isSome = true := by decide
        rw [hs] at this; simp [hc, hd] at this
      | some s' =>
        have hpc : (((run demoCfg (State.init demoCfg) demoFill).bind (fun s => callOp demoCfg s 0 .dtor)).bind
            (fun s0 => runThread demoCfg 0 10 s0)).map (fun s' => decide ((s'.th 0).pc = .retWait)) = some true := by decide
        rw [hs] at hpc; simp [hc, hd] at hpc
        have hrun := runThread_runT 10 s0 s' hd
        have hall := cached_dtor_returns_all demoCfg s s0 s' 0 (by decide) hr (qshapeB_sound hsh) hc hrun hpc
        have hret0 : (run demoCfg (State.init demoCfg) demoFill).map (fun s => s.returned) = some 0 := by decide
        rw [hs] at hret0; simp at hret0
        refine ⟨s, s0, s', hr, hquiet, qshapeB_sound hsh, hct, hc, hrun, hpc, hall.1, ?_⟩
        rw [hall.2.1, hct, hret0]; rfl

end Babylon.Properties.C17
