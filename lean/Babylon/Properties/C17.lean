/-
  Property C17 — property theorems only (helper lemmas live next to the model).
  Stub: nothing claimed yet.
-/
namespace Babylon.Properties.C17
end Babylon.Properties.C17
