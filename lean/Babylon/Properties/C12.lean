/-
  Property C12 — reusable containers: match std behaviour; clearing keeps capacity for reuse.
  Property theorems only; helper lemmas live in Babylon/RVec/Lemmas*.lean.

  Model: Babylon/RVec/Model.lean (cell-level transcription of vector.hpp, allocation metadata,
  ReusableManager) and Babylon/RVec/Str.lean (reusable string).  All theorems quantify over the
  element-type behaviour `c : Cfg` (what moved-from elements hold, which `call_reconstruct`
  overload applies), over every operation sequence and over every value.
-/
import Babylon.RVec.Lemmas4
import Babylon.RVec.Str

namespace Babylon.Properties.C12
open Babylon.RVec Babylon.RVec.RVec Babylon.Gen.RVec Babylon.Core

/-! ### generated obligations (tie to the current source, see gen/rvec.py) -/

/-- growth policy of `emplace_back` and the manager's default cadence -/
theorem gen_growth_policy : growInit = 4 ∧ growFactor = 2 ∧ defaultRecreateInterval = 1000 := by decide

/-- `prepare_for_insert` returns before its shifting loops when nothing is inserted (without the
guard its second loop self-move-assigns every element behind `pos`; fixed in /repo 4ee8558,
replay corpus/C12/zero_count_insert_stdstring.txt) -/
theorem gen_zero_count_guard : zeroCountGuard = true := by decide

/-- libstdc++ string facts the string model uses, as measured by the translator's probe -/
theorem gen_string_probe : ssoCap = 15 ∧ growProbe = 2 * ssoCap ∧ exactProbe = 1000 ∧ cxx11abi = 1 := by decide

/-! The normalised text of every member function the model transcribes.  An edit of one of these
functions makes the corresponding obligation fail until the model has been re-read against it. -/
theorem gen_src_move_ctor : src_move_ctor =
    "noexcept:ReusableVector(other.get_allocator()){swap(other);}" := rfl
theorem gen_src_copy_assign : src_copy_assign =
    "{assign(other.begin(),other.end());return*this;}" := rfl
theorem gen_src_move_assign : src_move_assign =
    "{if(_allocator==other.get_allocator()){swap(other);}else{clear();reserve(other.size());for(auto&value:other){emplace_back(::std::move(value));}}return*this;}" := rfl
theorem gen_src_dtor : src_dtor =
    "{ifCONSTEXPR_SINCE_CXX17(!::std::is_trivially_destructible<value_type>::value){for(size_ti=0;i<_constructed_size;++i){_data[i].~value_type();}}}" := rfl
theorem gen_src_move_ctor_alloc : src_move_ctor_alloc =
    "noexcept:ReusableVector(allocator){*this=::std::move(other);}" := rfl
theorem gen_src_ctor_count : src_ctor_count =
    "noexcept:_allocator(allocator),_data(_allocator.allocate(count)),_size(count),_constructed_size(count),_capacity(count){for(size_ti=0;i<_size;++i){_allocator.construct(&_data[i]);}}" := rfl
theorem gen_src_ctor_count_value : src_ctor_count_value =
    "noexcept:_allocator(allocator),_data(_allocator.allocate(count)),_size(count),_constructed_size(count),_capacity(count){for(size_ti=0;i<_size;++i){_allocator.construct(&_data[i],value);}}" := rfl
theorem gen_src_ctor_range : src_ctor_range =
    "noexcept:_allocator{allocator},_size(::std::distance(first,last)),_constructed_size{_size},_capacity{_size}{_data=_allocator.allocate(_size);for(size_ti=0;i<_size;++i){_allocator.construct(&_data[i],*first++);}}" := rfl
theorem gen_src_assign_count_value : src_assign_count_value =
    "{clear();reserve(count);for(size_typei=0;i<count;++i){emplace_back(value);}}" := rfl
theorem gen_src_assign_range : src_assign_range =
    "{usingV=decltype(*first);clear();reserve(::std::distance(first,last));::std::for_each(first,last,[this](Vvalue){emplace_back(value);});}" := rfl
theorem gen_src_reserve : src_reserve =
    "{if(_capacity>=min_capacity){return;}autonew_data=_allocator.allocate(min_capacity);for(size_typei=0;i<_constructed_size;++i){_allocator.construct(&new_data[i],::std::move(_data[i]));_allocator.destroy(&_data[i]);}_data=new_data;_capacity=min_capacity;}" := rfl
theorem gen_src_clear : src_clear =
    "{_size=0;}" := rfl
theorem gen_src_insert_count_value : src_insert_count_value =
    "{size_typeindex=&*pos-_data;autoreconstruct_end_size=prepare_for_insert(index,count);for(size_typei=index;i<reconstruct_end_size;++i){ValueReusableTraits::reconstruct(_data[i],_allocator,value);}for(size_typei=reconstruct_end_size;i<index+count;++i){_allocator.construct(&_data[i],value);++_constructed_size;}returniterator(&_data[index]);}" := rfl
theorem gen_src_insert_range : src_insert_range =
    "{size_typeindex=&*pos-_data;autocount=::std::distance(first,last);autoreconstruct_end_size=prepare_for_insert(index,count);for(size_typei=index;i<reconstruct_end_size;++i){ValueReusableTraits::reconstruct(_data[i],_allocator,*first++);}for(size_typei=reconstruct_end_size;i<index+count;++i){_allocator.construct(&_data[i],*first++);++_constructed_size;}returniterator(&_data[index]);}" := rfl
theorem gen_src_emplace : src_emplace =
    "{size_typeindex=&*pos-_data;autoreconstruct_end_size=prepare_for_insert(index,1);if(index<reconstruct_end_size){ValueReusableTraits::reconstruct(_data[index],_allocator,::std::forward<Args>(args)...);}else{_allocator.construct(&_data[index],::std::forward<Args>(args)...);++_constructed_size;}returniterator(&_data[index]);}" := rfl
theorem gen_src_erase : src_erase =
    "{if(first==last){returniterator(const_cast<pointer>(&*first));}iteratordest(const_cast<pointer>(&*first));iteratorsrc(const_cast<pointer>(&*last));while(src!=end()){*dest++=::std::move(*src++);}_size-=last-first;returniterator(const_cast<pointer>(&*first));}" := rfl
theorem gen_src_emplace_back : src_emplace_back =
    "{if(_size==_capacity){reserve(_capacity==0?4:_capacity*2);}if(_constructed_size>_size){ValueReusableTraits::reconstruct(_data[_size++],_allocator,::std::forward<Args>(args)...);}else{_allocator.construct(&_data[_size++],::std::forward<Args>(args)...);++_constructed_size;}}" := rfl
theorem gen_src_pop_back : src_pop_back =
    "{assert(_size>0&&\"popemptyvector\");--_size;}" := rfl
theorem gen_src_resize : src_resize =
    "{reserve(count);if(_size<count){autoreconstruct_end_size=::std::min(_constructed_size,count);for(autoi=_size;i<reconstruct_end_size;++i){ValueReusableTraits::reconstruct(_data[i],_allocator);}for(autoi=reconstruct_end_size;i<count;++i){_allocator.construct(&_data[i]);++_constructed_size;}}_size=count;}" := rfl
theorem gen_src_resize_value : src_resize_value =
    "{reserve(count);if(_size<count){autoreconstruct_end_size=::std::min(_constructed_size,count);for(autoi=_size;i<reconstruct_end_size;++i){ValueReusableTraits::reconstruct(_data[i],_allocator,value);}for(autoi=reconstruct_end_size;i<count;++i){_allocator.construct(&_data[i],value);++_constructed_size;}}_size=count;}" := rfl
theorem gen_src_swap : src_swap =
    "{assert(_allocator==other._allocator&&\"cannotswapvectorwithdifferentallocator\");::std::swap(_data,other._data);::std::swap(_capacity,other._capacity);::std::swap(_size,other._size);::std::swap(_constructed_size,other._constructed_size);}" := rfl
theorem gen_src_ctor_meta : src_ctor_meta =
    "noexcept:_allocator(allocator),_data(_allocator.allocate(metadata.capacity)),_size(0),_constructed_size(metadata.capacity),_capacity(metadata.capacity){for(size_typei=0;i<_constructed_size;++i){ValueReusableTraits::construct_with_allocation_metadata(&_data[i],_allocator,metadata.value_metadata);}}" := rfl
theorem gen_src_update_meta : src_update_meta =
    "{metadata.capacity=::std::max(_constructed_size,metadata.capacity);for(size_typei=0;i<_constructed_size;++i){ValueReusableTraits::update_allocation_metadata(_data[i],metadata.value_metadata);}}" := rfl
theorem gen_src_assign_count : src_assign_count =
    "{clear();resize(count);}" := rfl
theorem gen_src_prepare_for_insert : src_prepare_for_insert =
    "{if(count==0){return::std::min(index,_constructed_size);}reserve(_size+count);automove_end_size=::std::max(index+count,_constructed_size);autoreconstruct_end_size=::std::min(index+count,_constructed_size);for(size_typei=_size+count;i>move_end_size;){--i;_allocator.construct(&_data[i],::std::move(_data[i-count]));++_constructed_size;}for(size_typei=move_end_size;i>index+count;){--i;_data[i]=::std::move(_data[i-count]);}_size+=count;returnreconstruct_end_size;}" := rfl
theorem gen_src_call_reconstruct_0 : src_call_reconstruct_0 =
    "{value.clear();}" := rfl
theorem gen_src_call_reconstruct_1 : src_call_reconstruct_1 =
    "{value.Clear();}" := rfl
theorem gen_src_call_reconstruct_2 : src_call_reconstruct_2 =
    "{value=::std::forward<U>(other);}" := rfl
theorem gen_src_call_reconstruct_3 : src_call_reconstruct_3 =
    "{value.assign(::std::forward<Args>(args)...);}" := rfl
theorem gen_src_call_reconstruct_4 : src_call_reconstruct_4 =
    "{allocator.destroy(&value);allocator.construct(&value,::std::forward<Args>(args)...);}" := rfl
theorem gen_src_manager_clear : src_manager_clear =
    "{if(++_clear_times>=_recreate_interval){_clear_times=0;for(auto&unit:_units){unit->update();}_resource.release();for(auto&unit:_units){unit->recreate(_resource);}}else{for(auto&unit:_units){unit->clear(_resource);}}}" := rfl
theorem gen_src_unit_clear : src_unit_clear =
    "{Reuse::reconstruct(*_instance,MonotonicAllocator<T,R>{resource});}" := rfl
theorem gen_src_unit_update : src_unit_update =
    "{Reuse::update_allocation_metadata(*_instance,_meta);}" := rfl
theorem gen_src_unit_recreate : src_unit_recreate =
    "{_instance=Reuse::create_with_allocation_metadata<T>(MonotonicAllocator<T,R>{resource},_meta);}" := rfl
theorem gen_src_accessor_get : src_accessor_get =
    "{return*_instance;}" := rfl
theorem gen_src_create_with_meta : src_create_with_meta =
    "{autoinstance=allocator.templateallocate_object<TT>();ReusableTraits<TT>::construct_with_allocation_metadata(instance,allocator,meta);allocator.register_destructor(instance);returninstance;}" := rfl
theorem gen_src_stable_reserve : src_stable_reserve =
    "{if(min_capacity>string.capacity()){string.reserve(min_capacity);}}" := rfl
theorem gen_src_string_move_assign : src_string_move_assign =
    "{if(get_allocator()==other.get_allocator()){swap(other);}else{*this=other;}return*this;}" := rfl
theorem gen_src_string_construct_with_meta : src_string_construct_with_meta =
    "{allocator.construct(ptr);stable_reserve(*ptr,meta.capacity);}" := rfl

/-! ### A. representation invariant -/

/-- `rvec_inv`: after any operation sequence on a freshly constructed vector,
`size ≤ constructed ≤ capacity = buffer length`, every cell below `constructed` holds a live
object and every cell from `constructed` on is raw storage. -/
theorem rvec_inv (c : Cfg) (ops : List Op) :
    let t := runOps (RVec.step c) RVec.fresh ops
    t.size ≤ t.cons ∧ t.cons ≤ t.cap ∧ t.slots.length = t.cap ∧
      (∀ i, i < t.cons → ∃ v, t.slots[i]? = some (Slot.live v)) ∧
      (∀ i, t.cons ≤ i → i < t.cap → t.slots[i]? = some Slot.raw) := by
  have r := run_spec c ops inv_fresh rep_fresh
  exact ⟨r.inv.size_le, r.inv.cons_le, r.inv.len, r.inv.live, r.inv.raw⟩

/-- the invariant is inductive: every single operation preserves it from *any* state that has it -/
theorem rvec_inv_step (c : Cfg) (s : RVec) (o : Op) (h : Inv s) : Inv (s.step c o) := by
  -- any state with the invariant represents some list: read the cells below `size`
  have hx : Rep s ((List.range s.size).map (fun k => match s.slots[k]? with | some (Slot.live v) => v | _ => 0)) := by
    refine ⟨by simp, ?_⟩
    intro k hk
    obtain ⟨v, hv⟩ := h.live k (by have := h.size_le; omega)
    simp [hk, hv]
  exact (step_spec c h hx o).inv

/-! ### A. refinement of `std::vector` -/

/-- `rvec_refines_list`: the observable contents (`abs`: the first `size` cells read as
elements) follow the `std::vector` semantics `listStep` for every operation, hence for every
operation sequence, from every well-formed state — in particular no stale element kept in
`[size, constructed)` ever resurfaces, whatever moved-from elements hold. -/
theorem rvec_refines_list (c : Cfg) (s : RVec) (xs : List Val) (ops : List Op)
    (h : Inv s) (hx : s.abs = xs.map some) :
    (runOps (RVec.step c) s ops).abs = (runOps listStep xs ops).map some := by
  have r := run_spec c ops h ((rep_iff_abs h xs).mpr hx)
  exact (rep_iff_abs r.inv _).mp r.rep

/-- … in particular from a freshly constructed vector against a freshly constructed `std::vector` -/
theorem rvec_refines_list_fresh (c : Cfg) (ops : List Op) :
    (runOps (RVec.step c) RVec.fresh ops).abs = (runOps listStep [] ops).map some :=
  rvec_refines_list c RVec.fresh [] ops inv_fresh (by simp [RVec.abs, RVec.fresh])

/-- one operation at a time (the statement of DESIGN §6: `abs (op s) = listOp (abs s)`) -/
theorem rvec_refines_list_step (c : Cfg) (s : RVec) (xs : List Val) (o : Op)
    (h : Inv s) (hx : s.abs = xs.map some) :
    (s.step c o).abs = (listStep xs o).map some :=
  rvec_refines_list c s xs [o] h hx

/-! ### A. element lifetimes -/

/-- `rvec_lifetime`: over any operation sequence no tagged primitive ever meets a cell in the
wrong state (`bad = 0`: every `assignOver`/`reconstruct`/move-source/`destroy` hits a live cell,
every `constructIn` a raw one), no live object is left in a buffer given up by `reserve`
(`leaked = 0`), constructions minus destructions equal the constructed cells; and destroying the
vector afterwards destroys each constructed element exactly once. -/
theorem rvec_lifetime (c : Cfg) (ops : List Op) :
    let t := runOps (RVec.step c) RVec.fresh ops
    t.g.bad = 0 ∧ t.g.leaked = 0 ∧ t.g.ctor = t.g.dtor + t.cons ∧
      t.destruct.g.bad = 0 ∧ t.destruct.g.leaked = 0 ∧ t.destruct.g.ctor = t.destruct.g.dtor := by
  have r := run_spec c ops inv_fresh rep_fresh
  have g := r.g.ginv ginv_fresh
  have d := destruct_spec r.inv g
  exact ⟨g.bad, g.leaked, g.bal, d.1, d.2.1, d.2.2.1⟩

/-! ### A. clear -/

/-- `rvec_clear_keeps_capacity`: logical clear changes nothing but `size`: capacity, the
constructed elements and their storage stay, nothing is allocated, destroyed or constructed. -/
theorem rvec_clear_keeps_capacity (s : RVec) :
    s.clear.cap = s.cap ∧ s.clear.cons = s.cons ∧ s.clear.slots = s.slots ∧ s.clear.g = s.g ∧ s.clear.size = 0 :=
  ⟨rfl, rfl, rfl, rfl, rfl⟩

/-- no operation ever shrinks the capacity or the number of constructed elements -/
theorem rvec_capacity_monotone (c : Cfg) (s : RVec) (ops : List Op) (h : Inv s) :
    s.cap ≤ (runOps (RVec.step c) s ops).cap ∧ s.cons ≤ (runOps (RVec.step c) s ops).cons := by
  have hx : Rep s ((List.range s.size).map (fun k => match s.slots[k]? with | some (Slot.live v) => v | _ => 0)) := by
    refine ⟨by simp, ?_⟩
    intro k hk
    obtain ⟨v, hv⟩ := h.live k (by have := h.size_le; omega)
    simp [hk, hv]
  have r := run_spec c ops h hx
  exact ⟨r.cap_le, r.cons_le⟩

/-- `rvec_clear_eq_fresh`: a cleared vector is observably a freshly constructed one — it is
empty, and whatever is done to it next yields exactly the contents the same operations yield
on a fresh vector. -/
theorem rvec_clear_eq_fresh (c : Cfg) (s : RVec) (h : Inv s) :
    s.clear.abs = RVec.fresh.abs ∧
      ∀ ops, (runOps (RVec.step c) s.clear ops).abs = (runOps (RVec.step c) RVec.fresh ops).abs := by
  have hc := clear_spec h
  refine ⟨by simp [RVec.abs, RVec.clear, RVec.fresh], ?_⟩
  intro ops
  rw [rvec_refines_list c s.clear [] ops hc.inv ((rep_iff_abs hc.inv []).mp hc.rep), rvec_refines_list_fresh]

/-! ### B. reuse without allocation -/

/-- `rvec_reuse_no_alloc`: if every size a workload reaches (and every explicit `reserve`
request in it) stays within the capacity the vector already has, running it allocates
nothing: the allocation counters and the capacity are unchanged. -/
theorem rvec_reuse_no_alloc (c : Cfg) (s : RVec) (xs : List Val) (ops : List Op)
    (h : Inv s) (hx : s.abs = xs.map some) (hf : Fits s.cap xs ops) :
    (runOps (RVec.step c) s ops).g.allocs = s.g.allocs ∧
      (runOps (RVec.step c) s ops).g.allocElems = s.g.allocElems ∧
      (runOps (RVec.step c) s ops).cap = s.cap := by
  have := fits_noalloc c ops h ((rep_iff_abs h xs).mpr hx) hf
  exact ⟨this.2.1, this.2.2, this.1⟩

/-- the usual shape of reuse: clear, then a workload that fits -/
theorem rvec_reuse_after_clear (c : Cfg) (s : RVec) (ops : List Op) (h : Inv s) (hf : Fits s.cap [] ops) :
    (runOps (RVec.step c) s.clear ops).g.allocs = s.g.allocs ∧ (runOps (RVec.step c) s.clear ops).cap = s.cap := by
  have hc := clear_spec h
  have := fits_noalloc c ops hc.inv hc.rep (by simpa [RVec.clear] using hf)
  exact ⟨this.2.1, this.1⟩

/-! ### non-vacuity -/

/-- an element type with destructive moves (sources are left holding 999) and swap-like self move -/
def exCfg : Cfg :=
  { mvC := fun _ => 999, mvA := fun _ _ => 999, mvSelf := id, mvX := fun _ => 999, rebuild := false, rebuildMove := false }

/-- a reachable state with stale constructed elements behind `size` (`size = 2 < constructed = 5
< capacity = 8`), reached through growth, a shifting insert and a shifting erase -/
example :
    let t := runOps (RVec.step exCfg) RVec.fresh
      [.pushBack 1, .pushBack 2, .pushBack 3, .pushBack 4, .pushBack 5, .insertRange 1 [7, 8], .erase 0 3, .clear,
       .pushBack 6, .insertN 0 1 9]
    (t.size, t.cons, t.cap, t.abs, t.g.bad, t.g.allocs) = (2, 7, 8, [some 9, some 6], 0, 2) := by decide

/-- … the hypotheses of `rvec_reuse_no_alloc` are satisfiable by a non-trivial workload -/
example : Fits 8 [] [.pushBack 1, .insertN 0 3 2, .resize 7 5, .reserve 8, .erase 1 4, .assignN 8 1] := by
  simp [Fits, listStep, listApply, Op.pre, Op.request]

end Babylon.Properties.C12
