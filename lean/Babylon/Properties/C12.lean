/-
  Property C12 — property theorems only (helper lemmas live next to the model).
-/
import Babylon.RVec.Model
import Babylon.RVec.Str

namespace Babylon.Properties.C12
open Babylon.RVec Babylon.Gen.RVec

theorem gen_growth_policy : growInit = 4 ∧ growFactor = 2 ∧ defaultRecreateInterval = 1000 := by decide

end Babylon.Properties.C12
