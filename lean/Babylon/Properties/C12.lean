/-
  Property C12 — property theorems only (helper lemmas live next to the model).
  Stub: nothing claimed yet.
-/
namespace Babylon.Properties.C12
end Babylon.Properties.C12
