/-
  Property C12 — reusable containers: match std behaviour; clearing keeps capacity for reuse.
  Property theorems only; helper lemmas live in Babylon/RVec/Lemmas*.lean.

  Model: Babylon/RVec/Model.lean (cell-level transcription of vector.hpp, allocation metadata,
  ReusableManager) and Babylon/RVec/Str.lean (reusable string).  All theorems quantify over the
  element-type behaviour `c : Cfg` (what moved-from elements hold, which `call_reconstruct`
  overload applies), over every operation sequence and over every value.
-/
import Babylon.RVec.Lemmas7
import Babylon.RVec.StrLemmas
import Babylon.RVec.MsgLemmas

namespace Babylon.Properties.C12
open Babylon.RVec Babylon.RVec.RVec Babylon.Gen.RVec Babylon.Core

/-! ### generated obligations (tie to the current source, see gen/rvec.py) -/

/-- growth policy of `emplace_back` and the manager's default cadence -/
theorem gen_growth_policy : growInit = 4 ∧ growFactor = 2 ∧ defaultRecreateInterval = 1000 := by decide

/-- `prepare_for_insert` returns before its shifting loops when nothing is inserted (without the
guard its second loop self-move-assigns every element behind `pos`; fixed in /repo 4ee8558,
replay corpus/C12/zero_count_insert_stdstring.txt) -/
theorem gen_zero_count_guard : zeroCountGuard = true := by decide

/-- libstdc++ string facts the string model uses, as measured by the translator's probe -/
theorem gen_string_probe : ssoCap = 15 ∧ growProbe = 2 * ssoCap ∧ exactProbe = 1000 ∧ cxx11abi = 1 := by decide

/-! The normalised text of every member function the model transcribes.  An edit of one of these
functions makes the corresponding obligation fail until the model has been re-read against it. -/
theorem gen_src_move_ctor : src_move_ctor =
    "noexcept:ReusableVector(other.get_allocator()){swap(other);}" := rfl
theorem gen_src_copy_assign : src_copy_assign =
    "{assign(other.begin(),other.end());return*this;}" := rfl
theorem gen_src_move_assign : src_move_assign =
    "{if(_allocator==other.get_allocator()){swap(other);}else{clear();reserve(other.size());for(auto&value:other){emplace_back(::std::move(value));}}return*this;}" := rfl
theorem gen_src_dtor : src_dtor =
    "{ifCONSTEXPR_SINCE_CXX17(!::std::is_trivially_destructible<value_type>::value){for(size_ti=0;i<_constructed_size;++i){_data[i].~value_type();}}}" := rfl
theorem gen_src_move_ctor_alloc : src_move_ctor_alloc =
    "noexcept:ReusableVector(allocator){*this=::std::move(other);}" := rfl
theorem gen_src_ctor_count : src_ctor_count =
    "noexcept:_allocator(allocator),_data(_allocator.allocate(count)),_size(count),_constructed_size(count),_capacity(count){for(size_ti=0;i<_size;++i){_allocator.construct(&_data[i]);}}" := rfl
theorem gen_src_ctor_count_value : src_ctor_count_value =
    "noexcept:_allocator(allocator),_data(_allocator.allocate(count)),_size(count),_constructed_size(count),_capacity(count){for(size_ti=0;i<_size;++i){_allocator.construct(&_data[i],value);}}" := rfl
theorem gen_src_ctor_range : src_ctor_range =
    "noexcept:_allocator{allocator},_size(::std::distance(first,last)),_constructed_size{_size},_capacity{_size}{_data=_allocator.allocate(_size);for(size_ti=0;i<_size;++i){_allocator.construct(&_data[i],*first++);}}" := rfl
theorem gen_src_assign_count_value : src_assign_count_value =
    "{clear();reserve(count);for(size_typei=0;i<count;++i){emplace_back(value);}}" := rfl
theorem gen_src_assign_range : src_assign_range =
    "{usingV=decltype(*first);clear();reserve(::std::distance(first,last));::std::for_each(first,last,[this](Vvalue){emplace_back(value);});}" := rfl
theorem gen_src_reserve : src_reserve =
    "{if(_capacity>=min_capacity){return;}autonew_data=_allocator.allocate(min_capacity);for(size_typei=0;i<_constructed_size;++i){_allocator.construct(&new_data[i],::std::move(_data[i]));_allocator.destroy(&_data[i]);}_data=new_data;_capacity=min_capacity;}" := rfl
theorem gen_src_clear : src_clear =
    "{_size=0;}" := rfl
theorem gen_src_insert_count_value : src_insert_count_value =
    "{size_typeindex=&*pos-_data;autoreconstruct_end_size=prepare_for_insert(index,count);for(size_typei=index;i<reconstruct_end_size;++i){ValueReusableTraits::reconstruct(_data[i],_allocator,value);}for(size_typei=reconstruct_end_size;i<index+count;++i){_allocator.construct(&_data[i],value);++_constructed_size;}returniterator(&_data[index]);}" := rfl
theorem gen_src_insert_range : src_insert_range =
    "{size_typeindex=&*pos-_data;autocount=::std::distance(first,last);autoreconstruct_end_size=prepare_for_insert(index,count);for(size_typei=index;i<reconstruct_end_size;++i){ValueReusableTraits::reconstruct(_data[i],_allocator,*first++);}for(size_typei=reconstruct_end_size;i<index+count;++i){_allocator.construct(&_data[i],*first++);++_constructed_size;}returniterator(&_data[index]);}" := rfl
theorem gen_src_emplace : src_emplace =
    "{size_typeindex=&*pos-_data;autoreconstruct_end_size=prepare_for_insert(index,1);if(index<reconstruct_end_size){ValueReusableTraits::reconstruct(_data[index],_allocator,::std::forward<Args>(args)...);}else{_allocator.construct(&_data[index],::std::forward<Args>(args)...);++_constructed_size;}returniterator(&_data[index]);}" := rfl
theorem gen_src_erase : src_erase =
    "{if(first==last){returniterator(const_cast<pointer>(&*first));}iteratordest(const_cast<pointer>(&*first));iteratorsrc(const_cast<pointer>(&*last));while(src!=end()){*dest++=::std::move(*src++);}_size-=last-first;returniterator(const_cast<pointer>(&*first));}" := rfl
theorem gen_src_emplace_back : src_emplace_back =
    "{if(_size==_capacity){reserve(_capacity==0?4:_capacity*2);}if(_constructed_size>_size){ValueReusableTraits::reconstruct(_data[_size++],_allocator,::std::forward<Args>(args)...);}else{_allocator.construct(&_data[_size++],::std::forward<Args>(args)...);++_constructed_size;}}" := rfl
theorem gen_src_pop_back : src_pop_back =
    "{assert(_size>0&&\"popemptyvector\");--_size;}" := rfl
theorem gen_src_resize : src_resize =
    "{reserve(count);if(_size<count){autoreconstruct_end_size=::std::min(_constructed_size,count);for(autoi=_size;i<reconstruct_end_size;++i){ValueReusableTraits::reconstruct(_data[i],_allocator);}for(autoi=reconstruct_end_size;i<count;++i){_allocator.construct(&_data[i]);++_constructed_size;}}_size=count;}" := rfl
theorem gen_src_resize_value : src_resize_value =
    "{reserve(count);if(_size<count){autoreconstruct_end_size=::std::min(_constructed_size,count);for(autoi=_size;i<reconstruct_end_size;++i){ValueReusableTraits::reconstruct(_data[i],_allocator,value);}for(autoi=reconstruct_end_size;i<count;++i){_allocator.construct(&_data[i],value);++_constructed_size;}}_size=count;}" := rfl
theorem gen_src_swap : src_swap =
    "{assert(_allocator==other._allocator&&\"cannotswapvectorwithdifferentallocator\");::std::swap(_data,other._data);::std::swap(_capacity,other._capacity);::std::swap(_size,other._size);::std::swap(_constructed_size,other._constructed_size);}" := rfl
theorem gen_src_ctor_meta : src_ctor_meta =
    "noexcept:_allocator(allocator),_data(_allocator.allocate(metadata.capacity)),_size(0),_constructed_size(metadata.capacity),_capacity(metadata.capacity){for(size_typei=0;i<_constructed_size;++i){ValueReusableTraits::construct_with_allocation_metadata(&_data[i],_allocator,metadata.value_metadata);}}" := rfl
theorem gen_src_update_meta : src_update_meta =
    "{metadata.capacity=::std::max(_constructed_size,metadata.capacity);for(size_typei=0;i<_constructed_size;++i){ValueReusableTraits::update_allocation_metadata(_data[i],metadata.value_metadata);}}" := rfl
theorem gen_src_assign_count : src_assign_count =
    "{clear();resize(count);}" := rfl
theorem gen_src_prepare_for_insert : src_prepare_for_insert =
    "{if(count==0){return::std::min(index,_constructed_size);}reserve(_size+count);automove_end_size=::std::max(index+count,_constructed_size);autoreconstruct_end_size=::std::min(index+count,_constructed_size);for(size_typei=_size+count;i>move_end_size;){--i;_allocator.construct(&_data[i],::std::move(_data[i-count]));++_constructed_size;}for(size_typei=move_end_size;i>index+count;){--i;_data[i]=::std::move(_data[i-count]);}_size+=count;returnreconstruct_end_size;}" := rfl
theorem gen_src_call_reconstruct_0 : src_call_reconstruct_0 =
    "{value.clear();}" := rfl
theorem gen_src_call_reconstruct_1 : src_call_reconstruct_1 =
    "{value.Clear();}" := rfl
theorem gen_src_call_reconstruct_2 : src_call_reconstruct_2 =
    "{value=::std::forward<U>(other);}" := rfl
theorem gen_src_call_reconstruct_3 : src_call_reconstruct_3 =
    "{value.assign(::std::forward<Args>(args)...);}" := rfl
theorem gen_src_call_reconstruct_4 : src_call_reconstruct_4 =
    "{allocator.destroy(&value);allocator.construct(&value,::std::forward<Args>(args)...);}" := rfl
theorem gen_src_manager_clear : src_manager_clear =
    "{if(++_clear_times>=_recreate_interval){_clear_times=0;for(auto&unit:_units){unit->update();}_resource.release();for(auto&unit:_units){unit->recreate(_resource);}}else{for(auto&unit:_units){unit->clear(_resource);}}}" := rfl
theorem gen_src_unit_clear : src_unit_clear =
    "{Reuse::reconstruct(*_instance,MonotonicAllocator<T,R>{resource});}" := rfl
theorem gen_src_unit_update : src_unit_update =
    "{Reuse::update_allocation_metadata(*_instance,_meta);}" := rfl
theorem gen_src_unit_recreate : src_unit_recreate =
    "{_instance=Reuse::create_with_allocation_metadata<T>(MonotonicAllocator<T,R>{resource},_meta);}" := rfl
theorem gen_src_accessor_get : src_accessor_get =
    "{return*_instance;}" := rfl
theorem gen_src_create_with_meta : src_create_with_meta =
    "{autoinstance=allocator.templateallocate_object<TT>();ReusableTraits<TT>::construct_with_allocation_metadata(instance,allocator,meta);allocator.register_destructor(instance);returninstance;}" := rfl
theorem gen_src_stable_reserve : src_stable_reserve =
    "{if(min_capacity>string.capacity()){string.reserve(min_capacity);}}" := rfl
theorem gen_src_string_move_assign : src_string_move_assign =
    "{if(get_allocator()==other.get_allocator()){swap(other);}else{*this=other;}return*this;}" := rfl
theorem gen_src_string_construct_with_meta : src_string_construct_with_meta =
    "{allocator.construct(ptr);stable_reserve(*ptr,meta.capacity);}" := rfl

/-! reusable string: every assignment operator and converting constructor of `MonotonicBasicString` (string.h) -/
theorem gen_src_string_ctor_move_alloc : src_string_ctor_move_alloc =
    "noexcept:Base(allocator){operator=(::std::move(other));}" := rfl
theorem gen_src_string_ctor_std_alloc : src_string_ctor_std_alloc =
    "noexcept:Base(other.begin(),other.end(),allocator){}" := rfl
theorem gen_src_string_assign_std : src_string_assign_std =
    "{static_cast<Base*>(this)->assign(other.c_str(),other.size());return*this;}" := rfl
theorem gen_src_string_copy_assign : src_string_copy_assign =
    "{*static_cast<Base*>(this)=other;return*this;}" := rfl
theorem gen_src_string_swap : src_string_swap =
    "{assert(get_allocator()==other.get_allocator()&&\"cannotswapstringwithdifferentallocator\");Base::swap(other);}" := rfl
theorem gen_src_string_resize_default_init : src_string_resize_default_init =
    "{::absl::strings_internal::STLStringResizeUninitialized(static_cast<Base*>(this),size);}" := rfl
/-- the remaining assignment overloads (string_view, iterator range, …) are `std::basic_string`'s own -/
theorem gen_string_inherits_base_assign : stringInheritsBaseAssign = true := by decide

/-! protobuf messages: the capacity-metadata round trip (message.cpp, message.h) -/
theorem gen_src_msg_update : src_msg_update =
    "{if(!_initialized){initialize(message);}auto*reflection=message.GetReflection();for(auto&field:_fields){field.update(message,reflection);}}" := rfl
theorem gen_src_msg_reserve : src_msg_reserve =
    "{auto*reflection=message.GetReflection();auto*arena=message.GetArena();for(auto&field:_fields){field.reserve(message,reflection,arena);}}" := rfl
theorem gen_src_msg_field_update : src_msg_field_update =
    "{if(descriptor->is_repeated()){update_repeated_field(message,reflection);}elseif(descriptor->cpp_type()==::google::protobuf::FieldDescriptor::CPPTYPE_STRING){auto&string=reflection->GetStringReference(message,descriptor,nullptr);if(&string!=default_string){update(string);}}else{auto&sub_message=reflection->GetMessage(message,descriptor);update(sub_message);}}" := rfl
theorem gen_src_msg_field_update_string : src_msg_field_update_string =
    "{string_reserved=::std::max(string_reserved,static_cast<int64_t>(str.capacity()));}" := rfl
theorem gen_src_msg_field_update_message : src_msg_field_update_message =
    "{if(&message!=default_message){if(!message_allocation_metadata){message_allocation_metadata.reset(newMessageAllocationMetadata);message_allocation_metadata->initialize(message);}message_allocation_metadata->update(message);}}" := rfl
theorem gen_src_msg_field_reserve : src_msg_field_reserve =
    "{if(descriptor->is_repeated()&&repeated_reserved>0){reserve_repeated_field(message,reflection,arena);}elseif(descriptor->cpp_type()==::google::protobuf::FieldDescriptor::CPPTYPE_STRING&&string_reserved>=0){reserve_string_field(message,reflection,arena);}elseif(message_allocation_metadata){auto*sub_message=reflection->MutableMessage(&message,descriptor);message_allocation_metadata->reserve(*sub_message);}}" := rfl
theorem gen_src_msg_construct_with_meta : src_msg_construct_with_meta =
    "{allocator.construct(ptr);meta.reserve(*ptr);ptr->Clear();}" := rfl
theorem gen_src_msg_create_with_meta : src_msg_create_with_meta =
    "{autoinstance=metadata.default_instance->New(&static_cast<Arena&>(*allocator.resource()));metadata.metadata.reserve(*instance);instance->Clear();returninstance;}" := rfl

/-! ### A. representation invariant -/

/-- `rvec_inv`: after any operation sequence on a freshly constructed vector,
`size ≤ constructed ≤ capacity = buffer length`, every cell below `constructed` holds a live
object and every cell from `constructed` on is raw storage. -/
theorem rvec_inv (c : Cfg) (ops : List Op) :
    let t := runOps (RVec.step c) RVec.fresh ops
    t.size ≤ t.cons ∧ t.cons ≤ t.cap ∧ t.slots.length = t.cap ∧
      (∀ i, i < t.cons → ∃ v, t.slots[i]? = some (Slot.live v)) ∧
      (∀ i, t.cons ≤ i → i < t.cap → t.slots[i]? = some Slot.raw) := by
  have r := run_spec c ops inv_fresh rep_fresh
  exact ⟨r.inv.size_le, r.inv.cons_le, r.inv.len, r.inv.live, r.inv.raw⟩

/-- the invariant is inductive: every single operation preserves it from *any* state that has it -/
theorem rvec_inv_step (c : Cfg) (s : RVec) (o : Op) (h : Inv s) : Inv (s.step c o) := by
  -- any state with the invariant represents some list: read the cells below `size`
  have hx : Rep s ((List.range s.size).map (fun k => match s.slots[k]? with | some (Slot.live v) => v | _ => 0)) := by
    refine ⟨by simp, ?_⟩
    intro k hk
    obtain ⟨v, hv⟩ := h.live k (by have := h.size_le; omega)
    simp [hk, hv]
  exact (step_spec c h hx o).inv

/-! ### A. refinement of `std::vector` -/

/-- `rvec_refines_list`: the observable contents (`abs`: the first `size` cells read as
elements) follow the `std::vector` semantics `listStep` for every operation, hence for every
operation sequence, from every well-formed state — in particular no stale element kept in
`[size, constructed)` ever resurfaces, whatever moved-from elements hold.

Hypothesis made explicit by the operation alphabet: an `Op` carries its arguments as *values*,
i.e. the caller's argument does not alias an element of the vector being modified.  For
aliasing arguments (`AOp`) the statement is false for the code as it is — see
`rvec_alias_counterexample` (known finding `oracle:contents:self-aliasing-argument`) and
`rvec_alias_safe_cases` for what does hold. -/
theorem rvec_refines_list (c : Cfg) (s : RVec) (xs : List Val) (ops : List Op)
    (h : Inv s) (hx : s.abs = xs.map some) :
    (runOps (RVec.step c) s ops).abs = (runOps listStep xs ops).map some := by
  have r := run_spec c ops h ((rep_iff_abs h xs).mpr hx)
  exact (rep_iff_abs r.inv _).mp r.rep

/-- … in particular from a freshly constructed vector against a freshly constructed `std::vector` -/
theorem rvec_refines_list_fresh (c : Cfg) (ops : List Op) :
    (runOps (RVec.step c) RVec.fresh ops).abs = (runOps listStep [] ops).map some :=
  rvec_refines_list c RVec.fresh [] ops inv_fresh (by simp [RVec.abs, RVec.fresh])

/-- one operation at a time (the statement of DESIGN §6: `abs (op s) = listOp (abs s)`) -/
theorem rvec_refines_list_step (c : Cfg) (s : RVec) (xs : List Val) (o : Op)
    (h : Inv s) (hx : s.abs = xs.map some) :
    (s.step c o).abs = (listStep xs o).map some :=
  rvec_refines_list c s xs [o] h hx

/-! ### A. element lifetimes -/

/-- `rvec_lifetime`: over any operation sequence no tagged primitive ever meets a cell in the
wrong state (`bad = 0`: every `assignOver`/`reconstruct`/move-source/`destroy` hits a live cell,
every `constructIn` a raw one), no live object is left in a buffer given up by `reserve`
(`leaked = 0`), constructions minus destructions equal the constructed cells; and destroying the
vector afterwards destroys each constructed element exactly once. -/
theorem rvec_lifetime (c : Cfg) (ops : List Op) :
    let t := runOps (RVec.step c) RVec.fresh ops
    t.g.bad = 0 ∧ t.g.leaked = 0 ∧ t.g.ctor = t.g.dtor + t.cons ∧
      t.destruct.g.bad = 0 ∧ t.destruct.g.leaked = 0 ∧ t.destruct.g.ctor = t.destruct.g.dtor := by
  have r := run_spec c ops inv_fresh rep_fresh
  have g := r.g.ginv ginv_fresh
  have d := destruct_spec r.inv g
  exact ⟨g.bad, g.leaked, g.bal, d.1, d.2.1, d.2.2.1⟩

/-! ### A. clear -/

/-- `rvec_clear_keeps_capacity`: logical clear changes nothing but `size`: capacity, the
constructed elements and their storage stay, nothing is allocated, destroyed or constructed. -/
theorem rvec_clear_keeps_capacity (s : RVec) :
    s.clear.cap = s.cap ∧ s.clear.cons = s.cons ∧ s.clear.slots = s.slots ∧ s.clear.g = s.g ∧ s.clear.size = 0 :=
  ⟨rfl, rfl, rfl, rfl, rfl⟩

/-- no operation ever shrinks the capacity or the number of constructed elements -/
theorem rvec_capacity_monotone (c : Cfg) (s : RVec) (ops : List Op) (h : Inv s) :
    s.cap ≤ (runOps (RVec.step c) s ops).cap ∧ s.cons ≤ (runOps (RVec.step c) s ops).cons := by
  have hx : Rep s ((List.range s.size).map (fun k => match s.slots[k]? with | some (Slot.live v) => v | _ => 0)) := by
    refine ⟨by simp, ?_⟩
    intro k hk
    obtain ⟨v, hv⟩ := h.live k (by have := h.size_le; omega)
    simp [hk, hv]
  have r := run_spec c ops h hx
  exact ⟨r.cap_le, r.cons_le⟩

/-- `rvec_clear_eq_fresh`: a cleared vector is observably a freshly constructed one — it is
empty, and whatever is done to it next yields exactly the contents the same operations yield
on a fresh vector. -/
theorem rvec_clear_eq_fresh (c : Cfg) (s : RVec) (h : Inv s) :
    s.clear.abs = RVec.fresh.abs ∧
      ∀ ops, (runOps (RVec.step c) s.clear ops).abs = (runOps (RVec.step c) RVec.fresh ops).abs := by
  have hc := clear_spec h
  refine ⟨by simp [RVec.abs, RVec.clear, RVec.fresh], ?_⟩
  intro ops
  rw [rvec_refines_list c s.clear [] ops hc.inv ((rep_iff_abs hc.inv []).mp hc.rep), rvec_refines_list_fresh]

/-! ### B. reuse without allocation -/

/-- `rvec_reuse_no_alloc`: if every size a workload reaches (and every explicit `reserve`
request in it) stays within the capacity the vector already has, running it allocates
nothing: the allocation counters and the capacity are unchanged. -/
theorem rvec_reuse_no_alloc (c : Cfg) (s : RVec) (xs : List Val) (ops : List Op)
    (h : Inv s) (hx : s.abs = xs.map some) (hf : Fits s.cap xs ops) :
    (runOps (RVec.step c) s ops).g.allocs = s.g.allocs ∧
      (runOps (RVec.step c) s ops).g.allocElems = s.g.allocElems ∧
      (runOps (RVec.step c) s ops).cap = s.cap := by
  have := fits_noalloc c ops h ((rep_iff_abs h xs).mpr hx) hf
  exact ⟨this.2.1, this.2.2, this.1⟩

/-- the usual shape of reuse: clear, then a workload that fits -/
theorem rvec_reuse_after_clear (c : Cfg) (s : RVec) (ops : List Op) (h : Inv s) (hf : Fits s.cap [] ops) :
    (runOps (RVec.step c) s.clear ops).g.allocs = s.g.allocs ∧ (runOps (RVec.step c) s.clear ops).cap = s.cap := by
  have hc := clear_spec h
  have := fits_noalloc c ops hc.inv hc.rep (by simpa [RVec.clear] using hf)
  exact ⟨this.2.1, this.1⟩


/-! ### swap / copy / move between two objects, equal and different allocators -/

/-- `world_refines_vectors`: two vector objects driven by any sequence of single-vector
operations, `swap`, copy/move assignment, copy/move construction (with equal or different
allocators) and re-construction always hold the contents of the abstract `std::vector` machine
`AWorld` (destination of a copy or move = the source's elements; a source moved to a *different*
allocator keeps its size with whatever its elements' move leaves, `Cfg.mvX`), both keep the
representation invariant, and over both objects and all objects destroyed on the way there is no
lifetime violation, nothing leaked, and constructions balance destructions plus the constructed
cells the two objects still hold. -/
theorem world_refines_vectors (c : Cfg) (ops : List World.WOp) :
    let w := runOps (World.step c) ({} : World) ops
    let aw := runOps (AWorld.step c) ({} : AWorld) ops
    Inv w.a ∧ Inv w.b ∧ w.a.abs = aw.a.map some ∧ w.b.abs = aw.b.map some ∧
      w.total.bad = 0 ∧ w.total.leaked = 0 ∧ w.total.ctor = w.total.dtor + w.a.cons + w.b.cons := by
  have h := World.run_winv c ops World.winv_init
  refine ⟨h.ia, h.ib, (rep_iff_abs h.ia _).mp h.xa, (rep_iff_abs h.ib _).mp h.xb, ?_, ?_, ?_⟩
  · have := h.bad; simp [World.total]; omega
  · have := h.leaked; simp [World.total]; omega
  · have := h.bal; simp [World.total]; omega

/-! ### `ReusableManager` -/

/-- `mgr_accessor_valid`: an accessor (the index of a unit) issued at any time stays valid over
every later sequence of `create_object` / use through accessors / `clear()` (logical clear or
periodic re-creation) / `set_recreate_interval`: it still resolves, and the instance it
resolves to — re-read through the unit on every access — is a well-formed vector with sound
lifetime counters; instances destroyed by `release()` were destroyed completely. -/
theorem mgr_accessor_valid (c : Cfg) (k : Nat) (pre post : List Mgr.MOp) (acc : Nat) :
    let m0 := runOps (Mgr.step c) ({ interval := k } : Mgr) pre
    let m := runOps (Mgr.step c) m0 post
    acc < m0.units.length →
      ∃ inst, m.get? acc = some inst ∧ Inv inst ∧ inst.g.bad = 0 ∧ inst.g.leaked = 0 ∧
        inst.g.ctor = inst.g.dtor + inst.cons ∧
        m.retired.bad = 0 ∧ m.retired.leaked = 0 ∧ m.retired.ctor = m.retired.dtor := by
  intro m0 m hacc
  have h0 : Mgr.MInv m0 := Mgr.run_minv c pre (Mgr.minv_init k)
  have h : Mgr.MInv m := Mgr.run_minv c post h0
  have hl : acc < m.units.length := Nat.lt_of_lt_of_le hacc (Mgr.run_length_le c post m0)
  have hu := h.units m.units[acc] (List.getElem_mem hl)
  exact ⟨m.units[acc].inst, by simp [Mgr.get?, List.getElem?_eq_getElem hl], hu.1, hu.2.bad, hu.2.leaked, hu.2.bal,
    h.rbad, h.rleaked, h.rbal⟩

/-- after `clear()` every unit is logically empty, whichever branch (clear / re-create) ran -/
theorem mgr_clear_empties (m : Mgr) (acc : Nat) (u : MUnit) (hu : m.units[acc]? = some u) :
    ∃ inst, m.clear.get? acc = some inst ∧ inst.size = 0 ∧ inst.abs = [] := by
  have := Mgr.clear_unit hu
  by_cases e : m.clearTimes + 1 ≥ m.interval
  · rw [if_pos e] at this
    have om := ofMeta_spec (u.inst.updateMeta u.md)
    exact ⟨RVec.ofMeta (u.inst.updateMeta u.md), by simp [Mgr.get?, this], om.2.2.2.2.2.1,
      by simp [RVec.abs, om.2.2.2.2.2.1]⟩
  · rw [if_neg e] at this
    exact ⟨u.inst.clear, by simp [Mgr.get?, this], rfl, by simp [RVec.clear, RVec.abs]⟩

/-- re-creation records at least the largest size the workload reached: the new capacity
`max constructed metadata` covers the peak of every workload run since the instance was empty -/
theorem mgr_recreate_covers_peak (c : Cfg) (s : RVec) (W : List Op) (md : Nat) (h : Inv s) (hx : s.abs = []) :
    RVec.peak [] W ≤ (RVec.ofMeta ((runOps (RVec.step c) s W).updateMeta md)).cap := by
  have hp := RVec.peak_le_cons c W h ((rep_iff_abs h []).mpr (by simpa using hx))
  have om := ofMeta_spec ((runOps (RVec.step c) s W).updateMeta md)
  rw [om.2.2.2.1]
  simp only [RVec.updateMeta]
  omega

/-- `manager_converges`: once a unit has been re-created with metadata that covers its workload
(`Converged`: logically empty, capacity = constructed = metadata, `Fits metadata [] W`), then in
every later business cycle — the workload `W` through the accessor followed by the manager's
`clear()`, for every recreate cadence and whatever the other units do in between their own
clears — (1) running the workload takes nothing from the resource for this vector and leaves
its capacity alone, (2) the metadata does not move, (3) `clear()` hands back either the
logically cleared instance or a re-created one of exactly the same capacity, and (4) the unit
is converged again.  Hence over any number of cycles the only allocations are the single buffer
of `metadata` elements per re-creation. -/
theorem manager_converges (c : Cfg) (acc : Nat) (W : List Op) (m : Mgr) (n : Nat) (h : Mgr.Converged m acc W) :
    let mn := Mgr.rounds c acc W n m
    ∃ u u1 u2, mn.units[acc]? = some u ∧
      (runOps (fun m o => m.on c acc o) mn W).units[acc]? = some u1 ∧
      u1.inst.g.allocs = u.inst.g.allocs ∧ u1.inst.g.allocElems = u.inst.g.allocElems ∧
      u1.inst.cap = u.inst.cap ∧ u1.md = u.md ∧
      (Mgr.round c acc W mn).units[acc]? = some u2 ∧ u2.md = u.md ∧
      (u2.inst = RVec.ofMeta u.md ∨ u2.inst = u1.inst.clear) ∧
      Mgr.Converged (Mgr.round c acc W mn) acc W :=
  Mgr.converged_round c (Mgr.converged_rounds c n h)

/-- a freshly re-created unit is converged for every workload that fits in its metadata -/
theorem manager_recreated_is_converged (m : Mgr) (acc : Nat) (u : MUnit) (W : List Op)
    (hu : m.units[acc]? = some u) (hi : u.inst = RVec.ofMeta u.md) (hf : Fits u.md [] W) :
    Mgr.Converged m acc W := by
  have om := ofMeta_spec u.md
  exact ⟨u, hu, by rw [hi]; exact om.1, by rw [hi]; exact om.2.1, by rw [hi]; exact om.2.2.2.1,
    by rw [hi]; exact om.2.2.2.2.1, hf⟩


/-! ### protobuf messages behind the manager -/

/-- `msg_recreate_keeps_capacity`: a message re-created from metadata that was updated with the
instance's retained capacities (`update` then `reserve`, what `ReusableManager::clear()` does on a
re-creation boundary) retains at least everything the old instance retained — every string
capacity, every repeated slot, every kept element *per index*, the singular sub-message object
and what it holds — regardless of whether the sub-message's has-bit was set when the snapshot
was taken (after a logical `Clear()` it is not, while the object still owns its capacity). -/
theorem msg_recreate_keeps_capacity (m : Msg.TopMeta) (c : Msg.Top) :
    c.le (m.update c).reserve ∧ c.clear.le ((m.update c.clear).reserve) ∧ (m.update c).reserve.hasSub = false :=
  ⟨Msg.Top.le_reserve_update m c, Msg.Top.le_reserve_update m c.clear, rfl⟩

/-- `msg_metadata_converges`: the metadata is a fixed point of the round trip — re-creating from
it and updating with the re-created instance records nothing new; so once a workload's needs are
in the metadata every later re-creation allocates exactly the same reservation. -/
theorem msg_metadata_converges (m : Msg.TopMeta) (c : Msg.Top) :
    (m.update c).update (m.update c).reserve = m.update c :=
  Msg.TopMeta.update_reserve _

/-- why the rule must be "descend iff the sub-message *object* exists": with the has-bit rule
(seeded change of `FieldAllocationMetadata::update`) a snapshot taken after a logical clear loses
the sub-message and its 300 characters of string capacity -/
theorem msg_hasbit_rule_counterexample :
    let c : Msg.Top := { sub := some { s := 300 }, hasSub := true }
    ((({} : Msg.TopMeta).updateHasBit c.clear).reserve.sub = none) ∧
    ((({} : Msg.TopMeta).update c.clear).reserve.sub = some { s := 300 }) := by decide

/-! ### reusable string -/

/-- contents follow `std::string`; no operation ever shrinks the capacity; `size ≤ capacity` -/
theorem rstr_refines_string (s : RStr) (ops : List RStr.SOp) (h : RStr.Ok s) :
    (runOps RStr.step s ops).chars = runOps RStr.listStep s.chars ops ∧
      s.cap ≤ (runOps RStr.step s ops).cap ∧ RStr.Ok (runOps RStr.step s ops) :=
  ⟨RStr.run_chars ops s, RStr.run_cap_le ops s, runOps_invariant RStr.step RStr.Ok (fun s o h => RStr.step_ok s o h) s h ops⟩

/-- logical clear leaves a string equal to a freshly constructed one and keeps its capacity -/
theorem rstr_clear_keeps_capacity (s : RStr) :
    s.clear.chars = RStr.fresh.chars ∧ s.clear.cap = s.cap ∧ s.clear.allocs = s.allocs :=
  ⟨rfl, rfl, rfl⟩

/-- a workload whose sizes and reserve requests fit in the capacity allocates nothing -/
theorem rstr_reuse_no_alloc (s : RStr) (ops : List RStr.SOp) (h : RStr.Ok s)
    (hp : RStr.peak s.chars ops ≤ s.cap) (hr : RStr.maxReserve ops ≤ s.cap) :
    (runOps RStr.step s ops).allocs = s.allocs ∧ (runOps RStr.step s ops).cap = s.cap := by
  have := RStr.run_noalloc ops s h hp hr
  exact ⟨this.1, this.2.2⟩

/-- capacity metadata round trip: the re-created string has at least the recorded capacity, and
`capacity → stable_reserve → capacity → …` is a fixed point after one step (no inflation) -/
theorem rstr_meta_roundtrip (m : RStr.Meta) :
    m ≤ (RStr.ofMeta m).cap ∧ (RStr.ofMeta m).chars = [] ∧
      (RStr.ofMeta ((RStr.ofMeta m).updateMeta 0)).cap = (RStr.ofMeta m).cap := by
  refine ⟨(RStr.ofMeta_cap_ge m).1, by simp [RStr.ofMeta, RStr.stableReserve, RStr.grow_chars, RStr.fresh], ?_⟩
  have : (RStr.ofMeta m).updateMeta 0 = (RStr.ofMeta m).cap := by simp [RStr.updateMeta]
  rw [this, RStr.ofMeta_stable]


/-! ### arguments aliasing an element of the vector (known finding) -/

/-- a string-like element type: move construction steals (source left empty), move assignment swaps -/
def strCfg : Cfg :=
  { mvC := fun _ => 0, mvA := fun _ old => old, mvSelf := id, mvX := id, rebuild := false, rebuildMove := false }

/-- `rvec_alias_counterexample`: with an argument that refers to an element of the same vector
the code does **not** behave like `std::vector` (which must cope with it): from the well-formed
state holding `[121, 122, 123, 124]` with `size = capacity = 4`,
* `push_back(v[0])` appends the moved-from residue `0` of the old element (read after `reserve`
  has moved it away and destroyed it, one lifetime violation) instead of `121`;
* after `reserve(16)`, `emplace(begin(), v[2])` inserts `122` (cell 2 is read after the
  shifting loops have put `v[1]` there) instead of `123`.
Replayed on the real classes by corpus/C12/self_aliasing_argument.txt. -/
theorem rvec_alias_counterexample :
    let s := runOps (RVec.step strCfg) RVec.fresh [.assignRange [121, 122, 123, 124]]
    let t := s.reserve strCfg 16
    Inv s ∧ s.abs = [121, 122, 123, 124].map some ∧
      (s.applyAlias strCfg (.pushBackSelf 0)).abs = [121, 122, 123, 124, 0].map some ∧
      listApplyAlias [121, 122, 123, 124] (.pushBackSelf 0) = [121, 122, 123, 124, 121] ∧
      (s.applyAlias strCfg (.pushBackSelf 0)).g.bad = 1 ∧
      (t.applyAlias strCfg (.emplaceSelf 0 2)).abs = [122, 121, 122, 123, 124].map some ∧
      listApplyAlias [121, 122, 123, 124] (.emplaceSelf 0 2) = [123, 121, 122, 123, 124] := by
  refine ⟨(run_spec strCfg _ inv_fresh rep_fresh).inv, ?_, ?_, ?_, ?_, ?_, ?_⟩ <;> decide

/-- `rvec_alias_safe_cases`: what does hold with aliasing arguments — when the call does not
reallocate, `push_back(v[j])` is exactly `push_back` of a copy of `v[j]`, and so is
`insert(pos, n, v[j])` / `emplace(pos, v[j])` when the aliased element lies in front of `pos`
(the shifting loops do not touch it); these calls therefore refine `std::vector` as well. -/
theorem rvec_alias_safe_cases (c : Cfg) (s : RVec) (xs : List Val) (h : Inv s) (hx : s.abs = xs.map some)
    (i n j : Nat) (hj : j < xs.length) :
    (s.size < s.cap →
      (s.applyAlias c (.pushBackSelf j)).abs = (listApplyAlias xs (.pushBackSelf j)).map some) ∧
    (i ≤ s.size → j < i → s.size + n ≤ s.cap →
      (s.applyAlias c (.insertNSelf i n j)).abs = (listApplyAlias xs (.insertNSelf i n j)).map some) ∧
    (i ≤ s.size → j < i → s.size + 1 ≤ s.cap →
      (s.applyAlias c (.emplaceSelf i j)).abs = (listApplyAlias xs (.emplaceSelf i j)).map some) := by
  have x := (rep_iff_abs h xs).mpr hx
  have hjs : j < s.size := by rw [← x.len]; exact hj
  refine ⟨?_, ?_, ?_⟩
  · intro hroom
    simp only [RVec.applyAlias, listApplyAlias, List.getElem?_eq_getElem hj, emplaceBackSelf_safe c x hjs hroom]
    have a := emplaceBackWith_spec c c.rebuild h x xs[j]
    exact (rep_iff_abs a.inv _).mp a.rep
  · intro hi hji hroom
    simp only [RVec.applyAlias, listApplyAlias, List.getElem?_eq_getElem hj, insertNSelf_safe c h x hi hji hroom]
    have a := insertN_spec c h x hi n xs[j]
    exact (rep_iff_abs a.inv _).mp a.rep
  · intro hi hji hroom
    simp only [RVec.applyAlias, listApplyAlias, List.getElem?_eq_getElem hj, emplaceSelf,
      insertNSelf_safe c h x hi hji hroom]
    have a := insertN_spec c h x hi 1 xs[j]
    simpa using (rep_iff_abs a.inv _).mp a.rep

/-! ### non-vacuity -/

/-- an element type with destructive moves (sources are left holding 999) and swap-like self move -/
def exCfg : Cfg :=
  { mvC := fun _ => 999, mvA := fun _ _ => 999, mvSelf := id, mvX := fun _ => 999, rebuild := false, rebuildMove := false }

/-- a reachable state with stale constructed elements behind `size` (`size = 2 < constructed = 5
< capacity = 8`), reached through growth, a shifting insert and a shifting erase -/
example :
    let t := runOps (RVec.step exCfg) RVec.fresh
      [.pushBack 1, .pushBack 2, .pushBack 3, .pushBack 4, .pushBack 5, .insertRange 1 [7, 8], .erase 0 3, .clear,
       .pushBack 6, .insertN 0 1 9]
    (t.size, t.cons, t.cap, t.abs, t.g.bad, t.g.allocs) = (2, 7, 8, [some 9, some 6], 0, 2) := by decide

/-- … the hypotheses of `rvec_reuse_no_alloc` are satisfiable by a non-trivial workload -/
example : Fits 8 [] [.pushBack 1, .insertN 0 3 2, .resize 7 5, .reserve 8, .erase 1 4, .assignN 8 1] := by
  simp [Fits, listStep, listApply, Op.pre, Op.request]

/-- two objects on different resources: element-wise move, then a swap-based move back -/
example :
    let w := runOps (World.step exCfg) ({} : World)
      [.on .A (.assignRange [1, 2, 3]), .new .B 1, .moveAssign .B, .on .B (.pushBack 4), .moveCtor .A 1]
    (w.a.abs, w.b.abs, w.total.bad, w.total.leaked, w.total.ctor, w.total.dtor + w.a.cons + w.b.cons)
      = ([some 1, some 2, some 3, some 4], [], 0, 0, 10, 10) := by decide

/-- a manager that re-creates on every second clear; the unit converges to capacity 3 -/
example :
    let m := runOps (Mgr.step exCfg) ({ interval := 2 } : Mgr)
      [.create, .on 0 (.pushBack 1), .on 0 (.pushBack 2), .on 0 (.pushBack 3), .clear, .on 0 (.pushBack 7), .clear]
    (m.units.map (fun u => (u.gen, u.md, u.inst.size, u.inst.cons, u.inst.cap)), m.releases) = ([(1, 3, 0, 3, 3)], 1) ∧
      Mgr.Converged m 0 [.pushBack 1, .pushBack 2, .insertN 0 1 5, .popBack] := by
  refine ⟨by decide, ?_⟩
  refine manager_recreated_is_converged _ 0 { inst := RVec.ofMeta 3, md := 3, gen := 1 } _ (by decide) rfl ?_
  simp [Fits, listStep, listApply, Op.pre, Op.request]

end Babylon.Properties.C12
