/-
  Property C19 — counters / thread-locals: aggregates exact across thread and instance churn.
  Property theorems only; the model is Babylon/Counter/Model.lean, lemmas in Babylon/Counter/Lemmas*.lean.
-/
import Babylon.Counter.Model
import Babylon.Counter.Pinned

namespace Babylon.Properties.C19
open Babylon.Counter Babylon.Gen.Counter

/-! ## Generated obligations: the source is the one the model was written against -/

/-- constants the model and the harness depend on -/
theorem gen_constants :
    cacheLine = 128 ∧ numAdder = 1024 ∧ numSummer = 512 ∧ numMaxer = 512 ∧ numMiner = 512 ∧ numCetl = 16 ∧
    storageBlock = 128 ∧ storageVecBlock = 128 ∧ nextIdInit = 1 ∧ nextIdStep = 1 ∧ cacheIdInit = 0 ∧
    slotVersionInit = 2 ^ 64 - 1 ∧ extremumMax = -(2 ^ 63) ∧ extremumMin = 2 ^ 63 - 1 ∧ adderLeaky = 1 := by decide

/-- behaviour flags: `for_each` narrows the size to `uint16_t`; both `for_each_alive` overloads clip
(repair aff20d8); the comparer accepts its first matching sample unconditionally (repair f87c6ba); the
destructor zeroes its offset in every line before it releases the instance id -/
theorem gen_flags :
    forEachU16Cast = true ∧ feaClipped = true ∧ feaConstClipped = true ∧ cmpFirstGuard = true ∧
    dtorZeroesFirst = true := by decide

/-- the never-reused instance key is distinct from the initial cache key: an empty cache never hits -/
theorem gen_cache_init_never_hits : cacheIdInit < nextIdInit := by decide

theorem gen_src_etl_for_each : src_etl_for_each = Pinned.etl_for_each := rfl
theorem gen_src_etl_for_each_alive : src_etl_for_each_alive = Pinned.etl_for_each_alive := rfl
theorem gen_src_etl_for_each_alive_const : src_etl_for_each_alive_const = Pinned.etl_for_each_alive_const := rfl
theorem gen_src_compact_for_each : src_compact_for_each = Pinned.compact_for_each := rfl
theorem gen_src_compact_for_each_alive : src_compact_for_each_alive = Pinned.compact_for_each_alive := rfl
theorem gen_src_etl_local : src_etl_local = Pinned.etl_local := rfl
theorem gen_src_etl_local_fast : src_etl_local_fast = Pinned.etl_local_fast := rfl
theorem gen_src_etl_move_assign : src_etl_move_assign = Pinned.etl_move_assign := rfl
theorem gen_src_compact_move_assign : src_compact_move_assign = Pinned.compact_move_assign := rfl
theorem gen_src_compact_ctor : src_compact_ctor = Pinned.compact_ctor := rfl
theorem gen_src_compact_move_ctor : src_compact_move_ctor = Pinned.compact_move_ctor := rfl
theorem gen_src_compact_dtor : src_compact_dtor = Pinned.compact_dtor := rfl
theorem gen_src_compact_local : src_compact_local = Pinned.compact_local := rfl
theorem gen_src_adder_value : src_adder_value = Pinned.adder_value := rfl
theorem gen_src_adder_reset : src_adder_reset = Pinned.adder_reset := rfl
theorem gen_src_adder_count : src_adder_count = Pinned.adder_count := rfl
theorem gen_src_cmp_put : src_cmp_put = Pinned.cmp_put := rfl
theorem gen_src_cmp_value : src_cmp_value = Pinned.cmp_value := rfl
theorem gen_src_cmp_value0 : src_cmp_value0 = Pinned.cmp_value0 := rfl
theorem gen_src_cmp_reset : src_cmp_reset = Pinned.cmp_reset := rfl
theorem gen_src_cmp_slot : src_cmp_slot = Pinned.cmp_slot := rfl
theorem gen_src_cmp_extremum : src_cmp_extremum = Pinned.cmp_extremum := rfl
theorem gen_src_cmp_comparers : src_cmp_comparers = Pinned.cmp_comparers := rfl
theorem gen_src_summer_put1 : src_summer_put1 = Pinned.summer_put1 := rfl
theorem gen_src_summer_put : src_summer_put = Pinned.summer_put := rfl
theorem gen_src_summer_value : src_summer_value = Pinned.summer_value := rfl

end Babylon.Properties.C19
