/-
  Property C19 — counters / thread-locals: aggregates exact across thread and instance churn.
  Property theorems only.  Model: Babylon/Counter/Model.lean (history model of the thread-local
  families, the id allocators by their C14 specification) and Babylon/Counter/Conc.lean (single-writer
  cells read by a concurrent reader); lemmas in Babylon/Counter/Lemmas*.lean.

  Every theorem quantifies over ALL histories (`List` of events: thread start / exit, counter creation
  with ANY admissible — fresh or recycled — instance id, destruction, move, counting with ANY admissible
  thread id for a thread's first use, reset), resp. over all interleavings of the memory accesses of
  counting threads and one reading thread.  Hypotheses, each explicit:
    * `s.tidEnd ≤ tidCap` (= 65408): `for_each` narrows `snapshot.size()` to `uint16_t`;
      `for_each_u16_wrap_counterexample` shows the hypothesis cannot be dropped;
    * comparers: fewer than `2^64 - 1` resets in the history (the version must not reach the slots'
      initial version `SIZE_MAX`).
-/
import Babylon.Counter.LemmasKinds
import Babylon.Counter.LemmasCmp
import Babylon.Counter.LemmasLocal
import Babylon.Counter.Conc
import Babylon.Counter.View
import Babylon.Counter.Pinned

namespace Babylon.Properties.C19
open Babylon.Counter Babylon.Gen.Counter Babylon.Core

/-! ## Generated obligations: the source is the one the model was written against -/

/-- constants the model and the harness depend on -/
theorem gen_constants :
    cacheLine = 128 ∧ numAdder = 1024 ∧ numSummer = 512 ∧ numMaxer = 512 ∧ numMiner = 512 ∧ numCetl = 16 ∧
    storageBlock = 128 ∧ storageVecBlock = 128 ∧ nextIdInit = 1 ∧ nextIdStep = 1 ∧ cacheIdInit = 0 ∧
    slotVersionInit = 2 ^ 64 - 1 ∧ extremumMax = -(2 ^ 63) ∧ extremumMin = 2 ^ 63 - 1 ∧ adderLeaky = 1 := by decide

/-- behaviour flags: `for_each` narrows the size to `uint16_t`; both `for_each_alive` overloads clip
(repair aff20d8); the comparer accepts its first matching sample unconditionally (repair f87c6ba); the
destructor zeroes its offset in every line before it releases the instance id -/
theorem gen_flags :
    forEachU16Cast = true ∧ feaClipped = true ∧ feaConstClipped = true ∧ cmpFirstGuard = true ∧
    dtorZeroesFirst = true := by decide

/-- the never-reused instance key is distinct from the initial cache key: an empty cache never hits -/
theorem gen_cache_init_never_hits : cacheIdInit < nextIdInit := by decide

theorem gen_src_etl_for_each : src_etl_for_each = Pinned.etl_for_each := rfl
theorem gen_src_etl_for_each_alive : src_etl_for_each_alive = Pinned.etl_for_each_alive := rfl
theorem gen_src_etl_for_each_alive_const : src_etl_for_each_alive_const = Pinned.etl_for_each_alive_const := rfl
theorem gen_src_compact_for_each : src_compact_for_each = Pinned.compact_for_each := rfl
theorem gen_src_compact_for_each_alive : src_compact_for_each_alive = Pinned.compact_for_each_alive := rfl
theorem gen_src_etl_local : src_etl_local = Pinned.etl_local := rfl
theorem gen_src_etl_local_fast : src_etl_local_fast = Pinned.etl_local_fast := rfl
theorem gen_src_etl_move_assign : src_etl_move_assign = Pinned.etl_move_assign := rfl
theorem gen_src_compact_move_assign : src_compact_move_assign = Pinned.compact_move_assign := rfl
theorem gen_src_compact_ctor : src_compact_ctor = Pinned.compact_ctor := rfl
theorem gen_src_compact_move_ctor : src_compact_move_ctor = Pinned.compact_move_ctor := rfl
theorem gen_src_compact_dtor : src_compact_dtor = Pinned.compact_dtor := rfl
theorem gen_src_compact_local : src_compact_local = Pinned.compact_local := rfl
theorem gen_src_adder_value : src_adder_value = Pinned.adder_value := rfl
theorem gen_src_adder_reset : src_adder_reset = Pinned.adder_reset := rfl
theorem gen_src_adder_count : src_adder_count = Pinned.adder_count := rfl
theorem gen_src_cmp_put : src_cmp_put = Pinned.cmp_put := rfl
theorem gen_src_cmp_value : src_cmp_value = Pinned.cmp_value := rfl
theorem gen_src_cmp_value0 : src_cmp_value0 = Pinned.cmp_value0 := rfl
theorem gen_src_cmp_reset : src_cmp_reset = Pinned.cmp_reset := rfl
theorem gen_src_cmp_slot : src_cmp_slot = Pinned.cmp_slot := rfl
theorem gen_src_cmp_extremum : src_cmp_extremum = Pinned.cmp_extremum := rfl
theorem gen_src_cmp_comparers : src_cmp_comparers = Pinned.cmp_comparers := rfl
theorem gen_src_summer_put1 : src_summer_put1 = Pinned.summer_put1 := rfl
theorem gen_src_summer_put : src_summer_put = Pinned.summer_put := rfl
theorem gen_src_summer_value : src_summer_value = Pinned.summer_value := rfl

/-! ## Exact aggregates at quiescence -/

/-- **adder_exact.**  After ANY history (thread churn, slots reused by new threads, up to
`NUM_PER_CACHELINE` instances sharing a line, instance ids recycled in any order, moves, resets),
`value()` of every live adder is the reference value `r h` = Σ of what was added since its creation /
last reset (`Adder.refStep`), and a dead handle has no value on either side. -/
theorem adder_exact (es : List Adder.AEv) (s : Fam Int) (r : Nat → Option Int)
    (hrun : Adder.run (Fam.init Adder.cfg) (fun _ => none) es = some (s, r))
    (hcap : s.tidEnd ≤ tidCap) (h : Nat) : Adder.value s h = r h := by
  rw [Adder.run_eq] at hrun
  obtain ⟨_, hR⟩ := mRun_exact intMon rfl gen_flags.2.2.2.2 (init_inv _ Adder.num_pos) (init_rinv _ _) hrun hcap
  rw [Adder.value_eq, mValue_eq, hR h]

/-- **summer_exact.**  The same for `ConcurrentSummer`: sum and count. -/
theorem summer_exact (es : List Summer.SEv) (s : Fam Summer.Cell) (r : Nat → Option Summer.Cell)
    (hrun : Summer.run (Fam.init Summer.cfg) (fun _ => none) es = some (s, r))
    (hcap : s.tidEnd ≤ tidCap) (h : Nat) : Summer.value s h = r h := by
  rw [Summer.run_eq] at hrun
  obtain ⟨_, hR⟩ := mRun_exact cellMon rfl gen_flags.2.2.2.2 (init_inv _ Summer.num_pos) (init_rinv _ _) hrun hcap
  rw [Summer.value_eq, mValue_eq, hR h]

/-- **maxer_period** (both comparers).  After any history with fewer than `2^64 - 1` resets, `value(T&)`
of a live maxer / miner returns exactly the reference `r h`: no result when no sample was recorded in the
current period, else the extreme of the samples of the current period — whichever threads recorded
them, alive or exited, whatever slots they used. -/
theorem comparer_period (isMax : Bool) (es : List Cmp.CEv) (s : Cmp.State) (r : Cmp.Ref)
    (hrun : Cmp.run isMax (Cmp.init isMax) (fun _ => none) es = some (s, r))
    (hcap : s.fam.tidEnd ≤ tidCap) (hres : Cmp.resets es < Cmp.sizeMax) (h : Nat) :
    Cmp.value isMax s h = r h := by
  have hI0 : Inv (Cmp.cfg isMax) (Cmp.init isMax).fam := init_inv _ (Cmp.num_pos isMax)
  obtain ⟨hI, hC⟩ := Cmp.crun_inv isMax gen_flags.2.2.2.2 hI0 (Cmp.init_cinv isMax) hrun hcap (by omega)
  exact Cmp.value_of_cinv gen_flags.2.2.2.1 hI hC (by omega) h

theorem maxer_period (es : List Cmp.CEv) (s : Cmp.State) (r : Cmp.Ref)
    (hrun : Cmp.run true (Cmp.init true) (fun _ => none) es = some (s, r))
    (hcap : s.fam.tidEnd ≤ tidCap) (hres : Cmp.resets es < Cmp.sizeMax) (h : Nat) :
    Cmp.value true s h = r h := comparer_period true es s r hrun hcap hres h

theorem miner_period (es : List Cmp.CEv) (s : Cmp.State) (r : Cmp.Ref)
    (hrun : Cmp.run false (Cmp.init false) (fun _ => none) es = some (s, r))
    (hcap : s.fam.tidEnd ≤ tidCap) (hres : Cmp.resets es < Cmp.sizeMax) (h : Nat) :
    Cmp.value false s h = r h := comparer_period false es s r hrun hcap hres h

/-! ## A new counter starts from zero -/

/-- **new_counter_zero.**  In every reachable state of every family, a constructor that obtains
instance id `i` — fresh or recycled from a destroyed instance — yields an instance all of whose visited
cells hold `T()`: the destructor zeroed its offset in every thread's line before the id was released. -/
theorem new_counter_zero {β : Type} (c : Cfg β) (hn : 0 < c.num) (s s' : Fam β) (hr : Reach c s)
    (h i : Nat) (hnew : newInst c s h i = some s') :
    forEach c s' h = some (List.replicate (bound s' (i / c.num)) c.dflt) := by
  have hI := reach_inv hn gen_flags.2.2.2.2 hr
  obtain ⟨h1, h2, h3⟩ := newInst_col hI hnew
  rw [forEach_eq, h1]
  simp only [Option.map_some, Option.some.injEq]
  have : colOf c s' i = fun _ => c.dflt := by
    funext x; exact h3 x
  rw [this, List.map_const', List.length_range]
  rfl

/-- … in particular a new adder reads 0 after any history, even when it recycles the id and the storage
of a destroyed adder that had counted. -/
theorem new_adder_zero (es : List Adder.AEv) (h i : Nat) (s : Fam Int) (r : Nat → Option Int)
    (hrun : Adder.run (Fam.init Adder.cfg) (fun _ => none) (es ++ [.new h i]) = some (s, r))
    (hcap : s.tidEnd ≤ tidCap) : Adder.value s h = some 0 := by
  rw [adder_exact _ s r hrun hcap h, Adder.ref_fold _ _ _ _ _ hrun, List.foldl_append]
  simp [Adder.refStep, upd1]

/-- … and a new maxer / miner reports "no result". -/
theorem new_comparer_no_result (isMax : Bool) (es : List Cmp.CEv) (h i : Nat) (s : Cmp.State) (r : Cmp.Ref)
    (hrun : Cmp.run isMax (Cmp.init isMax) (fun _ => none) (es ++ [.new h i]) = some (s, r))
    (hcap : s.fam.tidEnd ≤ tidCap) (hres : Cmp.resets (es ++ [.new h i]) < Cmp.sizeMax) :
    Cmp.value isMax s h = some none := by
  rw [comparer_period isMax _ s r hrun hcap hres h, Cmp.ref_fold _ _ _ _ _ _ hrun, List.foldl_append]
  simp [Cmp.refStep, upd1]

/-! ## `local()` is private and stable -/

/-- **local_private_stable (privacy).**  In every reachable state: distinct live threads have distinct
slots; `local()` — through the per-thread cache or not — returns the caller's own cell of that very
instance (`locOf`: storage and offset of the instance id, slot of the thread id); the cells of distinct
(instance, thread) pairs are distinct. -/
theorem local_private {β : Type} (c : Cfg β) (hn : 0 < c.num) (s : Fam β) (hr : Reach c s) :
    (∀ t t' x, s.tidOf t = some x → s.tidOf t' = some x → t = t') ∧
    (∀ t h j s' l, localAt c s t h j = some (s', l) → s'.tidEnd ≤ tidCap → locOf c s' h t = some l) ∧
    (∀ h h' t t' l, locOf c s h t = some l → locOf c s h' t' = some l → h = h' ∧ t = t') := by
  have hI := reach_inv hn gen_flags.2.2.2.2 hr
  exact ⟨hI.tidInj, fun t h j s' l hl hc => local_returns_own hI hl hc, fun h h' t t' l => locOf_inj hI⟩

/-- **local_private_stable (stability).**  Two `local()` calls of the same thread on the same instance,
with any history in between during which the thread does not exit and the handle keeps denoting the
instance, return the same cell. -/
theorem local_stable {β : Type} (c : Cfg β) (hn : 0 < c.num) (s s1 s2 s3 : Fam β) (hr : Reach c s)
    (t h j j' : Nat) (l l' : Loc) (es : List (Ev β))
    (hl : localAt c s t h j = some (s1, l)) (hrun : run c s1 es = some s2) (hcap : s3.tidEnd ≤ tidCap)
    (halive : ∀ e ∈ es, e ≠ Ev.texit t) (hsame : s2.instOf h = s.instOf h)
    (hl' : localAt c s2 t h j' = some (s3, l')) : l' = l := by
  have hz := gen_flags.2.2.2.2
  have hI := reach_inv hn hz hr
  have hc2 : s2.tidEnd ≤ tidCap := Nat.le_trans (localAt_tidEnd_mono hl') hcap
  have hc1 : s1.tidEnd ≤ tidCap := Nat.le_trans (run_tidEnd_mono hrun) hc2
  obtain ⟨i, hi, hk, ho, _, hI1, hF, _⟩ := localAt_spec hI hl hc1
  have hI2 := run_inv hz hI1 hrun hc2
  have ht2 := run_tid_stable hz hI1 hrun hc2 halive hF.tid
  obtain ⟨i', hi', hk', ho', _, _, hF', _⟩ := localAt_spec hI2 hl' hcap
  rw [hsame, hi] at hi'
  cases hi'
  have := hF'.tidOld _ ht2
  cases l; cases l'
  simp only at hk ho hk' ho' this
  simp only [Loc.mk.injEq]
  exact ⟨hk'.trans hk.symm, this.symm, ho'.trans ho.symm⟩

/-! ## `for_each` / `for_each_alive` coverage -/

/-- **for_each_covers.**  A slot a thread ever used for instance id `i` is visited by every later
`for_each` of whichever handle then holds that instance (whether the thread still lives or not), in slot
order, and the walk shows the cell's current value. -/
theorem for_each_covers {β : Type} (c : Cfg β) (hn : 0 < c.num) (s s1 s2 : Fam β) (hr : Reach c s)
    (t h j : Nat) (f : β → β) (l : Loc) (es : List (Ev β)) (h' i : Nat)
    (hu : updAt c s t h j f = some (s1, l)) (hrun : run c s1 es = some s2) (hcap : s2.tidEnd ≤ tidCap)
    (hi : s.instOf h = some i) (hi' : s2.instOf h' = some i) :
    ∃ cells, forEach c s2 h' = some cells ∧ l.tid < cells.length ∧
      cells[l.tid]? = some (s2.cell (i / c.num) l.tid (i % c.num)) := by
  have hz := gen_flags.2.2.2.2
  have hI := reach_inv hn hz hr
  have hc1 : s1.tidEnd ≤ tidCap := Nat.le_trans (run_tidEnd_mono hrun) hcap
  obtain ⟨i0, hi0, _, _, hlt, _, _, _, _⟩ := upd_cols hI hu hc1
  rw [hi] at hi0; cases hi0
  obtain ⟨_, _, _, _, _, _, _, _, _, _, _, hI1⟩ := updAt_spec hI hu hc1
  have hmono := run_bound_mono hz hI1 hrun hcap (i / c.num)
  have hb : l.tid < bndOf c s2 i := Nat.lt_of_lt_of_le hlt hmono
  refine ⟨_, by rw [forEach_eq, hi']; rfl, by simpa using hb, ?_⟩
  simp only [List.getElem?_map, List.getElem?_range hb, Option.map_some]
  rfl

/-- **for_each_alive_exact.**  Both overloads of `for_each_alive` visit exactly the slots of the live
threads that exist in the instance's storage, each once, in ascending order, with the cell's value. -/
theorem for_each_alive_exact {β : Type} (c : Cfg β) (hn : 0 < c.num) (s : Fam β) (hr : Reach c s)
    (h i : Nat) (hi : s.instOf h = some i) :
    ∃ L, forEachAlive c s h = some L ∧ forEachAliveConst c s h = some L ∧
      (∀ x v, (x, v) ∈ L ↔ (∃ t, t ∈ s.live ∧ s.tidOf t = some x) ∧ x < s.size (i / c.num) ∧
        v = s.cell (i / c.num) x (i % c.num)) ∧
      (L.map (·.1)).Pairwise (· < ·) := by
  have hI := reach_inv hn gen_flags.2.2.2.2 hr
  refine ⟨((aliveTids s).filter (· < s.size (i / c.num))).map (fun x => (x, s.cell (i / c.num) x (i % c.num))),
    ?_, ?_, ?_, ?_⟩
  · unfold forEachAlive; rw [gen_flags.2.1]; exact forEachAlive_clipped hI hi
  · unfold forEachAliveConst; rw [gen_flags.2.2.1]; exact forEachAlive_clipped hI hi
  · intro x v
    simp only [List.mem_map, List.mem_filter, decide_eq_true_eq, Prod.mk.injEq]
    constructor
    · rintro ⟨y, ⟨hy, hlt⟩, rfl, rfl⟩
      exact ⟨(mem_aliveTids hI y).mp hy, hlt, rfl⟩
    · rintro ⟨hx, hlt, rfl⟩
      exact ⟨x, ⟨(mem_aliveTids hI x).mpr hx, hlt⟩, rfl, rfl⟩
  · rw [List.map_map]
    have : ((fun p : Nat × β => p.1) ∘ fun x => (x, s.cell (i / c.num) x (i % c.num))) = id := rfl
    rw [this, List.map_id]
    exact (List.pairwise_lt_range.filter _).filter _

/-! ## Reads that overlap adds -/

/-- **adder_concurrent_bounds.**  For every interleaving of the loads / stores of any number of counting
threads with the loads of a reader: the value a `value()` call returns lies between
`c0 + negs` and `c0 + poss`, where `c0` = Σ of the adds completed before the read took its bound and
`negs` / `poss` = Σ of the negative / positive parts of the adds that overlap the read (in flight when
it started, or started before it ended). -/
theorem adder_concurrent_bounds (s : Conc.CState) (hr : Reachable (· = Conc.CState.init) Conc.Step s)
    (res : Int) (hres : s.result = some res) (hidle : s.rpc = none) :
    s.c0 + s.negs ≤ res ∧ res ≤ s.c0 + s.poss :=
  (Conc.reach_cinv s hr).finished res hres hidle

/-- … for non-negative adds: between the sum of the adds completed before the read started and the sum
of the adds started before it ended. -/
theorem adder_concurrent_bounds_nonneg (s : Conc.CState) (hr : Reachable (· = Conc.CState.init) Conc.StepNN s)
    (res : Int) (hres : s.result = some res) (hidle : s.rpc = none) :
    s.c0 ≤ res ∧ res ≤ s.c0 + s.poss := by
  obtain ⟨hI, hN⟩ := Conc.reachNN_inv s hr
  have := hI.finished res hres hidle
  rw [hN.2] at this
  omega

/-! ## Reads that overlap adds, under the release/acquire view model (stale reads allowed) -/

/-- **adder_view_bounds.**  Over `Core/MemView` (a load returns ANY message its view admits), for every
cell type and contribution (`K`: adder `+`, summer pair in one message, maxer / miner `put`), for ALL
load / store / hand-off orders `O`, every interleaving and every choice of stale messages: the value the
reader's load of slot `x` returned is the value after a PREFIX `k` of that slot's contributions —
nothing invented, torn or duplicated — with `hb ≤ k ≤ completed`, `hb` = the reader's view of the cell
when it loaded (every contribution that happens-before the load is included).  A `value()` is the
aggregate of such loads: `Σ_x K.pre (contribs x) k_x`. -/
theorem adder_view_bounds {α γ : Type} (K : View.Kind α γ) (O : View.Ords) (s : View.State α γ)
    (hr : Reachable (· = View.State.init K) (View.Step K O) s) (x : Nat) (a : α) (hb : Nat)
    (hg : s.got x = some (a, hb)) :
    ∃ k, hb ≤ k ∧ k ≤ (s.contribs x).length ∧ a = K.pre (s.contribs x) k :=
  (View.reach_inv K O s hr).gotOk x a hb hg

/-- **value_view_bounds.**  The whole `value()`: if the reader has loaded slots `0 … n-1`, there is ONE
choice `k` of a prefix per slot, `hb x ≤ k x ≤ completed x` for every slot, such that the list of loaded
values is the list of the prefix values `K.pre (contribs x) (k x)` — hence every aggregate `agg` of the
loads (the sum for the adder, the component-wise sum for the summer, the version-filtered max / min fold
for the comparers) equals the same aggregate of those prefix values. -/
theorem value_view_bounds {α γ β : Type} (K : View.Kind α γ) (O : View.Ords) (s : View.State α γ)
    (hr : Reachable (· = View.State.init K) (View.Step K O) s) (n : Nat)
    (hall : ∀ x, x < n → (s.got x).isSome = true) (agg : List α → β) :
    ∃ k : Nat → Nat,
      (∀ x, x < n → ∃ a hb, s.got x = some (a, hb) ∧ hb ≤ k x ∧ k x ≤ (s.contribs x).length) ∧
      agg (View.loads s n) = agg ((List.range n).map (fun x => K.pre (s.contribs x) (k x))) := by
  obtain ⟨k, h1, h2⟩ := View.loads_prefix K O (View.reach_inv K O s hr) n hall
  exact ⟨k, h1, by rw [h2]⟩

/-- the four counter kinds by name: adder (`Σ`), summer (`(Σ sum, Σ num)`, the pair is one message),
maxer / miner (the fold of `value(T&)` over slots holding `put`-prefixes) -/
theorem adder_value_view (O : View.Ords) (s : View.State Int Int)
    (hr : Reachable (· = View.State.init View.adderKind) (View.Step View.adderKind O) s) (n : Nat)
    (hall : ∀ x, x < n → (s.got x).isSome = true) :
    ∃ k : Nat → Nat,
      (∀ x, x < n → ∃ a hb, s.got x = some (a, hb) ∧ hb ≤ k x ∧ k x ≤ (s.contribs x).length) ∧
      sumInts (View.loads s n) =
        sumInts ((List.range n).map (fun x => View.adderKind.pre (s.contribs x) (k x))) :=
  value_view_bounds View.adderKind O s hr n hall sumInts

theorem summer_value_view (O : View.Ords) (s : View.State Summer.Cell Summer.Cell)
    (hr : Reachable (· = View.State.init View.summerKind) (View.Step View.summerKind O) s) (n : Nat)
    (hall : ∀ x, x < n → (s.got x).isSome = true) :
    ∃ k : Nat → Nat,
      (∀ x, x < n → ∃ a hb, s.got x = some (a, hb) ∧ hb ≤ k x ∧ k x ≤ (s.contribs x).length) ∧
      Summer.sumCells (View.loads s n) =
        Summer.sumCells ((List.range n).map (fun x => View.summerKind.pre (s.contribs x) (k x))) :=
  value_view_bounds View.summerKind O s hr n hall Summer.sumCells

theorem comparer_value_view (isMax : Bool) (ver : Nat) (O : View.Ords) (s : View.State Cmp.Slot (Nat × Int))
    (hr : Reachable (· = View.State.init (View.cmpKind isMax)) (View.Step (View.cmpKind isMax) O) s) (n : Nat)
    (hall : ∀ x, x < n → (s.got x).isSome = true) :
    ∃ k : Nat → Nat,
      (∀ x, x < n → ∃ a hb, s.got x = some (a, hb) ∧ hb ≤ k x ∧ k x ≤ (s.contribs x).length) ∧
      Cmp.fold cmpFirstGuard isMax ver (View.loads s n) (false, Cmp.extremum isMax) =
        Cmp.fold cmpFirstGuard isMax ver
          ((List.range n).map (fun x => (View.cmpKind isMax).pre (s.contribs x) (k x))) (false, Cmp.extremum isMax) :=
  value_view_bounds (View.cmpKind isMax) O s hr n hall
    (fun cells => Cmp.fold cmpFirstGuard isMax ver cells (false, Cmp.extremum isMax))

theorem maxer_value_view (ver : Nat) (O : View.Ords) (s : View.State Cmp.Slot (Nat × Int))
    (hr : Reachable (· = View.State.init View.maxerKind) (View.Step View.maxerKind O) s) (n : Nat)
    (hall : ∀ x, x < n → (s.got x).isSome = true) :
    ∃ k : Nat → Nat,
      (∀ x, x < n → ∃ a hb, s.got x = some (a, hb) ∧ hb ≤ k x ∧ k x ≤ (s.contribs x).length) ∧
      Cmp.fold cmpFirstGuard true ver (View.loads s n) (false, Cmp.extremum true) =
        Cmp.fold cmpFirstGuard true ver
          ((List.range n).map (fun x => View.maxerKind.pre (s.contribs x) (k x))) (false, Cmp.extremum true) :=
  comparer_value_view true ver O s hr n hall

theorem miner_value_view (ver : Nat) (O : View.Ords) (s : View.State Cmp.Slot (Nat × Int))
    (hr : Reachable (· = View.State.init View.minerKind) (View.Step View.minerKind O) s) (n : Nat)
    (hall : ∀ x, x < n → (s.got x).isSome = true) :
    ∃ k : Nat → Nat,
      (∀ x, x < n → ∃ a hb, s.got x = some (a, hb) ∧ hb ≤ k x ∧ k x ≤ (s.contribs x).length) ∧
      Cmp.fold cmpFirstGuard false ver (View.loads s n) (false, Cmp.extremum false) =
        Cmp.fold cmpFirstGuard false ver
          ((List.range n).map (fun x => View.minerKind.pre (s.contribs x) (k x))) (false, Cmp.extremum false) :=
  comparer_value_view false ver O s hr n hall

/-- **adder_view_handoff.**  Contributions handed off to the reader by a release store / acquire load
(what a `join` provides) are in its view: a load of the cell made afterwards returns a prefix `k` that
includes all `seen x` of them. -/
theorem adder_view_handoff {α γ : Type} (K : View.Kind α γ) (O : View.Ords) (s t : View.State α γ)
    (hr : Reachable (· = View.State.init K) (View.Step K O) s) (x ts : Nat)
    (h : View.step K O s (.rLoad x ts) = some t) :
    ∃ a hb k, t.got x = some (a, hb) ∧ s.seen x ≤ k ∧ hb ≤ k ∧ k ≤ (t.contribs x).length ∧
      a = K.pre (t.contribs x) k :=
  View.rLoad_covers K O (View.reach_inv K O s hr) h

/-- **gen_view_orders.**  No order on the cells matters: the bound holds with relaxed loads and relaxed
stores (the code's cells are plain, single-writer words — only per-location coherence is used), whatever
the hand-off orders.  What the "completed before the read" clause does need is a synchronising EXTERNAL
hand-off, see the negative control below. -/
theorem gen_view_orders {α γ : Type} (K : View.Kind α γ) (oR oA : Ord) (s : View.State α γ)
    (hr : Reachable (· = View.State.init K) (View.Step K ⟨.rlx, .rlx, oR, oA⟩) s) (x : Nat) (a : α) (hb : Nat)
    (hg : s.got x = some (a, hb)) :
    ∃ k, hb ≤ k ∧ k ≤ (s.contribs x).length ∧ a = K.pre (s.contribs x) k :=
  adder_view_bounds K _ s hr x a hb hg

/-- **Negative control.**  One contribution of 5 is completed and handed off through the flag; the reader
has read the flag (value 1).  With a release / acquire hand-off the stale message of the cell is no longer
admissible and the load returns 5; with a RELAXED hand-off store (or a relaxed hand-off load) the reader may
still read the initial message and miss the completed contribution. -/
theorem view_handoff_negative_control :
    View.handoffRun ⟨.rlx, .rlx, .rel, .acq⟩ 0 = none ∧
    View.handoffRun ⟨.rlx, .rlx, .rel, .acq⟩ 1 = some (some (5, 1)) ∧
    View.handoffRun ⟨.rlx, .rlx, .rlx, .acq⟩ 0 = some (some (0, 0)) ∧
    View.handoffRun ⟨.rlx, .rlx, .rel, .rlx⟩ 0 = some (some (0, 0)) := by decide

/-- Non-vacuity of the view-level theorems: two summer slots; slot 0's owner contributes `(1,1)` then
`(-1,3)`, slot 1's owner `(2,2)`; the reader loads slot 0 STALE (message 1 of 3: only the first
contribution) and slot 1 fresh.  `value()` = `(1,1) + (2,2)` = the prefixes `k = (1, 1)`; sum and count come
from the same prefix. -/
def demoView : List (View.Act Summer.Cell) :=
  [.wLoad 0 (1, 1) 0, .wStore 0, .wLoad 1 (2, 2) 0, .wLoad 0 (-1, 3) 1, .wStore 0, .wStore 1,
   .rLoad 0 1, .rLoad 1 1]

example : (View.run View.summerKind ⟨.rlx, .rlx, .rlx, .rlx⟩ (View.State.init View.summerKind) demoView).map
    (fun s => (View.loads s 2, Summer.sumCells (View.loads s 2), (s.contribs 0).length, (s.contribs 1).length)) =
    some ([(1, 1), (2, 2)], (3, 3), 2, 1) := by decide

/-- … and a maxer: slot 0 sampled 1 then 3 in period 0, slot 1 sampled 2; the reader sees slot 0 stale -/
def demoViewMax : List (View.Act (Nat × Int)) :=
  [.wLoad 0 (0, 1) 0, .wStore 0, .wLoad 0 (0, 3) 1, .wStore 0, .wLoad 1 (0, 2) 0, .wStore 1,
   .rLoad 0 1, .rLoad 1 1]

example : (View.run View.maxerKind ⟨.rlx, .rlx, .rlx, .rlx⟩ (View.State.init View.maxerKind) demoViewMax).map
    (fun s => Cmp.fold true true 0 (View.loads s 2) (false, Cmp.extremum true)) = some (true, 2) := by decide

/-! ## The `uint16_t` narrowing: the hypothesis `tidEnd ≤ tidCap` is necessary -/

/-- the main thread is handed thread id 65408 (no live thread holds it): its line lives in block 511,
`snapshot.size()` becomes 65536 and `static_cast<uint16_t>` makes it 0 -/
def wrapHist : List Adder.AEv := [.new 1 0, .add 0 1 65408 5]

/-- **for_each_u16_wrap_counterexample.**  One step beyond the cap (`tidEnd = tidCap + 1`) `for_each`
walks nothing: the adder that counted 5 reads 0.  (In the real allocator thread id 65408 needs 65409
threads of one type alive at once; the documentation promises 65534.) -/
theorem for_each_u16_wrap_counterexample :
    ∃ s r, Adder.run (Fam.init Adder.cfg) (fun _ => none) wrapHist = some (s, r) ∧
      s.tidEnd = tidCap + 1 ∧ Adder.value s 1 = some 0 ∧ r 1 = some 5 := by
  have key : (Adder.run (Fam.init Adder.cfg) (fun _ => none) wrapHist).map
      (fun p => (p.1.tidEnd, Adder.value p.1 1, p.2 1)) = some (65409, some 0, some 5) := by decide
  cases hrun : Adder.run (Fam.init Adder.cfg) (fun _ => none) wrapHist with
  | none => rw [hrun] at key; cases key
  | some p =>
    rw [hrun] at key
    simp only [Option.map_some, Option.some.injEq, Prod.mk.injEq] at key
    exact ⟨p.1, p.2, rfl, key.1, key.2.1, key.2.2⟩

/-! ## Non-vacuity: concrete histories satisfy every hypothesis used above -/

/-- two adders share a line (ids 0, 1); thread 1 counts and exits; thread 2 reuses its slot 0 and counts
on; the main thread counts in slot 1; adder 1 is destroyed, adder 3 recycles its id 0 and reads 0;
adders 2 and 3 are swapped by a move assignment. -/
def demoHist : List Adder.AEv :=
  [.new 1 0, .new 2 1, .tstart 1, .add 1 1 0 5, .add 1 2 0 7, .texit 1, .tstart 2, .add 2 1 0 (-3),
   .add 0 2 1 4, .drop 1, .new 3 0]

example : (Adder.run (Fam.init Adder.cfg) (fun _ => none) demoHist).map
    (fun p => (decide (p.1.tidEnd ≤ tidCap), Adder.value p.1 1, Adder.value p.1 2, Adder.value p.1 3, p.2 2)) =
    some (true, none, some 11, some 0, some 11) := by decide

example : (Adder.run (Fam.init Adder.cfg) (fun _ => none) (demoHist ++ [.swap 2 3, .add 2 2 0 1])).map
    (fun p => (Adder.value p.1 2, Adder.value p.1 3)) = some (some 1, some 11) := by decide

/-- a maxer over two periods: samples of an exited thread count, the slot reused by the next thread
carries the old period's value into the comparison, `reset` opens an empty period -/
def demoCmp : List Cmp.CEv :=
  [.new 1 0, .tstart 1, .put 1 1 0 5, .texit 1, .tstart 2, .put 2 1 0 3, .put 0 1 1 (-9)]

example : (Cmp.run true (Cmp.init true) (fun _ => none) demoCmp).map
    (fun p => (decide (p.1.fam.tidEnd ≤ tidCap), Cmp.value true p.1 1, p.2 1)) =
    some (true, some (some 5), some (some 5)) := by decide

example : (Cmp.run true (Cmp.init true) (fun _ => none) (demoCmp ++ [.reset 1, .put 2 1 0 (-4)])).map
    (fun p => (Cmp.value true p.1 1, decide (Cmp.resets (demoCmp ++ [.reset 1, .put 2 1 0 (-4)]) < Cmp.sizeMax))) =
    some (some (some (-4)), true) := by decide

/-- a reader overlapping two writers: the read starts while slot 0's owner is inside `count(3)`,
slot 1's owner adds `-2` during the read; the value returned, 3, lies in `[c0 + negs, c0 + poss] = [-2, 3]` -/
def demoConc : List Conc.CAct :=
  [.wLoad 0 3, .rStart 2, .wStore 0, .rLoad, .wLoad 1 (-2), .rLoad, .wStore 1, .rEnd]

def runConc : Conc.CState → List Conc.CAct → Option Conc.CState
  | s, [] => some s
  | s, a :: as => (Conc.cstep s a).bind (fun t => runConc t as)

example : (runConc Conc.CState.init demoConc).map (fun s => (s.result, s.c0, s.negs, s.poss)) =
    some (some 3, 0, -2, 3) := by decide

end Babylon.Properties.C19
