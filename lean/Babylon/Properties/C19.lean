/-
  Property C19 — property theorems only (helper lemmas live next to the model).
  Stub: nothing claimed yet.
-/
namespace Babylon.Properties.C19
end Babylon.Properties.C19
