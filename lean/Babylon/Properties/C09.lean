/-
  Property C09 — Epoch: nothing becomes reclaimable while a reader that may see it is in a region.

  Property theorems only.  Model: Babylon/Epoch/Model.lean (one step = one atomic operation of
  `babylon::Epoch`, memory orders from the generated file) over the release/acquire VIEW memory
  model Babylon/Core/MemView.lean: a load may read any message not older than the thread's view, so
  every theorem below quantifies over all interleavings AND all store-buffer-style delays, any number
  of threads / accessors / ticks / scans, nesting, Accessor hand-over, slot reuse, table growth.
  Invariant and per-step lemmas: Babylon/Epoch/Inv.lean, Steps1 … Steps10, Lemmas.lean.

  Reading guide (ghost variables of the model):
    `s.fv i = some V`   the region of slot `i` is open; `V` = its holder's view right after the fence
                        that ends `lock` — every load inside the region reads at or after `V`;
    `s.pv e`            view of the ticking thread just before `tick()` returned `e` — contains every
                        unlink that precedes that tick in program order;
    `s.tkv e = some W`  tick `e` is complete, `W` = the ticker's view after it;
    `s.recl e = true`   a `low_water_mark()` whose start view contained `W` (it happens after tick `e`)
                        returned a value `≥ e`: epoch `e` may be reclaimed.
-/
import Babylon.Epoch.Lemmas
import Babylon.Epoch.Exec

namespace Babylon.Properties.C09
open Babylon.Epoch Babylon.Gen.Epoch Babylon.Core Babylon.Core.MemView

/-! ### Generated obligations: the source is the one the model was written against -/

theorem gen_skel_lock : skel_lock = Skel.lock := by decide
theorem gen_skel_unlock : skel_unlock = Skel.unlock := by decide
theorem gen_skel_lock_tls : skel_lock_tls = Skel.lock_tls := by decide
theorem gen_skel_unlock_tls : skel_unlock_tls = Skel.unlock_tls := by decide
theorem gen_skel_create_accessor : skel_create_accessor = Skel.create_accessor := by decide
theorem gen_skel_accessor_plumbing :
    skel_accessor_number = Skel.accessor_number ∧ skel_unregister_accessor = Skel.unregister_accessor ∧
    skel_accessor_lock = Skel.accessor_lock ∧ skel_accessor_unlock = Skel.accessor_unlock ∧
    skel_accessor_release = Skel.accessor_release := by decide
/-- repaired shape of `unregister_accessor` (fix 6566b0b): an Accessor released inside a region first
closes the region (`lock_times = 0`, release store of `UINT64_MAX`), then returns the id -/
theorem gen_unregister_closes_region :
    unregisterClosesOpenRegion = true ∧ unregisterDepthAfter = 0 ∧ unregisterStoresMax = true ∧
    releaseStoreOrd = .rel := by decide
theorem gen_skel_low_water_mark : skel_low_water_mark = Skel.low_water_mark := by decide
theorem gen_skel_ensure_slow : skel_ensure_slow = Skel.ensure_slow ∧ ensureCasStrong = true := by decide
/-- the preprocessor of this build selects the x86 branch of `tick`: one `seq_cst` RMW -/
theorem gen_skel_tick : skel_tick = Skel.tick_x86 ∧ tickSelectedIsX86 = true ∧ tickFenceOrd = none := by decide
/-- structure of lock / unlock / tick / low_water_mark the model hard-wires -/
theorem gen_structure :
    lockDepthStep = 1 ∧ lockPublishDepth = 1 ∧ lockStoresLoadedVersion = true ∧ lockIndexesSlotsByIndex = true ∧
    unlockClearDepth = 1 ∧ unlockDepthStep = 1 ∧ unlockStoresMax = true ∧
    tickReturnPlus = 1 ∧ tickIncrement = 1 ∧
    scanBoundIsMinCountSize = true ∧ scanCountFromAccessorNumber = true ∧ scanFallsBackToThreadIds = true ∧
    scanStartsFromMax = true ∧ scanTakesMinimum = true ∧ scanSnapshotBeforeCount = true ∧
    slotInitIsMax = true ∧ slotInitLockTimes = 0 ∧ versionOffset = 0 ∧ maxVersion = 2 ^ 64 - 1 ∧
    -- the scan bound (`auto number = accessor_number()`) is at least as wide as the id counter: no wrap
    idCounterBytes ≤ accessorNumberBytes ∧ accessorNumberBytes = 8 := by decide

/-- **The memory orders written in the source satisfy what the safety proof needs**: the reader's
fence is `seq_cst`, `tick` is a `seq_cst` RMW (or a releasing RMW followed by a `seq_cst` fence),
the id allocator's free list hands ids over with release / acquire.  A weakened order in
`epoch.h` / `id_allocator.hpp` makes this obligation fail. -/
theorem gen_orders_safe : genOrders.Safe :=
  ⟨by decide, by decide, by decide, by decide⟩

/-- orders the model does not need for safety but was written against (unlock's release store and
the scan's acquire loads order the reader's accesses before the reclamation, see
`epoch_unlock_scan_hb`) -/
theorem gen_orders_other :
    unlockStoreOrd = .rel ∧ scanSlotOrd = .acq ∧ countLoadOrd = .acq ∧ tableLoadOrd = .acq ∧
    lockLoadOrd = .rlx ∧ lockStoreOrd = .rlx ∧ mintOrd = .rlx := by decide

/-! ### The property -/

/-- states reachable in the view-memory model: every program, thread count, interleaving, stale read -/
abbrev Reach (c : Cfg) (o : Orders) (s : State) : Prop := Reachable (· = State.init c) (Step c o) s

/-- **epoch_safety_view.**  In every execution of the view model: once epoch `e` is reclaimable —
some `low_water_mark()` that happens after the tick returning `e` (its start view contains the
tick's view) returned `m ≥ e` — every region that is open, no matter when it was opened or which
thread holds its Accessor now, has a view that contains the ticker's view before that tick; so the
region cannot observe anything older than what was unlinked before the tick. -/
theorem epoch_safety_view (c : Cfg) (o : Orders) (hbs : 0 < c.bs) (ho : o.Safe) (s : State) (hr : Reach c o s)
    (e i : Nat) (V : View Loc) (hrecl : s.recl e = true) (hfv : s.fv i = some V) : s.pv e ≤ V :=
  ((inv_reachable c o hbs ho s hr).recl e hrecl).2 i V hfv

/-- the same for the orders of the source being checked -/
theorem epoch_safety (c : Cfg) (hbs : 0 < c.bs) (s : State) (hr : Reach c genOrders s)
    (e i : Nat) (V : View Loc) (hrecl : s.recl e = true) (hfv : s.fv i = some V) : s.pv e ≤ V :=
  epoch_safety_view c genOrders hbs gen_orders_safe s hr e i V hrecl hfv

/-- … hence every load of the shared cell (any client location) by the holder of an open region,
after epoch `e` became reclaimable, reads the message the ticker had written / seen before tick `e`
or a newer one: it reads `new`, never `old`. -/
theorem epoch_region_reads_new (c : Cfg) (o : Orders) (hbs : 0 < c.bs) (ho : o.Safe) (s : State) (hr : Reach c o s)
    (e i h : Nat) (V : View Loc) (hrecl : s.recl e = true) (hfv : s.fv i = some V) (hown : s.own i = .held h)
    (cc : Nat) (oo : Core.Ord) (ts : Nat) (s' : State) (l : Label) (hload : clientLoad s h cc oo ts = some (s', l)) :
    (s.pv e).get (.cl cc) ≤ ts := by
  have inv := inv_reachable c o hbs ho s hr
  have h1 := epoch_safety_view c o hbs ho s hr e i V hrecl hfv (.cl cc)
  have h2 := (inv.region i V hfv).av (.cl cc)
  have h3 := (inv.acc i h hown).1 (.cl cc)
  unfold clientLoad at hload
  split at hload
  · cases hload
  · rename_i m v hread
    have h4 := read_respects_view hread
    simp only [State.cur] at h3
    omega

/-- Equivalent form: a region that can still observe `old` forces the mark below `e`.  Whenever a
`low_water_mark()` of thread `t` finishes with result `mn` (the state `finishScan s m t mn` is
reached), for every completed tick `e` the scan happens after and every open region whose view does
not contain the ticker's view before that tick: `mn < e`. -/
theorem epoch_old_visible_forces_low_mark (c : Cfg) (o : Orders) (hbs : 0 < c.bs) (ho : o.Safe)
    (s : State) (m : Mem Loc) (t mn : Nat) (hr : Reach c o (finishScan s m t mn))
    (e i : Nat) (W V : View Loc) (hW : s.tkv e = some W) (hafter : W ≤ s.sv t) (he : 1 ≤ e)
    (hfv : s.fv i = some V) (hold : ¬ s.pv e ≤ V) : mn < e := by
  rcases Nat.lt_or_ge mn e with h | h
  · exact h
  · exfalso
    apply hold
    apply epoch_safety_view c o hbs ho _ hr e i V _ hfv
    simp [finishScan, hW, he, h, hafter]

/-- **epoch_new_slot_safe.**  A region whose slot index is outside the range `[0, B)` the scan
decided to read (its Accessor / thread id was created concurrently with the scan, or the slot table
grew): the scan's start view cannot contain the region's view, so the region's fence came after
every tick the scan happens after, and the region sees what those tickers saw. -/
theorem epoch_new_slot_safe (c : Cfg) (o : Orders) (hbs : 0 < c.bs) (ho : o.Safe) (s : State) (hr : Reach c o s)
    (t B j mn : Nat) (hpc : s.pc t = .sc3 B j mn) (i : Nat) (V : View Loc) (hfv : s.fv i = some V) (hout : B ≤ i)
    (e : Nat) (W : View Loc) (hW : s.tkv e = some W) (hafter : W ≤ s.sv t) : W ≤ V ∧ s.pv e ≤ V := by
  have inv := inv_reachable c o hbs ho s hr
  have R := inv.region i V hfv
  have hp := inv.pcs t
  unfold PcOK at hp
  rw [hpc] at hp
  obtain ⟨_, _, hbound⟩ := hp
  have hnle : ¬ V ≤ s.sv t := by
    intro hle
    have : i < B := by
      apply hbound i (Nat.lt_of_lt_of_le R.cnt (hle _))
      obtain ⟨msg, hmsg, hcap⟩ := R.cap
      exact ⟨V.get .tbl, msg, hle _, hmsg, hcap⟩
    omega
  rcases inv.dich i V e W hfv hW with h | h
  · exact absurd (View.le_trans h hafter) hnle
  · exact ⟨h, View.le_trans (inv.tick e W hW).1 h⟩

/-- **epoch_nesting** (invariant part).  While a region is open the nesting counter is positive;
and a positive counter with nobody inside `lock`'s publishing sequence means the region is open:
nested `lock` / `unlock` neither close nor re-open it. -/
theorem epoch_nesting (c : Cfg) (o : Orders) (hbs : 0 < c.bs) (ho : o.Safe) (s : State) (hr : Reach c o s) (i : Nat) :
    (∀ V, s.fv i = some V → 1 ≤ s.lt i) ∧
    (1 ≤ s.lt i → (∀ t, (s.pc t).lkAt i = false) → ∃ V, s.fv i = some V) := by
  have inv := inv_reachable c o hbs ho s hr
  refine ⟨fun V h => (inv.region i V h).depth, fun h1 h2 => ?_⟩
  cases hfv : s.fv i with
  | some V => exact ⟨V, rfl⟩
  | none => have := inv.depth i hfv h2; omega

/-- a `lock` at depth `≥ 1` is one table load: it writes no memory, publishes nothing, and only
bumps the counter -/
theorem epoch_nesting_lock (c : Cfg) (o : Orders) (s s' : State) (t i ch : Nat) (l : Label)
    (hpc : s.pc t = .lk0 i) (hdepth : 1 ≤ s.lt i) (hstep : stepThread c o s t ch = some (s', l)) :
    s'.pc t = .idle ∧ s'.mem.hist = s.mem.hist ∧ s'.fv = s.fv ∧ s'.pub = s.pub ∧ s'.lt i = s.lt i + 1 := by
  unfold stepThread at hstep
  rw [hpc] at hstep
  simp only at hstep
  split at hstep
  · cases hstep
  · rename_i m nb hread
    cases hstep
    have hd : ¬ s.lt i + lockDepthStep = lockPublishDepth := by
      simp [lockDepthStep, lockPublishDepth]; omega
    simp only [hd, if_false]
    refine ⟨?_, ?_, ?_, ?_, ?_⟩ <;> simp [Mem.read_hist hread, lockDepthStep]

/-- an `unlock` at depth `≥ 2` likewise -/
theorem epoch_nesting_unlock (c : Cfg) (o : Orders) (s s' : State) (t i ch : Nat) (l : Label)
    (hpc : s.pc t = .ul0 i) (hdepth : 2 ≤ s.lt i) (hstep : stepThread c o s t ch = some (s', l)) :
    s'.pc t = .idle ∧ s'.mem.hist = s.mem.hist ∧ s'.fv = s.fv ∧ s'.pub = s.pub ∧ s'.lt i = s.lt i - 1 := by
  unfold stepThread at hstep
  rw [hpc] at hstep
  simp only at hstep
  split at hstep
  · cases hstep
  · rename_i m nb hread
    cases hstep
    have hd : ¬ s.lt i = unlockClearDepth := by simp [unlockClearDepth]; omega
    simp only [hd, if_false]
    refine ⟨?_, ?_, ?_, ?_, ?_⟩ <;> simp [Mem.read_hist hread, unlockDepthStep]

/-- **epoch_released_never_holds.**  A slot with no open region — unlocked Accessor, released
Accessor (free slot), never allocated slot — holds `UINT64_MAX` as its latest version, and every
thread whose view includes the last operation on that slot (`av i`: e.g. a scan that happens after the
unlock) reads `UINT64_MAX` from it, whatever message the memory model lets it pick: it does not
lower the minimum. -/
theorem epoch_released_never_holds (c : Cfg) (o : Orders) (hbs : 0 < c.bs) (ho : o.Safe) (s : State) (hr : Reach c o s)
    (i : Nat) (hfv : s.fv i = none) (hno : ∀ t, (s.pc t).lk3At i = false) :
    (∃ msg, (s.mem.hist (.slot i))[s.mem.len (.slot i) - 1]? = some msg ∧ msg.val = MAX) ∧
    ∀ t ts oo m' v, s.av i ≤ s.cur t → s.mem.read t (.slot i) oo ts = some (m', v) → v = MAX := by
  have inv := inv_reachable c o hbs ho s hr
  obtain ⟨⟨msg, hmsg, hval⟩, hav⟩ := inv.closed i hfv hno
  refine ⟨⟨msg, hmsg, hval⟩, fun t ts oo m' v hle hread => ?_⟩
  have h1 := read_respects_view hread
  have h2 := Mem.read_ts_lt hread
  have h3 := hle (.slot i)
  simp only [State.cur] at h3
  obtain ⟨msg', hm', hv', _, _⟩ := Mem.read_spec hread
  have : ts = s.mem.len (.slot i) - 1 := by omega
  rw [this, hmsg] at hm'
  cases hm'
  rw [hv', hval]

/-- … unconditionally for a released Accessor: whenever `Accessor::release` / `~Accessor` has returned
the id (the slot is free), in whatever state the Accessor was released — inside a (nested) region or
not — the slot's latest version is `UINT64_MAX`, its region is closed, its nesting counter is 0, and
every thread whose view includes the release reads `UINT64_MAX` from it. -/
theorem epoch_released_accessor_never_holds (c : Cfg) (o : Orders) (hbs : 0 < c.bs) (ho : o.Safe) (s : State)
    (hr : Reach c o s) (i : Nat) (hfree : s.own i = .free) :
    s.fv i = none ∧ s.lt i = 0 ∧
    (∃ msg, (s.mem.hist (.slot i))[s.mem.len (.slot i) - 1]? = some msg ∧ msg.val = MAX) ∧
    ∀ t ts oo m' v, s.av i ≤ s.cur t → s.mem.read t (.slot i) oo ts = some (m', v) → v = MAX := by
  have inv := inv_reachable c o hbs ho s hr
  obtain ⟨_, _, _, _, hlt, hfv⟩ := inv.free i hfree
  have hno : ∀ t, (s.pc t).lk3At i = false := fun t => by
    cases h : (s.pc t).lk3At i with
    | false => rfl
    | true =>
      have := uses_own (inv.pcs t) (Pc.lk3At_uses h)
      rw [hfree] at this; cases this
  obtain ⟨h1, h2⟩ := epoch_released_never_holds c o hbs ho s hr i hfv hno
  exact ⟨hfv, hlt, h1, h2⟩

/-- `Accessor::release` may be called at any time by the holder — there is no "no region open"
precondition any more — and always ends with the slot free: the release steps are
`_slots[i]` → (region open: `lock_times = 0`, store `UINT64_MAX`) → `deallocate(i)`. -/
theorem epoch_release_closes_region (c : Cfg) (o : Orders) (s s' : State) (t i : Nat) (l : Label)
    (hpc : s.pc t = .rl1 i) (hstep : stepThread c o s t 0 = some (s', l)) :
    s'.fv i = none ∧ s'.lt i = 0 ∧ s'.pc t = .rl2 i ∧ l = .st "slot" i o.releaseStore MAX := by
  unfold stepThread at hstep
  rw [hpc] at hstep
  simp only at hstep
  cases hstep
  simp [unregisterDepthAfter, actSt, Loc.name]

/-- the hypotheses of `epoch_released_never_holds` hold for an unlocked, a released and a never
allocated slot -/
theorem epoch_unlocked_is_closed (c : Cfg) (o : Orders) (hbs : 0 < c.bs) (ho : o.Safe) (s : State) (hr : Reach c o s)
    (i : Nat) : (s.lt i = 0 → s.fv i = none) ∧ (s.own i = .free → s.lt i = 0 ∧ s.fv i = none) ∧
      (s.own i = .unalloc → s.lt i = 0 ∧ s.fv i = none) := by
  have inv := inv_reachable c o hbs ho s hr
  refine ⟨fun h => ?_, fun h => ?_, fun h => ?_⟩
  · cases hfv : s.fv i with
    | none => rfl
    | some V => have := (inv.region i V hfv).depth; omega
  · obtain ⟨_, _, _, _, h4, h5⟩ := inv.free i h; exact ⟨h4, h5⟩
  · obtain ⟨h1, h2, _⟩ := inv.unalloc2 i h; exact ⟨h1, h2⟩

/-- a moved Accessor keeps its slot, its published version and its region -/
theorem epoch_move_keeps_slot (s : State) (i t2 : Nat) :
    (move s i t2).mem = s.mem ∧ (move s i t2).fv = s.fv ∧ (move s i t2).pub = s.pub ∧ (move s i t2).lt = s.lt ∧
    (move s i t2).own i = .held t2 := ⟨rfl, rfl, rfl, rfl, by simp [move]⟩

/-- **epoch_stale_gver_conservative.**  The version a region publishes is the value of *some*
message of the global version (possibly a stale one): it never exceeds the latest global version, so
a reader that read a stale (smaller) version only lowers the mark; `epoch_safety_view` holds for
every message the relaxed load may pick. -/
theorem epoch_stale_gver_conservative (c : Cfg) (o : Orders) (hbs : 0 < c.bs) (ho : o.Safe) (s : State)
    (hr : Reach c o s) (i : Nat) (V : View Loc) (hfv : s.fv i = some V) :
    s.pub i + 1 ≤ s.mem.len .gver ∧
    ∃ msg, (s.mem.hist (.slot i))[s.mem.len (.slot i) - 1]? = some msg ∧ msg.val = s.pub i := by
  have inv := inv_reachable c o hbs ho s hr
  have R := inv.region i V hfv
  refine ⟨R.pubLt, ?_⟩
  obtain ⟨msg, hmsg, hval⟩ := R.val
  have : s.mem.len (.slot i) - 1 = V.get (.slot i) := by have := R.last; omega
  exact ⟨msg, by rw [this]; exact hmsg, hval⟩

/-- **epoch_unlock_scan_hb.**  Message passing from `unlock` to the scan: a thread that
acquire-loads the `UINT64_MAX` stored by a release `unlock` sees everything the reader saw or did
inside the region — the reclamation that follows is ordered after the reader's accesses. -/
theorem epoch_unlock_scan_hb (m : Mem Loc) (reader scanner i : Nat) (o o' : Core.Ord) {m2 m3 : Mem Loc} {v : Nat}
    (hrel : o.releases = true) (hacq : o'.acquires = true)
    (hext : (m.write reader (.slot i) o MAX).Ext m2) (h : m2.read scanner (.slot i) o' (m.len (.slot i)) = some (m3, v)) :
    v = MAX ∧ (m.tv reader).cur ≤ (m3.tv scanner).cur :=
  mp_release_acquire m reader scanner (.slot i) o o' MAX hrel hacq hext h

/-- the orders of the source give that edge -/
theorem gen_unlock_scan_orders : genOrders.unlockStore.releases = true ∧ genOrders.scanSlot.acquires = true := by decide

/-! ### The memory model really is weak: store buffering -/

/-- store buffering: `x = y = 0`; thread 1: `x := 1; r1 := y`; thread 2: `y := 1; r2 := x`, with store
order `so`, load order `lo` and an optional fence between store and load; the loads try to read the
INITIAL messages.  `some (0, 0)` = that execution exists in the view model. -/
def sbRun (so lo : Core.Ord) (fence : Option Core.Ord) : Option (Nat × Nat) :=
  let m0 : Mem Nat := Mem.init (fun _ => 0)
  let m1 := m0.write 1 0 so 1
  let m1 := match fence with | some f => m1.fence 1 f | none => m1
  let m2 := m1.write 2 1 so 1
  let m2 := match fence with | some f => m2.fence 2 f | none => m2
  match m2.read 1 1 lo 0 with
  | none => none
  | some (m3, r1) =>
    match m3.read 2 0 lo 0 with
    | none => none
    | some (_, r2) => some (r1, r2)

/-- both threads may read 0 with relaxed accesses, with release/acquire accesses, and even with
acquire-release fences in between — the model exhibits the store-buffer delay the property is about;
with `seq_cst` fences that execution does not exist -/
theorem memview_store_buffering :
    sbRun .rlx .rlx none = some (0, 0) ∧ sbRun .rel .acq none = some (0, 0) ∧
    sbRun .rel .acq (some .acqrel) = some (0, 0) ∧ sbRun .rlx .rlx (some .sc) = none := by decide

/-- in general: of two threads that each store and then execute an SC fence, the one whose fence
comes second reads the other's store (or a later one) — for every memory, every order of the
accesses, whatever else happens in between -/
theorem memview_sc_fences_forbid_store_buffering {L : Type} [DecidableEq L] (m : Mem L) (a b : Nat) (x y : L)
    (o1 o2 o3 : Core.Ord) (v w : Nat) {m2 m3 m4 : Mem L} {ts r : Nat}
    (h1 : ((m.write a x o1 v).fence a .sc).Ext m2)
    (h2 : ((m2.write b y o2 w).fence b .sc).Ext m3)
    (h3 : m3.read b x o3 ts = some (m4, r)) : m.len x ≤ ts := by
  have h := sc_fence_dekker_read (m.write a x o1 v) a b x o3 ts r
    (h1.trans (Mem.write_ext m2 b y o2 w)) h2 h3
  simp [TView.wrote] at h
  omega

/-! ### The sequentially consistent corollary -/

theorem stepSC_step {c : Cfg} {o : Orders} {s s' : State} (h : StepSC c o s s') : Step c o s s' := by
  cases h
  case act t l hst => exact Step.act s t _ s' l hst
  case other hs _ _ => exact hs

/-- **epoch_safety_sc.**  The same statement for sequentially consistent executions (every load
reads the latest message) — what VRT replays; a special case of the view theorem. -/
theorem epoch_safety_sc (c : Cfg) (o : Orders) (hbs : 0 < c.bs) (ho : o.Safe) (s : State)
    (hr : Reachable (· = State.init c) (StepSC c o) s)
    (e i : Nat) (V : View Loc) (hrecl : s.recl e = true) (hfv : s.fv i = some V) : s.pv e ≤ V := by
  have key : ∀ s, Reachable (· = State.init c) (StepSC c o) s → Reach c o s := by
    intro s hr
    induction hr with
    | base h => exact Reachable.base h
    | tail _ hst ih => exact Reachable.tail ih (stepSC_step hst)
  exact epoch_safety_view c o hbs ho s (key s hr) e i V hrecl hfv

/-! ### Negative controls: what a weakened order turns the theorem into -/

/-- one block of one slot, Accessor style -/
def cfgCE : Cfg := { tls := false, bs := 1, n0 := 0, nb0 := 1 }

/-- the reader's fence weakened from `seq_cst` to `release` -/
def weakFenceOrders : Orders := { genOrders with lockFence := .rel }

/-- thread 1: create accessor 0, lock (load version 0, store it, fence);
thread 2: `ptr := 1` (release), tick → 1, publish on a channel (release);
thread 3: acquire the channel, low_water_mark(): reads the table, the accessor count 1, and a STALE
`UINT64_MAX` from slot 0 (admissible: nothing orders the reader's store before the tick). -/
def weakFenceSchedule : List Mv := [
  .create 1, .act 1 0, .act 1 0,
  .lock 1 0, .act 1 0, .act 1 0, .act 1 0, .act 1 0,
  .cstore 2 0 .rel 1, .tick 2, .act 2 0,
  .cstore 2 1 .rel 1, .cload 3 1 .acq 1,
  .scan 3, .act 3 0, .act 3 1, .act 3 0]

/-- epoch 1 is reclaimable, region 0 is open, its view lacks the unlink, and its next load of `ptr`
(client cell 0) may return the old value 0 -/
def unsafeState (s : State) : Bool :=
  s.recl 1 &&
  (match s.fv 0 with
   | some V => !(decide (s.pv 1 ≤ V)) && (match clientLoad s 1 0 .acq 0 with
       | some (_, .ld "cl" 0 _ v) => v == 0
       | _ => false)
   | none => false)

/-- **epoch_without_fence_counterexample.**  With the reader's `seq_cst` fence replaced by a release
fence the safety statement is false: an explicit 3-thread execution of the view model reaches a
state where epoch 1 is reclaimable while an open region can still read the old pointer. -/
theorem epoch_without_fence_counterexample :
    ∃ s, Reach cfgCE weakFenceOrders s ∧ s.recl 1 = true ∧
      ∃ V, s.fv 0 = some V ∧ ¬ s.pv 1 ≤ V ∧ ∃ s', clientLoad s 1 0 .acq 0 = some (s', .ld "cl" 0 .acq 0) := by
  have h : observe cfgCE weakFenceOrders weakFenceSchedule unsafeState = true := by decide
  obtain ⟨s, hr, hp⟩ := observe_sound h
  refine ⟨s, hr, ?_⟩
  unfold unsafeState at hp
  simp only [Bool.and_eq_true] at hp
  obtain ⟨h1, h2⟩ := hp
  refine ⟨h1, ?_⟩
  split at h2
  · rename_i V hV
    simp only [Bool.and_eq_true, Bool.not_eq_true', decide_eq_false_iff_not] at h2
    refine ⟨V, hV, h2.1, ?_⟩
    have h3 := h2.2
    split at h3
    · rename_i s' o' v hl
      simp only [beq_iff_eq] at h3
      subst h3
      unfold clientLoad at hl ⊢
      split at hl
      · cases hl
      · rename_i m v' hread
        simp only [Option.some.injEq, Prod.mk.injEq] at hl
        obtain ⟨rfl, hl2⟩ := hl
        simp only [actLd, Loc.name] at hl2
        cases hl2
        exact ⟨_, rfl⟩
    · cases h3
  · cases h2

/-- positive control: with the orders of the source the same schedule is NOT an execution — the
stale read of the slot is inadmissible (the tick's view contains the reader's store) -/
theorem epoch_with_fence_schedule_blocked :
    run cfgCE genOrders (State.init cfgCE) weakFenceSchedule = none ∧
    (run cfgCE genOrders (State.init cfgCE) (weakFenceSchedule.take 16)).isSome = true := by decide

/-- thread 2 unlinks (`ptr := 1`, release) and starts the tick of the NON-x86 branch (relaxed RMW);
thread 1 locks, reads the NEW version 1, publishes it, fences; thread 2 fences and scans: it reads
version 1 from the slot, so `low_water_mark() = 1 ≥ 1`. -/
def nonX86Schedule : List Mv := [
  .create 1, .act 1 0, .act 1 0,
  .cstore 2 0 .rel 1, .tick 2, .act 2 0,
  .lock 1 0, .act 1 0, .act 1 1, .act 1 0, .act 1 0,
  .act 2 0,
  .scan 2, .act 2 0, .act 2 1, .act 2 1]

/-- **epoch_tick_nonx86_counterexample.**  The branch of `tick` this build does NOT compile
(`fetch_add(relaxed)` followed by `atomic_thread_fence(seq_cst)`, taken from the source by the
translator as `altOrders`) is unsafe in the view model: the version increment is not ordered after
the unlink, a reader can publish the new version without seeing the unlink, and the mark reaches the
tick value while that reader can still read the old pointer.  (With a *releasing* RMW the
hypothesis `Orders.Safe` of `epoch_safety_view` holds again.) -/
theorem epoch_tick_nonx86_counterexample (h : altOrders.tickRmw = .rlx ∧ altOrders.tickFence = some .sc) :
    ∃ s, Reach cfgCE altOrders s ∧ s.recl 1 = true ∧ s.ret 2 = some 1 ∧
      ∃ V, s.fv 0 = some V ∧ ¬ s.pv 1 ≤ V := by
  have _ := h
  have hobs : observe cfgCE altOrders nonX86Schedule
      (fun s => unsafeState s && (s.ret 2 == some 1)) = true := by decide
  obtain ⟨s, hr, hp⟩ := observe_sound hobs
  refine ⟨s, hr, ?_⟩
  simp only [Bool.and_eq_true, beq_iff_eq] at hp
  obtain ⟨hu, hret⟩ := hp
  unfold unsafeState at hu
  simp only [Bool.and_eq_true] at hu
  obtain ⟨h1, h2⟩ := hu
  refine ⟨h1, hret, ?_⟩
  split at h2
  · rename_i V hV
    simp only [Bool.and_eq_true, Bool.not_eq_true', decide_eq_false_iff_not] at h2
    exact ⟨V, hV, h2.1⟩
  · cases h2

/-- the other branch of the source is (still) the one analysed above -/
theorem gen_alt_tick_branch : altOrders.tickRmw = .rlx ∧ altOrders.tickFence = some .sc := by decide

/-! ### Non-vacuity: the hypotheses of the theorems are satisfiable by real executions -/

/-- A region opened BEFORE the unlink is still open when the scan runs: the mark stays below the tick
(`low_water_mark() = 0 < 1`, epoch 1 not reclaimable).  Then the reader unlocks, a second scan
returns `UINT64_MAX`, epoch 1 becomes reclaimable, and a region opened afterwards is covered by
`epoch_safety_view` non-trivially. -/
def heldBackSchedule : List Mv := [
  .create 1, .act 1 0, .act 1 0,
  .lock 1 0, .act 1 0, .act 1 0, .act 1 0, .act 1 0,
  .cstore 2 0 .rel 1, .tick 2, .act 2 0,
  .scan 2, .act 2 0, .act 2 1, .act 2 1]

example : observe cfgCE genOrders heldBackSchedule
    (fun s => s.ret 2 == some 0 && !s.recl 1 && (s.fv 0).isSome) = true := by decide

example : observe cfgCE genOrders (heldBackSchedule ++ [
      .unlock 1 0, .act 1 0, .act 1 0,
      .scan 2, .act 2 0, .act 2 1, .act 2 2,
      .lock 1 0, .act 1 0, .act 1 1, .act 1 0, .act 1 0])
    (fun s => s.ret 2 == some MAX && s.recl 1 && (match s.fv 0 with
       | some V => decide (s.pv 1 ≤ V) && s.pub 0 == 1
       | none => false)) = true := by decide

/-- an Accessor released inside a nested region: the slot is free, closed and holds `UINT64_MAX`;
the next accessor reuses it and publishes when it locks -/
example : observe cfgCE genOrders [
      .create 1, .act 1 0, .act 1 0,
      .lock 1 0, .act 1 0, .act 1 0, .act 1 0, .act 1 0,
      .lock 1 0, .act 1 0,
      .release 1 0, .act 1 0, .act 1 0, .act 1 0,
      .tick 2, .act 2 0,
      .create 3, .act 3 1, .act 3 0,
      .lock 3 0, .act 3 0, .act 3 1, .act 3 0, .act 3 0]
    (fun s => s.own 0 == .held 3 && s.lt 0 == 1 && s.pub 0 == 1 && (s.fv 0).isSome) = true := by decide

end Babylon.Properties.C09
